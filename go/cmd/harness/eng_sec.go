package main

// Engine sec (C03 signing, C05 secrets): the keystore and the signing path of the REAL wallet
// (masswallet.WalletManager + keystore.KeystoreManager on a real on-disk LevelDB) behind the line
// protocol.  All base ops of engine `led` (wallet/addr/tx/block/submit/notify/recvtx/queries)
// are available too (ledOp), so signing runs over coins of generated chain histories.
//
// Passphrases travel as hex (`-` = empty).  Op lines (W wallet, A address, T tx, K export name):
//
//   kcreate W PASS BITS            CreateWallet with private passphrase PASS       ok | err:<class>
//   kexport W PASS K               ExportWallet; the JSON is kept as K             ok | err:pass | err:noacct
//   kimport K PASS                 ImportWallet(JSON K) + import task run          ok | err:pass | err:dup | ...
//   kimportmn W PASS SRC EXT INT   ImportWalletWithMnemonic(mnemonic of SRC)       ok:<wallet> | err:...
//   kmnemonic W PASS               GetMnemonic                                     ok | err:pass | err:noacct
//   kremove W PASS                 RemoveWallet + removal task run                 ok | err:pass | err:noacct
//   kchpub OLD NEW                 KeystoreManager.ChangePubPassphrase             ok | err:<class>
//   kchpriv W OLD NEW              ChangePrivPassphrase                            err:<class> (version 0 forbids it)
//   ksignhash W A PASS             WalletManager.SignHash with the key of A        ok | err:pass | ...
//   kssign W A PASS                KeystoreManager.SignHash (keystore level: stays unlocked)  ok | err:pass | ...
//   ksclear                        KeystoreManager.ClearPrivKey                    ok
//   krestart PUB                   reopen database + new WalletManager with PUB    ok | err:pub
//   kdecrypt W PASS                harness decrypts the stored blobs itself        ok | err:pass
//   kstate                         volatile unlock state of every keystore (hook VerifSecState)
//   klocked                        W:L (locked, nothing cached) | W:U per keystore
//   kkeys                          (bucket, key name) set of the keystore bucket tree
//   kscan                          raw scan of database KV + files + exports + errors for secrets: clean | LEAK:...
//   txlock T LOCK PAYLOAD          set lock time / payload of a defined, never mined transaction            ok
//   sign W PASS FLAG T             SignRawTx on a copy of defined transaction T    ok | err:<class>   (+ !<failed oracle>)
//   autosign W PASS FLAG KIND ARGS.. must|may   wallet-built transaction (AutoCreateRawTransaction /
//                                  CreateStakingTransaction / CreateBindingTransaction) + SignRawTx, self-checking: pass | FAIL:<why>
//
// Oracles evaluated inside `sign`/`autosign` on success: byte equality of the witness-free encoding
// before/after, witness shape, hash-type byte, btcec verification of every signature against an
// INDEPENDENT re-implementation of the signature hash, an independent txscript engine run per
// input, and "every keystore is locked again".  On failure: no bytes returned, the caller's
// transaction carries no new witness, every keystore locked.

import (
	"bytes"
	"crypto/sha256"
	"encoding/base64"
	"encoding/binary"
	"encoding/hex"
	"encoding/json"
	"errors"
	"fmt"
	"os"
	"path/filepath"
	"sort"
	"strconv"
	"strings"

	"github.com/btcsuite/btcd/btcec"
	"github.com/btcsuite/btcutil/base58"
	"github.com/massnetorg/mass-core/massutil"
	"github.com/massnetorg/mass-core/txscript"
	"github.com/massnetorg/mass-core/wire"
	"massnet.org/mass-wallet/config"
	"massnet.org/mass-wallet/masswallet"
	mwdb "massnet.org/mass-wallet/masswallet/db"
	"massnet.org/mass-wallet/masswallet/keystore"
	"massnet.org/mass-wallet/masswallet/keystore/hdkeychain"
	"massnet.org/mass-wallet/masswallet/keystore/snacl"
)

func init() {
	register(&Engine{Name: "sec", Gen: genSec, NewExec: func() Exec { return &secExec{} }})
}

type secExport struct {
	wallet string
	json   string
}

type secExec struct {
	e       *WEnv
	pub     string            // public passphrase of the running manager
	pubs    []string          // every public passphrase ever in force (all are secrets to scan for)
	pass    map[string]string // wallet -> private passphrase
	present map[string]bool   // wallet currently exists in the database
	exports map[string]*secExport
	expOrd  []string
	errs    []string // every error string returned by the implementation
	// the transaction the last successful SignRawTx returned (oracle tokens `w:`, eng_sec_oracle.go)
	lastSigned *wire.MsgTx
	// the transaction the wallet built in the last `autosign` op (oracle token `t=`)
	lastAuto *wire.MsgTx
}

func (x *secExec) env() *WEnv {
	if x.e == nil {
		x.e = NewWEnv()
		x.init()
	}
	return x.e
}

func (x *secExec) init() {
	x.pub = pubPass
	x.pubs = []string{pubPass}
	x.pass = map[string]string{}
	x.present = map[string]bool{}
	x.exports = map[string]*secExport{}
	x.expOrd = nil
	x.errs = nil
}

func (x *secExec) Reset() {
	if x.e != nil {
		x.e.reset()
		x.init()
	}
}

func (x *secExec) Close() {
	if x.e != nil {
		x.e.Close()
	}
}

func passTok(s string) (string, bool) {
	b, ok := unhexTok(s)
	return string(b), ok
}

func (x *secExec) note(err error) {
	if err != nil {
		x.errs = append(x.errs, err.Error())
		if verifDebug {
			fmt.Fprintln(os.Stderr, "  [impl error]", err)
		}
	}
}

// secErrClass maps implementation errors to the small enum shared with the Lean model.
func secErrClass(err error) string {
	switch {
	case err == nil:
		return "ok"
	case errors.Is(err, keystore.ErrInvalidPassphrase):
		return "err:pass"
	case errors.Is(err, keystore.ErrAccountNotFound):
		return "err:noacct"
	case errors.Is(err, keystore.ErrIllegalPassphrase):
		return "err:illegal"
	case errors.Is(err, keystore.ErrIllegalNewPrivPass), errors.Is(err, keystore.ErrIllegalNewPubPass):
		return "err:pubpriv"
	case errors.Is(err, keystore.ErrSamePrivpass), errors.Is(err, keystore.ErrSamePubpass):
		return "err:same"
	case errors.Is(err, keystore.ErrDuplicateSeed):
		return "err:dup"
	case errors.Is(err, keystore.ErrChangePassNotAllowed):
		return "err:notallowed"
	case errors.Is(err, keystore.ErrBadTimingForChangingPass):
		return "err:timing"
	case errors.Is(err, keystore.ErrInvalidKeystoreJson):
		return "err:json"
	case errors.Is(err, keystore.ErrUnexpectedPubKeyToSign), errors.Is(err, keystore.ErrAddressNotFound):
		return "err:key"
	case errors.Is(err, keystore.ErrCurrentKeystoreNotFound), errors.Is(err, masswallet.ErrNoWalletInUse):
		return "err:nouse"
	case errors.Is(err, masswallet.ErrUTXONotExists):
		return "err:utxo"
	case errors.Is(err, masswallet.ErrInvalidIndex):
		return "err:index"
	case errors.Is(err, masswallet.ErrDoubleSpend):
		return "err:spent"
	case errors.Is(err, masswallet.ErrInvalidFlag):
		return "err:flag"
	case errors.Is(err, masswallet.ErrWalletUnready):
		return "err:unready"
	}
	return "err:script"
}

func (x *secExec) Exec(a []string) string {
	if len(a) > 0 && a[0] == "vm" {
		return vmOp(a[1:]) // script VM ops (eng_vm.go): stateless, no wallet environment needed
	}
	e := x.env()
	if len(a) == 0 {
		return "bad-op"
	}
	switch {
	case a[0] == "wallet" && len(a) == 2:
		return x.create(a[1], privPass(a[1]), 128)
	case a[0] == "kcreate" && len(a) == 4:
		p, ok := passTok(a[2])
		bits, err := strconv.Atoi(a[3])
		if !ok || err != nil {
			return "bad-op"
		}
		return x.create(a[1], p, bits)
	case a[0] == "restart" && len(a) == 1:
		return x.restart(x.pub)
	case a[0] == "krestart" && len(a) == 2:
		p, ok := passTok(a[1])
		if !ok {
			return "bad-op"
		}
		return x.restart(p)
	case a[0] == "kexport" && len(a) == 4:
		return x.export(a[1], a[2], a[3])
	case a[0] == "kimport" && len(a) == 3:
		return x.importKS(a[1], a[2])
	case a[0] == "kimportmn" && len(a) == 6:
		return x.importMn(a[1], a[2], a[3], a[4], a[5])
	case a[0] == "kimportmnbad" && len(a) == 6:
		return x.importMnBad(a[1], a[2], a[3], a[4], a[5])
	case a[0] == "kmnemonic" && len(a) == 3:
		return x.mnemonic(a[1], a[2])
	case a[0] == "kremove" && len(a) == 3:
		return x.remove(a[1], a[2])
	case a[0] == "kchpub" && len(a) == 3:
		return x.chpub(a[1], a[2])
	case a[0] == "kchpriv" && len(a) == 4:
		return x.chpriv(a[1], a[2], a[3])
	case a[0] == "ksignhash" && len(a) == 4:
		return x.signHash(a[1], a[2], a[3])
	case a[0] == "kssign" && len(a) == 4:
		return x.ksSign(a[1], a[2], a[3])
	case a[0] == "ksclear" && len(a) == 1:
		x.e.wm.VerifKeystoreManager().ClearPrivKey()
		return "ok"
	case a[0] == "kdecrypt" && len(a) == 3:
		return x.decrypt(a[1], a[2])
	case a[0] == "kstate" && len(a) == 1:
		return x.state()
	case a[0] == "klocked" && len(a) == 1:
		return x.locked()
	case a[0] == "kkeys" && len(a) == 1:
		return x.keys()
	case a[0] == "klayout" && len(a) == 1:
		return x.layout()
	case a[0] == "kscan" && len(a) == 1:
		return x.scan()
	case a[0] == "txlock" && len(a) == 4:
		return x.txLock(a[1], a[2], a[3])
	case a[0] == "sign" && len(a) >= 5:
		res := x.sign(a[1], a[2], a[3], a[4])
		if len(a) > 5 && res != "bad-op" {
			// the oracle tokens of the line (computed when the stream was generated) must be the facts of THIS run
			if strings.Join(x.signOracle(a[1], flagTok(a[3]), a[4]), " ") != strings.Join(a[5:], " ") {
				res += "!oracle-drift"
			}
		}
		return res
	case a[0] == "autosign" && len(a) >= 6:
		// oracle tokens (if any) follow the must|may word
		end := len(a)
		for i := 5; i < len(a); i++ {
			if a[i] == "must" || a[i] == "may" {
				end = i + 1
				break
			}
		}
		res := x.autosign(a[1:end])
		if end < len(a) && res != "bad-op" {
			// the wallet orders the outputs of a transaction it builds by Go map iteration (AutoCreateRawTransaction takes a
			// map of amounts): digests, signatures and witnesses of a multi-output draft differ from run to run, so only
			// the run-independent facts (inputs chosen, addresses, keys, redeem-script hashes) are compared here
			if got := strings.Join(secStableToks(x.autoOracle(a[1], flagTok(a[3]))), " "); got != strings.Join(secStableToks(a[end:]), " ") {
				if verifDebug {
					fmt.Fprintln(os.Stderr, "  [oracle drift] recomputed:", got)
				}
				res += "!oracle-drift"
			}
		}
		return res
	}
	return ledOp(e, a)
}

// ---------------------------------------------------------------- lifecycle

func (x *secExec) reopen(pub string) error {
	e := x.e
	if e.wdb != nil {
		e.wdb.Close()
		e.wdb = nil
	}
	e.wm = nil
	db, err := mwdb.OpenDB("leveldb", e.wdbPath)
	if err != nil {
		return err
	}
	wm, err := masswallet.NewWalletManager(e.srv, db, e.cfg, config.ChainParams, pub)
	if err != nil {
		db.Close()
		return err
	}
	e.wdb = db
	e.wm = wm
	return nil
}

func (x *secExec) restart(pub string) string {
	err := x.reopen(pub)
	if err == nil {
		if pub != x.pub {
			x.pubs = append(x.pubs, pub)
		}
		x.pub = pub
		return "ok"
	}
	x.note(err)
	// the database must still open with the passphrase in force
	if err2 := x.reopen(x.pub); err2 != nil {
		return "err:pub!cannot-reopen"
	}
	return "err:pub"
}

func (x *secExec) create(w, pass string, bits int) string {
	e := x.e
	if _, dup := e.wallets[w]; dup {
		return "bad-op"
	}
	var id, mn string
	var err error
	// the entropy of wallet W is a function of its name (a value, see eng_sec_oracle.go)
	secDetCreate(w, bits, func() { id, mn, _, err = e.wm.CreateWallet(pass, "", bits) })
	if err != nil {
		x.note(err)
		return secErrClass(err)
	}
	e.wallets[w] = id
	e.walletRev[id] = w
	e.mnemonic[w] = mn
	x.pass[w] = pass
	x.present[w] = true
	return "ok"
}

func (x *secExec) wid(w string) (string, bool) {
	id, ok := x.e.wallets[w]
	return id, ok
}

func (x *secExec) export(w, passHex, k string) string {
	id, ok := x.wid(w)
	p, ok2 := passTok(passHex)
	if !ok || !ok2 {
		return "bad-op"
	}
	js, err := x.e.wm.ExportWallet(id, p)
	if err != nil {
		x.note(err)
		if js != "" {
			return secErrClass(err) + "!returned-data"
		}
		return secErrClass(err)
	}
	if _, dup := x.exports[k]; !dup {
		x.expOrd = append(x.expOrd, k)
	}
	x.exports[k] = &secExport{wallet: w, json: js}
	var ks keystore.Keystore
	if json.Unmarshal([]byte(js), &ks) != nil {
		return "ok!not-json"
	}
	return "ok"
}

func (x *secExec) runImport(id string) error {
	e := x.e
	e.wm.VerifDrainTasks()
	for i := 0; i < 1000; i++ {
		fin, err := e.wm.VerifImportStep(id)
		if err != nil {
			return err
		}
		if fin {
			return nil
		}
	}
	return fmt.Errorf("import does not finish")
}

func (x *secExec) importKS(k, passHex string) string {
	ex, ok := x.exports[k]
	p, ok2 := passTok(passHex)
	if !ok || !ok2 {
		return "bad-op"
	}
	e := x.e
	e.wm.VerifEnsureTaskChan()
	ws, err := e.wm.ImportWallet(ex.json, p)
	if err != nil {
		x.note(err)
		return secErrClass(err)
	}
	if ws.WalletID != e.wallets[ex.wallet] {
		return "ok!other-id"
	}
	if err := x.runImport(ws.WalletID); err != nil {
		x.note(err)
		return "ok!import-task"
	}
	x.present[ex.wallet] = true
	// the passphrase of a keystore file is the one it was exported under
	return "ok"
}

func (x *secExec) importMn(w, passHex, src, ext, inr string) string {
	e := x.e
	p, ok := passTok(passHex)
	mn, ok2 := e.mnemonic[src]
	ei, err1 := strconv.ParseUint(ext, 10, 32)
	ii, err2 := strconv.ParseUint(inr, 10, 32)
	if !ok || !ok2 || err1 != nil || err2 != nil {
		return "bad-op"
	}
	e.wm.VerifEnsureTaskChan()
	ws, err := e.wm.ImportWalletWithMnemonic(&keystore.WalletParams{
		Version: keystore.KeystoreVersion0, Mnemonic: mn, PrivatePassphrase: []byte(p),
		ExternalIndex: uint32(ei), InternalIndex: uint32(ii), AddressGapLimit: e.cfg.Wallet.Settings.AddressGapLimit})
	if err != nil {
		x.note(err)
		return secErrClass(err)
	}
	if err := x.runImport(ws.WalletID); err != nil {
		x.note(err)
		return "ok!import-task"
	}
	name, known := e.walletRev[ws.WalletID]
	if !known {
		if _, dup := e.wallets[w]; dup {
			return "bad-op"
		}
		name = w
		e.wallets[w] = ws.WalletID
		e.walletRev[ws.WalletID] = w
		e.mnemonic[w] = mn
	}
	x.pass[name] = p
	x.present[name] = true
	return "ok:" + name
}

// importMnBad: restore from the sentence of SRC with ONE word spelled the way users mis-type it (capitalised, trailing
// comma, numbered "7.word"); the import must be refused and the refusal must not echo the sentence: the error text is
// searched, case-insensitively, for the mis-typed token and for every word of the sentence that does not already occur in
// the refusal of a sentence of twelve non-words (the control fixes which words the constant message itself contains).
// Seed C05-4: EntropyFromMnemonic wrapped the offending word into its error.
func (x *secExec) importMnBad(w, passHex, src, kind, jTok string) string {
	e := x.e
	p, ok := passTok(passHex)
	mn, ok2 := e.mnemonic[src]
	j, err0 := strconv.Atoi(jTok)
	words := strings.Fields(mn)
	if !ok || !ok2 || err0 != nil || j < 0 || j >= len(words) {
		return "bad-op"
	}
	bad := append([]string{}, words...)
	switch kind {
	case "cap":
		bad[j] = strings.ToUpper(bad[j][:1]) + bad[j][1:]
	case "comma":
		bad[j] = bad[j] + ","
	case "num":
		bad[j] = fmt.Sprintf("%d.%s", j+1, bad[j])
	case "upper":
		bad[j] = strings.ToUpper(bad[j])
	default:
		return "bad-op"
	}
	imp := func(sentence string) error {
		e.wm.VerifEnsureTaskChan()
		_, err := e.wm.ImportWalletWithMnemonic(&keystore.WalletParams{
			Version: keystore.KeystoreVersion0, Mnemonic: sentence, PrivatePassphrase: []byte(p),
			AddressGapLimit: e.cfg.Wallet.Settings.AddressGapLimit})
		return err
	}
	ctl := imp(strings.TrimSpace(strings.Repeat("zzzzq ", len(words))))
	err := imp(strings.Join(bad, " "))
	if err == nil || ctl == nil {
		return "ok!accepted"
	}
	x.note(err)
	ctlMsg, msg := strings.ToLower(ctl.Error()), strings.ToLower(err.Error())
	// a token counts as echoed only when the refusal contains it MORE often than the refusal of the control sentence does
	// (the constant message itself contains list words, e.g. "work": found by the thorough tier on the unchanged tree)
	if tok := strings.ToLower(bad[j]); strings.Count(msg, tok) > strings.Count(ctlMsg, tok) {
		return "refused:LEAK:mistyped-word@error"
	}
	for _, wd := range words {
		if len(wd) >= 4 && strings.Count(msg, wd) > strings.Count(ctlMsg, wd) {
			return "refused:LEAK:mnemonic-word@error"
		}
	}
	return "refused:clean"
}

func (x *secExec) mnemonic(w, passHex string) string {
	id, ok := x.wid(w)
	p, ok2 := passTok(passHex)
	if !ok || !ok2 {
		return "bad-op"
	}
	mn, _, err := x.e.wm.GetMnemonic(id, p)
	if err != nil {
		x.note(err)
		if mn != "" {
			return secErrClass(err) + "!returned-data"
		}
		return secErrClass(err)
	}
	if mn != x.e.mnemonic[w] {
		return "ok!mismatch"
	}
	return "ok"
}

func (x *secExec) remove(w, passHex string) string {
	id, ok := x.wid(w)
	p, ok2 := passTok(passHex)
	if !ok || !ok2 {
		return "bad-op"
	}
	e := x.e
	e.wm.VerifEnsureTaskChan()
	if err := e.wm.RemoveWallet(id, p); err != nil {
		x.note(err)
		return secErrClass(err)
	}
	e.wm.VerifDrainTasks()
	if err := e.wm.VerifRemoveRun(id); err != nil {
		x.note(err)
		return "ok!remove-task"
	}
	x.present[w] = false
	return "ok"
}

func (x *secExec) chpub(oldHex, newHex string) string {
	o, ok := passTok(oldHex)
	n, ok2 := passTok(newHex)
	if !ok || !ok2 {
		return "bad-op"
	}
	e := x.e
	err := mwdb.Update(e.wm.VerifDB(), func(tx mwdb.DBTransaction) error {
		return e.wm.VerifKeystoreManager().ChangePubPassphrase(tx, []byte(o), []byte(n), nil)
	})
	if err != nil {
		x.note(err)
		return secErrClass(err)
	}
	x.pub = n
	x.pubs = append(x.pubs, n)
	return "ok"
}

func (x *secExec) chpriv(w, oldHex, newHex string) string {
	o, ok := passTok(oldHex)
	n, ok2 := passTok(newHex)
	if !ok || !ok2 {
		return "bad-op"
	}
	if err := x.e.Use(w); err != nil {
		x.note(err)
		return "err:use"
	}
	err := x.e.wm.ChangePrivPassphrase(o, n)
	if err != nil {
		x.note(err)
		return secErrClass(err)
	}
	x.pass[w] = n
	return "ok"
}

var secSignHashMsg = sha256.Sum256([]byte("verif:sec:signhash"))

func (x *secExec) signHash(w, a, passHex string) string {
	p, ok := passTok(passHex)
	ai, ok2 := x.e.addrs[a]
	if !ok || !ok2 || ai.wallet != w {
		return "bad-op"
	}
	ma, err := x.e.wm.VerifKeystoreManager().GetManagedAddressByStdAddress(ai.stdEnc)
	if err != nil {
		x.note(err)
		return secErrClass(err)
	}
	sig, err := x.e.wm.SignHash(ma.PubKey(), secSignHashMsg[:], []byte(p))
	if err != nil {
		x.note(err)
		if sig != nil {
			return secErrClass(err) + "!returned-data"
		}
		return secErrClass(err)
	}
	if !sig.Verify(secSignHashMsg[:], ma.PubKey()) {
		return "ok!bad-signature"
	}
	return "ok"
}

// ksSign: KeystoreManager.SignHash – the keystore-level entry point: it unlocks the address manager and
// leaves it unlocked (the callers in package masswallet clear afterwards).
func (x *secExec) ksSign(w, a, passHex string) string {
	p, ok := passTok(passHex)
	ai, ok2 := x.e.addrs[a]
	if !ok || !ok2 || ai.wallet != w {
		return "bad-op"
	}
	km := x.e.wm.VerifKeystoreManager()
	ma, err := km.GetManagedAddressByStdAddress(ai.stdEnc)
	if err != nil {
		x.note(err)
		return secErrClass(err)
	}
	sig, err := km.SignHash(ma.PubKey(), secSignHashMsg[:], []byte(p))
	if err != nil {
		x.note(err)
		if sig != nil {
			return secErrClass(err) + "!returned-data"
		}
		return secErrClass(err)
	}
	if !sig.Verify(secSignHashMsg[:], ma.PubKey()) {
		return "ok!bad-signature"
	}
	return "ok"
}

// ---------------------------------------------------------------- volatile state

func allZero(b []byte) bool {
	for _, c := range b {
		if c != 0 {
			return false
		}
	}
	return true
}

// state: "W:<L|U>:<mk z|v|g>:<hashed 0|1>:<cryptoKeyPriv 0|1>:<acctPriv 0|1>:<branchPrivs 0..2>:<cached addr keys>"
func (x *secExec) state() string {
	var items []string
	for _, s := range x.e.wm.VerifKeystoreManager().VerifSecState() {
		name, ok := x.e.walletRev[s.Name]
		if !ok {
			name = "?" + s.Name
		}
		lk := "L"
		if s.Unlocked {
			lk = "U"
		}
		// "v": the buffer holds the VALID master private key; "-": zeroed, or the residue of a refused
		// derivation (scrypt of a wrong passphrase: not a secret, never read again)
		mk := "-"
		if !allZero(s.MasterPrivKey) {
			d := sha256.Sum256(s.MasterPrivKey)
			if bytes.Equal(d[:], s.MasterPrivDigest) {
				mk = "v"
			}
		}
		b2i := func(b bool) int {
			if b {
				return 1
			}
			return 0
		}
		items = append(items, fmt.Sprintf("%s:%s:%s:%d:%d:%d:%d:%d", name, lk, mk, b2i(!allZero(s.HashedPrivPass)),
			b2i(!allZero(s.CryptoKeyPriv)), b2i(s.HasAcctKeyPriv), b2i(s.HasExternalBranch)+b2i(s.HasInternalBranch), len(s.AddrsWithPrivKey)))
	}
	return joinSorted(items)
}

func secInfoLocked(s keystore.VerifSecInfo) bool {
	validMk := false
	if !allZero(s.MasterPrivKey) {
		d := sha256.Sum256(s.MasterPrivKey)
		validMk = bytes.Equal(d[:], s.MasterPrivDigest)
	}
	return !(s.Unlocked || !allZero(s.HashedPrivPass) || validMk || !allZero(s.CryptoKeyPriv) ||
		s.HasAcctKeyPriv || s.HasExternalBranch || s.HasInternalBranch || len(s.AddrsWithPrivKey) != 0)
}

// lockedAll: every keystore is back in the locked state with nothing cached.
func (x *secExec) lockedAll() bool {
	for _, s := range x.e.wm.VerifKeystoreManager().VerifSecState() {
		if !secInfoLocked(s) {
			return false
		}
	}
	return true
}

// locked: "W:L" (locked, no key material cached) / "W:U" per keystore.
func (x *secExec) locked() string {
	var items []string
	for _, s := range x.e.wm.VerifKeystoreManager().VerifSecState() {
		name, ok := x.e.walletRev[s.Name]
		if !ok {
			name = "?" + s.Name
		}
		if secInfoLocked(s) {
			items = append(items, name+":L")
		} else {
			items = append(items, name+":U")
		}
	}
	return joinSorted(items)
}

// ---------------------------------------------------------------- raw database access

type secKV struct {
	path string // bucket path, "/"-joined
	key  []byte
	val  []byte
}

func walkBucket(b mwdb.Bucket, path string, out *[]secKV) error {
	subs, err := b.BucketNames()
	if err != nil {
		return err
	}
	ents, err := b.GetByPrefix(nil)
	if err != nil {
		return err
	}
	for _, en := range ents {
		*out = append(*out, secKV{path: path, key: en.Key, val: en.Value})
	}
	for _, s := range subs {
		sb := b.Bucket(s)
		if sb == nil {
			return fmt.Errorf("listed sub-bucket %s/%s not found", path, s)
		}
		if err := walkBucket(sb, path+"/"+s, out); err != nil {
			return err
		}
	}
	return nil
}

// dumpDB returns every key/value pair of every bucket of the wallet database, through the very
// db.DB the WalletManager uses.
func (x *secExec) dumpDB() ([]secKV, error) {
	var out []secKV
	err := mwdb.View(x.e.wm.VerifDB(), func(tx mwdb.ReadTransaction) error {
		names, err := tx.BucketNames()
		if err != nil {
			return err
		}
		sort.Strings(names)
		for _, n := range names {
			b := tx.TopLevelBucket(n)
			if b == nil {
				return fmt.Errorf("listed bucket %s not found", n)
			}
			if err := walkBucket(b, n, &out); err != nil {
				return err
			}
		}
		return nil
	})
	return out, err
}

func printable(b []byte) bool {
	if len(b) == 0 {
		return false
	}
	for _, c := range b {
		if !(c >= 'a' && c <= 'z' || c >= 'A' && c <= 'Z' || c >= '0' && c <= '9') {
			return false
		}
	}
	return true
}

// keys: the (bucket, key name) set below the keystore bucket "k", canonical:
//   aid/W  W/<name>  W/acct<n>  W/pub/<branch>.<index>
func (x *secExec) keys() string {
	kvs, err := x.dumpDB()
	if err != nil {
		return "err"
	}
	var items []string
	for _, kv := range kvs {
		p := strings.Split(kv.path, "/")
		if p[0] != "k" {
			continue
		}
		if len(p) < 3 || p[1] != "km" {
			items = append(items, "?"+kv.path+"/"+hex.EncodeToString(kv.key))
			continue
		}
		switch {
		case p[2] == "aid" && len(p) == 3:
			n, ok := x.e.walletRev[string(kv.key)]
			if !ok {
				n = "?" + string(kv.key)
			}
			items = append(items, "aid/"+n)
		case len(p) == 3:
			n, ok := x.e.walletRev[p[2]]
			if !ok {
				n = "?" + p[2]
			}
			switch {
			case printable(kv.key):
				items = append(items, n+"/"+string(kv.key))
			case len(kv.key) == 4:
				items = append(items, fmt.Sprintf("%s/acct%d", n, binary.LittleEndian.Uint32(kv.key)))
			default:
				items = append(items, n+"/?"+hex.EncodeToString(kv.key))
			}
		case len(p) == 4 && p[3] == "pub" && len(kv.key) == 8:
			n, ok := x.e.walletRev[p[2]]
			if !ok {
				n = "?" + p[2]
			}
			items = append(items, fmt.Sprintf("%s/pub/%d.%d", n, binary.LittleEndian.Uint32(kv.key[:4]), binary.LittleEndian.Uint32(kv.key[4:])))
		default:
			items = append(items, "?"+kv.path+"/"+hex.EncodeToString(kv.key))
		}
	}
	return joinSorted(items)
}

func (x *secExec) acctBucketKV(id string) map[string][]byte {
	kvs, err := x.dumpDB()
	if err != nil {
		return nil
	}
	m := map[string][]byte{}
	for _, kv := range kvs {
		if kv.path == "k/km/"+id {
			m[string(kv.key)] = kv.val
		}
	}
	return m
}

// ---------------------------------------------------------------- secrets the harness knows

type secNeedle struct {
	what string
	b    []byte
}

type walletSecrets struct {
	entropy  []byte
	seed     []byte
	acctXprv string
	needles  []secNeedle
}

func leftPad32(b []byte) []byte {
	if len(b) >= 32 {
		return b
	}
	out := make([]byte, 32)
	copy(out[32-len(b):], b)
	return out
}

// deriveSecrets recomputes, independently of the wallet, everything that follows from
// (mnemonic, passphrase): entropy, BIP-39 seed, the extended private keys on the path
// m/44'/coin'/1'/{0,1}/i and the 32-byte scalars of the first nExt / nInt addresses.
var secretsCache = map[string]*walletSecrets{}

func deriveSecrets(w, mnemonic, pass string, nExt, nInt uint32) (*walletSecrets, error) {
	ck := fmt.Sprintf("%s|%s|%s|%d|%d", w, mnemonic, pass, nExt, nInt)
	if c, ok := secretsCache[ck]; ok {
		return c, nil
	}
	if len(secretsCache) > 4096 {
		secretsCache = map[string]*walletSecrets{}
	}
	ws, err := deriveSecretsUncached(w, mnemonic, pass, nExt, nInt)
	if err == nil {
		secretsCache[ck] = ws
	}
	return ws, err
}

func deriveSecretsUncached(w, mnemonic, pass string, nExt, nInt uint32) (*walletSecrets, error) {
	ws := &walletSecrets{}
	add := func(what string, b []byte) {
		if len(b) > 0 {
			ws.needles = append(ws.needles, secNeedle{w + ":" + what, append([]byte{}, b...)})
		}
	}
	add("mnemonic", []byte(mnemonic))
	words := strings.Fields(mnemonic)
	for i := 0; i+4 <= len(words); i++ {
		add(fmt.Sprintf("mnemonic-words[%d..%d]", i, i+3), []byte(strings.Join(words[i:i+4], " ")))
	}
	ent, err := keystore.EntropyFromMnemonic(mnemonic)
	if err != nil {
		return nil, err
	}
	ws.entropy = ent
	add("entropy", ent)
	seed := keystore.NewSeed(mnemonic, pass)
	ws.seed = seed
	add("seed", seed)
	add("seed[:32]", seed[:32])
	add("seed[32:]", seed[32:])
	addKey := func(what string, k *hdkeychain.ExtendedKey) {
		add(what+"-xprv", []byte(k.String()))
		if pk, err := k.ECPrivKey(); err == nil {
			add(what+"-scalar", leftPad32(pk.D.Bytes()))
		}
	}
	root, err := hdkeychain.NewMaster(seed, config.ChainParams)
	if err != nil {
		return nil, err
	}
	addKey("root", root)
	path := []uint32{44 + hdkeychain.HardenedKeyStart, config.ChainParams.HDCoinType + hdkeychain.HardenedKeyStart, uint32(keystore.WalletUsage) + hdkeychain.HardenedKeyStart}
	k := root
	for d, c := range path {
		k, err = k.Child(c)
		if err != nil {
			return nil, err
		}
		addKey(fmt.Sprintf("path%d", d+1), k)
	}
	ws.acctXprv = k.String()
	for br, n := range []uint32{nExt, nInt} {
		bk, err := k.Child(uint32(br))
		if err != nil {
			return nil, err
		}
		addKey(fmt.Sprintf("branch%d", br), bk)
		for i := uint32(0); i < n; i++ {
			ck, err := bk.Child(i)
			if err != nil {
				continue
			}
			addKey(fmt.Sprintf("addr%d.%d", br, i), ck)
		}
	}
	return ws, nil
}

// storedKeys decrypts, with the passphrases the harness knows, the random keys kept in the
// account bucket (they are secrets too: the master keys and the three crypto keys).
func (x *secExec) storedKeys(w string) []secNeedle {
	id := x.e.wallets[w]
	kv := x.acctBucketKV(id)
	if kv == nil {
		return nil
	}
	var out []secNeedle
	add := func(what string, b []byte) {
		if len(b) > 0 {
			out = append(out, secNeedle{w + ":" + what, append([]byte{}, b...)})
		}
	}
	var mpriv snacl.SecretKey
	p := []byte(x.pass[w])
	if mpriv.Unmarshal(kv["mpriv"]) == nil && mpriv.DeriveKey(&p) == nil {
		add("master-priv-key", mpriv.Key[:])
		if b, err := mpriv.Decrypt(kv["cpriv"]); err == nil {
			add("crypto-key-priv", b)
		}
		if b, err := mpriv.Decrypt(kv["cent"]); err == nil {
			add("crypto-key-entropy", b)
		}
	}
	for _, pp := range x.pubs {
		var mpub snacl.SecretKey
		q := []byte(pp)
		if mpub.Unmarshal(kv["mpub"]) == nil && mpub.DeriveKey(&q) == nil {
			add("master-pub-key", mpub.Key[:])
			if b, err := mpub.Decrypt(kv["cpub"]); err == nil {
				add("crypto-key-pub", b)
			}
		}
	}
	return out
}

func encodings(n secNeedle) []secNeedle {
	h := hex.EncodeToString(n.b)
	return []secNeedle{
		{n.what + "/raw", n.b},
		{n.what + "/hex", []byte(h)},
		{n.what + "/HEX", []byte(strings.ToUpper(h))},
		{n.what + "/base58", []byte(base58.Encode(n.b))},
		{n.what + "/base64", []byte(base64.StdEncoding.EncodeToString(n.b))},
	}
}

func (x *secExec) allNeedles() []secNeedle {
	var ns []secNeedle
	names := make([]string, 0, len(x.e.wallets))
	for w := range x.e.wallets {
		names = append(names, w)
	}
	sort.Strings(names)
	for _, w := range names {
		nExt, nInt := uint32(0), uint32(0)
		for _, ai := range x.e.addrs {
			if ai.wallet == w {
				nExt++
			}
		}
		nExt += 3 // restored / unnamed indexes
		nInt = 3
		ws, err := deriveSecrets(w, x.e.mnemonic[w], x.pass[w], nExt, nInt)
		if err == nil {
			ns = append(ns, ws.needles...)
		}
		ns = append(ns, secNeedle{w + ":priv-passphrase", []byte(x.pass[w])})
		if x.present[w] {
			ns = append(ns, x.storedKeys(w)...)
		}
	}
	for i, p := range x.pubs {
		ns = append(ns, secNeedle{fmt.Sprintf("pub-passphrase#%d", i), []byte(p)})
	}
	var out []secNeedle
	for _, n := range ns {
		if len(n.b) < 6 {
			continue // too short to be searched for without false alarms (never generated for right passphrases)
		}
		out = append(out, encodings(n)...)
	}
	return out
}

// scan looks for every known secret in every persisted or returned byte string.
func (x *secExec) scan() string {
	type hay struct {
		where string
		b     []byte
	}
	var hs []hay
	kvs, err := x.dumpDB()
	if err != nil {
		return "err"
	}
	for _, kv := range kvs {
		hs = append(hs, hay{"db:" + kv.path + "/" + hex.EncodeToString(kv.key) + ":key", kv.key})
		hs = append(hs, hay{"db:" + kv.path + "/" + hex.EncodeToString(kv.key) + ":value", kv.val})
	}
	files, _ := filepath.Glob(filepath.Join(x.e.wdbPath, "*"))
	sort.Strings(files)
	for _, f := range files {
		if b, err := os.ReadFile(f); err == nil {
			hs = append(hs, hay{"file:" + filepath.Base(f), b})
		}
	}
	for _, k := range x.expOrd {
		hs = append(hs, hay{"export:" + k, []byte(x.exports[k].json)})
	}
	for i, s := range x.errs {
		hs = append(hs, hay{fmt.Sprintf("error#%d", i), []byte(s)})
	}
	for _, n := range x.allNeedles() {
		for _, h := range hs {
			if bytes.Contains(h.b, n.b) {
				where := h.where
				for id, name := range x.e.walletRev { // symbolic names only
					where = strings.ReplaceAll(where, id, name)
				}
				return "LEAK:" + n.what + "@" + where
			}
		}
	}
	return "clean"
}

// decrypt: the harness opens the stored blobs itself (snacl only): the master private key params
// accept exactly the right passphrase, and what lies below is what the mnemonic derives.
func (x *secExec) decrypt(w, passHex string) string {
	id, ok := x.wid(w)
	p, ok2 := passTok(passHex)
	if !ok || !ok2 {
		return "bad-op"
	}
	kv := x.acctBucketKV(id)
	if len(kv) == 0 {
		return "err:noacct"
	}
	var mpriv snacl.SecretKey
	pb := []byte(p)
	if err := mpriv.Unmarshal(kv["mpriv"]); err != nil {
		return "err:params"
	}
	if err := mpriv.DeriveKey(&pb); err != nil {
		if err == snacl.ErrInvalidPassword {
			return "err:pass"
		}
		return "err:derive"
	}
	nA := uint32(0)
	ws, err := deriveSecrets(w, x.e.mnemonic[w], x.pass[w], nA, 0)
	if err != nil {
		return "ok!derive"
	}
	ckp, err := mpriv.Decrypt(kv["cpriv"])
	if err != nil || len(ckp) != 32 {
		return "ok!cpriv"
	}
	cke, err := mpriv.Decrypt(kv["cent"])
	if err != nil || len(cke) != 32 {
		return "ok!cent"
	}
	var ck, ce snacl.CryptoKey
	copy(ck[:], ckp)
	copy(ce[:], cke)
	ent, err := ce.Decrypt(kv["ent"])
	if err != nil || !bytes.Equal(ent, ws.entropy) {
		return "ok!entropy"
	}
	row := kv[string([]byte{1, 0, 0, 0})]
	if len(row) < 13 {
		return "ok!acctrow"
	}
	raw := row[5:]
	pl := binary.LittleEndian.Uint32(raw[0:4])
	if int(8+pl) > len(raw) {
		return "ok!acctrow"
	}
	prl := binary.LittleEndian.Uint32(raw[4+pl : 8+pl])
	if int(8+pl+prl) > len(raw) {
		return "ok!acctrow"
	}
	xprv, err := ck.Decrypt(raw[8+pl : 8+pl+prl])
	if err != nil || string(xprv) != ws.acctXprv {
		return "ok!acct-xprv"
	}
	return "ok"
}

// ---------------------------------------------------------------- signing

var secFlags = map[string]txscript.SigHashType{
	"ALL": txscript.SigHashAll, "NONE": txscript.SigHashNone, "SINGLE": txscript.SigHashSingle,
	"ALL|ANYONECANPAY":    txscript.SigHashAll | txscript.SigHashAnyOneCanPay,
	"NONE|ANYONECANPAY":   txscript.SigHashNone | txscript.SigHashAnyOneCanPay,
	"SINGLE|ANYONECANPAY": txscript.SigHashSingle | txscript.SigHashAnyOneCanPay,
}

func flagTok(s string) string { return strings.ReplaceAll(s, "+", "|") }

func cloneTx(tx *wire.MsgTx) *wire.MsgTx {
	b, err := tx.Bytes(wire.Packet)
	if err != nil {
		panic(err)
	}
	var c wire.MsgTx
	if err := c.SetBytes(b, wire.Packet); err != nil {
		panic(err)
	}
	return &c
}

func dsha(b []byte) []byte {
	a := sha256.Sum256(b)
	c := sha256.Sum256(a[:])
	return c[:]
}

// secSigHash is an independent implementation of the signature hash the consensus engine checks
// (BIP-143 layout as adapted by mass-core: 8-byte sequence/locktime, payload, no length prefixes).
func secSigHash(tx *wire.MsgTx, idx int, ht txscript.SigHashType, script []byte, amt int64) []byte {
	var zero [32]byte
	le32 := func(v uint32) []byte { b := make([]byte, 4); binary.LittleEndian.PutUint32(b, v); return b }
	le64 := func(v uint64) []byte { b := make([]byte, 8); binary.LittleEndian.PutUint64(b, v); return b }
	var prevs, seqs, outs bytes.Buffer
	for _, in := range tx.TxIn {
		prevs.Write(in.PreviousOutPoint.Hash[:])
		prevs.Write(le32(in.PreviousOutPoint.Index))
		seqs.Write(le64(in.Sequence))
	}
	wout := func(w *bytes.Buffer, o *wire.TxOut) { w.Write(le64(uint64(o.Value))); w.Write(o.PkScript) }
	for _, o := range tx.TxOut {
		wout(&outs, o)
	}
	base := ht & 0x1f
	acp := ht&txscript.SigHashAnyOneCanPay != 0
	var m bytes.Buffer
	m.Write(le32(tx.Version))
	if !acp {
		m.Write(dsha(prevs.Bytes()))
	} else {
		m.Write(zero[:])
	}
	if !acp && base != txscript.SigHashSingle && base != txscript.SigHashNone {
		m.Write(dsha(seqs.Bytes()))
	} else {
		m.Write(zero[:])
	}
	in := tx.TxIn[idx]
	m.Write(in.PreviousOutPoint.Hash[:])
	m.Write(le32(in.PreviousOutPoint.Index))
	m.Write(script)
	m.Write(le64(uint64(amt)))
	m.Write(le64(in.Sequence))
	m.Write(tx.Payload)
	switch {
	case base != txscript.SigHashSingle && base != txscript.SigHashNone:
		m.Write(dsha(outs.Bytes()))
	case base == txscript.SigHashSingle && idx < len(tx.TxOut):
		var b bytes.Buffer
		wout(&b, tx.TxOut[idx])
		m.Write(dsha(b.Bytes()))
	default:
		m.Write(zero[:])
	}
	m.Write(le64(tx.LockTime))
	m.Write(le32(uint32(ht)))
	return dsha(m.Bytes())
}

func noWitnessBytes(tx *wire.MsgTx) []byte {
	b, err := tx.Bytes(wire.ID)
	if err != nil {
		panic(err)
	}
	return b
}

func witnessesEqual(a, b *wire.MsgTx) bool {
	if len(a.TxIn) != len(b.TxIn) {
		return false
	}
	for i := range a.TxIn {
		if len(a.TxIn[i].Witness) != len(b.TxIn[i].Witness) {
			return false
		}
		for j := range a.TxIn[i].Witness {
			if !bytes.Equal(a.TxIn[i].Witness[j], b.TxIn[i].Witness[j]) {
				return false
			}
		}
	}
	return true
}

// checkSigned runs the independent oracles on a transaction SignRawTx reported as signed.
func (x *secExec) checkSigned(orig *wire.MsgTx, bs []byte, ht txscript.SigHashType) string {
	var st wire.MsgTx
	if err := st.SetBytes(bs, wire.Packet); err != nil {
		return "undecodable"
	}
	if !bytes.Equal(noWitnessBytes(orig), noWitnessBytes(&st)) {
		return "non-witness-changed"
	}
	if st.Version != orig.Version || st.LockTime != orig.LockTime || !bytes.Equal(st.Payload, orig.Payload) ||
		len(st.TxIn) != len(orig.TxIn) || len(st.TxOut) != len(orig.TxOut) {
		return "non-witness-changed"
	}
	for i := range st.TxIn {
		if st.TxIn[i].PreviousOutPoint != orig.TxIn[i].PreviousOutPoint || st.TxIn[i].Sequence != orig.TxIn[i].Sequence {
			return "non-witness-changed"
		}
	}
	for i := range st.TxOut {
		if st.TxOut[i].Value != orig.TxOut[i].Value || !bytes.Equal(st.TxOut[i].PkScript, orig.TxOut[i].PkScript) {
			return "non-witness-changed"
		}
	}
	hc := txscript.NewTxSigHashes(&st)
	for i, in := range st.TxIn {
		pt, ok := x.e.txByHash[in.PreviousOutPoint.Hash]
		if !ok || int(in.PreviousOutPoint.Index) >= len(pt.msg.TxOut) {
			return "unknown-prev"
		}
		po := pt.msg.TxOut[in.PreviousOutPoint.Index]
		if len(in.Witness) != 2 {
			return fmt.Sprintf("witness-shape@%d", i)
		}
		redeem := in.Witness[1]
		sh := sha256.Sum256(redeem)
		if !bytes.Equal(sh[:], scriptHashOfPk(po.PkScript)) {
			return fmt.Sprintf("redeem-hash@%d", i)
		}
		// 1-of-1 multisig: OP_1 <33-byte key> OP_1 OP_CHECKMULTISIG
		if len(redeem) != 37 || redeem[0] != 0x51 || redeem[1] != 33 || redeem[35] != 0x51 || redeem[36] != 0xae {
			return fmt.Sprintf("redeem-template@%d", i)
		}
		pk, err := btcec.ParsePubKey(redeem[2:35], btcec.S256())
		if err != nil {
			return fmt.Sprintf("pubkey@%d", i)
		}
		ss := in.Witness[0]
		if len(ss) < 10 || int(ss[0]) != len(ss)-1 {
			return fmt.Sprintf("sigscript@%d", i)
		}
		sigb := ss[1:]
		if txscript.SigHashType(sigb[len(sigb)-1]) != ht {
			return fmt.Sprintf("hashtype@%d", i)
		}
		sig, err := btcec.ParseDERSignature(sigb[:len(sigb)-1], btcec.S256())
		if err != nil {
			return fmt.Sprintf("der@%d", i)
		}
		if !sig.Verify(secSigHash(&st, i, ht, redeem, po.Value), pk) {
			return fmt.Sprintf("ecdsa@%d", i)
		}
		vm, err := txscript.NewEngine(po.PkScript, &st, i, txscript.StandardVerifyFlags, nil, hc, po.Value)
		if err != nil {
			return fmt.Sprintf("engine-new@%d", i)
		}
		if err := vm.Execute(); err != nil {
			return fmt.Sprintf("engine@%d", i)
		}
	}
	return ""
}

// signCore: SignRawTx on a private copy of `orig`; returns the class token and the failed oracle.
func (x *secExec) signCore(pass, flag string, orig *wire.MsgTx) (string, string) {
	work := cloneTx(orig)
	before := cloneTx(orig)
	x.lastSigned = nil
	bs, err := x.e.wm.SignRawTx([]byte(pass), flag, work)
	if err == nil {
		var st wire.MsgTx
		if st.SetBytes(bs, wire.Packet) == nil {
			x.lastSigned = &st
		}
	}
	cls := secErrClass(err)
	bad := ""
	if err != nil {
		x.note(err)
		if bs != nil {
			bad = "returned-bytes"
		} else if cls == "err:pass" && !witnessesEqual(before, work) {
			bad = "signature-material"
		}
	} else {
		ht, ok := secFlags[flag]
		if !ok {
			bad = "accepted-bad-flag"
		} else {
			bad = x.checkSigned(orig, bs, ht)
			if bad == "" && !bytes.Equal(noWitnessBytes(before), noWitnessBytes(work)) {
				bad = "caller-tx-changed"
			}
		}
	}
	if bad == "" && !x.lockedAll() {
		bad = "left-unlocked"
	}
	return cls, bad
}

// txlock T LOCK PAYLOAD: set lock time and payload of a defined (never mined) transaction before signing it.
func (x *secExec) txLock(t, lock, payload string) string {
	ti, ok := x.e.txs[t]
	lt, err := strconv.ParseUint(lock, 10, 64)
	pl, ok2 := unhexTok(payload)
	if !ok || err != nil || !ok2 {
		return "bad-op"
	}
	delete(x.e.txByHash, ti.hash)
	ti.msg.LockTime = lt
	ti.msg.Payload = append(pl, []byte(t)...) // keep transaction ids distinct per name
	ti.hash = ti.msg.TxHash()
	x.e.txByHash[ti.hash] = ti
	return "ok"
}

func (x *secExec) sign(w, passHex, flagT, t string) string {
	x.lastSigned = nil
	p, ok := passTok(passHex)
	ti, ok2 := x.e.txs[t]
	if !ok || !ok2 {
		return "bad-op"
	}
	if err := x.e.Use(w); err != nil {
		x.note(err)
		return "err:use"
	}
	cls, bad := x.signCore(p, flagTok(flagT), ti.msg)
	if bad != "" {
		return cls + "!" + bad
	}
	return cls
}

// autosign W PASS FLAG KIND ... must|may
//   pay   FROM|- DEST:AMT;...  LOCK FEE CHANGE|- PAYLOAD
//   stake FROM|- A:AMT:FROZEN  LOCK FEE
//   bind  FROM|- HOLDER:N:AMT  FEE
func (x *secExec) autosign(a []string) string {
	x.lastAuto, x.lastSigned = nil, nil
	e := x.e
	w := a[0]
	p, ok := passTok(a[1])
	flag := flagTok(a[2])
	mode := a[len(a)-1]
	if !ok || (mode != "must" && mode != "may") {
		return "bad-op"
	}
	args := a[4 : len(a)-1]
	if err := e.Use(w); err != nil {
		return "FAIL:use"
	}
	addrOf := func(n string) string {
		if n == "-" {
			return ""
		}
		ai, err := e.addr(n)
		if err != nil {
			return "?"
		}
		return ai.stdEnc
	}
	amtOf := func(s string) massutil.Amount {
		v, _ := strconv.ParseUint(s, 10, 63)
		am, _ := massutil.NewAmountFromUint(v)
		return am
	}
	var hexTx string
	var err error
	switch a[3] {
	case "pay":
		if len(args) != 6 {
			return "bad-op"
		}
		amounts := map[string]massutil.Amount{}
		for _, d := range strings.Split(args[1], ";") {
			q := strings.Split(d, ":")
			if len(q) != 2 {
				return "bad-op"
			}
			amounts[addrOf(q[0])] = amtOf(q[1])
		}
		lock, _ := strconv.ParseUint(args[2], 10, 64)
		pl, _ := unhexTok(args[5])
		hexTx, _, err = e.wm.AutoCreateRawTransaction(amounts, lock, amtOf(args[3]), addrOf(args[0]), addrOf(args[4]), pl)
	case "stake":
		if len(args) != 4 {
			return "bad-op"
		}
		q := strings.Split(args[1], ":")
		if len(q) != 3 {
			return "bad-op"
		}
		ai, err2 := e.addr(q[0])
		if err2 != nil {
			return "bad-op"
		}
		sa, err2 := massutil.NewAddressStakingScriptHash(ai.sh, config.ChainParams)
		if err2 != nil {
			return "bad-op"
		}
		fr, _ := strconv.ParseUint(q[2], 10, 32)
		lock, _ := strconv.ParseUint(args[2], 10, 64)
		hexTx, _, err = e.wm.CreateStakingTransaction(addrOf(args[0]), []*masswallet.StakingTxOut{{Address: sa.EncodeAddress(), FrozenPeriod: uint32(fr), Amount: amtOf(q[1])}}, lock, amtOf(args[3]))
	case "bind":
		if len(args) != 3 {
			return "bad-op"
		}
		q := strings.Split(args[1], ":")
		if len(q) != 3 {
			return "bad-op"
		}
		ai, err2 := e.addr(q[0])
		if err2 != nil {
			return "bad-op"
		}
		holder, err2 := massutil.NewAddressWitnessScriptHash(ai.sh, config.ChainParams)
		if err2 != nil {
			return "bad-op"
		}
		t := sha256.Sum256([]byte("target:" + q[1]))
		target, err2 := massutil.NewAddressPubKeyHash(t[:20], config.ChainParams)
		if err2 != nil {
			return "bad-op"
		}
		hexTx, _, err = e.wm.CreateBindingTransaction(addrOf(args[0]), amtOf(args[2]), []*masswallet.BindingOutput{{Holder: holder, BindingTarget: target, Amount: amtOf(q[2])}})
	default:
		return "bad-op"
	}
	if err != nil {
		x.note(err)
		if mode == "must" {
			return "FAIL:nocreate"
		}
		return "pass"
	}
	raw, err := hex.DecodeString(hexTx)
	if err != nil {
		return "FAIL:hex"
	}
	var tx wire.MsgTx
	if err := tx.SetBytes(raw, wire.Packet); err != nil {
		return "FAIL:decode"
	}
	defer e.wm.ClearUsedUTXOMark(&tx)
	x.lastAuto = cloneTx(&tx)
	cls, bad := x.signCore(p, flag, &tx)
	if bad != "" {
		return "FAIL:" + cls + "!" + bad
	}
	_, okFlag := secFlags[flag]
	want := "ok"
	switch {
	case !okFlag:
		want = "err:flag"
	case p != x.pass[w]:
		want = "err:pass"
	case secFlags[flag]&0x1f == txscript.SigHashSingle && len(tx.TxIn) > len(tx.TxOut):
		want = "err:script" // documented: SINGLE is not signed for an input without a matching output
	}
	if cls != want {
		return "FAIL:" + cls + "-want-" + want
	}
	return "pass"
}
