package main

// Generator of engine kv, round 4: histories about what callers KEEP across operations —
// bucket handles (keep / fetch registers), BucketMeta objects and FetchBucket's per-transaction
// cache, handles used after the bucket (or an ancestor) was deleted and created again in the same
// write transaction, and the read transaction (and its bucket handles) used after its Rollback.
//
// The generator keeps a shadow of the bucket set (as the other kv generators do) and of what each
// register names, only to aim its choices and to label classes.

import (
	"fmt"
	"sort"
	"strings"
)

type kvHGen struct {
	s       *kvGenState
	metas   map[int][]string // meta register -> path
	wregs   map[int][]string // handle register of the write transaction -> path
	rregs   map[int][]string
	dregs   map[int][]string // handles of the read transaction ended last
	hasDead bool
	fetched map[string]bool // "slot:meta" fetched with success in the open transaction (cache holds it)
	deleted map[string]bool // paths deleted at least once in the open write transaction
	ooc     bool
}

func (h *kvHGen) regs(slot string) map[int][]string {
	if slot == "w" {
		return h.wregs
	}
	return h.rregs
}

// a register that is (mostly) in use
func (h *kvHGen) pickReg(m map[int][]string) int {
	r := h.s.g.Rng
	if len(m) > 0 && r.Intn(8) > 0 {
		ks := make([]int, 0, len(m))
		for k := range m {
			ks = append(ks, k)
		}
		sort.Ints(ks)
		return ks[r.Intn(len(ks))]
	}
	return r.Intn(4)
}

func (h *kvHGen) exists(slot string, p []string) bool { return h.s.set(slot)[kvJoin(p)] }

// a relative data op line through a kept handle: CLASS chosen by the caller
func (h *kvHGen) viaLine(slot string, reg int, p []string) (string, bool) {
	s := h.s
	r := s.g.Rng
	rel := "/"
	child := ""
	if r.Intn(4) == 0 {
		child = kvGoodNames[r.Intn(5)]
		rel = kvPathTok([]string{child})
	}
	k := hexTok(s.usedKey())
	switch x := r.Intn(14); {
	case x < 3:
		if slot == "w" {
			kk := s.randKeyNonEmpty()
			s.keys = append(s.keys, string(kk))
			return fmt.Sprintf("via %d put %s %s %s %s", reg, slot, rel, hexTok(kk), hexTok(s.randVal())), true
		}
		return fmt.Sprintf("via %d put %s %s %s 01", reg, slot, rel, k), true
	case x < 5:
		return fmt.Sprintf("via %d get %s %s %s", reg, slot, rel, k), false
	case x < 7:
		return fmt.Sprintf("via %d prefix %s %s -", reg, slot, rel), false
	case x < 8:
		return fmt.Sprintf("via %d names %s %s", reg, slot, rel), false
	case x < 9:
		return fmt.Sprintf("via %d del %s %s %s", reg, slot, rel, k), true
	case x < 10:
		if r.Intn(3) == 0 {
			return fmt.Sprintf("via %d clear %s %s", reg, slot, rel), true
		}
		return fmt.Sprintf("via %d has %s %s", reg, slot, rel), false
	case x < 11:
		return fmt.Sprintf("via %d iter %s %s - - %s", reg, slot, rel, s.iterScript()), false
	case x < 12:
		return fmt.Sprintf("via %d iterp %s %s %s a", reg, slot, rel, hexTok(s.usedKey())), false
	case x < 13:
		n := kvGoodNames[r.Intn(5)]
		if slot == "w" && s.wOpen && h.exists("w", p) && isValidKvName(n) {
			s.working[kvJoin(append(append([]string{}, p...), n))] = true
		}
		return fmt.Sprintf("via %d create %s %s", reg, slot, kvPathTok([]string{n})), true
	default:
		n := kvGoodNames[r.Intn(5)]
		q := append(append([]string{}, p...), n)
		if slot == "w" && s.wOpen && h.exists("w", p) {
			if h.exists("w", q) {
				h.deleted[kvJoin(q)] = true
			}
			s.removeSubtree(s.working, q)
		}
		return fmt.Sprintf("via %d delb %s %s", reg, slot, kvPathTok([]string{n})), true
	}
}

func (h *kvHGen) dataLine(rel string) string {
	s := h.s
	k := hexTok(s.usedKey())
	switch s.g.Rng.Intn(9) {
	case 0:
		return fmt.Sprintf("put r %s %s 01", rel, k)
	case 1:
		return fmt.Sprintf("get r %s %s", rel, k)
	case 2:
		return fmt.Sprintf("get r %s -", rel)
	case 3:
		return fmt.Sprintf("prefix r %s -", rel)
	case 4:
		return fmt.Sprintf("names r %s", rel)
	case 5:
		return fmt.Sprintf("iter r %s - - %s", rel, s.iterScript())
	case 6:
		return fmt.Sprintf("has r %s", rel)
	case 7:
		return fmt.Sprintf("clear r %s", rel)
	default:
		return fmt.Sprintf("del r %s %s", rel, k)
	}
}

func (h *kvHGen) anyPath(slot string) []string {
	s := h.s
	ks := sortedKeys(s.set(slot))
	if len(ks) > 0 && s.g.Rng.Intn(6) > 0 {
		return kvSplit(ks[s.g.Rng.Intn(len(ks))])
	}
	// a path that may have existed: one of the fixed tree
	tree := [][]string{{"a"}, {"a", "b"}, {"a", "b", "1"}, {"a", "1"}, {"2"}, {"2", "a"}}
	return tree[s.g.Rng.Intn(len(tree))]
}

func (s *kvGenState) handleHistory() {
	g := s.g
	r := g.Rng
	g.Reset()
	s.committed = map[string]bool{}
	s.working = nil
	s.wOpen, s.rOpen = false, false
	s.keys = s.keys[:0]
	s.n = 0
	h := &kvHGen{s: s, metas: map[int][]string{}, wregs: map[int][]string{}, rregs: map[int][]string{}, fetched: map[string]bool{}, deleted: map[string]bool{}}
	// a committed tree with data at every level
	s.beginW()
	for _, p := range [][]string{{"a"}, {"a", "b"}, {"a", "b", "1"}, {"a", "1"}, {"2"}, {"2", "a"}} {
		if r.Intn(5) > 0 || len(p) == 1 {
			s.createAt("w", p)
		}
	}
	for _, k := range sortedKeys(s.working) {
		for i := r.Intn(3); i > 0; i-- {
			kk := s.randKeyNonEmpty()
			s.keys = append(s.keys, string(kk))
			s.op("put", "put w %s %s %s", kvPathTok(kvSplit(k)), hexTok(kk), hexTok(s.randVal()))
		}
	}
	s.endW(true)
	maxOps := 25 + r.Intn(50)
	for s.n < maxOps {
		x := r.Intn(100)
		switch {
		case !s.wOpen && x < 30:
			s.beginW()
			h.wregs = map[int][]string{}
			h.deleted = map[string]bool{}
			for k := range h.fetched {
				if k[0] == 'w' {
					delete(h.fetched, k)
				}
			}
		case !s.rOpen && x < 40:
			s.op("begin-read", "begin %s", pick(r, "r", "v"))
			s.rOpen = true
			h.rregs = map[int][]string{}
			for k := range h.fetched {
				if k[0] == 'r' {
					delete(h.fetched, k)
				}
			}
		case x < 48:
			// GetBucketMeta through whichever transaction is open
			slot := ""
			if s.wOpen && (r.Intn(2) == 0 || !s.rOpen) {
				slot = "w"
			} else if s.rOpen {
				slot = "r"
			}
			if slot == "" {
				continue
			}
			m := r.Intn(4)
			p := h.anyPath(slot)
			s.op("meta", "meta %s %d %s", slot, m, kvPathTok(p))
			if h.exists(slot, p) {
				h.metas[m] = p
				delete(h.fetched, fmt.Sprintf("w:%d", m))
				delete(h.fetched, fmt.Sprintf("r:%d", m))
			}
		case x < 62:
			slot := ""
			if s.wOpen && (r.Intn(3) > 0 || !s.rOpen) {
				slot = "w"
			} else if s.rOpen {
				slot = "r"
			}
			if slot == "" || len(h.metas) == 0 {
				continue
			}
			m := h.pickReg(h.metas)
			reg := r.Intn(4)
			p, ok := h.metas[m]
			class := "fetch-" + slot
			key := fmt.Sprintf("%s:%d", slot, m)
			if ok && h.fetched[key] {
				class = "fetch-hit"
				if slot == "w" && !h.exists("w", p) {
					class = "fetch-after-delete"
				} else if slot == "w" && h.deleted[kvJoin(p)] {
					class = "fetch-after-recreate"
				}
			}
			s.op(class, "fetch %s %d %d", slot, reg, m)
			if ok && h.exists(slot, p) {
				h.regs(slot)[reg] = p
				h.fetched[key] = true
			} else {
				delete(h.regs(slot), reg)
			}
		case x < 68:
			slot := ""
			if s.wOpen && (r.Intn(3) > 0 || !s.rOpen) {
				slot = "w"
			} else if s.rOpen {
				slot = "r"
			}
			if slot == "" {
				continue
			}
			reg := r.Intn(4)
			p := h.anyPath(slot)
			s.op("keep", "keep %s %d %s", slot, reg, kvPathTok(p))
			if h.exists(slot, p) {
				h.regs(slot)[reg] = p
			} else {
				delete(h.regs(slot), reg)
			}
		case x < 84:
			slot := ""
			if s.wOpen && (r.Intn(3) > 0 || !s.rOpen) {
				slot = "w"
			} else if s.rOpen {
				slot = "r"
			}
			if slot == "" {
				continue
			}
			reg := h.pickReg(h.regs(slot))
			p, ok := h.regs(slot)[reg]
			line, mut := h.viaLine(slot, reg, p)
			class := "via-" + slot
			if ok && slot == "w" {
				switch {
				case !h.exists("w", p) && mut:
					// the handle's bucket is gone: a write through it leaves the contract (orphan entries)
					if r.Intn(3) > 0 && !h.ooc {
						continue
					}
					class = "via-stale-write"
					h.ooc = true
				case !h.exists("w", p):
					class = "via-stale-read"
				case h.deleted[kvJoin(p)]:
					class = "via-after-recreate"
				}
			}
			s.op(class, "%s", line)
		case s.wOpen && x < 90:
			// delete / re-create a bucket some register or meta names (or an ancestor of it)
			var cands [][]string
			for _, p := range h.wregs {
				cands = append(cands, p)
			}
			for _, p := range h.metas {
				cands = append(cands, p)
			}
			if len(cands) == 0 {
				cands = append(cands, []string{"a", "b"})
			}
			p := cands[r.Intn(len(cands))]
			if len(p) > 2 && r.Intn(2) == 0 {
				p = p[:len(p)-1]
			}
			if len(p) < 2 {
				p = append(append([]string{}, p...), "b")
			}
			if h.exists("w", p) {
				for k := range s.working {
					if k == kvJoin(p) || strings.HasPrefix(k, kvJoin(p)+"\x01_\x01") {
						h.deleted[k] = true
					}
				}
				s.delAt("w", p)
			} else {
				s.createAt("w", p)
				if r.Intn(2) == 0 {
					kk := s.randKeyNonEmpty()
					s.keys = append(s.keys, string(kk))
					s.op("put", "put w %s %s %s", kvPathTok(p), hexTok(kk), hexTok(s.randVal()))
				}
			}
		case s.wOpen && x < 93:
			s.writeOp()
		case s.wOpen && x < 96:
			s.endW(r.Intn(4) > 0)
		case s.rOpen && x < 98:
			s.op("endr", "endr")
			s.rOpen = false
			h.dregs, h.hasDead = h.rregs, true
			h.rregs = map[int][]string{}
			// the ended read transaction and its bucket handles are still in the caller's hands
			for i := 1 + r.Intn(4); i > 0; i-- {
				if r.Intn(3) == 0 {
					p := h.anyPath("r")
					switch r.Intn(3) {
					case 0:
						s.op("dead-r", "dead %s", h.dataLine(kvPathTok(p)))
					case 1:
						s.op("dead-r", "dead names r /")
					default:
						s.op("dead-r", "dead create r %s", kvPathTok(p))
					}
				} else {
					reg := h.pickReg(h.dregs)
					rel := "/"
					if r.Intn(4) == 0 {
						rel = kvPathTok([]string{kvGoodNames[r.Intn(5)]})
					}
					if r.Intn(6) == 0 {
						s.op("deadvia", "deadvia %d create r %s", reg, kvPathTok([]string{kvGoodNames[r.Intn(5)]}))
					} else {
						s.op("deadvia", "deadvia %d %s", reg, h.dataLine(rel))
					}
				}
			}
		case h.hasDead && x >= 98:
			s.op("deadvia", "deadvia %d %s", h.pickReg(h.dregs), h.dataLine("/"))
		}
	}
	if s.wOpen {
		s.endW(r.Intn(3) > 0)
	}
	if s.rOpen {
		s.op("endr", "endr")
		s.rOpen = false
	}
	s.op("begin-read", "begin r")
	s.op("names-r", "names r /")
	for _, k := range sortedKeys(s.committed) {
		pt := kvPathTok(kvSplit(k))
		s.op("iter-r", "iter r %s - - a", pt)
		s.op("names-r", "names r %s", pt)
	}
	s.op("endr", "endr")
	s.op("raw", "raw")
}

// the witness shape of D44 and its neighbours, spelled out (every variant is a required class)
func (s *kvGenState) fetchCacheScenario() {
	g := s.g
	r := g.Rng
	g.Reset()
	s.committed = map[string]bool{}
	s.working = nil
	s.wOpen, s.rOpen = false, false
	s.n = 0
	top := kvGoodNames[r.Intn(5)]
	mid := kvGoodNames[r.Intn(5)]
	leaf := kvGoodNames[r.Intn(5)]
	p2 := []string{top, mid}
	p3 := []string{top, mid, leaf}
	s.beginW()
	s.createAt("w", []string{top})
	s.createAt("w", p2)
	s.createAt("w", p3)
	s.op("put", "put w %s 6b 01", kvPathTok(p3))
	s.op("meta", "meta w 0 %s", kvPathTok(p3))
	s.op("meta", "meta w 1 %s", kvPathTok(p2))
	if r.Intn(2) == 0 {
		s.endW(true)
		s.beginW()
	}
	s.op("fetch-w", "fetch w 0 0")
	s.op("fetch-w", "fetch w 1 1")
	s.op("fetch-hit", "fetch w 2 0")
	// delete the bucket itself or its parent, then ask the cache again
	if r.Intn(2) == 0 {
		s.delAt("w", p3)
	} else {
		s.delAt("w", p2)
	}
	s.op("fetch-after-delete", "fetch w 2 0")
	s.op("via-stale-read", "via 0 get w / 6b")
	s.op("via-stale-read", "via 0 prefix w / -")
	s.op("has", "has w %s", kvPathTok(p3))
	if r.Intn(2) == 0 {
		if !s.working[kvJoin(p2)] {
			s.createAt("w", p2)
		}
		s.createAt("w", p3)
		s.op("fetch-after-recreate", "fetch w 3 0")
		s.op("via-after-recreate", "via 0 get w / 6b")
		s.op("via-after-recreate", "via 0 put w / 6c 02")
		s.op("via-after-recreate", "via 3 prefix w / -")
	} else if r.Intn(2) == 0 {
		s.op("via-stale-write", "via 0 put w / 6c 02")
		s.op("via-stale-read", "via 0 get w / 6c")
	}
	s.endW(r.Intn(4) > 0)
	s.op("begin-read", "begin r")
	s.op("fetch-r", "fetch r 0 0")
	s.op("fetch-r", "fetch r 1 1")
	s.op("fetch-hit", "fetch r 2 0")
	s.op("via-r", "via 0 prefix r / -")
	s.op("via-r", "via 1 names r /")
	s.op("endr", "endr")
	s.op("deadvia", "deadvia 1 names r /")
	s.op("deadvia", "deadvia 1 get r / 6b")
	s.op("dead-r", "dead has r %s", kvPathTok([]string{top}))
	s.op("raw", "raw")
}

// exhaustiveHandles: every sequence of at most maxLen symbols over
//   {fetch P, fetch C, keep P, delete P, create P, delete C, create C, put via the fetched handle of P,
//    get via it, prefix via the fetched handle of C, names via the kept handle of P, create C via it,
//    commit+begin, rollback+begin}
// on the committed tree a / a/b (= P) / a/b/c (= C) with metas 0 (P) and 1 (C) taken beforehand —
// the interleavings of FetchBucket's cache, kept handles and delete / re-create of a bucket and
// its child in one write transaction (the D19 / D44 area), each followed by the same observations.
func (s *kvGenState) exhaustiveHandles(maxLen int) {
	g := s.g
	A := kvPathTok([]string{"a"})
	P := kvPathTok([]string{"a", "b"})
	C := kvPathTok([]string{"a", "b", "c"})
	const nSym = 14
	count := 0
	dirty := true
	setup := func() {
		g.Reset()
		s.op("exh-setup", "begin w")
		s.op("exh-setup", "create w %s", A)
		s.op("exh-setup", "create w %s", P)
		s.op("exh-setup", "create w %s", C)
		s.op("exh-setup", "put w %s 6b31 aa", P)
		s.op("exh-setup", "put w %s 6b31 bb", C)
		s.op("exh-setup", "meta w 0 %s", P)
		s.op("exh-setup", "meta w 1 %s", C)
		s.op("exh-setup", "commit")
		dirty = false
	}
	seq := make([]int, 0, maxLen)
	emit := func() {
		if dirty || count%100 == 0 {
			setup()
		}
		count++
		s.op("exh-handles", "begin w")
		for i, y := range seq {
			switch y {
			case 0:
				s.op("exh-handles", "fetch w 0 0")
			case 1:
				s.op("exh-handles", "fetch w 1 1")
			case 2:
				s.op("exh-handles", "keep w 2 %s", P)
			case 3:
				s.op("exh-handles", "delb w %s", P)
			case 4:
				s.op("exh-handles", "create w %s", P)
			case 5:
				s.op("exh-handles", "delb w %s", C)
			case 6:
				s.op("exh-handles", "create w %s", C)
			case 7:
				s.op("exh-handles", "via 0 put w / 6b32 %02x", 0xd0+i)
			case 8:
				s.op("exh-handles", "via 0 get w / 6b31")
			case 9:
				s.op("exh-handles", "via 1 prefix w / -")
			case 10:
				s.op("exh-handles", "via 2 names w /")
			case 11:
				s.op("exh-handles", "via 2 create w 63")
			case 12:
				s.op("exh-handles", "commit")
				s.op("exh-handles", "begin w")
				dirty = true
			case 13:
				s.op("exh-handles", "rollback")
				s.op("exh-handles", "begin w")
			}
		}
		s.op("exh-handles", "fetch w 3 0")
		s.op("exh-handles", "fetch w 3 1")
		s.op("exh-handles", "via 0 prefix w / -")
		s.op("exh-handles", "via 2 has w 63")
		s.op("exh-handles", "prefix w %s -", P)
		s.op("exh-handles", "names w %s", P)
		if count%2 == 0 && len(seq) > 0 {
			s.op("exh-handles", "commit")
			dirty = true
			s.op("exh-handles", "begin r")
			s.op("exh-handles", "fetch r 0 0")
			s.op("exh-handles", "fetch r 1 1")
			s.op("exh-handles", "via 0 prefix r / -")
			s.op("exh-handles", "endr")
			s.op("exh-handles", "raw")
		} else {
			s.op("exh-handles", "rollback")
		}
	}
	var rec func()
	rec = func() {
		emit()
		if len(seq) == maxLen {
			return
		}
		for y := 0; y < nSym; y++ {
			seq = append(seq, y)
			rec()
			seq = seq[:len(seq)-1]
		}
	}
	rec()
	g.Stats["exh-handle-sequences"] = count
}
