package main

// Engine ks (C12, C04): the REAL keystore (masswallet/keystore) and the wallet-level address
// functions (masswallet/wallet.go) on several independent wallet environments ("instances":
// each a fresh wallet LevelDB + its own chain database) inside one exec process.
//
// Symbolic names: instances 1,2,…; secrets/wallets W* (a secret = mnemonic + private passphrase;
// the same secret restored into another instance keeps its name); addresses are named by their
// derivation coordinates  W.<branch>.<index>  (first sight registers the name, every later sight
// in any instance must map to the same real address); exported keystore files J*.
//
// Op lines (after the engine name):
//   gap I N                 set cfg.Wallet.Settings.AddressGapLimit of instance I
//   create I W BITS         CreateWallet (entropy size BITS), remember its mnemonic as secret W
//   newaddr I W std|stk     NewAddress                      -> ok NAME | err-gap | err
//   list I W                keystore view: ex=.. in=.. + every managed address (by coordinates)
//   glist I W               ledger view: GetAddresses of both classes  NAME:cls:used (other-class entries only if used)
//   found I W               managed addresses of W that have history on I's node chain
//   export I W J            ExportWallet -> J               -> ok ex=.. in=..
//   impks I J               ImportWallet(J)                 -> ok W | err-dup | err
//   impmn I W HE HI [SP]    ImportWalletWithMnemonic(secret W, hints) -> same; SP = white-space variant of the
//                           sentence (0 canonical, 1 double spaces, 2 tabs, 3 leading/trailing, 4 newline, 5 mixed)
//   restart I               close + reopen the wallet database (fresh WalletManager)
//   chpub I PASS            KeystoreManager.ChangePubPassphrase
//   unlock I W | lock I     load the private account key (issue from private material) / ClearPrivKey
//   sign I W NAME           SignHash with the address's public key, verify signature + address
//   mnem I W                GetMnemonic equals the secret's mnemonic
//   ids I                   wallets of the instance
//   i I <led op …>          any base op of engine led on instance I (tx, block, submit, detach, notify, …)

import (
	crand "crypto/rand"
	"crypto/sha256"
	"encoding/json"
	"fmt"
	"os"
	"sort"
	"strconv"
	"strings"
	"time"

	"github.com/massnetorg/mass-core/massutil"
	"github.com/massnetorg/mass-core/txscript"
	"massnet.org/mass-wallet/config"
	"massnet.org/mass-wallet/masswallet"
	mwdb "massnet.org/mass-wallet/masswallet/db"
	"massnet.org/mass-wallet/masswallet/keystore"
)

func init() {
	register(&Engine{Name: "ks", Gen: genKs, NewExec: func() Exec { return newKsExec() }})
}

type ksSecret struct {
	name     string
	mnemonic string
	id       string
}

type ksInst struct {
	e       *WEnv
	pubPass string
}

type ksExec struct {
	nCreate int // number of create ops of this process (zero-led entropies, see create)
	inst    map[int]*ksInst
	secrets map[string]*ksSecret
	idName  map[string]string // wallet id -> W
	regName map[string]string // std-encoded address -> canonical name
	regEnc  map[string]string // canonical name -> std-encoded address
	jsons   map[string]string // J -> keystore json
	jsonOf  map[string]string // J -> W
	nSign   int
}

func newKsExec() *ksExec {
	x := &ksExec{}
	x.clear()
	return x
}

func (x *ksExec) clear() {
	for _, in := range x.inst {
		in.e.Close()
	}
	x.inst = map[int]*ksInst{}
	x.secrets = map[string]*ksSecret{}
	x.idName = map[string]string{}
	x.regName = map[string]string{}
	x.regEnc = map[string]string{}
	x.jsons = map[string]string{}
	x.jsonOf = map[string]string{}
}

func (x *ksExec) Reset() { x.clear() }
func (x *ksExec) Close() { x.clear() }

func (x *ksExec) instance(s string) *ksInst {
	n, err := strconv.Atoi(s)
	if err != nil || n < 1 || n > 64 {
		return nil
	}
	if in, ok := x.inst[n]; ok {
		return in
	}
	in := &ksInst{e: NewWEnv(), pubPass: pubPass}
	x.inst[n] = in
	return in
}

// stdEncOf: standard (witness v0) encoding of a managed address.
func stdEncOf(ma *keystore.ManagedAddress) string { return ma.String() }

// nameOf returns the canonical name of a managed address of secret w, registering it on first
// sight. A name already bound to a different real address, or an address already bound to other
// coordinates, shows up in the returned name (suffix "!").
func (x *ksExec) nameOf(w string, ma *keystore.ManagedAddress) string {
	b, i := ma.VerifPath()
	want := fmt.Sprintf("%s.%d.%d", w, b, i)
	enc := stdEncOf(ma)
	if n, ok := x.regName[enc]; ok {
		if n != want {
			return n + "!" + want
		}
		return n
	}
	if e2, ok := x.regEnc[want]; ok && e2 != enc {
		return want + "!"
	}
	x.regName[enc] = want
	x.regEnc[want] = enc
	return want
}

func (in *ksInst) am(id string) *keystore.AddrManager {
	am, err := in.e.wm.VerifKeystoreManager().GetAddrManagerByAccountID(id)
	if err != nil {
		return nil
	}
	return am
}

func ksErr(err error) string {
	if err == nil {
		return "ok"
	}
	if verifDebug {
		fmt.Fprintln(os.Stderr, "  [impl error]", err)
	}
	switch err {
	case keystore.ErrGapLimit:
		return "err-gap"
	case keystore.ErrDuplicateSeed:
		return "err-dup"
	case keystore.ErrInvalidPassphrase:
		return "err-pass"
	}
	return "err"
}

// bindAll (re)binds every managed address of wallet w in the instance to its canonical name.
func (x *ksExec) bindAll(in *ksInst, w string) {
	am := in.am(in.e.wallets[w])
	if am == nil {
		return
	}
	for _, ma := range am.ManagedAddresses() {
		n := x.nameOf(w, ma)
		if old, ok := in.e.addrs[n]; ok && old.wallet == w {
			continue
		}
		in.e.bindAddr(n, w, "std", ma.String())
	}
}

func (x *ksExec) reopen(in *ksInst) error {
	e := in.e
	if e.wdb != nil {
		e.wdb.Close()
		e.wdb = nil
	}
	e.wm = nil
	db, err := mwdb.OpenDB("leveldb", e.wdbPath)
	if err != nil {
		return err
	}
	wm, err := masswallet.NewWalletManager(e.srv, db, e.cfg, config.ChainParams, in.pubPass)
	if err != nil {
		db.Close()
		return err
	}
	e.wdb = db
	e.wm = wm
	return nil
}

func (x *ksExec) afterImport(in *ksInst, id string, err error) string {
	if err != nil {
		return ksErr(err)
	}
	e := in.e
	w, ok := x.idName[id]
	if !ok {
		return "ok ?" // a wallet id no secret of this history has produced before
	}
	e.wm.VerifDrainTasks()
	for k := 0; k < 10000; k++ {
		fin, err := e.wm.VerifImportStep(id)
		if err != nil {
			return "err-import"
		}
		if fin {
			break
		}
	}
	e.wallets[w] = id
	e.walletRev[id] = w
	x.bindAll(in, w)
	return "ok " + w
}

func (x *ksExec) Exec(a []string) string {
	if len(a) < 2 {
		return "bad-op"
	}
	in := x.instance(a[1])
	if in == nil {
		return "bad-op"
	}
	e := in.e
	if e.wm == nil && a[0] != "restart" {
		return "err-closed"
	}
	switch {
	case a[0] == "i" && len(a) >= 3:
		if a[2] == "restart" || a[2] == "wallet" || a[2] == "addr" {
			return "bad-op" // use the ks ops
		}
		if a[2] == "tx" && len(a) == 7 {
			for _, o := range splitList(a[6]) {
				n := strings.SplitN(o, ":", 2)[0]
				if _, ok := e.addrs[n]; !ok {
					if enc, ok := x.regEnc[n]; ok {
						e.bindAddr(n, "", "std", enc)
					}
				}
			}
		}
		return ledOp(e, a[2:])
	case a[0] == "gap" && len(a) == 3:
		n, err := strconv.ParseUint(a[2], 10, 32)
		if err != nil {
			return "bad-op"
		}
		e.cfg.Wallet.Settings.AddressGapLimit = uint32(n)
		return "ok"
	case a[0] == "create" && len(a) == 4:
		bits, err := strconv.Atoi(a[3])
		if err != nil {
			return "bad-op"
		}
		if _, dup := x.secrets[a[2]]; dup {
			return "bad-op"
		}
		// every second wallet gets an entropy that STARTS WITH ZERO BYTES (1 or 4 of them; the random source of the
		// process is replaced for the duration of the call and its first read - the entropy - is zero-led): leading-zero
		// entropies are where big-integer round trips lose bytes (seed C04-6: a mnemonic restore stored the entropy without
		// them), and with random entropy they are a 1-in-256 event
		var id, mn string
		create := func() { id, mn, _, err = e.wm.CreateWallet(privPass(a[2]), "", bits) }
		x.nCreate++
		if x.nCreate%2 == 0 {
			ksZeroLedCreate(a[2], bits, 1+3*((x.nCreate/2)%2), create)
		} else {
			create()
		}
		if err != nil {
			return ksErr(err)
		}
		x.secrets[a[2]] = &ksSecret{name: a[2], mnemonic: mn, id: id}
		if _, clash := x.idName[id]; clash {
			return "ok CLASH"
		}
		x.idName[id] = a[2]
		e.wallets[a[2]] = id
		e.walletRev[id] = a[2]
		e.mnemonic[a[2]] = mn
		return "ok " + a[2] + fmt.Sprintf(" words=%d", len(strings.Fields(mn)))
	case a[0] == "newaddr" && len(a) == 4:
		if err := e.Use(a[2]); err != nil {
			return "err-use"
		}
		cl := uint16(massutil.AddressClassWitnessV0)
		if a[3] == "stk" {
			cl = massutil.AddressClassWitnessStaking
		} else if a[3] != "std" {
			return "bad-op"
		}
		enc, err := e.wm.NewAddress(cl)
		if err != nil {
			return ksErr(err)
		}
		ad, err := massutil.DecodeAddress(enc, config.ChainParams)
		if err != nil {
			return "err-decode"
		}
		std, err := massutil.NewAddressWitnessScriptHash(ad.ScriptAddress(), config.ChainParams)
		if err != nil {
			return "err-decode"
		}
		am := in.am(e.wallets[a[2]])
		ma, err := am.Address(std.EncodeAddress())
		if err != nil {
			return "ok ?unmanaged"
		}
		n := x.nameOf(a[2], ma)
		// class of the returned encoding
		gotCls := "std"
		if massutil.IsWitnessStakingAddress(ad) {
			gotCls = "stk"
		}
		if err := e.bindAddr(n, a[2], a[3], enc); err != nil {
			return "err-bind"
		}
		return "ok " + n + " " + gotCls
	case a[0] == "list" && len(a) == 3:
		id, ok := e.wallets[a[2]]
		if !ok {
			return "err"
		}
		am := in.am(id)
		if am == nil {
			return "err"
		}
		var items []string
		for _, ma := range am.ManagedAddresses() {
			items = append(items, x.nameOf(a[2], ma))
		}
		ex, inn := am.VerifNextIndexes()
		return fmt.Sprintf("ex=%d in=%d %s", ex, inn, joinSorted(items))
	case a[0] == "glist" && len(a) == 3:
		if err := e.Use(a[2]); err != nil {
			return "err"
		}
		var items []string
		for _, cl := range []uint16{massutil.AddressClassWitnessV0, massutil.AddressClassWitnessStaking} {
			ds, err := e.wm.GetAddresses(cl)
			if err != nil {
				return "err"
			}
			for _, d := range ds {
				ad, err := massutil.DecodeAddress(d.Address, config.ChainParams)
				if err != nil {
					return "err-decode"
				}
				std, _ := massutil.NewAddressWitnessScriptHash(ad.ScriptAddress(), config.ChainParams)
				n, ok := x.regName[std.EncodeAddress()]
				if !ok {
					n = "?" + d.Address
				}
				c := "std"
				if cl == massutil.AddressClassWitnessStaking {
					c = "stk"
				}
				u := 0
				if d.Used {
					u = 1
				}
				// an entry of the class the address was NOT issued in is shown only when flagged used
				// (a record created by a payment stays behind, unused, after that payment is rolled back)
				if ai, ok := e.addrs[n]; ok && ai.class != c && !d.Used {
					continue
				}
				items = append(items, fmt.Sprintf("%s:%s:%d", n, c, u))
			}
		}
		return joinSorted(items)
	case a[0] == "found" && len(a) == 3:
		id, ok := e.wallets[a[2]]
		if !ok {
			return "err"
		}
		am := in.am(id)
		if am == nil {
			return "err"
		}
		var items []string
		for _, ma := range am.ManagedAddresses() {
			u, err := e.chainDb.CheckScriptHashUsed(ma.ScriptAddress())
			if err != nil {
				return "err"
			}
			if u {
				items = append(items, x.nameOf(a[2], ma))
			}
		}
		return joinSorted(items)
	case a[0] == "export" && len(a) == 4:
		id, ok := e.wallets[a[2]]
		if !ok {
			return "err"
		}
		js, err := e.wm.ExportWallet(id, privPass(a[2]))
		if err != nil {
			return ksErr(err)
		}
		var ks struct {
			HDpath struct {
				Purpose, Coin, Account, ExternalChildNum, InternalChildNum uint32
			} `json:"hdPath"`
		}
		if err := json.Unmarshal([]byte(js), &ks); err != nil {
			return "err-json"
		}
		x.jsons[a[3]] = js
		x.jsonOf[a[3]] = a[2]
		return fmt.Sprintf("ok ex=%d in=%d acct=%d", ks.HDpath.ExternalChildNum, ks.HDpath.InternalChildNum, ks.HDpath.Account)
	case a[0] == "impks" && len(a) == 3:
		js, ok := x.jsons[a[2]]
		if !ok {
			return "bad-op"
		}
		e.wm.VerifEnsureTaskChan()
		ws, err := e.wm.ImportWallet(js, privPass(x.jsonOf[a[2]]))
		if err != nil {
			return ksErr(err)
		}
		return x.afterImport(in, ws.WalletID, nil)
	case a[0] == "impmn" && (len(a) == 5 || len(a) == 6):
		s, ok := x.secrets[a[2]]
		if !ok {
			return "bad-op"
		}
		// the sentence as the user types it: same words, different white space
		mn := s.mnemonic
		if len(a) == 6 {
			words := strings.Fields(mn)
			switch a[5] {
			case "0":
			case "1":
				mn = strings.Join(words, "  ")
			case "2":
				mn = strings.Join(words, "\t")
			case "3":
				mn = "  " + mn + " "
			case "4":
				mn = mn + "\n"
			case "5":
				mn = " " + strings.Join(words[:len(words)/2], " ") + " \t " + strings.Join(words[len(words)/2:], "  ") + "\n"
			case "6": // the same words in another letter case are NOT list words: the restore must be refused
				mn = strings.ToUpper(words[0][:1]) + words[0][1:] + " " + strings.Join(words[1:], " ")
			case "7":
				mn = strings.ToUpper(mn)
			case "8":
				m := len(words) / 2
				words[m] = strings.ToUpper(words[m][:1]) + words[m][1:]
				mn = strings.Join(words, " ")
			default:
				return "bad-op"
			}
		}
		he, err1 := strconv.ParseUint(a[3], 10, 32)
		hi, err2 := strconv.ParseUint(a[4], 10, 32)
		if err1 != nil || err2 != nil {
			return "bad-op"
		}
		e.wm.VerifEnsureTaskChan()
		ws, err := e.wm.ImportWalletWithMnemonic(&keystore.WalletParams{
			Version: keystore.KeystoreVersionLatest, Mnemonic: mn, PrivatePassphrase: []byte(privPass(a[2])),
			ExternalIndex: uint32(he), InternalIndex: uint32(hi), AddressGapLimit: e.cfg.Wallet.Settings.AddressGapLimit})
		if err != nil {
			return ksErr(err)
		}
		return x.afterImport(in, ws.WalletID, nil)
	case a[0] == "restart" && len(a) == 2:
		return errTok(x.reopen(in))
	case a[0] == "chpub" && len(a) == 3:
		km := e.wm.VerifKeystoreManager()
		err := mwdb.Update(e.wm.VerifDB(), func(tx mwdb.DBTransaction) error {
			return km.ChangePubPassphrase(tx, []byte(in.pubPass), []byte(a[2]), nil)
		})
		if err != nil {
			return ksErr(err)
		}
		in.pubPass = a[2]
		return "ok"
	case a[0] == "unlock" && len(a) == 3:
		id, ok := e.wallets[a[2]]
		if !ok {
			return "err"
		}
		am := in.am(id)
		if am == nil {
			return "err"
		}
		return ksErr(am.VerifLoadPrivKeys([]byte(privPass(a[2]))))
	case a[0] == "lock" && len(a) == 2:
		e.wm.VerifKeystoreManager().ClearPrivKey()
		return "ok"
	case a[0] == "sign" && len(a) == 4:
		id, ok := e.wallets[a[2]]
		if !ok {
			return "err"
		}
		am := in.am(id)
		enc, ok2 := x.regEnc[a[3]]
		if am == nil || !ok2 {
			return "err"
		}
		ma, err := am.Address(enc)
		if err != nil {
			return "err"
		}
		pub := ma.PubKey()
		// independent recomputation of the address the public key commits to
		apk, err := massutil.NewAddressPubKey(pub.SerializeCompressed(), config.ChainParams)
		if err != nil {
			return "err"
		}
		redeem, err := txscript.MultiSigScript([]*massutil.AddressPubKey{apk}, 1)
		if err != nil {
			return "err"
		}
		sh := sha256.Sum256(redeem)
		std, err := massutil.NewAddressWitnessScriptHash(sh[:], config.ChainParams)
		if err != nil || std.EncodeAddress() != enc {
			return "bad-addr"
		}
		x.nSign++
		h := sha256.Sum256([]byte(fmt.Sprintf("sign:%s:%d", a[3], x.nSign)))
		sig, err := e.wm.VerifKeystoreManager().SignHash(pub, h[:], []byte(privPass(a[2])))
		if err != nil {
			return ksErr(err)
		}
		if !sig.Verify(h[:], pub) {
			return "bad-sig"
		}
		prv := "pub"
		if am.VerifHasAcctPriv() {
			prv = "priv"
		}
		return "ok " + prv
	case a[0] == "mnem" && len(a) == 3:
		id, ok := e.wallets[a[2]]
		s, ok2 := x.secrets[a[2]]
		if !ok || !ok2 {
			return "err"
		}
		mn, _, err := e.wm.GetMnemonic(id, privPass(a[2]))
		if err != nil {
			return ksErr(err)
		}
		if mn != s.mnemonic {
			return "ok DIFF"
		}
		return "ok same"
	case a[0] == "ids" && len(a) == 2:
		ws, err := e.wm.Wallets()
		if err != nil {
			return "err"
		}
		var items []string
		for _, s := range ws {
			n, ok := x.idName[s.WalletID]
			if !ok {
				n = "?" + s.WalletID
			}
			st := "ready"
			if s.Status.IsRemoved() {
				st = "removing"
			} else if !s.Status.Ready() {
				st = "importing"
			}
			items = append(items, n+":"+st)
		}
		sort.Strings(items)
		return joinSorted(items)
	}
	return "bad-op"
}


// ksZeroLedCreate runs f (a CreateWallet call) with crypto/rand.Reader replaced by a deterministic stream whose FIRST read
// starts with k zero bytes.
type zeroLedReader struct {
	k     int
	first bool
	in    *detReader
}

func (z *zeroLedReader) Read(p []byte) (int, error) {
	n, err := z.in.Read(p)
	if !z.first {
		z.first = true
		for i := 0; i < z.k && i < n; i++ {
			p[i] = 0
		}
	}
	return n, err
}

func ksZeroLedCreate(name string, bits, k int, f func()) {
	old := crand.Reader
	crand.Reader = &zeroLedReader{k: k, in: &detReader{seed: sha256.Sum256([]byte(fmt.Sprintf("verif-ks-entropy:%s:%d:%d", name, bits, time.Now().UnixNano())))}}
	defer func() { crand.Reader = old }()
	f()
}
