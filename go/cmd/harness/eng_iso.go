package main

// Engine iso (C17a): queries racing with block commits.
//
// The wallet database handed to the REAL WalletManager is wrapped (WEnv.wrapDB) by schedDB, which
// counts the database reads of the CURRENT query (FetchBucket / TopLevelBucket / Bucket lookups,
// Get, GetByPrefix, BucketNames, iterator Next / Seek) and, at chosen read indexes, delivers the
// next block notification(s) to the real follower (VerifProcessBlock = one full write transaction
// commit, connect or reorg) BEFORE letting that read proceed - from the same goroutine, so the
// placement is exact and needs no hook in /repo.
//
// Ops (everything else is delegated to the led engine, see eng_led.go):
//
//	sweep B1[;B2] <query...>      for the fixed (history, query): run the query in isolation at
//	                              every block boundary S0 (now), S1 (after notify B1), S2 (after
//	                              notify B2); then enumerate EVERY read index r of the query x
//	                              {B1 at r; B1 and B2 at r; B1 at r and B2 at r' > r} and compare
//	                              each scheduled answer with the isolated set.
//	                              Output  "<n1><n2> A0|A1|A2 ok"   or   "... ESCAPE at=r[,r'] ans=<a>"
//	at B1[;B2] r[,r'] <query...>  one schedule only (replay form); output
//	                              "<n1><n2> A0|A1|A2 in" / "... out ans=<a>"
//	<query> = bal W C | abal W C | utxos W | shist W X | bhist W X         (answers as in led)
//	        | build W AMT | buildc W AMT   (EstimateTxFee / AutoCreateRawTransaction paying AMT to a
//	                              stranger; the verdict is semantic: every input is a mature coin of ONE
//	                              boundary, no input twice, inputs = outputs + fee; an error is allowed)
//
// After either op the wallet is at boundary S2 (all listed notifications delivered, fresh
// WalletManager), whatever happened during the enumeration.

import (
	"bytes"
	"encoding/hex"
	"fmt"
	"os"
	"path/filepath"
	"sort"
	"strconv"
	"strings"

	"github.com/massnetorg/mass-core/massutil"
	"github.com/massnetorg/mass-core/wire"
	"massnet.org/mass-wallet/config"
	"massnet.org/mass-wallet/masswallet"
	mwdb "massnet.org/mass-wallet/masswallet/db"
)

func init() {
	// the race-instrumented twin is compiled when the executor is created (outside the per-op watchdog: the build alone can
	// take minutes on a loaded machine)
	register(&Engine{Name: "iso", Gen: genIso, NewExec: func() Exec { x := &isoExec{}; x.race.build(); return x }})
}

// ---------------------------------------------------------------- schedule-controlling db wrapper

type isoSched struct {
	active   bool
	inAction bool
	n        int            // reads of the current query so far
	at       map[int]func() // read index -> action to run before that read
	kinds    map[string]int // read kinds seen (statistics)
}

func (s *isoSched) read(kind string) {
	if s == nil || !s.active || s.inAction {
		return
	}
	idx := s.n
	s.n++
	if s.kinds != nil {
		s.kinds[kind]++
	}
	if f, ok := s.at[idx]; ok {
		s.inAction = true
		f()
		s.inAction = false
	}
}

type schedDB struct {
	inner mwdb.DB
	s     *isoSched
}

func (d *schedDB) Close() error                         { return d.inner.Close() }
func (d *schedDB) BeginTx() (mwdb.DBTransaction, error) { return d.inner.BeginTx() }
func (d *schedDB) BeginReadTx() (mwdb.ReadTransaction, error) {
	tx, err := d.inner.BeginReadTx()
	if err != nil {
		return nil, err
	}
	return &schedRTx{inner: tx, s: d.s, meta: map[mwdb.BucketMeta]mwdb.BucketMeta{}}, nil
}

type schedRTx struct {
	inner mwdb.ReadTransaction
	s     *isoSched
	meta  map[mwdb.BucketMeta]mwdb.BucketMeta
}

func (t *schedRTx) wrap(b mwdb.Bucket) mwdb.Bucket {
	if b == nil {
		return nil
	}
	return &schedBucket{isoBktI: b, s: t.s, tx: t}
}
func (t *schedRTx) TopLevelBucket(name string) mwdb.Bucket {
	t.s.read("bucket")
	return t.wrap(t.inner.TopLevelBucket(name))
}
func (t *schedRTx) FetchBucket(meta mwdb.BucketMeta) mwdb.Bucket {
	t.s.read("bucket")
	return t.wrap(t.inner.FetchBucket(meta))
}
func (t *schedRTx) BucketNames() ([]string, error) {
	t.s.read("names")
	return t.inner.BucketNames()
}
func (t *schedRTx) Rollback() error { return t.inner.Rollback() }

type isoBktI = mwdb.Bucket

type schedBucket struct {
	isoBktI
	s  *isoSched
	tx *schedRTx
}

func (b *schedBucket) Bucket(name string) mwdb.Bucket {
	b.s.read("bucket")
	return b.tx.wrap(b.isoBktI.Bucket(name))
}
func (b *schedBucket) BucketNames() ([]string, error) {
	b.s.read("names")
	return b.isoBktI.BucketNames()
}
func (b *schedBucket) Get(key []byte) ([]byte, error) {
	b.s.read("get")
	return b.isoBktI.Get(key)
}
func (b *schedBucket) GetByPrefix(p []byte) ([]*mwdb.Entry, error) {
	b.s.read("prefix")
	return b.isoBktI.GetByPrefix(p)
}
func (b *schedBucket) NewIterator(r *mwdb.Range) mwdb.Iterator {
	b.s.read("iter")
	return &schedIter{Iterator: b.isoBktI.NewIterator(r), s: b.s}
}

type schedIter struct {
	mwdb.Iterator
	s *isoSched
}

func (i *schedIter) Next() bool {
	i.s.read("next")
	return i.Iterator.Next()
}
func (i *schedIter) Seek(k []byte) bool {
	i.s.read("seek")
	return i.Iterator.Seek(k)
}

// ---------------------------------------------------------------- executor

type isoExec struct {
	e     *WEnv
	s     *isoSched
	stats map[string]int
	race  raceExec // C17(b): `racerun` ops are part of the same stream (see eng_race.go)
}

func (x *isoExec) env() *WEnv {
	if x.e == nil {
		s := &isoSched{}
		x.s = s
		x.e = newWEnvWrapped(func(e *WEnv) {
			e.wrapDB = func(d mwdb.DB) mwdb.DB { return &schedDB{inner: d, s: s} }
		})
		x.stats = map[string]int{}
	}
	return x.e
}
func (x *isoExec) Reset() {
	if x.e != nil {
		x.e.reset()
	}
}
func (x *isoExec) Close() {
	if x.e != nil {
		x.e.Close()
	}
	if x.stats != nil && os.Getenv("VERIF_ISO_STATS") != "" {
		var ks []string
		for k := range x.stats {
			ks = append(ks, k)
		}
		sort.Strings(ks)
		for _, k := range ks {
			fmt.Fprintf(os.Stderr, "iso-stat %s %d\n", k, x.stats[k])
		}
	}
}

// newWEnvWrapped builds a WEnv whose wrapDB is installed before the first wallet database is opened.
func newWEnvWrapped(pre func(e *WEnv)) *WEnv {
	wenvCounter++
	e := &WEnv{n: wenvCounter}
	cwd, _ := os.Getwd()
	e.dir = filepath.Join(cwd, fmt.Sprintf("wenv-%d-%d", os.Getpid(), e.n))
	if pre != nil {
		pre(e)
	}
	e.reset()
	return e
}

func (x *isoExec) Exec(a []string) string {
	if len(a) == 3 && a[0] == "racerun" {
		return x.race.Exec([]string{"run", a[1], a[2]})
	}
	if len(a) == 3 && a[0] == "concw" {
		// concurrent write transactions on the wallet database driver: writers are serialised, every commit lands whole
		// (eng_kv.go kvConc; seed C17-4: Commit released the writer lock before writing the shared batch)
		w, e1 := strconv.Atoi(a[1])
		n, e2 := strconv.Atoi(a[2])
		if e1 != nil || e2 != nil || w < 1 || w > 8 || n < 1 || n > 2000 {
			return "bad-op"
		}
		return kvConc(w, n)
	}
	e := x.env()
	if len(a) == 0 {
		return "bad-op"
	}
	switch {
	case a[0] == "sweep" && len(a) >= 4:
		return x.sweep(strings.Split(a[1], ";"), nil, a[2:])
	case a[0] == "at" && len(a) >= 5:
		var pos []int
		for _, p := range strings.Split(a[2], ",") {
			v, err := strconv.Atoi(p)
			if err != nil || v < 0 {
				return "bad-op"
			}
			pos = append(pos, v)
		}
		return x.sweep(strings.Split(a[1], ";"), pos, a[3:])
	}
	return ledOp(e, a)
}

// ---------------------------------------------------------------- logical snapshots of the wallet db

// isoDump: bucket path ("top/sub/...") -> key -> value, taken through the public db.DB interface.
type isoDump map[string]map[string][]byte

func isoDumpBucket(b mwdb.Bucket, path string, out isoDump) error {
	ents, err := b.GetByPrefix(nil)
	if err != nil {
		return err
	}
	m := map[string][]byte{}
	for _, en := range ents {
		m[string(en.Key)] = append([]byte{}, en.Value...)
	}
	out[path] = m
	names, err := b.BucketNames()
	if err != nil {
		return err
	}
	for _, n := range names {
		sub := b.Bucket(n)
		if sub == nil {
			return fmt.Errorf("bucket %s/%s vanished", path, n)
		}
		if err := isoDumpBucket(sub, path+"/"+n, out); err != nil {
			return err
		}
	}
	return nil
}

func isoDumpDB(db mwdb.DB) (isoDump, error) {
	out := isoDump{}
	err := mwdb.View(db, func(tx mwdb.ReadTransaction) error {
		names, err := tx.BucketNames()
		if err != nil {
			return err
		}
		for _, n := range names {
			b := tx.TopLevelBucket(n)
			if b == nil {
				return fmt.Errorf("top bucket %s vanished", n)
			}
			if err := isoDumpBucket(b, n, out); err != nil {
				return err
			}
		}
		return nil
	})
	return out, err
}

// isoRevertDB writes the database back to the dumped contents (one write transaction). The set of
// buckets must be unchanged (block processing never creates or deletes buckets); otherwise error.
func isoRevertDB(db mwdb.DB, want isoDump) error {
	cur, err := isoDumpDB(db)
	if err != nil {
		return err
	}
	if len(cur) != len(want) {
		return fmt.Errorf("bucket set changed")
	}
	for p := range want {
		if _, ok := cur[p]; !ok {
			return fmt.Errorf("bucket set changed")
		}
	}
	return mwdb.Update(db, func(tx mwdb.DBTransaction) error {
		for p, wm := range want {
			cm := cur[p]
			same := len(cm) == len(wm)
			if same {
				for k, v := range wm {
					if cv, ok := cm[k]; !ok || !bytes.Equal(cv, v) {
						same = false
						break
					}
				}
			}
			if same {
				continue
			}
			parts := strings.Split(p, "/")
			b := tx.TopLevelBucket(parts[0])
			for _, n := range parts[1:] {
				if b == nil {
					break
				}
				b = b.Bucket(n)
			}
			if b == nil {
				return fmt.Errorf("bucket %s not found", p)
			}
			for k := range cm {
				if _, ok := wm[k]; !ok {
					if err := b.Delete([]byte(k)); err != nil {
						return err
					}
				}
			}
			for k, v := range wm {
				if cv, ok := cm[k]; !ok || !bytes.Equal(cv, v) {
					if err := b.Put([]byte(k), v); err != nil {
						return err
					}
				}
			}
		}
		return nil
	})
}

// freshManager discards all volatile wallet state (follower tip, pending-id set, reservation cache,
// keystore caches) by building a new WalletManager over the open database - what a restart does.
func (x *isoExec) freshManager() error {
	e := x.e
	wm, err := masswallet.NewWalletManager(e.srv, e.wdb, e.cfg, config.ChainParams, pubPass)
	if err != nil {
		return err
	}
	e.wm = wm
	return nil
}

func (x *isoExec) save() (isoDump, error) {
	if err := x.freshManager(); err != nil {
		return nil, err
	}
	return isoDumpDB(x.e.wdb)
}

func (x *isoExec) restore(d isoDump) error {
	if err := isoRevertDB(x.e.wdb, d); err != nil {
		return err
	}
	return x.freshManager()
}

// ---------------------------------------------------------------- queries

func isoIsBuild(q []string) bool { return len(q) == 3 && (q[0] == "build" || q[0] == "buildc") }

func isoValidQuery(q []string) bool {
	if len(q) == 0 {
		return false
	}
	switch q[0] {
	case "bal", "abal", "shist", "bhist":
		return len(q) == 3
	case "utxos":
		return len(q) == 2
	case "build", "buildc":
		return len(q) == 3
	}
	return false
}

type isoBuildRes struct {
	err    bool
	ins    []string // "T:idx" in transaction order
	outSum int64
	fee    uint64
}

func (r isoBuildRes) String() string {
	if r.err {
		return "err"
	}
	return fmt.Sprintf("in=%s,out=%d,fee=%d", strings.Join(r.ins, "+"), r.outSum, r.fee)
}

// build runs EstimateTxFee (commit=false) or AutoCreateRawTransaction (commit=true; the reservation
// it leaves in the volatile used-coin cache is cleared again so that runs stay independent).
func (x *isoExec) build(w string, amt int64, commit bool) isoBuildRes {
	e := x.e
	if err := e.Use(w); err != nil {
		return isoBuildRes{err: true}
	}
	a, err := massutil.NewAmountFromInt(amt)
	if err != nil {
		return isoBuildRes{err: true}
	}
	dest := e.Stranger("X9").enc
	amounts := map[string]massutil.Amount{dest: a}
	var mtx *wire.MsgTx
	var fee massutil.Amount
	if commit {
		var hx string
		hx, fee, err = e.wm.AutoCreateRawTransaction(amounts, 0, massutil.ZeroAmount(), "", "", nil)
		if err == nil {
			raw, derr := hex.DecodeString(hx)
			if derr != nil {
				return isoBuildRes{err: true}
			}
			mtx = wire.NewMsgTx()
			if _, derr = mtx.Decode(bytes.NewReader(raw), wire.Packet); derr != nil {
				return isoBuildRes{err: true}
			}
			e.wm.ClearUsedUTXOMark(mtx)
		}
	} else {
		mtx, fee, err = e.wm.EstimateTxFee(amounts, 0, massutil.ZeroAmount(), "", "", nil)
	}
	if err != nil {
		if verifDebug {
			fmt.Fprintln(os.Stderr, "  [build error]", err)
		}
		return isoBuildRes{err: true}
	}
	r := isoBuildRes{fee: fee.UintValue()}
	for _, in := range mtx.TxIn {
		r.ins = append(r.ins, fmt.Sprintf("%s:%d", e.txName(in.PreviousOutPoint.Hash.String()), in.PreviousOutPoint.Index))
	}
	for _, o := range mtx.TxOut {
		r.outSum += o.Value
	}
	return r
}

// matureCoins: "T:idx" -> amount of the coins the wallet lists as mature right now (isolated).
func (x *isoExec) matureCoins(w string) map[string]uint64 {
	e := x.e
	out := map[string]uint64{}
	if err := e.Use(w); err != nil {
		return out
	}
	m, err := e.wm.GetUtxo(nil)
	if err != nil {
		return out
	}
	for _, us := range m {
		for _, u := range us {
			if u.Confirmations >= u.Maturity && !u.SpentByUnmined {
				out[fmt.Sprintf("%s:%d", e.txName(u.TxId), u.Vout)] = u.Amount.UintValue()
			}
		}
	}
	return out
}

func isoBuildConsistent(r isoBuildRes, boundaries []map[string]uint64) bool {
	if r.err {
		return true
	}
	seen := map[string]bool{}
	for _, in := range r.ins {
		if seen[in] {
			return false
		}
		seen[in] = true
	}
	for _, b := range boundaries {
		ok := true
		var sum uint64
		for _, in := range r.ins {
			v, has := b[in]
			if !has {
				ok = false
				break
			}
			sum += v
		}
		if ok && int64(sum) == r.outSum+int64(r.fee) && r.outSum >= 0 {
			return true
		}
	}
	return false
}

// ---------------------------------------------------------------- the sweep

func (x *isoExec) notify(b string) string {
	bi, ok := x.e.blocks[b]
	if !ok {
		return "bad"
	}
	return errTok(x.e.wm.VerifProcessBlock(bi.msg))
}

func (x *isoExec) runQuery(q []string, at map[int]func()) (string, isoBuildRes, int) {
	s := x.s
	var ans string
	var br isoBuildRes
	// select the wallet before counting starts (UseWallet reads the database itself)
	x.e.Use(q[1])
	s.n, s.at, s.kinds = 0, at, x.stats
	s.active = true
	func() {
		defer func() {
			s.active = false
			if r := recover(); r != nil {
				ans = "PANIC"
				br = isoBuildRes{err: false, ins: []string{"PANIC"}}
			}
		}()
		if isoIsBuild(q) {
			amt, _ := strconv.ParseInt(q[2], 10, 64)
			br = x.build(q[1], amt, q[0] == "buildc")
			ans = br.String()
		} else {
			ans = ledOp(x.e, q)
		}
	}()
	return ans, br, s.n
}

func (x *isoExec) sweep(blks []string, only []int, q []string) string {
	e := x.e
	if !isoValidQuery(q) || len(blks) < 1 || len(blks) > 2 {
		return "bad-op"
	}
	for _, b := range blks {
		if _, ok := e.blocks[b]; !ok {
			return "bad-op"
		}
	}
	if _, ok := e.wallets[q[1]]; !ok {
		return "bad-op"
	}
	if only != nil && len(only) > len(blks) {
		return "bad-op"
	}
	bak, err := x.save()
	if err != nil {
		return "err-save"
	}
	build := isoIsBuild(q)
	// 1. the query in isolation at every boundary
	var iso []string
	var coins []map[string]uint64
	var notes string
	a0, _, n := x.runQuery(q, nil)
	iso = append(iso, a0)
	if build {
		coins = append(coins, x.matureCoins(q[1]))
	}
	for _, b := range blks {
		notes += x.notify(b)[:1] // o / e
		a, _, _ := x.runQuery(q, nil)
		iso = append(iso, a)
		if build {
			coins = append(coins, x.matureCoins(q[1]))
		}
	}
	x.stats["sweeps"]++
	x.stats["reads-total"] += n
	if n > x.stats["reads-max"] {
		x.stats["reads-max"] = n
	}
	head := notes + " " + strings.Join(iso, "|")
	if build {
		head = notes + " build"
	}
	allowed := func(a string, br isoBuildRes, upto int) bool {
		if a == "PANIC" {
			return false
		}
		if build {
			return isoBuildConsistent(br, coins[:upto+1])
		}
		for _, s := range iso[:upto+1] {
			if s == a {
				return true
			}
		}
		return false
	}
	// 2. the schedules
	type sched struct{ pos []int }
	var scheds []sched
	if only != nil {
		scheds = []sched{{only}}
	} else {
		for r := 0; r < n; r++ {
			scheds = append(scheds, sched{[]int{r}})
		}
		if len(blks) == 2 {
			for r := 0; r < n; r++ {
				scheds = append(scheds, sched{[]int{r, r}})
			}
			// B1 at r, B2 at a later read r' (all pairs while small, else a stride)
			stride := 1
			if n > 24 {
				stride = n / 24
			}
			for r := 0; r < n; r += stride {
				for r2 := r + 1; r2 < n; r2 += stride {
					scheds = append(scheds, sched{[]int{r, r2}})
				}
			}
		}
	}
	verdict := ""
	for _, sc := range scheds {
		if err := x.restore(bak); err != nil {
			return "err-restore"
		}
		at := map[int]func(){}
		for i, r := range sc.pos {
			b := blks[i]
			prev := at[r]
			at[r] = func() {
				if prev != nil {
					prev()
				}
				x.notify(b)
			}
		}
		a, br, _ := x.runQuery(q, at)
		x.stats["schedules"]++
		if !allowed(a, br, len(sc.pos)) {
			x.stats["escapes"]++
			if verdict == "" {
				var ps []string
				for _, r := range sc.pos {
					ps = append(ps, strconv.Itoa(r))
				}
				verdict = fmt.Sprintf("at=%s ans=%s", strings.Join(ps, ","), a)
			}
			if only == nil {
				break
			}
		}
	}
	// 3. leave the wallet at the last boundary
	if err := x.restore(bak); err != nil {
		return "err-restore"
	}
	for _, b := range blks {
		x.notify(b)
	}
	if only != nil {
		if verdict == "" {
			return head + " in"
		}
		return head + " out " + verdict
	}
	if verdict == "" {
		return head + " ok"
	}
	return head + " ESCAPE " + verdict
}

// ---------------------------------------------------------------- generator

func genIso(g *Gen) {
	genRaceOps(g, "racerun")
	for i := g.Scale(4, 40); i > 0; i-- {
		g.Reset()
		g.Op("concurrent-writers", "concw %d %d", 2+g.Rng.Intn(3), g.Scale(150, 600)+g.Rng.Intn(50))
	}
	nHist := g.Scale(30, 280)
	for h := 0; h < nHist; h++ {
		l := newLedGen(g, "iso")
		l.maxAddr = 3
		l.start(1 + g.Rng.Intn(2))
		steps := 6 + g.Rng.Intn(g.Scale(10, 18))
		sweeps := 0
		for s := 0; s < steps; s++ {
			reorged := false
			switch k := g.Rng.Intn(20); {
			case k < 10:
				l.extend()
				if g.Rng.Intn(2) == 0 {
					l.extend()
				}
			case k < 13:
				l.reorgTo(1+g.Rng.Intn(3), 1+g.Rng.Intn(2))
				reorged = true
			case k < 17:
				l.recv()
			default:
				l.newAddr(l.wallets[g.Rng.Intn(len(l.wallets))])
			}
			if len(l.queue) > 0 && sweeps < g.Scale(3, 5) && (g.Rng.Intn(3) > 0 || s == steps-1) {
				isoSweep(l, reorged)
				sweeps++
			}
			if g.Rng.Intn(3) == 0 {
				l.drain()
				l.observe(false)
			}
		}
		l.drain()
		l.observe(true)
	}
}

// isoSweep turns the first one or two pending notifications into a sweep of a random query.
func isoSweep(l *ledGen, reorged bool) {
	g := l.g
	k := 1
	if len(l.queue) >= 2 && g.Rng.Intn(3) > 0 {
		k = 2
	}
	blks := strings.Join(l.queue[:k], ";")
	l.queue = l.queue[k:]
	w := l.wallets[g.Rng.Intn(len(l.wallets))]
	var q, class string
	switch g.Rng.Intn(10) {
	case 0, 1, 2:
		q, class = fmt.Sprintf("bal %s %d", w, 1+g.Rng.Intn(5)), "sweep-bal"
	case 3:
		q, class = fmt.Sprintf("abal %s %d", w, 1+g.Rng.Intn(3)), "sweep-abal"
	case 4, 5:
		q, class = fmt.Sprintf("utxos %s", w), "sweep-utxos"
	case 6:
		q, class = fmt.Sprintf("shist %s %d", w, g.Rng.Intn(2)), "sweep-shist"
	case 7:
		q, class = fmt.Sprintf("bhist %s %d", w, g.Rng.Intn(2)), "sweep-bhist"
	case 8:
		q, class = fmt.Sprintf("build %s %d", w, 1+g.Rng.Intn(400)), "sweep-build"
	default:
		q, class = fmt.Sprintf("buildc %s %d", w, 1+g.Rng.Intn(400)), "sweep-build"
	}
	g.Stats[fmt.Sprintf("sweep-%dcommit", k)]++
	if reorged {
		g.Stats["sweep-reorg"]++
	}
	l.op(class, "sweep %s %s", blks, q)
}
