package main

// Generator of keystore histories (engine ks; C12 and C04): wallets on several instances, address
// requests of both classes, payments to arbitrary issued addresses (coinbase, staking and binding
// forms), reorganisations that remove first payments, restarts, public-passphrase changes, issuing
// from private material, signatures, exports, and restores into fresh instances from the mnemonic
// (index hints 0…n, internal hints) or from exported keystore files (fresh and stale), with gap
// limits 2…20, followed by cross-instance comparison and further issuing on both sides.
//
// The generator keeps its own picture of every instance (chain, payments, counters) only to aim the
// histories; expected outputs come from the Lean model / spec, never from here.

import (
	"fmt"
	"strings"
)

type kgBlock struct {
	name  string
	txs   []string // tx names
	lines []string // tx definition lines "tx T U ins outs"
	pays  []string // address names paid (any form)
	cbTx  string
	spent int // height of the block that spent the stranger coin of this block's coinbase (0 = unspent)
}

type kgWallet struct {
	name string
	ex   int // external addresses this instance's wallet holds (0..ex-1)
	in   int
	priv bool
	unl  bool // the address manager is in its "unlocked" state (after sign / unlock, until lock / restart)
}

type kgInst struct {
	n       int
	gap     int
	chain   []*kgBlock // without genesis
	wallets map[string]*kgWallet
	order   []string
	synced  int // blocks notified
	pub     string
}

type ksGen struct {
	g      *Gen
	nTx    int
	nBlk   int
	nJ     int
	nW     int
	insts  map[int]*kgInst
	everEx map[string]int // wallet -> number of external indexes registered anywhere
	jsons  []kgJSON
	nPub   int
	h      int // history number: drives the deterministic part of the coverage
}

type kgJSON struct {
	name string
	w    string
	ex   int
	in   int
}

func (k *ksGen) op(class, f string, a ...interface{}) { k.g.Op(class, f, a...) }

func (k *ksGen) inst(n int, gap int) *kgInst {
	in := &kgInst{n: n, gap: gap, wallets: map[string]*kgWallet{}, pub: pubPass}
	k.insts[n] = in
	k.op("gap", "gap %d %d", n, gap)
	k.g.Stats[fmt.Sprintf("gap-%d", gapBucket(gap))]++
	return in
}

func gapBucket(g int) int {
	switch {
	case g <= 3:
		return g
	case g <= 6:
		return 6
	case g <= 12:
		return 12
	}
	return 20
}

func (k *ksGen) pickGap() int {
	r := k.g.Rng
	switch r.Intn(10) {
	case 0, 1, 2, 3:
		return 2
	case 4, 5:
		return 3
	case 6, 7:
		return 4 + r.Intn(3)
	case 8:
		return 7 + r.Intn(6)
	}
	return 13 + r.Intn(8)
}

func (k *ksGen) create(in *kgInst) *kgWallet {
	k.nW++
	w := &kgWallet{name: fmt.Sprintf("W%d", k.nW)}
	bits := []int{128, 160, 192, 224, 256}[k.g.Rng.Intn(5)]
	if k.nW == 1 {
		bits = []int{128, 160, 192, 224, 256}[k.h%5]
	}
	k.op(fmt.Sprintf("create-e%d", bits), "create %d %s %d", in.n, w.name, bits)
	in.wallets[w.name] = w
	in.order = append(in.order, w.name)
	return w
}

func (in *kgInst) usedSet() map[string]bool {
	u := map[string]bool{}
	for _, b := range in.chain {
		for _, p := range b.pays {
			u[p] = true
		}
	}
	return u
}

func exName(w string, i int) string { return fmt.Sprintf("%s.0.%d", w, i) }

// mayIssue mirrors the issuing rule only to aim the generator (classes, healing).
func (in *kgInst) mayIssue(w *kgWallet) bool {
	n := w.ex
	if n == 0 || n+1 <= in.gap {
		return true
	}
	u := in.usedSet()
	for i := n - in.gap; i < n; i++ {
		if u[exName(w.name, i)] {
			return true
		}
	}
	return false
}

func (k *ksGen) newaddr(in *kgInst, w *kgWallet) {
	cls := "std"
	if k.g.Rng.Intn(4) == 0 {
		cls = "stk"
	}
	ok := in.mayIssue(w)
	class := "newaddr-ok"
	if !ok {
		class = "newaddr-refused"
	} else if w.priv {
		class = "newaddr-from-private"
	} else if cls == "stk" {
		class = "newaddr-stk"
	}
	if ok && w.ex >= in.gap {
		k.g.Stats["newaddr-window-checked"]++
	}
	k.op(class, "newaddr %d %s %s", in.n, w.name, cls)
	if ok {
		w.ex++
		if w.ex > k.everEx[w.name] {
			k.everEx[w.name] = w.ex
		}
	}
}

// block builds, submits and (maybe) notifies one block on the instance paying the given addresses.
func (k *ksGen) block(in *kgInst, pays []string, notify bool) {
	r := k.g.Rng
	k.nBlk++
	k.nTx++
	b := &kgBlock{name: fmt.Sprintf("B%d", k.nBlk)}
	cb := fmt.Sprintf("C%d", k.nTx)
	b.cbTx = cb
	outs := []string{"X1:1000"}
	var rest []string
	for _, a := range pays {
		if r.Intn(3) == 0 {
			rest = append(rest, a)
		} else {
			outs = append(outs, fmt.Sprintf("%s:%d", a, 10+r.Intn(90)))
			b.pays = append(b.pays, a)
			k.g.Stats["pay-coinbase"]++
		}
	}
	b.lines = append(b.lines, fmt.Sprintf("tx %s %d cb %s", cb, k.nTx, strings.Join(outs, ";")))
	b.txs = append(b.txs, cb)
	// staking / binding / plain forms through a transaction that spends an earlier stranger coin
	h := len(in.chain) + 1
	for _, a := range rest {
		var src *kgBlock
		for _, pb := range in.chain {
			if pb.spent == 0 {
				src = pb
				break
			}
		}
		if src == nil {
			// no coin to spend: pay from the coinbase after all
			b.lines[0] += fmt.Sprintf(";%s:%d", a, 10+r.Intn(90))
			b.pays = append(b.pays, a)
			k.g.Stats["pay-coinbase"]++
			continue
		}
		src.spent = h
		k.nTx++
		t := fmt.Sprintf("T%d", k.nTx)
		var out string
		switch r.Intn(4) {
		case 0:
			out = fmt.Sprintf("%s:%d:stk:%d", a, 100+r.Intn(100), 2+r.Intn(2))
			k.g.Stats["pay-staking-form"]++
		case 1:
			out = fmt.Sprintf("%s:%d:bind:%d", a, 100+r.Intn(100), r.Intn(4))
			k.g.Stats["pay-binding-form"]++
		default:
			out = fmt.Sprintf("%s:%d", a, 100+r.Intn(100))
			k.g.Stats["pay-tx"]++
		}
		b.lines = append(b.lines, fmt.Sprintf("tx %s %d %s:0 %s;X2:%d", t, k.nTx, src.cbTx, out, 1+r.Intn(50)))
		b.txs = append(b.txs, t)
		b.pays = append(b.pays, a)
	}
	k.emitBlock(in, b)
	in.chain = append(in.chain, b)
	if notify {
		k.catchUp(in)
	}
}

func (k *ksGen) emitBlock(in *kgInst, b *kgBlock) {
	for _, l := range b.lines {
		k.op("tx", "i %d %s", in.n, l)
	}
	prev := "G"
	if len(in.chain) > 0 {
		prev = in.chain[len(in.chain)-1].name
	}
	k.op("block", "i %d block %s %s %s", in.n, b.name, prev, strings.Join(b.txs, ";"))
	k.op("submit", "i %d submit %s", in.n, b.name)
}

func (k *ksGen) catchUp(in *kgInst) {
	if in.synced >= len(in.chain) {
		return
	}
	for i := in.synced; i < len(in.chain); i++ {
		k.op("notify", "i %d notify %s", in.n, in.chain[i].name)
	}
	in.synced = len(in.chain)
}

func (k *ksGen) someIssued(in *kgInst, w *kgWallet, recentBias bool) string {
	r := k.g.Rng
	if w.ex == 0 {
		return ""
	}
	if w.in > 0 && r.Intn(8) == 0 {
		k.g.Stats["pay-internal"]++
		return fmt.Sprintf("%s.1.%d", w.name, r.Intn(w.in))
	}
	if recentBias && r.Intn(3) > 0 {
		lo := w.ex - in.gap
		if lo < 0 {
			lo = 0
		}
		return exName(w.name, lo+r.Intn(w.ex-lo))
	}
	return exName(w.name, r.Intn(w.ex))
}

func (k *ksGen) pay(in *kgInst) {
	r := k.g.Rng
	var pays []string
	n := 1 + r.Intn(2)
	for i := 0; i < n; i++ {
		w := in.wallets[in.order[r.Intn(len(in.order))]]
		if a := k.someIssued(in, w, true); a != "" {
			pays = append(pays, a)
		}
	}
	k.block(in, pays, r.Intn(5) > 0)
}

// reorg removes the last `depth` blocks and mines replacements that pay other addresses.
func (k *ksGen) reorg(in *kgInst, depth int) {
	r := k.g.Rng
	if depth > len(in.chain) {
		depth = len(in.chain)
	}
	if depth == 0 {
		return
	}
	before := in.usedSet()
	for i := 0; i < depth; i++ {
		h := len(in.chain)
		in.chain = in.chain[:h-1]
		for _, pb := range in.chain {
			if pb.spent == h {
				pb.spent = 0
			}
		}
		k.op("detach", "i %d detach", in.n)
	}
	if in.synced > len(in.chain) {
		// the follower still sits on the removed branch; the next notification walks it back
		in.synced = len(in.chain)
	}
	for i := 0; i < depth+r.Intn(2); i++ {
		var pays []string
		if r.Intn(3) > 0 {
			w := in.wallets[in.order[r.Intn(len(in.order))]]
			if a := k.someIssued(in, w, true); a != "" {
				pays = append(pays, a)
			}
		}
		k.block(in, pays, false)
	}
	after := in.usedSet()
	for a := range before {
		if !after[a] {
			k.g.Stats["reorg-removes-first-payment"]++
			break
		}
	}
	k.g.Stats["reorg"]++
	if r.Intn(4) > 0 {
		k.catchUp(in)
	}
}

func (k *ksGen) observe(in *kgInst) {
	for _, wn := range in.order {
		k.op("q-list", "list %d %s", in.n, wn)
		k.op("q-glist", "glist %d %s", in.n, wn)
		k.op("q-found", "found %d %s", in.n, wn)
	}
}

// heal makes the monotone-usage hypothesis of restore_discovers true for wallet w on instance in
// (w.r.t. gap g): every registered external index j ≥ g has a used index in [j-g, j).
func (k *ksGen) heal(in *kgInst, w string, n int, g int) {
	u := in.usedSet()
	var pays []string
	for j := g; j < n; j++ {
		ok := false
		for i := j - g; i < j; i++ {
			if u[exName(w, i)] {
				ok = true
			}
		}
		if !ok {
			a := exName(w, j-1)
			u[a] = true
			pays = append(pays, a)
		}
	}
	if len(pays) > 0 {
		k.g.Stats["restore-after-reorg-healed"]++
		k.block(in, pays, true)
	}
}

func (k *ksGen) copyChain(src, dst *kgInst) {
	for _, b := range src.chain {
		nb := &kgBlock{name: b.name, txs: b.txs, lines: b.lines, pays: b.pays, cbTx: b.cbTx, spent: b.spent}
		k.emitBlock(dst, nb)
		dst.chain = append(dst.chain, nb)
	}
}

func (k *ksGen) export(in *kgInst, w *kgWallet) kgJSON {
	k.nJ++
	j := kgJSON{name: fmt.Sprintf("J%d", k.nJ), w: w.name, ex: w.ex, in: w.in}
	k.op("export", "export %d %s %s", in.n, w.name, j.name)
	k.jsons = append(k.jsons, j)
	return j
}

// restore brings wallet w of instance src into a fresh instance.
// forced: 0 mnemonic hint 0, 1 mnemonic hint ≤ n, 2 mnemonic with internal hint, 3 fresh file, 4 stale file, else random
func (k *ksGen) restore(src *kgInst, w *kgWallet, n int, forced int) *kgInst {
	r := k.g.Rng
	g := src.gap
	full := r.Intn(3) == 0 // restore with complete counters (export now / full hint): any gap works
	kind := r.Intn(5)
	switch forced {
	case 0, 1, 2:
		kind, full = 0, false
	case 3:
		kind, full = 4, true
	case 4:
		kind, full = 4, false
	}
	if forced == 0 && w.ex >= 2 {
		// make the scan run beyond the hint
		k.block(src, []string{exName(w.name, w.ex-1)}, true)
	}
	var js *kgJSON
	if kind >= 3 {
		// exported file: fresh, or a stale one of the same wallet
		var stale []kgJSON
		for _, j := range k.jsons {
			if j.w == w.name {
				stale = append(stale, j)
			}
		}
		if len(stale) > 0 && !full && (forced == 4 || r.Intn(2) == 0) {
			j := stale[r.Intn(len(stale))]
			js = &j
			k.g.Stats["restore-json-stale"]++
		} else {
			j := k.export(src, w)
			js = &j
			full = true
		}
	}
	dgap := g
	if full {
		dgap = k.pickGap()
		if dgap < g {
			k.g.Stats["restore-gap-smaller-full-hint"]++
		}
	} else if r.Intn(3) == 0 {
		dgap = g + r.Intn(4)
		if dgap > g {
			k.g.Stats["restore-gap-larger"]++
		}
	}
	if !full || r.Intn(2) == 0 {
		k.heal(src, w.name, w.ex, g)
	}
	dst := k.inst(n, dgap)
	k.copyChain(src, dst)
	nw := &kgWallet{name: w.name}
	u := dst.usedSet()
	lastUsed := 0
	for i := 0; i < w.ex; i++ {
		if u[exName(w.name, i)] {
			lastUsed = i + 1
		}
	}
	if js != nil {
		k.op("restore-json", "impks %d %s", n, js.name)
		nw.ex, nw.in = js.ex, js.in
		if nw.ex == 0 {
			nw.ex = 1
		}
	} else {
		he := 0
		hk := r.Intn(4)
		if forced == 0 || forced == 1 {
			hk = forced
		}
		switch hk {
		case 0:
			he = 0
			k.g.Stats["restore-mnemonic-hint0"]++
		case 1:
			he = 1 + r.Intn(w.ex+1)
			k.g.Stats["restore-mnemonic-hintN"]++
		case 2:
			he = w.ex
			k.g.Stats["restore-mnemonic-hint-exact"]++
		default:
			he = w.ex + 1 + r.Intn(3)
			k.g.Stats["restore-mnemonic-hint-beyond"]++
		}
		if full && he < w.ex {
			he = w.ex
		}
		hi := 0
		if forced == 2 || (forced > 4 && r.Intn(3) == 0) {
			hi = 1 + r.Intn(4)
			k.g.Stats["restore-internal-hint"]++
		}
		// the sentence as typed: canonical, or the same words with other white space
		sp := 0
		if forced <= 2 || r.Intn(2) == 0 {
			sp = 1 + (k.h+r.Intn(2))%5
			k.g.Stats["restore-mnemonic-respaced"]++
			k.g.Stats[fmt.Sprintf("respaced-%d", sp)]++
		}
		// … and first, now and then, the same words in another letter case: not list words, so the restore must be refused
		// and leave nothing behind (seed C04-5: the validators lower-cased the sentence while the seed was derived from
		// the text as typed - a wallet whose id its own stored entropy cannot reproduce)
		if k.h%2 == 0 || r.Intn(3) == 0 {
			cv := 6 + r.Intn(3)
			k.op(fmt.Sprintf("restore-mnemonic-case-%d", cv), "impmn %d %s %d %d %d", n, w.name, he, hi, cv)
		}
		k.op("restore-mnemonic", "impmn %d %s %d %d %d", n, w.name, he, hi, sp)
		nw.ex, nw.in = he, hi
		if nw.ex == 0 {
			nw.ex = 1
		}
	}
	if lastUsed > nw.ex {
		nw.ex = lastUsed
		k.g.Stats["restore-scan-extends"]++
	}
	if nw.ex > k.everEx[w.name] {
		k.everEx[w.name] = nw.ex
	}
	dst.wallets[w.name] = nw
	dst.order = append(dst.order, w.name)
	k.op("q-ids", "ids %d", n)
	k.observe(dst)
	k.catchUp(dst)
	k.observe(dst)
	k.op("q-mnem", "mnem %d %s", n, w.name)
	if nw.in > 0 {
		// change addresses exist beside receiving addresses at the same child indexes: exercise the
		// gap-limit window right there (cache as loaded by the import, or as reloaded by a restart)
		if r.Intn(2) == 0 {
			k.op("restart", "restart %d", n)
		}
		var pays []string
		if forced == 2 || r.Intn(2) == 0 {
			pays = append(pays, fmt.Sprintf("%s.1.%d", w.name, r.Intn(nw.in)))
			k.g.Stats["pay-internal"]++
		} else {
			pays = append(pays, exName(w.name, nw.ex-1-r.Intn(minInt(nw.ex, dst.gap))))
		}
		k.block(dst, pays, true)
		for i := 0; i < 1+r.Intn(dst.gap+1); i++ {
			k.newaddr(dst, nw)
		}
		k.g.Stats["window-over-change-addresses"]++
	}
	return dst
}

func minInt(a, b int) int {
	if a < b {
		return a
	}
	return b
}

func (k *ksGen) sign(in *kgInst, w *kgWallet) {
	if w.ex == 0 {
		return
	}
	a := exName(w.name, k.g.Rng.Intn(w.ex))
	if w.in > 0 && k.g.Rng.Intn(4) == 0 {
		a = fmt.Sprintf("%s.1.%d", w.name, k.g.Rng.Intn(w.in))
	}
	class := "sign-public-issued"
	if w.priv {
		class = "sign-private-loaded"
	}
	k.op(class, "sign %d %s %s", in.n, w.name, a)
	w.unl = true
}

func (k *ksGen) step(in *kgInst) {
	r := k.g.Rng
	w := in.wallets[in.order[r.Intn(len(in.order))]]
	switch x := r.Intn(100); {
	case x < 34:
		k.newaddr(in, w)
	case x < 56:
		if w.ex == 0 {
			k.newaddr(in, w)
		} else {
			k.pay(in)
		}
	case x < 63:
		k.reorg(in, 1+r.Intn(3))
	case x < 69:
		k.op("restart", "restart %d", in.n)
		for _, ww := range in.wallets {
			ww.priv, ww.unl = false, false
		}
	case x < 74:
		k.sign(in, w)
	case x < 78:
		if w.priv {
			k.op("lock", "lock %d", in.n)
			for _, ww := range in.wallets {
				ww.priv, ww.unl = false, false
			}
		} else if !w.unl {
			k.op("unlock", "unlock %d %s", in.n, w.name)
			w.priv, w.unl = true, true
		}
	case x < 81:
		k.nPub++
		in.pub = fmt.Sprintf("Newpub%d#abc", k.nPub)
		k.op("chpub", "chpub %d %s", in.n, in.pub)
		if r.Intn(2) == 0 {
			k.op("restart-after-chpub", "restart %d", in.n)
			for _, ww := range in.wallets {
				ww.priv, ww.unl = false, false
			}
		}
	case x < 84:
		k.export(in, w)
		// (GetMnemonic after an export in the unlocked state fails in the code: a C05 matter, not generated here)
		if !w.unl {
			k.op("q-mnem", "mnem %d %s", in.n, w.name)
		}
	case x < 87:
		k.catchUp(in)
	default:
		k.catchUp(in)
		k.observe(in)
	}
}

// prelude: the deterministic part of the coverage (every required class occurs in every few histories)
func (k *ksGen) prelude(in *kgInst) {
	w := in.wallets[in.order[0]]
	k.newaddr(in, w)
	if k.h%3 == 0 {
		k.op("unlock", "unlock %d %s", in.n, w.name)
		w.priv, w.unl = true, true
		k.newaddr(in, w)
		k.sign(in, w)
		k.op("lock", "lock %d", in.n)
		w.priv, w.unl = false, false
	}
	k.sign(in, w)
	k.op("lock", "lock %d", in.n)
	w.unl = false
	// a first payment, then a reorganisation that removes it
	k.block(in, []string{exName(w.name, w.ex-1)}, true)
	k.reorg(in, 1)
	k.catchUp(in)
	// every payment form
	for f := 0; f < 3; f++ {
		k.block(in, []string{exName(w.name, k.g.Rng.Intn(w.ex)), exName(w.name, w.ex-1)}, true)
	}
	if k.h%2 == 0 {
		// ask until refused
		for i := 0; i < in.gap+2 && in.mayIssue(w); i++ {
			k.newaddr(in, w)
		}
		k.newaddr(in, w)
	}
	if k.h%6 == 4 {
		k.export(in, w) // a file that will be stale at restore time
		k.newaddr(in, w)
	}
	if k.h%4 == 2 {
		k.nPub++
		in.pub = fmt.Sprintf("Newpub%d#abc", k.nPub)
		k.op("chpub", "chpub %d %s", in.n, in.pub)
		k.op("restart-after-chpub", "restart %d", in.n)
	} else {
		k.op("restart", "restart %d", in.n)
	}
	k.observe(in)
}

// gapAfterUnpay: the gap window must be judged against the chain AS IT IS NOW, in one process life: issue up to the
// window boundary, pay the newest address, ask again (granted: the payment justifies it), reorganise the payment away
// (the replacement block pays nobody of this wallet), catch up, ask again WITHOUT a restart: refused again.
// Seed C12-5: the manager remembered script hashes the chain had once reported as used.
func (k *ksGen) gapAfterUnpay(in *kgInst) {
	w := in.wallets[in.order[0]]
	for i := 0; i < in.gap+2 && in.mayIssue(w); i++ {
		k.newaddr(in, w)
	}
	if in.mayIssue(w) || w.ex == 0 {
		return // some address in the window has history already: not the situation wanted
	}
	k.catchUp(in)
	k.newaddr(in, w) // refused
	a := exName(w.name, w.ex-1)
	k.nBlk++
	k.nTx++
	b := &kgBlock{name: fmt.Sprintf("B%d", k.nBlk), pays: []string{a}}
	b.cbTx = fmt.Sprintf("C%d", k.nTx)
	b.lines = []string{fmt.Sprintf("tx %s %d cb X1:1000;%s:%d", b.cbTx, k.nTx, a, 10+k.g.Rng.Intn(90))}
	b.txs = []string{b.cbTx}
	k.emitBlock(in, b)
	in.chain = append(in.chain, b)
	k.catchUp(in)
	if !in.mayIssue(w) {
		return
	}
	k.newaddr(in, w) // granted: the manager has now SEEN the payment
	// reorganise the payment away
	in.chain = in.chain[:len(in.chain)-1]
	k.op("detach", "i %d detach", in.n)
	if in.synced > len(in.chain) {
		in.synced = len(in.chain)
	}
	k.nBlk++
	k.nTx++
	r := &kgBlock{name: fmt.Sprintf("B%d", k.nBlk)}
	r.cbTx = fmt.Sprintf("C%d", k.nTx)
	r.lines = []string{fmt.Sprintf("tx %s %d cb X1:1000", r.cbTx, k.nTx)}
	r.txs = []string{r.cbTx}
	k.emitBlock(in, r)
	in.chain = append(in.chain, r)
	k.catchUp(in)
	for i := 0; i < in.gap+1; i++ {
		ok := in.mayIssue(w)
		k.newaddr(in, w)
		if !ok {
			k.g.Stats["newaddr-refused-after-unpay"]++
			break
		}
	}
	k.observe(in)
}

func genKs(g *Gen) {
	nHist := g.Scale(24, 420)
	for h := 0; h < nHist; h++ {
		k := &ksGen{g: g, insts: map[int]*kgInst{}, everEx: map[string]int{}, h: h}
		g.Reset()
		k.op("params", "i 1 params 1 1")
		gap := k.pickGap()
		if h < 10 {
			gap = []int{2, 3, 5, 9, 15}[h%5]
		}
		in1 := k.inst(1, gap)
		k.create(in1)
		if h%4 == 1 || g.Rng.Intn(6) == 0 {
			k.create(in1)
			g.Stats["second-wallet"]++
		}
		k.prelude(in1)
		if h%3 == 0 {
			k.gapAfterUnpay(in1)
		}
		steps := 6 + g.Rng.Intn(g.Scale(22, 40))
		for s := 0; s < steps; s++ {
			k.step(in1)
		}
		k.catchUp(in1)
		k.observe(in1)
		// restores
		nInst := 1
		cur := in1
		nRest := 1 + g.Rng.Intn(2)
		if h%2 == 0 {
			nRest = 2
		}
		for rr := 0; rr < nRest; rr++ {
			src := cur
			w := src.wallets[src.order[g.Rng.Intn(len(src.order))]]
			forced := 99
			if rr == 0 {
				forced = h % 6
				w = src.wallets[src.order[0]]
			}
			nInst++
			dst := k.restore(src, w, nInst, forced)
			if nInst >= 3 {
				g.Stats["third-instance"]++
			}
			// both sides go on
			for s := 0; s < 4+g.Rng.Intn(10); s++ {
				if g.Rng.Intn(3) == 0 {
					k.step(src)
				} else {
					k.step(dst)
				}
			}
			k.catchUp(dst)
			k.observe(dst)
			k.catchUp(src)
			k.observe(src)
			if g.Rng.Intn(2) == 0 {
				cur = dst
			}
		}
	}
	genKsc(g) // C04 / C12: the byte-level codecs of counters, index keys and the exported file (engine ksc lines)
}
