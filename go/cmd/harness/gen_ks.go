package main

func genKs(g *Gen) {
}
