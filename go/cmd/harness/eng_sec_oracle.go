package main

// Oracle tokens of the `sign` ops of engine sec (C03 round 5).
//
// The Lean driver runs `signTx` with the script VM MODEL as the engine (MW.Model.SignTab / MW.Lemmas.SignVM.vmEngine):
// it builds the witness [push(signature || hash type), redeem script] itself and runs it through ScriptVM.verify.
// It never computes a hash or a curve operation; the op line carries, after its arguments, true facts about the
// primitives (the way engine bip32 does):
//
//	a:<address>:<script hash>:<pubkey|->       script hash of the symbolic address; the key the CURRENT keystore holds for it
//	s:<in>:<out>                               sha256(in) = out   (in = the redeem script ManagedAddress.RedeemScript returns)
//	k:<pubkey>                                 btcec.ParsePubKey accepts the key
//	d:<i>:<amount>:<sub-script>:<ht>:<digest>  signature hash of input i (secSigHash: the harness's independent re-implementation)
//	g:<pubkey>:<digest>:<der>                  the REAL signer (WalletManager.SignHash -> keystore signBtcec) signed digest with the
//	                                           key of <pubkey>; ParseDERSignature accepts <der> and Signature.Verify(digest, key) holds
//	x:<why>                                    an oracle failed (the model then answers oracle:<why>, which no implementation output equals)
//
// btcec signatures are deterministic (RFC 6979) and wallet entropy is derived from the wallet NAME in this engine
// (secDetCreate: a value fed to crypto/rand.Reader during CreateWallet, not logic), so the tokens computed when the stream
// is GENERATED (secOracleCapture: the generator replays its own history on a real wallet) are recomputed when the op is
// EXECUTED and compared byte for byte: a difference is reported as `!oracle-drift`.

import (
	"bufio"
	"bytes"
	crand "crypto/rand"
	"crypto/sha256"
	"encoding/binary"
	"encoding/hex"
	"fmt"
	"io"
	"strings"

	"github.com/btcsuite/btcd/btcec"
	"github.com/massnetorg/mass-core/consensus"
	"github.com/massnetorg/mass-core/wire"
	"massnet.org/mass-wallet/config"
)

// ---------------------------------------------------------------- deterministic wallet entropy

type detReader struct {
	seed [32]byte
	ctr  uint64
	buf  []byte
}

func (d *detReader) Read(p []byte) (int, error) {
	for len(d.buf) < len(p) {
		var c [8]byte
		binary.LittleEndian.PutUint64(c[:], d.ctr)
		d.ctr++
		h := sha256.Sum256(append(d.seed[:], c[:]...))
		d.buf = append(d.buf, h[:]...)
	}
	copy(p, d.buf[:len(p)])
	d.buf = d.buf[len(p):]
	return len(p), nil
}

// secDetCreate runs f (a CreateWallet call) with crypto/rand.Reader replaced by a stream derived from the wallet name:
// the keys of wallet W are the same in every run (the nonces and salts of snacl keep their own reader).
func secDetCreate(name string, bits int, f func()) {
	old := crand.Reader
	crand.Reader = io.Reader(&detReader{seed: sha256.Sum256([]byte(fmt.Sprintf("verif-entropy:%s:%d", name, bits)))})
	defer func() { crand.Reader = old }()
	f()
}

// ---------------------------------------------------------------- MASSIP-2 warm-up height (a value of the run)

var defaultWarmUpHeight = consensus.MASSIP0002WarmUpHeight

// ---------------------------------------------------------------- tokens

// signOracle: the facts the model needs to sign transaction tx of wallet w under `flag` and to run the script VM on the
// result. Independent of the outcome of SignRawTx (computed for the right passphrase).
func (x *secExec) signOracle(w, flag string, txName string) []string {
	e := x.e
	ti, ok := e.txs[txName]
	if !ok {
		return nil
	}
	return x.signOracleTx(w, flag, ti.msg)
}

func (x *secExec) signOracleTx(w, flag string, tx *wire.MsgTx) []string {
	e := x.e
	ht, okf := secFlags[flag]
	if !okf {
		return nil
	}
	if err := e.Use(w); err != nil {
		return nil
	}
	// the transaction the real SignRawTx has just returned for this op, if it succeeded
	signed := x.lastSigned
	x.lastSigned = nil
	if signed != nil && !bytes.Equal(noWitnessBytes(signed), noWitnessBytes(tx)) {
		signed = nil
	}
	km := e.wm.VerifKeystoreManager()
	var toks []string
	seen := map[string]bool{}
	add := func(t string) {
		if !seen[t] {
			seen[t] = true
			toks = append(toks, t)
		}
	}
	for i, in := range tx.TxIn {
		pt, ok := e.txByHash[in.PreviousOutPoint.Hash]
		if !ok || int(in.PreviousOutPoint.Index) >= len(pt.msg.TxOut) {
			continue
		}
		po := pt.msg.TxOut[in.PreviousOutPoint.Index]
		sh := scriptHashOfPk(po.PkScript)
		if sh == nil {
			continue
		}
		ai, ok := e.addrBySH[string(sh)]
		if !ok {
			continue
		}
		if ai.wallet != w || !x.present[w] {
			add(fmt.Sprintf("a:%s:%s:-", ai.name, hex.EncodeToString(sh)))
			continue
		}
		ma, err := km.GetManagedAddressByStdAddress(ai.stdEnc)
		if err != nil {
			add(fmt.Sprintf("a:%s:%s:-", ai.name, hex.EncodeToString(sh)))
			continue
		}
		pub := ma.PubKey()
		pk := pub.SerializeCompressed()
		add(fmt.Sprintf("a:%s:%s:%s", ai.name, hex.EncodeToString(sh), hex.EncodeToString(pk)))
		if _, err := btcec.ParsePubKey(pk, btcec.S256()); err == nil {
			add("k:" + hex.EncodeToString(pk))
		}
		redeem, err := ma.RedeemScript(config.ChainParams)
		if err != nil {
			add(fmt.Sprintf("x:redeem@%d", i))
			continue
		}
		rh := sha256.Sum256(redeem)
		add(fmt.Sprintf("s:%s:%s", hex.EncodeToString(redeem), hex.EncodeToString(rh[:])))
		digest := secSigHash(tx, i, ht, redeem, po.Value)
		add(fmt.Sprintf("d:%d:%d:%s:%d:%s", i, po.Value, hex.EncodeToString(redeem), uint32(ht), hex.EncodeToString(digest)))
		sig, err := e.wm.SignHash(pub, digest, []byte(x.pass[w]))
		if err != nil || sig == nil {
			add(fmt.Sprintf("x:signer@%d", i))
			continue
		}
		der := sig.Serialize()
		ps, err := btcec.ParseDERSignature(der, btcec.S256())
		if err != nil || !ps.Verify(digest, pub) {
			add(fmt.Sprintf("x:ecdsa@%d", i))
			continue
		}
		add(fmt.Sprintf("g:%s:%s:%s", hex.EncodeToString(pk), hex.EncodeToString(digest), hex.EncodeToString(der)))
		if signed != nil && len(signed.TxIn[i].Witness) == 2 {
			// RFC 6979: the signature inside the transaction SignRawTx returned is the one the signer gives for the digest
			w0 := signed.TxIn[i].Witness[0]
			want := append(append([]byte{byte(len(der) + 1)}, der...), byte(ht))
			if !bytes.Equal(w0, want) {
				add(fmt.Sprintf("x:sigbytes@%d", i))
			}
		}
	}
	if signed != nil {
		for i, in := range signed.TxIn {
			if len(in.Witness) == 2 {
				add(fmt.Sprintf("w:%d:%s:%s", i, hexTok(in.Witness[0]), hexTok(in.Witness[1])))
			} else {
				add(fmt.Sprintf("x:witness-shape@%d", i))
			}
		}
	}
	return toks
}

// autoOracle: the transaction the wallet built in the last `autosign` op, in the symbolic names of the history
// (t=<number of outputs>=<tx>:<index>:<sequence>;…), followed by the signing facts for it.
func (x *secExec) autoOracle(w, flag string) []string {
	tx := x.lastAuto
	x.lastAuto = nil
	if tx == nil {
		return nil
	}
	var ins []string
	for _, in := range tx.TxIn {
		ins = append(ins, fmt.Sprintf("%s:%d:%d", x.e.txName(in.PreviousOutPoint.Hash.String()), in.PreviousOutPoint.Index, in.Sequence))
	}
	toks := []string{fmt.Sprintf("t=%d=%s", len(tx.TxOut), strings.Join(ins, ";"))}
	return append(toks, x.signOracleTx(w, flag, tx)...)
}

// secStableToks drops the tokens that depend on the order of the outputs of a wallet-built transaction
func secStableToks(toks []string) []string {
	var out []string
	for _, t := range toks {
		if strings.HasPrefix(t, "d:") || strings.HasPrefix(t, "g:") || strings.HasPrefix(t, "w:") {
			continue
		}
		out = append(out, t)
	}
	return out
}

// ---------------------------------------------------------------- generation time

// secOracleCapture redirects the op lines of the generator to memory; the returned function replays them, history by
// history, on a real wallet environment (the same executor `exec` uses) and writes them out with the oracle tokens
// appended to every `sign` line.
func secOracleCapture(g *Gen) func() {
	real := g.w
	var mem bytes.Buffer
	g.w = bufio.NewWriterSize(&mem, 1<<20)
	return func() {
		g.w.Flush()
		g.w = real
		x := &secExec{}
		defer x.Close()
		pre := g.Engine + " "
		// thorough tier: the replay doubles the cost of a history, so every third history carries tokens (500 of 1500
		// histories, 3.5 x the quick tier); the others keep token-less sign lines (symbolic engine in the driver)
		hist, skip := -1, false
		for _, line := range strings.Split(strings.TrimRight(mem.String(), "\n"), "\n") {
			if line == "reset" {
				hist++
				// quick tier: one history in ten (among them warm-up histories) stays token-less, so that the symbolic path is run too
				skip = (!g.Quick() && hist%3 != 0) || (g.Quick() && hist%10 == 6)
				resetConsensusParams() // as runExec does at every reset line (wenv.go)
				if !skip {
					x.Reset()
				}
				fmt.Fprintln(real, line)
				continue
			}
			if skip || !strings.HasPrefix(line, pre) {
				fmt.Fprintln(real, line)
				continue
			}
			a := strings.Fields(line[len(pre):])
			if len(a) == 0 || a[0] == "vm" {
				fmt.Fprintln(real, line)
				continue
			}
			safeExec(x, a)
			if a[0] == "sign" && len(a) == 5 {
				if toks := x.signOracle(a[1], flagTok(a[3]), a[4]); len(toks) > 0 {
					line += " " + strings.Join(toks, " ")
					g.Stats["sign-oracle-tokens"]++
				}
			}
			if a[0] == "autosign" && len(a) >= 6 {
				if toks := x.autoOracle(a[1], flagTok(a[3])); len(toks) > 0 {
					line += " " + strings.Join(toks, " ")
					g.Stats["auto-oracle-tokens"]++
				}
			}
			fmt.Fprintln(real, line)
		}
	}
}
