package main

// A wallet left on a block the node has replaced by one with the SAME byte layout in front of the wallet's transaction
// (engines led, txb): every read that goes through chainFetcher.FetchTxByLoc (ExistsTx: withdrawal-sequence drafts, manual
// creates; the binding history) still finds the transaction at the recorded offset, so the wallet keeps answering what
// the specification (stated over the chain the wallet has been told about) says. The record-level model of FetchTxByLoc
// (location = block id + index) said "not found" here (found by C03 thorough, seed 1; see gen_sec_stale.go for the
// variants that SHIFT the offset - on those the stale wallet rightly fails, and no specification applies).
// Variants: the same layout with a fresh coinbase, and the compensated one (coinbase one byte shorter / longer, the
// transaction in front of T one byte the other way).

import (
	"fmt"
	"strings"
)

var staleSameN int

func genStaleSame(g *Gen) {
	r := g.Rng
	g.Reset()
	g.Op("params", "params 2 3")
	g.Op("wallet", "wallet W1")
	for i := 1; i <= 3; i++ {
		g.Op("addr", "addr W1 A%d std", i)
	}
	n := 10
	uniq := func() int { n++; return n }
	g.Op("tx", "tx C10 10 cb A1:%d;A2:%d;X1:%d;X2:%d", staleAmt(g, true), staleAmt(g, true), staleAmt(g, true), staleAmt(g, true))
	g.Op("block", "block B1 G C10")
	g.Op("submit", "submit B1")
	g.Op("notify", "notify B1")
	comp := staleSameN%2 == 1
	staleSameN++
	cbBig := r.Intn(2) == 0
	k := r.Intn(3)
	if comp && k == 0 {
		k = 1
	}
	type ftx struct {
		name string
		src  int
		big  bool
	}
	filler := func(src int, big bool) ftx {
		u := uniq()
		f := ftx{fmt.Sprintf("F%d", u), src, big}
		g.Op("tx", "tx %s %d C10:%d X9:%d", f.name, u, src, staleAmt(g, big))
		return f
	}
	cb := func(big bool) string {
		u := uniq()
		g.Op("tx", "tx C%d %d cb X4:%d", u, u, staleAmt(g, big))
		return fmt.Sprintf("C%d", u)
	}
	var fill []ftx
	for i := 0; i < k; i++ {
		big := r.Intn(2) == 0
		if comp && i == 0 {
			big = !cbBig
		}
		fill = append(fill, filler(2+i, big))
	}
	u := uniq()
	T := fmt.Sprintf("T%d", u)
	bindAmt := staleAmt(g, false)
	g.Op("tx", "tx %s %d C10:0 A2:%d;A3:%d:bind:%d;X8:%d", T, u, staleAmt(g, true), bindAmt, 1+r.Intn(3), staleAmt(g, false))
	names := []string{cb(cbBig)}
	for _, f := range fill {
		names = append(names, f.name)
	}
	g.Op("block", "block B2 B1 %s", strings.Join(append(names, T), ";"))
	g.Op("submit", "submit B2")
	g.Op("notify", "notify B2")
	query := func(class string) {
		switch g.Engine {
		case "txb":
			g.Op("man-"+class, "man W1 0 - - %s:0 X7:%d", T, 100000000+r.Int63n(50000000))
			g.Op("q-sums", "sums")
			g.Op("q-judge", "judge")
		default:
			g.Op("q-wseq-"+class, "wseq W1 %s:0 %d", T, r.Intn(2)*7)
			g.Op("q-wseq-"+class, "wseq W1 %s:1 %d", T, r.Intn(2)*7)
			g.Op("q-bhist-"+class, "bhist W1 %d", r.Intn(2))
			g.Op("q-utxos", "utxos W1")
		}
	}
	query("insync")
	bn := 2
	for rd := 0; rd < 2; rd++ {
		g.Op("detach", "detach")
		var blk []string
		class := "stale-same-offset"
		if comp && rd == 0 {
			class = "stale-compensated-offset"
			blk = []string{cb(!cbBig)}
			for i, f := range fill {
				b := f.big
				if i == 0 {
					b = cbBig
				}
				blk = append(blk, filler(f.src, b).name)
			}
		} else {
			blk = []string{cb(cbBig)}
			for _, f := range fill {
				if r.Intn(2) == 0 {
					blk = append(blk, filler(f.src, f.big).name) // another transaction of the same length
				} else {
					blk = append(blk, f.name)
				}
			}
		}
		bn++
		g.Op("block", "block B%d B1 %s", bn, strings.Join(append(blk, T), ";"))
		g.Op("submit", "submit B%d", bn)
		query(class)
	}
	g.Op("notify", "notify B%d", bn)
	query("caughtup")
}
