package main

// Generator of the crash engine (C06): ledGen chain histories (extend / reorg / late notifications /
// unconfirmed transactions / new addresses) plus wallet creation in mid-history, explicit process
// restarts (`boot`: the real Start catch-up, `restart`: NewWalletManager only), and - in a share of the
// histories ("bg") - background work: import of an external wallet that has history on the chain and
// removal of a wallet, driven step by step. Observations are emitted only after the notification queue
// is drained; in bg histories they are `rec` ops (recorded for the twin-vs-crash comparison only: the
// ledger model does not cover import / removal). The history ends with `commits` (plain histories) and
// `crashall D M` (every wallet-database commit of the history as crash point).

import (
	"fmt"
	"strings"
)

func genCrash(g *Gen) {
	nHist := g.Scale(12, 100)
	for h := 0; h < nHist; h++ {
		bg := h%3 == 2
		rw := newLineRewriter(g, "crash")
		l := rw.l
		resetSpenders()
		removed := ""
		flush := func() {
			rw.flush(func(op, body string) (string, string) {
				if op == "recvtx" {
					name := strings.Fields(body)[1]
					if !singleSpender(l, name) {
						dropFromPool(l, name)
						g.Stats["recvtx-suppressed"]++
						return "", ""
					}
				}
				if bg && (op == "recvtx" || (op == "notify" && removed != "") || isObservation(strings.Fields(body))) {
					// the ledger model does not cover import / removal: executed and recorded only
					return "rec", "rec " + body
				}
				return "", body
			})
		}
		quiesce := func(full bool) {
			l.drain()
			l.observe(full)
			l.op("q-wallets", "wallets")
			flush()
		}
		if bg {
			l.start(2)
		} else {
			l.start(1 + g.Rng.Intn(2))
		}
		flush()
		steps := 6 + g.Rng.Intn(g.Scale(10, 16))
		boots := 0
		lazy := g.Rng.Intn(3) == 0
		imp := ""     // external wallet prepared / imported
		impState := 0 // 0 none, 1 prepared, 2 imported (importing), 3 done
		if bg {
			imp = "WI"
			rw.emit("mkimport", "mkimport WI 2")
			impState = 1
			// ledGen pays WI's addresses like any wallet's, but never issues new ones for it
			l.wallets = append(l.wallets, imp)
			for i := 0; i < l.maxAddr; i++ {
				a := fmt.Sprintf("WIa%d", 1+i%2)
				l.addrs[imp] = append(l.addrs[imp], a)
				l.owner[a] = imp
			}
		}
		for s := 0; s < steps; s++ {
			switch k := g.Rng.Intn(24); {
			case k < 9:
				l.extend()
			case k < 12:
				l.reorgTo(1+g.Rng.Intn(g.Scale(3, 6)), 1+g.Rng.Intn(2))
			case k < 15:
				// not while an import is in progress: an unconfirmed transaction that arrives during
				// the import is dropped for the importing wallet (C07's subject), and a restarted
				// wallet finishes its import at once - the two runs would differ by worker timing
				// and only while the follower is caught up: proccessReceivedTx drops unconfirmed
				// transactions unless synced-to >= best height - 1 (the harness enters below that gate);
				// a transaction accepted by a wallet that lags far behind makes the pending set depend on
				// the order of later rollbacks (C09's subject, see notes/C06.md A4 / F1)
				if !(bg && impState == 2) {
					l.drain()
					prunePool(l)
					l.recv()
				}
			case k < 17:
				l.newAddr(l.wallets[g.Rng.Intn(len(l.wallets))])
			case k < 18 && len(l.wallets) < 4 && !bg:
				w := fmt.Sprintf("W%d", len(l.wallets)+1)
				l.wallets = append(l.wallets, w)
				l.op("wallet-mid", "wallet %s", w)
				l.newAddr(w)
			case k < 20 && boots < 1:
				boots++
				// process death and restart of the uninterrupted run itself; the node may be ahead
				l.op("boot", "boot")
				// the notification queue died with the process; Start caught up with the node
				l.queue = nil
			case k < 21 && boots < 2 && !bg:
				boots++
				l.op("restart", "restart")
			case k < 23 && bg:
				flush()
				switch {
				case impState == 1 && s >= 2:
					l.drain()
					flush()
					rw.emit("import", "import WI")
					impState = 2
				case impState == 2:
					rw.emit("importstep", "importstep WI")
					if g.Rng.Intn(3) > 0 {
						rw.emit("importstep", "importstep WI")
						impState = 3
					}
				case removed == "" && impState != 2 && len(l.wallets) > 2:
					// remove one of the original wallets
					w := l.wallets[0]
					l.drain()
					flush()
					rw.emit("remove", "remove "+w)
					// what the listing says while the removal is only marked: every OTHER wallet is still ready
					// (seed C06-5: the removed flag leaked to the wallets listed after the marked one)
					rw.emit("wallets-after-mark", "rec wallets")
					removed = w
					l.wallets = l.wallets[1:] // no new addresses / payments for it from here on
					if g.Rng.Intn(2) == 0 {
						l.extend() // a block arrives between marking and the removal run
						flush()
					}
					rw.emit("removerun", "removerun "+w)
				}
			default:
				l.processOne()
			}
			flush()
			if !lazy || g.Rng.Intn(4) == 0 {
				quiesce(g.Rng.Intn(3) == 0)
			} else if g.Rng.Intn(3) == 0 {
				l.processOne()
				flush()
			}
		}
		if impState == 1 {
			l.drain()
			flush()
			rw.emit("import", "import WI")
			impState = 2
		}
		if impState == 2 {
			l.drain()
			flush()
			rw.emit("importstep", "importstep WI")
			rw.emit("importstep", "importstep WI")
			rw.emit("importstep", "importstep WI")
		}
		if bg && removed == "" && len(l.wallets) > 1 {
			l.drain()
			flush()
			rw.emit("remove", "remove "+l.wallets[0])
			rw.emit("wallets-after-mark", "rec wallets")
			rw.emit("removerun", "removerun "+l.wallets[0])
			l.wallets = l.wallets[1:]
		}
		quiesce(true)
		if !bg {
			rw.emit("commits", "commits")
		}
		if g.Rng.Intn(g.Scale(5, 6)) == 0 {
			rw.emit("crashall-2", fmt.Sprintf("crashall 2 %d", g.Scale(5, 4)))
		} else {
			rw.emit("crashall-1", "crashall 1 1")
		}
	}
}
