package main

// Generator of the crash engine (C06): ledGen chain histories (extend / reorg / late notifications /
// unconfirmed transactions / new addresses) plus wallet creation in mid-history, explicit process
// restarts (`boot`: the real Start catch-up, `restart`: NewWalletManager only), and - in a share of the
// histories - background work (import of an external wallet with history, removal). Observations are
// emitted only after the notification queue is drained; the history ends with `commits` and
// `crashall D M` (every wallet-database commit of the history as crash point).

import "fmt"

type crashGen struct {
	l *ledGen
	g *Gen
}

func (c *crashGen) quiesce(full bool) {
	c.l.drain()
	c.l.observe(full)
	c.l.op("q-wallets", "wallets")
}

func genCrash(g *Gen) {
	nHist := g.Scale(10, 160)
	for h := 0; h < nHist; h++ {
		l := newLedGen(g, "crash")
		c := &crashGen{l: l, g: g}
		l.start(1 + g.Rng.Intn(2))
		steps := 6 + g.Rng.Intn(g.Scale(10, 24))
		boots := 0
		lazy := g.Rng.Intn(3) == 0
		for s := 0; s < steps; s++ {
			switch k := g.Rng.Intn(24); {
			case k < 9:
				l.extend()
			case k < 12:
				l.reorgTo(1+g.Rng.Intn(g.Scale(3, 6)), 1+g.Rng.Intn(2))
			case k < 16:
				l.recv()
			case k < 18:
				l.newAddr(l.wallets[g.Rng.Intn(len(l.wallets))])
			case k < 19 && len(l.wallets) < 4:
				w := fmt.Sprintf("W%d", len(l.wallets)+1)
				l.wallets = append(l.wallets, w)
				l.op("wallet-mid", "wallet %s", w)
				l.newAddr(w)
			case k < 21 && boots < 1:
				boots++
				// process death and restart of the uninterrupted run itself; the node may be ahead
				l.op("boot", "boot")
				// Start caught up with the node: the notifications still queued are now stale
				if g.Rng.Intn(2) == 0 {
					l.queue = nil
					l.g.Stats["boot-drops-queue"]++
				}
			case k < 22 && boots < 2:
				boots++
				l.op("restart", "restart")
			default:
				l.processOne()
			}
			if !lazy || g.Rng.Intn(4) == 0 {
				c.quiesce(g.Rng.Intn(3) == 0)
			} else if g.Rng.Intn(3) == 0 {
				l.processOne()
			}
		}
		c.quiesce(true)
		l.op("commits", "commits")
		if g.Rng.Intn(g.Scale(6, 3)) == 0 {
			l.op("crashall-2", "crashall 2 %d", g.Scale(5, 3))
		} else {
			l.op("crashall-1", "crashall 1 1")
		}
	}
}
