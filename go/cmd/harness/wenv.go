package main

// Wallet environment shared by the stateful engines (ledger, handler, txbuild, keystore, api):
// a REAL mass-core chain database (memdb) filled with hand-assembled blocks, a REAL on-disk
// wallet LevelDB and a REAL masswallet.WalletManager built from /repo's working tree.
// Everything is addressed by symbolic names so that op lines are portable to the Lean model:
//   wallets  W*, addresses A* (owned) / X* (strangers), transactions T*, blocks B* (genesis = G).

import (
	"bytes"
	"crypto/sha256"
	"encoding/binary"
	"encoding/hex"
	"fmt"
	"os"
	"path/filepath"
	"sort"
	"strconv"
	"strings"
	"time"

	"github.com/massnetorg/mass-core/blockchain"
	"github.com/massnetorg/mass-core/consensus"
	"github.com/massnetorg/mass-core/database"
	cldb "github.com/massnetorg/mass-core/database/ldb"
	"github.com/massnetorg/mass-core/database/storage"
	_ "github.com/massnetorg/mass-core/database/storage/ldbstorage"
	"github.com/massnetorg/mass-core/logging"
	"github.com/massnetorg/mass-core/massutil"
	"github.com/massnetorg/mass-core/netsync"
	"github.com/massnetorg/mass-core/txscript"
	"github.com/massnetorg/mass-core/wire"
	"massnet.org/mass-wallet/config"
	"massnet.org/mass-wallet/masswallet"
	mwdb "massnet.org/mass-wallet/masswallet/db"
	_ "massnet.org/mass-wallet/masswallet/db/ldb"
	"massnet.org/mass-wallet/masswallet/keystore"
)

func init() {
	// KDF cost only (not logic): makes wallet creation take milliseconds. Recorded in evidence.
	keystore.DefaultScryptOptions.N = 16
	logging.Init(os.TempDir(), "verif-harness", "fatal", 1, false)
}

type wenvServer struct {
	db   database.Db
	pool *blockchain.TxPool
	bc   *blockchain.Blockchain
}

func (s *wenvServer) Blockchain() *blockchain.Blockchain { return s.bc }
func (s *wenvServer) ChainDB() database.Db               { return s.db }
func (s *wenvServer) TxMemPool() *blockchain.TxPool      { return s.pool }
func (s *wenvServer) SyncManager() *netsync.SyncManager  { return nil }

type addrInfo struct {
	name   string
	wallet string // "" for strangers
	class  string // std | stk
	enc    string // encoded address (std form for std, staking form for stk)
	stdEnc string // standard encoding of the same script hash
	sh     []byte // 32-byte script hash
}

type txInfo struct {
	name string
	msg  *wire.MsgTx
	hash wire.Hash
}

type blockInfo struct {
	name   string
	msg    *wire.MsgBlock
	hash   wire.Hash
	height uint64
	prev   string
}

type WEnv struct {
	dir     string
	n       int
	chainDb database.Db
	wdb     mwdb.DB
	wdbPath string
	wm      *masswallet.WalletManager
	srv     *wenvServer
	cfg     *config.Config

	wallets   map[string]string // symbolic -> wallet id
	walletRev map[string]string
	mnemonic  map[string]string
	addrs     map[string]*addrInfo
	addrByEnc map[string]*addrInfo
	addrBySH  map[string]*addrInfo
	txs       map[string]*txInfo
	txByHash  map[wire.Hash]*txInfo
	blocks    map[string]*blockInfo
	blkByHash map[wire.Hash]*blockInfo
	targets   map[string]string // hex binding target -> symbolic name
	chain     []string          // node's best chain, block names, chain[0] = G
	wrapDB    func(mwdb.DB) mwdb.DB
}

var wenvCounter int

func NewWEnv() *WEnv {
	wenvCounter++
	e := &WEnv{n: wenvCounter}
	cwd, _ := os.Getwd()
	e.dir = filepath.Join(cwd, fmt.Sprintf("wenv-%d-%d", os.Getpid(), e.n))
	e.reset()
	return e
}

func privPass(w string) string { return "Pass" + w + "x123456" }

const pubPass = "Pubpass123456"

// the consensus parameters as compiled in: every history starts from them (the `params` op lowers them for ONE history;
// the model starts each history from the defaults too - a history without a `params` line after one with it used to
// inherit the lowered values on the implementation side only)
var defaultCoinbaseMaturity, defaultMinFrozenPeriod = consensus.CoinbaseMaturity, consensus.MinFrozenPeriod

// resetConsensusParams is called by runExec at every `reset` LINE (a new history) - not by WEnv.reset, which also runs
// when a multi-instance engine opens another instance in the middle of a history
func resetConsensusParams() {
	consensus.CoinbaseMaturity, consensus.MinFrozenPeriod = defaultCoinbaseMaturity, defaultMinFrozenPeriod
	consensus.MASSIP0002WarmUpHeight = defaultWarmUpHeight // op `warmup` (eng_led.go) lowers it for one history
}

func (e *WEnv) reset() {
	e.Close()
	os.RemoveAll(e.dir)
	os.MkdirAll(e.dir, 0700)
	e.wallets = map[string]string{}
	e.walletRev = map[string]string{}
	e.mnemonic = map[string]string{}
	e.addrs = map[string]*addrInfo{}
	e.addrByEnc = map[string]*addrInfo{}
	e.addrBySH = map[string]*addrInfo{}
	e.txs = map[string]*txInfo{}
	e.targets = map[string]string{}
	e.txByHash = map[wire.Hash]*txInfo{}
	e.blocks = map[string]*blockInfo{}
	e.blkByHash = map[wire.Hash]*blockInfo{}
	e.chain = nil

	// a real mass-core ChainDb over its leveldb storage driver; block files under e.dir/blocks
	stor, err := storage.CreateStorage("leveldb", filepath.Join(e.dir, "chain"))
	if err != nil {
		panic(err)
	}
	cdb, err := cldb.NewChainDb(filepath.Join(e.dir, "chain"), stor)
	if err != nil {
		panic(err)
	}
	e.chainDb = cdb
	gen := massutil.NewBlock(config.ChainParams.GenesisBlock)
	if err := cdb.InitByGenesisBlock(gen); err != nil {
		panic(err)
	}
	g := &blockInfo{name: "G", msg: config.ChainParams.GenesisBlock, hash: *gen.Hash(), height: 0}
	e.blocks["G"] = g
	e.blkByHash[g.hash] = g
	e.chain = []string{"G"}
	e.cfg = &config.Config{Core: config.NewDefCoreConfig(), Wallet: config.NewDefWalletConfig()}
	e.srv = &wenvServer{db: e.chainDb, pool: blockchain.NewTxPool(nil, nil, nil)}
	e.wdbPath = filepath.Join(e.dir, "wallet.db")
	e.openWallet(true)
}

// openWallet (re)opens the wallet database and builds a fresh WalletManager (all volatile state lost).
func (e *WEnv) openWallet(create bool) error {
	var db mwdb.DB
	var err error
	if create {
		db, err = mwdb.CreateDB("leveldb", e.wdbPath)
	} else {
		db, err = mwdb.OpenDB("leveldb", e.wdbPath)
	}
	if err != nil {
		return err
	}
	if e.wrapDB != nil {
		db = e.wrapDB(db)
	}
	e.wdb = db
	wm, err := masswallet.NewWalletManager(e.srv, db, e.cfg, config.ChainParams, pubPass)
	if err != nil {
		db.Close()
		e.wdb = nil
		return err
	}
	e.wm = wm
	return nil
}

// Restart simulates process death + restart on the same data directory.
func (e *WEnv) Restart() error {
	if e.wdb != nil {
		e.wdb.Close()
		e.wdb = nil
	}
	e.wm = nil
	return e.openWallet(false)
}

func (e *WEnv) Close() {
	if e.wdb != nil {
		e.wdb.Close()
		e.wdb = nil
	}
	if e.chainDb != nil {
		e.chainDb.Close()
		e.chainDb = nil
	}
	if e.dir != "" {
		os.RemoveAll(e.dir)
	}
}

// ---------------------------------------------------------------- wallets / addresses

func (e *WEnv) CreateWallet(name string) error {
	id, mn, _, err := e.wm.CreateWallet(privPass(name), "", 128)
	if err != nil {
		return err
	}
	e.wallets[name] = id
	e.walletRev[id] = name
	e.mnemonic[name] = mn
	return nil
}

func (e *WEnv) Use(name string) error {
	id, ok := e.wallets[name]
	if !ok {
		return fmt.Errorf("unknown wallet")
	}
	if e.wm.CurrentWallet() == id {
		return nil
	}
	_, err := e.wm.UseWallet(id)
	return err
}

// NewAddr issues a new address of wallet w and binds it to the symbolic name a.
func (e *WEnv) NewAddr(w, a, class string) error {
	if err := e.Use(w); err != nil {
		return err
	}
	cl := uint16(massutil.AddressClassWitnessV0)
	if class == "stk" {
		cl = massutil.AddressClassWitnessStaking
	}
	enc, err := e.wm.NewAddress(cl)
	if err != nil {
		return err
	}
	return e.bindAddr(a, w, class, enc)
}

func (e *WEnv) bindAddr(a, w, class, enc string) error {
	ad, err := massutil.DecodeAddress(enc, config.ChainParams)
	if err != nil {
		return err
	}
	sh := ad.ScriptAddress()
	std, err := massutil.NewAddressWitnessScriptHash(sh, config.ChainParams)
	if err != nil {
		return err
	}
	ai := &addrInfo{name: a, wallet: w, class: class, enc: enc, stdEnc: std.EncodeAddress(), sh: append([]byte{}, sh...)}
	e.addrs[a] = ai
	e.addrByEnc[enc] = ai
	e.addrByEnc[ai.stdEnc] = ai
	if stk, err := massutil.NewAddressStakingScriptHash(sh, config.ChainParams); err == nil {
		e.addrByEnc[stk.EncodeAddress()] = ai
	}
	e.addrBySH[string(sh)] = ai
	return nil
}

// Stranger returns (creating on demand) a deterministic non-wallet script hash for name X*.
func (e *WEnv) Stranger(name string) *addrInfo {
	if ai, ok := e.addrs[name]; ok {
		return ai
	}
	h := sha256.Sum256([]byte("stranger:" + name))
	std, _ := massutil.NewAddressWitnessScriptHash(h[:], config.ChainParams)
	ai := &addrInfo{name: name, class: "std", enc: std.EncodeAddress(), stdEnc: std.EncodeAddress(), sh: h[:]}
	e.addrs[name] = ai
	e.addrByEnc[ai.enc] = ai
	e.addrBySH[string(h[:])] = ai
	return ai
}

func (e *WEnv) addr(name string) (*addrInfo, error) {
	if ai, ok := e.addrs[name]; ok {
		return ai, nil
	}
	if strings.HasPrefix(name, "X") {
		return e.Stranger(name), nil
	}
	return nil, fmt.Errorf("unknown address %s", name)
}

// ---------------------------------------------------------------- transactions

// outSpec:  A:amt            standard payment to address A (A* owned, X* stranger)
//
//	A:amt:stk:F      staking output, frozen period F
//	A:amt:bind:N     binding output, holder A, 20-byte target derived from N
//	raw:amt:HEX      arbitrary script bytes (non-template)
func (e *WEnv) buildOut(spec string) (*wire.TxOut, error) {
	p := strings.Split(spec, ":")
	if len(p) < 2 {
		return nil, fmt.Errorf("bad out spec")
	}
	amt, err := strconv.ParseInt(p[1], 10, 64)
	if err != nil {
		return nil, err
	}
	if p[0] == "raw" {
		if len(p) != 3 {
			return nil, fmt.Errorf("bad raw spec")
		}
		b, ok := unhexTok(p[2])
		if !ok {
			return nil, fmt.Errorf("bad hex")
		}
		return wire.NewTxOut(amt, b), nil
	}
	ai, err := e.addr(p[0])
	if err != nil {
		return nil, err
	}
	var script []byte
	switch {
	case len(p) == 2:
		script, err = txscript.PayToWitnessScriptHashScript(ai.sh)
	case len(p) == 4 && p[2] == "stk":
		f, err2 := strconv.ParseUint(p[3], 10, 64)
		if err2 != nil {
			return nil, err2
		}
		sa, err3 := massutil.NewAddressStakingScriptHash(ai.sh, config.ChainParams)
		if err3 != nil {
			return nil, err3
		}
		script, err = txscript.PayToStakingAddrScript(sa, f)
	case len(p) == 4 && p[2] == "bind":
		t := sha256.Sum256([]byte("target:" + p[3]))
		e.targets[fmt.Sprintf("%x", t[:20])] = p[3]
		script, err = txscript.PayToBindingScriptHashScript(ai.sh, t[:20])
	case len(p) == 4 && p[2] == "bind22":
		t := sha256.Sum256([]byte("target22:" + p[3]))
		t[20] = t[20] & 1 // valid target type
		t[21] = 32        // valid size byte
		e.targets[fmt.Sprintf("%x", t[:22])] = p[3]
		script, err = txscript.PayToBindingScriptHashScript(ai.sh, t[:22])
	default:
		return nil, fmt.Errorf("bad out spec")
	}
	if err != nil {
		return nil, err
	}
	return wire.NewTxOut(amt, script), nil
}

// DefineTx:  ins = "cb" (coinbase) or list of "T:idx[:seq]"
func (e *WEnv) DefineTx(name string, ins []string, outs []string, uniq uint64) error {
	if _, dup := e.txs[name]; dup {
		return fmt.Errorf("duplicate tx name")
	}
	tx := wire.NewMsgTx()
	if len(ins) == 1 && ins[0] == "cb" {
		in := wire.NewTxIn(wire.NewOutPoint(&wire.Hash{}, wire.MaxPrevOutIndex), nil)
		in.Sequence = wire.MaxTxInSequenceNum
		tx.AddTxIn(in)
	} else {
		for _, s := range ins {
			p := strings.Split(s, ":")
			if len(p) < 2 {
				return fmt.Errorf("bad in spec")
			}
			ti, ok := e.txs[p[0]]
			if !ok {
				return fmt.Errorf("unknown prev tx")
			}
			idx, err := strconv.ParseUint(p[1], 10, 32)
			if err != nil {
				return err
			}
			in := wire.NewTxIn(wire.NewOutPoint(&ti.hash, uint32(idx)), nil)
			in.Sequence = wire.MaxTxInSequenceNum
			if len(p) == 3 {
				seq, err := strconv.ParseUint(p[2], 10, 64)
				if err != nil {
					return err
				}
				in.Sequence = seq
			}
			tx.AddTxIn(in)
		}
	}
	for _, s := range outs {
		o, err := e.buildOut(s)
		if err != nil {
			return err
		}
		tx.AddTxOut(o)
	}
	// unique id per symbolic name
	pl := make([]byte, 8+len(name))
	binary.BigEndian.PutUint64(pl, uniq)
	copy(pl[8:], name)
	tx.Payload = pl
	ti := &txInfo{name: name, msg: tx, hash: tx.TxHash()}
	e.txs[name] = ti
	e.txByHash[ti.hash] = ti
	return nil
}

// ---------------------------------------------------------------- blocks / node

func (e *WEnv) DefineBlock(name, prev string, txNames []string) error {
	if _, dup := e.blocks[name]; dup {
		return fmt.Errorf("duplicate block name")
	}
	pb, ok := e.blocks[prev]
	if !ok {
		return fmt.Errorf("unknown prev block")
	}
	hdr := pb.msg.Header // copy
	blk := wire.NewMsgBlock(&hdr)
	blk.Header.Previous = pb.hash
	blk.Header.Height = pb.height + 1
	blk.Header.Timestamp = pb.msg.Header.Timestamp.Add(time.Duration(1+len(e.blocks)) * time.Second)
	for _, tn := range txNames {
		ti, ok := e.txs[tn]
		if !ok {
			return fmt.Errorf("unknown tx %s", tn)
		}
		blk.AddTransaction(ti.msg)
	}
	if len(blk.Transactions) == 0 || !blockchain.IsCoinBaseTx(blk.Transactions[0]) {
		return fmt.Errorf("first tx must be a coinbase")
	}
	bi := &blockInfo{name: name, msg: blk, hash: blk.BlockHash(), height: pb.height + 1, prev: prev}
	e.blocks[name] = bi
	e.blkByHash[bi.hash] = bi
	return nil
}

func (e *WEnv) Tip() *blockInfo { return e.blocks[e.chain[len(e.chain)-1]] }

// Submit attaches block `name` on top of the node's tip (chain db + address index).
func (e *WEnv) Submit(name string) error {
	bi, ok := e.blocks[name]
	if !ok {
		return fmt.Errorf("unknown block")
	}
	if bi.prev != e.Tip().name {
		return fmt.Errorf("does not extend tip")
	}
	blk := massutil.NewBlock(bi.msg)
	// address index data must be computed BEFORE the block spends its inputs in the db
	idx, err := e.addrIndexOf(blk)
	if err != nil {
		return err
	}
	if err := e.chainDb.SubmitBlock(blk); err != nil {
		e.chainDb.(*cldb.ChainDb).Batch(0).Reset()
		return err
	}
	if err := e.chainDb.SubmitAddrIndex(&bi.hash, bi.height, idx); err != nil {
		return err
	}
	if err := e.chainDb.Commit(bi.hash); err != nil {
		return err
	}
	e.chain = append(e.chain, name)
	return nil
}

// Detach removes the node's tip block.
func (e *WEnv) Detach() error {
	if len(e.chain) <= 1 {
		return fmt.Errorf("cannot detach genesis")
	}
	bi := e.Tip()
	if err := e.chainDb.DeleteBlock(&bi.hash); err != nil {
		return err
	}
	if err := e.chainDb.DeleteAddrIndex(&bi.hash, bi.height); err != nil {
		return err
	}
	if err := e.chainDb.Commit(bi.hash); err != nil {
		return err
	}
	e.chain = e.chain[:len(e.chain)-1]
	return nil
}

func scriptHashOfPk(pk []byte) []byte {
	class, pops := txscript.GetScriptInfo(pk)
	switch class {
	case txscript.WitnessV0ScriptHashTy, txscript.StakingScriptHashTy:
		_, rsh, err := txscript.GetParsedOpcode(pops, class)
		if err != nil {
			return nil
		}
		return rsh[:]
	case txscript.BindingScriptHashTy:
		h, _, err := txscript.GetParsedBindingOpcode(pops)
		if err != nil {
			return nil
		}
		return h
	}
	return nil
}

// addrIndexOf mirrors blockchain.AddrIndexer.indexBlockAddrs for the script-hash -> tx index
// (the only part of the address index the wallet reads).
func (e *WEnv) addrIndexOf(blk *massutil.Block) (*database.AddrIndexData, error) {
	txLocs, err := blk.TxLoc()
	if err != nil {
		return nil, err
	}
	idx := make(database.TxAddrIndex)
	add := func(sh []byte, loc *wire.TxLoc) {
		if len(sh) != 32 {
			return
		}
		var k [32]byte
		copy(k[:], sh)
		for _, l := range idx[k] {
			if l.TxStart == loc.TxStart && l.TxLen == loc.TxLen {
				return
			}
		}
		idx[k] = append(idx[k], &wire.TxLoc{TxStart: loc.TxStart, TxLen: loc.TxLen})
	}
	inBlock := map[wire.Hash]*wire.MsgTx{}
	for i, tx := range blk.Transactions() {
		loc := &txLocs[i]
		m := tx.MsgTx()
		inBlock[*tx.Hash()] = m
		if !blockchain.IsCoinBaseTx(m) {
			for _, in := range m.TxIn {
				var prev *wire.MsgTx
				if p, ok := inBlock[in.PreviousOutPoint.Hash]; ok {
					prev = p
				} else if ti, ok := e.txByHash[in.PreviousOutPoint.Hash]; ok {
					prev = ti.msg
				}
				if prev == nil || int(in.PreviousOutPoint.Index) >= len(prev.TxOut) {
					continue
				}
				add(scriptHashOfPk(prev.TxOut[in.PreviousOutPoint.Index].PkScript), loc)
			}
		}
		for _, o := range m.TxOut {
			add(scriptHashOfPk(o.PkScript), loc)
		}
	}
	return &database.AddrIndexData{TxIndex: idx, BindingTxIndex: make(database.BindingTxAddrIndex),
		BindingTxSpentIndex: make(database.BindingTxSpentAddrIndex)}, nil
}

// ---------------------------------------------------------------- canonical observations

var verifDebug = os.Getenv("VERIF_DEBUG") != ""

func errTok(err error) string {
	if err == nil {
		return "ok"
	}
	if verifDebug {
		fmt.Fprintln(os.Stderr, "  [impl error]", err)
	}
	return "err"
}

func (e *WEnv) txName(h string) string {
	hh, err := wire.NewHashFromStr(h)
	if err == nil {
		if ti, ok := e.txByHash[*hh]; ok {
			return ti.name
		}
	}
	return "?" + h[:8]
}

func (e *WEnv) addrName(enc string) string {
	if ai, ok := e.addrByEnc[enc]; ok {
		return ai.name
	}
	return "?" + enc
}

// Balance: "total spendable wstaking wbinding" of wallet w at minconf.
func (e *WEnv) Balance(w string, conf uint32) string {
	if err := e.Use(w); err != nil {
		return "err"
	}
	b, err := e.wm.WalletBalance(conf, true)
	if err != nil {
		return "err"
	}
	// the detailed total is overwritten by the gross balance inside WalletBalance; report both
	return fmt.Sprintf("%d %d %d %d", b.Total.UintValue(), b.Spendable.UintValue(), b.WithdrawableStaking.UintValue(), b.WithdrawableBinding.UintValue())
}

// Utxos: sorted "T:vout:amount:height:maturity:confs:sbu@A" list of wallet w.
func (e *WEnv) Utxos(w string) string {
	if err := e.Use(w); err != nil {
		return "err"
	}
	m, err := e.wm.GetUtxo(nil)
	if err != nil {
		return "err"
	}
	var items []string
	for addr, us := range m {
		for _, u := range us {
			items = append(items, fmt.Sprintf("%s:%d:%d:%d:%d:%d@%s", e.txName(u.TxId), u.Vout, u.Amount.UintValue(),
				u.BlockHeight, u.Maturity, u.Confirmations, e.addrName(addr)))
		}
	}
	sort.Strings(items)
	if len(items) == 0 {
		return "-"
	}
	return strings.Join(items, ",")
}

// Sbu: sorted "T:vout" list of the wallet's coins flagged spent-by-unconfirmed.
func (e *WEnv) Sbu(w string) string {
	if err := e.Use(w); err != nil {
		return "err"
	}
	m, err := e.wm.GetUtxo(nil)
	if err != nil {
		return "err"
	}
	var items []string
	for _, us := range m {
		for _, u := range us {
			if u.SpentByUnmined {
				items = append(items, fmt.Sprintf("%s:%d", e.txName(u.TxId), u.Vout))
			}
		}
	}
	return joinSorted(items)
}

// Pend: the persistent pending set, "T:r" (readable) / "T:u" (value does not decode).
func (e *WEnv) Pend() string {
	hs, rd, err := e.wm.VerifUnmined()
	if err != nil {
		return "err"
	}
	var items []string
	for i, h := range hs {
		f := "u"
		if rd[i] {
			f = "r"
		}
		items = append(items, e.txName(h.String())+":"+f)
	}
	return joinSorted(items)
}

func joinSorted(items []string) string {
	sort.Strings(items)
	if len(items) == 0 {
		return "-"
	}
	return strings.Join(items, ",")
}

func (e *WEnv) AddrBalances(w string, conf uint32) string {
	if err := e.Use(w); err != nil {
		return "err"
	}
	bs, err := e.wm.AddressBalance(conf, nil)
	if err != nil {
		return "err"
	}
	var items []string
	for _, b := range bs {
		items = append(items, fmt.Sprintf("%s=%d/%d/%d/%d", e.addrName(b.Address), b.Total.UintValue(), b.Spendable.UintValue(),
			b.WithdrawableStaking.UintValue(), b.WithdrawableBinding.UintValue()))
	}
	sort.Strings(items)
	if len(items) == 0 {
		return "-"
	}
	return strings.Join(items, ",")
}

// Addrs: for every address issued to wallet w (by name): "A:1" used, "A:0" unused, "A:missing" not listed.
func (e *WEnv) Addrs(w string) string {
	if err := e.Use(w); err != nil {
		return "err"
	}
	listed := map[string]bool{}
	for _, cl := range []uint16{massutil.AddressClassWitnessV0, massutil.AddressClassWitnessStaking} {
		ds, err := e.wm.GetAddresses(cl)
		if err != nil {
			return "err"
		}
		for _, d := range ds {
			listed[fmt.Sprintf("%d/%s", cl, d.Address)] = d.Used
		}
	}
	var items []string
	for name, ai := range e.addrs {
		if ai.wallet != w {
			continue
		}
		cl := uint16(massutil.AddressClassWitnessV0)
		if ai.class == "stk" {
			cl = massutil.AddressClassWitnessStaking
		}
		u, ok := listed[fmt.Sprintf("%d/%s", cl, ai.enc)]
		switch {
		case !ok:
			items = append(items, name+":missing")
		case u:
			items = append(items, name+":1")
		default:
			items = append(items, name+":0")
		}
	}
	return joinSorted(items)
}

func (e *WEnv) Synced() string {
	h, err := e.wm.SyncedTo()
	if err != nil {
		return "err"
	}
	bh, bhash := e.wm.VerifBestBlock()
	name := "?"
	if bi, ok := e.blkByHash[bhash]; ok {
		name = bi.name
	}
	return fmt.Sprintf("%d %d %s", h, bh, name)
}

// StakingHistory: mined (pending=false) or unmined (pending=true) staking deposits of wallet w:
// "T:idx:amt:height:frozen:spent:sbu@A".
func (e *WEnv) StakingHistory(w string, excl bool, pending bool) string {
	if err := e.Use(w); err != nil {
		return "err"
	}
	hs, err := e.wm.GetStakingHistory(excl)
	if err != nil {
		return "err"
	}
	var items []string
	for _, h := range hs {
		if (h.BlockHeight == 0) != pending {
			continue
		}
		sp, su := 0, 0
		if h.Utxo.Spent {
			sp = 1
		}
		if h.Utxo.SpentByUnmined {
			su = 1
		}
		_ = su
		items = append(items, fmt.Sprintf("%s:%d:%d:%d:%d:%d@%s", e.txName(h.TxHash.String()), h.Index, h.Utxo.Amount.UintValue(),
			h.BlockHeight, h.Utxo.FrozenPeriod, sp, e.addrName(h.Utxo.Address)))
	}
	return joinSorted(items)
}

// BindingHistory: "T:idx:amt:height:spent:sbu@holder>target".
func (e *WEnv) BindingHistory(w string, excl bool, pending bool) string {
	if err := e.Use(w); err != nil {
		return "err"
	}
	hs, err := e.wm.GetBindingHistory(excl)
	if err != nil {
		return "err"
	}
	var items []string
	for _, h := range hs {
		if (h.BlockHeight == 0) != pending {
			continue
		}
		sp, su := 0, 0
		if h.Utxo.Spent {
			sp = 1
		}
		if h.Utxo.SpentByUnmined {
			su = 1
		}
		holder := "?"
		if h.Utxo.Holder != nil {
			holder = e.addrName(h.Utxo.Holder.EncodeAddress())
		}
		tgt := "?"
		if h.Utxo.BindingTarget != nil {
			if n, ok := e.targets[fmt.Sprintf("%x", h.Utxo.BindingTarget.ScriptAddress())]; ok {
				tgt = n
			}
		}
		_ = su
		items = append(items, fmt.Sprintf("%s:%d:%d:%d:%d@%s>%s", e.txName(h.TxHash.String()), h.Index, h.Utxo.Amount.UintValue(),
			h.BlockHeight, sp, holder, tgt))
	}
	return joinSorted(items)
}

// WithdrawSeq builds (does not sign) a draft spending exactly coin "T:idx" of wallet w through
// CreateRawTransaction with the given lock time and reports the sequence value of its input.
func (e *WEnv) WithdrawSeq(w, coin string, lockTime uint64) string {
	if err := e.Use(w); err != nil {
		return "err"
	}
	p := strings.Split(coin, ":")
	if len(p) != 2 {
		return "bad-op"
	}
	ti, ok := e.txs[p[0]]
	if !ok {
		return "bad-op"
	}
	idx, err := strconv.ParseUint(p[1], 10, 32)
	if err != nil || int(idx) >= len(ti.msg.TxOut) {
		return "bad-op"
	}
	var dest string
	for _, ai := range e.addrs {
		if ai.wallet == w && ai.class == "std" && (dest == "" || ai.name < dest) {
			dest = ai.name
		}
	}
	if dest == "" {
		return "err"
	}
	half, err := massutil.NewAmountFromInt(ti.msg.TxOut[idx].Value / 2)
	if err != nil {
		return "err"
	}
	hexTx, _, err := e.wm.CreateRawTransaction([]*masswallet.TxIn{{TxId: ti.hash.String(), Vout: uint32(idx)}},
		map[string]massutil.Amount{e.addrs[dest].enc: half}, lockTime, "", nil)
	if err != nil {
		return errTok(err)
	}
	raw, err := hex.DecodeString(hexTx)
	if err != nil {
		return "err"
	}
	var mtx wire.MsgTx
	if err := mtx.SetBytes(raw, wire.Packet); err != nil {
		return "err"
	}
	// the draft's reservation is not part of this observation
	e.wm.ClearUsedUTXOMark(&mtx)
	if len(mtx.TxIn) != 1 {
		return "err"
	}
	return fmt.Sprintf("seq %d", mtx.TxIn[0].Sequence)
}

// HistSbu: deposits (staking and binding, mined, not withdrawn) flagged spent-by-unconfirmed.
func (e *WEnv) HistSbu(w string) string {
	if err := e.Use(w); err != nil {
		return "err"
	}
	var items []string
	sh, err := e.wm.GetStakingHistory(true)
	if err != nil {
		return "err"
	}
	for _, h := range sh {
		if h.BlockHeight != 0 && h.Utxo.SpentByUnmined {
			items = append(items, fmt.Sprintf("%s:%d", e.txName(h.TxHash.String()), h.Index))
		}
	}
	bh, err := e.wm.GetBindingHistory(true)
	if err != nil {
		return "err"
	}
	for _, h := range bh {
		if h.BlockHeight != 0 && h.Utxo.SpentByUnmined {
			items = append(items, fmt.Sprintf("%s:%d", e.txName(h.TxHash.String()), h.Index))
		}
	}
	return joinSorted(items)
}

// Wallets: sorted "W:status" (ready / importing@h / removing).
func (e *WEnv) Wallets() string {
	ws, err := e.wm.Wallets()
	if err != nil {
		return "err"
	}
	var items []string
	for _, s := range ws {
		st := "ready"
		if s.Status.IsRemoved() {
			st = "removing"
		} else if !s.Status.Ready() {
			st = fmt.Sprintf("importing@%d", s.Status.SyncedHeight)
		}
		n := e.walletRev[s.WalletID]
		if n == "" {
			n = "?" + s.WalletID
		}
		items = append(items, n+":"+st)
	}
	sort.Strings(items)
	if len(items) == 0 {
		return "-"
	}
	return strings.Join(items, ",")
}

var _ = bytes.Equal
var _ = consensus.CoinbaseMaturity
