package main

// The wallet's LevelDB driver opens every database with a 128 MiB write buffer (two memtables are
// allocated per open) and snacl.deriveKey calls debug.FreeOSMemory after every key derivation, so
// each of the thousands of database re-opens of the crash / fault engines re-zeroes 256 MiB of
// pages that were just handed back to the kernel. With MADV_FREE (GODEBUG=madvdontneed=0) the pages
// stay resident and an open costs ~60 ms instead of ~300 ms. GODEBUG is read at process start, so
// `harness exec` re-executes itself once with that setting when the op stream belongs to these
// engines. Performance only; no behaviour of the code under test changes.

import (
	"bufio"
	"os"
	"strings"
	"syscall"
)

func init() {
	if len(os.Args) < 3 || os.Args[1] != "exec" || os.Getenv("VERIF_PERSIST_REEXEC") != "" {
		return
	}
	in := ""
	for i, a := range os.Args {
		if (a == "-in" || a == "--in") && i+1 < len(os.Args) {
			in = os.Args[i+1]
		} else if strings.HasPrefix(a, "-in=") {
			in = a[4:]
		}
	}
	if in == "" {
		return
	}
	f, err := os.Open(in)
	if err != nil {
		return
	}
	defer f.Close()
	sc := bufio.NewScanner(f)
	sc.Buffer(make([]byte, 1<<20), 1<<26)
	mine := false
	for sc.Scan() {
		t := strings.Fields(sc.Text())
		if len(t) == 0 || t[0] == "reset" {
			continue
		}
		mine = t[0] == "crash" || t[0] == "fault"
		break
	}
	if !mine {
		return
	}
	gd := os.Getenv("GODEBUG")
	if strings.Contains(gd, "madvdontneed") {
		return
	}
	if gd != "" {
		gd += ","
	}
	env := append(os.Environ(), "GODEBUG="+gd+"madvdontneed=0", "VERIF_PERSIST_REEXEC=1")
	exe, err := os.Executable()
	if err != nil {
		return
	}
	_ = syscall.Exec(exe, os.Args, env) // on failure: carry on in this process
}
