package main

// `[i2] impstepn W B` (engines imp / rem): ONE asyncImport batch of wallet W with the block notification B handled by
// the follower WHILE the import worker waits in suspend() - the follower was still busy with a queued notification
// when the worker asked it to pause.  Everything asyncImport reads before the hand-shake is then older than block B;
// the code under test reads the follower's tip inside the suspended window, so for model and specification the
// notification simply comes first:  impstepn W B  =  notify B ; impstep W,  answered `<notify>/<impstep>`
// (a tip height taken before the hand-shake - seeded/C07-4 - ends the rescan one block early and hands the wallet
// over without the transactions of B).

import (
	"fmt"
	"runtime"
	"time"

	"massnet.org/mass-wallet/masswallet"
)

// importBatchDuring runs one asyncImport batch; `during` runs on the caller's goroutine (the follower's side) once the
// worker is parked in suspend (or has returned without asking for the hand-shake).
func importBatchDuring(wm *masswallet.WalletManager, id string, during func()) (fin bool, err error) {
	type res struct {
		fin bool
		err error
	}
	sus, rsm := wm.VerifHandshake()
	done := make(chan res, 1)
	go func() {
		defer func() {
			if r := recover(); r != nil {
				done <- res{false, fmt.Errorf("PANIC %v", r)}
			}
		}()
		f, e := wm.VerifAsyncImport(id)
		done <- res{f, e}
	}()
	for i := 0; ; i++ {
		select {
		case r := <-done:
			during()
			return r.fin, r.err
		default:
		}
		if parkedInSuspend() {
			break
		}
		if i > 200 {
			time.Sleep(50 * time.Microsecond)
		} else {
			runtime.Gosched()
		}
	}
	during()
	select {
	case <-sus:
		<-rsm
		r := <-done
		return r.fin, r.err
	case r := <-done:
		return r.fin, r.err
	}
}
