package main

// Engine script (C16): the wallet's reading of output scripts (utils.ParsePkScript,
// api.extractAddressInfos) against mass-core txscript's own template matching
// (GetScriptClass / GetScriptInfo / ExtractPkScriptAddrs), and the script builders.
//
// Op lines (all blobs hex, "-" = empty):
//   pk   <script>            wallet | library | api reading of one output script
//   ext  <prefix>            the 256 one-byte extensions of <prefix>, outputs grouped with counts
//   wsh  <hash>              builders for a witness-v0 script-hash output + read back
//   stk  <hash> <frozen>     builders for a staking output + read back
//   bind <hash> <target>     builder for a binding output + read back
//
// Canonical outputs (see notes/C16.md):
//   pk:   W | L | A
//     W = unsupported | err | PANIC | ok <class> ac=<n> std=<kind:hex> second=<kind:hex|-> mat=<n> stk=<0|1> bnd=<0|1>
//     L = lib <class> [perr] [<kind:hex> ...] sigs=<n>      (multisig: `lib multisig`, addresses not extracted)
//     A = api err | api PANIC | api <class> rcp=<kind:hex|-> stk=<kind:hex|-> bind=<kind:hex:TYPE:size|-> sigs=<n>
//   builders: err | mismatch… | ok <script> | <W of that script>

import (
	"bytes"
	"fmt"
	"math"
	"strconv"
	"strings"

	"github.com/massnetorg/mass-core/consensus"
	"github.com/massnetorg/mass-core/logging"
	"github.com/massnetorg/mass-core/massutil"
	"github.com/massnetorg/mass-core/txscript"
	"github.com/massnetorg/mass-core/wire"
	"massnet.org/mass-wallet/api"
	"massnet.org/mass-wallet/config"
	"massnet.org/mass-wallet/masswallet"
	"massnet.org/mass-wallet/masswallet/utils"
)

func init() {
	register(&Engine{Name: "script", Gen: genScript, NewExec: func() Exec {
		// mass-core logs every refused script / address at ERROR level (to stdout and /tmp by default):
		// keep the log under the working directory and at panic level
		logging.Init(".", "script-harness.log", "panic", 1, true)
		return stateless{execScript}
	}})
}

func scClassName(c txscript.ScriptClass) string {
	switch c {
	case txscript.NonStandardTy:
		return "nonstd"
	case txscript.WitnessV0ScriptHashTy:
		return "wsh"
	case txscript.StakingScriptHashTy:
		return "staking"
	case txscript.BindingScriptHashTy:
		return "binding"
	case txscript.MultiSigTy:
		return "multisig"
	case txscript.NullDataTy:
		return "nulldata"
	}
	return "class" + strconv.Itoa(int(c))
}

// addrTok renders an address by its Go type and script bytes (never by its string encoding).
func addrTok(a massutil.Address) string {
	switch t := a.(type) {
	case nil:
		return "-"
	case *massutil.AddressWitnessScriptHash:
		if t == nil {
			return "-"
		}
		return fmt.Sprintf("wsh%d:%s", t.WitnessExtendVersion(), hexTok(t.ScriptAddress()))
	case *massutil.AddressPubKeyHash:
		if t == nil {
			return "-"
		}
		return "pkh:" + hexTok(t.ScriptAddress())
	case *massutil.AddressBindingTarget:
		if t == nil {
			return "-"
		}
		return "tgt:" + hexTok(t.ScriptAddress())
	case *massutil.AddressPubKey:
		if t == nil {
			return "-"
		}
		return "pk:" + hexTok(t.ScriptAddress())
	}
	return "other"
}

// strAddrTok decodes an address string produced by the implementation back to kind:hex.
func strAddrTok(s string) string {
	if s == "" {
		return "-"
	}
	a, err := massutil.DecodeAddress(s, config.ChainParams)
	if err != nil {
		return "undecodable"
	}
	return addrTok(a)
}

func b01(b bool) string {
	if b {
		return "1"
	}
	return "0"
}

func guarded(f func() string) (res string) {
	defer func() {
		if r := recover(); r != nil {
			res = "PANIC"
		}
	}()
	return f()
}

// walletReading: utils.ParsePkScript as the wallet's follower / history code sees it.
func walletReading(script []byte) string {
	return guarded(func() string {
		ps, err := utils.ParsePkScript(script, config.ChainParams)
		if err != nil {
			if err == utils.ErrUnsupportedScript {
				return "unsupported"
			}
			return "err"
		}
		std := ps.StdAddress()
		stdTok := addrTok(std)
		// the accessors must agree with the address objects
		if !bytes.Equal(ps.StdScriptAddress(), std.ScriptAddress()) || ps.StdEncodeAddress() != std.EncodeAddress() {
			return "inconsistent-std"
		}
		second := "-"
		if ps.IsStaking() || ps.IsBinding() {
			sa := ps.SecondAddress()
			second = addrTok(sa)
			if !bytes.Equal(ps.SecondScriptAddress(), sa.ScriptAddress()) || ps.SecondEncodeAddress() != sa.EncodeAddress() {
				return "inconsistent-second"
			}
		} else if ps.SecondAddress() != nil {
			return "inconsistent-second-set"
		}
		return fmt.Sprintf("ok %s ac=%d std=%s second=%s mat=%d stk=%s bnd=%s", scClassName(ps.ScriptClass()), ps.AddressClass(),
			stdTok, second, ps.Maturity(), b01(ps.IsStaking()), b01(ps.IsBinding()))
	})
}

func isTemplateClass(c txscript.ScriptClass) bool {
	return c == txscript.WitnessV0ScriptHashTy || c == txscript.StakingScriptHashTy || c == txscript.BindingScriptHashTy
}

// libReading: the consensus library's template matching and address extraction. Classes other than
// the three witness templates are reported as `other` here (op `cls` reports them in detail).
func libReading(script []byte) string {
	return "lib " + guarded(func() string {
		c1 := txscript.GetScriptClass(script)
		c2, _ := txscript.GetScriptInfo(script)
		if c1 != c2 {
			return "inconsistent-class"
		}
		// the exported predicates must agree with the class
		if txscript.IsPayToWitnessScriptHash(script) != (c1 == txscript.WitnessV0ScriptHashTy) ||
			txscript.IsPayToStakingScriptHash(script) != (c1 == txscript.StakingScriptHashTy) ||
			txscript.IsPayToBindingScriptHash(script) != (c1 == txscript.BindingScriptHashTy) {
			return "inconsistent-predicates"
		}
		if !isTemplateClass(c1) {
			return "other"
		}
		c3, addrs, _, sigs, err := txscript.ExtractPkScriptAddrs(script, config.ChainParams)
		if err != nil {
			return "inconsistent-perr"
		}
		if c3 != c1 {
			return "inconsistent-class3"
		}
		var sb strings.Builder
		sb.WriteString(scClassName(c1))
		for _, a := range addrs {
			sb.WriteString(" " + addrTok(a))
		}
		fmt.Fprintf(&sb, " sigs=%d", sigs)
		return sb.String()
	})
}

func bindingTok(binding string) string {
	if binding == "" {
		return "-"
	}
	parts := strings.Split(binding, ":")
	if len(parts) != 3 {
		return "malformed"
	}
	return strAddrTok(parts[0]) + ":" + parts[1] + ":" + parts[2]
}

// apiReading: api.extractAddressInfos, the API-side view used by the transaction services.
// For scripts outside the three templates both an error and an address-less result read `none`.
func apiReading(script []byte) string {
	return "api " + guarded(func() string {
		tmpl := isTemplateClass(txscript.GetScriptClass(script))
		class, recipient, staking, binding, sigs, err := api.VerifExtractAddressInfos(script)
		if err != nil {
			if tmpl {
				return "err"
			}
			return "none"
		}
		if !tmpl {
			if recipient == "" && staking == "" && binding == "" {
				return "none"
			}
			return "bogus"
		}
		return fmt.Sprintf("%s rcp=%s stk=%s bind=%s sigs=%d", scClassName(class), strAddrTok(recipient), strAddrTok(staking), bindingTok(binding), sigs)
	})
}

func pkReading(script []byte) string {
	return walletReading(script) + " | " + libReading(script) + " | " + apiReading(script)
}

// clsReading: the library's class in detail (incl. multisig / nulldata / parse error) and the API view
// of it; compared with the model only (the byte-pattern spec does not describe these classes).
func clsReading(script []byte) string {
	lib := guarded(func() string {
		c := txscript.GetScriptClass(script)
		if c == txscript.NonStandardTy {
			if _, err := txscript.PushedData(script); err != nil {
				return "nonstd perr"
			}
		}
		return scClassName(c)
	})
	apiTok := "api " + guarded(func() string {
		class, _, _, _, sigs, err := api.VerifExtractAddressInfos(script)
		if err != nil {
			return "err"
		}
		return fmt.Sprintf("%s sigs=%d", scClassName(class), sigs)
	})
	return lib + " | " + apiTok
}

func sameScripts(ss [][]byte, errs []error) (script []byte, isErr bool, ok bool) {
	nerr := 0
	for _, e := range errs {
		if e != nil {
			nerr++
		}
	}
	if nerr == len(errs) {
		return nil, true, true
	}
	if nerr != 0 {
		return nil, false, false
	}
	for _, s := range ss[1:] {
		if !bytes.Equal(s, ss[0]) {
			return nil, false, false
		}
	}
	return ss[0], false, true
}

func builtTok(script []byte, isErr, ok bool) string {
	if !ok {
		return "mismatch"
	}
	if isErr {
		return "err"
	}
	return "ok " + hexTok(script) + " | " + walletReading(script)
}

func execScript(a []string) string {
	switch {
	case len(a) == 2 && a[0] == "pk":
		s, ok := unhexTok(a[1])
		if !ok {
			return "bad-op"
		}
		return pkReading(s)
	case len(a) == 2 && a[0] == "cls":
		s, ok := unhexTok(a[1])
		if !ok {
			return "bad-op"
		}
		return clsReading(s)
	case len(a) == 2 && a[0] == "ext":
		p, ok := unhexTok(a[1])
		if !ok {
			return "bad-op"
		}
		var order []string
		count := map[string]int{}
		buf := make([]byte, len(p)+1)
		copy(buf, p)
		for b := 0; b < 256; b++ {
			buf[len(p)] = byte(b)
			o := pkReading(buf)
			if count[o] == 0 {
				order = append(order, o)
			}
			count[o]++
		}
		var sb strings.Builder
		for i, o := range order {
			if i > 0 {
				sb.WriteString(" ; ")
			}
			fmt.Fprintf(&sb, "%d*[%s]", count[o], o)
		}
		return sb.String()
	case len(a) == 2 && a[0] == "wsh":
		h, ok := unhexTok(a[1])
		if !ok {
			return "bad-op"
		}
		var ss [][]byte
		var errs []error
		s, err := txscript.PayToWitnessScriptHashScript(h)
		ss, errs = append(ss, s), append(errs, err)
		addr, aerr := massutil.NewAddressWitnessScriptHash(h, config.ChainParams)
		if aerr == nil {
			s, err = txscript.PayToAddrScript(addr)
			ss, errs = append(ss, s), append(errs, err)
			s, err = masswallet.PayToWitnessV0Address(addr.EncodeAddress(), config.ChainParams)
			ss, errs = append(ss, s), append(errs, err)
			one, _ := massutil.NewAmountFromUint(1)
			out, err := masswallet.VerifAmountToTxOut(addr.EncodeAddress(), one)
			if err == nil {
				s = out.PkScript
			}
			ss, errs = append(ss, s), append(errs, err)
			// a staking address must be refused by the witness-v0 builders
			sa, _ := massutil.NewAddressStakingScriptHash(h, config.ChainParams)
			if _, e := txscript.PayToAddrScript(sa); e == nil {
				return "mismatch staking-address-accepted"
			}
			if _, e := masswallet.PayToWitnessV0Address(sa.EncodeAddress(), config.ChainParams); e == nil {
				return "mismatch staking-address-accepted"
			}
			if _, e := masswallet.VerifAmountToTxOut(addr.EncodeAddress(), massutil.ZeroAmount()); e == nil {
				return "mismatch zero-amount-accepted"
			}
		}
		return builtTok(sameScripts(ss, errs))
	case len(a) == 3 && a[0] == "stk":
		h, ok := unhexTok(a[1])
		frozen, perr := strconv.ParseUint(a[2], 10, 64)
		if !ok || perr != nil {
			return "bad-op"
		}
		addr, aerr := massutil.NewAddressStakingScriptHash(h, config.ChainParams)
		if aerr != nil {
			return "err"
		}
		var ss [][]byte
		var errs []error
		s, err := txscript.PayToStakingAddrScript(addr, frozen)
		ss, errs = append(ss, s), append(errs, err)
		if frozen <= math.MaxUint32 {
			one, _ := massutil.NewAmountFromUint(1)
			mtx := wire.NewMsgTx()
			err = masswallet.VerifConstructStakingTxOut([]*masswallet.StakingTxOut{{Address: addr.EncodeAddress(), FrozenPeriod: uint32(frozen), Amount: one}}, mtx)
			s = nil
			if err == nil {
				if len(mtx.TxOut) != 1 {
					return "mismatch txout-count"
				}
				s = mtx.TxOut[0].PkScript
			}
			ss, errs = append(ss, s), append(errs, err)
		}
		// every output of ONE request is built on its own: the same address twice with two frozen periods (and the
		// other order) must give, output by output, the scripts of the single builds, and fail iff a single build fails
		// (seed C16-5: the builder memoised the script per address inside one call)
		if frozen < math.MaxUint32 {
			one, _ := massutil.NewAmountFromUint(1)
			for _, order := range [][2]uint64{{frozen, frozen + 1}, {frozen + 1, frozen}} {
				var want [][]byte
				fail := false
				for _, f := range order {
					ws, e := txscript.PayToStakingAddrScript(addr, f)
					if e != nil {
						fail = true
					}
					want = append(want, ws)
				}
				mtx := wire.NewMsgTx()
				e := masswallet.VerifConstructStakingTxOut([]*masswallet.StakingTxOut{
					{Address: addr.EncodeAddress(), FrozenPeriod: uint32(order[0]), Amount: one},
					{Address: addr.EncodeAddress(), FrozenPeriod: uint32(order[1]), Amount: one}}, mtx)
				if (e != nil) != fail {
					return "mismatch batch-error-differs"
				}
				if e == nil {
					if len(mtx.TxOut) != 2 || !bytes.Equal(mtx.TxOut[0].PkScript, want[0]) || !bytes.Equal(mtx.TxOut[1].PkScript, want[1]) {
						return "mismatch batch-output-differs"
					}
				}
			}
		}
		// a witness-v0 address must be refused by the staking builder
		wa, _ := massutil.NewAddressWitnessScriptHash(h, config.ChainParams)
		if _, e := txscript.PayToStakingAddrScript(wa, frozen); e == nil {
			return "mismatch v0-address-accepted"
		}
		return builtTok(sameScripts(ss, errs))
	case len(a) == 3 && a[0] == "bind":
		h, ok := unhexTok(a[1])
		t, ok2 := unhexTok(a[2])
		if !ok || !ok2 {
			return "bad-op"
		}
		s, err := txscript.PayToBindingScriptHashScript(h, t)
		return builtTok(s, err != nil, true)
	}
	return "bad-op"
}

// ---------------------------------------------------------------------------------------------
// generators

func rndBytes(g *Gen, n int) []byte {
	b := make([]byte, n)
	for i := range b {
		b[i] = byte(g.Rng.Intn(256))
	}
	return b
}

func le64(v uint64) []byte {
	b := make([]byte, 8)
	for i := 0; i < 8; i++ {
		b[i] = byte(v >> (8 * uint(i)))
	}
	return b
}

func rndFrozen(g *Gen) uint64 {
	r := g.Rng
	switch r.Intn(8) {
	case 0:
		return consensus.MinFrozenPeriod + uint64(r.Intn(3)) - 1
	case 1:
		return wire.SequenceLockTimeMask - 2 + uint64(r.Intn(4))
	case 2:
		return r.Uint64()
	case 3:
		return math.MaxUint64 - uint64(r.Intn(2))
	case 4:
		return uint64(r.Intn(70000))
	case 5:
		return consensus.MASSIP0001MaxValidPeriod - 1 + uint64(r.Intn(3))
	default:
		return consensus.MinFrozenPeriod + uint64(r.Int63n(int64(wire.SequenceLockTimeMask-consensus.MinFrozenPeriod)))
	}
}

func rndTarget(g *Gen, n int) []byte {
	t := rndBytes(g, n)
	if n == 22 {
		switch g.Rng.Intn(4) {
		case 0: // arbitrary type / size bytes
		case 1:
			t[20] = byte(g.Rng.Intn(3))
			t[21] = byte([]int{19, 20, 21, 199, 200, 201, 0, 255}[g.Rng.Intn(8)])
		default:
			t[20] = byte(g.Rng.Intn(2))
			t[21] = byte(20 + g.Rng.Intn(181))
		}
	}
	return t
}

// template returns one of the four consensus templates with random fields.
func rndTemplate(g *Gen) ([]byte, string) {
	h := rndBytes(g, 32)
	base := append([]byte{txscript.OP_0, txscript.OP_DATA_32}, h...)
	switch g.Rng.Intn(4) {
	case 0:
		return base, "wsh"
	case 1:
		return append(append(base, txscript.OP_DATA_8), le64(rndFrozen(g))...), "staking"
	case 2:
		return append(append(base, txscript.OP_DATA_20), rndTarget(g, 20)...), "binding20"
	default:
		return append(append(base, txscript.OP_DATA_22), rndTarget(g, 22)...), "binding22"
	}
}

func mutate(g *Gen, s []byte) ([]byte, string) {
	r := g.Rng
	b := append([]byte{}, s...)
	k := r.Intn(6)
	if len(b) == 0 {
		k = 2
	} else if k == 5 && len(b) < 34 {
		k = 0
	}
	switch k {
	case 0: // one-byte substitution, biased to the structural positions
		pos := r.Intn(len(b))
		if r.Intn(2) == 0 {
			pos = []int{0, 1, 34, len(b) - 1}[r.Intn(4)]
			if pos >= len(b) {
				pos = len(b) - 1
			}
		}
		if r.Intn(2) == 0 {
			b[pos] ^= 1 << uint(r.Intn(8))
		} else {
			b[pos] = byte(r.Intn(256))
		}
		return b, "mut-subst"
	case 1: // truncation
		return b[:r.Intn(len(b))], "mut-trunc"
	case 2: // extension
		return append(b, rndBytes(g, 1+r.Intn(4))...), "mut-extend"
	case 3: // insertion
		pos := r.Intn(len(b) + 1)
		return append(b[:pos:pos], append([]byte{byte(r.Intn(256))}, b[pos:]...)...), "mut-insert"
	case 4: // deletion
		pos := r.Intn(len(b))
		return append(b[:pos:pos], b[pos+1:]...), "mut-delete"
	default: // non-canonical push of one field (PUSHDATA1/2/4 carrying the same data)
		h := b[2:34]
		var out []byte
		out = append(out, txscript.OP_0)
		switch r.Intn(3) {
		case 0:
			out = append(out, txscript.OP_PUSHDATA1, 32)
		case 1:
			out = append(out, txscript.OP_PUSHDATA2, 32, 0)
		default:
			out = append(out, txscript.OP_PUSHDATA4, 32, 0, 0, 0)
		}
		out = append(out, h...)
		out = append(out, b[34:]...)
		return out, "mut-noncanonical-push"
	}
}

// rndPush: a data push of one PUSHDATA kind or OP_DATA_n, complete or truncated at every possible place.
func rndPush(g *Gen) ([]byte, string) {
	r := g.Rng
	n := r.Intn(90)
	var head []byte
	kind := ""
	switch r.Intn(4) {
	case 0:
		n = 1 + r.Intn(75)
		head = []byte{byte(n)}
		kind = "data"
	case 1:
		head = []byte{txscript.OP_PUSHDATA1, byte(n)}
		kind = "pushdata1"
	case 2:
		if r.Intn(4) == 0 {
			n = 200 + r.Intn(100)
		}
		head = []byte{txscript.OP_PUSHDATA2, byte(n), byte(n >> 8)}
		kind = "pushdata2"
	default:
		head = []byte{txscript.OP_PUSHDATA4, byte(n), 0, 0, 0}
		if r.Intn(4) == 0 { // huge declared lengths (sign bit, > script)
			head[4] = byte([]int{0x80, 0xff, 0x7f, 1}[r.Intn(4)])
			head[3] = byte(r.Intn(256))
		}
		kind = "pushdata4"
	}
	full := append(head, rndBytes(g, n)...)
	prefix := []byte{}
	if r.Intn(2) == 0 {
		prefix = []byte{txscript.OP_0}
	}
	if r.Intn(3) == 0 {
		prefix = append(prefix, txscript.OP_RETURN)
	}
	switch r.Intn(3) {
	case 0:
		return append(prefix, full...), "push-" + kind + "-complete"
	default:
		cut := r.Intn(len(full))
		return append(prefix, full[:cut]...), "push-" + kind + "-truncated"
	}
}

func rndMultisig(g *Gen) []byte {
	r := g.Rng
	n := 1 + r.Intn(3)
	var s []byte
	s = append(s, byte(txscript.OP_1+r.Intn(n)))
	for i := 0; i < n; i++ {
		l := 33
		if r.Intn(3) == 0 {
			l = 65
		}
		k := rndBytes(g, l)
		k[0] = byte(2 + r.Intn(3))
		s = append(s, byte(l))
		s = append(s, k...)
	}
	m := n
	if r.Intn(5) == 0 {
		m = r.Intn(4)
	}
	s = append(s, byte(txscript.OP_1-1+m), txscript.OP_CHECKMULTISIG)
	return s
}

func genScript(g *Gen) {
	r := g.Rng
	pk := func(class string, s []byte) {
		if g.N%16 == 0 {
			g.Reset() // histories are single ops; short histories keep the check's bookkeeping linear
		}
		g.Op(class, "pk %s", hexTok(s))
		if !strings.HasPrefix(class, "exh-len2") {
			g.Op("cls:"+class, "cls %s", hexTok(s))
		}
	}

	// hand-written witnesses first: D6 (null data / non-template scripts must read `unsupported`),
	// binding targets the address layer refuses, the shortest scripts of every class
	h32 := bytes.Repeat([]byte{0xab}, 32)
	p2wsh := append([]byte{0, 32}, h32...)
	for _, s := range [][]byte{
		{txscript.OP_RETURN},
		{txscript.OP_RETURN, 4, 1, 2, 3, 4},
		{},
		{txscript.OP_1},
		{txscript.OP_DATA_32},
		p2wsh,
		append(append(append([]byte{}, p2wsh...), 8), le64(consensus.MinFrozenPeriod)...),
		append(append(append([]byte{}, p2wsh...), 8), le64(math.MaxUint64)...),
		append(append(append([]byte{}, p2wsh...), 20), bytes.Repeat([]byte{1}, 20)...),
		append(append(append([]byte{}, p2wsh...), 22), append(bytes.Repeat([]byte{1}, 20), 0, 32)...),
		append(append(append([]byte{}, p2wsh...), 22), append(bytes.Repeat([]byte{1}, 20), 2, 32)...),
		append(append(append([]byte{}, p2wsh...), 22), append(bytes.Repeat([]byte{1}, 20), 1, 19)...),
		append(append(append([]byte{}, p2wsh...), 21), bytes.Repeat([]byte{1}, 21)...),
		append([]byte{txscript.OP_1, 32}, h32...),
		append([]byte{0, txscript.OP_PUSHDATA1, 32}, h32...),
		append([]byte{txscript.OP_1, 33}, append(bytes.Repeat([]byte{0}, 33), txscript.OP_1, txscript.OP_CHECKMULTISIG)...),
	} {
		pk("witness", s)
	}
	g.Op("witness", "wsh %s", hexTok(h32))
	g.Op("witness", "wsh %s", hexTok(h32[:31]))
	g.Op("witness", "stk %s %d", hexTok(h32), consensus.MinFrozenPeriod)
	g.Op("witness", "stk %s %d", hexTok(h32), consensus.MinFrozenPeriod-1)
	g.Op("witness", "stk %s %d", hexTok(h32), wire.SequenceLockTimeMask-1)
	g.Op("witness", "stk %s %d", hexTok(h32), wire.SequenceLockTimeMask)
	g.Op("witness", "bind %s %s", hexTok(h32), hexTok(bytes.Repeat([]byte{7}, 20)))
	g.Op("witness", "bind %s %s", hexTok(h32), hexTok(append(bytes.Repeat([]byte{7}, 20), 1, 32)))
	g.Op("witness", "bind %s %s", hexTok(h32), hexTok(bytes.Repeat([]byte{7}, 21)))

	// exhaustive small scope: every byte string of length <= 2 one per line; in the thorough tier
	// additionally every string of length 3, grouped by 2-byte prefix (op `ext`)
	pk("exh-len0", []byte{})
	for a := 0; a < 256; a++ {
		pk("exh-len1", []byte{byte(a)})
	}
	for a := 0; a < 256; a++ {
		for b := 0; b < 256; b++ {
			pk("exh-len2", []byte{byte(a), byte(b)})
		}
	}
	if !g.Quick() {
		for a := 0; a < 256; a++ {
			for b := 0; b < 256; b++ {
				g.Op("exh-len3-by-prefix", "ext %s", hexTok([]byte{byte(a), byte(b)}))
			}
		}
	}
	// every one-byte substitution of the structural bytes of each template (opcode positions)
	for _, tail := range [][]byte{nil, append([]byte{8}, le64(100000)...), append([]byte{20}, bytes.Repeat([]byte{9}, 20)...),
		append([]byte{22}, append(bytes.Repeat([]byte{9}, 20), 0, 32)...)} {
		base := append(append([]byte{}, p2wsh...), tail...)
		for _, pos := range []int{0, 1, 34} {
			if pos >= len(base) {
				continue
			}
			for v := 0; v < 256; v++ {
				m := append([]byte{}, base...)
				m[pos] = byte(v)
				pk("exh-opcode-subst", m)
			}
		}
		for cut := 0; cut <= len(base); cut++ {
			pk("exh-truncation", base[:cut])
		}
	}
	// every (type, size) byte pair of a 22-byte binding target
	for ty := 0; ty < 256; ty++ {
		for sz := 0; sz < 256; sz++ {
			if !g.Quick() || ty < 4 || sz%16 == 3 || sz == 19 || sz == 20 || sz == 200 || sz == 201 {
				t := append(bytes.Repeat([]byte{5}, 20), byte(ty), byte(sz))
				pk("exh-target-type-size", append(append(append([]byte{}, p2wsh...), 22), t...))
			}
		}
	}

	n := g.Scale(60000, 1500000)
	for i := 0; i < n; i++ {
		switch r.Intn(16) {
		case 0, 1, 2: // random bytes, length 0..300
			l := r.Intn(301)
			if r.Intn(3) == 0 {
				l = r.Intn(12)
			}
			b := rndBytes(g, l)
			if r.Intn(3) == 0 && l > 0 { // bias the first bytes to opcodes that matter
				b[0] = []byte{0, 0x20, 0x6a, 0x51, 0x4c, 0x4d, 0x4e, 0x08, 0x14, 0x16}[r.Intn(10)]
			}
			pk("random-bytes", b)
		case 3, 4, 5:
			s, c := rndTemplate(g)
			pk("template-"+c, s)
		case 6, 7, 8, 9:
			s, _ := rndTemplate(g)
			m, c := mutate(g, s)
			if r.Intn(4) == 0 {
				m, _ = mutate(g, m)
				c = "mut-double"
			}
			if len(m) == 0 {
				m = []byte{}
			}
			pk(c, m)
		case 10, 11:
			s, c := rndPush(g)
			pk(c, s)
		case 12:
			if r.Intn(2) == 0 {
				pk("multisig-like", rndMultisig(g))
			} else { // null data
				d := rndBytes(g, r.Intn(90))
				s := []byte{txscript.OP_RETURN}
				switch {
				case len(d) == 0:
				case len(d) <= 75 && r.Intn(3) > 0:
					s = append(append(s, byte(len(d))), d...)
				default:
					s = append(append(s, txscript.OP_PUSHDATA1, byte(len(d))), d...)
				}
				pk("nulldata-like", s)
			}
		case 13:
			l := 32
			if r.Intn(6) == 0 {
				l = []int{0, 1, 20, 31, 33, 64}[r.Intn(6)]
			}
			g.Op("build-wsh", "wsh %s", hexTok(rndBytes(g, l)))
		case 14:
			l := 32
			if r.Intn(8) == 0 {
				l = []int{0, 1, 20, 31, 33, 64}[r.Intn(6)]
			}
			g.Op("build-staking", "stk %s %d", hexTok(rndBytes(g, l)), rndFrozen(g))
		case 15:
			l := 32
			if r.Intn(8) == 0 {
				l = []int{0, 1, 20, 31, 33, 64}[r.Intn(6)]
			}
			tl := []int{20, 22}[r.Intn(2)]
			if r.Intn(6) == 0 {
				tl = []int{0, 1, 8, 19, 21, 23, 32, 75, 76}[r.Intn(9)]
			}
			g.Op("build-binding", "bind %s %s", hexTok(rndBytes(g, l)), hexTok(rndTarget(g, tl)))
		}
	}
}
