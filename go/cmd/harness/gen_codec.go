package main

// Generator of engine `codec`: tuples at the boundaries the proofs name (field widths, 0xff runs, maximal heights and
// indexes, wallet ids that are not 42 bytes, values one byte short / long of every length guard), byte strings built
// by the real builders and then damaged, and key sets for the prefix scans in which keys differ from the prefix in
// exactly one component.

import (
	"encoding/binary"
	"fmt"
	"math/rand"
	"strings"
	"time"

	"github.com/massnetorg/mass-core/massutil"
	"github.com/massnetorg/mass-core/wire"
	"massnet.org/mass-wallet/masswallet/txmgr"
)

type codecGen struct {
	g *Gen
	r *rand.Rand
}

func (c *codecGen) op(class, format string, a ...interface{}) {
	g := c.g
	save := g.Engine
	g.Engine = "codec"
	g.Op("codec-"+class, format, a...)
	g.Engine = save
}

func (c *codecGen) hash() []byte {
	h := make([]byte, 32)
	switch c.r.Intn(8) {
	case 0: // all zero
	case 1:
		for i := range h {
			h[i] = 0xff
		}
	case 2: // trailing 0xff run
		c.r.Read(h)
		for i := 32 - 1 - c.r.Intn(8); i < 32; i++ {
			h[i] = 0xff
		}
	case 3: // few distinct hashes, so that scans meet equal components
		h[0] = byte(1 + c.r.Intn(3))
	default:
		c.r.Read(h)
	}
	return h
}

func (c *codecGen) wallet() []byte {
	n := 42
	if c.r.Intn(6) == 0 {
		n = []int{0, 1, 41, 43, 44, 50, 90}[c.r.Intn(7)]
	}
	w := make([]byte, n)
	switch c.r.Intn(4) {
	case 0:
		for i := range w {
			w[i] = "ms1q0123456789acdefghjklmnpqrstuvwxyz"[c.r.Intn(37)]
		}
	case 1:
		for i := range w {
			w[i] = 0xff
		}
	case 2:
		for i := range w {
			w[i] = 'a'
		}
		if n > 0 {
			w[n-1] = byte('a' + c.r.Intn(2))
		}
	default:
		c.r.Read(w)
	}
	return w
}

func (c *codecGen) u64() uint64 {
	switch c.r.Intn(10) {
	case 0:
		return 0
	case 1:
		return 1
	case 2:
		return 255
	case 3:
		return 256
	case 4:
		return 1<<32 - 1
	case 5:
		return 1 << 32
	case 6:
		return 1 << 63
	case 7:
		return 1<<64 - 1
	case 8:
		return uint64(c.r.Intn(5))
	}
	return c.r.Uint64()
}

func (c *codecGen) u32() uint32 {
	switch c.r.Intn(8) {
	case 0:
		return 0
	case 1:
		return 1
	case 2:
		return 0xfffffffe
	case 3:
		return 0xffffffff
	case 4:
		return 65536
	case 5:
		return uint32(c.r.Intn(4))
	}
	return c.r.Uint32()
}

func (c *codecGen) amount() uint64 {
	max := massutil.MaxAmount().UintValue()
	switch c.r.Intn(5) {
	case 0:
		return 0
	case 1:
		return max
	case 2:
		return 1
	}
	return uint64(c.r.Int63n(int64(max) + 1))
}

func (c *codecGen) bytesN(n int) []byte {
	b := make([]byte, n)
	c.r.Read(b)
	return b
}

// around returns a byte string whose length is near one of the guards
func (c *codecGen) around(lens ...int) []byte {
	n := lens[c.r.Intn(len(lens))] + c.r.Intn(3) - 1
	if n < 0 {
		n = 0
	}
	b := c.bytesN(n)
	if c.r.Intn(3) == 0 {
		for i := range b {
			b[i] = 0xff
		}
	}
	return b
}

func (c *codecGen) flag() int { return c.r.Intn(2) }

// damage: flip a byte, cut or extend
func (c *codecGen) damage(b []byte) []byte {
	b = append([]byte{}, b...)
	switch c.r.Intn(5) {
	case 0:
		if len(b) > 0 {
			b[c.r.Intn(len(b))] ^= byte(1 << uint(c.r.Intn(8)))
		}
	case 1:
		if len(b) > 0 {
			b = b[:len(b)-1]
		}
	case 2:
		b = append(b, byte(c.r.Intn(256)))
	}
	return b
}

func (c *codecGen) tx() *wire.MsgTx {
	tx := wire.NewMsgTx()
	for i, n := 0, 1+c.r.Intn(3); i < n; i++ {
		var h wire.Hash
		copy(h[:], c.hash())
		in := wire.NewTxIn(wire.NewOutPoint(&h, c.u32()), nil)
		in.Sequence = c.u64()
		if c.r.Intn(2) == 0 {
			in.Witness = wire.TxWitness{c.bytesN(1 + c.r.Intn(70)), c.bytesN(1 + c.r.Intn(40))}
		}
		tx.AddTxIn(in)
	}
	for i, n := 0, c.r.Intn(4); i < n; i++ {
		tx.AddTxOut(wire.NewTxOut(int64(c.amount()), c.bytesN(1+c.r.Intn(60))))
	}
	tx.LockTime = c.u64()
	if c.r.Intn(2) == 0 {
		tx.Payload = c.bytesN(c.r.Intn(40))
	}
	return tx
}

func (c *codecGen) unix() int64 {
	switch c.r.Intn(8) {
	case 0:
		return 0
	case 1:
		return -1
	case 2:
		return 1<<31 - 1
	case 3:
		return 1 << 32
	case 4:
		return -(1 << 40)
	case 5:
		return time.Now().Unix()
	}
	return c.r.Int63n(1 << 40)
}

func hexList(ks [][]byte) string {
	if len(ks) == 0 {
		return "-"
	}
	var p []string
	for _, k := range ks {
		p = append(p, hexTok(k))
	}
	return strings.Join(p, ",")
}

func mutHash(r *rand.Rand, h []byte) []byte {
	o := append([]byte{}, h...)
	o[r.Intn(32)] ^= byte(1 << uint(r.Intn(8)))
	return o
}

func toHash(b []byte) *wire.Hash {
	var h wire.Hash
	copy(h[:], b)
	return &h
}

// round emits one op of every kind
func (c *codecGen) round() {
	r := c.r
	c.g.Reset()
	h, bh, w := c.hash(), c.hash(), c.wallet()
	c.op("cop", "cop %s %d", hexTok(h), c.u32())
	c.op("usk", "usk %s %s %d", hexTok(w), hexTok(h), c.u32())
	c.op("rusk", "rusk %s", hexTok(c.around(78)))
	idx, ht := c.u32(), c.u64()
	c.op("ck", "ck %s %d %d %s", hexTok(h), idx, ht, hexTok(bh))
	c.op("dk", "dk %s %d %d %s", hexTok(h), c.u32(), c.u64(), hexTok(bh))
	ck := txmgr.VerifKeyCredit(toHash(h), idx, ht, *toHash(bh))
	c.op("rck", "rck %s", hexTok(c.damage(ck)))
	c.op("rck-raw", "rck %s", hexTok(c.around(76)))
	c.op("ruck", "ruck %s", hexTok(c.around(36)))
	usk := txmgr.VerifCanonicalUnspentKey(string(w), toHash(h), idx)
	c.op("cuk", "cuk %s %s", hexTok(c.damage(usk)), hexTok(c.damage(txmgr.VerifValueUnspent(ht, *toHash(bh)))))
	c.op("cuk-raw", "cuk %s %s", hexTok(c.around(78, 90)), hexTok(c.around(40, 2)))
	// credit values
	sh := c.bytesN(32)
	if r.Intn(8) == 0 {
		sh = c.around(32)
	}
	amt, mat, cls := c.amount(), c.u32(), r.Intn(3)
	c.op("vuc", "vuc %d %d %d %d %s", amt, c.flag(), cls, mat, hexTok(sh))
	c.op("vumc", "vumc %d %d %d %s %d %d", c.amount(), c.flag(), c.u32(), hexTok(sh), c.flag(), c.flag())
	var cv []byte
	if a, err := massutil.NewAmountFromUint(amt); err == nil && len(sh) == 32 {
		cv, _ = txmgr.VerifValueUnspentCredit(a, r.Intn(2) == 0, txmgr.UtxoClass(cls), mat, sh)
	}
	if cv == nil {
		cv = c.bytesN(45)
	}
	if r.Intn(3) == 0 {
		cv[8] = byte(r.Intn(256)) // every flag combination, incl. the unknown class 3
	}
	if r.Intn(6) == 0 {
		binary.BigEndian.PutUint64(cv, massutil.MaxAmount().UintValue()+uint64(r.Intn(2))) // at / above the maximal amount
	}
	c.op("rcv", "rcv %s", hexTok(cv))
	c.op("rcv-raw", "rcv %s", hexTok(c.around(45, 121)))
	c.op("spend", "spend %s %s %d %s %d", hexTok(cv), hexTok(c.hash()), c.u64(), hexTok(c.hash()), c.u32())
	c.op("spend-raw", "spend %s %s %d %s %d", hexTok(c.around(45, 46)), hexTok(c.hash()), c.u64(), hexTok(c.hash()), c.u32())
	spent := append(append([]byte{}, cv...), txmgr.VerifKeyDebit(toHash(c.hash()), c.u32(), c.u64(), *toHash(c.hash()))...)
	spent[8] |= 1
	c.op("unspend", "unspend %s", hexTok(spent))
	c.op("unspend-raw", "unspend %s", hexTok(c.around(45, 121, 2)))
	c.op("rcs", "rcs %s", hexTok(c.damage(spent)))
	c.op("rcs-raw", "rcs %s", hexTok(c.around(121, 45)))
	for _, o := range []string{"fas", "fms", "ufm"} {
		c.op(o, "%s %s", o, hexTok(c.damage(cv)))
		c.op(o+"-raw", "%s %s", o, hexTok(c.around(45)))
	}
	c.op("tkc", "tkc %s", hexTok(c.around(72, 76)))
	c.op("uvc", "uvc %s", hexTok(c.around(76)))
	c.op("deb", "deb %s %d %d %d %s %s", hexTok(h), c.u32(), c.amount(), c.u64(), hexTok(bh), hexTok(c.around(76, 76, 20)))
	c.op("vus", "vus %d %s", c.u64(), hexTok(bh))
	c.op("rbu", "rbu %s", hexTok(c.around(40)))
	c.op("bal", "bal %s %d", hexTok(w), c.amount())
	// addresses
	addr := []byte("ms1qq" + strings.Repeat("x", r.Intn(60)))
	if r.Intn(8) == 0 {
		addr = nil
	}
	c.op("kar", "kar %s %d %s", hexTok(w), []int{0, 1, 2, 256, 65535}[r.Intn(5)], hexTok(addr))
	c.op("var", "var %d", c.u64())
	c.op("rah", "rah %s", hexTok(c.bytesN(8+r.Intn(2))))
	// game history
	if len(w) > 42 {
		w = w[:42] // keyGameHistory copies the id unbounded; ids longer than 42 bytes are outside the compared domain
	}
	c.op("kgh", "kgh %s %d %d %s %d %d", hexTok(w), c.flag(), c.flag(), hexTok(h), c.u64(), c.u32())
	c.op("kugh", "kugh %s %d %d %s %d %d", hexTok(w), c.flag(), c.flag(), hexTok(h), c.u64(), c.u32())
	gk := txmgr.VerifKeyGameHistory(string(c.bytesN(42)), r.Intn(2) == 0, r.Intn(2) == 0, *toHash(h), c.u64(), c.u32())
	if r.Intn(3) == 0 {
		gk[42+r.Intn(2)] = byte(r.Intn(256))
	}
	c.op("rgh", "rgh %d %s", c.flag(), hexTok(c.damage(gk)))
	c.op("rgh-raw", "rgh %d %s", c.flag(), hexTok(c.around(80, 88)))
	c.op("vgh", "vgh")
	// pending record
	ser, _ := c.tx().Bytes(wire.DB)
	c.op("pend", "pend %d %s", c.unix(), hexTok(ser))
	c.op("rpend", "rpend %s", hexTok(c.around(8, 8, 30)))
	// tx records
	c.op("ktr", "ktr %s %d %s", hexTok(h), c.u64(), hexTok(bh))
	c.op("rtk", "rtk %s", hexTok(c.around(72)))
	c.op("vtr", "vtr %s %d %s %d %d %d %d %d", hexTok(h), c.u64(), hexTok(bh), c.u32(), c.u64(), c.u64(), c.u32(), c.u32())
	c.op("rtl", "rtl %s", hexTok(c.around(28)))
	// block records
	c.op("kbr", "kbr %d", c.u64())
	var hs [][]byte
	for i, n := 0, 1+r.Intn(4); i < n; i++ {
		hs = append(hs, c.hash())
	}
	c.op("vbr", "vbr %d %s %d %s", c.u64(), hexTok(bh), c.unix(), hexList(hs))
	brv := append(append(append([]byte{}, bh...), c.bytesN(8)...), 0, 0, 0, byte(r.Intn(4)))
	for i, n := 0, r.Intn(4); i < n; i++ {
		brv = append(brv, c.hash()...)
	}
	c.op("rbr", "rbr %s %s", hexTok(c.around(8)), hexTok(c.damage(brv)))
	c.op("rbr-raw", "rbr %s %s", hexTok(c.bytesN(8)), hexTok(c.around(44, 76)))
	c.op("rbh", "rbh %s", hexTok(c.around(44)))
	// sync bucket, wallet status
	c.op("sync", "sync %d %s %d", c.u64(), hexTok(bh), c.unix())
	c.op("rsync", "rsync %d %s", c.u64(), hexTok(c.around(36)))
	c.op("sto", "sto 0 %s %d", hexTok(bh), c.unix())
	c.op("pws", "pws %s %d %d", hexTok(w), c.u64(), []int{0, 1, 2, 255}[r.Intn(4)])
	c.op("rws", "rws %s %s", hexTok(c.around(42)), hexTok(c.around(8, 9, 10)))
	c.scans()
}

// scans: a key set around one prefix; every other key differs from the prefix tuple in exactly one component, shares a
// byte prefix with it, or is its 0xff-successor
func (c *codecGen) scans() {
	r := c.r
	h, bh := c.hash(), c.hash()
	ht := c.u64()
	near := func(x uint64) uint64 {
		switch r.Intn(4) {
		case 0:
			return x
		case 1:
			return x + 1
		case 2:
			return x ^ (1 << uint(r.Intn(64)))
		}
		return c.u64()
	}
	nearH := func(x []byte) []byte {
		if r.Intn(2) == 0 {
			return x
		}
		return mutHash(r, x)
	}
	var cks, tks [][]byte
	for i, n := 0, 2+r.Intn(6); i < n; i++ {
		cks = append(cks, txmgr.VerifKeyCredit(toHash(nearH(h)), uint32(r.Intn(3)), near(ht), *toHash(nearH(bh))))
		tks = append(tks, txmgr.VerifKeyTxRecord(toHash(nearH(h)), near(ht), *toHash(nearH(bh))))
	}
	c.op("scan-ctx", "scan ctx %s %s", hexTok(h), hexList(cks))
	c.op("scan-ctxh", "scan ctxh %s %d %s", hexTok(h), ht, hexList(cks))
	c.op("scan-clast", "scan clast %s %d %d %s", hexTok(h), r.Intn(3), near(ht), hexList(cks))
	c.op("scan-trh", "scan trh %s %d %s", hexTok(h), ht, hexList(tks))
	c.op("scan-tlatest", "scan tlatest %s %s", hexTok(h), hexList(tks))
	// addresses and game history of a wallet among look-alike wallets
	w := c.bytesN(42)
	if r.Intn(3) == 0 {
		for i := range w {
			w[i] = 0xff
		}
	}
	nearW := func() []byte {
		o := append([]byte{}, w...)
		switch r.Intn(4) {
		case 0:
			o[41] ^= 1
		case 1:
			o[r.Intn(42)] ^= byte(1 << uint(r.Intn(8)))
		}
		return o
	}
	var aks, gks, uks [][]byte
	for i, n := 0, 2+r.Intn(6); i < n; i++ {
		k, err := txmgr.VerifKeyAddressRecord(string(nearW()), uint16(r.Intn(2)), fmt.Sprintf("ms1q%d", r.Intn(50)))
		if err == nil {
			aks = append(aks, k)
		}
		gks = append(gks, txmgr.VerifKeyGameHistory(string(nearW()), r.Intn(2) == 0, r.Intn(2) == 0, *toHash(c.hash()), c.u64(), c.u32()))
		uks = append(uks, txmgr.VerifKeyUnminedGameHistory(string(nearW()), r.Intn(2) == 0, false, *toHash(c.hash()), 0, c.u32()))
	}
	c.op("scan-addr", "scan addr %s %s", hexTok(w), hexList(aks))
	c.op("scan-game", "scan game %s %d %d %s", hexTok(w), r.Intn(2), c.flag(), hexList(gks))
	c.op("scan-ugame", "scan game %s %d %d %s", hexTok(w), r.Intn(2), c.flag(), hexList(uks))
	c.op("scan-del", "scan del %s %s", hexTok(w), hexList(append(append(aks, gks...), usks(r, w, c)...)))
	c.op("scan-del-short", "scan del %s %s", hexTok(w[:1+r.Intn(41)]), hexList(gks))
}

func usks(r *rand.Rand, w []byte, c *codecGen) [][]byte {
	var ks [][]byte
	for i := 0; i < 3; i++ {
		o := append([]byte{}, w...)
		if r.Intn(2) == 0 {
			o[41] ^= 1
		}
		ks = append(ks, txmgr.VerifCanonicalUnspentKey(string(o), toHash(c.hash()), c.u32()))
	}
	return ks
}

func genCodec(g *Gen) {
	c := &codecGen{g: g, r: g.Rng}
	n := g.Scale(150, 1000)
	for i := 0; i < n; i++ {
		c.round()
	}
}

// genCodecInto adds codec rounds to the stream of another engine (C01 / C09 / C10: led; C08: rem), so that the
// byte-level tie is part of those checks.
func genCodecInto(g *Gen) {
	c := &codecGen{g: g, r: rand.New(rand.NewSource(g.Seed*7919 + 17))}
	n := g.Scale(40, 400)
	for i := 0; i < n; i++ {
		c.round()
	}
	g.Reset()
}
