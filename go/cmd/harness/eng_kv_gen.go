package main

// Generator of engine kv (C11): long random transaction histories over nested buckets with
// adversarial names / keys, targeted overlay scenarios, and (thorough tier) an exhaustive
// enumeration of short op sequences over a 6-key alphabet.

import (
	"fmt"
	"sort"
	"strings"
)

// valid bucket names: digits that mimic depth prefixes, the index-bucket letter, 0xff runs, NUL
var kvGoodNames = []string{"a", "b", "1", "2", "10", "3", "\xff", "\xff\xff", "k", "\x00", "b\xff", "1a", "11", "^", "`"}

// invalid bucket names: empty, containing the separator, too long
var kvBadNames = []string{"", "_", "a_b", "1_a", "_a", "a_", strings.Repeat("x", 257)}

var kvKeyAlphabet = []byte{'_', '1', '2', 0xff, 0x00, 'a'}

var kvSpecialKeys = []string{"_", "__", "1_a_k", "2_a_b_k", "b_1_a", "b_2_a_b", "a_b", "1", "2", "10", "\xff", "\xff\xff", "\xff\xff\xff",
	"a", "a\xff", "a\xff\xff", "b", "\x00", "a\x00", "_a", "a_", "1_", "1_1", "^", "`", "_\xff"}

type kvGenState struct {
	g *Gen
	// shadow of the bucket set (exact for histories the generator produces on a correct
	// implementation; only used to aim the choices)
	committed map[string]bool
	working   map[string]bool
	wOpen     bool
	rOpen     bool
	keys      []string
	n         int
}

func kvPathTok(names []string) string {
	if len(names) == 0 {
		return "/"
	}
	ts := make([]string, len(names))
	for i, n := range names {
		ts[i] = hexTok([]byte(n))
	}
	return strings.Join(ts, "/")
}

func kvJoin(names []string) string { return strings.Join(names, "\x01_\x01") }
func kvSplit(s string) []string {
	if s == "" {
		return nil
	}
	return strings.Split(s, "\x01_\x01")
}

func (s *kvGenState) op(class, format string, a ...interface{}) {
	s.g.Op(class, format, a...)
	s.n++
}

func (s *kvGenState) randKey() []byte {
	r := s.g.Rng
	switch r.Intn(10) {
	case 0:
		return []byte{}
	case 1, 2, 3:
		return []byte(kvSpecialKeys[r.Intn(len(kvSpecialKeys))])
	case 4:
		if len(s.keys) > 0 {
			// extend / truncate a used key: prefix-related keys
			k := []byte(s.keys[r.Intn(len(s.keys))])
			if r.Intn(2) == 0 && len(k) > 0 {
				return k[:len(k)-1]
			}
			return append(append([]byte{}, k...), kvKeyAlphabet[r.Intn(len(kvKeyAlphabet))])
		}
		fallthrough
	case 5:
		l := 1 + r.Intn(6)
		b := make([]byte, l)
		for i := range b {
			b[i] = byte(r.Intn(256))
		}
		return b
	default:
		l := 1 + r.Intn(4)
		b := make([]byte, l)
		for i := range b {
			b[i] = kvKeyAlphabet[r.Intn(len(kvKeyAlphabet))]
		}
		return b
	}
}

func (s *kvGenState) usedKey() []byte {
	r := s.g.Rng
	if len(s.keys) > 0 && r.Intn(4) > 0 {
		return []byte(s.keys[r.Intn(len(s.keys))])
	}
	k := s.randKey()
	return k
}

func (s *kvGenState) randVal() []byte {
	r := s.g.Rng
	switch r.Intn(12) {
	case 0:
		return []byte{}
	case 1:
		return []byte{0xff}
	case 2:
		return []byte("_")
	}
	l := 1 + r.Intn(3)
	b := make([]byte, l)
	for i := range b {
		b[i] = byte(r.Intn(256))
	}
	return b
}

func (s *kvGenState) set(slot string) map[string]bool {
	if slot == "w" {
		return s.working
	}
	return s.committed
}

func sortedKeys(m map[string]bool) []string {
	ks := make([]string, 0, len(m))
	for k := range m {
		ks = append(ks, k)
	}
	sort.Strings(ks)
	return ks
}

// existing bucket path as seen by the slot (mostly), or a random / stale / invalid one
func (s *kvGenState) pickPath(slot string) []string {
	r := s.g.Rng
	ks := sortedKeys(s.set(slot))
	if len(ks) > 0 && r.Intn(8) > 0 {
		return kvSplit(ks[r.Intn(len(ks))])
	}
	d := 1 + r.Intn(4)
	p := make([]string, d)
	for i := range p {
		p[i] = s.randName()
	}
	return p
}

func (s *kvGenState) randName() string {
	r := s.g.Rng
	if r.Intn(12) == 0 {
		return kvBadNames[r.Intn(len(kvBadNames))]
	}
	if r.Intn(3) > 0 {
		return kvGoodNames[r.Intn(5)] // small pool: collisions between levels and siblings
	}
	return kvGoodNames[r.Intn(len(kvGoodNames))]
}

func (s *kvGenState) removeSubtree(m map[string]bool, p []string) {
	pre := kvJoin(p)
	for k := range m {
		if k == pre || strings.HasPrefix(k, pre+"\x01_\x01") {
			delete(m, k)
		}
	}
}

func isValidKvName(n string) bool { return len(n) > 0 && len(n) <= 256 && !strings.Contains(n, "_") }

func (s *kvGenState) createAt(slot string, p []string) {
	s.op("create", "create %s %s", slot, kvPathTok(p))
	if slot != "w" || !s.wOpen {
		return
	}
	ok := isValidKvName(p[len(p)-1])
	if len(p) > 1 && !s.working[kvJoin(p[:len(p)-1])] {
		ok = false
	}
	if ok {
		s.working[kvJoin(p)] = true
	}
}

func (s *kvGenState) delAt(slot string, p []string) {
	s.op("delb", "delb %s %s", slot, kvPathTok(p))
	if slot != "w" || !s.wOpen || len(p) < 2 {
		return
	}
	if s.working[kvJoin(p[:len(p)-1])] {
		s.removeSubtree(s.working, p)
	}
}

func copySet(m map[string]bool) map[string]bool {
	c := make(map[string]bool, len(m))
	for k := range m {
		c[k] = true
	}
	return c
}

func (s *kvGenState) beginW() {
	s.op("begin-write", "begin %s", pick(s.g.Rng, "w", "u"))
	s.wOpen = true
	s.working = copySet(s.committed)
}

func (s *kvGenState) endW(commit bool) {
	if commit {
		s.op("commit", "commit")
		s.committed = s.working
	} else {
		s.op("rollback", "rollback")
	}
	s.working = nil
	s.wOpen = false
	if commit && s.rOpen {
		// a read transaction opened before this commit is still open: it must keep seeing the state
		// of its begin (snapshot); a reader opened afterwards sees the new state
		s.g.Stats["reader-spans-commit"]++
		for i := 1 + s.g.Rng.Intn(2); i > 0; i-- {
			s.readOp("r")
		}
		if s.g.Rng.Intn(3) == 0 {
			s.op("endr", "endr")
			s.op("begin-read", "begin %s", pick(s.g.Rng, "r", "v"))
			s.readOp("r")
		}
	}
}

func (s *kvGenState) iterScript() string {
	r := s.g.Rng
	switch r.Intn(6) {
	case 0, 1:
		return "a"
	case 2:
		return "s" + hexTok(s.usedKey()) + ",a"
	}
	n := 1 + r.Intn(6)
	st := make([]string, n)
	for i := range st {
		switch r.Intn(5) {
		case 0:
			st[i] = "s" + hexTok(s.usedKey())
		case 1:
			st[i] = "a"
		default:
			st[i] = "n"
		}
	}
	return strings.Join(st, ",")
}

// one read-type op in the given slot
func (s *kvGenState) readOp(slot string) {
	r := s.g.Rng
	p := s.pickPath(slot)
	pt := kvPathTok(p)
	cl := "-" + slot
	switch r.Intn(12) {
	case 0, 1, 2:
		s.op("get"+cl, "get %s %s %s", slot, pt, hexTok(s.usedKey()))
	case 3, 4:
		var pre []byte
		switch r.Intn(4) {
		case 0:
			pre = []byte{}
		case 1:
			k := s.usedKey()
			pre = k[:r.Intn(len(k)+1)]
		case 2:
			pre = []byte(pick(r, "\xff", "\xff\xff", "_", "1_", "a", "a\xff", "1"))
		default:
			pre = s.usedKey()
		}
		s.op("prefix"+cl, "prefix %s %s %s", slot, pt, hexTok(pre))
	case 5:
		if r.Intn(3) == 0 {
			s.op("names"+cl, "names %s /", slot)
		} else {
			s.op("names"+cl, "names %s %s", slot, pt)
		}
	case 6:
		if r.Intn(3) == 0 {
			s.op("hasf"+cl, "hasf %s %s", slot, pt)
		} else {
			s.op("has"+cl, "has %s %s", slot, pt)
		}
	case 7:
		// parent of an existing bucket, or a deeper non-existing one
		if len(p) > 1 && r.Intn(2) == 0 {
			s.op("names"+cl, "names %s %s", slot, kvPathTok(p[:len(p)-1]))
		} else {
			s.op("has"+cl, "has %s %s", slot, kvPathTok(append(append([]string{}, p...), s.randName())))
		}
	default:
		var start, limit []byte
		switch r.Intn(6) {
		case 0:
		case 1:
			start = s.usedKey()
		case 2:
			start, limit = s.usedKey(), s.usedKey()
		case 3: // db.BytesPrefix(prefix) as the wallet builds its ranges
			pre := s.usedKey()
			if r.Intn(3) == 0 {
				pre = []byte(pick(r, "\xff", "\xff\xff", "a\xff", "_", "1", "", "\xff\xff\xff"))
			}
			s.op("iterp"+cl, "iterp %s %s %s %s", slot, pt, hexTok(pre), s.iterScript())
			return
		case 4:
			limit = s.usedKey()
		default:
			start = []byte(pick(r, "_", "1", "\x00", "a"))
		}
		s.op("iter"+cl, "iter %s %s %s %s %s", slot, pt, hexTok(start), hexTok(limit), s.iterScript())
	}
}

func (s *kvGenState) writeOp() {
	r := s.g.Rng
	p := s.pickPath("w")
	pt := kvPathTok(p)
	switch x := r.Intn(20); {
	case x < 7:
		k := s.randKey()
		if r.Intn(2) == 0 {
			k = s.usedKey()
		}
		if len(s.keys) < 24 {
			s.keys = append(s.keys, string(k))
		}
		s.op("put", "put w %s %s %s", pt, hexTok(k), hexTok(s.randVal()))
	case x < 10:
		s.op("del", "del w %s %s", pt, hexTok(s.usedKey()))
	case x < 11:
		s.op("clear", "clear w %s", pt)
	case x < 15:
		// create: under an existing bucket (or at top level), depth <= 4 mostly
		var parent []string
		ks := sortedKeys(s.working)
		if len(ks) > 0 && r.Intn(4) > 0 {
			parent = kvSplit(ks[r.Intn(len(ks))])
		}
		if len(parent) >= 4 && r.Intn(4) > 0 {
			parent = parent[:r.Intn(4)]
		}
		s.createAt("w", append(append([]string{}, parent...), s.randName()))
	case x < 17:
		s.delAt("w", p)
	case x < 18:
		// delete + observe + recreate inside one transaction
		if len(p) >= 2 {
			s.delAt("w", p)
			s.op("has-w", "has w %s", pt)
			s.op("hasf-w", "hasf w %s", pt)
			if r.Intn(2) == 0 {
				s.op("put", "put w %s %s %s", pt, hexTok(s.usedKey()), hexTok(s.randVal()))
			}
			s.createAt("w", p)
			s.op("prefix-w", "prefix w %s -", pt)
			s.op("names-w", "names w %s", pt)
			s.op("has-w", "has w %s", kvPathTok(append(append([]string{}, p...), kvGoodNames[r.Intn(5)])))
		} else {
			s.createAt("w", p)
			s.createAt("w", p)
		}
	default:
		// put / delete / re-put orders on one key
		k := s.usedKey()
		if len(k) == 0 {
			k = []byte("_")
		}
		n := 2 + r.Intn(4)
		for i := 0; i < n; i++ {
			switch r.Intn(3) {
			case 0:
				s.op("del", "del w %s %s", pt, hexTok(k))
			case 1:
				s.op("put", "put w %s %s %s", pt, hexTok(k), hexTok(s.randVal()))
			default:
				s.op("get-w", "get w %s %s", pt, hexTok(k))
			}
		}
		s.op("prefix-w", "prefix w %s %s", pt, hexTok(k[:r.Intn(len(k)+1)]))
	}
}

func (s *kvGenState) history(maxOps int) {
	g := s.g
	r := g.Rng
	g.Reset()
	s.committed = map[string]bool{}
	s.working = nil
	s.wOpen, s.rOpen = false, false
	s.keys = s.keys[:0]
	s.n = 0
	// most histories start from a small committed tree
	if r.Intn(5) > 0 {
		s.beginW()
		top := kvGoodNames[r.Intn(5)]
		s.createAt("w", []string{top})
		if r.Intn(3) > 0 {
			s.createAt("w", []string{top, kvGoodNames[r.Intn(5)]})
		}
		if r.Intn(3) == 0 {
			s.createAt("w", []string{kvGoodNames[r.Intn(5)]})
		}
		for i := r.Intn(4); i > 0; i-- {
			s.writeOp()
		}
		s.endW(true)
	}
	for s.n < maxOps {
		x := r.Intn(100)
		switch {
		case !s.wOpen && x < 45:
			s.beginW()
		case s.wOpen && x < 62:
			s.writeOp()
		case s.wOpen && x < 72:
			s.readOp("w")
		case s.wOpen && x < 78:
			s.endW(true)
		case s.wOpen && x < 82:
			s.endW(false)
		case x < 84 && !s.rOpen:
			s.op("begin-read", "begin %s", pick(r, "r", "v"))
			s.rOpen = true
		case x < 93 && s.rOpen:
			s.readOp("r")
		case x < 94 && s.rOpen:
			s.op("endr", "endr")
			s.rOpen = false
		case x < 95 && s.rOpen:
			// writes through a read-only transaction are refused
			p := s.pickPath("r")
			switch r.Intn(4) {
			case 0:
				s.op("ro-write", "put r %s %s 01", kvPathTok(p), hexTok(s.usedKey()))
			case 1:
				s.op("ro-write", "create r %s", kvPathTok(append(append([]string{}, p...), "a")))
			case 2:
				s.op("ro-write", "clear r %s", kvPathTok(p))
			default:
				s.op("ro-write", "delb r %s", kvPathTok(p))
			}
		case x < 97 && !s.wOpen && !s.rOpen:
			// Close + OpenDB costs ~30 ms in the real driver (128 MiB write buffer): rarer in the long run
			if g.Quick() || r.Intn(6) == 0 {
				s.op("reopen", "reopen")
			}
		case x == 97 && r.Intn(6) == 0:
			s.op("probe", "probe")
		case x >= 98 && !s.rOpen && !s.wOpen:
			s.op("begin-read", "begin %s", pick(r, "r", "v"))
			s.rOpen = true
			s.readOp("r")
		}
	}
	// final observation: end the writer, then dump what a reader sees (after a reopen half the time)
	if s.wOpen {
		s.endW(r.Intn(3) > 0)
	}
	if s.rOpen {
		s.op("endr", "endr")
		s.rOpen = false
	}
	if r.Intn(g.Scale(2, 12)) == 0 {
		s.op("reopen", "reopen")
	}
	s.op("begin-read", "begin r")
	s.op("names-r", "names r /")
	ks := sortedKeys(s.committed)
	r.Shuffle(len(ks), func(i, j int) { ks[i], ks[j] = ks[j], ks[i] })
	for i, k := range ks {
		if i >= 4 {
			break
		}
		pt := kvPathTok(kvSplit(k))
		s.op("iter-r", "iter r %s - - a", pt)
		s.op("names-r", "names r %s", pt)
	}
	s.op("endr", "endr")
	// the raw key space last (and not in every history): a disagreement the specification can see
	// is met first
	if r.Intn(3) == 0 {
		s.op("raw", "raw")
	}
}

// deep nesting: depth 9 -> 10 -> 11 changes the width of the depth prefix
func (s *kvGenState) deepHistory() {
	g := s.g
	g.Reset()
	s.op("begin-write", "begin w")
	var p []string
	for d := 1; d <= 12; d++ {
		p = append(p, pick(g.Rng, "1", "0", "a", "10", "11"))
		s.op("create-deep", "create w %s", kvPathTok(p))
		s.op("put", "put w %s %s %02x", kvPathTok(p), hexTok([]byte(pick(g.Rng, "1", "1_", "k", "_", "0"))), d)
	}
	s.op("commit", "commit")
	s.op("begin-read", "begin r")
	for d := 8; d <= 12; d++ {
		s.op("iter-r", "iter r %s - - a", kvPathTok(p[:d]))
		s.op("names-r", "names r %s", kvPathTok(p[:d]))
	}
	s.op("endr", "endr")
	s.op("begin-write", "begin u")
	cut := 2 + g.Rng.Intn(9)
	s.op("delb", "delb w %s", kvPathTok(p[:cut]))
	s.op("names-w", "names w %s", kvPathTok(p[:cut-1]))
	s.op("has-w", "has w %s", kvPathTok(p[:cut]))
	s.op("create", "create w %s", kvPathTok(p[:cut]))
	s.op("prefix-w", "prefix w %s -", kvPathTok(p[:cut]))
	s.op("names-w", "names w %s", kvPathTok(p[:cut]))
	s.op("commit", "commit")
	s.op("begin-read", "begin v")
	for d := 1; d <= 12; d++ {
		s.op("has-r", "has r %s", kvPathTok(p[:d]))
	}
	s.op("prefix-r", "prefix r %s -", kvPathTok(p[:cut]))
	s.op("endr", "endr")
}

// The six keys of the exhaustive enumeration: separator, digits mimicking a depth prefix of the
// sibling bucket, 0xff and its extension.
var kvExhKeys = []string{"_", "1", "1_1", "\xff", "\xff\xff", "a"}

// exhaustive: every sequence of <= maxLen symbols over
//
//	put k (6) | del k (6) | clear | commit+begin | rollback+begin
//
// applied inside a write transaction on bucket 1/1 (sibling bucket 1 and child 1/1/1 hold the same
// keys and must never change), over a committed base {k0,k2,k4}.  After each sequence: prefix dump
// inside the writer, commit or rollback, prefix dump + neighbours from a reader.  The database is
// restored by a cleaning transaction, so no directory is recreated between sequences; a `reset`
// every 150 sequences keeps replays short.
func (s *kvGenState) exhaustive(maxLen int) {
	g := s.g
	B := kvPathTok([]string{"1", "1"})
	top := kvPathTok([]string{"1"})
	child := kvPathTok([]string{"1", "1", "1"})
	type sym struct{ kind, key int }
	var syms []sym
	for i := range kvExhKeys {
		syms = append(syms, sym{0, i}, sym{1, i})
	}
	syms = append(syms, sym{2, 0}, sym{3, 0}, sym{4, 0})
	count := 0
	setup := func() {
		g.Reset()
		s.op("exh-setup", "begin w")
		s.op("exh-setup", "create w %s", top)
		s.op("exh-setup", "create w %s", B)
		s.op("exh-setup", "create w %s", child)
		for i, k := range kvExhKeys {
			s.op("exh-setup", "put w %s %s aa", top, hexTok([]byte(k)))
			s.op("exh-setup", "put w %s %s bb", child, hexTok([]byte(k)))
			if i%2 == 0 {
				s.op("exh-setup", "put w %s %s c%d", B, hexTok([]byte(k)), i)
			}
		}
		s.op("exh-setup", "commit")
		s.op("exh-setup", "begin r")
	}
	seq := make([]sym, 0, maxLen)
	emit := func() {
		if count%150 == 0 {
			setup()
		}
		count++
		dirty := false
		s.op("exh-begin", "begin w")
		for i, y := range seq {
			switch y.kind {
			case 0:
				s.op("exh-put", "put w %s %s %02x", B, hexTok([]byte(kvExhKeys[y.key])), 0xd0+i)
			case 1:
				s.op("exh-del", "del w %s %s", B, hexTok([]byte(kvExhKeys[y.key])))
			case 2:
				s.op("exh-clear", "clear w %s", B)
			case 3:
				s.op("exh-commit", "commit")
				s.op("exh-begin", "begin w")
				dirty = true
			case 4:
				s.op("exh-rollback", "rollback")
				s.op("exh-begin", "begin w")
			}
		}
		s.op("exh-observe", "prefix w %s -", B)
		if count%2 == 0 {
			s.op("exh-commit", "commit")
			dirty = dirty || len(seq) > 0
		} else {
			s.op("exh-rollback", "rollback")
		}
		if count%8 == 0 {
			// the reader opened before this sequence still sees the base state
			s.op("exh-observe", "iter r %s - - a", B)
		}
		s.op("exh-observe", "endr")
		s.op("exh-observe", "begin r")
		s.op("exh-observe", "iter r %s - - a", B)
		if count%16 == 0 {
			s.op("exh-observe", "prefix r %s -", top)
			s.op("exh-observe", "prefix r %s -", child)
		}
		if dirty {
			s.op("exh-clean", "begin w")
			s.op("exh-clean", "clear w %s", B)
			for i, k := range kvExhKeys {
				if i%2 == 0 {
					s.op("exh-clean", "put w %s %s c%d", B, hexTok([]byte(k)), i)
				}
			}
			s.op("exh-clean", "commit")
		}
	}
	var rec func()
	rec = func() {
		emit()
		if len(seq) == maxLen {
			return
		}
		for _, y := range syms {
			seq = append(seq, y)
			rec()
			seq = seq[:len(seq)-1]
		}
	}
	rec()
	g.Stats["exh-sequences"] = count
	g.Stats[fmt.Sprintf("exh-maxlen-%d", maxLen)] = 1
}

// siblingPrefix: two sibling buckets whose names are in prefix relation (n and n+suffix), at a random
// depth, the longer one holding data; deleting / clearing the shorter one must not touch the longer
// one (the scan prefix of a bucket ends with the separator).
func (s *kvGenState) siblingPrefix() {
	g := s.g
	r := g.Rng
	g.Reset()
	s.committed = map[string]bool{}
	s.working = nil
	s.wOpen, s.rOpen = false, false
	n1 := pick(r, "a", "1", "b", "\xff", "k", "10")
	n2 := n1 + pick(r, "b", "0", "\xff", "1", "a")
	var parent []string
	for d := r.Intn(3); d >= 0; d-- {
		parent = append(parent, kvGoodNames[r.Intn(5)])
	}
	s.op("sibling-prefix", "begin w")
	for i := range parent {
		s.op("sibling-prefix", "create w %s", kvPathTok(parent[:i+1]))
	}
	p1 := kvPathTok(append(append([]string{}, parent...), n1))
	p2 := kvPathTok(append(append([]string{}, parent...), n2))
	pp := kvPathTok(parent)
	s.op("sibling-prefix", "create w %s", p1)
	s.op("sibling-prefix", "create w %s", p2)
	nk := 1 + r.Intn(4)
	for i := 0; i < nk; i++ {
		s.op("sibling-prefix", "put w %s %s %02x", p2, hexTok(s.randKeyNonEmpty()), 0xa0+i)
		if r.Intn(2) == 0 {
			s.op("sibling-prefix", "put w %s %s %02x", p1, hexTok(s.randKeyNonEmpty()), 0xb0+i)
		}
	}
	committedFirst := r.Intn(3) > 0
	if committedFirst {
		s.op("sibling-prefix", "commit")
		s.op("sibling-prefix", "begin w")
		if r.Intn(2) == 0 {
			s.op("sibling-prefix", "put w %s %s cc", p2, hexTok(s.randKeyNonEmpty()))
		}
	}
	if r.Intn(4) == 0 {
		s.op("sibling-prefix", "clear w %s", p1)
	} else {
		s.op("sibling-prefix", "delb w %s", p1)
	}
	s.op("sibling-prefix", "prefix w %s -", p2)
	s.op("sibling-prefix", "names w %s", pp)
	if r.Intn(4) > 0 {
		s.op("sibling-prefix", "commit")
	} else {
		s.op("sibling-prefix", "rollback")
	}
	s.op("sibling-prefix", "begin r")
	s.op("sibling-prefix", "prefix r %s -", p2)
	s.op("sibling-prefix", "iter r %s - - a", p2)
	s.op("sibling-prefix", "names r %s", pp)
	s.op("sibling-prefix", "endr")
}

// readerSpansCommit: a read transaction is opened, then one or two write transactions change what
// it has looked at (values, deleted keys, cleared / deleted / new buckets) and commit; the same
// reads through the old reader must return what they returned before, a fresh reader the new state.
func (s *kvGenState) readerSpansCommit() {
	g := s.g
	r := g.Rng
	g.Reset()
	s.committed = map[string]bool{}
	s.working = nil
	s.wOpen, s.rOpen = false, false
	cl := "reader-spans-commit"
	top := kvGoodNames[r.Intn(5)]
	sub := kvGoodNames[r.Intn(5)]
	pTop := kvPathTok([]string{top})
	pSub := kvPathTok([]string{top, sub})
	pNew := kvPathTok([]string{top, sub + "x"})
	keys := make([][]byte, 3+r.Intn(3))
	for i := range keys {
		keys[i] = s.randKeyNonEmpty()
	}
	s.op(cl, "begin w")
	s.op(cl, "create w %s", pTop)
	s.op(cl, "create w %s", pSub)
	for i, k := range keys {
		s.op(cl, "put w %s %s %02x", pSub, hexTok(k), 0x10+i)
		if i%2 == 0 {
			s.op(cl, "put w %s %s %02x", pTop, hexTok(k), 0x20+i)
		}
	}
	s.op(cl, "commit")
	if r.Intn(4) == 0 {
		s.op(cl, "reopen")
	}
	observe := func() {
		s.op(cl, "names r /")
		s.op(cl, "names r %s", pTop)
		s.op(cl, "has r %s", pSub)
		s.op(cl, "hasf r %s", pSub)
		s.op(cl, "has r %s", pNew)
		s.op(cl, "prefix r %s -", pSub)
		s.op(cl, "iter r %s - - a", pTop)
		s.op(cl, "get r %s %s", pSub, hexTok(keys[r.Intn(len(keys))]))
		s.op(cl, "iterp r %s %s a", pSub, hexTok(keys[0][:1]))
	}
	s.op(cl, "begin %s", pick(r, "r", "v"))
	if r.Intn(3) > 0 {
		observe()
	}
	for round := 1 + r.Intn(2); round > 0; round-- {
		s.op(cl, "begin %s", pick(r, "w", "u"))
		for i := 2 + r.Intn(4); i > 0; i-- {
			k := keys[r.Intn(len(keys))]
			switch r.Intn(7) {
			case 0, 1:
				s.op(cl, "put w %s %s %02x", pSub, hexTok(k), 0x80+r.Intn(100))
			case 2:
				s.op(cl, "del w %s %s", pSub, hexTok(k))
			case 3:
				s.op(cl, "put w %s %s ee", pSub, hexTok(s.randKeyNonEmpty()))
			case 4:
				s.op(cl, "clear w %s", pick(r, pSub, pTop))
			case 5:
				s.op(cl, "delb w %s", pSub)
				if r.Intn(2) == 0 {
					s.op(cl, "create w %s", pSub)
				}
			default:
				s.op(cl, "create w %s", pNew)
				s.op(cl, "put w %s %s dd", pNew, hexTok(k))
			}
		}
		if r.Intn(3) == 0 {
			observe() // the writer is still open: nothing of it is visible either
		}
		if r.Intn(5) > 0 {
			s.op(cl, "commit")
		} else {
			s.op(cl, "rollback")
		}
		observe()
	}
	s.op(cl, "endr")
	s.op(cl, "begin %s", pick(r, "r", "v"))
	observe()
	s.op(cl, "endr")
	s.op(cl, "raw")
}

func (s *kvGenState) randKeyNonEmpty() []byte {
	for {
		if k := s.randKey(); len(k) > 0 {
			return k
		}
	}
}

// ffPrefixIter: prefix/range iteration with a prefix ending in 0xff bytes; the bucket holds keys just
// above the true successor of the prefix (succ, succ+0x00, succ+..., succ+0xff) which a wrong limit
// (0xff bytes not truncated, off-by-one carry) would leak into the result.
func (s *kvGenState) ffPrefixIter() {
	g := s.g
	r := g.Rng
	g.Reset()
	s.committed = map[string]bool{}
	s.working = nil
	s.wOpen, s.rOpen = false, false
	base := []byte(pick(r, "a", "1", "\x00", "_", "a1", "\xfe", "b_"))
	pre := append([]byte{}, base...)
	for k := 1 + r.Intn(2); k > 0; k-- {
		pre = append(pre, 0xff)
	}
	succ := append([]byte{}, base...)
	succ[len(succ)-1]++
	bucket := kvPathTok([]string{kvGoodNames[r.Intn(5)]})
	s.op("ff-prefix-iter", "begin w")
	s.op("ff-prefix-iter", "create w %s", bucket)
	keys := [][]byte{pre, append(append([]byte{}, pre...), 'x'), append(append([]byte{}, pre...), 0xff), base, succ,
		append(append([]byte{}, succ...), 0x00), append(append([]byte{}, succ...), '1'),
		append(append([]byte{}, succ...), 0xfe, 0xff), append(append([]byte{}, succ...), 0xff),
		append(append([]byte{}, succ...), 0xff, 0x00)}
	r.Shuffle(len(keys), func(i, j int) { keys[i], keys[j] = keys[j], keys[i] })
	for i, k := range keys {
		if r.Intn(5) > 0 {
			s.op("ff-prefix-iter", "put w %s %s %02x", bucket, hexTok(k), 0x10+i)
		}
	}
	if r.Intn(3) > 0 {
		s.op("ff-prefix-iter", "commit")
		s.op("ff-prefix-iter", "begin w")
	}
	s.op("ff-prefix-iter", "prefix w %s %s", bucket, hexTok(pre))
	s.op("ff-prefix-iter", "commit")
	if r.Intn(3) == 0 {
		s.op("ff-prefix-iter", "reopen")
	}
	s.op("ff-prefix-iter", "begin r")
	s.op("ff-prefix-iter", "iterp r %s %s a", bucket, hexTok(pre))
	s.op("ff-prefix-iter", "prefix r %s %s", bucket, hexTok(pre))
	s.op("ff-prefix-iter", "iterp r %s %s s%s,a", bucket, hexTok(pre), hexTok(pre))
	s.op("ff-prefix-iter", "iter r %s %s - a", bucket, hexTok(pre))
	s.op("ff-prefix-iter", "endr")
}

func genKv(g *Gen) {
	s := &kvGenState{g: g}
	r := g.Rng
	nHist := g.Scale(500, 50000)
	for i := g.Scale(60, 3000); i > 0; i-- {
		s.siblingPrefix()
		s.ffPrefixIter()
		s.readerSpansCommit()
	}
	// concurrent writers (a database of their own; state-independent): serialisation of write transactions
	for i := g.Scale(6, 60); i > 0; i-- {
		g.Reset()
		g.Op("concurrent-writers", "conc %d %d", 2+r.Intn(3), g.Scale(150, 600)+r.Intn(50))
	}
	for i := 0; i < nHist; i++ {
		maxOps := 60
		if !g.Quick() {
			switch x := r.Intn(10); {
			case x < 6:
				maxOps = 20 + r.Intn(41)
			case x < 9:
				maxOps = 60 + r.Intn(91)
			default:
				maxOps = 150 + r.Intn(151)
			}
		} else {
			maxOps = 15 + r.Intn(46)
		}
		s.history(maxOps)
		g.Stats[fmt.Sprintf("history-len<=%d", ((s.n+49)/50)*50)]++
	}
	for i := g.Scale(6, 200); i > 0; i-- {
		s.deepHistory()
	}
	s.exhaustive(g.Scale(2, 5))
	// round 4: kept bucket handles, BucketMeta / FetchBucket cache, read transaction used after its end
	for i := g.Scale(40, 1000); i > 0; i-- {
		s.fetchCacheScenario()
	}
	for i := g.Scale(250, 8000); i > 0; i-- {
		s.handleHistory()
	}
	s.exhaustiveHandles(g.Scale(2, 4))
}
