package main

// Engine fault (C18): a failed storage operation can be retried and leaves no trace.
//
// The wallet database of the WEnv is wrapped by faultDB. Besides the plain ops of the crash engine:
//
//   sweep K T <op …>   run <op> with the storage call number j failing, for j = 0,1,2,… and each j
//                      repeated K times (K = 1: single fault, K = 3: the same call fails three times
//                      in a row), until an attempt gets through without reaching call j — that last
//                      attempt is the retry "once storage works again". After EVERY failed attempt:
//                      the wallet directory must be byte-for-byte unchanged in size (no batch was
//                      written: single-Update ops only) and every observation (synced-to and the
//                      volatile tip copy, pending set, wallet list, and for each ready wallet balance,
//                      coins, addresses, deposits) must be what it was before the op. T = 1 adds the
//                      fault-free TWIN: the directory is forked before the sweep, a second
//                      WalletManager on the fork runs the op once without faults, and result (for
//                      `addr`: the very address string, i.e. the derivation index) and observations
//                      must equal those of the swept wallet.
//                      Output: "<result of the final attempt> clean" or "… dirty <first problem>".
//   skip S <op …>      one attempt with a fault at S = begin | commit | <j>, NO retry of the op: the
//                      follower's own retry is the next notification (which takes the reorg path).
//                      Output "err clean" (or dirty …).
//
// The model answers a sweep with the fault-free result plus "clean" (theorems fault_restores_coh and
// retry_equiv); the ops after it compare the state three-way as usual.

import (
	"fmt"
	"os"
	"sort"
	"strconv"
	"strings"

	"github.com/massnetorg/mass-core/massutil"
	"massnet.org/mass-wallet/config"
	"massnet.org/mass-wallet/masswallet"
	mwdb "massnet.org/mass-wallet/masswallet/db"
)

func init() {
	register(&Engine{Name: "fault", Gen: genFault, NewExec: func() Exec { return &faultExec{} }})
}

type faultExec struct {
	e     *WEnv
	fdb   *faultDB
	nFork int
}

func (x *faultExec) wrap(db mwdb.DB) mwdb.DB {
	x.fdb = newFaultDB(db, x.e.wdbPath)
	return x.fdb
}

func (x *faultExec) env() *WEnv {
	if x.e == nil {
		x.e = NewWEnv()
		x.e.wrapDB = x.wrap
		x.e.reset()
	}
	return x.e
}
func (x *faultExec) Reset() {
	if x.e != nil {
		delete(importTab, x.e)
		x.e.reset()
	}
}
func (x *faultExec) Close() {
	if x.e != nil {
		closeEnv(x.e)
	}
}

// dirStamp: names and sizes of the files of the wallet directory (the LevelDB journal is append
// only: any batch write changes a size).
func dirStamp(dir string) string {
	ents, err := os.ReadDir(dir)
	if err != nil {
		return "unreadable"
	}
	var items []string
	for _, en := range ents {
		if en.Name() == "LOCK" || en.Name() == "LOG" || en.Name() == "LOG.old" {
			continue
		}
		sz := int64(-1)
		if fi, err := en.Info(); err == nil {
			sz = fi.Size()
		}
		items = append(items, fmt.Sprintf("%s:%d", en.Name(), sz))
	}
	sort.Strings(items)
	return strings.Join(items, ",")
}

// observeAll: every observation of the wallet (names sorted); the wallet in use is restored.
func observeAll(e *WEnv) []string {
	cur := e.wm.CurrentWallet()
	out := []string{"synced=" + e.Synced(), "pend=" + e.Pend(), "wallets=" + e.Wallets()}
	var names []string
	for n := range e.wallets {
		names = append(names, n)
	}
	sort.Strings(names)
	for _, w := range names {
		if walletStatusOf(e, w) != "ready" {
			continue
		}
		out = append(out, "bal:"+w+"="+e.Balance(w, 1), "utxos:"+w+"="+e.Utxos(w), "addrs:"+w+"="+e.Addrs(w),
			"sbu:"+w+"="+e.Sbu(w), "shist:"+w+"="+e.StakingHistory(w, false, false), "bhist:"+w+"="+e.BindingHistory(w, false, false),
			"shistp:"+w+"="+e.StakingHistory(w, false, true), "bhistp:"+w+"="+e.BindingHistory(w, false, true))
	}
	if cur != "" && e.wm.CurrentWallet() != cur {
		e.wm.UseWallet(cur)
	} else if cur == "" && e.wm.CurrentWallet() != "" {
		// nothing was in use before: there is no API to deselect; harmless for the ops (they Use first)
	}
	return out
}

// keyHealth: every ready wallet's cached keystore must still accept its private passphrase (a cache
// entry loaded without its encrypted keys makes unlock / sign / remove fail until restart).
func keyHealth(e *WEnv) string {
	var names []string
	for n := range e.wallets {
		names = append(names, n)
	}
	sort.Strings(names)
	for _, w := range names {
		if walletStatusOf(e, w) != "ready" {
			continue
		}
		if err := e.wm.VerifKeystoreManager().CheckPrivPassphrase(e.wallets[w], []byte(privPass(w))); err != nil {
			return w
		}
	}
	return ""
}

func firstDiff(a, b []string) string {
	for i := range a {
		if i >= len(b) {
			return "missing:" + a[i]
		}
		if a[i] != b[i] {
			return strings.ReplaceAll(a[i]+"=>"+b[i], " ", "_")
		}
	}
	if len(b) > len(a) {
		return "extra:" + strings.ReplaceAll(b[len(a)], " ", "_")
	}
	return ""
}

func singleUpdateOp(a []string) bool {
	switch a[0] {
	case "wallet", "addr", "notify", "recvtx", "remove", "import", "importstep":
		return true
	}
	return false // removerun, boot, restart: several commits
}

// anonWallets: the wallet list with names replaced (a twin creates a wallet with another seed)
func anonWallets(s string) string {
	if s == "-" || s == "err" {
		return s
	}
	var st []string
	for _, it := range strings.Split(s, ",") {
		if i := strings.LastIndex(it, ":"); i >= 0 {
			st = append(st, it[i+1:])
		}
	}
	sort.Strings(st)
	return strings.Join(st, ",")
}

type twinRes struct {
	out  string
	obs  []string
	addr string
}

// runTwin forks the wallet directory, opens a second WalletManager on the fork (same node) and runs
// the op once, fault-free.
func (x *faultExec) runTwin(a []string) (*twinRes, error) {
	e := x.e
	x.nFork++
	d := fmt.Sprintf("%s-twin-%d", e.wdbPath, x.nFork)
	if err := forkDir(e.wdbPath, d); err != nil {
		return nil, err
	}
	defer os.RemoveAll(d)
	db, err := mwdb.OpenDB("leveldb", d)
	if err != nil {
		return nil, err
	}
	defer db.Close()
	wm, err := masswallet.NewWalletManager(e.srv, db, e.cfg, config.ChainParams, pubPass)
	if err != nil {
		return nil, err
	}
	t := *e // shallow copy: the symbol tables are shared …
	t.wm, t.wdb, t.wrapDB = wm, db, nil
	s := snapSyms(e) // … except those an op may extend
	s.install(&t)
	if cur := e.wm.CurrentWallet(); cur != "" {
		wm.UseWallet(cur)
	}
	r := &twinRes{}
	r.out = persistOp(&t, a)
	if a[0] == "addr" && r.out == "ok" {
		if ai, ok := t.addrs[a[2]]; ok {
			r.addr = ai.enc
		}
	}
	r.obs = observeAll(&t)
	delete(importTab, &t)
	return r, nil
}

func (x *faultExec) sweep(k int, twin bool, a []string) string {
	e := x.e
	var tw *twinRes
	if twin {
		var err error
		tw, err = x.runTwin(a)
		if err != nil {
			return "twin-failed"
		}
	}
	base := observeAll(e)
	stamp := dirStamp(e.wdbPath)
	dirty := ""
	result := ""
	single := singleUpdateOp(a)
	for j := 0; ; j++ {
		done := false
		for rep := 0; rep < k; rep++ {
			x.fdb.arm(j)
			lastQueuedTasks = 0
			out := persistOp(e, a)
			hit, kind, _ := x.fdb.disarm()
			if !hit {
				result, done = out, true
				break
			}
			faultStats[kind]++
			if out != "err" {
				// the op reports success although a storage call failed: it must then have completed
				faultStats["swallowed-"+kind]++
				if verifDebug {
					fmt.Fprintf(os.Stderr, "  [swallowed] %s call %d (%s) -> %s\n%s\n", strings.Join(a, " "), j, kind, out, x.fdb.hitStack)
				}
				if dirty == "" {
					dirty = fmt.Sprintf("fault-ignored@%d:%s", j, kind)
				}
				result, done = out, true
				break
			}
			if dirty == "" {
				if single {
					if s := dirStamp(e.wdbPath); s != stamp {
						dirty = fmt.Sprintf("store-written@%d:%s", j, kind)
					}
				}
				if d := firstDiff(base, observeAll(e)); d != "" && dirty == "" && single {
					dirty = fmt.Sprintf("obs@%d:%s:%s", j, kind, d)
				}
				// volatile trace of a failed attempt that no query shows: a task handed to the worker although
				// the operation failed (e.g. PushRemove / PushImport before the Update has committed)
				if lastQueuedTasks != 0 && dirty == "" {
					dirty = fmt.Sprintf("task-queued@%d:%s", j, kind)
				}
			}
		}
		if done {
			break
		}
		if j > 20000 {
			return "runaway"
		}
	}
	if dirty == "" {
		if w := keyHealth(e); w != "" {
			dirty = "key-cache-damaged:" + w
		}
	}
	if tw != nil && dirty == "" {
		if tw.out != result && a[0] != "recvtx" {
			dirty = "twin-result:" + tw.out
		} else if a[0] == "addr" && result == "ok" {
			if ai, ok := e.addrs[a[2]]; !ok || ai.enc != tw.addr {
				dirty = "twin-address-differs(skipped-or-reused-index)"
			}
		}
		if dirty == "" {
			mo, to := observeAll(e), tw.obs
			if a[0] == "wallet" || a[0] == "import" {
				for i := range mo {
					if strings.HasPrefix(mo[i], "wallets=") {
						mo[i] = "wallets=" + anonWallets(mo[i][8:])
					}
				}
				for i := range to {
					if strings.HasPrefix(to[i], "wallets=") {
						to[i] = "wallets=" + anonWallets(to[i][8:])
					}
				}
				// per-wallet lines of the freshly created wallet carry its (different) name: compare the common part
				n := 3
				mo, to = mo[:n], to[:n]
			}
			if d := firstDiff(to, mo); d != "" {
				dirty = "twin-obs:" + d
			}
		}
	}
	if dirty != "" {
		return result + " dirty " + dirty
	}
	return result + " clean"
}

func (x *faultExec) skip(sel string, a []string) string {
	e := x.e
	base := observeAll(e)
	stamp := dirStamp(e.wdbPath)
	switch sel {
	case "begin":
		x.fdb.arm(0)
	case "commit":
		x.fdb.armKind("commit", 0)
	default:
		j, err := strconv.Atoi(sel)
		if err != nil {
			return "bad-op"
		}
		x.fdb.arm(j)
	}
	out := persistOp(e, a)
	hit, kind, _ := x.fdb.disarm()
	if hit {
		faultStats["skip-"+kind]++
	} else if out == "ok" {
		return "nofault"
	}
	if s := dirStamp(e.wdbPath); s != stamp {
		return out + " dirty store-written:" + kind
	}
	if d := firstDiff(base, observeAll(e)); d != "" {
		return out + " dirty obs:" + kind + ":" + d
	}
	return out + " clean"
}

var faultStats = map[string]int{}

func (x *faultExec) Exec(a []string) string {
	x.env()
	if len(a) == 0 {
		return "bad-op"
	}
	switch {
	case a[0] == "sweep" && len(a) >= 4:
		k, err := strconv.Atoi(a[1])
		if err != nil || k < 1 || k > 5 {
			return "bad-op"
		}
		return x.sweep(k, a[2] == "1", a[3:])
	case a[0] == "skip" && len(a) >= 3:
		return x.skip(a[1], a[2:])
	case a[0] == "faultstats" && len(a) == 1:
		if verifDebug {
			for _, k := range faultSortedKeys(faultStats) {
				fmt.Fprintf(os.Stderr, "  [faults] %s=%d\n", k, faultStats[k])
			}
		}
		return "ok"
	}
	out := persistOp(x.e, a)
	if a[0] == "rec" {
		return "ok" // histories with import / removal: observations are compared inside the sweeps (twin) only
	}
	if (a[0] == "importstep" || a[0] == "removerun") && out == "noop" {
		return "ok"
	}
	return out
}

var _ = massutil.AddressClassWitnessV0
