package main

// Engine proto (C20), experiment `fullq`: the task queue filled to the API's accept limit while the task the
// worker holds has to go back to the queue; then EVERY accepted task must finish.
//
//	pfill K TAG                    (before start) K empty blocks TAG.1.. on the node's tip, each announced to the follower -> ok
//	fullq I1;I2;…;In retry:B       the node has detached its tip B (op `detach`) and the follower has not been told: an import
//	                               batch ends with "retry later" (ErrImportingContinuable) and the task is re-queued
//	fullq I1;I2;…;In batches       the follower is more than one batch (1000 blocks) above the import cursor: the first batch
//	                               of a rescan ends "not finished" and the task is re-queued
//	   1. ImportWalletWithMnemonic(I1) through the real API; the worker takes the task out of the queue and is HELD at
//	      the BeginTx of its batch (inside suspend..resume, the follower parked in its wait): queue empty, one task in hand
//	   2. ImportWalletWithMnemonic(I2..In): accepted while len(queue) < MaxWaitingTaskNum, then refused (ErrTooManyTask)
//	   3. the held batch is released and the worker is held again at the BeginTx of the NEXT task's batch: by then the
//	      first task has been put back (PushImport) with MaxWaitingTaskNum tasks waiting
//	   4. (retry) the node re-attaches B; the worker is released
//	   5. every accepted wallet must become ready within fullqWait
//	-> acc=I1,… rej=I5,… finished | HANG acc=… rej=… unfinished=I1,… | rejected | nogate | bad-op
//
// The Lean driver predicts the outcome by running the same path on the protocol model (MW.Drv.Proto.fullQueue:
// aCheck/aPush per call, wCommitI, res, wPush | wPushDrop) under the configuration of the working tree; the
// specification is "every accepted task finishes" (MW.Props.C20.queue_never_drops: the drop branch of a push is
// never enabled when busy < cap).

import (
	"fmt"
	"os"
	"strings"
	"time"

	"massnet.org/mass-wallet/masswallet"
	"massnet.org/mass-wallet/masswallet/keystore"
)

const fullqWait = 12 * time.Second

// rearm releases the goroutine held at the current point and, atomically with that, arms the gate for the
// k-th next matching call (the released goroutine cannot slip through a point before the gate is armed again).
func (g *protoGate) rearm(role, kind string, k int) {
	g.mu.Lock()
	old := g.release
	g.armed, g.role, g.kind, g.k, g.count = true, role, kind, k, 0
	g.held = make(chan struct{})
	g.release = make(chan struct{})
	g.mu.Unlock()
	if old != nil {
		select {
		case <-old:
		default:
			close(old)
		}
	}
}

// pfill: K empty blocks (a coinbase paying stranger X0) on the node's tip, announced to the (not yet started) follower.
func (x *protoExec) pfill(k int, tag string) string {
	e := x.e
	if x.started {
		return "bad-op"
	}
	for i := 1; i <= k; i++ {
		x.nfill++
		tn := fmt.Sprintf("c%s.%d", tag, i)
		bn := fmt.Sprintf("%s.%d", tag, i)
		if err := e.DefineTx(tn, []string{"cb"}, []string{"X0:1"}, uint64(1000000+x.nfill)); err != nil {
			return "err"
		}
		if err := e.DefineBlock(bn, e.Tip().name, []string{tn}); err != nil {
			return "err"
		}
		if err := e.Submit(bn); err != nil {
			return "err"
		}
		if err := e.wm.VerifProcessBlock(e.blocks[bn].msg); err != nil {
			return "err-notify"
		}
	}
	return "ok"
}

// apiImport: ImportWalletWithMnemonic of a throw-away wallet: "" accepted | busy | err
func (x *protoExec) apiImport(who string) string {
	_, err := x.e.wm.ImportWalletWithMnemonic(&keystore.WalletParams{
		Mnemonic: x.ext[who], PrivatePassphrase: []byte(privPass(who)), ExternalIndex: 1, InternalIndex: 0,
		AddressGapLimit: 3,
	})
	switch err {
	case nil:
		return ""
	case masswallet.ErrTooManyTask:
		return "busy"
	}
	if verifDebug {
		fmt.Fprintln(os.Stderr, "  [ImportWalletWithMnemonic]", err)
	}
	return "err"
}

func (x *protoExec) fullQueue(names []string, mode string) string {
	e := x.e
	if !x.started || len(names) < 2 {
		return "bad-op"
	}
	seen := map[string]bool{}
	for _, n := range names {
		if _, ok := x.ext[n]; !ok || seen[n] || x.imported[n] {
			return "bad-op"
		}
		seen[n] = true
	}
	h, _ := e.wm.VerifBestBlock()
	reblk := ""
	switch {
	case strings.HasPrefix(mode, "retry:"):
		// the follower stands on B, the node has detached it
		reblk = mode[len("retry:"):]
		bi, ok := e.blocks[reblk]
		if !ok || bi.prev != e.Tip().name || bi.height != h {
			return "bad-op"
		}
	case mode == "batches":
		if h <= 1000 || int(h) != len(e.chain)-1 {
			return "bad-op"
		}
	default:
		return "bad-op"
	}
	// 1. the first import: taken by the worker, held inside its first database step
	x.g.arm("worker", "begin", 1)
	switch x.apiImport(names[0]) {
	case "":
	case "busy":
		x.g.open()
		return "rejected"
	default:
		x.g.open()
		return "err"
	}
	x.imported[names[0]] = true
	if !x.g.waitHeld(6 * time.Second) {
		x.g.open()
		return "nogate"
	}
	// 2. the API fills the queue up to its accept limit
	acc, rej := []string{names[0]}, []string{}
	for _, n := range names[1:] {
		switch x.apiImport(n) {
		case "":
			acc = append(acc, n)
			x.imported[n] = true
		case "busy":
			rej = append(rej, n)
		default:
			x.g.open()
			return "err"
		}
	}
	// 3. the batch in hand ends unfinished; the worker is held again inside the next task's batch, i.e. after it has
	// put the first task back
	x.g.rearm("worker", "begin", 1)
	x.g.waitHeld(6 * time.Second)
	// 4. the node is back on the follower's chain
	if reblk != "" {
		if err := e.Submit(reblk); err != nil {
			x.g.open()
			return "err-submit"
		}
	}
	x.g.open()
	// 5. every accepted task finishes
	out := "acc=" + strings.Join(acc, ",") + " rej=" + joinOrDash(rej)
	deadline := time.Now().Add(fullqWait)
	for {
		st := map[string]string{}
		s := e.Wallets()
		for _, it := range strings.Split(s, ",") {
			if p := strings.SplitN(it, ":", 2); len(p) == 2 {
				st[p[0]] = p[1]
			}
		}
		var unfinished []string
		for _, n := range acc {
			if s == "err" || st[n] != "ready" {
				unfinished = append(unfinished, n)
			}
		}
		if len(unfinished) == 0 {
			return out + " finished"
		}
		if time.Now().After(deadline) {
			x.dead = true
			if verifDebug {
				_, _, nt := e.wm.VerifQueueLens()
				fmt.Fprintln(os.Stderr, "  [fullq] wallets:", s, "tasks still queued:", nt)
			}
			return "HANG " + out + " unfinished=" + strings.Join(unfinished, ",")
		}
		time.Sleep(5 * time.Millisecond)
	}
}

func joinOrDash(a []string) string {
	if len(a) == 0 {
		return "-"
	}
	return strings.Join(a, ",")
}

// ---------------------------------------------------------------- generator

// genProtoFullQueue: 1..3 wallets at start-up (the queue then has its minimum capacity MaxWaitingTaskNum+1), one more
// throw-away wallet than the API can accept, a short chain paying them; `retry`: the node detaches its tip behind the
// running follower's back; `batches`: more than 1000 blocks below the import moment.
func genProtoFullQueue(g *Gen, mode string) {
	l := newLedGen(g, "proto")
	l.g.Reset()
	l.op("params", "params 2 3")
	nW := 1 + g.Rng.Intn(3)
	for i := 1; i <= nW; i++ {
		l.op("wallet", "wallet W%d", i)
		l.op("addr", "addr W%d A%d std", i, i)
	}
	nI := 5 + g.Rng.Intn(2) // MaxWaitingTaskNum + 1 are accepted, the others refused
	var names []string
	for i := 1; i <= nI; i++ {
		l.op("ext", "ext I%d", i)
		names = append(names, fmt.Sprintf("I%d", i))
	}
	nBlk := 3 + g.Rng.Intn(3)
	prev := "G"
	for i := 1; i <= nBlk; i++ {
		l.op("tx", "tx C%d %d cb A1:%d;I%d:%d;I%d:%d", i, i, 100+g.Rng.Intn(100), 1+i%nI, 50+g.Rng.Intn(50), 1+(i+2)%nI, 10+g.Rng.Intn(20))
		l.op("block", "block B%d %s C%d", i, prev, i)
		l.op("submit", "submit B%d", i)
		l.op("notify", "notify B%d", i)
		prev = fmt.Sprintf("B%d", i)
	}
	if mode == "batches" {
		l.op("pfill", "pfill %d F1", 1000+g.Rng.Intn(12))
	}
	l.op("q-wallets", "wallets")
	l.op("start", "start")
	if mode == "retry" {
		l.op("detach", "detach")
		l.op("full-queue-requeue", "fullq %s retry:%s", strings.Join(names, ";"), prev)
		g.Stats["full-queue-requeue-retry"]++
	} else {
		l.op("full-queue-requeue", "fullq %s batches", strings.Join(names, ";"))
		g.Stats["full-queue-requeue-batches"]++
	}
	l.op("await", "await")
	l.op("stop", "stop")
}
