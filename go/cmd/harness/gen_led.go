package main

// Structured generator of chain histories for the ledger / handler engines: a small chain
// simulator that keeps, per block of the block TREE, the UTXO view of its branch, so that every
// generated block is a valid extension (the chain database refuses double spends), and produces
// node events (extend, reorganise to a longer fork), late notifications, unconfirmed
// transactions (chains, duplicates, conflicts), re-mined / dropped / double-spent rolled-back
// transactions, in-block spend chains, transactions shared by two wallets, staking and binding
// deposits and withdrawals, and non-template outputs.

import (
	"fmt"
	"math/rand"
	"sort"
	"strings"
)

type gCoin struct {
	tx     string
	idx    int
	amt    int64
	addr   string // address name
	cls    string // std | stk | bind | bind22 | raw
	frozen int64
	height int
	cb     bool
}

func (c gCoin) key() string { return fmt.Sprintf("%s:%d", c.tx, c.idx) }

type gTx struct {
	name string
	cb   bool
	ins  []gCoin
	outs []string // out specs
	line string
}

type gBlock struct {
	name   string
	parent string
	height int
	txs    []*gTx
	utxo   map[string]gCoin
}

type ledGen struct {
	g       *Gen
	r       *rand.Rand
	eng     string
	cbm     int
	minFr   int
	wallets []string
	addrs   map[string][]string // wallet -> address names
	owner   map[string]string   // address name -> wallet
	nAddr   int
	nTx     int
	nBlk    int
	nX      int
	blocks  map[string]*gBlock
	chain   []string // node best chain
	queue   []string // pending notifications (block names)
	pool    []*gTx   // unconfirmed transactions delivered to the wallet (or about to be)
	defined map[string]*gTx
	orphanT []*gTx // transactions of blocks that were reorganised away (candidates for re-mining)
	maxAddr int
	// C09 domain (see gen_led_c09.go): pool txs that were once invalid on the node's tip are not delivered
	// again; foreign coinbase outputs are spent only when buried deeper than any reorganisation reaches
	dead     map[string]bool
	maxReorg int
	// C01 (see gen_led_c01.go): the chain the wallet has synced, mirrored to count notification classes
	synced []string
	// > 0: the history lowers consensus.MASSIP0002WarmUpHeight to this value (op `warmup`): binding outputs at or above
	// it are spent under the MASSIP-2 sequence rule (C10 withdraw_sequence, C03 ScriptMASSip2)
	warm int
	// optional hook run on every transaction just before it is emitted (nil = none; set by the txb generator,
	// which must keep the amounts of a wallet's coins pairwise distinct: see txbGen.uniqAmounts)
	fixTx func(t *gTx)
}

func (l *ledGen) op(class, f string, a ...interface{}) { l.g.Op(class, f, a...) }

func (l *ledGen) tip() *gBlock { return l.blocks[l.chain[len(l.chain)-1]] }

func newLedGen(g *Gen, eng string) *ledGen {
	l := &ledGen{g: g, r: g.Rng, eng: eng, cbm: 4, minFr: 3, addrs: map[string][]string{}, owner: map[string]string{},
		blocks: map[string]*gBlock{}, defined: map[string]*gTx{}, maxAddr: 6, dead: map[string]bool{}, maxReorg: 8}
	l.blocks["G"] = &gBlock{name: "G", height: 0, utxo: map[string]gCoin{}}
	l.chain = []string{"G"}
	return l
}

func (l *ledGen) start(nWallets int) {
	l.g.Reset()
	l.op("params", "params %d %d", l.cbm, l.minFr)
	if l.warm > 0 {
		l.op("warmup", "warmup %d", l.warm)
	}
	for i := 1; i <= nWallets; i++ {
		w := fmt.Sprintf("W%d", i)
		l.wallets = append(l.wallets, w)
		l.op("wallet", "wallet %s", w)
		l.newAddr(w)
		if l.r.Intn(2) == 0 {
			l.newAddr(w)
		}
	}
}

func (l *ledGen) newAddr(w string) string {
	if len(l.addrs[w]) >= l.maxAddr {
		return l.addrs[w][l.r.Intn(len(l.addrs[w]))]
	}
	l.nAddr++
	a := fmt.Sprintf("A%d", l.nAddr)
	l.addrs[w] = append(l.addrs[w], a)
	l.owner[a] = w
	l.op("addr", "addr %s %s std", w, a)
	return a
}

func (l *ledGen) someAddr(w string) string {
	if l.r.Intn(6) == 0 {
		return l.newAddr(w)
	}
	as := l.addrs[w]
	return as[l.r.Intn(len(as))]
}

func (l *ledGen) stranger() string {
	if l.nX == 0 || l.r.Intn(3) == 0 {
		l.nX++
	}
	return fmt.Sprintf("X%d", 1+l.r.Intn(l.nX))
}

func (l *ledGen) anyDest() string {
	if l.r.Intn(3) > 0 {
		return l.someAddr(l.wallets[l.r.Intn(len(l.wallets))])
	}
	return l.stranger()
}

// spendableIn: may a block at height h spend coin c (consensus maturity rules)?
func (l *ledGen) spendableIn(c gCoin, h int) bool {
	if c.cls == "raw" || c.cls == "bind22" {
		return false
	}
	if c.cb && h-c.height < l.cbm {
		return false
	}
	if c.cls == "stk" && !(int64(c.height)+c.frozen < int64(h)) {
		return false
	}
	return true
}

func sortedCoins(u map[string]gCoin) []gCoin {
	keys := make([]string, 0, len(u))
	for k := range u {
		keys = append(keys, k)
	}
	sort.Strings(keys)
	out := make([]gCoin, 0, len(keys))
	for _, k := range keys {
		out = append(out, u[k])
	}
	return out
}

// makeTx builds a non-coinbase tx spending `ins`, with random outputs summing to at most the input value.
func (l *ledGen) makeTx(ins []gCoin, kind string) *gTx {
	l.nTx++
	t := &gTx{name: fmt.Sprintf("T%d", l.nTx), ins: ins}
	var total int64
	var inSpecs []string
	for _, c := range ins {
		total += c.amt
		spec := c.key()
		if c.cls == "stk" {
			spec += fmt.Sprintf(":%d", c.frozen+1)
		}
		inSpecs = append(inSpecs, spec)
	}
	fee := int64(l.r.Intn(3)) * 1000
	if fee > total {
		fee = 0
	}
	rest := total - fee
	addOut := func(spec string) { t.outs = append(t.outs, spec) }
	switch kind {
	case "stake":
		w := l.wallets[l.r.Intn(len(l.wallets))]
		amt := rest / 2
		addOut(fmt.Sprintf("%s:%d:stk:%d", l.someAddr(w), amt, l.minFr+l.r.Intn(3)))
		rest -= amt
	case "bind":
		w := l.wallets[l.r.Intn(len(l.wallets))]
		amt := rest / 2
		k := "bind"
		if l.r.Intn(4) == 0 {
			k = "bind22"
		}
		addOut(fmt.Sprintf("%s:%d:%s:%d", l.someAddr(w), amt, k, l.r.Intn(5)))
		rest -= amt
	case "raw":
		addOut(fmt.Sprintf("raw:%d:6a04deadbeef", int64(0)))
	}
	n := 1 + l.r.Intn(3)
	for i := 0; i < n && rest > 0; i++ {
		amt := rest
		if i < n-1 {
			amt = 1 + l.r.Int63n(rest)
		}
		dest := ""
		if kind == "foreign" { // pays strangers only
			dest = l.stranger()
		} else {
			dest = l.anyDest()
		}
		addOut(fmt.Sprintf("%s:%d", dest, amt))
		rest -= amt
	}
	if len(t.outs) == 0 {
		addOut(fmt.Sprintf("%s:%d", l.stranger(), int64(0)))
	}
	if (kind == "stake" || kind == "bind") && len(t.outs) > 1 && l.r.Intn(2) == 0 {
		// the deposit is not always output 0
		n := len(t.outs) - 1
		t.outs[0], t.outs[n] = t.outs[n], t.outs[0]
		l.g.Stats["tx-deposit-vout>0"]++
	}
	t.line = fmt.Sprintf("tx %s %d %s %s", t.name, l.nTx, strings.Join(inSpecs, ";"), strings.Join(t.outs, ";"))
	return t
}

func (l *ledGen) define(t *gTx) {
	if _, ok := l.defined[t.name]; ok {
		return
	}
	if l.fixTx != nil {
		l.fixTx(t)
	}
	l.defined[t.name] = t
	l.op("tx", "%s", t.line)
}

func outCoins(t *gTx, h int) []gCoin {
	var cs []gCoin
	for i, spec := range t.outs {
		p := strings.Split(spec, ":")
		c := gCoin{tx: t.name, idx: i, height: h, cb: t.cb, cls: "std"}
		if p[0] == "raw" {
			c.cls = "raw"
			fmt.Sscan(p[1], &c.amt)
		} else {
			c.addr = p[0]
			fmt.Sscan(p[1], &c.amt)
			if len(p) == 4 {
				c.cls = p[2]
				if c.cls == "stk" {
					fmt.Sscan(p[3], &c.frozen)
				}
			}
		}
		cs = append(cs, c)
	}
	return cs
}

func applyTx(u map[string]gCoin, t *gTx, h int) bool {
	for _, c := range t.ins {
		if _, ok := u[c.key()]; !ok {
			return false
		}
	}
	for _, c := range t.ins {
		delete(u, c.key())
	}
	for _, c := range outCoins(t, h) {
		u[c.key()] = c
	}
	return true
}

// pickCoins selects 1..2 spendable coins, preferring wallet-owned ones with probability pOwn.
func (l *ledGen) pickCoins(u map[string]gCoin, h int, wantCls string) []gCoin {
	var cand []gCoin
	for _, c := range sortedCoins(u) {
		if !l.spendableIn(c, h) || c.amt == 0 || l.reorgReachable(c, h) {
			continue
		}
		if wantCls != "" && c.cls != wantCls {
			continue
		}
		if wantCls == "" && (c.cls == "stk" || c.cls == "bind") && l.r.Intn(3) > 0 {
			continue
		}
		cand = append(cand, c)
	}
	if len(cand) == 0 {
		return nil
	}
	l.r.Shuffle(len(cand), func(i, j int) { cand[i], cand[j] = cand[j], cand[i] })
	// prefer coins owned by a wallet
	sort.SliceStable(cand, func(i, j int) bool {
		oi, oj := l.owner[cand[i].addr] != "", l.owner[cand[j].addr] != ""
		return oi && !oj && l.r.Intn(4) > 0
	})
	n := 1
	if len(cand) > 1 && l.r.Intn(3) == 0 {
		n = 2
	}
	// a transaction must not mix a binding input with binding outputs; keep classes simple
	return cand[:n]
}

// buildBlock creates a valid block on `parent`, possibly confirming pool / orphaned txs.
func (l *ledGen) buildBlock(parent string) *gBlock {
	pb := l.blocks[parent]
	l.nBlk++
	b := &gBlock{name: fmt.Sprintf("B%d", l.nBlk), parent: parent, height: pb.height + 1, utxo: map[string]gCoin{}}
	for k, v := range pb.utxo {
		b.utxo[k] = v
	}
	// coinbase
	l.nTx++
	cb := &gTx{name: fmt.Sprintf("C%d", l.nTx), cb: true}
	ncb := 1 + l.r.Intn(2)
	for i := 0; i < ncb; i++ {
		cb.outs = append(cb.outs, fmt.Sprintf("%s:%d", l.anyDest(), (100+l.r.Int63n(900))*1000000))
	}
	if spec := l.cbDeposit(); spec != "" { // C10/C01: the miner stakes / binds straight from the coinbase
		cb.outs = append(cb.outs, spec)
	}
	cb.line = fmt.Sprintf("tx %s %d cb %s", cb.name, l.nTx, strings.Join(cb.outs, ";"))
	l.define(cb)
	applyTx(b.utxo, cb, b.height)
	b.txs = append(b.txs, cb)
	// candidates: pool txs, orphaned txs (re-mining), fresh txs, conflicts
	ntx := l.r.Intn(4)
	for i := 0; i < ntx; i++ {
		switch k := l.r.Intn(10); {
		case k < 2 && len(l.pool) > 0: // confirm a pending tx
			t := l.pool[l.r.Intn(len(l.pool))]
			if applyTx(b.utxo, t, b.height) {
				b.txs = append(b.txs, t)
				l.g.Stats["blk-confirms-pending"]++
			}
		case k < 3 && len(l.pool) > 0: // double-spend a pending tx
			t := l.pool[l.r.Intn(len(l.pool))]
			c := t.ins[l.r.Intn(len(t.ins))]
			if l.r.Intn(2) == 0 { // prefer a conflict through a coin that is not a wallet's
				if ft, fc, ok := l.foreignSpend(b); ok {
					t, c = ft, fc
				}
			}
			if _, ok := b.utxo[c.key()]; ok && l.spendableIn(c, b.height) {
				kind := ""
				if l.r.Intn(3) == 0 || (l.foreign(c) && l.r.Intn(2) == 0) {
					kind = "foreign"
				}
				ds := l.makeTx([]gCoin{c}, kind)
				l.define(ds)
				if applyTx(b.utxo, ds, b.height) {
					b.txs = append(b.txs, ds)
					l.g.Stats["blk-doublespends-pending"]++
					l.countDoubleSpend(t, c, ds)
				}
			}
		case k < 5 && len(l.orphanT) > 0: // re-mine a rolled-back tx
			t := l.orphanT[l.r.Intn(len(l.orphanT))]
			ok := true
			for _, c := range t.ins {
				if cc, in := b.utxo[c.key()]; !in || !l.spendableIn(cc, b.height) {
					ok = false
				}
			}
			already := false
			for _, x := range b.txs {
				if x.name == t.name {
					already = true
				}
			}
			if ok && !already && applyTx(b.utxo, t, b.height) {
				b.txs = append(b.txs, t)
				l.g.Stats["blk-remines-orphan"]++
			}
		default:
			kind := ""
			want := ""
			switch l.r.Intn(12) {
			case 0, 1:
				kind = "stake"
			case 2:
				kind = "bind"
			case 3:
				kind = "raw"
			case 4, 5:
				want = "stk"
			case 6:
				want = "bind"
			}
			ins := l.pickCoins(b.utxo, b.height, want)
			if ins == nil {
				continue
			}
			if kind == "bind" {
				for _, c := range ins {
					if c.cls == "bind" {
						kind = ""
					}
				}
			}
			t := l.makeTx(ins, kind)
			l.define(t)
			if applyTx(b.utxo, t, b.height) {
				b.txs = append(b.txs, t)
				l.g.Stats["blk-tx-"+kind+want]++
				// in-block spend chain
				if l.r.Intn(4) == 0 {
					oc := outCoins(t, b.height)
					c := oc[l.r.Intn(len(oc))]
					if l.spendableIn(c, b.height) && c.amt > 0 && c.cls == "std" {
						t2 := l.makeTx([]gCoin{c}, "")
						l.define(t2)
						if applyTx(b.utxo, t2, b.height) {
							b.txs = append(b.txs, t2)
							l.g.Stats["blk-inblock-chain"]++
						}
					}
				}
			}
		}
	}
	var names []string
	for _, t := range b.txs {
		names = append(names, t.name)
		l.countBlockTx(t)
	}
	// txs confirmed here leave the pool
	var np []*gTx
	for _, p := range l.pool {
		in := false
		for _, t := range b.txs {
			if t.name == p.name {
				in = true
			}
		}
		if !in {
			np = append(np, p)
		}
	}
	l.pool = np
	l.blocks[b.name] = b
	l.op("block", "block %s %s %s", b.name, parent, strings.Join(names, ";"))
	return b
}

func (l *ledGen) extend() {
	b := l.buildBlock(l.tip().name)
	l.op("submit", "submit %s", b.name)
	l.chain = append(l.chain, b.name)
	l.queue = append(l.queue, b.name)
	l.markDead()
}

func (l *ledGen) reorgTo(depth, extra int) {
	if depth >= len(l.chain) {
		depth = len(l.chain) - 1
	}
	if depth < 1 {
		l.extend()
		return
	}
	for i := 0; i < depth; i++ {
		ob := l.tip()
		l.countUndone(ob)
		for _, t := range ob.txs {
			if !t.cb {
				l.orphanT = append(l.orphanT, t)
				l.g.Stats["reorg-unconfirms-tx"]++
			}
		}
		l.op("detach", "detach")
		l.chain = l.chain[:len(l.chain)-1]
	}
	n := depth + extra
	for i := 0; i < n; i++ {
		b := l.buildBlock(l.tip().name)
		l.op("submit", "submit %s", b.name)
		l.chain = append(l.chain, b.name)
		l.queue = append(l.queue, b.name)
		l.markDead()
	}
	l.g.Stats[fmt.Sprintf("reorg-depth-%d", depth)]++
	if n >= 2 {
		l.g.Stats["reorg-connects>=2"]++
	}
}

func (l *ledGen) processOne() {
	if len(l.queue) == 0 {
		return
	}
	b := l.queue[0]
	l.queue = l.queue[1:]
	// a notification can be lost to a transient failure (the follower only logs it); the next one
	// then takes the reorg path and connects several blocks inside ONE database transaction
	if len(l.queue) > 0 && l.r.Intn(5) == 0 {
		l.g.Stats["notify-dropped"]++
		return
	}
	l.noteNotify(b)
	l.op("notify", "notify %s", b)
}

// recv delivers an unconfirmed transaction built on the node's current tip view.
func (l *ledGen) recv() {
	if l.g.Prop != "C09" && !l.walletOnBestChain() { // C01/C10 streams (irregular notifications): no deliveries while the wallet sits on a stale branch
		return
	}
	u := map[string]gCoin{}
	for k, v := range l.tip().utxo {
		u[k] = v
	}
	// pending chain: outputs of pool txs are spendable by further pending txs.
	// `live` = the pool txs that are still valid on the node's tip (the others were double-spent or
	// orphaned on this branch: a node validates what it relays, so they are not delivered again)
	var live []*gTx
	for _, p := range l.pool {
		if applyTx(u, p, l.tip().height+1) && !l.dead[p.name] {
			live = append(live, p)
		}
	}
	switch k := l.r.Intn(10); {
	case k == 0 && len(live) > 0: // duplicate delivery
		t := live[l.r.Intn(len(live))]
		l.op("recvtx-dup", "recvtx %s", t.name)
	case k == 1 && len(live) > 0: // conflicting pending tx (same input)
		t := live[l.r.Intn(len(live))]
		c := t.ins[l.r.Intn(len(t.ins))]
		ds := l.makeTx([]gCoin{c}, "")
		l.define(ds)
		l.pool = append(l.pool, ds) // a sibling of t: it may confirm, be double-spent or lose its sibling
		if len(t.ins) > 1 {
			l.g.Stats["recvtx-conflict-sibling"]++
		}
		l.op("recvtx-conflict", "recvtx %s", ds.name)
	default:
		ins := l.pickCoins(u, l.tip().height+1, "")
		if ins == nil {
			return
		}
		kind := ""
		if l.r.Intn(6) == 0 {
			kind = "stake"
		}
		t := l.makeTx(ins, kind)
		l.define(t)
		l.pool = append(l.pool, t)
		l.countRecv(t)
		l.op("recvtx", "recvtx %s", t.name)
	}
}

func (l *ledGen) observe(full bool) {
	l.op("q-synced", "synced")
	for _, w := range l.wallets {
		l.op("q-bal", "bal %s 1", w)
		l.op("q-utxos", "utxos %s", w)
		if full {
			l.op("q-addrs", "addrs %s", w)
			l.op("q-sbu", "sbu %s", w)
			if l.r.Intn(2) == 0 {
				l.op("q-bal-conf", "bal %s %d", w, 2+l.r.Intn(4))
			}
			l.op("q-shist", "shist %s %d", w, l.r.Intn(2))
			l.op("q-bhist", "bhist %s %d", w, l.r.Intn(2))
			l.op("q-hsbu", "hsbu %s", w)
			l.op("q-shistp", "shistp %s", w)
			l.op("q-bhistp", "bhistp %s", w)
		}
	}
	if full {
		l.op("q-pend", "pend")
		if l.g.Prop == "C10" || l.g.Prop == "C01" { // raw dump of the mined deposit history
			l.op("q-glog", "glog")
		}
		if l.g.Prop == "C09" { // raw dumps of the pending stores
			l.op("q-pins", "pins")
			l.op("q-pcred", "pcred")
			l.op("q-pgame", "pgame")
		}
	}
	// withdrawal / spend drafts built by the wallet: the sequence value of the input (C10)
	if len(l.queue) == 0 && l.r.Intn(3) == 0 {
		for _, c := range sortedCoins(l.tip().utxo) {
			w := l.owner[c.addr]
			if w == "" || c.amt < 1000000 || c.cls == "raw" {
				continue
			}
			if c.cls == "std" && l.r.Intn(6) > 0 {
				continue
			}
			lt := 0
			if l.r.Intn(2) == 0 {
				lt = 1 + l.r.Intn(500)
			}
			cl := c.cls
			if l.warm > 0 && c.height >= l.warm && (c.cls == "bind" || c.cls == "bind22") {
				cl += "-ip2" // MASSIP-2 branch of constructTxIn: sequence MASSIP0002BindingLockedPeriod
			}
			l.op("q-wseq-"+cl, "wseq %s %s %d", w, c.key(), lt)
			if l.r.Intn(2) == 0 {
				break
			}
		}
	}
}

func (l *ledGen) drain() {
	for len(l.queue) > 0 {
		l.processOne()
	}
}

func genLed(g *Gen) {
	genCodecInto(g) // byte-level tie of the bucket codecs (engine codec), part of C01 / C09 / C10
	nHist := g.Scale(120, 4000)
	for h := 0; h < nHist || (!g.Covered() && h < 6*nHist); h++ {
		if h%12 == 7 && (g.Prop == "C10" || g.Prop == "C01") { // stale wallet, same block-file offsets (gen_stale_same.go)
			genStaleSame(g)
			continue
		}
		l := newLedGen(g, "led")
		if g.Prop == "C10" && h%4 == 1 {
			l.warm = 2 + h/4%5 // every fourth C10 history runs with a MASSIP-2 warm-up height of 2..6
		}
		l.start(1 + g.Rng.Intn(3))
		steps := 12 + g.Rng.Intn(g.Scale(30, 70))
		lazy := g.Rng.Intn(3) == 0 // notifications processed late
		for s := 0; s < steps; s++ {
			// event mix per property: C09 stresses the pending set, C10 deposits, C01 forks
			wExt, wReorg, wRecv := 9, 12, 16
			switch g.Prop {
			case "C09":
				wExt, wReorg, wRecv = 6, 9, 17
			case "C10":
				wExt, wReorg, wRecv = 10, 13, 15
			}
			switch k := g.Rng.Intn(20); {
			case k < wExt:
				l.extend()
			case k < wReorg:
				l.reorgTo(1+g.Rng.Intn(g.Scale(4, 8)), 1+g.Rng.Intn(2))
			case k < wRecv:
				l.recv()
			case k < 17:
				l.newAddr(l.wallets[g.Rng.Intn(len(l.wallets))])
			case k == 17 && g.Prop == "C09" && s%4 == 3:
				// lagging wallet + delivery that conflicts with its stale chain, compared at the caught-up point
				l.staleConflict()
			case k >= 17 && k <= 18 && g.Prop != "C09" && lazy:
				// restart + catch-up by height, skipped notifications, duplicate notifications
				// (C09 keeps its volatile seen-set: no restarts there)
				l.disturb()
			default:
				l.processOne()
			}
			if !lazy || g.Rng.Intn(4) == 0 {
				l.drain()
				l.observe(g.Rng.Intn(3) == 0)
			} else if g.Rng.Intn(3) == 0 {
				l.processOne()
				l.observe(false)
			}
		}
		l.drain()
		l.observe(true)
	}
}
