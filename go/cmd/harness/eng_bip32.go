package main

// Engine bip32 (C14): hdkeychain.NewMaster / Child / Neuter / String / NewKeyFromString / ECPrivKey and
// mass-core base58, driven in-process.
//
// The Lean side never computes a hash or a curve operation.  Every op line carries, after its
// arguments, ORACLE tokens: true input->output facts about the primitives, each obtained by
// calling the primitive directly (crypto/hmac+sha512, crypto/sha256, x/crypto/ripemd160, btcec):
//
//	H=<key>:<data>:<out64>     HMAC-SHA512(key, data)
//	S=<data>:<out32>           SHA-256(data)
//	R=<data>:<out20>           RIPEMD-160(data)
//	G=<scalar>:<pub33>         compressed encoding of scalar*G   (btcec ScalarBaseMult)
//	A=<pub33>:<pub33>:<pub33>  compressed encoding of P+Q        (btcec Add)
//	P=<bytes>:<pub33|->        btcec.ParsePubKey: compressed encoding of the parsed point, "-" = rejected
//
// Which facts are supplied is decided by a reference walk written here over *recording*
// primitives (b32refKey): whatever it asks is recorded.  The reference walk is NOT the oracle of the
// check – the Lean SPEC recomputes padding, mod-n addition, depth, fingerprint slicing, child
// number, layout, checksum placement and base58 itself and only looks the primitives up.  A fact the
// Lean side needs but the harness did not supply yields a sentinel (0xEE…) and therefore a
// disagreement, never a silent pass.
//
// Ops (all stateless):
//
//	path  <seed> <i,i,...|->   NewMaster(seed) then Child(i)…  -> ok <xprv> <xpub> <ECPrivKey 32B hex> | err <kind>
//	xpath <str>  <i,i,...|->   NewKeyFromString(str) then Child(i)… -> ok <string> [<neutered string>] | err <kind>
//	parse <hex of the string's bytes>   NewKeyFromString -> ok <0|1 private> <String() again> | err <kind>
//	b58e  <bytes>              base58.Encode -> ok <string>
//	b58d  <hex of string>      base58.Decode -> ok <bytes>
import (
	"bytes"
	"crypto/hmac"
	"crypto/sha256"
	"crypto/sha512"
	"encoding/binary"
	"encoding/hex"
	"fmt"
	"math/big"
	"math/rand"
	"strconv"
	"strings"

	"github.com/btcsuite/btcd/btcec"
	"github.com/massnetorg/mass-core/config"
	"github.com/massnetorg/mass-core/massutil/base58"
	"golang.org/x/crypto/ripemd160"
	"massnet.org/mass-wallet/masswallet/keystore/hdkeychain"
)

func init() {
	register(&Engine{Name: "bip32", Gen: genBip32, NewExec: func() Exec { return stateless{execBip32} }})
}

// ---------------------------------------------------------------- executor (real code)

// b32aliasCheck: BIP-32's functions are pure, so a key OBJECT must keep its value whatever else is derived or serialised
// from it. Parse the string once, then, on that one object: serialise it, derive and serialise (and neuter) children at
// two sibling indexes, serialise the parent again, and walk the op's path again from the same object. Any difference is
// reported in the op's output (seed C14-4: String() built its result with append on a buffer shared between a parsed key
// and its children, so serialising a child overwrote the parent).
func b32aliasCheck(str string, idx []uint32, want string) string {
	p, err := hdkeychain.NewKeyFromString(str)
	if err != nil {
		return ""
	}
	before := p.String()
	sib := []uint32{0, 1}
	if len(idx) > 0 {
		sib = []uint32{idx[0], idx[0] ^ 1}
	}
	for _, i := range sib {
		c, err := p.Child(i)
		if err != nil {
			continue
		}
		_ = c.String()
		if c.IsPrivate() {
			if n, err := c.Neuter(); err == nil {
				_ = n.String()
			}
		}
		if g, err := c.Child(0); err == nil {
			_ = g.String()
		}
	}
	if p.IsPrivate() {
		if n, err := p.Neuter(); err == nil {
			_ = n.String()
		}
	}
	if after := p.String(); after != before {
		return "ALIAS:parent-changed"
	}
	// the same for every object met on the way: the neutered parent and the (neutered) children must keep their own
	// serialisation, depth and parent fingerprint while children are derived FROM them (seed C14-5: Neuter laid the key
	// and the fingerprint out in one buffer and Child appended the index to the key slice of its receiver)
	var objs []*hdkeychain.ExtendedKey
	if p.IsPrivate() {
		if n, err := p.Neuter(); err == nil {
			objs = append(objs, n)
		}
	}
	for _, i := range sib {
		if c, err := p.Child(i); err == nil {
			objs = append(objs, c)
			if c.IsPrivate() {
				if n, err := c.Neuter(); err == nil {
					objs = append(objs, n)
				}
			}
		}
	}
	for _, o := range objs {
		s0, fp0, d0 := o.String(), o.ParentFingerprint(), o.Depth()
		for _, i := range []uint32{0, 1, 7, hdkeychain.HardenedKeyStart} {
			if c, err := o.Child(i); err == nil {
				_ = c.String()
			}
		}
		if o.String() != s0 || o.ParentFingerprint() != fp0 || o.Depth() != d0 {
			return "ALIAS:object-changed-by-deriving-from-it"
		}
		// … and what is derived from an object must not depend on what was derived from it BEFORE: the children of `o`
		// (which has just derived 0, 1, 7 and a hardened child) equal the children of a fresh parse of its string
		// (seed C14-6: Child kept its HMAC input in a per-key buffer; a hardened derivation after a non-hardened one
		// hashed a stale first byte)
		if fresh, err := hdkeychain.NewKeyFromString(s0); err == nil {
			for _, i := range []uint32{hdkeychain.HardenedKeyStart, 3, hdkeychain.HardenedKeyStart + 1} {
				c1, e1 := o.Child(i)
				c2, e2 := fresh.Child(i)
				if (e1 == nil) != (e2 == nil) || (e1 == nil && c1.String() != c2.String()) {
					return "ALIAS:child-depends-on-earlier-derivations"
				}
				fresh, _ = hdkeychain.NewKeyFromString(s0)
				if fresh == nil {
					break
				}
			}
		}
	}
	k := p
	for _, i := range idx {
		if k, err = k.Child(i); err != nil {
			return "ALIAS:rederive-" + bip32Err(err)
		}
	}
	if k.String() != want {
		return "ALIAS:rederived-differs"
	}
	return ""
}

func bip32Err(err error) string {
	switch err {
	case hdkeychain.ErrInvalidSeedLen:
		return "err seedlen"
	case hdkeychain.ErrUnusableSeed:
		return "err unusable"
	case hdkeychain.ErrInvalidChild:
		return "err invalid-child"
	case hdkeychain.ErrDeriveHardFromPublic:
		return "err hard-from-pub"
	case hdkeychain.ErrDeriveBeyondMaxDepth:
		return "err depth"
	case hdkeychain.ErrInvalidKeyLen:
		return "err len"
	case hdkeychain.ErrBadChecksum:
		return "err checksum"
	case config.ErrUnknownHDKeyID:
		return "err version"
	}
	// everything else on these paths comes out of btcec.ParsePubKey
	return "err point"
}

func b32parseIdx(s string) ([]uint32, bool) {
	if s == "-" {
		return nil, true
	}
	var out []uint32
	for _, p := range strings.Split(s, ",") {
		v, err := strconv.ParseUint(p, 10, 32)
		if err != nil {
			return nil, false
		}
		out = append(out, uint32(v))
	}
	return out, true
}

func execBip32(a []string) string {
	// drop oracle tokens: the implementation computes its own cryptography
	n := len(a)
	for i, t := range a {
		if len(t) > 2 && t[1] == '=' {
			n = i
			break
		}
	}
	a = a[:n]
	switch {
	case len(a) == 3 && a[0] == "path":
		seed, ok := unhexTok(a[1])
		idx, ok2 := b32parseIdx(a[2])
		if !ok || !ok2 {
			return "bad-op"
		}
		k, err := hdkeychain.NewMaster(seed, &config.ChainParams)
		if err != nil {
			return bip32Err(err)
		}
		for _, i := range idx {
			if k, err = k.Child(i); err != nil {
				return bip32Err(err)
			}
		}
		pub, err := k.Neuter()
		if err != nil {
			return bip32Err(err)
		}
		ec, err := k.ECPrivKey()
		if err != nil {
			return "err not-private"
		}
		return "ok " + k.String() + " " + pub.String() + " " + hex.EncodeToString(ec.Serialize())
	case len(a) == 3 && a[0] == "xpath":
		idx, ok2 := b32parseIdx(a[2])
		if !ok2 {
			return "bad-op"
		}
		k, err := hdkeychain.NewKeyFromString(a[1])
		if err != nil {
			return bip32Err(err)
		}
		for _, i := range idx {
			if k, err = k.Child(i); err != nil {
				return bip32Err(err)
			}
		}
		out := "ok " + k.String()
		if k.IsPrivate() {
			pub, err := k.Neuter()
			if err != nil {
				return bip32Err(err)
			}
			out += " " + pub.String()
		}
		if al := b32aliasCheck(a[1], idx, k.String()); al != "" {
			return out + " " + al
		}
		return out
	case len(a) == 2 && a[0] == "parse":
		s, ok := unhexTok(a[1])
		if !ok {
			return "bad-op"
		}
		k, err := hdkeychain.NewKeyFromString(string(s))
		if err != nil {
			return bip32Err(err)
		}
		p := "0"
		if k.IsPrivate() {
			p = "1"
		}
		return "ok " + p + " " + k.String()
	case len(a) == 2 && a[0] == "b58e":
		b, ok := unhexTok(a[1])
		if !ok {
			return "bad-op"
		}
		return "ok " + hexTok([]byte(base58.Encode(b)))
	case len(a) == 2 && a[0] == "b58d":
		s, ok := unhexTok(a[1])
		if !ok {
			return "bad-op"
		}
		return "ok " + hexTok(base58.Decode(string(s)))
	}
	return "bad-op"
}

// ---------------------------------------------------------------- recording primitives

type b32orc struct {
	toks []string
	seen map[string]bool
}

func b32newOrc() *b32orc { return &b32orc{seen: map[string]bool{}} }
func (o *b32orc) add(t string) {
	if !o.seen[t] {
		o.seen[t] = true
		o.toks = append(o.toks, t)
	}
}
func (o *b32orc) String() string {
	if len(o.toks) == 0 {
		return ""
	}
	return " " + strings.Join(o.toks, " ")
}
func (o *b32orc) hmac(key, data []byte) []byte {
	m := hmac.New(sha512.New, key)
	m.Write(data)
	out := m.Sum(nil)
	o.add("H=" + hexTok(key) + ":" + hexTok(data) + ":" + hexTok(out))
	return out
}
func (o *b32orc) sha(data []byte) []byte {
	s := sha256.Sum256(data)
	o.add("S=" + hexTok(data) + ":" + hexTok(s[:]))
	return s[:]
}
func (o *b32orc) rmd(data []byte) []byte {
	h := ripemd160.New()
	h.Write(data)
	out := h.Sum(nil)
	o.add("R=" + hexTok(data) + ":" + hexTok(out))
	return out
}
func (o *b32orc) hash160(b []byte) []byte { return o.rmd(o.sha(b)) }
func (o *b32orc) dsha(b []byte) []byte    { return o.sha(o.sha(b)) }
func b32compress(x, y *big.Int) []byte {
	pk := btcec.PublicKey{Curve: btcec.S256(), X: x, Y: y}
	return pk.SerializeCompressed()
}
func (o *b32orc) mulG(k *big.Int) []byte {
	kb := k.Bytes()
	x, y := btcec.S256().ScalarBaseMult(kb)
	p := b32compress(x, y)
	o.add("G=" + hexTok(kb) + ":" + hexTok(p))
	return p
}
func (o *b32orc) parseP(b []byte) []byte {
	pk, err := btcec.ParsePubKey(b, btcec.S256())
	if err != nil {
		o.add("P=" + hexTok(b) + ":-")
		return nil
	}
	p := pk.SerializeCompressed()
	o.add("P=" + hexTok(b) + ":" + hexTok(p))
	return p
}
func (o *b32orc) addP(p, q []byte) []byte {
	a, err1 := btcec.ParsePubKey(p, btcec.S256())
	b, err2 := btcec.ParsePubKey(q, btcec.S256())
	if err1 != nil || err2 != nil {
		return nil
	}
	x, y := btcec.S256().Add(a.X, a.Y, b.X, b.Y)
	r := b32compress(x, y)
	o.add("A=" + hexTok(p) + ":" + hexTok(q) + ":" + hexTok(r))
	return r
}

// ---------------------------------------------------------------- reference walk (decides WHICH facts to supply)

var (
	b32verPriv = config.ChainParams.HDPrivateKeyID[:]
	b32verPub  = config.ChainParams.HDPublicKeyID[:]
	b32curveN  = btcec.S256().N
)

type b32refKey struct {
	priv   bool
	k      *big.Int // private scalar
	pub    []byte   // compressed point (public keys; lazily for private keys)
	cc     []byte
	depth  int
	fp     []byte
	num    uint32
	ver    []byte
	legacy bool // walk as the unfixed code did: private scalars stored as minimal bytes
}

func b32pad(b []byte) []byte {
	if len(b) >= 32 {
		return b
	}
	return append(make([]byte, 32-len(b)), b...)
}

func (o *b32orc) refMaster(seed []byte) *b32refKey {
	if len(seed) < 16 || len(seed) > 64 {
		return nil
	}
	I := o.hmac([]byte("Bitcoin seed"), seed)
	k := new(big.Int).SetBytes(I[:32])
	if k.Sign() == 0 || k.Cmp(b32curveN) >= 0 {
		return nil
	}
	return &b32refKey{priv: true, k: k, cc: I[32:], fp: []byte{0, 0, 0, 0}, ver: b32verPriv}
}

func (o *b32orc) pubOf(r *b32refKey) []byte {
	if r.pub == nil {
		r.pub = o.mulG(r.k)
	}
	return r.pub
}

// refChild: BIP-32 CKD.  first: the parent's scalar is known to be stored in 32 bytes (master, parsed).
func (o *b32orc) refChild(r *b32refKey, i uint32, first bool) *b32refKey {
	if r.depth == 255 {
		return nil
	}
	hard := i >= 0x80000000
	if hard && !r.priv {
		return nil
	}
	data := make([]byte, 37)
	if hard {
		if r.legacy && !first {
			copy(data[1:], r.k.Bytes())
		} else {
			copy(data[1:], b32pad(r.k.Bytes()))
		}
	} else {
		copy(data, o.pubOf(r))
	}
	binary.BigEndian.PutUint32(data[33:], i)
	I := o.hmac(r.cc, data)
	il := new(big.Int).SetBytes(I[:32])
	fp := o.hash160(o.pubOf(r))[:4]
	c := &b32refKey{priv: r.priv, cc: I[32:], depth: r.depth + 1, fp: fp, num: i, ver: r.ver, legacy: r.legacy}
	if il.Cmp(b32curveN) >= 0 {
		return nil
	}
	if r.priv {
		c.k = new(big.Int).Mod(new(big.Int).Add(il, r.k), b32curveN)
	} else {
		o.parseP(r.pub)
		ilG := o.mulG(il)
		c.pub = o.addP(ilG, r.pub)
		if c.pub == nil {
			return nil
		}
	}
	return c
}

func (o *b32orc) refPayload(r *b32refKey) []byte {
	var b []byte
	b = append(b, r.ver...)
	b = append(b, byte(r.depth))
	b = append(b, r.fp...)
	var n [4]byte
	binary.BigEndian.PutUint32(n[:], r.num)
	b = append(b, n[:]...)
	b = append(b, r.cc...)
	if r.priv {
		b = append(b, 0)
		b = append(b, b32pad(r.k.Bytes())...)
	} else {
		b = append(b, r.pub...)
	}
	return b
}

const b32Alphabet = "123456789ABCDEFGHJKLMNPQRSTUVWXYZabcdefghijkmnopqrstuvwxyz"

func b32refB58(b []byte) string {
	x := new(big.Int).SetBytes(b)
	var out []byte
	m := new(big.Int)
	r58 := big.NewInt(58)
	for x.Sign() > 0 {
		x.DivMod(x, r58, m)
		out = append([]byte{b32Alphabet[m.Int64()]}, out...)
	}
	for _, c := range b {
		if c != 0 {
			break
		}
		out = append([]byte{'1'}, out...)
	}
	return string(out)
}

func b32refB58Decode(s string) ([]byte, bool) {
	x := new(big.Int)
	for i := 0; i < len(s); i++ {
		d := strings.IndexByte(b32Alphabet, s[i])
		if d < 0 {
			return nil, false
		}
		x.Mul(x, big.NewInt(58))
		x.Add(x, big.NewInt(int64(d)))
	}
	z := 0
	for z < len(s) && s[z] == '1' {
		z++
	}
	return append(make([]byte, z), x.Bytes()...), true
}

// refString serialises (and records the two SHA-256 facts of the checksum).
func (o *b32orc) refString(r *b32refKey) string {
	p := o.refPayload(r)
	return b32refB58(append(p, o.dsha(p)[:4]...))
}

func (o *b32orc) refNeuter(r *b32refKey) *b32refKey {
	if !r.priv {
		return r
	}
	return &b32refKey{priv: false, pub: o.pubOf(r), cc: r.cc, depth: r.depth, fp: r.fp, num: r.num, ver: b32verPub}
}

// refParse records the facts NewKeyFromString needs for this string and returns the key if valid.
func (o *b32orc) refParse(s string) *b32refKey {
	d, ok := b32refB58Decode(s)
	if !ok || len(d) != 82 {
		return nil
	}
	p := d[:78]
	sum := o.dsha(p)[:4]
	kd := p[45:78]
	var pub []byte
	if kd[0] != 0 {
		pub = o.parseP(kd)
	}
	if !bytes.Equal(sum, d[78:]) {
		return nil
	}
	r := &b32refKey{ver: p[0:4], depth: int(p[4]), fp: p[5:9], num: binary.BigEndian.Uint32(p[9:13]), cc: p[13:45]}
	if kd[0] == 0 {
		r.priv = true
		r.k = new(big.Int).SetBytes(kd[1:])
		if r.k.Sign() == 0 || r.k.Cmp(b32curveN) >= 0 {
			return nil
		}
	} else {
		if pub == nil {
			return nil
		}
		r.pub = kd
	}
	return r
}

// walk records everything a derivation from r along idx needs, incl. the final serialisations.
func (o *b32orc) walk(r *b32refKey, idx []uint32) *b32refKey {
	first := true
	for _, i := range idx {
		if r == nil {
			return nil
		}
		r = o.refChild(r, i, first)
		first = false
	}
	if r == nil {
		return nil
	}
	o.refString(r)
	if r.priv {
		o.refString(o.refNeuter(r))
	}
	return r
}

func b32idxTok(idx []uint32) string {
	if len(idx) == 0 {
		return "-"
	}
	p := make([]string, len(idx))
	for i, v := range idx {
		p[i] = strconv.FormatUint(uint64(v), 10)
	}
	return strings.Join(p, ",")
}

// hasShort reports whether some proper prefix of the path ends in a private scalar < 2^248 that is
// then used as the parent of a HARDENED step (the D4 situation).
func (o *b32orc) hasShort(seed []byte, idx []uint32) bool {
	r := o.refMaster(seed)
	for j, i := range idx {
		if r == nil {
			return false
		}
		if j > 0 && i >= 0x80000000 && r.k.BitLen() <= 248 {
			return true
		}
		r = o.refChild(r, i, j == 0)
	}
	return false
}

func b32emitPath(g *Gen, class string, seed []byte, idx []uint32) {
	o := b32newOrc()
	o.walk(o.refMaster(seed), idx)
	// facts for the pre-fix behaviour too (model-as-written experiments; a handful of extra HMACs)
	if b32newOrc().hasShort(seed, idx) {
		if m := o.refMaster(seed); m != nil {
			m.legacy = true
			o.walk(m, idx)
		}
	}
	g.Op(class, "path %s %s%s", hexTok(seed), b32idxTok(idx), o.String())
}

func b32emitXPath(g *Gen, class string, s string, idx []uint32) {
	o := b32newOrc()
	o.walk(o.refParse(s), idx)
	g.Op(class, "xpath %s %s%s", s, b32idxTok(idx), o.String())
}

func b32emitParse(g *Gen, class string, s []byte) {
	o := b32newOrc()
	if r := o.refParse(string(s)); r != nil {
		o.refString(r)
	}
	g.Op(class, "parse %s%s", hexTok(s), o.String())
}

// ---------------------------------------------------------------- generators

func b32rnd(r *rand.Rand, n int) []byte {
	b := make([]byte, n)
	r.Read(b)
	return b
}

func b32rndIdx(r *rand.Rand) uint32 {
	var v uint32
	switch r.Intn(6) {
	case 0:
		v = uint32(r.Intn(4))
	case 1:
		v = 0x7fffffff - uint32(r.Intn(3))
	case 2:
		v = uint32(r.Intn(1 << 20))
	default:
		v = r.Uint32() & 0x7fffffff
	}
	if r.Intn(2) == 0 {
		v |= 0x80000000
	}
	return v
}

func b32mustHex(s string) []byte {
	b, err := hex.DecodeString(s)
	if err != nil {
		panic(err)
	}
	return b
}

const b32H = 0x80000000

type b32vec struct {
	seed string
	path []uint32
}

// The seeds and chains of the BIP-32 test vectors 1-4 (expected values are NOT copied: the Lean spec computes them).
var bip32Vectors = []b32vec{
	{"000102030405060708090a0b0c0d0e0f", []uint32{b32H, 1, b32H + 2, 2, 1000000000}},
	{"fffcf9f6f3f0edeae7e4e1dedbd8d5d2cfccc9c6c3c0bdbab7b4b1aeaba8a5a29f9c999693908d8a8784817e7b7875726f6c696663605d5a5754514e4b484542", []uint32{0, b32H + 2147483647, 1, b32H + 2147483646, 2}},
	{"4b381541583be4423346c643850da4b320e46a87ae3d2a4e6da11eba819cd4acba45d239319ac14f863b8d5ab5a0d0c64d2e8a1e7d1457df2e5a3c51c73235be", []uint32{b32H}},
	{"3ddd5602285899a946114506157c7997e5444528f3003f6134712147db19b678", []uint32{b32H, b32H + 1}},
}

// b32findShort searches child indexes of r (starting at a random point) for a child whose private
// scalar is < 2^(256-8*zeroBytes).  ~256^zeroBytes tries.
func b32findShort(rng *rand.Rand, r *b32refKey, hardened bool, zeroBytes int, maxTries int) (uint32, bool) {
	o := b32newOrc() // throw-away recorder
	start := rng.Uint32() & 0x7fffffff
	for t := 0; t < maxTries; t++ {
		i := (start + uint32(t)) & 0x7fffffff
		if hardened {
			i |= b32H
		}
		c := o.refChild(r, i, false)
		o.toks, o.seen = nil, map[string]bool{}
		if c != nil && c.k.BitLen() <= 256-8*zeroBytes {
			return i, true
		}
	}
	return 0, false
}

func genBip32(g *Gen) {
	r := g.Rng
	// ---- BIP-32 vectors 1-4: every prefix of every chain, private route and public route
	var sampleKeys []string // serialised keys for the parse/corruption streams
	for _, v := range bip32Vectors {
		seed := b32mustHex(v.seed)
		for l := 0; l <= len(v.path); l++ {
			b32emitPath(g, "vector", seed, v.path[:l])
			o := b32newOrc()
			k := o.walk(o.refMaster(seed), v.path[:l])
			xprv, xpub := o.refString(k), o.refString(o.refNeuter(k))
			b32emitParse(g, "vector-parse", []byte(xprv))
			b32emitParse(g, "vector-parse", []byte(xpub))
			if l < len(v.path) {
				b32emitXPath(g, "vector-xpath", xprv, v.path[l:l+1])
				b32emitXPath(g, "vector-xpath", xpub, v.path[l:l+1]) // hardened -> err hard-from-pub
			}
			if l == len(v.path) {
				sampleKeys = append(sampleKeys, xprv, xpub)
			}
		}
	}
	// ---- seed length boundaries
	for _, n := range []int{0, 1, 15, 16, 17, 31, 32, 33, 63, 64, 65, 128} {
		b32emitPath(g, "seed-len", b32rnd(r, n), nil)
		b32emitPath(g, "seed-len", b32rnd(r, n), []uint32{b32rndIdx(r)})
	}
	// ---- targeted: parents whose scalar has leading zero bytes (D4)
	nShort := g.Scale(80, 1500)
	for s := 0; s < nShort; s++ {
		seed := b32rnd(r, 16+r.Intn(49))
		o := b32newOrc()
		var pre []uint32
		for d := r.Intn(3); d > 0; d-- {
			pre = append(pre, b32rndIdx(r))
		}
		p := o.walk(o.refMaster(seed), pre)
		if p == nil {
			continue
		}
		zb := 1
		tries := 6000
		if s%12 == 11 { // two leading zero bytes, ~65536 tries
			zb, tries = 2, 600000
		}
		i, ok := b32findShort(r, p, r.Intn(2) == 0, zb, tries)
		if !ok {
			continue
		}
		base := append(append([]uint32{}, pre...), i)
		b32emitPath(g, "short-parent-self", seed, base)
		b32emitPath(g, "short-parent-hardened", seed, append(append([]uint32{}, base...), b32rndIdx(r)|b32H))
		b32emitPath(g, "short-parent-normal", seed, append(append([]uint32{}, base...), b32rndIdx(r)&0x7fffffff))
		deep := append([]uint32{}, base...)
		deep = append(deep, b32rndIdx(r)|b32H)
		for len(deep) < 6 {
			deep = append(deep, b32rndIdx(r))
		}
		b32emitPath(g, "short-parent-deep", seed, deep)
		// the same through serialisation: parse the short-scalar key, derive a hardened child from it
		o2 := b32newOrc()
		k := o2.walk(o2.refMaster(seed), base)
		if k != nil {
			xprv := o2.refString(k)
			b32emitXPath(g, "short-parent-xpath", xprv, []uint32{b32rndIdx(r) | b32H})
			b32emitXPath(g, "short-parent-xpath", xprv, []uint32{b32rndIdx(r) | b32H, b32rndIdx(r) | b32H})
			if s < 4 {
				sampleKeys = append(sampleKeys, xprv)
			}
		}
	}
	// ---- short chains: a short-scalar child of a short-scalar parent
	for s := 0; s < g.Scale(6, 60); s++ {
		seed := b32rnd(r, 32)
		o := b32newOrc()
		m := o.refMaster(seed)
		if m == nil {
			continue
		}
		i, ok := b32findShort(r, m, true, 1, 6000)
		if !ok {
			continue
		}
		c := o.refChild(m, i, true)
		j, ok := b32findShort(r, c, true, 1, 6000)
		if !ok {
			continue
		}
		b32emitPath(g, "short-chain", seed, []uint32{i, j})
		b32emitPath(g, "short-chain", seed, []uint32{i, j, b32rndIdx(r) | b32H})
		b32emitPath(g, "short-chain", seed, []uint32{i, j, b32rndIdx(r) & 0x7fffffff, b32rndIdx(r) | b32H})
	}
	// ---- random seeds and paths up to depth 6, private and public routes
	nRand := g.Scale(4000, 120000)
	for s := 0; s < nRand; s++ {
		seed := b32rnd(r, 16+r.Intn(49))
		depth := r.Intn(7)
		idx := make([]uint32, depth)
		for j := range idx {
			idx[j] = b32rndIdx(r)
		}
		b32emitPath(g, fmt.Sprintf("random-path-d%d", depth), seed, idx)
		if s%4 == 0 {
			// public route: neuter at a random cut, continue with the remaining indexes
			cut := r.Intn(depth + 1)
			o := b32newOrc()
			k := o.walk(o.refMaster(seed), idx[:cut])
			if k != nil {
				rest := append([]uint32{}, idx[cut:]...)
				cls := "pub-path"
				if r.Intn(3) > 0 {
					for j := range rest {
						rest[j] &= 0x7fffffff
					}
				} else if len(rest) > 0 {
					cls = "pub-path-mixed"
				}
				b32emitXPath(g, cls, o.refString(o.refNeuter(k)), rest)
				b32emitXPath(g, "priv-xpath", o.refString(k), rest)
				if len(sampleKeys) < 24 {
					sampleKeys = append(sampleKeys, o.refString(k), o.refString(o.refNeuter(k)))
				}
			}
		}
	}
	// ---- depth limit: keys serialised with depth 254 / 255
	for _, s := range sampleKeys[:4] {
		d, _ := b32refB58Decode(s)
		for _, dep := range []byte{253, 254, 255} {
			p := append([]byte{}, d[:78]...)
			p[4] = dep
			o := b32newOrc()
			str := b32refB58(append(p, o.dsha(p)[:4]...))
			b32emitXPath(g, "depth-limit", str, []uint32{b32rndIdx(r) & 0x7fffffff})
			b32emitXPath(g, "depth-limit", str, []uint32{1, 2})
		}
	}
	// ---- parsing: valid keys, out-of-range scalars, bad points, wrong lengths (checksums recomputed)
	reseal := func(p []byte) []byte {
		o := b32newOrc()
		return []byte(b32refB58(append(append([]byte{}, p...), o.dsha(p)[:4]...)))
	}
	for _, s := range sampleKeys {
		b32emitParse(g, "parse-valid", []byte(s))
		d, _ := b32refB58Decode(s)
		p := d[:78]
		// scalar 0, n-1, n, n+1, 2^256-1 behind a 00 prefix
		for _, k := range []*big.Int{big.NewInt(0), big.NewInt(1), new(big.Int).Sub(b32curveN, big.NewInt(1)), b32curveN,
			new(big.Int).Add(b32curveN, big.NewInt(1)), new(big.Int).Sub(new(big.Int).Lsh(big.NewInt(1), 256), big.NewInt(1))} {
			q := append([]byte{}, p...)
			q[45] = 0
			copy(q[46:], b32pad(k.Bytes()))
			b32emitParse(g, "parse-range", reseal(q))
		}
		// key data with every prefix byte class and random x (about half of all x are not on the curve)
		for t := 0; t < g.Scale(6, 60); t++ {
			q := append([]byte{}, p...)
			q[45] = []byte{2, 3, 4, 1, 5, 6, 7, 0xff}[r.Intn(8)]
			copy(q[46:], b32rnd(r, 32))
			if t%5 == 4 { // x >= field prime
				copy(q[46:], b32mustHex("fffffffffffffffffffffffffffffffffffffffffffffffffffffffefffffc2f"))
				q[77] += byte(r.Intn(3))
			}
			b32emitParse(g, "parse-point", reseal(q))
		}
		// wrong payload lengths with a correct checksum for that length
		for _, n := range []int{0, 1, 4, 77, 79, 78 + 33, 45} {
			q := b32rnd(r, n)
			if n <= 78 {
				copy(q, p)
			}
			b32emitParse(g, "parse-len", reseal(q))
		}
		b32emitParse(g, "parse-len", []byte(s[:len(s)-1]))
		b32emitParse(g, "parse-len", []byte(s+"1"))
		b32emitParse(g, "parse-len", []byte("1"+s))
		b32emitParse(g, "parse-len", []byte{})
		b32emitParse(g, "parse-badchar", []byte(s[:10]+"0"+s[11:]))
		b32emitParse(g, "parse-badchar", []byte(s[:20]+" "+s[21:]))
		b32emitParse(g, "parse-badchar", []byte(s+"\n"))
	}
	// ---- single-byte corruptions of the 82 serialised bytes (exhaustive over positions; values sampled in
	//      the quick tier, exhaustive for the first keys in the thorough tier) and single-character
	//      corruptions of the base58 string
	nExh := g.Scale(0, 6)
	for ki, s := range sampleKeys {
		if ki >= g.Scale(6, 12) {
			break
		}
		d, _ := b32refB58Decode(s)
		for pos := 0; pos < len(d); pos++ {
			var vals []int
			if ki < nExh {
				for v := 1; v < 256; v++ {
					vals = append(vals, v)
				}
			} else {
				vals = []int{1, 0x80, 0xff, 1 + r.Intn(255), 1 + r.Intn(255)}
			}
			for _, v := range vals {
				q := append([]byte{}, d...)
				q[pos] ^= byte(v)
				b32emitParse(g, "corrupt-byte", []byte(b32refB58(q)))
			}
		}
		for pos := 0; pos < len(s); pos++ {
			nv := g.Scale(3, 57)
			if ki >= 2 {
				nv = 3
			}
			off := r.Intn(57)
			for t := 0; t < nv; t++ {
				c := b32Alphabet[(strings.IndexByte(b32Alphabet, s[pos])+1+(off+t)%57)%58]
				q := []byte(s)
				q[pos] = c
				b32emitParse(g, "corrupt-char", q)
			}
		}
		// transposition of neighbours, deletion, duplication
		for t := 0; t < 12; t++ {
			pos := r.Intn(len(s) - 1)
			q := []byte(s)
			q[pos], q[pos+1] = q[pos+1], q[pos]
			b32emitParse(g, "corrupt-swap", q)
			b32emitParse(g, "corrupt-del", []byte(s[:pos]+s[pos+1:]))
			b32emitParse(g, "corrupt-dup", []byte(s[:pos]+s[pos:pos+1]+s[pos:]))
		}
	}
	// ---- base58
	for _, b := range [][]byte{{}, {0}, {0, 0}, {0, 0, 0, 0, 0, 0, 0, 0}, {1}, {57}, {58}, {255}, {0, 1}, {0, 0, 255}, {1, 0}, {1, 0, 0}, {0, 58, 0}} {
		g.Op("b58-small", "b58e %s", hexTok(b))
	}
	for _, s := range []string{"", "1", "11", "2", "z", "21", "12", "1z", "0", "O", "I", "l", "1 ", " 1", "a0", "11111111111z", "zzzzzzzzzzzzzz", "5Q", "5R", "4fr", "\xff", "1\x00"} {
		g.Op("b58-small", "b58d %s", hexTok([]byte(s)))
	}
	for v := 0; v < g.Scale(600, 70000); v++ { // all 1- and 2-byte strings (thorough: all of them)
		if v < 256 {
			g.Op("b58-exh", "b58e %s", hexTok([]byte{byte(v)}))
		} else if v-256 < 65536 {
			g.Op("b58-exh", "b58e %s", hexTok([]byte{byte((v - 256) >> 8), byte(v - 256)}))
		}
	}
	for t := 0; t < g.Scale(5000, 150000); t++ {
		n := r.Intn(100)
		b := b32rnd(r, n)
		z := 0
		if r.Intn(2) == 0 {
			z = r.Intn(6)
			for j := 0; j < z && j < n; j++ {
				b[j] = 0
			}
		}
		cls := "b58-random"
		if z > 0 && n > 0 {
			cls = "b58-leading-zeros"
		}
		g.Op(cls, "b58e %s", hexTok(b))
		// decode: a valid string (encoding of b, possibly with extra leading 1s) or a mutated one
		s := []byte(strings.Repeat("1", r.Intn(3)) + b32refB58(b))
		switch r.Intn(4) {
		case 0:
			if len(s) > 0 {
				s[r.Intn(len(s))] = byte(r.Intn(256))
			}
			g.Op("b58-decode-mutated", "b58d %s", hexTok(s))
		default:
			g.Op("b58-decode", "b58d %s", hexTok(s))
		}
	}
}
