package main

// Generator of the fault engine (C18): ledGen chain histories whose wallet operations (create wallet,
// new address, block / reorg notification, unconfirmed transaction) are wrapped into exhaustive fault
// sweeps (`sweep K T op`: every storage call index, single (K=1) or three times repeated (K=3), with or
// without the fault-free twin) or into a skipped notification (`skip begin|commit|j notify B`: the
// follower must recover through its own retry on the next notification).

import (
	"fmt"
)

type faultGen struct {
	rw   *lineRewriter
	g    *Gen
	l    *ledGen
	skip bool // a notification was skipped and no later one was delivered yet
}

func newFaultGen(g *Gen) *faultGen {
	rw := newLineRewriter(g, "fault")
	return &faultGen{rw: rw, g: g, l: rw.l}
}

// flush moves the lines ledGen produced into the real stream, wrapping wallet operations.
func (f *faultGen) flush(pSweep int) {
	r := f.g.Rng
	f.rw.flush(func(op, body string) (string, string) {
		switch op {
		case "wallet", "addr", "notify", "recvtx":
			if op == "notify" && r.Intn(9) == 0 {
				sel := []string{"begin", "commit", "commit", "1", "2"}[r.Intn(5)]
				f.skip = true
				return "skip-" + sel, fmt.Sprintf("skip %s %s", sel, body)
			}
			if r.Intn(100) < pSweep || op == "addr" && r.Intn(2) == 0 {
				k := 1
				if r.Intn(4) == 0 {
					k = 3
				}
				t := 0
				if op == "addr" || op == "wallet" || r.Intn(6) == 0 {
					t = 1
					f.g.Stats["sweep-twin"]++
				}
				if op == "notify" {
					f.skip = false
				}
				return fmt.Sprintf("sweep%d-%s", k, op), fmt.Sprintf("sweep %d %d %s", k, t, body)
			}
			if op == "notify" {
				f.skip = false
			}
		}
		return "", body
	})
}

func genFault(g *Gen) {
	nHist := g.Scale(14, 300)
	for h := 0; h < nHist; h++ {
		f := newFaultGen(g)
		l := f.l
		l.start(1 + g.Rng.Intn(2))
		pSweep := 35 + g.Rng.Intn(40)
		f.flush(pSweep)
		steps := 6 + g.Rng.Intn(g.Scale(10, 22))
		lazy := g.Rng.Intn(3) == 0
		for s := 0; s < steps; s++ {
			switch k := g.Rng.Intn(20); {
			case k < 8:
				l.extend()
			case k < 11:
				l.reorgTo(1+g.Rng.Intn(g.Scale(3, 6)), 1+g.Rng.Intn(2))
			case k < 15:
				prunePool(l)
				l.recv()
			case k < 17:
				l.newAddr(l.wallets[g.Rng.Intn(len(l.wallets))])
			case k < 18 && len(l.wallets) < 3:
				w := fmt.Sprintf("W%d", len(l.wallets)+1)
				l.wallets = append(l.wallets, w)
				l.op("wallet-mid", "wallet %s", w)
				l.newAddr(w)
			default:
				l.processOne()
			}
			if !lazy || g.Rng.Intn(4) == 0 {
				l.drain()
				l.observe(g.Rng.Intn(3) == 0)
				l.op("q-wallets", "wallets")
			} else if g.Rng.Intn(3) == 0 {
				l.processOne()
			}
			f.flush(pSweep)
		}
		l.drain()
		f.flush(pSweep)
		if f.skip {
			// the skipped notification was the last one: the node announces its tip again
			l.op("renotify", "notify %s", l.tip().name)
			f.flush(0)
		}
		l.observe(true)
		l.op("q-wallets", "wallets")
		l.op("faultstats", "faultstats")
		f.flush(0)
	}
}
