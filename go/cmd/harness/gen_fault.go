package main

// Generator of the fault engine (C18): ledGen chain histories whose wallet operations (create wallet,
// new address, block / reorg notification, unconfirmed transaction) are wrapped into exhaustive fault
// sweeps (`sweep K T op`: every storage call index, single (K=1) or three times repeated (K=3), with or
// without the fault-free twin) or into a skipped notification (`skip begin|commit|j notify B`: the
// follower must recover through its own retry on the next notification).

import (
	"fmt"
)

type faultGen struct {
	rw   *lineRewriter
	g    *Gen
	l    *ledGen
	skip bool // a notification was skipped and no later one was delivered yet
}

func newFaultGen(g *Gen) *faultGen {
	rw := newLineRewriter(g, "fault")
	return &faultGen{rw: rw, g: g, l: rw.l}
}

// flush moves the lines ledGen produced into the real stream, wrapping wallet operations.
func (f *faultGen) flush(pSweep int) {
	r := f.g.Rng
	f.rw.flush(func(op, body string) (string, string) {
		switch op {
		case "wallet", "addr", "notify", "recvtx":
			if op == "notify" && r.Intn(9) == 0 {
				sel := []string{"begin", "commit", "commit", "1", "2"}[r.Intn(5)]
				f.skip = true
				return "skip-" + sel, fmt.Sprintf("skip %s %s", sel, body)
			}
			if r.Intn(100) < pSweep || op == "addr" && r.Intn(2) == 0 {
				k := 1
				if r.Intn(4) == 0 {
					k = 3
				}
				t := 0
				if op == "addr" || op == "wallet" || r.Intn(6) == 0 {
					t = 1
					f.g.Stats["sweep-twin"]++
				}
				if op == "notify" {
					f.skip = false
				}
				return fmt.Sprintf("sweep%d-%s", k, op), fmt.Sprintf("sweep %d %d %s", k, t, body)
			}
			if op == "notify" {
				f.skip = false
			}
		}
		return "", body
	})
}

func genFault(g *Gen) {
	nHist := g.Scale(14, 300)
	for h := 0; h < nHist; h++ {
		f := newFaultGen(g)
		l := f.l
		bg := h%4 == 3
		if bg {
			l.start(2)
		} else {
			l.start(1 + g.Rng.Intn(2))
		}
		pSweep := 35 + g.Rng.Intn(40)
		impState, removed := 0, false
		flush := func(p int) {
			if !bg {
				f.flush(p)
				return
			}
			// background-work histories: the ledger model does not cover import / removal, so the
			// observations are `rec` ops; the sweeps carry the check (twin comparison)
			r := f.g.Rng
			f.rw.flush(func(op, body string) (string, string) {
				if op == "recvtx" || isObservation([]string{op}) || (op == "notify" && removed) {
					// after a removal a block can run into C08's open defect D11 (a transaction record
					// shared with another wallet is deleted with the removed wallet; a later rollback
					// misses it): notifications are then executed but not compared with the model
					return "rec", "rec " + body
				}
				if (op == "addr" || op == "notify") && r.Intn(100) < p {
					return "sweep1-" + op, "sweep 1 0 " + body
				}
				return "", body
			})
		}
		sweepBg := func(class, body string) {
			k := 1
			if g.Rng.Intn(3) == 0 {
				k = 3
			}
			f.rw.emit("sweep-"+class, fmt.Sprintf("sweep %d 1 %s", k, body))
			f.g.Stats["sweep-twin"]++
		}
		flush(pSweep)
		if bg {
			f.rw.emit("mkimport", "mkimport WI 2")
			impState = 1
			l.wallets = append(l.wallets, "WI")
			for i := 0; i < l.maxAddr; i++ {
				a := fmt.Sprintf("WIa%d", 1+i%2)
				l.addrs["WI"] = append(l.addrs["WI"], a)
				l.owner[a] = "WI"
			}
		}
		steps := 6 + g.Rng.Intn(g.Scale(10, 22))
		lazy := g.Rng.Intn(3) == 0
		for s := 0; s < steps; s++ {
			switch k := g.Rng.Intn(20); {
			case k < 8:
				l.extend()
			case k < 11:
				l.reorgTo(1+g.Rng.Intn(g.Scale(3, 6)), 1+g.Rng.Intn(2))
			case k < 14:
				prunePool(l)
				l.recv()
			case k < 16:
				l.newAddr(l.wallets[g.Rng.Intn(len(l.wallets))])
			case k < 17 && len(l.wallets) < 3 && !bg:
				w := fmt.Sprintf("W%d", len(l.wallets)+1)
				l.wallets = append(l.wallets, w)
				l.op("wallet-mid", "wallet %s", w)
				l.newAddr(w)
			case k < 19 && bg:
				l.drain()
				flush(pSweep)
				switch {
				case impState == 1 && s >= 2:
					sweepBg("import", "import WI")
					impState = 2
				case impState == 2:
					sweepBg("importstep", "importstep WI")
					impState = 3
				case !removed && impState != 2 && len(l.wallets) > 2:
					w := l.wallets[0]
					sweepBg("remove", "remove "+w)
					sweepBg("removerun", "removerun "+w)
					removed = true
					l.wallets = l.wallets[1:]
				}
			default:
				l.processOne()
			}
			if !lazy || g.Rng.Intn(4) == 0 {
				l.drain()
				l.observe(g.Rng.Intn(3) == 0)
				l.op("q-wallets", "wallets")
			} else if g.Rng.Intn(3) == 0 {
				l.processOne()
			}
			flush(pSweep)
		}
		l.drain()
		flush(pSweep)
		if bg && impState == 1 {
			sweepBg("import", "import WI")
			impState = 2
		}
		if bg && impState == 2 {
			sweepBg("importstep", "importstep WI")
			f.rw.emit("importstep", "importstep WI")
		}
		if bg && !removed && len(l.wallets) > 1 {
			w := l.wallets[0]
			sweepBg("remove", "remove "+w)
			sweepBg("removerun", "removerun "+w)
			l.wallets = l.wallets[1:]
		}
		if f.skip {
			// the skipped notification was the last one: the node announces its tip again
			l.op("renotify", "notify %s", l.tip().name)
			flush(0)
		}
		l.observe(true)
		l.op("q-wallets", "wallets")
		l.op("faultstats", "faultstats")
		flush(0)
	}
}
