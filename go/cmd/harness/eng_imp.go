package main

// Engines imp (C07) and rem (C08): wallet import (rescan worker) and wallet removal (two-phase
// background deletion) driven step by step against the REAL code of /repo, on top of the wallet
// environment (wenv.go) and the ledger op language (eng_led.go).
//
// Two wallet instances can exist in one history: instance 1 (plain ops, also owns the node: chain
// database, transactions, blocks) and instance 2 (ops prefixed `i2`), a second fresh wallet
// database + WalletManager sharing the SAME chain database (the twin experiment of C07).
//
// Additional op lines ( [i2] = optional instance prefix ):
//   [i2] <any wallet-level led op>     wallet | addr | notify | recvtx | queries | restart
//        queries (bal utxos abal addrs shist bhist sbu hsbu shistp bhistp) first select the wallet
//        through UseWallet, so an importing / removing / unknown wallet answers `err`
//   [i2] notify B                      as in led, plus the cursor rule: after a successful notification no
//                                      importing wallet's rescan cursor may be above the fork point between the
//                                      follower's previous tip and B (every height above it was disconnected and
//                                      rolled back):   ok | ok cursor-above-fork:W1,… | err
//   [i2] use W                         UseWallet                        ok | unready | err
//   [i2] import W mn|ks N              import W's mnemonic / exported keystore (ExternalIndex N)
//                                      ok <status> <addresses> | err-<class>
//   [i2] importq W mn|ks N             the same import, answering only   ok | err-<class>   (neither the status nor
//                                      the address list: a wrong address set / hand-over then shows where the
//                                      SPECIFICATION speaks - use, bal, utxos, twin - and not as a mere
//                                      implementation/model difference that ends the history at the import)
//   [i2] tasks                         drain the worker queue           import:W,remove:W | -
//   [i2] inittasks                     start-up re-queueing (initTaskChan)
//   [i2] impstep W                     one asyncImport batch            fin | more | idle | err-<class>
//   [i2] impstep! W                    the same, even for a wallet that is already done
//   [i2] impsteps W N                  N times impstep, without saying what each returned   ok
//   [i2] impstepn W B                  one batch with `notify B` handled while the worker waits in suspend (eng_imp_suspend.go)
//                                      <notify answer>/<impstep answer>
//   [i2] expired                       volatile height -> confirmed tx map
//   [i2] mempool                       volatile pending id set
//   twin W                             observations of W in instance 1 | instance 2
//   fill K TAG M                       K empty blocks TAG.1.. on the tip, notified to instance 1
//                                      (M&1) and instance 2 (M&2)
//   [i2] remove W good|bad             RemoveWallet       ok | err-pass | err-unready | err-busy | err
//   [i2] rembegin W                    start asyncRemove on a goroutine   parked | done-<res>
//   [i2] remstep                       let one phase run                  parked | done-<res>
//   [i2] remquit                       close(quit) while parked           done-abort
//   [i2] remsteps N                    up to N phases, without saying how many were needed   ok
//   [i2] residue W                     raw scan of every bucket for W's id / script hashes / addresses
//   [i2] pendmention W                 pending transactions whose bytes mention W's script hashes

import (
	"crypto/sha256"
	"encoding/hex"
	"fmt"
	"os"
	"path/filepath"
	"sort"
	"strconv"
	"strings"

	"github.com/massnetorg/mass-core/massutil"
	"massnet.org/mass-wallet/masswallet"
	"massnet.org/mass-wallet/masswallet/keystore"
	"massnet.org/mass-wallet/masswallet/txmgr"
)

func init() {
	register(&Engine{Name: "imp", Gen: genImp, NewExec: func() Exec { return &irExec{} }})
	register(&Engine{Name: "rem", Gen: genRem, NewExec: func() Exec { return &irExec{stepForks: true} }})
}

type remRun struct {
	id   string
	done chan error
	res  string // set once finished
}

type irInst struct {
	e    *WEnv
	rm   *remRun
	own  bool        // owns the chain database (instance 1)
	dead bool        // the implementation panicked inside a database transaction: the instance is unusable
	fdb  *stepForkDB // engine rem: copies of the wallet directory after every commit of a removal step (eng_rem_fork.go)
}

type irExec struct {
	i1, i2    *irInst
	fillN     int
	stepForks bool // engine rem: a `restart` right after a removal step is a crash BETWEEN the commits of that step
	forkPick  int
}

func (x *irExec) inst1() *irInst {
	if x.i1 == nil {
		e := NewWEnv()
		x.i1 = &irInst{e: e, own: true}
		if x.stepForks {
			x.i1.installStepForks()
			e.reset() // reopen the wallet database under the wrapper
		}
		e.wm.VerifEnsureTaskChan()
	}
	return x.i1
}

// inst2 builds (on demand) a second wallet instance over instance 1's chain database.
func (x *irExec) inst2() *irInst {
	if x.i2 != nil {
		return x.i2
	}
	e1 := x.inst1().e
	e2 := &WEnv{}
	*e2 = *e1 // shares the symbol tables (maps), the chain database and the server
	e2.dir = e1.dir + "-twin"
	e2.wdbPath = filepath.Join(e2.dir, "wallet.db")
	e2.wdb, e2.wm, e2.wrapDB = nil, nil, nil
	os.RemoveAll(e2.dir)
	os.MkdirAll(e2.dir, 0700)
	x.i2 = &irInst{e: e2}
	if x.stepForks {
		x.i2.installStepForks()
	}
	if err := e2.openWallet(true); err != nil {
		panic(err)
	}
	e2.wm.VerifEnsureTaskChan()
	return x.i2
}

func (x *irExec) closeTwin() {
	if x.i2 == nil {
		return
	}
	x.i2.abortRemoval()
	if x.i2.e.wdb != nil {
		x.i2.e.wdb.Close()
	}
	os.RemoveAll(x.i2.e.dir)
	x.i2 = nil
}

func (x *irExec) Reset() {
	x.closeTwin()
	if x.i1 != nil {
		x.i1.abortRemoval()
		x.i1.dead = false
		x.i1.e.reset()
		x.i1.e.wm.VerifEnsureTaskChan()
	}
	x.fillN = 0
}

func (x *irExec) Close() {
	x.closeTwin()
	if x.i1 != nil {
		x.i1.abortRemoval()
		x.i1.e.Close()
	}
}

// abortRemoval unblocks a parked asyncRemove goroutine before its database goes away.
func (in *irInst) abortRemoval() {
	if in.rm != nil && in.rm.res == "" {
		in.e.wm.VerifCloseQuit()
		<-in.rm.done
	}
	in.rm = nil
}

func (x *irExec) Exec(a []string) string {
	if len(a) == 0 {
		return "bad-op"
	}
	if a[0] == "i2" {
		if len(a) < 2 {
			return "bad-op"
		}
		switch a[1] {
		case "tx", "block", "submit", "detach", "params", "fill", "twin":
			return "bad-op" // node-level ops belong to instance 1
		}
		return x.guarded(x.inst2(), a[1:])
	}
	return x.guarded(x.inst1(), a)
}

// guarded: a panic of the implementation inside a database transaction leaves that transaction
// (and its lock) open; the instance answers `dead` from then on instead of hanging.
func (x *irExec) guarded(in *irInst, a []string) (res string) {
	if in.dead || x.inst1().dead || (a[0] == "twin" && x.i2 != nil && x.i2.dead) {
		return "dead"
	}
	defer func() {
		if r := recover(); r != nil {
			in.dead = true
			res = "PANIC " + strings.ReplaceAll(fmt.Sprint(r), "\n", " ")
		}
	}()
	res = x.op(in, a)
	if strings.HasPrefix(res, "PANIC") {
		in.dead = true
	}
	if a[0] == "submit" && res != "ok" {
		// a block the chain database refuses may leave its caches half-updated: the history is
		// outside the modelled domain from here on (generated histories never get here)
		x.i1.dead = true
		if x.i2 != nil {
			x.i2.dead = true
		}
		return "dead"
	}
	return res
}

var irQueries = map[string]bool{"bal": true, "utxos": true, "abal": true, "addrs": true, "shist": true, "bhist": true,
	"sbu": true, "hsbu": true, "shistp": true, "bhistp": true}

// useStrict always goes through UseWallet (WEnv.Use skips the call when the wallet is current).
func useStrict(e *WEnv, w string) string {
	id, ok := e.wallets[w]
	if !ok {
		return "err"
	}
	_, err := e.wm.UseWallet(id)
	switch err {
	case nil:
		return "ok"
	case masswallet.ErrWalletUnready:
		return "unready"
	}
	if verifDebug {
		fmt.Fprintln(os.Stderr, "  [impl error] use:", err)
	}
	return "err"
}

func (x *irExec) op(in *irInst, a []string) string {
	e := in.e
	if in.fdb != nil && a[0] != "restart" && a[0] != "remstep" && a[0] != "remsteps" {
		in.fdb.drop() // the copies of a removal step serve the op that directly follows it only
	}
	switch {
	case irQueries[a[0]] && len(a) >= 2:
		if useStrict(e, a[1]) != "ok" {
			return "err"
		}
		return ledOp(e, a)
	case a[0] == "notify" && len(a) == 2:
		return notifyChecked(e, a)
	case a[0] == "use" && len(a) == 2:
		return useStrict(e, a[1])
	case a[0] == "restart" && len(a) == 1:
		in.abortRemoval()
		if done, err := in.restartAtCommitBoundary(x.forkPick); done {
			// the removal step before this op committed more than once: the process dies between two of its commits
			x.forkPick++
			if e.wm != nil {
				e.wm.VerifEnsureTaskChan()
			}
			return errTok(err)
		}
		r := errTok(e.Restart())
		if e.wm != nil {
			e.wm.VerifEnsureTaskChan()
		}
		return r
	case a[0] == "import" && len(a) == 4:
		n, err := strconv.ParseUint(a[3], 10, 32)
		if err != nil {
			return "bad-op"
		}
		return x.doImport(in, a[1], a[2], uint32(n))
	case a[0] == "importq" && len(a) == 4:
		n, err := strconv.ParseUint(a[3], 10, 32)
		if err != nil {
			return "bad-op"
		}
		return strings.SplitN(x.doImport(in, a[1], a[2], uint32(n)), " ", 2)[0]
	case a[0] == "tasks" && len(a) == 1:
		return drainTasks(e)
	case a[0] == "inittasks" && len(a) == 1:
		e.wm.VerifInitTaskChan()
		return "ok"
	case a[0] == "impstep" && len(a) == 2:
		return impStep(e, a[1], false)
	case a[0] == "impstep!" && len(a) == 2:
		return impStep(e, a[1], true)
	case a[0] == "impstepn" && len(a) == 3:
		var n string
		r := impStepDuring(e, a[1], false, func() { n = notifyChecked(e, []string{"notify", a[2]}) })
		return n + "/" + r
	case a[0] == "impsteps" && len(a) == 3:
		n, err := strconv.Atoi(a[2])
		if err != nil {
			return "bad-op"
		}
		for i := 0; i < n; i++ {
			if r := impStep(e, a[1], false); r == "bad-op" || strings.HasPrefix(r, "PANIC") {
				return r
			}
		}
		return "ok"
	case a[0] == "expired" && len(a) == 1:
		return expiredTok(e)
	case a[0] == "mempool" && len(a) == 1:
		var items []string
		for _, h := range e.wm.VerifMempool() {
			items = append(items, e.txName(h.String()))
		}
		return joinSorted(items)
	case a[0] == "twin" && len(a) == 2:
		return twinObs(x.inst1().e, a[1]) + "|" + twinObs(x.inst2().e, a[1])
	case a[0] == "fill" && len(a) == 4:
		k, err1 := strconv.Atoi(a[1])
		m, err2 := strconv.Atoi(a[3])
		if err1 != nil || err2 != nil || k < 0 || k > 5000 {
			return "bad-op"
		}
		return x.fill(k, a[2], m)
	case a[0] == "remove" && len(a) == 3:
		return removeWallet(e, a[1], a[2])
	case a[0] == "rembegin" && len(a) == 2:
		return in.remBegin(a[1])
	case a[0] == "remstep" && len(a) == 1:
		return in.remStep()
	case a[0] == "remquit" && len(a) == 1:
		return in.remQuit()
	case a[0] == "remsteps" && len(a) == 2:
		n, err := strconv.Atoi(a[1])
		if err != nil || in.rm == nil {
			return "bad-op"
		}
		for i := 0; i < n && in.rm.res == ""; i++ {
			if r := in.remStep(); strings.HasPrefix(r, "PANIC") {
				return r
			}
		}
		return "ok"
	case a[0] == "residue" && len(a) == 2:
		return residue(e, a[1], false)
	case a[0] == "pendmention" && len(a) == 2:
		return residue(e, a[1], true)
	case a[0] == "dangling" && len(a) == 1:
		return dangling(e)
	case a[0] == "stalepend" && len(a) == 1:
		return stalePend(e, x.inst1().e.chain)
	case a[0] == "tx" && len(a) == 5 && strings.Contains(a[4], ":bindbad:"):
		// A:amt:bindbad:N = binding template paid to holder A whose 22-byte target has no address form
		// (type byte 2): consensus accepts it, the node indexes the transaction under A's script hash,
		// the wallet reads the script as unsupported (model: class raw WITH the address; fix D41)
		outs := splitList(a[4])
		for i, o := range outs {
			p := strings.Split(o, ":")
			if len(p) == 4 && p[2] == "bindbad" {
				ai, err := e.addr(p[0])
				if err != nil {
					return "err"
				}
				t := sha256.Sum256([]byte("badtarget:" + p[3]))
				t[20], t[21] = 2, 32
				outs[i] = "raw:" + p[1] + ":0020" + hex.EncodeToString(ai.sh) + "16" + hex.EncodeToString(t[:22])
			}
		}
		b := append([]string{}, a...)
		b[4] = strings.Join(outs, ";")
		return ledOp(e, b)
	}
	return ledOp(e, a)
}

// ---------------------------------------------------------------- import

func walletStatusTok(e *WEnv, w string) string {
	for _, it := range strings.Split(e.Wallets(), ",") {
		if strings.HasPrefix(it, w+":") {
			return it[len(w)+1:]
		}
	}
	return "absent"
}

func (x *irExec) doImport(in *irInst, w, how string, n uint32) string {
	e := in.e
	src := x.inst1().e
	mn, ok := src.mnemonic[w]
	if !ok {
		return "bad-op"
	}
	var sum *masswallet.WalletSummary
	var err error
	switch how {
	case "mn":
		sum, err = e.wm.ImportWalletWithMnemonic(&keystore.WalletParams{Version: keystore.KeystoreVersion0, Mnemonic: mn,
			PrivatePassphrase: []byte(privPass(w)), ExternalIndex: n, AddressGapLimit: e.cfg.Wallet.Settings.AddressGapLimit})
	case "ks":
		// the exported keystore of instance 1 (carries its own address counters); a wallet that no
		// longer exists there cannot be exported
		id, ok := src.wallets[w]
		if !ok {
			return "bad-op"
		}
		js, err2 := src.wm.ExportWallet(id, privPass(w))
		if err2 != nil {
			return "err-export"
		}
		sum, err = e.wm.ImportWallet(js, privPass(w))
	default:
		return "bad-op"
	}
	if err != nil {
		switch err {
		case masswallet.ErrTooManyTask:
			return "err-busy"
		case keystore.ErrDuplicateSeed:
			return "err-dup"
		}
		if verifDebug {
			fmt.Fprintln(os.Stderr, "  [impl error] import:", err)
		}
		return "err"
	}
	if id, ok := e.wallets[w]; ok && id != sum.WalletID {
		return "err-id-mismatch"
	}
	e.wallets[w] = sum.WalletID
	e.walletRev[sum.WalletID] = w
	// the address set the imported keystore manages, by symbolic name
	am, err := e.wm.VerifKeystoreManager().GetAddrManagerByAccountID(sum.WalletID)
	if err != nil {
		return "err-noaddrmgr"
	}
	var names []string
	for _, ma := range am.ManagedAddresses() {
		if ai, ok := e.addrBySH[string(ma.ScriptAddress())]; ok {
			names = append(names, ai.name)
		} else {
			names = append(names, "?")
		}
	}
	return "ok " + walletStatusTok(e, w) + " " + joinSorted(names)
}

func drainTasks(e *WEnv) string {
	types, ids := e.wm.VerifDrainTasks()
	var items []string
	for i, t := range types {
		n := e.walletRev[ids[i]]
		if n == "" {
			n = "?"
		}
		k := "import"
		if t == masswallet.WalletTaskRemove {
			k = "remove"
		}
		items = append(items, k+":"+n)
	}
	if len(items) == 0 {
		return "-"
	}
	return strings.Join(items, ",") // queue order is part of the behaviour
}

// importBatch runs ONE asyncImport batch, playing the follower's side of the hand-shake.
func importBatch(wm *masswallet.WalletManager, id string) (fin bool, err error) {
	type res struct {
		fin bool
		err error
	}
	sus, rsm := wm.VerifHandshake()
	done := make(chan res, 1)
	go func() {
		defer func() {
			if r := recover(); r != nil {
				done <- res{false, fmt.Errorf("PANIC %v", r)}
			}
		}()
		f, e := wm.VerifAsyncImport(id)
		done <- res{f, e}
	}()
	select {
	case <-sus:
		<-rsm
		r := <-done
		return r.fin, r.err
	case r := <-done:
		return r.fin, r.err
	}
}

func impStep(e *WEnv, w string, force bool) string { return impStepDuring(e, w, force, nil) }

// impStepDuring: `during` (if any) runs exactly once: while the worker waits in suspend when a batch is run, otherwise
// before the answer is given.
func impStepDuring(e *WEnv, w string, force bool, during func()) string {
	ran := false
	run := func() {
		if during != nil && !ran {
			ran = true
			during()
		}
	}
	defer run()
	id, ok := e.wallets[w]
	if !ok {
		return "bad-op"
	}
	// the worker only runs asyncImport for a queued task, and tasks exist only for wallets that
	// are not ready: a finished import is never stepped again (`impstep!` forces the call)
	if !force {
		if st := walletStatusTok(e, w); st == "ready" || st == "removing" {
			return "idle"
		}
	}
	var fin bool
	var err error
	if during != nil {
		fin, err = importBatchDuring(e.wm, id, run)
	} else {
		fin, err = importBatch(e.wm, id)
	}
	if err != nil {
		switch err {
		case masswallet.ErrImportingContinuable:
			return "err-continuable"
		case masswallet.ErrMaybeChainRevoked:
			return "err-revoked"
		case txmgr.ErrUnexpectedCreditNotFound:
			return "err-nocredit"
		case keystore.ErrAccountNotFound:
			return "err-nowallet"
		}
		if strings.HasPrefix(err.Error(), "PANIC") {
			return "PANIC " + strings.ReplaceAll(err.Error()[6:], "\n", " ")
		}
		if verifDebug {
			fmt.Fprintln(os.Stderr, "  [impl error] impstep:", err)
		}
		return "err"
	}
	if fin {
		return "fin"
	}
	return "more"
}

func expiredTok(e *WEnv) string {
	m := e.wm.VerifExpiredMempool()
	var items []string
	for h, hs := range m {
		var ns []string
		for _, x := range hs {
			ns = append(ns, e.txName(x.String()))
		}
		sort.Strings(ns)
		items = append(items, fmt.Sprintf("%08d=%s", h, strings.Join(ns, "+")))
	}
	return joinSorted(items)
}

// usedAddrs: names of the addresses of wallet w that the wallet lists with history (either class).
func usedAddrs(e *WEnv, w string) string {
	seen := map[string]bool{}
	for _, cl := range []uint16{massutil.AddressClassWitnessV0, massutil.AddressClassWitnessStaking} {
		ds, err := e.wm.GetAddresses(cl)
		if err != nil {
			return "err"
		}
		for _, d := range ds {
			if d.Used {
				seen[e.addrName(d.Address)] = true
			}
		}
	}
	var items []string
	for n := range seen {
		items = append(items, n)
	}
	return joinSorted(items)
}

// twinObs: everything C07 compares between the original and the restored wallet.
func twinObs(e *WEnv, w string) string {
	if useStrict(e, w) != "ok" {
		return "err"
	}
	return strings.Join([]string{e.Balance(w, 1), e.Utxos(w), usedAddrs(e, w), e.StakingHistory(w, false, false),
		e.BindingHistory(w, false, false)}, ";")
}

// fill: K empty blocks (a coinbase paying stranger X0) on the node's tip.
func (x *irExec) fill(k int, tag string, m int) string {
	e := x.inst1().e
	for i := 1; i <= k; i++ {
		x.fillN++
		tn := fmt.Sprintf("c%s.%d", tag, i)
		bn := fmt.Sprintf("%s.%d", tag, i)
		if err := e.DefineTx(tn, []string{"cb"}, []string{"X0:1"}, uint64(1000000+x.fillN)); err != nil {
			return "err"
		}
		if err := e.DefineBlock(bn, e.Tip().name, []string{tn}); err != nil {
			return "err"
		}
		if err := e.Submit(bn); err != nil {
			return "err"
		}
		if m&1 != 0 {
			if err := e.wm.VerifProcessBlock(e.blocks[bn].msg); err != nil {
				return "err-notify1"
			}
		}
		if m&2 != 0 {
			if err := x.inst2().e.wm.VerifProcessBlock(e.blocks[bn].msg); err != nil {
				return "err-notify2"
			}
		}
	}
	return "ok"
}

// stalePend: transactions of the persistent pending set that can never confirm on the node's
// chain because one of their inputs is spent there by another transaction.
func stalePend(e *WEnv, chain []string) string {
	hs, _, err := e.wm.VerifUnmined()
	if err != nil {
		return "err"
	}
	type op struct {
		h [32]byte
		i uint32
	}
	spentBy := map[op][32]byte{}
	for _, bn := range chain {
		bi := e.blocks[bn]
		for k, tx := range bi.msg.Transactions {
			if k == 0 {
				continue
			}
			for _, in := range tx.TxIn {
				spentBy[op{in.PreviousOutPoint.Hash, in.PreviousOutPoint.Index}] = tx.TxHash()
			}
		}
	}
	var items []string
	for _, h := range hs {
		ti, ok := e.txByHash[h]
		if !ok {
			items = append(items, "?")
			continue
		}
		for _, in := range ti.msg.TxIn {
			if by, ok := spentBy[op{in.PreviousOutPoint.Hash, in.PreviousOutPoint.Index}]; ok && by != h {
				items = append(items, ti.name)
				break
			}
		}
	}
	return joinSorted(items)
}

// notifyChecked delivers the notification and then checks the rescan-cursor rule of C07 against
// the block tree (MW.Props.C07.pullBack_spec is the model-side theorem): the fork point of the
// follower's previous tip and the notified block bounds every cursor of a wallet that is still
// importing. On code where the rule holds the output is exactly ledOp's.
func notifyChecked(e *WEnv, a []string) string {
	bi, ok := e.blocks[a[1]]
	if !ok {
		return ledOp(e, a)
	}
	_, oldHash := e.wm.VerifBestBlock()
	res := ledOp(e, a)
	if res != "ok" {
		return res
	}
	ob, ok := e.blkByHash[oldHash]
	if !ok {
		return res
	}
	x, y := ob, bi
	for x != nil && y != nil && x.height > y.height {
		x = e.blocks[x.prev]
	}
	for x != nil && y != nil && y.height > x.height {
		y = e.blocks[y.prev]
	}
	for x != nil && y != nil && x.name != y.name {
		x, y = e.blocks[x.prev], e.blocks[y.prev]
	}
	if x == nil || y == nil {
		return res
	}
	fork := x.height
	ws, err := e.wm.Wallets()
	if err != nil {
		return res
	}
	var bad []string
	for _, w := range ws {
		if !w.Status.Ready() && w.Status.SyncedHeight > fork {
			n := e.walletRev[w.WalletID]
			if n == "" {
				n = "?"
			}
			bad = append(bad, n)
		}
	}
	if len(bad) == 0 {
		return res
	}
	sort.Strings(bad)
	return res + " cursor-above-fork:" + strings.Join(bad, ",")
}
