package main

// Engine kv (C11): the wallet database driven through its public interface
// (masswallet/db: View / Update / BeginTx / BeginReadTx, buckets, iterators) on the REAL on-disk
// LevelDB driver (masswallet/db/ldb).  The database directory lives under the current working
// directory of `exec` (a /dev/shm scratch dir).
//
// Line protocol (after the engine token `kv`):
//
//   begin w|u|r|v          w = db.BeginTx, u = db.Update(closure), r = db.BeginReadTx, v = db.View(closure)
//   commit | rollback      end the open write transaction (w: Commit()/Rollback(); u: closure returns nil / an error)
//   endr                   end the open read transaction
//   probe                  try to begin a second write transaction  -> acquired | blocked
//   reopen                 Close + OpenDB (only with no transaction open)
//   raw                    every raw key=value pair of the underlying goleveldb (model: its committed store)
//   create S P             CreateTopLevelBucket / NewBucket of the last name of path P
//   delb   S P             DeleteTopLevelBucket / DeleteBucket
//   has    S P             navigation TopLevelBucket(n1).Bucket(n2)… != nil
//   hasf   S P             tx.FetchBucket(a fresh BucketMeta of path P) != nil
//   put S P K V | get S P K | del S P K | clear S P | prefix S P K | names S P
//   iter S P START LIMIT SCRIPT     SCRIPT = comma separated steps: n (Next) | s<hex> (Seek) | a (Next until false)
//   iterp S P PREFIX SCRIPT         the same on bucket.NewIterator(db.BytesPrefix(PREFIX))
//
//   meta  S M P            register M := <navigate P>.GetBucketMeta()           -> ok | nobucket
//   fetch S H M            register H := tx.FetchBucket(meta M) (nil clears H)  -> yes | no
//   keep  S H P            register H := <navigate P>           (nil clears H)  -> yes | no
//   via H <data op line>   the data op through the KEPT bucket handle H of the op's slot; its path is
//                          relative to the handle ("/" = the handle itself)
//   dead <data op line>    the data op (slot token r) through the read transaction ended last (after Rollback)
//   deadvia H <data op line>   … through bucket handle H of that ended read transaction
//
// S = w|r (transaction slot), P = "/" (transaction level) or hex bucket names joined by "/",
// K/V/START/LIMIT hex ("-" = empty).  Every plain data op navigates from the transaction again;
// bucket handles survive only in the registers of keep / fetch (per transaction), BucketMeta
// objects in the registers of meta (per history).
//
// Canonicalisation: errors -> err:<enum>; a nil bucket -> nobucket; results whose order comes
// from a Go map iteration (prefix / names inside a WRITE transaction) are sorted, everything read
// in a read-only transaction is reported in the order the implementation returned it.

import (
	"bytes"
	"errors"
	"fmt"
	"os"
	"path/filepath"
	"sort"
	"strconv"
	"strings"
	"sync"
	"time"

	"github.com/massnetorg/mass-core/logging"
	"github.com/syndtr/goleveldb/leveldb"
	"massnet.org/mass-wallet/masswallet/db"
	"massnet.org/mass-wallet/masswallet/db/ldb"
)

func init() {
	register(&Engine{Name: "kv", Gen: genKv, NewExec: func() Exec { return &kvExec{} }})
}

var errKvSentinel = errors.New("kv harness: closure asks for rollback")

type kvWrite struct {
	regs  map[int]db.Bucket
	tx    db.DBTransaction
	style string // "w" direct, "u" inside db.Update
	fin   chan error
	res   chan error
}

type kvRead struct {
	regs  map[int]db.Bucket
	tx    db.ReadTransaction
	style string // "r" direct, "v" inside db.View
	fin   chan error
	res   chan error
}

type kvExec struct {
	n       int
	dir     string
	d       db.DB
	w       *kvWrite
	r       *kvRead
	probes  []chan struct{}
	metas   map[int]db.BucketMeta // BucketMeta objects kept by the caller (they outlive transactions)
	dead    *kvRead               // the read transaction ended last: its handle and bucket handles, still held
	resets  int
	opsOnDB int
}

var kvLogOnce sync.Once

func (x *kvExec) open() {
	if x.d != nil {
		return
	}
	x.n++
	cwd, err := os.Getwd()
	if err != nil {
		panic(err)
	}
	// the driver logs through mass-core/logging, whose default sink is a file in /tmp plus stdout:
	// send it to the scratch directory instead and keep only fatal messages
	kvLogOnce.Do(func() { logging.Init(filepath.Join(cwd, "kvlog"), "kv.log", logging.FatalLevel, 1, true) })
	x.dir = filepath.Join(cwd, fmt.Sprintf("kvdb-%d-%d", os.Getpid(), x.n))
	os.RemoveAll(x.dir)
	d, err := db.CreateDB("leveldb", x.dir)
	if err != nil {
		panic("kv harness: cannot create database: " + err.Error())
	}
	x.d = d
	x.opsOnDB = 0
}

func (x *kvExec) waitProbes() {
	for _, c := range x.probes {
		<-c
	}
	x.probes = nil
}

func (x *kvExec) endWrite(commit bool) string {
	w := x.w
	x.w = nil
	var out string
	if w.style == "w" {
		var err error
		if commit {
			err = w.tx.Commit()
		} else {
			err = w.tx.Rollback()
		}
		out = kvErr(err)
	} else {
		if commit {
			w.fin <- nil
			out = kvErr(<-w.res)
		} else {
			w.fin <- errKvSentinel
			if err := <-w.res; err == errKvSentinel {
				out = "ok"
			} else {
				out = "err:update-lost-error"
			}
		}
	}
	x.waitProbes()
	return out
}

func (x *kvExec) endRead() string {
	r := x.r
	x.r = nil
	x.dead = r
	if r.style == "r" {
		return kvErr(r.tx.Rollback())
	}
	r.fin <- nil
	return kvErr(<-r.res)
}

func (x *kvExec) shutdown() {
	if x.w != nil {
		x.endWrite(false)
	}
	if x.r != nil {
		x.endRead()
	}
	if x.d != nil {
		x.d.Close()
		x.d = nil
	}
	if x.dir != "" {
		os.RemoveAll(x.dir)
		x.dir = ""
	}
}

// Reset starts a new history on an empty database.  Opening a database costs ~20 ms (the driver
// asks goleveldb for a 128 MiB write buffer), so most resets empty the store through the raw
// goleveldb handle instead (hook ldb.VerifRawLevelDB); every 64th reset, and any reset that
// cannot wipe, closes the database, removes its directory and creates a fresh one.  So does a
// reset after more than 3000 ops on one database: wiping leaves the old versions in goleveldb's
// 128 MiB memtable, and iterators slow down skipping them.
func (x *kvExec) Reset() {
	x.resets++
	x.metas = nil
	defer func() { x.dead = nil }()
	if x.d == nil || x.resets%64 == 0 || x.opsOnDB > 3000 {
		x.shutdown()
		return
	}
	if x.w != nil {
		x.endWrite(false)
	}
	if x.r != nil {
		x.endRead()
	}
	raw := ldb.VerifRawLevelDB(x.d)
	if raw == nil {
		x.shutdown()
		return
	}
	b := new(leveldb.Batch)
	it := raw.NewIterator(nil, nil)
	for it.Next() {
		b.Delete(it.Key())
	}
	it.Release()
	if it.Error() != nil || raw.Write(b, nil) != nil {
		x.shutdown()
	}
}

func (x *kvExec) rawDump() string {
	raw := ldb.VerifRawLevelDB(x.d)
	if raw == nil {
		return "err:other"
	}
	var items []string
	it := raw.NewIterator(nil, nil)
	defer it.Release()
	for it.Next() {
		items = append(items, hexTok(it.Key())+"="+hexTok(it.Value()))
	}
	return strings.TrimSpace("n:" + strconv.Itoa(len(items)) + " " + strings.Join(items, " "))
}
func (x *kvExec) Close() { x.shutdown() }

func kvErr(err error) string {
	switch err {
	case nil:
		return "ok"
	case db.ErrBucketExist:
		return "err:exist"
	case db.ErrBucketNotFound:
		return "err:bucket-not-found"
	case db.ErrInvalidBucketName:
		return "err:invalid-name"
	case db.ErrIllegalKey:
		return "err:illegal-key"
	case db.ErrIllegalValue:
		return "err:illegal-value"
	case db.ErrNotSupported:
		return "err:not-supported"
	case db.ErrIllegalBucketPath:
		return "err:illegal-path"
	case db.ErrWriteNotAllowed:
		return "err:write-not-allowed"
	case db.ErrInvalidArgument:
		return "err:invalid-argument"
	case leveldb.ErrSnapshotReleased:
		return "err:released"
	}
	return "err:other"
}

// parsePath: "/" = no names; otherwise hex names separated by "/".
func kvParsePath(s string) ([]string, bool) {
	if s == "/" {
		return nil, true
	}
	var names []string
	for _, t := range strings.Split(s, "/") {
		b, ok := unhexTok(t)
		if !ok || t == "" {
			return nil, false
		}
		names = append(names, string(b))
	}
	return names, true
}

func kvNav(tx db.ReadTransaction, names []string) db.Bucket {
	if len(names) == 0 {
		return nil
	}
	b := tx.TopLevelBucket(names[0])
	for _, n := range names[1:] {
		if b == nil {
			return nil
		}
		b = b.Bucket(n)
	}
	return b
}

// kvMeta is a BucketMeta as GetBucketMeta builds it: Paths = [depth, names…].
type kvMeta struct{ paths []string }

func (m *kvMeta) Paths() []string { return m.paths }
func (m *kvMeta) Name() string    { return m.paths[len(m.paths)-1] }
func (m *kvMeta) Depth() int      { return len(m.paths) - 1 }

func kvEntries(es []*db.Entry, sorted bool) string {
	items := make([]string, 0, len(es))
	if sorted {
		es = append([]*db.Entry(nil), es...)
		sort.SliceStable(es, func(i, j int) bool { return bytes.Compare(es[i].Key, es[j].Key) < 0 })
	}
	for _, e := range es {
		items = append(items, hexTok(e.Key)+"="+hexTok(e.Value))
	}
	return strings.TrimSpace("n:" + strconv.Itoa(len(es)) + " " + strings.Join(items, " "))
}

func kvNames(ns []string, sorted bool) string {
	if sorted {
		ns = append([]string(nil), ns...)
		sort.Strings(ns)
	}
	items := make([]string, 0, len(ns))
	for _, n := range ns {
		items = append(items, hexTok([]byte(n)))
	}
	return strings.TrimSpace("n:" + strconv.Itoa(len(ns)) + " " + strings.Join(items, " "))
}

const kvIterCap = 4096 // steps of one `a`; the store of a history is far smaller

func kvIter(b db.Bucket, start, limit []byte, script string) string {
	var rg *db.Range
	// a nil Range and an all-empty Range are the same request; exercise both spellings
	if len(start) != 0 || len(limit) != 0 || len(script)%2 == 0 {
		rg = &db.Range{Start: start, Limit: limit}
	}
	return kvIterRange(b, rg, script)
}

func kvIterRange(b db.Bucket, rg *db.Range, script string) string {
	it := b.NewIterator(rg)
	defer it.Release()
	var out []string
	rec := func(ok bool) {
		t := "F"
		if ok {
			t = "T"
		}
		out = append(out, t+":"+hexTok(it.Key())+":"+hexTok(it.Value()))
	}
	for _, st := range strings.Split(script, ",") {
		switch {
		case st == "n":
			rec(it.Next())
		case st == "a":
			for i := 0; i < kvIterCap; i++ {
				ok := it.Next()
				rec(ok)
				if !ok {
					break
				}
			}
		case strings.HasPrefix(st, "s"):
			k, ok := unhexTok(st[1:])
			if !ok {
				return "bad-op"
			}
			rec(it.Seek(k))
		default:
			return "bad-op"
		}
	}
	if err := it.Error(); err != nil {
		return kvErr(err)
	}
	return strings.Join(out, " ")
}

// kvConc: W goroutines commit N small write transactions each (two records + a per-writer tip) through db.Update on a
// database of their own, a reader goroutine keeps opening read transactions meanwhile; afterwards every committed record
// must be present with exactly the value written and every tip must be the last one. Writers are serialised by the
// driver (one write transaction at a time) - a commit that releases the writer lock before its batch is written lets the
// next writer reset / refill the shared batch (seed C17-4): records are lost or carry another transaction's content.
func kvConc(w, n int) string {
	cwd, err := os.Getwd()
	if err != nil {
		return "err:cwd"
	}
	dir := filepath.Join(cwd, fmt.Sprintf("kvconc-%d-%d", os.Getpid(), time.Now().UnixNano()))
	os.RemoveAll(dir)
	d, err := db.CreateDB("leveldb", dir)
	if err != nil {
		return "err:create"
	}
	defer os.RemoveAll(dir)
	defer d.Close()
	if err := db.Update(d, func(tx db.DBTransaction) error { _, e := tx.CreateTopLevelBucket("c"); return e }); err != nil {
		return "err:bucket"
	}
	key := func(g, i, j int) []byte { return []byte(fmt.Sprintf("k-%d-%06d-%d", g, i, j)) }
	val := func(g, i, j int) []byte { return []byte(fmt.Sprintf("v-%d-%06d-%d-%s", g, i, j, strings.Repeat("x", (g+i+j)%40))) }
	var wg sync.WaitGroup
	errs := make(chan string, w+1)
	stop := make(chan struct{})
	for g := 0; g < w; g++ {
		wg.Add(1)
		go func(g int) {
			defer wg.Done()
			defer func() {
				if r := recover(); r != nil {
					errs <- fmt.Sprintf("PANIC:%v", r)
				}
			}()
			for i := 0; i < n; i++ {
				e := db.Update(d, func(tx db.DBTransaction) error {
					b := tx.TopLevelBucket("c")
					if b == nil {
						return errors.New("no bucket")
					}
					for j := 0; j < 2; j++ {
						if e := b.Put(key(g, i, j), val(g, i, j)); e != nil {
							return e
						}
					}
					return b.Put([]byte(fmt.Sprintf("tip-%d", g)), []byte(strconv.Itoa(i)))
				})
				if e != nil {
					errs <- "err:update"
					return
				}
			}
		}(g)
	}
	rdone := make(chan struct{})
	go func() {
		defer close(rdone)
		for {
			select {
			case <-stop:
				return
			default:
			}
			db.View(d, func(tx db.ReadTransaction) error {
				if b := tx.TopLevelBucket("c"); b != nil {
					b.Get([]byte("tip-0"))
				}
				return nil
			})
		}
	}()
	wg.Wait()
	close(stop)
	<-rdone
	select {
	case e := <-errs:
		return e
	default:
	}
	lost, wrong, okc := 0, 0, 0
	db.View(d, func(tx db.ReadTransaction) error {
		b := tx.TopLevelBucket("c")
		if b == nil {
			lost = w * n
			return nil
		}
		for g := 0; g < w; g++ {
			for i := 0; i < n; i++ {
				good := true
				for j := 0; j < 2; j++ {
					v, _ := b.Get(key(g, i, j))
					if v == nil {
						good = false
						lost++
					} else if !bytes.Equal(v, val(g, i, j)) {
						good = false
						wrong++
					}
				}
				if good {
					okc++
				}
			}
			if v, _ := b.Get([]byte(fmt.Sprintf("tip-%d", g))); string(v) != strconv.Itoa(n-1) {
				wrong++
			}
		}
		return nil
	})
	if lost > 0 || wrong > 0 {
		return fmt.Sprintf("LOST %d WRONG %d of %d", lost, wrong, w*n)
	}
	return fmt.Sprintf("ok %d", okc)
}

func (x *kvExec) Exec(a []string) string {
	if len(a) == 0 {
		return "bad-op"
	}
	x.open()
	x.opsOnDB++
	switch a[0] {
	case "begin":
		if len(a) != 2 {
			return "bad-op"
		}
		switch a[1] {
		case "w":
			if x.w != nil {
				return "bad-op"
			}
			tx, err := x.d.BeginTx()
			if err != nil {
				return kvErr(err)
			}
			x.w = &kvWrite{tx: tx, style: "w", regs: map[int]db.Bucket{}}
			return "ok"
		case "u":
			if x.w != nil {
				return "bad-op"
			}
			w := &kvWrite{style: "u", regs: map[int]db.Bucket{}, fin: make(chan error), res: make(chan error, 1)}
			txc := make(chan db.DBTransaction)
			d := x.d
			go func() {
				entered := false
				err := db.Update(d, func(tx db.DBTransaction) error {
					entered = true
					txc <- tx
					return <-w.fin
				})
				if !entered {
					txc <- nil
				}
				w.res <- err
			}()
			w.tx = <-txc
			if w.tx == nil {
				return kvErr(<-w.res)
			}
			x.w = w
			return "ok"
		case "r":
			if x.r != nil {
				return "bad-op"
			}
			tx, err := x.d.BeginReadTx()
			if err != nil {
				return kvErr(err)
			}
			x.r = &kvRead{tx: tx, style: "r", regs: map[int]db.Bucket{}}
			return "ok"
		case "v":
			if x.r != nil {
				return "bad-op"
			}
			r := &kvRead{style: "v", regs: map[int]db.Bucket{}, fin: make(chan error), res: make(chan error, 1)}
			txc := make(chan db.ReadTransaction)
			d := x.d
			go func() {
				entered := false
				err := db.View(d, func(tx db.ReadTransaction) error {
					entered = true
					txc <- tx
					return <-r.fin
				})
				if !entered {
					txc <- nil
				}
				r.res <- err
			}()
			r.tx = <-txc
			if r.tx == nil {
				return kvErr(<-r.res)
			}
			x.r = r
			return "ok"
		}
		return "bad-op"
	case "commit", "rollback":
		if len(a) != 1 || x.w == nil {
			return "bad-op"
		}
		return x.endWrite(a[0] == "commit")
	case "endr":
		if len(a) != 1 || x.r == nil {
			return "bad-op"
		}
		return x.endRead()
	case "probe":
		if len(a) != 1 {
			return "bad-op"
		}
		if x.w == nil {
			// no writer: BeginTx must succeed at once (a hang here is caught by the stream timeout)
			tx, err := x.d.BeginTx()
			if err != nil {
				return kvErr(err)
			}
			tx.Rollback()
			return "acquired"
		}
		got := make(chan struct{}, 1)
		done := make(chan struct{})
		d := x.d
		go func() {
			tx, err := d.BeginTx()
			got <- struct{}{}
			if err == nil {
				tx.Rollback()
			}
			close(done)
		}()
		x.probes = append(x.probes, done)
		select {
		case <-got:
			return "acquired"
		case <-time.After(15 * time.Millisecond):
			return "blocked"
		}
	case "raw":
		if len(a) != 1 {
			return "bad-op"
		}
		return x.rawDump()
	case "conc":
		if len(a) != 3 {
			return "bad-op"
		}
		w, e1 := strconv.Atoi(a[1])
		n, e2 := strconv.Atoi(a[2])
		if e1 != nil || e2 != nil || w < 1 || w > 8 || n < 1 || n > 2000 {
			return "bad-op"
		}
		return kvConc(w, n)
	case "reopen":
		if len(a) != 1 || x.w != nil || x.r != nil {
			return "bad-op"
		}
		if err := x.d.Close(); err != nil {
			return "err:close"
		}
		d, err := db.OpenDB("leveldb", x.dir)
		if err != nil {
			x.d = nil
			return kvErr(err)
		}
		x.d = d
		return "ok"
	}
	// ops on kept handles
	switch a[0] {
	case "via", "deadvia":
		if len(a) < 5 {
			return "bad-op"
		}
		h, err := strconv.Atoi(a[1])
		if err != nil {
			return "bad-op"
		}
		if a[0] == "deadvia" {
			if a[3] != "r" {
				return "bad-op"
			}
			if x.dead == nil {
				return "no-tx"
			}
			hb, ok := x.dead.regs[h]
			if !ok {
				return "nobucket"
			}
			return x.dataOp(a[2:], x.dead.tx, false, hb)
		}
		rt, regs, write, st := x.slot(a[3])
		if st != "" {
			return st
		}
		hb, ok := regs[h]
		if !ok {
			return "nobucket"
		}
		return x.dataOp(a[2:], rt, write, hb)
	case "dead":
		if len(a) < 4 || a[2] != "r" {
			return "bad-op"
		}
		if x.dead == nil {
			return "no-tx"
		}
		return x.dataOp(a[1:], x.dead.tx, false, nil)
	case "meta", "fetch", "keep":
		if len(a) != 4 {
			return "bad-op"
		}
		rt, regs, _, st := x.slot(a[1])
		if st != "" {
			return st
		}
		n, err := strconv.Atoi(a[2])
		if err != nil {
			return "bad-op"
		}
		switch a[0] {
		case "meta":
			names, ok := kvParsePath(a[3])
			if !ok {
				return "bad-op"
			}
			b := kvNav(rt, names)
			if b == nil {
				return "nobucket"
			}
			if x.metas == nil {
				x.metas = map[int]db.BucketMeta{}
			}
			x.metas[n] = b.GetBucketMeta()
			return "ok"
		case "keep":
			names, ok := kvParsePath(a[3])
			if !ok {
				return "bad-op"
			}
			b := kvNav(rt, names)
			if b == nil {
				delete(regs, n)
				return "no"
			}
			regs[n] = b
			return "yes"
		default:
			mi, err := strconv.Atoi(a[3])
			if err != nil {
				return "bad-op"
			}
			m, ok := x.metas[mi]
			if !ok {
				return "bad-op"
			}
			b := rt.FetchBucket(m)
			if b == nil {
				delete(regs, n)
				return "no"
			}
			regs[n] = b
			return "yes"
		}
	}
	// data ops
	if len(a) < 3 {
		return "bad-op"
	}
	rt, _, write, st := x.slot(a[1])
	if st != "" {
		return st
	}
	return x.dataOp(a, rt, write, nil)
}

// slot resolves a transaction slot token: the transaction, its handle registers, whether it is the writer.
func (x *kvExec) slot(tok string) (db.ReadTransaction, map[int]db.Bucket, bool, string) {
	switch tok {
	case "w":
		if x.w == nil {
			return nil, nil, false, "no-tx"
		}
		return x.w.tx, x.w.regs, true, ""
	case "r":
		if x.r == nil {
			return nil, nil, false, "no-tx"
		}
		return x.r.tx, x.r.regs, false, ""
	}
	return nil, nil, false, "bad-op"
}

// dataOp runs one data op line a = [op, slot, path, …] in transaction rt.  With root == nil the
// path is navigated from the transaction; otherwise it is relative to the kept bucket handle root
// (no lookup at all for the empty path: the method is called on the handle as it is).
func (x *kvExec) dataOp(a []string, rt db.ReadTransaction, write bool, root db.Bucket) string {
	if len(a) < 3 {
		return "bad-op"
	}
	nav := func(names []string) db.Bucket {
		if root == nil {
			return kvNav(rt, names)
		}
		b := root
		for _, n := range names {
			if b == nil {
				return nil
			}
			b = b.Bucket(n)
		}
		return b
	}
	names, ok := kvParsePath(a[2])
	if !ok {
		return "bad-op"
	}
	arg := func(i int) ([]byte, bool) {
		if i >= len(a) {
			return nil, false
		}
		return unhexTok(a[i])
	}
	switch a[0] {
	case "create", "delb":
		if len(a) != 3 || len(names) == 0 {
			return "bad-op"
		}
		last := names[len(names)-1]
		if len(names) == 1 && root == nil {
			wt, ok := rt.(db.DBTransaction) // the driver's transaction type serves both interfaces
			if !ok {
				return "err:write-not-allowed"
			}
			if a[0] == "create" {
				_, err := wt.CreateTopLevelBucket(last)
				return kvErr(err)
			}
			return kvErr(wt.DeleteTopLevelBucket(last))
		}
		p := nav(names[:len(names)-1])
		if p == nil {
			return "nobucket"
		}
		if a[0] == "create" {
			_, err := p.NewBucket(last)
			return kvErr(err)
		}
		return kvErr(p.DeleteBucket(last))
	case "has":
		if len(a) != 3 || (len(names) == 0 && root == nil) {
			return "bad-op"
		}
		if nav(names) == nil {
			return "no"
		}
		return "yes"
	case "hasf":
		if len(a) != 3 || len(names) == 0 {
			return "bad-op"
		}
		m := &kvMeta{paths: append([]string{strconv.Itoa(len(names))}, names...)}
		if rt.FetchBucket(m) == nil {
			return "no"
		}
		return "yes"
	case "names":
		if len(a) != 3 {
			return "bad-op"
		}
		var ns []string
		var err error
		if len(names) == 0 && root == nil {
			ns, err = rt.BucketNames()
		} else {
			b := nav(names)
			if b == nil {
				return "nobucket"
			}
			ns, err = b.BucketNames()
		}
		if err != nil {
			return kvErr(err)
		}
		return kvNames(ns, write)
	}
	if len(names) == 0 && root == nil {
		return "bad-op"
	}
	b := nav(names)
	if b == nil {
		return "nobucket"
	}
	switch a[0] {
	case "put":
		k, ok1 := arg(3)
		v, ok2 := arg(4)
		if len(a) != 5 || !ok1 || !ok2 {
			return "bad-op"
		}
		return kvErr(b.Put(k, v))
	case "get":
		k, ok1 := arg(3)
		if len(a) != 4 || !ok1 {
			return "bad-op"
		}
		v, err := b.Get(k)
		if err != nil {
			return kvErr(err)
		}
		if v == nil {
			return "nil"
		}
		return "v:" + hexTok(v)
	case "del":
		k, ok1 := arg(3)
		if len(a) != 4 || !ok1 {
			return "bad-op"
		}
		return kvErr(b.Delete(k))
	case "clear":
		if len(a) != 3 {
			return "bad-op"
		}
		return kvErr(b.Clear())
	case "prefix":
		k, ok1 := arg(3)
		if len(a) != 4 || !ok1 {
			return "bad-op"
		}
		es, err := b.GetByPrefix(k)
		if err != nil {
			return kvErr(err)
		}
		return kvEntries(es, write)
	case "iterp":
		pre, ok1 := arg(3)
		if len(a) != 5 || !ok1 {
			return "bad-op"
		}
		return kvIterRange(b, db.BytesPrefix(pre), a[4])
	case "iter":
		s, ok1 := arg(3)
		l, ok2 := arg(4)
		if len(a) != 6 || !ok1 || !ok2 {
			return "bad-op"
		}
		return kvIter(b, s, l, a[5])
	}
	return "bad-op"
}
