package main

// Generator of engine api (C19): ledGen chain histories interleaved with type-directed API requests.
// Every request field is drawn from a per-type distribution: mostly valid values taken from the
// generator's own view of the history (known / pending / orphaned transactions, owned / foreign
// addresses, right passphrases), boundary values, and malformed ones (wrong length, non-hex, wrong class,
// over-long, empty). Wallet states visited: no wallet selected (start, restart), ready, removing
// (RemoveWallet accepted, removal not yet run), removed, importing (ImportWallet on a chain with
// history, import batches pending), coins pending / spent / reserved by an earlier create call.

import (
	"fmt"
	"sort"
	"strings"
)

type apiGen struct {
	l        *ledGen
	g        *Gen
	precise  bool              // the Lean model still tracks the wallet store exactly: emit `res`
	cur      string            // wallet in use ("" none)
	exported map[string]bool   // keystores exported
	removing map[string]bool   // RemoveWallet accepted, not yet run
	removed  map[string]bool
	import_  map[string]bool   // importing, batches pending
	nW       int
	nA       int
	haveRawc bool
	haveRaws bool
	rawTx    []string // names of crafted transactions (never mined) for decode / sign
}

func (a *apiGen) rn(n int) int { return a.g.Rng.Intn(n) }
func (a *apiGen) pick(xs ...string) string { return xs[a.rn(len(xs))] }

// methods outside the anchored files (block_service.go): driven, not modelled
var apiUnmodelled = map[string]bool{"GetBestBlock": true, "GetBlockByHeight": true, "GetBlockStakingReward": true}

func (a *apiGen) call(class, m string, args ...string) {
	a.g.Op("call-"+m, "call %s%s", m, joinArgs(args))
	a.g.Stats["req-"+class]++
	if !a.precise || apiUnmodelled[m] {
		return
	}
	for _, x := range args {
		// the content of the last created / signed transaction and of a cut serialization is not
		// known to the model
		if x == "rawc" || x == "raws" || strings.HasPrefix(x, "cut:") && strings.Contains(x, ":raw:") {
			return
		}
	}
	a.g.Op("res", "res")
}

func joinArgs(args []string) string {
	if len(args) == 0 {
		return ""
	}
	return " " + strings.Join(args, " ")
}

// ---------------------------------------------------------------- field distributions

func (a *apiGen) knownTxs() []string {
	var ns []string
	for n := range a.l.defined {
		ns = append(ns, n)
	}
	sort.Strings(ns)
	return ns
}

// txid token and the number of outputs of that transaction (0 if unknown)
func (a *apiGen) txid() (string, int, string) {
	ks := a.knownTxs()
	switch k := a.rn(20); {
	case k < 12 && len(ks) > 0:
		n := ks[a.rn(len(ks))]
		return "tx:" + n, len(a.l.defined[n].outs), "known"
	case k < 14 && len(a.l.pool) > 0:
		t := a.l.pool[a.rn(len(a.l.pool))]
		return "tx:" + t.name, len(t.outs), "pending"
	case k < 16:
		return fmt.Sprintf("txu:%d", a.rn(5)), 0, "unknown"
	case k == 16:
		return "rep:63:61", 0, "short"
	case k == 17:
		return "rep:65:62", 0, "long"
	case k == 18:
		return "rep:64:7a", 0, "nonhex"
	default:
		return a.pick("-", "rep:300:61", "a:0", "h:00ff"), 0, "garbage"
	}
}

func (a *apiGen) vout(nOuts int) string {
	switch k := a.rn(10); {
	case k < 6 && nOuts > 0:
		return fmt.Sprint(a.rn(nOuts))
	case k < 8:
		return fmt.Sprint(nOuts + a.rn(2))
	case k == 8:
		return "4294967295"
	default:
		return fmt.Sprint(a.rn(4))
	}
}

// a coin (tx, vout) of wallet w that is unspent on the node's tip, if any
func (a *apiGen) ownCoin(w string) (gCoin, bool) {
	var cs []gCoin
	for _, c := range sortedCoins(a.l.tip().utxo) {
		if a.l.owner[c.addr] == w && c.amt > 0 {
			cs = append(cs, c)
		}
	}
	if len(cs) == 0 {
		return gCoin{}, false
	}
	return cs[a.rn(len(cs))], true
}

func (a *apiGen) inputs() string {
	n := 1 + a.rn(2)
	if a.rn(12) == 0 {
		return "-"
	}
	var items []string
	for i := 0; i < n; i++ {
		if a.cur != "" && a.rn(3) > 0 {
			if c, ok := a.ownCoin(a.cur); ok {
				items = append(items, fmt.Sprintf("tx:%s/%d", c.tx, c.idx))
				a.g.Stats["in-own-coin"]++
				continue
			}
		}
		// boundary: an unconfirmed transaction the wallet knows, output index exactly one past its last output
		// (the range check of the manual-input path differs for mined and for unmined previous transactions)
		if len(a.l.pool) > 0 && a.rn(8) == 0 {
			t := a.l.pool[a.rn(len(a.l.pool))]
			items = append(items, fmt.Sprintf("tx:%s/%d", t.name, len(t.outs)))
			a.g.Stats["in-pending-vout-eq-len"]++
			continue
		}
		t, no, cls := a.txid()
		a.g.Stats["in-"+cls]++
		items = append(items, t+"/"+a.vout(no))
	}
	if a.rn(10) == 0 { // the same output named twice
		items = append(items, items[0])
		a.g.Stats["in-duplicate"]++
	}
	return strings.Join(items, ",")
}

func (a *apiGen) ownAddr() string {
	if a.cur != "" && len(a.l.addrs[a.cur]) > 0 {
		as := a.l.addrs[a.cur]
		return as[a.rn(len(as))]
	}
	return ""
}

func (a *apiGen) addr() (string, string) {
	switch k := a.rn(20); {
	case k < 8:
		if x := a.ownAddr(); x != "" {
			return "addr:" + x, "own"
		}
		return "xaddr:X1", "stranger"
	case k < 10:
		if x := a.ownAddr(); x != "" {
			return "saddr:" + x, "own-staking"
		}
		return "saddr:X1", "stranger-staking"
	case k < 12:
		// address of another wallet
		for _, w := range a.l.wallets {
			if w != a.cur && len(a.l.addrs[w]) > 0 {
				return "addr:" + a.l.addrs[w][0], "other-wallet"
			}
		}
		return "xaddr:X2", "stranger"
	case k < 14:
		return fmt.Sprintf("xaddr:X%d", 1+a.rn(3)), "stranger"
	case k == 14:
		return a.pick("pkh:1", "bt:1"), "binding-target"
	case k == 15:
		return "-", "empty"
	case k == 16:
		return "rep:101:61", "overlong"
	case k == 17:
		if x := a.ownAddr(); x != "" {
			return "cut:20:addr:" + x, "truncated"
		}
		return "cut:20:xaddr:X1", "truncated"
	default:
		return a.pick("a:notanaddress", "a:ms1qqqqqqqqqqqqqqqq", "h:00ff10", "a:bc1qw508d6qejxtdg4y5r3zarvary0c5xw7kv8f3t4"), "garbage"
	}
}

func (a *apiGen) amount() (string, string) {
	switch k := a.rn(20); {
	case k < 9:
		return "a:" + a.pick("1", "0.5", "2.25", "10", "0.0001", "100", "0.00000001"), "valid"
	case k < 11:
		return "a:0", "zero"
	case k == 11:
		return a.pick("a:206000000", "a:206000001", "a:9223372036854775807"), "huge"
	case k == 12:
		return "a:-1", "negative"
	case k == 13:
		return a.pick("a:1.123456789", "a:1e5", "a:0x10", "a:1.+5"), "malformed"
	case k == 14:
		return "-", "empty"
	case k == 15:
		return a.pick("a:abc", "h:d9a3", "a:."), "garbage"
	case k == 16:
		return "rep:400:39", "overlong"
	default:
		return "a:" + a.pick("0.001", "3", "0.1"), "valid"
	}
}

func (a *apiGen) amounts() string {
	n := a.rn(4)
	if n == 0 && a.rn(3) > 0 {
		n = 1
	}
	if n == 0 {
		return "-"
	}
	var items []string
	seen := map[string]bool{}
	invalid := 0 // Go map iteration order is random: at most one entry may fail validation
	for i := 0; i < n; i++ {
		ad, c1 := a.addr()
		am, c2 := a.amount()
		bad := !(c1 == "own" || c1 == "stranger" || c1 == "other-wallet") || c2 != "valid"
		if bad && invalid > 0 {
			ad, c1 = fmt.Sprintf("xaddr:X%d", 1+i), "stranger"
			am, c2 = "a:0.25", "valid"
			bad = false
		}
		if seen[ad] {
			continue
		}
		if bad {
			invalid++
		}
		seen[ad] = true
		a.g.Stats["amt-"+c2]++
		a.g.Stats["addr-"+c1]++
		items = append(items, ad+">"+am)
	}
	if len(items) == 0 {
		return "-"
	}
	return strings.Join(items, ",")
}

func (a *apiGen) pass(w string) (string, string) {
	switch k := a.rn(10); {
	case k < 6 && w != "":
		return "pass:" + w, "right"
	case k < 7:
		return "a:wrongpass123", "wrong"
	case k == 7:
		return "a:abc", "short"
	case k == 8:
		return "rep:41:61", "long"
	default:
		return a.pick("-", "pass:W9"), "wrong"
	}
}

func (a *apiGen) wid() (string, string, string) {
	ws := a.l.wallets
	switch k := a.rn(10); {
	case k < 6 && len(ws) > 0:
		w := ws[a.rn(len(ws))]
		return "wid:" + w, w, "known"
	case k < 8:
		return "wid:W99", "", "unknown"
	case k == 8:
		return "rep:41:61", "", "short"
	default:
		return a.pick("-", "rep:43:61", "rep:500:62"), "", "garbage"
	}
}

func (a *apiGen) hexBlob() (string, string) {
	ks := a.knownTxs()
	switch k := a.rn(20); {
	case k < 6 && len(ks) > 0:
		return "raw:" + ks[a.rn(len(ks))], "defined-tx"
	case k < 9 && len(a.rawTx) > 0:
		return "raw:" + a.rawTx[a.rn(len(a.rawTx))], "crafted-tx"
	case k < 11 && a.haveRawc:
		return "rawc", "created"
	case k < 12 && a.haveRaws:
		return "raws", "signed"
	case k < 14 && len(ks) > 0:
		return fmt.Sprintf("cut:%d:raw:%s", 1+a.rn(120), ks[a.rn(len(ks))]), "truncated"
	case k == 14:
		return "-", "empty"
	case k == 15:
		return "a:zz", "nonhex"
	case k == 16:
		return "a:abc", "odd"
	case k == 17:
		return "rep:3000:30", "long-zero"
	default:
		return a.pick("h:00", "a:00", "a:0100000000", "a:ffffffffffffffffffff"), "garbage"
	}
}

// ---------------------------------------------------------------- requests

func (a *apiGen) request() {
	l := a.l
	switch k := a.rn(40); k {
	case 0:
		a.call("plain", "Wallets")
	case 1:
		t, w, c := a.wid()
		_ = w
		a.g.Stats["wid-"+c]++
		eng := a.g.Engine
		a.g.Engine = "api" // precise even in robust mode: depends on the wallet status only
		a.g.Op("call-UseWallet", "call UseWallet %s", t)
		if c == "known" && !a.removing[w] && !a.removed[w] && !a.import_[w] {
			a.cur = w
		}
		a.g.Op("res", "res")
		a.g.Engine = eng
	case 2:
		a.call("bal", "GetWalletBalance", a.pick("0", "1", "6", "-1", "2147483647", "-2147483648"), a.pick("0", "1"))
	case 3:
		a.call("ver", "GetAddresses", a.pick("0", "1", "0", "1", "2", "-1", "65536", "65537", "2147483647"))
	case 4:
		var as []string
		for i, n := 0, a.rn(3); i < n; i++ {
			t, c := a.addr()
			a.g.Stats["addr-"+c]++
			as = append(as, t)
		}
		lst := "-"
		if len(as) > 0 {
			lst = strings.Join(as, ",")
		}
		a.call("abal", "GetAddressBalance", a.pick("0", "1", "-1", "3"), lst)
	case 5:
		t, c := a.addr()
		a.g.Stats["addr-"+c]++
		a.call("validate", "ValidateAddress", t)
	case 6:
		var as []string
		for i, n := 0, a.rn(3); i < n; i++ {
			t, c := a.addr()
			a.g.Stats["addr-"+c]++
			as = append(as, t)
		}
		lst := "-"
		if len(as) > 0 {
			lst = strings.Join(as, ",")
		}
		a.call("utxo", "GetUtxo", lst)
	case 7, 8:
		t, c := a.hexBlob()
		a.g.Stats["hex-"+c]++
		a.call("decode", "DecodeRawTransaction", t)
	case 9, 10, 11, 12:
		ch := "-"
		if a.rn(3) == 0 {
			ch, _ = a.addr()
		}
		sub := "-"
		if a.rn(4) == 0 {
			sub, _ = a.addr()
		}
		lt := a.pick("0", "0", "0", "0", "0", "0", "1", "9223372036854775807", "9223372036854775808", "18446744073709551615")
		a.call("create", "CreateRawTransaction", a.inputs(), a.amounts(), lt, ch, sub)
		a.haveRawc = true
	case 13, 14:
		fee, _ := a.amount()
		from, ch := "-", "-"
		if a.rn(3) == 0 {
			from, _ = a.addr()
		}
		if a.rn(3) == 0 {
			ch, _ = a.addr()
		}
		a.call("auto", "AutoCreateTransaction", a.amounts(), a.pick("0", "0", "0", "5", "9223372036854775808"), fee, from, ch)
		a.haveRawc = true
	case 15, 16, 17, 18:
		t, c := a.hexBlob()
		a.g.Stats["hex-"+c]++
		p, pc := a.pass(a.cur)
		a.g.Stats["pass-"+pc]++
		a.call("sign", "SignRawTransaction", t, a.pick("-", "-", "a:ALL", "a:NONE", "a:SINGLE", "a:ALL|ANYONECANPAY", "a:NONE|ANYONECANPAY", "a:SINGLE|ANYONECANPAY", "a:all", "a:XYZ", "rep:300:41"), p)
		a.haveRaws = true
	case 19, 20:
		ins := "-"
		if a.rn(2) == 0 {
			ins = a.inputs()
		}
		// boundary for the manual fee estimate: an unconfirmed transaction the wallet knows, output index
		// one past (or far past) its last output - estimateSignedSize indexes the previous transaction's outputs
		if len(a.l.pool) > 0 && a.rn(4) == 0 {
			t := a.l.pool[a.rn(len(a.l.pool))]
			ins = fmt.Sprintf("tx:%s/%d", t.name, len(t.outs)+a.rn(2)*97)
			a.g.Stats["fee-in-pending-vout-ge-len"]++
		}
		a.call("fee", "GetTransactionFee", a.amounts(), ins, a.pick("0", "0", "1"))
	case 21:
		t, _, c := a.txid()
		a.g.Stats["txid-"+c]++
		a.call("rawtx", "GetRawTransaction", t)
	case 22:
		t, _, c := a.txid()
		a.g.Stats["txid-"+c]++
		a.call("status", "GetTxStatus", t)
	case 23:
		from := "-"
		if a.rn(2) == 0 {
			from, _ = a.addr()
		}
		st, _ := a.addr()
		if a.rn(2) == 0 && a.ownAddr() != "" {
			st = "saddr:" + a.ownAddr()
		}
		am, _ := a.amount()
		if a.rn(2) == 0 {
			am = a.pick("a:2048", "a:3000", "a:2047.99999999")
		}
		fee, _ := a.amount()
		a.call("stake", "CreateStakingTransaction", from, st, am, a.pick("0", "3", "10", "61440", "4294967295", "1"), fee)
	case 24, 25:
		ad := "-"
		if a.rn(2) == 0 {
			ad, _ = a.addr()
		}
		a.call("hist", "TxHistory", a.pick("0", "1", "2", "10", "1000", "1001", "4294967295"), ad)
	case 26:
		a.call("shist", "GetStakingHistory", a.pick("-", "a:all", "a:ALL", "rep:200:61"))
	case 27:
		a.call("bhist", "GetBindingHistory", a.pick("-", "a:all", "a:x"))
	case 28:
		var os []string
		for i, n := 0, a.rn(3); i < n; i++ {
			h, _ := a.addr()
			tg := a.pick("pkh:1", "pkh:2", "bt:1", "bt:2", "addr:"+a.ownAddr(), "-", "a:junk")
			am, _ := a.amount()
			os = append(os, h+"/"+tg+"/"+am)
		}
		o := "-"
		if len(os) > 0 {
			o = strings.Join(os, ",")
		}
		from := "-"
		if a.rn(3) == 0 {
			from, _ = a.addr()
		}
		fee, _ := a.amount()
		a.call("bind", "CreateBindingTransaction", o, from, fee)
	case 29:
		from, _ := a.addr()
		a.call("poolpk", "CreatePoolPkCoinbaseTransaction", from, a.pick("-", "a:zz", "a:0001", "a:00", "rep:200:30", "a:0001"+strings.Repeat("ab", 60)))
	case 30:
		a.call("netbind", "GetNetworkBinding", a.pick("0", "1", "5", "1000000", "18446744073709551615"))
	case 31:
		a.call("poolcb", "CheckPoolPkCoinbase", a.pick("-", "a:zz", "a:00", "a:"+strings.Repeat("ab", 48), "a:00,a:"+strings.Repeat("cd", 48)))
	case 32:
		a.call("target", "CheckTargetBinding", a.pick("-", "pkh:1", "bt:1", "pkh:1,bt:2,a:junk", "a:junk", "addr:"+a.ownAddr(), "rep:200:61"))
	case 33:
		a.call("plain", "GetClientStatus")
	case 34:
		a.call("plain", a.pick("GetBestBlock", "QuitClient"))
	case 35:
		if a.rn(2) == 0 {
			a.call("blk", "GetBlockByHeight", a.pick("0", "1", "2", "99999", "18446744073709551615"))
		} else {
			a.call("blk", "GetBlockStakingReward", a.pick("0", "1", "2", "99999", "18446744073709551615"))
		}
	case 36:
		t, w, c := a.wid()
		a.g.Stats["wid-"+c]++
		p, pc := a.pass(w)
		a.g.Stats["pass-"+pc]++
		a.call("mnemonic", "GetWalletMnemonic", t, p)
	case 37:
		// new address through the API (bound to the next symbolic name on success)
		v := a.pick("0", "0", "1", "2", "-1", "65536")
		a.nA++
		name := fmt.Sprintf("A%d", 500+a.nA)
		a.g.Op("call-CreateAddress", "call CreateAddress %s %s", name, v)
		if a.precise {
			a.g.Op("res", "res")
		}
		if a.cur != "" && (v == "0" || v == "65536") && !a.removing[a.cur] {
			l.addrs[a.cur] = append(l.addrs[a.cur], name)
			l.owner[name] = a.cur
		}
	case 38:
		t, w, c := a.wid()
		a.g.Stats["wid-"+c]++
		p, pc := a.pass(w)
		a.g.Stats["pass-"+pc]++
		a.call("export", "ExportWallet", t, p)
		if c == "known" && pc == "right" {
			a.exported[w] = true
		}
	default:
		t, c := a.hexBlob()
		a.g.Stats["hex-"+c]++
		a.call("send", "SendRawTransaction", t)
	}
}

// crafted transactions with template-violating output scripts (never mined): decode / sign material
var craftedScripts = []string{
	"6a04deadbeef",                 // OP_RETURN data
	"51",                           // OP_1
	"0014" + "11223344556677889900aabbccddeeff00112233", // witness v0, 20-byte program
	"0020" + "11223344556677889900aabbccddeeff00112233445566778899aabbccddeeff",     // plain P2WSH (foreign)
	"4c",                           // truncated OP_PUSHDATA1
	"00204c",                       // truncated
	"0020" + "11223344556677889900aabbccddeeff00112233445566778899aabbccddeeff" + "15" + "00112233445566778899aabbccddeeff0011223344", // binding, 21-byte target
	"0020" + "11223344556677889900aabbccddeeff00112233445566778899aabbccddeeff" + "16" + "00112233445566778899aabbccddeeff001122330520", // binding, 22-byte target with bad type/size
	"0020" + "11223344556677889900aabbccddeeff00112233445566778899aabbccddeeff" + "16" + "00112233445566778899aabbccddeeff001122330020", // binding, valid 22-byte target
	"5121" + "02" + "ffffffffffffffffffffffffffffffffffffffffffffffffffffffffffffffff" + "51ae",                                    // 1-of-1 multisig, off-curve key
	"5121" + "0279be667ef9dcbbac55a06295ce870b07029bfcdb2dce28d959f2815b16f81798" + "51ae",                                             // 1-of-1 multisig, generator point
	"0020" + "11223344556677889900aabbccddeeff00112233445566778899aabbccddeeff" + "08" + "0000000000000000", // staking, frozen 0
	"76a914" + "11223344556677889900aabbccddeeff00112233" + "88ac",                                                                     // p2pkh
	"",
}

func (a *apiGen) craft() {
	l := a.l
	l.nTx++
	name := fmt.Sprintf("T%d", l.nTx)
	var outs []string
	n := 1 + a.rn(2)
	for i := 0; i < n; i++ {
		s := craftedScripts[a.rn(len(craftedScripts))]
		if s == "" {
			s = "-"
		}
		outs = append(outs, fmt.Sprintf("raw:%d:%s", a.rn(3), s))
	}
	// spends a known transaction's output so that it is a well-formed non-coinbase transaction
	ks := a.knownTxs()
	if len(ks) == 0 {
		return
	}
	src := ks[a.rn(len(ks))]
	a.g.Op("tx-crafted", "tx %s %d %s:0 %s", name, l.nTx, src, strings.Join(outs, ";"))
	a.rawTx = append(a.rawTx, name)
}


// ---------------------------------------------------------------- mostly-valid flows

// coinsOfCur: coins of the wallet in use by state: unspent on the tip, created by a pending tx, spent on the chain
func (a *apiGen) flowCoin() (string, int, string) {
	l := a.l
	w := a.cur
	switch k := a.rn(10); {
	case k < 5:
		if c, ok := a.ownCoin(w); ok {
			return c.tx, c.idx, "unspent"
		}
	case k < 8:
		for _, t := range l.pool {
			for _, c := range outCoins(t, 0) {
				if l.owner[c.addr] == w && c.amt > 0 {
					return c.tx, c.idx, "pending-" + c.cls
				}
			}
		}
	default:
		// an output of the wallet that is no longer on the tip view (spent or reorganised away)
		for _, n := range a.knownTxs() {
			t := l.defined[n]
			for _, c := range outCoins(t, 0) {
				if l.owner[c.addr] == w && c.amt > 0 {
					if _, live := l.tip().utxo[c.key()]; !live {
						return c.tx, c.idx, "spent-or-gone"
					}
				}
			}
		}
	}
	if c, ok := a.ownCoin(w); ok {
		return c.tx, c.idx, "unspent"
	}
	return "", 0, ""
}

// flowSign: a client-built transaction spending a coin of the wallet, signed with the right passphrase
func (a *apiGen) flowSign() {
	if a.cur == "" {
		return
	}
	tx, idx, st := a.flowCoin()
	if tx == "" {
		return
	}
	l := a.l
	l.nTx++
	name := fmt.Sprintf("T%d", l.nTx)
	outs := fmt.Sprintf("%s:%d", l.stranger(), 1+a.rn(50))
	if a.rn(4) == 0 {
		outs += fmt.Sprintf(";%s:%d", l.someAddr(a.cur), 1+a.rn(20))
	}
	ins := fmt.Sprintf("%s:%d", tx, idx)
	if a.rn(5) == 0 { // second input: anything
		t2, n2, _ := a.txid()
		if strings.HasPrefix(t2, "tx:") && n2 > 0 {
			ins += fmt.Sprintf(";%s:%d", t2[3:], a.rn(n2+1))
		}
	}
	a.g.Op("tx-client", "tx %s %d %s %s", name, l.nTx, ins, outs)
	a.rawTx = append(a.rawTx, name)
	p, pc := a.pass(a.cur)
	if a.rn(4) > 0 {
		p, pc = "pass:"+a.cur, "right"
	}
	a.g.Stats["pass-"+pc]++
	a.g.Stats["sign-"+st]++
	a.call("sign-flow", "SignRawTransaction", "raw:"+name, a.pick("-", "-", "a:ALL", "a:SINGLE", "a:NONE|ANYONECANPAY"), p)
	a.haveRaws = true
	if a.rn(3) == 0 {
		a.call("send-flow", "SendRawTransaction", "raws")
	}
}

// flowCreate: manual create from coins of the wallet, then sign it
func (a *apiGen) flowCreate() {
	if a.cur == "" {
		return
	}
	var ins []string
	for i, n := 0, 1+a.rn(2); i < n; i++ {
		tx, idx, st := a.flowCoin()
		if tx == "" {
			return
		}
		a.g.Stats["create-"+st]++
		ins = append(ins, fmt.Sprintf("tx:%s/%d", tx, idx))
	}
	am := a.pick("a:0.01", "a:0.5", "a:1", "a:0.00001")
	a.call("create-flow", "CreateRawTransaction", strings.Join(ins, ","), fmt.Sprintf("xaddr:X%d>%s", 1+a.rn(2), am), a.pick("0", "0", "7"), "-", "-")
	a.haveRawc = true
	a.call("sign-flow", "SignRawTransaction", "rawc", "-", "pass:"+a.cur)
	a.haveRaws = true
	if a.rn(2) == 0 {
		a.call("decode", "DecodeRawTransaction", a.pick("rawc", "raws"))
	}
}

// flowAuto: automatic create with sane arguments, then sign
func (a *apiGen) flowAuto() {
	if a.cur == "" {
		return
	}
	switch a.rn(4) {
	case 0:
		a.call("auto-flow", "AutoCreateTransaction", fmt.Sprintf("xaddr:X1>%s", a.pick("a:0.01", "a:0.3", "a:2")), "0", a.pick("-", "a:0.0001", "a:0.01"), "-", "-")
	case 1:
		if x := a.ownAddr(); x != "" {
			a.call("stake-flow", "CreateStakingTransaction", "-", "saddr:"+x, a.pick("a:2048", "a:0.5"), a.pick("3", "10", "61440"), "a:0.0001")
		}
	case 2:
		if x := a.ownAddr(); x != "" {
			a.call("bind-flow", "CreateBindingTransaction", fmt.Sprintf("addr:%s/%s/%s", x, a.pick("pkh:1", "bt:1", "bt:2"), a.pick("a:0.1", "a:1")), "-", "a:0.0001")
		}
	default:
		a.call("fee-flow", "GetTransactionFee", "xaddr:X1>a:0.5", "-", a.pick("0", "1"))
	}
	a.haveRawc = true
	if a.rn(2) == 0 {
		a.call("sign-flow", "SignRawTransaction", "rawc", "-", "pass:"+a.cur)
		a.haveRaws = true
	}
}

// recvBadIndex delivers an unconfirmed transaction one of whose inputs names an output index just past the
// end of a known transaction (the follower must refuse it with an error, not index out of range)
func (a *apiGen) recvBadIndex() {
	l := a.l
	ks := a.knownTxs()
	if len(ks) == 0 {
		return
	}
	src := l.defined[ks[a.rn(len(ks))]]
	l.nTx++
	name := fmt.Sprintf("T%d", l.nTx)
	a.g.Op("tx-badindex", "tx %s %d %s:%d %s:%d", name, l.nTx, src.name, len(src.outs)+a.rn(2), l.stranger(), 1+a.rn(9))
	a.g.Op("recvtx-badindex", "recvtx %s", name)
}

// craftPending delivers an unconfirmed transaction with template-violating outputs (it may be mined later)
func (a *apiGen) craftPending() {
	l := a.l
	u := map[string]gCoin{}
	for k, v := range l.tip().utxo {
		u[k] = v
	}
	for _, p := range l.pool {
		applyTx(u, p, l.tip().height+1)
	}
	ins := l.pickCoins(u, l.tip().height+1, "")
	if ins == nil {
		return
	}
	l.nTx++
	t := &gTx{name: fmt.Sprintf("T%d", l.nTx), ins: ins}
	var total int64
	var inSpecs []string
	for _, c := range ins {
		total += c.amt
		sp := c.key()
		if c.cls == "stk" {
			sp += fmt.Sprintf(":%d", c.frozen+1)
		}
		inSpecs = append(inSpecs, sp)
	}
	rest := total
	n := 1 + a.rn(3)
	for i := 0; i < n; i++ {
		amt := rest / int64(n-i+1)
		switch a.rn(5) {
		case 0:
			w := l.wallets[a.rn(len(l.wallets))]
			t.outs = append(t.outs, fmt.Sprintf("%s:%d:bindbad:%d", l.someAddr(w), amt, a.rn(3)))
			a.g.Stats["craft-bindbad"]++
		case 1:
			t.outs = append(t.outs, fmt.Sprintf("%s:%d", l.anyDest(), amt))
		default:
			sc := craftedScripts[a.rn(len(craftedScripts))]
			if sc == "" {
				sc = "-"
			}
			t.outs = append(t.outs, fmt.Sprintf("raw:%d:%s", amt, sc))
			a.g.Stats["craft-raw"]++
		}
		rest -= amt
	}
	t.line = fmt.Sprintf("tx %s %d %s %s", t.name, l.nTx, strings.Join(inSpecs, ";"), strings.Join(t.outs, ";"))
	l.define(t)
	l.pool = append(l.pool, t)
	l.op("recvtx-crafted", "recvtx %s", t.name)
}

func genApi(g *Gen) {
	nHist := g.Scale(60, 800)
	// keep generating (bounded) until every required class occurred: the coverage guard does not depend on the seed
	for h := 0; h < nHist || (!g.Covered() && h < 6*nHist); h++ {
		l := newLedGen(g, "api")
		a := &apiGen{l: l, g: g, precise: true, exported: map[string]bool{}, removing: map[string]bool{}, removed: map[string]bool{}, import_: map[string]bool{}}
		l.start(1 + g.Rng.Intn(2))
		a.cur = l.wallets[len(l.wallets)-1] // the harness selects the wallet whose address it issued last
		// requests before anything happened (no coins, maybe no wallet selected)
		if g.Rng.Intn(3) == 0 {
			g.Op("restart", "restart")
			a.cur = ""
		}
		for i := 0; i < 3; i++ {
			a.request()
		}
		steps := 8 + g.Rng.Intn(g.Scale(14, 30))
		for s := 0; s < steps; s++ {
			switch k := g.Rng.Intn(20); {
			case k < 8:
				l.extend()
			case k < 10:
				l.reorgTo(1+g.Rng.Intn(3), 1+g.Rng.Intn(2))
			case k < 14:
				l.recv()
			case k < 15:
				w := l.wallets[g.Rng.Intn(len(l.wallets))]
				if !a.removing[w] && !a.removed[w] && !a.import_[w] {
					l.newAddr(w)
					a.cur = w
				}
			case k < 16:
				switch g.Rng.Intn(5) {
				case 0, 1:
					a.craft()
				case 2:
					a.recvBadIndex()
				default:
					a.craftPending()
				}
			case k == 16:
				g.Op("restart", "restart")
				a.cur = ""
			default:
				l.processOne()
			}
			if g.Rng.Intn(3) > 0 {
				l.drain()
			}
			if a.cur == "" && g.Rng.Intn(2) == 0 && len(l.wallets) > 0 {
				w := l.wallets[g.Rng.Intn(len(l.wallets))]
				g.Op("call-UseWallet", "call UseWallet wid:%s", w)
				g.Op("res", "res")
				a.cur = w
			}
			for i, n := 0, 1+g.Rng.Intn(4); i < n; i++ {
				switch g.Rng.Intn(10) {
				case 0, 1:
					a.flowSign()
				case 2:
					a.flowCreate()
				case 3:
					a.flowAuto()
				default:
					a.request()
				}
			}
			if g.Rng.Intn(4) == 0 {
				g.Op("q-cur", "cur")
				l.observe(false)
			}
		}
		l.drain()
		l.observe(true)
		switch g.Rng.Intn(10) {
		case 0, 1, 2:
			// the real follower start-up, a request right behind it (task queue must exist), shutdown
			if g.Rng.Intn(2) == 0 {
				g.Op("startcall", "startcall ImportWallet a:{} pass:W1")
			} else {
				g.Op("startcall", "startcall RemoveWallet wid:%s a:wrongpass123", l.wallets[0])
			}
			g.Op("res", "res")
			a.cur = ""
			for i := 0; i < 2; i++ {
				a.request()
			}
		case 3, 4, 5, 6:
			a.transitions()
		}
	}
}

// transitions: export, remove, (requests while removing), run the removal, import on a chain with
// history, (requests while importing), run the import, more chain events. From the accepted removal on
// the Lean model no longer tracks the wallet store: ops are wrapped in `x` (robust mode).
func (a *apiGen) transitions() {
	g, l := a.g, a.l
	w := l.wallets[g.Rng.Intn(len(l.wallets))]
	g.Op("call-ExportWallet", "call ExportWallet wid:%s pass:%s", w, w)
	g.Op("res", "res")
	if g.Rng.Intn(4) == 0 {
		g.Op("call-RemoveWallet", "call RemoveWallet wid:%s a:wrongpass123", w)
		g.Op("res", "res")
	}
	g.Op("call-RemoveWallet", "call RemoveWallet wid:%s pass:%s", w, w)
	g.Op("res", "res")
	a.removing[w] = true
	// deliveries while the wallet is being removed (removal accepted, not yet run), still compared precisely:
	// the follower no longer counts the wallet as ready; real follower, ledger model and follower skeleton must agree
	if g.Rng.Intn(2) == 0 {
		// no new addresses meanwhile (NewAddr selects the wallet first, which a wallet being removed refuses)
		maxAddr := l.maxAddr
		l.maxAddr = 0
		defer func() { l.maxAddr = maxAddr }()
		for i, n := 0, 1+g.Rng.Intn(3); i < n; i++ {
			switch g.Rng.Intn(4) {
			case 0:
				l.reorgTo(1+g.Rng.Intn(2), 1+g.Rng.Intn(2))
			case 1:
				l.recv()
			default:
				l.extend()
			}
			l.drain()
		}
		g.Stats["deliver-removing"]++
	}
	a.precise = false
	g.Engine = "api x"
	defer func() { g.Engine = "api" }()
	plain := func(class, f string, args ...interface{}) {
		g.Engine = "api"
		g.Op(class, f, args...)
		g.Engine = "api x"
	}
	reqs := func(n int) {
		for i := 0; i < n; i++ {
			switch g.Rng.Intn(8) {
			case 0:
				a.flowSign()
			case 1:
				a.flowCreate()
			case 2:
				a.flowAuto()
			default:
				a.request()
			}
		}
		plain("q-wallets", "wallets")
		plain("q-cur", "cur")
	}
	g.Stats["state-removing"]++
	reqs(2 + g.Rng.Intn(3))
	if g.Rng.Intn(3) == 0 {
		l.extend()
		l.drain()
	}
	plain("rmrun", "rmrun %s", w)
	a.removing[w] = false
	a.removed[w] = true
	if a.cur == w {
		a.cur = ""
	}
	g.Stats["state-removed"]++
	reqs(1 + g.Rng.Intn(3))
	if g.Rng.Intn(5) == 0 {
		return
	}
	plain("call-ImportWallet", "call ImportWallet ks:%s pass:%s", w, w)
	a.removed[w] = false
	a.import_[w] = true
	g.Stats["state-importing"]++
	reqs(2 + g.Rng.Intn(3))
	if g.Rng.Intn(2) == 0 {
		l.extend()
		if g.Rng.Intn(2) == 0 {
			l.reorgTo(1+g.Rng.Intn(2), 1)
		}
		l.drain()
		reqs(1)
	}
	plain("impstep", "impstep %s", w)
	a.import_[w] = false
	g.Stats["state-imported"]++
	plain("call-UseWallet", "call UseWallet wid:%s", w)
	plain("res", "res")
	a.cur = w
	reqs(2 + g.Rng.Intn(3))
	for i, n := 0, g.Rng.Intn(4); i < n; i++ {
		switch g.Rng.Intn(3) {
		case 0:
			l.extend()
		case 1:
			l.recv()
		default:
			a.craftPending()
		}
		l.drain()
		reqs(1)
	}
}
