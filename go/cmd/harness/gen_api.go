package main

// Generator of engine api (C19): ledGen chain histories interleaved with type-directed API requests.
// Every request field is drawn from a per-type distribution: mostly valid values taken from the
// generator's own view of the history (known / pending / orphaned transactions, owned / foreign
// addresses, right passphrases), boundary values, and malformed ones (wrong length, non-hex, wrong class,
// over-long, empty). Wallet states visited: no wallet selected (start, restart), ready, removing
// (RemoveWallet accepted, removal not yet run), removed, importing (ImportWallet on a chain with
// history, import batches pending), coins pending / spent / reserved by an earlier create call.

import (
	"fmt"
	"sort"
	"strings"
)

type apiGen struct {
	l        *ledGen
	g        *Gen
	precise  bool              // the Lean model still tracks the wallet store exactly: emit `res`
	cur      string            // wallet in use ("" none)
	exported map[string]bool   // keystores exported
	removing map[string]bool   // RemoveWallet accepted, not yet run
	removed  map[string]bool
	import_  map[string]bool   // importing, batches pending
	nW       int
	nA       int
	haveRawc bool
	haveRaws bool
	rawTx    []string // names of crafted transactions (never mined) for decode / sign
}

func (a *apiGen) rn(n int) int { return a.g.Rng.Intn(n) }
func (a *apiGen) pick(xs ...string) string { return xs[a.rn(len(xs))] }

func (a *apiGen) call(class, m string, args ...string) {
	a.g.Op("call-"+m, "call %s%s", m, joinArgs(args))
	a.g.Stats["req-"+class]++
	if a.precise {
		a.g.Op("res", "res")
	}
}

func joinArgs(args []string) string {
	if len(args) == 0 {
		return ""
	}
	return " " + strings.Join(args, " ")
}

// ---------------------------------------------------------------- field distributions

func (a *apiGen) knownTxs() []string {
	var ns []string
	for n := range a.l.defined {
		ns = append(ns, n)
	}
	sort.Strings(ns)
	return ns
}

// txid token and the number of outputs of that transaction (0 if unknown)
func (a *apiGen) txid() (string, int, string) {
	ks := a.knownTxs()
	switch k := a.rn(20); {
	case k < 12 && len(ks) > 0:
		n := ks[a.rn(len(ks))]
		return "tx:" + n, len(a.l.defined[n].outs), "known"
	case k < 14 && len(a.l.pool) > 0:
		t := a.l.pool[a.rn(len(a.l.pool))]
		return "tx:" + t.name, len(t.outs), "pending"
	case k < 16:
		return fmt.Sprintf("txu:%d", a.rn(5)), 0, "unknown"
	case k == 16:
		return "rep:63:61", 0, "short"
	case k == 17:
		return "rep:65:62", 0, "long"
	case k == 18:
		return "rep:64:7a", 0, "nonhex"
	default:
		return a.pick("-", "rep:300:61", "a:0", "h:00ff"), 0, "garbage"
	}
}

func (a *apiGen) vout(nOuts int) string {
	switch k := a.rn(10); {
	case k < 6 && nOuts > 0:
		return fmt.Sprint(a.rn(nOuts))
	case k < 8:
		return fmt.Sprint(nOuts + a.rn(2))
	case k == 8:
		return "4294967295"
	default:
		return fmt.Sprint(a.rn(4))
	}
}

// a coin (tx, vout) of wallet w that is unspent on the node's tip, if any
func (a *apiGen) ownCoin(w string) (gCoin, bool) {
	var cs []gCoin
	for _, c := range sortedCoins(a.l.tip().utxo) {
		if a.l.owner[c.addr] == w && c.amt > 0 {
			cs = append(cs, c)
		}
	}
	if len(cs) == 0 {
		return gCoin{}, false
	}
	return cs[a.rn(len(cs))], true
}

func (a *apiGen) inputs() string {
	n := 1 + a.rn(2)
	if a.rn(12) == 0 {
		return "-"
	}
	var items []string
	for i := 0; i < n; i++ {
		if a.cur != "" && a.rn(3) > 0 {
			if c, ok := a.ownCoin(a.cur); ok {
				items = append(items, fmt.Sprintf("tx:%s/%d", c.tx, c.idx))
				a.g.Stats["in-own-coin"]++
				continue
			}
		}
		t, no, cls := a.txid()
		a.g.Stats["in-"+cls]++
		items = append(items, t+"/"+a.vout(no))
	}
	return strings.Join(items, ",")
}

func (a *apiGen) ownAddr() string {
	if a.cur != "" && len(a.l.addrs[a.cur]) > 0 {
		as := a.l.addrs[a.cur]
		return as[a.rn(len(as))]
	}
	return ""
}

func (a *apiGen) addr() (string, string) {
	switch k := a.rn(20); {
	case k < 8:
		if x := a.ownAddr(); x != "" {
			return "addr:" + x, "own"
		}
		return "xaddr:X1", "stranger"
	case k < 10:
		if x := a.ownAddr(); x != "" {
			return "saddr:" + x, "own-staking"
		}
		return "saddr:X1", "stranger-staking"
	case k < 12:
		// address of another wallet
		for _, w := range a.l.wallets {
			if w != a.cur && len(a.l.addrs[w]) > 0 {
				return "addr:" + a.l.addrs[w][0], "other-wallet"
			}
		}
		return "xaddr:X2", "stranger"
	case k < 14:
		return fmt.Sprintf("xaddr:X%d", 1+a.rn(3)), "stranger"
	case k == 14:
		return a.pick("pkh:1", "bt:1"), "binding-target"
	case k == 15:
		return "-", "empty"
	case k == 16:
		return "rep:101:61", "overlong"
	case k == 17:
		if x := a.ownAddr(); x != "" {
			return "cut:20:addr:" + x, "truncated"
		}
		return "cut:20:xaddr:X1", "truncated"
	default:
		return a.pick("a:notanaddress", "a:ms1qqqqqqqqqqqqqqqq", "h:00ff10", "a:bc1qw508d6qejxtdg4y5r3zarvary0c5xw7kv8f3t4"), "garbage"
	}
}

func (a *apiGen) amount() (string, string) {
	switch k := a.rn(20); {
	case k < 9:
		return "a:" + a.pick("1", "0.5", "2.25", "10", "0.0001", "100", "0.00000001"), "valid"
	case k < 11:
		return "a:0", "zero"
	case k == 11:
		return a.pick("a:206000000", "a:206000001", "a:9223372036854775807"), "huge"
	case k == 12:
		return "a:-1", "negative"
	case k == 13:
		return a.pick("a:1.123456789", "a:1e5", "a:0x10", "a:1.+5"), "malformed"
	case k == 14:
		return "-", "empty"
	case k == 15:
		return a.pick("a:abc", "h:d9a3", "a:."), "garbage"
	case k == 16:
		return "rep:400:39", "overlong"
	default:
		return "a:" + a.pick("0.001", "3", "0.1"), "valid"
	}
}

func (a *apiGen) amounts() string {
	n := a.rn(4)
	if n == 0 && a.rn(3) > 0 {
		n = 1
	}
	if n == 0 {
		return "-"
	}
	var items []string
	seen := map[string]bool{}
	for i := 0; i < n; i++ {
		ad, c1 := a.addr()
		if seen[ad] {
			continue
		}
		seen[ad] = true
		am, c2 := a.amount()
		a.g.Stats["amt-"+c2]++
		a.g.Stats["addr-"+c1]++
		items = append(items, ad+">"+am)
	}
	return strings.Join(items, ",")
}

func (a *apiGen) pass(w string) (string, string) {
	switch k := a.rn(10); {
	case k < 6 && w != "":
		return "pass:" + w, "right"
	case k < 7:
		return "a:wrongpass123", "wrong"
	case k == 7:
		return "a:abc", "short"
	case k == 8:
		return "rep:41:61", "long"
	default:
		return a.pick("-", "pass:W9"), "wrong"
	}
}

func (a *apiGen) wid() (string, string, string) {
	ws := a.l.wallets
	switch k := a.rn(10); {
	case k < 6 && len(ws) > 0:
		w := ws[a.rn(len(ws))]
		return "wid:" + w, w, "known"
	case k < 8:
		return "wid:W99", "", "unknown"
	case k == 8:
		return "rep:41:61", "", "short"
	default:
		return a.pick("-", "rep:43:61", "rep:500:62"), "", "garbage"
	}
}

func (a *apiGen) hexBlob() (string, string) {
	ks := a.knownTxs()
	switch k := a.rn(20); {
	case k < 6 && len(ks) > 0:
		return "raw:" + ks[a.rn(len(ks))], "defined-tx"
	case k < 9 && len(a.rawTx) > 0:
		return "raw:" + a.rawTx[a.rn(len(a.rawTx))], "crafted-tx"
	case k < 11 && a.haveRawc:
		return "rawc", "created"
	case k < 12 && a.haveRaws:
		return "raws", "signed"
	case k < 14 && len(ks) > 0:
		return fmt.Sprintf("cut:%d:raw:%s", 1+a.rn(120), ks[a.rn(len(ks))]), "truncated"
	case k == 14:
		return "-", "empty"
	case k == 15:
		return "a:zz", "nonhex"
	case k == 16:
		return "a:abc", "odd"
	case k == 17:
		return "rep:3000:30", "long-zero"
	default:
		return a.pick("h:00", "a:00", "a:0100000000", "a:ffffffffffffffffffff"), "garbage"
	}
}

// ---------------------------------------------------------------- requests

func (a *apiGen) request() {
	l := a.l
	switch k := a.rn(40); k {
	case 0:
		a.call("plain", "Wallets")
	case 1:
		t, w, c := a.wid()
		_ = w
		a.g.Stats["wid-"+c]++
		a.g.Op("call-UseWallet", "call UseWallet %s", t)
		if c == "known" && !a.removing[w] && !a.removed[w] && !a.import_[w] {
			a.cur = w
		}
		a.g.Op("res", "res") // depends on wallet status only
	case 2:
		a.call("bal", "GetWalletBalance", a.pick("0", "1", "6", "-1", "2147483647", "-2147483648"), a.pick("0", "1"))
	case 3:
		a.call("ver", "GetAddresses", a.pick("0", "1", "0", "1", "2", "-1", "65536", "65537", "2147483647"))
	case 4:
		var as []string
		for i, n := 0, a.rn(3); i < n; i++ {
			t, c := a.addr()
			a.g.Stats["addr-"+c]++
			as = append(as, t)
		}
		lst := "-"
		if len(as) > 0 {
			lst = strings.Join(as, ",")
		}
		a.call("abal", "GetAddressBalance", a.pick("0", "1", "-1", "3"), lst)
	case 5:
		t, c := a.addr()
		a.g.Stats["addr-"+c]++
		a.call("validate", "ValidateAddress", t)
	case 6:
		var as []string
		for i, n := 0, a.rn(3); i < n; i++ {
			t, c := a.addr()
			a.g.Stats["addr-"+c]++
			as = append(as, t)
		}
		lst := "-"
		if len(as) > 0 {
			lst = strings.Join(as, ",")
		}
		a.call("utxo", "GetUtxo", lst)
	case 7, 8:
		t, c := a.hexBlob()
		a.g.Stats["hex-"+c]++
		a.call("decode", "DecodeRawTransaction", t)
	case 9, 10, 11, 12:
		ch := "-"
		if a.rn(3) == 0 {
			ch, _ = a.addr()
		}
		sub := "-"
		if a.rn(4) == 0 {
			sub, _ = a.addr()
		}
		lt := a.pick("0", "0", "0", "1", "9223372036854775807", "9223372036854775808", "18446744073709551615")
		a.call("create", "CreateRawTransaction", a.inputs(), a.amounts(), lt, ch, sub)
		a.haveRawc = true
	case 13, 14:
		fee, _ := a.amount()
		from, ch := "-", "-"
		if a.rn(3) == 0 {
			from, _ = a.addr()
		}
		if a.rn(3) == 0 {
			ch, _ = a.addr()
		}
		a.call("auto", "AutoCreateTransaction", a.amounts(), a.pick("0", "0", "5", "9223372036854775808"), fee, from, ch)
		a.haveRawc = true
	case 15, 16, 17, 18:
		t, c := a.hexBlob()
		a.g.Stats["hex-"+c]++
		p, pc := a.pass(a.cur)
		a.g.Stats["pass-"+pc]++
		a.call("sign", "SignRawTransaction", t, a.pick("-", "-", "a:ALL", "a:NONE", "a:SINGLE", "a:ALL|ANYONECANPAY", "a:NONE|ANYONECANPAY", "a:SINGLE|ANYONECANPAY", "a:all", "a:XYZ", "rep:300:41"), p)
		a.haveRaws = true
	case 19, 20:
		ins := "-"
		if a.rn(2) == 0 {
			ins = a.inputs()
		}
		a.call("fee", "GetTransactionFee", a.amounts(), ins, a.pick("0", "0", "1"))
	case 21:
		t, _, c := a.txid()
		a.g.Stats["txid-"+c]++
		a.call("rawtx", "GetRawTransaction", t)
	case 22:
		t, _, c := a.txid()
		a.g.Stats["txid-"+c]++
		a.call("status", "GetTxStatus", t)
	case 23:
		from := "-"
		if a.rn(2) == 0 {
			from, _ = a.addr()
		}
		st, _ := a.addr()
		if a.rn(2) == 0 && a.ownAddr() != "" {
			st = "saddr:" + a.ownAddr()
		}
		am, _ := a.amount()
		if a.rn(2) == 0 {
			am = a.pick("a:2048", "a:3000", "a:2047.99999999")
		}
		fee, _ := a.amount()
		a.call("stake", "CreateStakingTransaction", from, st, am, a.pick("0", "3", "10", "61440", "4294967295", "1"), fee)
	case 24, 25:
		ad := "-"
		if a.rn(2) == 0 {
			ad, _ = a.addr()
		}
		a.call("hist", "TxHistory", a.pick("0", "1", "2", "10", "1000", "1001", "4294967295"), ad)
	case 26:
		a.call("shist", "GetStakingHistory", a.pick("-", "a:all", "a:ALL", "rep:200:61"))
	case 27:
		a.call("bhist", "GetBindingHistory", a.pick("-", "a:all", "a:x"))
	case 28:
		var os []string
		for i, n := 0, a.rn(3); i < n; i++ {
			h, _ := a.addr()
			tg := a.pick("pkh:1", "pkh:2", "bt:1", "bt:2", "addr:"+a.ownAddr(), "-", "a:junk")
			am, _ := a.amount()
			os = append(os, h+"/"+tg+"/"+am)
		}
		o := "-"
		if len(os) > 0 {
			o = strings.Join(os, ",")
		}
		from := "-"
		if a.rn(3) == 0 {
			from, _ = a.addr()
		}
		fee, _ := a.amount()
		a.call("bind", "CreateBindingTransaction", o, from, fee)
	case 29:
		from, _ := a.addr()
		a.call("poolpk", "CreatePoolPkCoinbaseTransaction", from, a.pick("-", "a:zz", "a:0001", "a:00", "rep:200:30", "a:0001"+strings.Repeat("ab", 60)))
	case 30:
		a.call("netbind", "GetNetworkBinding", a.pick("0", "1", "5", "1000000", "18446744073709551615"))
	case 31:
		a.call("poolcb", "CheckPoolPkCoinbase", a.pick("-", "a:zz", "a:00", "a:"+strings.Repeat("ab", 48), "a:00,a:"+strings.Repeat("cd", 48)))
	case 32:
		a.call("target", "CheckTargetBinding", a.pick("-", "pkh:1", "bt:1", "pkh:1,bt:2,a:junk", "a:junk", "addr:"+a.ownAddr(), "rep:200:61"))
	case 33:
		a.call("plain", "GetClientStatus")
	case 34:
		a.call("plain", a.pick("GetBestBlock", "QuitClient"))
	case 35:
		if a.rn(2) == 0 {
			a.call("blk", "GetBlockByHeight", a.pick("0", "1", "2", "99999", "18446744073709551615"))
		} else {
			a.call("blk", "GetBlockStakingReward", a.pick("0", "1", "2", "99999", "18446744073709551615"))
		}
	case 36:
		t, w, c := a.wid()
		a.g.Stats["wid-"+c]++
		p, pc := a.pass(w)
		a.g.Stats["pass-"+pc]++
		a.call("mnemonic", "GetWalletMnemonic", t, p)
	case 37:
		// new address through the API (bound to the next symbolic name on success)
		v := a.pick("0", "0", "1", "2", "-1", "65536")
		a.nA++
		name := fmt.Sprintf("A%d", 500+a.nA)
		a.g.Op("call-CreateAddress", "call CreateAddress %s %s", name, v)
		if a.precise {
			a.g.Op("res", "res")
		}
		if a.cur != "" && (v == "0" || v == "65536") && !a.removing[a.cur] {
			l.addrs[a.cur] = append(l.addrs[a.cur], name)
			l.owner[name] = a.cur
		}
	case 38:
		t, w, c := a.wid()
		a.g.Stats["wid-"+c]++
		p, pc := a.pass(w)
		a.g.Stats["pass-"+pc]++
		a.call("export", "ExportWallet", t, p)
		if c == "known" && pc == "right" {
			a.exported[w] = true
		}
	default:
		t, c := a.hexBlob()
		a.g.Stats["hex-"+c]++
		a.call("send", "SendRawTransaction", t)
	}
}

// crafted transactions with template-violating output scripts (never mined): decode / sign material
var craftedScripts = []string{
	"6a04deadbeef",                 // OP_RETURN data
	"51",                           // OP_1
	"0014" + "11223344556677889900aabbccddeeff00112233", // witness v0, 20-byte program
	"0020" + "11223344556677889900aabbccddeeff00112233445566778899aabbccddeeff",     // plain P2WSH (foreign)
	"4c",                           // truncated OP_PUSHDATA1
	"00204c",                       // truncated
	"0020" + "11223344556677889900aabbccddeeff00112233445566778899aabbccddeeff" + "15" + "00112233445566778899aabbccddeeff0011223344", // binding, 21-byte target
	"0020" + "11223344556677889900aabbccddeeff00112233445566778899aabbccddeeff" + "16" + "00112233445566778899aabbccddeeff001122330520", // binding, 22-byte target with bad type/size
	"0020" + "11223344556677889900aabbccddeeff00112233445566778899aabbccddeeff" + "16" + "00112233445566778899aabbccddeeff001122330020", // binding, valid 22-byte target
	"5121" + "02" + "ffffffffffffffffffffffffffffffffffffffffffffffffffffffffffffffff" + "51ae",                                    // 1-of-1 multisig, off-curve key
	"5121" + "0279be667ef9dcbbac55a06295ce870b07029bfcdb2dce28d959f2815b16f81798" + "51ae",                                             // 1-of-1 multisig, generator point
	"0020" + "11223344556677889900aabbccddeeff00112233445566778899aabbccddeeff" + "08" + "0000000000000000", // staking, frozen 0
	"76a914" + "11223344556677889900aabbccddeeff00112233" + "88ac",                                                                     // p2pkh
	"",
}

func (a *apiGen) craft() {
	l := a.l
	l.nTx++
	name := fmt.Sprintf("T%d", l.nTx)
	var outs []string
	n := 1 + a.rn(2)
	for i := 0; i < n; i++ {
		s := craftedScripts[a.rn(len(craftedScripts))]
		if s == "" {
			s = "-"
		}
		outs = append(outs, fmt.Sprintf("raw:%d:%s", a.rn(3), s))
	}
	// spends a known transaction's output so that it is a well-formed non-coinbase transaction
	ks := a.knownTxs()
	if len(ks) == 0 {
		return
	}
	src := ks[a.rn(len(ks))]
	a.g.Op("tx-crafted", "tx %s %d %s:0 %s", name, l.nTx, src, strings.Join(outs, ";"))
	a.rawTx = append(a.rawTx, name)
}

func genApi(g *Gen) {
	nHist := g.Scale(60, 1500)
	for h := 0; h < nHist; h++ {
		l := newLedGen(g, "api")
		a := &apiGen{l: l, g: g, precise: true, exported: map[string]bool{}, removing: map[string]bool{}, removed: map[string]bool{}, import_: map[string]bool{}}
		l.start(1 + g.Rng.Intn(2))
		a.cur = l.wallets[len(l.wallets)-1] // the harness selects the wallet whose address it issued last
		// requests before anything happened (no coins, maybe no wallet selected)
		if g.Rng.Intn(3) == 0 {
			g.Op("restart", "restart")
			a.cur = ""
		}
		for i := 0; i < 3; i++ {
			a.request()
		}
		steps := 8 + g.Rng.Intn(g.Scale(14, 30))
		for s := 0; s < steps; s++ {
			switch k := g.Rng.Intn(20); {
			case k < 8:
				l.extend()
			case k < 10:
				l.reorgTo(1+g.Rng.Intn(3), 1+g.Rng.Intn(2))
			case k < 14:
				l.recv()
			case k < 15:
				w := l.wallets[g.Rng.Intn(len(l.wallets))]
				if !a.removing[w] && !a.removed[w] && !a.import_[w] {
					l.newAddr(w)
					a.cur = w
				}
			case k < 16:
				a.craft()
			case k == 16:
				g.Op("restart", "restart")
				a.cur = ""
			default:
				l.processOne()
			}
			if g.Rng.Intn(3) > 0 {
				l.drain()
			}
			if a.cur == "" && g.Rng.Intn(2) == 0 && len(l.wallets) > 0 {
				w := l.wallets[g.Rng.Intn(len(l.wallets))]
				g.Op("call-UseWallet", "call UseWallet wid:%s", w)
				g.Op("res", "res")
				a.cur = w
			}
			for i, n := 0, 1+g.Rng.Intn(4); i < n; i++ {
				a.request()
			}
			if g.Rng.Intn(4) == 0 {
				g.Op("q-cur", "cur")
				l.observe(false)
			}
		}
		l.drain()
		l.observe(true)
	}
}
