package main

// Engine proto, running side (C20 `progress`): follower and worker contend for the hand-shake while blocks are
// queued, and nobody stops the wallet. The follower is held at the BeginTx of the first of N announced blocks,
// the other N-1 notifications are queued behind it, the task is queued through the real API and the worker
// parks at suspend(); then the follower is released. From here on the follower's outer select has two ready
// cases again and again (sigSuspend, queueBlock) until both the block queue and the task are done. The op
// waits (bounded) until the follower's best block is the last announced one and no wallet is importing or
// being removed. The model's answer: no stuck state is reachable without a stop request (MW.Drv.Proto.canStall),
// the specification (`MW.Props.C20.progress`): done.

import (
	"errors"
	"fmt"
	"strconv"
	"strings"
	"time"
)

var errProtoInjected = errors.New("injected storage fault")

// takeFault: should this Commit fail? (only commits made from the worker goroutine, while faults are pending)
func (g *protoGate) takeFault() bool {
	g.mu.Lock()
	pending := g.failWorker > 0
	g.mu.Unlock()
	if !pending || protoCallerRole() != "worker" {
		return false
	}
	g.mu.Lock()
	defer g.mu.Unlock()
	if g.failWorker == 0 {
		return false
	}
	g.failWorker--
	g.failed++
	return true
}

const protoLiveWait = 40 * time.Second

func (x *protoExec) live(task, who, ns string, faults int) string {
	e := x.e
	if !x.started {
		return "bad-op"
	}
	n, err := strconv.Atoi(ns)
	if err != nil || n < 1 {
		return "bad-op"
	}
	switch task {
	case "remove":
		if _, ok := e.wallets[who]; !ok {
			return "bad-op"
		}
	case "import":
		if _, ok := x.ext[who]; !ok {
			return "bad-op"
		}
	case "none":
		if faults > 0 {
			return "bad-op"
		}
	default:
		return "bad-op"
	}
	blks := x.nextBlocks(n)
	if len(blks) < n {
		return "bad-op"
	}
	x.g.arm("handler", "begin", 1)
	for _, b := range blks {
		e.wm.VerifOnBlockConnected(b.msg)
	}
	if !x.g.waitHeld(6 * time.Second) {
		x.g.open()
		return "nogate"
	}
	x.g.mu.Lock()
	x.g.failWorker, x.g.failed = faults, 0
	x.g.mu.Unlock()
	defer func() {
		x.g.mu.Lock()
		x.g.failWorker = 0
		x.g.mu.Unlock()
	}()
	if r := x.issue(task, who); r != "" {
		x.g.open()
		return r
	}
	if task != "none" {
		workerAtSuspend(3 * time.Second) // the worker has taken the task and stands at suspend()
	}
	x.g.open()
	want := blks[n-1].height
	deadline := time.Now().Add(protoLiveWait)
	for {
		h, _ := e.wm.VerifBestBlock()
		s := e.Wallets()
		nb, _, nt := e.wm.VerifQueueLens()
		if h == want && nb == 0 && nt == 0 && s != "err" && !strings.Contains(s, "importing") && !strings.Contains(s, "removing") {
			if faults == 0 {
				return "done"
			}
			x.g.mu.Lock()
			f := x.g.failed
			x.g.mu.Unlock()
			if f != faults {
				return fmt.Sprintf("nofault %d", f)
			}
			return fmt.Sprintf("done %d", f)
		}
		if time.Now().After(deadline) {
			return fmt.Sprintf("TIMEOUT best=%d want=%d queued=%d tasks=%d %s", h, want, nb, nt, s)
		}
		time.Sleep(5 * time.Millisecond)
	}
}

// genProtoLive: the chain of genProtoHistory, then `live` instead of a stop placement; afterwards the wallet list
// is read (await) and the wallet stopped.
func genProtoLive(g *Gen, task string, faults int) {
	l := newLedGen(g, "proto")
	l.g.Reset()
	l.op("params", "params 2 3")
	l.op("wallet", "wallet W1")
	l.op("addr", "addr W1 A1 std")
	l.op("wallet", "wallet W2")
	l.op("addr", "addr W2 A2 std")
	l.op("ext", "ext I1")
	nBlk := 3 + g.Rng.Intn(3)
	prev := "G"
	for i := 1; i <= nBlk; i++ {
		l.op("tx", "tx C%d %d cb A1:%d;I1:%d;A2:%d", i, i, 100+g.Rng.Intn(100), 50+g.Rng.Intn(50), 10+g.Rng.Intn(20))
		l.op("block", "block B%d %s C%d", i, prev, i)
		l.op("submit", "submit B%d", i)
		l.op("notify", "notify B%d", i)
		prev = fmt.Sprintf("B%d", i)
	}
	nLive := 2 + g.Rng.Intn(4)
	for i := nBlk + 1; i <= nBlk+nLive; i++ {
		l.op("tx", "tx C%d %d cb A1:%d;I1:%d", i, i, 100+g.Rng.Intn(100), 50+g.Rng.Intn(50))
		l.op("block", "block B%d %s C%d", i, prev, i)
		prev = fmt.Sprintf("B%d", i)
	}
	l.op("start", "start")
	for i := nBlk + 1; i <= nBlk+nLive; i++ {
		l.op("submit", "submit B%d", i)
	}
	who := "-"
	switch task {
	case "remove":
		who = "W1"
	case "import":
		who = "I1"
	}
	if faults > 0 {
		l.op("livef-"+task, "livef %s %s %d %d", task, who, nLive, faults)
	} else {
		l.op("live-"+task, "live %s %s %d", task, who, nLive)
	}
	l.op("await", "await")
	l.op("stop", "stop")
}
