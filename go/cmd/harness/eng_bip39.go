package main

// Engine bip39 (C13): keystore.NewMnemonic / EntropyFromMnemonic / MnemonicToByteArray /
// IsMnemonicValid / NewSeedWithErrorChecking against the Lean model and the Lean BIP-39 spec.
//
// The hash functions stay on this side of the wire.  Model and spec are parametrised by a hash
// function H and a key-derivation function P; every op line carries the points of SHA-256
// (`<input-hex>=<digest-hex>`) and of PBKDF2-HMAC-SHA512 (`<salt> <iter> <len> <key>`) that an
// execution may need, computed here with crypto/sha256 and x/crypto/pbkdf2 called DIRECTLY (not
// through the wallet).  Exec re-verifies every point on the line (a corrupted corpus line is
// `bad-op`, never a silent pass).
//
// A second, independent oracle lives in this file: a bit-string BIP-39 encoder/decoder that
// shares no code with the wallet (no big.Int).  If it disagrees with the wallet the output gets
// the suffix ORACLE-DIFF, which no Lean output ever has.

import (
	"bytes"
	"crypto/sha256"
	"crypto/sha512"
	"encoding/hex"
	"fmt"
	"math/rand"
	"strconv"
	"strings"

	"golang.org/x/crypto/pbkdf2"
	"massnet.org/mass-wallet/masswallet/keystore"
)

func init() {
	register(&Engine{Name: "bip39", Gen: genBip39, NewExec: func() Exec { return stateless{execBip39} }})
	parSetBudget(execBip39, 4) // short stream: afford up to 4x its sequential time for the concurrent re-runs (par.go)
}

// ---------------------------------------------------------------------------------------------
// independent BIP-39 (bit strings)

func b39Bits(bs []byte) []bool {
	out := make([]bool, 0, len(bs)*8)
	for _, b := range bs {
		for i := 7; i >= 0; i-- {
			out = append(out, (b>>uint(i))&1 == 1)
		}
	}
	return out
}

func b39Pack(bits []bool) []byte {
	out := make([]byte, len(bits)/8)
	for i := 0; i+8 <= len(bits); i += 8 {
		var v byte
		for j := 0; j < 8; j++ {
			v <<= 1
			if bits[i+j] {
				v |= 1
			}
		}
		out[i/8] = v
	}
	return out
}

func b39LegalEntropy(n int) bool { return n == 16 || n == 20 || n == 24 || n == 28 || n == 32 }
func b39LegalWords(n int) bool   { return n == 12 || n == 15 || n == 18 || n == 21 || n == 24 }

// b39Encode: entropy bits ++ first ENT/32 bits of sha256(entropy), 11 bits per word.
func b39Encode(list []string, ent []byte) (string, bool) {
	if !b39LegalEntropy(len(ent)) {
		return "", false
	}
	h := sha256.Sum256(ent)
	bits := append(b39Bits(ent), b39Bits(h[:])[:len(ent)*8/32]...)
	var ws []string
	for i := 0; i+11 <= len(bits); i += 11 {
		v := 0
		for j := 0; j < 11; j++ {
			v <<= 1
			if bits[i+j] {
				v |= 1
			}
		}
		ws = append(ws, list[v])
	}
	return strings.Join(ws, " "), true
}

func b39Index(list []string, w string) int {
	for i, v := range list {
		if v == w {
			return i
		}
	}
	return -1
}

// b39Candidate returns the entropy candidate of a sentence (legal word count, all words listed),
// the checksum bits found in the sentence, and a rejection class otherwise.
func b39Candidate(list []string, sentence string) (ent []byte, cs []bool, rej string) {
	ws := strings.Fields(sentence)
	if !b39LegalWords(len(ws)) {
		return nil, nil, "length"
	}
	var bits []bool
	for _, w := range ws {
		i := b39Index(list, w)
		if i < 0 {
			return nil, nil, "word"
		}
		for j := 10; j >= 0; j-- {
			bits = append(bits, (i>>uint(j))&1 == 1)
		}
	}
	entBits := len(ws) / 3 * 32
	return b39Pack(bits[:entBits]), bits[entBits:], ""
}

// b39Decode: full independent decoding with checksum verification.
func b39Decode(list []string, sentence string) ([]byte, string) {
	ent, cs, rej := b39Candidate(list, sentence)
	if rej != "" {
		return nil, rej
	}
	h := sha256.Sum256(ent)
	want := b39Bits(h[:])[:len(cs)]
	for i := range cs {
		if cs[i] != want[i] {
			return nil, "checksum"
		}
	}
	return ent, ""
}

// ---------------------------------------------------------------------------------------------
// wire helpers

func shaPair(in []byte) string {
	h := sha256.Sum256(in)
	return hexTok(in) + "=" + hex.EncodeToString(h[:])
}

// pairsFor: the SHA-256 points an execution on this sentence may need (the candidate entropy).
func pairsFor(list []string, sentence string) string {
	ent, _, rej := b39Candidate(list, sentence)
	if rej != "" {
		return ""
	}
	return " " + shaPair(ent)
}

func checkPairs(toks []string) bool {
	for _, t := range toks {
		p := strings.Split(t, "=")
		if len(p) != 2 {
			return false
		}
		in, ok1 := unhexTok(p[0])
		out, ok2 := unhexTok(p[1])
		if !ok1 || !ok2 {
			return false
		}
		h := sha256.Sum256(in)
		if !bytes.Equal(h[:], out) {
			return false
		}
	}
	return true
}

func bip39Err(err error) string {
	switch err {
	case keystore.ErrEntropyLengthInvalid:
		return "err entlen"
	case keystore.ErrInvalidMnemonic:
		return "err invalid"
	case keystore.ErrInvalidMnemonicWord:
		return "err word"
	case keystore.ErrChecksumIncorrect:
		return "err checksum"
	}
	return "err other:" + strings.ReplaceAll(err.Error(), " ", "_")
}

func execBip39(a []string) string {
	if len(a) == 0 {
		return "bad-op"
	}
	list := keystore.GetWordList()
	switch a[0] {
	case "enc":
		if len(a) < 2 || !checkPairs(a[2:]) {
			return "bad-op"
		}
		ent, ok := unhexTok(a[1])
		if !ok {
			return "bad-op"
		}
		arg := append([]byte{}, ent...)
		m, err := keystore.NewMnemonic(arg)
		om, ook := b39Encode(list, ent)
		if err != nil {
			if ook {
				return bip39Err(err) + " ORACLE-DIFF"
			}
			return bip39Err(err)
		}
		res := "ok " + hexTok([]byte(m))
		if !ook || om != m {
			res += " ORACLE-DIFF"
		}
		if !bytes.Equal(arg, ent) {
			res += " INPUT-MODIFIED"
		}
		return res
	case "dec":
		if len(a) < 2 || !checkPairs(a[2:]) {
			return "bad-op"
		}
		s, ok := unhexTok(a[1])
		if !ok {
			return "bad-op"
		}
		e, err := keystore.EntropyFromMnemonic(string(s))
		oe, rej := b39Decode(list, string(s))
		if err != nil {
			if rej == "" {
				return bip39Err(err) + " ORACLE-DIFF"
			}
			return bip39Err(err)
		}
		res := "ok " + hexTok(e)
		if rej != "" || !bytes.Equal(oe, e) {
			res += " ORACLE-DIFF"
		}
		return res
	case "arr":
		if len(a) < 3 || !checkPairs(a[3:]) || (a[2] != "0" && a[2] != "1") {
			return "bad-op"
		}
		s, ok := unhexTok(a[1])
		if !ok {
			return "bad-op"
		}
		var e []byte
		var err error
		if a[2] == "1" {
			e, err = keystore.MnemonicToByteArray(string(s), true)
		} else {
			e, err = keystore.MnemonicToByteArray(string(s))
		}
		oe, rej := b39Decode(list, string(s))
		if err != nil {
			if rej == "" {
				return bip39Err(err) + " ORACLE-DIFF"
			}
			return bip39Err(err)
		}
		res := "ok " + hexTok(e)
		if rej != "" || (a[2] == "1" && !bytes.Equal(oe, e)) {
			res += " ORACLE-DIFF"
		}
		return res
	case "valid":
		if len(a) != 2 {
			return "bad-op"
		}
		s, ok := unhexTok(a[1])
		if !ok {
			return "bad-op"
		}
		return strconv.FormatBool(keystore.IsMnemonicValid(string(s)))
	case "seed":
		// seed <sentence> <pass> <salt> <iter> <len> <key> <pairs…>
		if len(a) < 7 || !checkPairs(a[7:]) {
			return "bad-op"
		}
		s, ok1 := unhexTok(a[1])
		pw, ok2 := unhexTok(a[2])
		salt, ok3 := unhexTok(a[3])
		iter, err1 := strconv.Atoi(a[4])
		klen, err2 := strconv.Atoi(a[5])
		key, ok4 := unhexTok(a[6])
		if !ok1 || !ok2 || !ok3 || !ok4 || err1 != nil || err2 != nil || iter < 1 || iter > 1<<16 || klen < 0 || klen > 1024 {
			return "bad-op"
		}
		if !bytes.Equal(pbkdf2.Key(s, salt, iter, klen, sha512.New), key) {
			return "bad-op"
		}
		sd, err := keystore.NewSeedWithErrorChecking(string(s), string(pw))
		if err != nil {
			return bip39Err(err)
		}
		return "ok " + hexTok(sd)
	case "vec":
		// vec <entropy> <sentence> <pass> <seed> <pairs…>   official vector: everything literal
		if len(a) < 5 || !checkPairs(a[5:]) {
			return "bad-op"
		}
		ent, ok1 := unhexTok(a[1])
		s, ok2 := unhexTok(a[2])
		pw, ok3 := unhexTok(a[3])
		seed, ok4 := unhexTok(a[4])
		if !ok1 || !ok2 || !ok3 || !ok4 {
			return "bad-op"
		}
		m, err := keystore.NewMnemonic(append([]byte{}, ent...))
		if err != nil || m != string(s) {
			return "mismatch"
		}
		e, err := keystore.EntropyFromMnemonic(string(s))
		if err != nil || !bytes.Equal(e, ent) {
			return "mismatch"
		}
		e, err = keystore.MnemonicToByteArray(string(s), true)
		if err != nil || !bytes.Equal(e, ent) {
			return "mismatch"
		}
		sd, err := keystore.NewSeedWithErrorChecking(string(s), string(pw))
		if err != nil || !bytes.Equal(sd, seed) {
			return "mismatch"
		}
		return "ok"
	}
	return "bad-op"
}

// ---------------------------------------------------------------------------------------------
// official BIP-39 test vectors (github.com/trezor/python-mnemonic vectors.json, English,
// passphrase "TREZOR").  genBip39 re-derives every one of them with the independent encoder and a
// direct PBKDF2 call and refuses to emit a vector that does not check.

var bip39Vectors = [][3]string{
	{"00000000000000000000000000000000",
		"abandon abandon abandon abandon abandon abandon abandon abandon abandon abandon abandon about",
		"c55257c360c07c72029aebc1b53c05ed0362ada38ead3e3e9efa3708e53495531f09a6987599d18264c1e1c92f2cf141630c7a3c4ab7c81b2f001698e7463b04"},
	{"7f7f7f7f7f7f7f7f7f7f7f7f7f7f7f7f",
		"legal winner thank year wave sausage worth useful legal winner thank yellow",
		"2e8905819b8723fe2c1d161860e5ee1830318dbf49a83bd451cfb8440c28bd6fa457fe1296106559a3c80937a1c1069be3a3a5bd381ee6260e8d9739fce1f607"},
	{"80808080808080808080808080808080",
		"letter advice cage absurd amount doctor acoustic avoid letter advice cage above",
		"d71de856f81a8acc65e6fc851a38d4d7ec216fd0796d0a6827a3ad6ed5511a30fa280f12eb2e47ed2ac03b5c462a0358d18d69fe4f985ec81778c1b370b652a8"},
	{"ffffffffffffffffffffffffffffffff",
		"zoo zoo zoo zoo zoo zoo zoo zoo zoo zoo zoo wrong",
		"ac27495480225222079d7be181583751e86f571027b0497b5b5d11218e0a8a13332572917f0f8e5a589620c6f15b11c61dee327651a14c34e18231052e48c069"},
	{"000000000000000000000000000000000000000000000000",
		"abandon abandon abandon abandon abandon abandon abandon abandon abandon abandon abandon abandon abandon abandon abandon abandon abandon agent",
		"035895f2f481b1b0f01fcf8c289c794660b289981a78f8106447707fdd9666ca06da5a9a565181599b79f53b844d8a71dd9f439c52a3d7b3e8a79c906ac845fa"},
	{"7f7f7f7f7f7f7f7f7f7f7f7f7f7f7f7f7f7f7f7f7f7f7f7f",
		"legal winner thank year wave sausage worth useful legal winner thank year wave sausage worth useful legal will",
		"f2b94508732bcbacbcc020faefecfc89feafa6649a5491b8c952cede496c214a0c7b3c392d168748f2d4a612bada0753b52a1c7ac53c1e93abd5c6320b9e95dd"},
	{"808080808080808080808080808080808080808080808080",
		"letter advice cage absurd amount doctor acoustic avoid letter advice cage absurd amount doctor acoustic avoid letter always",
		"107d7c02a5aa6f38c58083ff74f04c607c2d2c0ecc55501dadd72d025b751bc27fe913ffb796f841c49b1d33b610cf0e91d3aa239027f5e99fe4ce9e5088cd65"},
	{"ffffffffffffffffffffffffffffffffffffffffffffffff",
		"zoo zoo zoo zoo zoo zoo zoo zoo zoo zoo zoo zoo zoo zoo zoo zoo zoo when",
		"0cd6e5d827bb62eb8fc1e262254223817fd068a74b5b449cc2f667c3f1f985a76379b43348d952e2265b4cd129090758b3e3c2c49103b5051aac2eaeb890a528"},
	{"0000000000000000000000000000000000000000000000000000000000000000",
		"abandon abandon abandon abandon abandon abandon abandon abandon abandon abandon abandon abandon abandon abandon abandon abandon abandon abandon abandon abandon abandon abandon abandon art",
		"bda85446c68413707090a52022edd26a1c9462295029f2e60cd7c4f2bbd3097170af7a4d73245cafa9c3cca8d561a7c3de6f5d4a10be8ed2a5e608d68f92fcc8"},
	{"7f7f7f7f7f7f7f7f7f7f7f7f7f7f7f7f7f7f7f7f7f7f7f7f7f7f7f7f7f7f7f7f",
		"legal winner thank year wave sausage worth useful legal winner thank year wave sausage worth useful legal winner thank year wave sausage worth title",
		"bc09fca1804f7e69da93c2f2028eb238c227f2e9dda30cd63699232578480a4021b146ad717fbb7e451ce9eb835f43620bf5c514db0f8add49f5d121449d3e87"},
	{"8080808080808080808080808080808080808080808080808080808080808080",
		"letter advice cage absurd amount doctor acoustic avoid letter advice cage absurd amount doctor acoustic avoid letter advice cage absurd amount doctor acoustic bless",
		"c0c519bd0e91a2ed54357d9d1ebef6f5af218a153624cf4f2da911a0ed8f7a09e2ef61af0aca007096df430022f7a2b6fb91661a9589097069720d015e4e982f"},
	{"ffffffffffffffffffffffffffffffffffffffffffffffffffffffffffffffff",
		"zoo zoo zoo zoo zoo zoo zoo zoo zoo zoo zoo zoo zoo zoo zoo zoo zoo zoo zoo zoo zoo zoo zoo vote",
		"dd48c104698c30cfe2b6142103248622fb7bb0ff692eebb00089b32d22484e1613912f0a5b694407be899ffd31ed3992c456cdf60f5d4564b8ba3f05a69890ad"},
}

// ---------------------------------------------------------------------------------------------
// generator

var b39Spaces = []string{" ", "  ", "\t", "\n", "\r\n", " \t ", "\v", "\f", "\u00a0", "\u0085", "\u1680", "\u2000", "\u2003",
	"\u200a", "\u2028", "\u2029", "\u202f", "\u205f", "\u3000", "   "}

// bytes that look like (part of) a white-space rune but are not one: truncated / invalid / overlong
// UTF-8, and runes that are not unicode.IsSpace (U+200B, U+FEFF, U+180E, U+001F, NUL)
var b39Junk = []string{"\xc2", "\xe2\x80", "\xe2", "\xe3\x80", "\xff", "\x80", "\xc2\x84", "\u200b", "\x00", "\xc0\xa0", "\xe1\x9a",
	"\U0001F600", "\ufeff", "\u180e", "\u00e9", "\x1f", "\xe0\x80\xa0", "\xe2\x80\x80\x80", "\x85", "\xa0"}

func genBip39(g *Gen) {
	r := g.Rng
	list := keystore.GetWordList()
	sizes := []int{16, 20, 24, 28, 32}

	emitEnc := func(class string, ent []byte) {
		g.Op(class, "enc %s %s", hexTok(ent), shaPair(ent))
	}
	// every sentence goes through all four observers
	emitSentence := func(class, s string) {
		ps := pairsFor(list, s)
		h := hexTok([]byte(s))
		g.Op(class, "dec %s%s", h, ps)
		g.Op(class+"/arr", "arr %s 0%s", h, ps)
		g.Op(class+"/arr", "arr %s 1%s", h, ps)
		g.Op(class+"/valid", "valid %s", h)
	}
	emitSeed := func(class, s, pass string) {
		salt := []byte("mnemonic" + pass)
		key := pbkdf2.Key([]byte(s), salt, 2048, 64, sha512.New)
		g.Op(class, "seed %s %s %s 2048 64 %s%s", hexTok([]byte(s)), hexTok([]byte(pass)), hexTok(salt), hexTok(key), pairsFor(list, s))
	}
	randEnt := func(n int) []byte {
		b := make([]byte, n)
		r.Read(b)
		return b
	}
	mustEnc := func(ent []byte) string {
		s, ok := b39Encode(list, ent)
		if !ok {
			panic("b39Encode on illegal size")
		}
		return s
	}

	// 1. official vectors, verified here before they are emitted
	for _, v := range bip39Vectors {
		ent, _ := hex.DecodeString(v[0])
		want, _ := hex.DecodeString(v[2])
		m, ok := b39Encode(list, ent)
		seed := pbkdf2.Key([]byte(v[1]), []byte("mnemonicTREZOR"), 2048, 64, sha512.New)
		if !ok || m != v[1] || !bytes.Equal(seed, want) {
			g.Stats["vector-dropped(does-not-check-against-independent-encoder)"]++
			continue
		}
		g.Op("vec-trezor", "vec %s %s %s %s %s", v[0], hexTok([]byte(v[1])), hexTok([]byte("TREZOR")), v[2], shaPair(ent))
		emitEnc("vec-trezor/enc", ent)
		emitSentence("vec-trezor/sentence", v[1])
		emitSeed("vec-trezor/seed", v[1], "TREZOR")
	}

	// 2. fixed patterns for every size
	for _, n := range sizes {
		emitEnc("enc-zero", make([]byte, n))
		emitEnc("enc-ff", bytes.Repeat([]byte{0xff}, n))
		emitSentence("sentence-zero", mustEnc(make([]byte, n)))
		emitSentence("sentence-ff", mustEnc(bytes.Repeat([]byte{0xff}, n)))
		for k := 1; k < n; k++ { // k leading zero bytes, then random
			e := randEnt(n)
			for i := 0; i < k; i++ {
				e[i] = 0
			}
			emitEnc("enc-leading-zero", e)
			emitSentence("sentence-leading-zero", mustEnc(e))
		}
		// only the last byte / bit set, only the first bit set
		e := make([]byte, n)
		e[n-1] = 1
		emitEnc("enc-leading-zero", e)
		emitSentence("sentence-leading-zero", mustEnc(e))
		e = make([]byte, n)
		e[0] = 0x80
		emitEnc("enc-top-bit", e)
		emitSentence("sentence-top-bit", mustEnc(e))
		e = bytes.Repeat([]byte{0xff}, n)
		e[0] = 0
		emitEnc("enc-leading-zero", e)
		emitSentence("sentence-leading-zero", mustEnc(e))
	}
	// every word count 0..30 (acceptance must depend on the count exactly as BIP-39 says)
	for k := 0; k <= 30; k++ {
		ws := make([]string, k)
		for j := range ws {
			ws[j] = "abandon"
		}
		emitSentence("count-sweep", strings.Join(ws, " "))
		for j := range ws {
			ws[j] = list[(j*97+k*13)%len(list)]
		}
		emitSentence("count-sweep", strings.Join(ws, " "))
	}
	// 3. illegal entropy sizes
	for _, n := range []int{0, 1, 4, 8, 12, 15, 17, 19, 21, 31, 33, 36, 40, 48, 64} {
		emitEnc("enc-badlen", randEnt(n))
		emitEnc("enc-badlen", make([]byte, n))
	}

	respace := func(ws []string) string {
		var sb strings.Builder
		if r.Intn(2) == 0 {
			sb.WriteString(b39Spaces[r.Intn(len(b39Spaces))])
		}
		for i, w := range ws {
			if i > 0 {
				k := 1 + r.Intn(2)
				for j := 0; j < k; j++ {
					sb.WriteString(b39Spaces[r.Intn(len(b39Spaces))])
				}
			}
			sb.WriteString(w)
		}
		if r.Intn(2) == 0 {
			sb.WriteString(b39Spaces[r.Intn(len(b39Spaces))])
		}
		return sb.String()
	}
	randWord := func() string { return list[r.Intn(len(list))] }
	nonList := func() string {
		switch r.Intn(7) {
		case 0:
			return randWord() + "s"
		case 1:
			w := randWord()
			return w[:len(w)-1]
		case 2:
			w := randWord()
			if len(w) > 4 {
				return w[:4]
			}
			return w + w
		case 3:
			return strings.ToUpper(randWord())
		case 4:
			w := randWord()
			return strings.ToUpper(w[:1]) + w[1:]
		case 5:
			return pick(r, "0", "1", "2047", "bitcoin", "satoshi", "zoo0", "-", ",", "abandon,", "\u0430bandon" /* Cyrillic a */)
		default:
			return randWord() + b39Junk[r.Intn(len(b39Junk))]
		}
	}

	// 4. random entropies and mutations of their sentences
	n := g.Scale(1500, 40000)
	for i := 0; i < n; i++ {
		size := sizes[r.Intn(len(sizes))]
		ent := randEnt(size)
		switch r.Intn(6) {
		case 0:
			ent[0] = 0
		case 1:
			k := 1 + r.Intn(size-1)
			for j := 0; j < k; j++ {
				ent[j] = 0
			}
		}
		cls := fmt.Sprintf("size-%d", size*8)
		s := mustEnc(ent)
		ws := strings.Fields(s)
		switch r.Intn(14) {
		case 0, 1:
			emitEnc("enc-random/"+cls, ent)
			emitSentence("sentence-valid/"+cls, s)
		case 2: // substitute one word by another list word (checksum usually breaks)
			ws[r.Intn(len(ws))] = randWord()
			emitSentence("mut-substitute", strings.Join(ws, " "))
		case 3: // substitute the LAST word so that the checksum holds again with probability 2^-cs..1
			ws[len(ws)-1] = randWord()
			emitSentence("mut-substitute-last", strings.Join(ws, " "))
		case 4: // permute
			a, b := r.Intn(len(ws)), r.Intn(len(ws))
			ws[a], ws[b] = ws[b], ws[a]
			if r.Intn(3) == 0 {
				r.Shuffle(len(ws), func(x, y int) { ws[x], ws[y] = ws[y], ws[x] })
			}
			emitSentence("mut-permute", strings.Join(ws, " "))
		case 5: // truncate
			k := 1 + r.Intn(len(ws))
			if r.Intn(2) == 0 {
				k = 1 + r.Intn(3)
			}
			emitSentence("mut-truncate", strings.Join(ws[:len(ws)-k], " "))
		case 6: // extend
			k := 1 + r.Intn(4)
			for j := 0; j < k; j++ {
				ws = append(ws, randWord())
			}
			emitSentence("mut-extend", strings.Join(ws, " "))
		case 7, 8: // re-space a valid sentence
			emitSentence("mut-respace", respace(ws))
		case 9: // a word that is not in the list
			ws[r.Intn(len(ws))] = nonList()
			emitSentence("mut-nonlist", strings.Join(ws, " "))
		case 10: // upper case
			if r.Intn(2) == 0 {
				emitSentence("mut-upper", strings.ToUpper(s))
			} else {
				k := r.Intn(len(ws))
				ws[k] = strings.ToUpper(ws[k])
				emitSentence("mut-upper", strings.Join(ws, " "))
			}
		case 11: // junk bytes: invalid / truncated UTF-8 next to or instead of separators
			b := []byte(s)
			p := r.Intn(len(b) + 1)
			j := b39Junk[r.Intn(len(b39Junk))]
			if r.Intn(2) == 0 {
				// replace a separator
				idx := []int{}
				for q, c := range b {
					if c == ' ' {
						idx = append(idx, q)
					}
				}
				p = idx[r.Intn(len(idx))]
				emitSentence("mut-junk", string(b[:p])+j+string(b[p+1:]))
			} else {
				emitSentence("mut-junk", string(b[:p])+j+string(b[p:]))
			}
		case 12: // random list words of a legal count: checksum right with probability 2^-cs
			k := []int{12, 15, 18, 21, 24}[r.Intn(5)]
			if r.Intn(3) > 0 {
				k = 12
			}
			rw := make([]string, k)
			for j := range rw {
				rw[j] = randWord()
			}
			if r.Intn(4) == 0 {
				emitSentence("random-words", respace(rw))
			} else {
				emitSentence("random-words", strings.Join(rw, " "))
			}
		case 13: // any number of words 0..30
			k := r.Intn(31)
			rw := make([]string, k)
			for j := range rw {
				rw[j] = randWord()
			}
			emitSentence("random-count", strings.Join(rw, " "))
		}
	}
	emitSentence("random-count", "")
	emitSentence("random-count", " ")
	emitSentence("random-count", "\u3000\u2003")

	// 5. seeds: valid sentences with assorted passphrases, and sentences that must be refused
	passes := []string{"", "TREZOR", "password", " ", "pass phrase", "\x00", "пароль", "㍍ガバヴァぱばぐゞちぢ十人十色", "\xff\xfe"}
	ns := g.Scale(120, 2500)
	for i := 0; i < ns; i++ {
		size := sizes[r.Intn(len(sizes))]
		ent := randEnt(size)
		if r.Intn(4) == 0 {
			ent[0] = 0
		}
		s := mustEnc(ent)
		ws := strings.Fields(s)
		pass := passes[r.Intn(len(passes))]
		if r.Intn(3) == 0 {
			pass = string(randEnt(r.Intn(20)))
		}
		switch r.Intn(6) {
		case 0, 1, 2:
			emitSeed("seed-valid", s, pass)
		case 3:
			emitSeed("seed-respaced", respace(ws), pass)
		case 4:
			ws[r.Intn(len(ws))] = randWord()
			emitSeed("seed-substituted", strings.Join(ws, " "), pass)
		case 5:
			if r.Intn(2) == 0 {
				emitSeed("seed-refused", strings.Join(ws[:len(ws)-1], " "), pass)
			} else {
				ws[r.Intn(len(ws))] = nonList()
				emitSeed("seed-refused", strings.Join(ws, " "), pass)
			}
		}
	}
}

var _ = rand.Int
