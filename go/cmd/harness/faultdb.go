package main

// faultDB wraps the wallet database (massnet.org/mass-wallet/masswallet/db.DB and its transaction /
// bucket interfaces, by delegation to the real ldb driver). Installed through WEnv.wrapDB, so the
// WalletManager under test runs on it without any hook. Two services (DESIGN.md, C06 / C18):
//
//  (a) commit counting and FORKING: after every successful write-transaction Commit the hook
//      onCommit(k) runs (k = 0,1,2,… index of the commit since the wrapper was created); the crash
//      engine copies the LevelDB directory file by file at that instant (forkDir).
//  (b) fault injection: arm(j) makes the j-th storage call after arming fail ONCE with errInjected.
//      Calls counted: BeginTx / BeginReadTx (begin), Bucket.Put / NewBucket / CreateTopLevelBucket
//      (put), Bucket.Delete / Clear / DeleteBucket (delete), Bucket.Get / GetByPrefix / BucketNames
//      (get), DBTransaction.Commit (commit). A failing Commit rolls the inner transaction back
//      (nothing is written: LevelDB batch writes are atomic) and returns the error.
//      Not faulted (they cannot report an error through the interface): TopLevelBucket, FetchBucket,
//      Bucket(name), GetBucketMeta, Rollback, iterators.

import (
	"errors"
	"io"
	"os"
	"path/filepath"
	"runtime"
	"runtime/debug"
	"sort"
	"strings"
	"sync"
	"time"

	mwdb "massnet.org/mass-wallet/masswallet/db"
)

var errInjected = errors.New("injected storage fault")

type faultDB struct {
	mu    sync.Mutex // the follower / worker goroutines of a booted wallet use the database concurrently
	inner mwdb.DB
	path  string

	commits  int
	onCommit func(k int)

	armed    bool
	paused   bool   // harness-internal reads (not part of the operation under test) are neither counted nor faulted
	byKind   string // if set: fail the failAt-th call of this kind instead of the failAt-th call
	kindN    int
	failAt   int
	calls    int
	hit      bool
	hitKind  string
	hitStack string
	kinds    map[string]int // calls per kind since the wrapper was created (statistics)
	writeTx  int            // write transactions begun

	// gate (crash engine): Start's last database access on the caller's goroutine is the View of
	// initTaskChan; once it is seen, every later transaction (the worker's) waits until the gate is
	// released and then fails - the re-queued tasks are verified but not run by the worker, the
	// history's own importstep / removerun ops run them on the schedule of the uninterrupted run
	gateArmed   bool
	gated       bool
	gateCh      chan struct{}
	gateWaiters int
}

func newFaultDB(inner mwdb.DB, path string) *faultDB {
	return &faultDB{inner: inner, path: path, kinds: map[string]int{}}
}

// arm: the j-th counted call from now on fails (once).
func (f *faultDB) arm(j int) {
	f.armed, f.failAt, f.calls, f.hit, f.hitKind, f.byKind, f.kindN = true, j, 0, false, "", "", 0
}

// armKind: the n-th call of the given kind from now on fails (once).
func (f *faultDB) armKind(kind string, n int) {
	f.arm(n)
	f.byKind = kind
}

// disarm returns whether the fault fired, its kind, and the number of calls seen while armed.
func (f *faultDB) disarm() (bool, string, int) {
	h, k, n := f.hit, f.hitKind, f.calls
	f.armed, f.hit = false, false
	return h, k, n
}

func (f *faultDB) tick(kind string) error {
	f.mu.Lock()
	defer f.mu.Unlock()
	if f.paused {
		return nil
	}
	f.kinds[kind]++
	if !f.armed {
		return nil
	}
	i := f.calls
	f.calls++
	if f.byKind != "" {
		if kind != f.byKind {
			return nil
		}
		i = f.kindN
		f.kindN++
	}
	if i == f.failAt && !f.hit {
		f.hit, f.hitKind = true, kind
		if verifDebug {
			f.hitStack = string(debug.Stack())
		}
		return errInjected
	}
	return nil
}

func (f *faultDB) Close() error { return f.inner.Close() }

// armGate / releaseGate: see the field comment.
func (f *faultDB) armGate() {
	f.mu.Lock()
	f.gateArmed, f.gated, f.gateCh, f.gateWaiters = true, false, make(chan struct{}), 0
	f.mu.Unlock()
}

func (f *faultDB) releaseGate() {
	f.mu.Lock()
	if f.gateArmed {
		f.gateArmed = false
		close(f.gateCh)
	}
	f.mu.Unlock()
}

// gate blocks a transaction begun after initTaskChan; returns an error when it must not proceed.
func (f *faultDB) gate(read bool) error {
	f.mu.Lock()
	if !f.gateArmed || f.paused {
		f.mu.Unlock()
		return nil
	}
	if !f.gated {
		if read && callerHas("initTaskChan") {
			f.gated = true // this View itself goes through
		}
		f.mu.Unlock()
		return nil
	}
	ch := f.gateCh
	f.gateWaiters++
	f.mu.Unlock()
	<-ch
	return errInjected
}

func (f *faultDB) waiters() int {
	f.mu.Lock()
	defer f.mu.Unlock()
	return f.gateWaiters
}

func callerHas(name string) bool {
	pcs := make([]uintptr, 24)
	n := runtime.Callers(3, pcs)
	frames := runtime.CallersFrames(pcs[:n])
	for {
		fr, more := frames.Next()
		if strings.Contains(fr.Function, name) {
			return true
		}
		if !more {
			return false
		}
	}
}

func (f *faultDB) BeginTx() (mwdb.DBTransaction, error) {
	if err := f.gate(false); err != nil {
		return nil, err
	}
	if err := f.tick("begin"); err != nil {
		return nil, err
	}
	// watchdog: a write transaction that was neither committed nor rolled back keeps the driver's
	// writer lock for good; report that as an error instead of hanging the harness
	type res struct {
		tx  mwdb.DBTransaction
		err error
	}
	ch := make(chan res, 1)
	go func() {
		tx, err := f.inner.BeginTx()
		ch <- res{tx, err}
	}()
	select {
	case r := <-ch:
		if r.err != nil {
			return nil, r.err
		}
		f.writeTx++
		return &faultTx{f: f, w: r.tx}, nil
	case <-time.After(20 * time.Second):
		return nil, errors.New("writer lock not released (an earlier write transaction was never finished)")
	}
}

func (f *faultDB) BeginReadTx() (mwdb.ReadTransaction, error) {
	if err := f.gate(true); err != nil {
		return nil, err
	}
	if err := f.tick("begin"); err != nil {
		return nil, err
	}
	tx, err := f.inner.BeginReadTx()
	if err != nil {
		return nil, err
	}
	return &faultTx{f: f, r: tx}, nil
}

// faultTx wraps a write transaction (w) or a read transaction (r).
type faultTx struct {
	f *faultDB
	w mwdb.DBTransaction
	r mwdb.ReadTransaction
}

func (t *faultTx) wrap(b mwdb.Bucket) mwdb.Bucket {
	if b == nil {
		return nil
	}
	return &faultBucket{f: t.f, b: b}
}

func (t *faultTx) TopLevelBucket(name string) mwdb.Bucket {
	if t.w != nil {
		return t.wrap(t.w.TopLevelBucket(name))
	}
	return t.wrap(t.r.TopLevelBucket(name))
}

func (t *faultTx) FetchBucket(meta mwdb.BucketMeta) mwdb.Bucket {
	if t.w != nil {
		return t.wrap(t.w.FetchBucket(meta))
	}
	return t.wrap(t.r.FetchBucket(meta))
}

func (t *faultTx) BucketNames() ([]string, error) {
	if err := t.f.tick("get"); err != nil {
		return nil, err
	}
	if t.w != nil {
		return t.w.BucketNames()
	}
	return t.r.BucketNames()
}

func (t *faultTx) Rollback() error {
	if t.w != nil {
		return t.w.Rollback()
	}
	return t.r.Rollback()
}

func (t *faultTx) Commit() error {
	if t.w == nil {
		return mwdb.ErrWriteNotAllowed
	}
	if err := t.f.tick("commit"); err != nil {
		_ = t.w.Rollback() // the batch is dropped, the writer lock released: nothing reaches the disk
		return err
	}
	if err := t.w.Commit(); err != nil {
		return err
	}
	t.f.mu.Lock()
	k := t.f.commits
	t.f.commits++
	t.f.mu.Unlock()
	if t.f.onCommit != nil {
		t.f.onCommit(k)
	}
	return nil
}

func (t *faultTx) CreateTopLevelBucket(name string) (mwdb.Bucket, error) {
	if t.w == nil {
		return nil, mwdb.ErrWriteNotAllowed
	}
	if err := t.f.tick("put"); err != nil {
		return nil, err
	}
	b, err := t.w.CreateTopLevelBucket(name)
	if err != nil {
		return nil, err
	}
	return t.wrap(b), nil
}

func (t *faultTx) DeleteTopLevelBucket(name string) error {
	if t.w == nil {
		return mwdb.ErrWriteNotAllowed
	}
	return t.w.DeleteTopLevelBucket(name)
}

type faultBucket struct {
	f *faultDB
	b mwdb.Bucket
}

func (b *faultBucket) wrap(x mwdb.Bucket) mwdb.Bucket {
	if x == nil {
		return nil
	}
	return &faultBucket{f: b.f, b: x}
}

func (b *faultBucket) NewBucket(name string) (mwdb.Bucket, error) {
	if err := b.f.tick("put"); err != nil {
		return nil, err
	}
	x, err := b.b.NewBucket(name)
	if err != nil {
		return nil, err
	}
	return b.wrap(x), nil
}
func (b *faultBucket) Bucket(name string) mwdb.Bucket { return b.wrap(b.b.Bucket(name)) }
func (b *faultBucket) BucketNames() ([]string, error) {
	if err := b.f.tick("get"); err != nil {
		return nil, err
	}
	return b.b.BucketNames()
}
func (b *faultBucket) DeleteBucket(name string) error {
	if err := b.f.tick("delete"); err != nil {
		return err
	}
	return b.b.DeleteBucket(name)
}
func (b *faultBucket) Put(key, value []byte) error {
	if err := b.f.tick("put"); err != nil {
		return err
	}
	return b.b.Put(key, value)
}
func (b *faultBucket) Delete(key []byte) error {
	if err := b.f.tick("delete"); err != nil {
		return err
	}
	return b.b.Delete(key)
}
func (b *faultBucket) Get(key []byte) ([]byte, error) {
	if err := b.f.tick("get"); err != nil {
		return nil, err
	}
	return b.b.Get(key)
}
func (b *faultBucket) Clear() error {
	if err := b.f.tick("delete"); err != nil {
		return err
	}
	return b.b.Clear()
}
func (b *faultBucket) GetByPrefix(p []byte) ([]*mwdb.Entry, error) {
	if err := b.f.tick("get"); err != nil {
		return nil, err
	}
	return b.b.GetByPrefix(p)
}
func (b *faultBucket) GetBucketMeta() mwdb.BucketMeta          { return b.b.GetBucketMeta() }
func (b *faultBucket) NewIterator(s *mwdb.Range) mwdb.Iterator { return b.b.NewIterator(s) }

// ---------------------------------------------------------------- directory helpers

// forkDir copies the (flat) LevelDB directory src to dst file by file. goleveldb compacts level 0 in
// a background goroutine once a directory has been re-opened a few times (every open turns the
// journal into a new table file); a copy taken while that runs could miss a file, so the copy is
// repeated until the directory listing (names and sizes) is the same before and after it.
func forkDir(src, dst string) error {
	var err error
	for try := 0; try < 40; try++ {
		before := dirStamp(src)
		err = forkDirOnce(src, dst)
		if err == nil && dirStamp(src) == before {
			return nil
		}
		os.RemoveAll(dst)
		time.Sleep(time.Duration(1+try) * time.Millisecond)
	}
	if err == nil {
		err = errors.New("wallet directory kept changing while it was copied")
	}
	return err
}

func forkDirOnce(src, dst string) error {
	if err := os.MkdirAll(dst, 0700); err != nil {
		return err
	}
	ents, err := os.ReadDir(src)
	if err != nil {
		return err
	}
	for _, e := range ents {
		if e.IsDir() || e.Name() == "LOCK" {
			continue
		}
		if err := copyFile(filepath.Join(src, e.Name()), filepath.Join(dst, e.Name())); err != nil {
			return err
		}
	}
	return nil
}

func copyFile(src, dst string) error {
	in, err := os.Open(src)
	if err != nil {
		return err
	}
	defer in.Close()
	out, err := os.Create(dst)
	if err != nil {
		return err
	}
	if _, err := io.Copy(out, in); err != nil {
		out.Close()
		return err
	}
	return out.Close()
}

func faultSortedKeys(m map[string]int) []string {
	ks := make([]string, 0, len(m))
	for k := range m {
		ks = append(ks, k)
	}
	sort.Strings(ks)
	return ks
}

// unfaulted runs a harness-internal query with fault injection suspended.
func unfaulted(e *WEnv, q func() string) string {
	if f, ok := e.wdb.(*faultDB); ok {
		f.mu.Lock()
		old := f.paused
		f.paused = true
		f.mu.Unlock()
		defer func() { f.mu.Lock(); f.paused = old; f.mu.Unlock() }()
	}
	return q()
}
