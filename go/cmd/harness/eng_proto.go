package main

// Engine proto (C20): shutdown against the REAL follower and worker goroutines.
//
// The wallet is started for real (WalletManager.Start over a real blockchain.Blockchain built on the
// WEnv chain database: NtfnsHandler.Start catch-up, initTaskChan, `go handle`, `go worker`) and stopped
// for real (WalletManager.Stop: UnregisterListener, close(quit), quitWg.Wait, CloseDB). The wallet
// database handed to the manager is wrapped by protoGateDB, whose BeginTx / BeginReadTx / Commit are the
// yield points: a protoGate can hold the k-th such call made from the worker goroutine or from the follower
// goroutine (the role is read off the call stack), which places the stop request exactly relative to the
// database steps and hand-shakes of a running import / removal. No hook in /repo is needed.
//
// Ops (everything else is delegated to the led engine):
//
//	ext I                          create a throw-away wallet elsewhere; remember its mnemonic as I and bind
//	                               its first address as address name I (so that blocks can pay it)
//	start                          build the Blockchain, WalletManager.Start()                    -> ok | err
//	stopat remove W P | stopat import I P | stopat none - P
//	                               queue the task through the real API (RemoveWallet /
//	                               ImportWalletWithMnemonic), place Stop at P, watchdog           -> stopped | HANG | nogate | rejected
//	   P = now                     Stop right after the API call returned
//	       worker:begin:K          Stop while the worker is held at its K-th BeginTx (inside suspend..resume)
//	       worker:commit:K         … at its K-th Commit
//	       handler:begin           a block notification is queued and the follower held at its BeginTx; the task is
//	                               queued (the worker parks at suspend); Stop; release the follower
//	       blocks:N                N block notifications queued behind a held follower; Stop; release
//	stophold B1;B2;…;Bn            n attempts of the select-dependent placement, in ONE op so that its outcome is (almost)
//	                               a function of the code: attempt i submits block Bi to the node, holds the follower
//	                               at the BeginTx of Bi, queues the import of the throw-away wallet Ii (the worker
//	                               parks at suspend), calls Stop, releases the follower. A hang ends the op with
//	                               HANG; otherwise restart, start, wait for the import, next attempt. A skeleton whose
//	                               follower may pick quit over a parked worker (probability 1/2 per attempt) survives
//	                               n attempts with probability 2^-n.                                -> stopped | HANG
//	racestart W                    hold the worker's first database read, Start, RemoveWallet at once (D10) -> accepted stopped | PANIC …
//	await                          (after restart + start) wait until no wallet is importing / removing -> wallets string | TIMEOUT
//	stop                           plain Stop with watchdog                                       -> stopped | HANG
//	live remove W N | live import I N | live none - N
//	                               the running side (eng_proto_live.go): N block notifications queued behind a held
//	                               follower, the task queued (the worker parks at suspend), follower released, NO stop:
//	                               wait until the follower has processed all N blocks and the task has finished
//	                                                                                               -> done | TIMEOUT … | nogate | rejected
//	livef remove W N K | livef import I N K
//	                               the same with a storage fault: the first K commits made from the worker goroutine
//	                               fail (rolled back) - the task is retried; the follower must have been resumed each time
//	                                                                                               -> done K | TIMEOUT … | nofault
//	pfill K TAG | fullq I1;…;In retry:B | fullq I1;…;In batches     see eng_proto_fullq.go

import (
	"fmt"
	"math/rand"
	"os"
	"path/filepath"
	"runtime"
	"strconv"
	"strings"
	"sync"
	"time"

	"github.com/massnetorg/mass-core/blockchain"
	"github.com/massnetorg/mass-core/blockchain/state"
	"github.com/massnetorg/mass-core/massutil"
	"github.com/massnetorg/mass-core/trie/rawdb"
	"massnet.org/mass-wallet/config"
	"massnet.org/mass-wallet/masswallet"
	mwdb "massnet.org/mass-wallet/masswallet/db"
	"massnet.org/mass-wallet/masswallet/keystore"
)

func init() {
	register(&Engine{Name: "proto", Gen: genProto, NewExec: func() Exec { return &protoExec{} }})
}

// ---------------------------------------------------------------- gate

func protoCallerRole() string {
	pcs := make([]uintptr, 64)
	n := runtime.Callers(3, pcs)
	frames := runtime.CallersFrames(pcs[:n])
	for {
		f, more := frames.Next()
		if strings.HasSuffix(f.Function, "/masswallet.worker") {
			return "worker"
		}
		if strings.HasSuffix(f.Function, "/masswallet.handle") {
			return "handler"
		}
		if !more {
			return "other"
		}
	}
}

type protoGate struct {
	mu      sync.Mutex
	armed   bool
	role    string
	kind    string
	k       int
	count   int
	held    chan struct{}
	release chan struct{}
	// fault injection for the running-side experiments (eng_proto_live.go): the next `failWorker` commits made
	// from the worker goroutine are rolled back and fail
	failWorker int
	failed     int
}

func (g *protoGate) arm(role, kind string, k int) {
	g.mu.Lock()
	g.armed, g.role, g.kind, g.k, g.count = true, role, kind, k, 0
	g.held = make(chan struct{})
	g.release = make(chan struct{})
	g.mu.Unlock()
}

// open releases a held goroutine (if any) and disarms.
func (g *protoGate) open() {
	g.mu.Lock()
	g.armed = false
	if g.release != nil {
		select {
		case <-g.release:
		default:
			close(g.release)
		}
	}
	g.mu.Unlock()
}

func (g *protoGate) waitHeld(d time.Duration) bool {
	g.mu.Lock()
	h := g.held
	g.mu.Unlock()
	if h == nil {
		return false
	}
	select {
	case <-h:
		return true
	case <-time.After(d):
		return false
	}
}

func (g *protoGate) point(kind string) {
	g.mu.Lock()
	if !g.armed || kind != g.kind {
		g.mu.Unlock()
		return
	}
	g.mu.Unlock()
	role := protoCallerRole()
	g.mu.Lock()
	if !g.armed || role != g.role {
		g.mu.Unlock()
		return
	}
	g.count++
	if g.count != g.k {
		g.mu.Unlock()
		return
	}
	g.armed = false
	held, rel := g.held, g.release
	g.mu.Unlock()
	close(held)
	<-rel
}

type protoGateDB struct {
	inner mwdb.DB
	g     *protoGate
}

func (d *protoGateDB) Close() error { return d.inner.Close() }
func (d *protoGateDB) BeginTx() (mwdb.DBTransaction, error) {
	d.g.point("begin")
	tx, err := d.inner.BeginTx()
	if err != nil {
		return nil, err
	}
	return &protoGateTx{DBTransaction: tx, g: d.g}, nil
}
func (d *protoGateDB) BeginReadTx() (mwdb.ReadTransaction, error) {
	d.g.point("beginread")
	return d.inner.BeginReadTx()
}

type protoGateTx struct {
	mwdb.DBTransaction
	g *protoGate
}

func (t *protoGateTx) Commit() error {
	t.g.point("commit")
	if t.g.takeFault() {
		_ = t.DBTransaction.Rollback() // nothing reaches the disk, the writer lock is released
		return errProtoInjected
	}
	return t.DBTransaction.Commit()
}

// ---------------------------------------------------------------- executor

type protoExec struct {
	e       *WEnv
	g       *protoGate
	started bool
	ext     map[string]string // name -> mnemonic
	nbc     int
	hangs   int
	dead    bool // after a HANG / PANIC the environment is abandoned; ops answer "dead" until the next reset
	// eng_proto_fullq.go
	nfill    int
	imported map[string]bool // throw-away wallets already imported through the API
}

func (x *protoExec) env() *WEnv {
	if x.e == nil {
		g := &protoGate{}
		x.g = g
		x.e = newWEnvWrapped(func(e *WEnv) {
			e.wrapDB = func(d mwdb.DB) mwdb.DB { return &protoGateDB{inner: d, g: g} }
		})
		x.ext = map[string]string{}
		x.imported = map[string]bool{}
	}
	return x.e
}

func (x *protoExec) Reset() {
	if x.e == nil {
		return
	}
	x.g.open()
	if x.started || x.dead {
		// a history that left the wallet running (or hung): abandon that environment
		x.abandon()
		return
	}
	x.e.reset()
	x.ext = map[string]string{}
	x.imported = map[string]bool{}
}

// abandon drops an environment whose goroutines may still be alive (after a HANG the database stays open
// and the worker is blocked for good); a fresh one is created on demand.
func (x *protoExec) abandon() {
	old := x.e
	x.e = nil
	x.started = false
	x.dead = false
	go func() {
		defer func() { recover() }()
		if old.wdb != nil {
			old.wdb.Close()
		}
	}()
}

func (x *protoExec) Close() {
	if x.e != nil && !x.started {
		x.e.Close()
	}
}

func (x *protoExec) Exec(a []string) string {
	e := x.env()
	if len(a) == 0 {
		return "bad-op"
	}
	if x.dead {
		return "dead"
	}
	switch {
	case a[0] == "ext" && len(a) == 2:
		return x.extWallet(a[1])
	case a[0] == "start" && len(a) == 1:
		return x.start()
	case a[0] == "stop" && len(a) == 1:
		return x.stop()
	case a[0] == "stopat" && len(a) == 4:
		return x.stopAt(a[1], a[2], a[3])
	case a[0] == "racestart" && len(a) == 2:
		return x.raceStart(a[1])
	case a[0] == "stophold" && len(a) == 2:
		return x.stopHold(strings.Split(a[1], ";"))
	case a[0] == "await" && len(a) == 1:
		return x.await()
	case a[0] == "live" && len(a) == 4:
		return x.live(a[1], a[2], a[3], 0)
	case a[0] == "livef" && len(a) == 5:
		k, err := strconv.Atoi(a[4])
		if err != nil || k < 1 || k > 3 {
			return "bad-op"
		}
		return x.live(a[1], a[2], a[3], k)
	case a[0] == "fullq" && len(a) == 3: // eng_proto_fullq.go
		return x.fullQueue(strings.Split(a[1], ";"), a[2])
	case a[0] == "pfill" && len(a) == 3:
		k, err := strconv.Atoi(a[1])
		if err != nil || k < 0 || k > 5000 {
			return "bad-op"
		}
		return x.pfill(k, a[2])
	case a[0] == "restart" && len(a) == 1:
		if x.started {
			return "bad-op"
		}
		return errTok(e.Restart())
	}
	if x.started && (a[0] == "notify" || a[0] == "recvtx") {
		return "bad-op" // the follower goroutine owns block processing now
	}
	return ledOp(e, a)
}

// extWallet creates a wallet in a throw-away manager over a throw-away database and keeps its mnemonic.
func (x *protoExec) extWallet(name string) string {
	e := x.e
	if _, dup := x.ext[name]; dup {
		return "err"
	}
	p := filepath.Join(e.dir, "ext-"+name)
	db, err := mwdb.CreateDB("leveldb", p)
	if err != nil {
		return "err"
	}
	defer func() {
		db.Close()
		os.RemoveAll(p)
	}()
	wm, err := masswallet.NewWalletManager(e.srv, db, e.cfg, config.ChainParams, pubPass)
	if err != nil {
		return "err"
	}
	id, mn, _, err := wm.CreateWallet(privPass(name), "", 128)
	if err != nil {
		return "err"
	}
	if _, err := wm.UseWallet(id); err != nil {
		return "err"
	}
	enc, err := wm.NewAddress(massutil.AddressClassWitnessV0)
	if err != nil {
		return "err"
	}
	x.ext[name] = mn
	e.wallets[name] = id
	e.walletRev[id] = name
	if err := e.bindAddr(name, "", "std", enc); err != nil {
		return "err"
	}
	return "ok"
}

func (x *protoExec) start() string {
	e := x.e
	if x.started || e.wm == nil {
		return "bad-op"
	}
	x.nbc++
	bdir := filepath.Join(e.dir, fmt.Sprintf("bc-%d", x.nbc))
	bindingDb, err := rawdb.NewLevelDBDatabase(filepath.Join(bdir, "bindingstate"), 0, 0, "", false)
	if err != nil {
		return "err-bindingdb"
	}
	bc, err := blockchain.NewBlockchain(&blockchain.Config{
		DB:             e.chainDb,
		StateBindingDb: state.NewDatabase(bindingDb),
		ChainParams:    config.ChainParams,
		CachePath:      filepath.Join(bdir, blockchain.BlockCacheFileName),
	})
	if err != nil {
		if verifDebug {
			fmt.Fprintln(os.Stderr, "  [NewBlockchain]", err)
		}
		return "err-blockchain"
	}
	e.srv.bc = bc
	if err := e.wm.Start(); err != nil {
		return errTok(err)
	}
	x.started = true
	return "ok"
}

const protoWatchdog = 6 * time.Second

// stopWithWatchdog calls the real Stop; a hang becomes the token HANG (goroutine dump in hang-N.txt).
func (x *protoExec) stopWithWatchdog(before func()) string {
	e := x.e
	done := make(chan struct{})
	wm := e.wm
	go func() {
		defer func() { recover() }()
		wm.Stop()
		close(done)
	}()
	if before != nil {
		before()
	}
	select {
	case <-done:
		x.started = false
		// the manager closed the database itself
		e.wdb = nil
		e.wm = nil
		return "stopped"
	case <-time.After(protoWatchdog):
		x.hangs++
		x.dead = true
		buf := make([]byte, 1<<20)
		n := runtime.Stack(buf, true)
		os.WriteFile(filepath.Join(filepath.Dir(e.dir), fmt.Sprintf("hang-%d-%d.txt", os.Getpid(), x.hangs)), buf[:n], 0644)
		if verifDebug {
			fmt.Fprintln(os.Stderr, "  [HANG] goroutine dump written")
		}
		return "HANG"
	}
}

func (x *protoExec) stop() string {
	if !x.started {
		return "bad-op"
	}
	return x.stopWithWatchdog(nil)
}

const protoSettle = 40 * time.Millisecond

func (x *protoExec) issue(task, who string) string {
	e := x.e
	switch task {
	case "remove":
		id, ok := e.wallets[who]
		if !ok {
			return "bad-op"
		}
		if err := e.wm.RemoveWallet(id, privPass(who)); err != nil {
			if verifDebug {
				fmt.Fprintln(os.Stderr, "  [RemoveWallet]", err)
			}
			return "rejected"
		}
		return ""
	case "import":
		mn, ok := x.ext[who]
		if !ok {
			return "bad-op"
		}
		_, err := e.wm.ImportWalletWithMnemonic(&keystore.WalletParams{
			Mnemonic: mn, PrivatePassphrase: []byte(privPass(who)), ExternalIndex: 1, InternalIndex: 0,
			AddressGapLimit: 3,
		})
		if err != nil {
			if verifDebug {
				fmt.Fprintln(os.Stderr, "  [ImportWalletWithMnemonic]", err)
			}
			return "rejected"
		}
		return ""
	case "none":
		return ""
	}
	return "bad-op"
}

// nextBlocks returns up to n blocks submitted to the node but not yet announced to the wallet.
func (x *protoExec) nextBlocks(n int) []*blockInfo {
	e := x.e
	h, _ := e.wm.VerifBestBlock()
	var out []*blockInfo
	for i := int(h) + 1; i < len(e.chain) && len(out) < n; i++ {
		out = append(out, e.blocks[e.chain[i]])
	}
	return out
}

func (x *protoExec) stopAt(task, who, place string) string {
	e := x.e
	if !x.started {
		return "bad-op"
	}
	p := strings.Split(place, ":")
	switch {
	case place == "now":
		if r := x.issue(task, who); r != "" {
			return r
		}
		return x.stopWithWatchdog(nil)
	case len(p) == 3 && p[0] == "worker" && (p[1] == "begin" || p[1] == "commit"):
		k, err := strconv.Atoi(p[2])
		if err != nil || k < 1 {
			return "bad-op"
		}
		x.g.arm("worker", p[1], k)
		if r := x.issue(task, who); r != "" {
			x.g.open()
			return r
		}
		if !x.g.waitHeld(6 * time.Second) {
			x.g.open()
			r := x.stopWithWatchdog(nil)
			if r == "stopped" {
				return "nogate"
			}
			return r
		}
		return x.stopWithWatchdog(func() {
			stopWaiting(3 * time.Second) // quit is closed …
			time.Sleep(protoSettle)      // … and the follower (if its wait selects on quit) has returned
			x.g.open()
		})
	case (len(p) == 2 && p[0] == "handler" && p[1] == "begin") || (len(p) == 2 && p[0] == "blocks"):
		n := 1
		if p[0] == "blocks" {
			v, err := strconv.Atoi(p[1])
			if err != nil || v < 1 {
				return "bad-op"
			}
			n = v
		}
		blks := x.nextBlocks(n)
		if len(blks) < n {
			return "bad-op"
		}
		x.g.arm("handler", "begin", 1)
		for _, b := range blks {
			e.wm.VerifOnBlockConnected(b.msg)
		}
		if !x.g.waitHeld(6 * time.Second) {
			x.g.open()
			r := x.stopWithWatchdog(nil)
			if r == "stopped" {
				return "nogate"
			}
			return r
		}
		if r := x.issue(task, who); r != "" {
			x.g.open()
			return r
		}
		if task != "none" {
			workerAtSuspend(3 * time.Second) // the worker has taken the task and stands at suspend()
		}
		return x.stopWithWatchdog(func() {
			stopWaiting(3 * time.Second) // quit is closed
			time.Sleep(2 * time.Millisecond)
			x.g.open()
		})
	}
	return "bad-op"
}

// waitStack polls the goroutine dump until some goroutine's stack contains all the given substrings (that
// is how the harness KNOWS the worker stands inside suspend() or Stop inside quitWg.Wait, instead of
// sleeping and hoping); false after d.
func waitStack(d time.Duration, subs ...string) bool {
	deadline := time.Now().Add(d)
	buf := make([]byte, 1<<20)
	for {
		n := runtime.Stack(buf, true)
		for _, g := range strings.Split(string(buf[:n]), "\n\n") {
			all := true
			for _, sub := range subs {
				if !strings.Contains(g, sub) {
					all = false
					break
				}
			}
			if all {
				return true
			}
		}
		if time.Now().After(deadline) {
			return false
		}
		time.Sleep(2 * time.Millisecond)
	}
}

// workerAtSuspend: the worker goroutine is inside NtfnsHandler.suspend (parked on the hand-shake).
func workerAtSuspend(d time.Duration) bool {
	return waitStack(d, "masswallet.(*NtfnsHandler).suspend", "masswallet.worker")
}

// stopWaiting: Stop has closed quit and sits in quitWg.Wait.
func stopWaiting(d time.Duration) bool {
	return waitStack(d, "masswallet.(*NtfnsHandler).Stop", "sync.(*WaitGroup).Wait")
}

func (x *protoExec) stopHold(blks []string) string {
	e := x.e
	if !x.started {
		return "bad-op"
	}
	// validate everything first: every block defined and extending its predecessor (the first one the node's
	// tip), one throw-away wallet per attempt
	prev := e.Tip().name
	for i, b := range blks {
		bi, ok := e.blocks[b]
		if _, has := x.ext[fmt.Sprintf("I%d", i+1)]; !ok || !has || bi.prev != prev {
			return "bad-op"
		}
		prev = b
	}
	for i, b := range blks {
		who := fmt.Sprintf("I%d", i+1)
		bi := e.blocks[b]
		if err := e.Submit(b); err != nil {
			return "err-submit"
		}
		x.g.arm("handler", "begin", 1)
		e.wm.VerifOnBlockConnected(bi.msg)
		if !x.g.waitHeld(6 * time.Second) {
			x.g.open()
			return "nogate"
		}
		if r := x.issue("import", who); r != "" {
			x.g.open()
			return r
		}
		workerAtSuspend(3 * time.Second) // the worker has taken the task and stands at suspend()
		r := x.stopWithWatchdog(func() {
			stopWaiting(3 * time.Second) // quit is closed
			time.Sleep(2 * time.Millisecond)
			x.g.open()
		})
		if r != "stopped" {
			return r
		}
		if err := e.Restart(); err != nil {
			return "err-restart"
		}
		if r := x.start(); r != "ok" {
			return "err-start"
		}
		if s := x.await(); strings.HasPrefix(s, "TIMEOUT") {
			return s
		}
	}
	return "stopped"
}

func (x *protoExec) raceStart(who string) string {
	e := x.e
	id, ok := e.wallets[who]
	if !ok || x.started {
		return "bad-op"
	}
	x.g.arm("worker", "beginread", 1)
	if r := x.start(); r != "ok" {
		x.g.open()
		return r
	}
	x.g.waitHeld(protoSettle)
	res := "accepted"
	func() {
		defer func() {
			if r := recover(); r != nil {
				x.dead = true
				panic(r)
			}
		}()
		defer x.g.open()
		if err := e.wm.RemoveWallet(id, privPass(who)); err != nil {
			res = "rejected"
		}
	}()
	return res + " " + x.stopWithWatchdog(nil)
}

func (x *protoExec) await() string {
	if !x.started {
		return "bad-op"
	}
	deadline := time.Now().Add(40 * time.Second)
	for {
		s := x.e.Wallets()
		// "err": Wallets() joins the committed status table with the keystore manager's volatile map; while
		// the final removal transaction is between DeleteKeystore and its commit the join fails transiently.
		// Not an outcome of the awaited task: keep polling.
		if s != "err" && !strings.Contains(s, "importing") && !strings.Contains(s, "removing") {
			return s
		}
		if time.Now().After(deadline) {
			return "TIMEOUT " + s
		}
		time.Sleep(10 * time.Millisecond)
	}
}

// ---------------------------------------------------------------- generator

func genProto(g *Gen) {
	type sc struct{ task, place string }
	var scs []sc
	// order: a history-based check stops at the first disagreement of a stream, so the placements whose
	// outcome does not depend on the follower's random select come first
	for _, t := range []string{"remove", "import"} {
		scs = append(scs, sc{t, "now"})
	}
	for _, t := range []string{"remove", "import"} {
		scs = append(scs, sc{t, "worker:begin:1"}, sc{t, "worker:commit:1"})
	}
	scs = append(scs, sc{"none", "now"}, sc{"none", "blocks:3"}, sc{"none", "handler:begin"})
	for _, t := range []string{"remove", "import"} {
		scs = append(scs, sc{t, "handler:begin"}, sc{t, "blocks:3"})
	}
	// the queue filled to the accept limit while the task in hand is re-queued (eng_proto_fullq.go): deterministic, cheap
	// (own random source derived from the seed: the histories below are the same as without these)
	saved := g.Rng
	g.Rng = rand.New(rand.NewSource(g.Seed*1000003 + 2003))
	for i := 0; i < g.Scale(1, 4); i++ {
		genProtoFullQueue(g, "retry")
		genProtoFullQueue(g, "batches")
	}
	g.Rng = saved
	// first of all: the placement whose outcome depends on the follower's random select, repeated inside one
	// op (8 attempts: a skeleton that can hang there with probability 1/2 per attempt is caught with 1 - 2^-8)
	for i := 0; i < g.Scale(1, 3); i++ {
		genProtoHold(g, g.Scale(8, 10))
	}
	reps := g.Scale(2, 6)
	// the placements whose outcome depends on the follower's select (quit vs sigSuspend) are repeated more often
	for rep := 0; rep < reps; rep++ {
		for _, s := range scs {
			n := 1
			if s.place == "handler:begin" || s.place == "now" {
				n = g.Scale(3, 6)
			}
			if s.task == "none" {
				n = 1
			}
			for i := 0; i < n; i++ {
				genProtoHistory(g, s.task, s.place)
			}
		}
		genProtoRace(g)
		for _, t := range []string{"remove", "import", "none"} {
			genProtoLive(g, t, 0)
		}
		for _, t := range []string{"remove", "import"} {
			genProtoLive(g, t, 1+g.Rng.Intn(2))
		}
	}
}

// a small chain that pays the wallet to be removed (several coins, so that the removal has work in every
// round) and the wallet to be imported; some blocks are left unannounced for the follower.
func genProtoHistory(g *Gen, task, place string) {
	l := newLedGen(g, "proto")
	l.g.Reset()
	l.op("params", "params 2 3")
	l.op("wallet", "wallet W1")
	l.op("addr", "addr W1 A1 std")
	l.op("wallet", "wallet W2")
	l.op("addr", "addr W2 A2 std")
	l.op("ext", "ext I1")
	nBlk := 3 + g.Rng.Intn(3)
	prev := "G"
	for i := 1; i <= nBlk; i++ {
		l.op("tx", "tx C%d %d cb A1:%d;I1:%d;A2:%d", i, i, 100+g.Rng.Intn(100), 50+g.Rng.Intn(50), 10+g.Rng.Intn(20))
		l.op("block", "block B%d %s C%d", i, prev, i)
		l.op("submit", "submit B%d", i)
		l.op("notify", "notify B%d", i)
		prev = fmt.Sprintf("B%d", i)
	}
	// blocks the running follower will be told about
	for i := nBlk + 1; i <= nBlk+3; i++ {
		l.op("tx", "tx C%d %d cb A1:%d;I1:%d", i, i, 100+g.Rng.Intn(100), 50+g.Rng.Intn(50))
		l.op("block", "block B%d %s C%d", i, prev, i)
		prev = fmt.Sprintf("B%d", i)
	}
	l.op("q-wallets", "wallets")
	l.op("start", "start")
	for i := nBlk + 1; i <= nBlk+3; i++ {
		l.op("submit", "submit B%d", i)
	}
	who := "-"
	switch task {
	case "remove":
		who = "W1"
	case "import":
		who = "I1"
	}
	cls := "stopat-" + task + "-" + strings.SplitN(place, ":", 3)[0]
	if strings.HasPrefix(place, "worker") {
		cls = "stopat-" + task + "-worker"
	}
	l.op(cls, "stopat %s %s %s", task, who, place)
	// the accepted task survives the stop: after a restart it finishes
	l.op("restart", "restart")
	l.op("start", "start")
	l.op("await", "await")
	l.op("stop", "stop")
}

// genProtoHold: n throw-away wallets to import, n blocks for the follower to be held in, one stophold op.
func genProtoHold(g *Gen, n int) {
	l := newLedGen(g, "proto")
	l.g.Reset()
	l.op("params", "params 2 3")
	l.op("wallet", "wallet W1")
	l.op("addr", "addr W1 A1 std")
	for i := 1; i <= n; i++ {
		l.op("ext", "ext I%d", i)
	}
	pay := func(i int) string {
		return fmt.Sprintf("A1:%d;I%d:%d;I%d:%d", 100+g.Rng.Intn(100), 1+i%n, 50+g.Rng.Intn(50), 1+(i+1)%n, 20+g.Rng.Intn(20))
	}
	prev := "G"
	for i := 1; i <= 3; i++ {
		l.op("tx", "tx C%d %d cb %s", i, i, pay(i))
		l.op("block", "block B%d %s C%d", i, prev, i)
		l.op("submit", "submit B%d", i)
		l.op("notify", "notify B%d", i)
		prev = fmt.Sprintf("B%d", i)
	}
	var held []string
	for i := 4; i < 4+n; i++ {
		l.op("tx", "tx C%d %d cb %s", i, i, pay(i))
		l.op("block", "block B%d %s C%d", i, prev, i)
		prev = fmt.Sprintf("B%d", i)
		held = append(held, prev)
	}
	l.op("start", "start")
	l.op("stophold", "stophold %s", strings.Join(held, ";"))
	l.op("await", "await")
	l.op("stop", "stop")
}

func genProtoRace(g *Gen) {
	l := newLedGen(g, "proto")
	l.g.Reset()
	l.op("params", "params 2 3")
	l.op("wallet", "wallet W1")
	l.op("addr", "addr W1 A1 std")
	l.op("tx", "tx C1 1 cb A1:100")
	l.op("block", "block B1 G C1")
	l.op("submit", "submit B1")
	l.op("notify", "notify B1")
	l.op("racestart", "racestart W1")
	l.op("restart", "restart")
	l.op("start", "start")
	l.op("await", "await")
	l.op("stop", "stop")
}
