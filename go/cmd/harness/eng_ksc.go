package main

// Engine ksc: the byte-level keystore codecs (Lean: MW.Model.KsCodec, driver MW.Drv.Ksc) against the REAL
// (un)marshalers of /repo:
//
//   snacl.SecretKey.Marshal / Unmarshal (exported), keystore.Keystore.Bytes (exported), and – through the thin
//   wrappers of masswallet/keystore/hooks_verif.go (build tag verif; /verif/fixes/hooks-kscodec.patch) – the
//   record (de)serializers and every put* / fetch* pair of keystore/db.go on a bucket of a real on-disk
//   LevelDB, `export`, `getKeystoreFromJson`, and the decoding prologue of KeystoreManager.ImportKeystore.
//
// Op language (one bucket per history; `reset` starts an empty one).  Blobs in hex, `-` = empty, `nil` = nil slice.
//   marshal <salt> <digest> <N> <R> <P>     → ok <88 bytes>
//   unmarshal <bytes>                       → ok <salt> <digest> <N> <R> <P> | err-malformed
//   u32 <n> | u32of <bytes>                 → ok <bytes> | ok <n> | panic
//   ser-row <type> <raw> | de-row <bytes>   → ok <bytes> | ok <type> <raw> | err | panic
//   ser-hd <pub> <priv> | de-hd <bytes>     → ok <bytes> | ok <pub> <priv> | err | panic
//   hexenc <bytes> | hexdec <ascii bytes>   → ok <bytes> | err
//   render <15 fields>                      → ok <json> rt=same|lossy      (json.Marshal; rt: Unmarshal gives the struct back)
//   parse <json>                            → ok <15 fields> | err         (getKeystoreFromJson; canonical documents only)
//   import-probe <pass-ok> <15 fields> <coin>  → err-cointype | err-accttype | err-hex | err-malformed | err-pass | past-decoding
//   put-* / fetch-* / del-* / init-child / update-child / get-child / export / raw-put / raw-del / dump   (see execBucket)
//
// A Go panic inside the code under test is the output token `panic` (the model has it as an explicit outcome:
// slice / index out of range on a damaged record).

import (
	"encoding/hex"
	"errors"
	"fmt"
	"os"
	"path/filepath"
	"strconv"
	"strings"

	"massnet.org/mass-wallet/config"
	"massnet.org/mass-wallet/masswallet/db"
	_ "massnet.org/mass-wallet/masswallet/db/ldb"
	"massnet.org/mass-wallet/masswallet/keystore"
	"massnet.org/mass-wallet/masswallet/keystore/snacl"
)

func init() {
	register(&Engine{Name: "ksc", Gen: func(g *Gen) { genKsc(g) }, NewExec: func() Exec { return &kscExec{} }})
}

type kscExec struct {
	d    db.DB
	dir  string
	n    int    // bucket counter
	name string // current bucket ("" = none yet)
}

func (x *kscExec) open() {
	if x.d != nil {
		return
	}
	cwd, err := os.Getwd()
	if err != nil {
		panic(err)
	}
	x.dir = filepath.Join(cwd, fmt.Sprintf("kscdb-%d", os.Getpid()))
	os.RemoveAll(x.dir)
	d, err := db.CreateDB("leveldb", x.dir)
	if err != nil {
		panic("ksc harness: cannot create database: " + err.Error())
	}
	x.d = d
}

func (x *kscExec) Reset() { x.name = "" }
func (x *kscExec) Close() {
	if x.d != nil {
		x.d.Close()
		os.RemoveAll(x.dir)
		x.d = nil
	}
}

// bucket returns the history's bucket inside tx (created on first use).
func (x *kscExec) bucketIn(tx interface {
	TopLevelBucket(string) db.Bucket
}) db.Bucket {
	return tx.TopLevelBucket(x.name)
}

func (x *kscExec) ensure() {
	x.open()
	if x.name != "" {
		return
	}
	x.n++
	x.name = fmt.Sprintf("h%d", x.n)
	if err := db.Update(x.d, func(tx db.DBTransaction) error {
		_, err := tx.CreateTopLevelBucket(x.name)
		return err
	}); err != nil {
		panic("ksc harness: cannot create bucket: " + err.Error())
	}
}

// update runs f on the bucket inside a write transaction: commit on nil, roll back on error or panic.
func (x *kscExec) update(f func(b db.Bucket) error) (out string) {
	x.ensure()
	tx, err := x.d.BeginTx()
	if err != nil {
		panic(err)
	}
	done := false
	defer func() {
		if r := recover(); r != nil {
			if !done {
				tx.Rollback()
			}
			kscDebug("panic:", r)
			out = "panic"
		}
	}()
	err = f(x.bucketIn(tx))
	if err != nil {
		done = true
		tx.Rollback()
		kscDebug("error:", err)
		return "err"
	}
	done = true
	if err := tx.Commit(); err != nil {
		panic(err)
	}
	return "ok"
}

// view runs f on the bucket inside a read transaction (committed state, goleveldb order).
func (x *kscExec) view(f func(b db.Bucket) (string, error)) (out string) {
	x.ensure()
	tx, err := x.d.BeginReadTx()
	if err != nil {
		panic(err)
	}
	defer tx.Rollback()
	defer func() {
		if r := recover(); r != nil {
			kscDebug("panic:", r)
			out = "panic"
		}
	}()
	s, err := f(x.bucketIn(tx))
	if err != nil {
		kscDebug("error:", err)
		return "err"
	}
	if s == "" {
		return "ok"
	}
	return "ok " + s
}

func kscDebug(a ...interface{}) {
	if os.Getenv("VERIF_DEBUG") != "" {
		fmt.Fprintln(os.Stderr, a...)
	}
}

// exact returns a copy whose capacity equals its length (the model has no spare capacity behind a slice).
func exact(b []byte) []byte {
	if b == nil {
		return nil
	}
	c := make([]byte, len(b))
	copy(c, b)
	return c
}

// optTok: "nil" → nil slice, "-" → empty non-nil slice, hex otherwise
func optTok(s string) ([]byte, bool) {
	if s == "nil" {
		return nil, true
	}
	b, ok := unhexTok(s)
	return exact(b), ok
}

func showOptTok(b []byte) string {
	if b == nil {
		return "nil"
	}
	return hexTok(b)
}

func u32Tok(s string) (uint32, bool) {
	n, err := strconv.ParseUint(s, 10, 32)
	return uint32(n), err == nil
}

func joinComma(l []string) string {
	if len(l) == 0 {
		return "-"
	}
	return strings.Join(l, ",")
}

func catchPanic(f func() string) (out string) {
	defer func() {
		if r := recover(); r != nil {
			kscDebug("panic:", r)
			out = "panic"
		}
	}()
	return f()
}

func parseKsFields(a []string) (*keystore.Keystore, bool) {
	if len(a) != 15 {
		return nil, false
	}
	var bs [10][]byte
	for i, j := range []int{0, 2, 3, 4, 5, 6, 7, 8, 9} {
		b, ok := unhexTok(a[j])
		if !ok {
			return nil, false
		}
		bs[i] = b
	}
	ver, err := strconv.ParseUint(a[1], 10, 8)
	if err != nil {
		return nil, false
	}
	var nums [5]uint32
	for i := 0; i < 5; i++ {
		n, ok := u32Tok(a[10+i])
		if !ok {
			return nil, false
		}
		nums[i] = n
	}
	k := &keystore.Keystore{}
	k.Remarks = string(bs[0])
	k.Crypto.Version = uint8(ver)
	k.Crypto.Cipher = string(bs[1])
	k.Crypto.EntropyEnc = string(bs[2])
	k.Crypto.KDF = string(bs[3])
	k.Crypto.PubParams = string(bs[4])
	k.Crypto.PrivParams = string(bs[5])
	k.Crypto.CryptoKeyPubEnc = string(bs[6])
	k.Crypto.CryptoKeyPrivEnc = string(bs[7])
	k.Crypto.CryptoKeyEntropyEnc = string(bs[8])
	k.HDpath.Purpose, k.HDpath.Coin, k.HDpath.Account = nums[0], nums[1], nums[2]
	k.HDpath.ExternalChildNum, k.HDpath.InternalChildNum = nums[3], nums[4]
	return k, true
}

const kscProbePass = "Probepass123"

func (x *kscExec) Exec(a []string) string {
	if len(a) == 0 {
		return "bad-op"
	}
	switch {
	// ------------------------------------------------------------ stateless codecs
	case a[0] == "marshal" && len(a) == 6:
		s, ok1 := unhexTok(a[1])
		d, ok2 := unhexTok(a[2])
		n, e1 := strconv.ParseInt(a[3], 10, 64)
		r, e2 := strconv.ParseInt(a[4], 10, 64)
		p, e3 := strconv.ParseInt(a[5], 10, 64)
		if !ok1 || !ok2 || e1 != nil || e2 != nil || e3 != nil || len(s) != snacl.KeySize || len(d) != 32 {
			return "bad-op"
		}
		var sk snacl.SecretKey
		copy(sk.Parameters.Salt[:], s)
		copy(sk.Parameters.Digest[:], d)
		sk.Parameters.N, sk.Parameters.R, sk.Parameters.P = int(n), int(r), int(p)
		return "ok " + hexTok(sk.Marshal())
	case a[0] == "unmarshal" && len(a) == 2:
		b, ok := unhexTok(a[1])
		if !ok {
			return "bad-op"
		}
		return catchPanic(func() string {
			var sk snacl.SecretKey
			if err := sk.Unmarshal(exact(b)); err != nil {
				if err == snacl.ErrMalformed {
					return "err-malformed"
				}
				return "err"
			}
			p := sk.Parameters
			return fmt.Sprintf("ok %s %s %d %d %d", hexTok(p.Salt[:]), hexTok(p.Digest[:]), p.N, p.R, p.P)
		})
	case a[0] == "u32" && len(a) == 2:
		n, ok := u32Tok(a[1])
		if !ok {
			return "bad-op"
		}
		return "ok " + hexTok(keystore.VerifUint32ToBytes(n))
	case a[0] == "u32of" && len(a) == 2:
		// the unguarded reader of a stored counter (getChildNum: binary.LittleEndian.Uint32 of whatever Get
		// returned; `-` stands for a missing value, i.e. nil)
		b, ok := unhexTok(a[1])
		if !ok {
			return "bad-op"
		}
		var v []byte
		if len(b) > 0 {
			v = exact(b)
		}
		return catchPanic(func() string {
			n, err := keystore.VerifGetChildNum(kscOne{v}, false)
			if err != nil {
				return "err"
			}
			return fmt.Sprint("ok ", n)
		})
	case a[0] == "ser-row" && len(a) == 3:
		t, err := strconv.ParseUint(a[1], 10, 8)
		raw, ok := unhexTok(a[2])
		if err != nil || !ok {
			return "bad-op"
		}
		return catchPanic(func() string { return "ok " + hexTok(keystore.VerifSerializeAccountRow(uint8(t), raw)) })
	case a[0] == "de-row" && len(a) == 2:
		b, ok := unhexTok(a[1])
		if !ok {
			return "bad-op"
		}
		return catchPanic(func() string {
			t, raw, err := keystore.VerifDeserializeAccountRow([]byte{1, 0, 0, 0}, exact(b))
			if err != nil {
				return "err"
			}
			return fmt.Sprintf("ok %d %s", t, hexTok(raw))
		})
	case a[0] == "ser-hd" && len(a) == 3:
		pub, ok1 := unhexTok(a[1])
		priv, ok2 := unhexTok(a[2])
		if !ok1 || !ok2 {
			return "bad-op"
		}
		return catchPanic(func() string { return "ok " + hexTok(keystore.VerifSerializeHDAccountKey(pub, priv)) })
	case a[0] == "de-hd" && len(a) == 2:
		b, ok := unhexTok(a[1])
		if !ok {
			return "bad-op"
		}
		return catchPanic(func() string {
			pub, priv, err := keystore.VerifDeserializeHDAccountKey([]byte{1, 0, 0, 0}, exact(b))
			if err != nil {
				return "err"
			}
			return "ok " + hexTok(pub) + " " + hexTok(priv)
		})
	case a[0] == "hexenc" && len(a) == 2:
		b, ok := unhexTok(a[1])
		if !ok {
			return "bad-op"
		}
		return "ok " + hexTok([]byte(hex.EncodeToString(b)))
	case a[0] == "hexdec" && len(a) == 2:
		b, ok := unhexTok(a[1])
		if !ok {
			return "bad-op"
		}
		r, err := hex.DecodeString(string(b))
		if err != nil {
			return "err"
		}
		return "ok " + hexTok(r)
	case a[0] == "render" && len(a) == 16:
		k, ok := parseKsFields(a[1:])
		if !ok {
			return "bad-op"
		}
		return catchPanic(func() string {
			js := k.Bytes()
			back, err := keystore.VerifKeystoreFromJSON(js)
			rt := "lossy"
			if err == nil && *back == *k {
				rt = "same"
			}
			return "ok " + hexTok(js) + " rt=" + rt
		})
	case a[0] == "parse" && len(a) == 2:
		js, ok := unhexTok(a[1])
		if !ok {
			return "bad-op"
		}
		return catchPanic(func() string {
			k, err := keystore.VerifKeystoreFromJSON(js)
			if err != nil {
				return "err"
			}
			c, h := k.Crypto, k.HDpath
			return fmt.Sprintf("ok %s %d %s %s %s %s %s %s %s %s %d %d %d %d %d", hexTok([]byte(k.Remarks)), c.Version, hexTok([]byte(c.Cipher)),
				hexTok([]byte(c.EntropyEnc)), hexTok([]byte(c.KDF)), hexTok([]byte(c.PubParams)), hexTok([]byte(c.PrivParams)),
				hexTok([]byte(c.CryptoKeyPubEnc)), hexTok([]byte(c.CryptoKeyPrivEnc)), hexTok([]byte(c.CryptoKeyEntropyEnc)),
				h.Purpose, h.Coin, h.Account, h.ExternalChildNum, h.InternalChildNum)
		})
	case a[0] == "import-probe" && len(a) == 18:
		k, ok := parseKsFields(a[2:17])
		coin, ok2 := u32Tok(a[17])
		if !ok || !ok2 {
			return "bad-op"
		}
		return x.importProbe(k, coin)
	}
	return x.execBucket(a)
}

// kscOne is a bucket that answers every Get with one fixed value (for the unguarded readers of a stored
// value; every other method is unreachable from them).
type kscOne struct{ v []byte }

func (o kscOne) NewBucket(string) (db.Bucket, error)     { return nil, errors.New("unsupported") }
func (o kscOne) Bucket(string) db.Bucket                 { return nil }
func (o kscOne) BucketNames() ([]string, error)          { return nil, nil }
func (o kscOne) DeleteBucket(string) error               { return errors.New("unsupported") }
func (o kscOne) Put(key, value []byte) error             { return errors.New("unsupported") }
func (o kscOne) Delete(key []byte) error                 { return errors.New("unsupported") }
func (o kscOne) Get(key []byte) ([]byte, error)          { return o.v, nil }
func (o kscOne) Clear() error                            { return errors.New("unsupported") }
func (o kscOne) GetByPrefix([]byte) ([]*db.Entry, error) { return nil, nil }
func (o kscOne) GetBucketMeta() db.BucketMeta            { return nil }
func (o kscOne) NewIterator(slice *db.Range) db.Iterator { return nil }

func (x *kscExec) execBucket(a []string) string {
	arg := func(i int) string {
		if i < len(a) {
			return a[i]
		}
		return ""
	}
	switch a[0] {
	case "put-mk":
		pub, ok1 := optTok(arg(1))
		priv, ok2 := optTok(arg(2))
		if len(a) != 3 || !ok1 || !ok2 {
			return "bad-op"
		}
		return x.update(func(b db.Bucket) error { return keystore.VerifPutMasterKeyParams(b, pub, priv) })
	case "fetch-mk":
		return x.view(func(b db.Bucket) (string, error) {
			pub, priv, err := keystore.VerifFetchMasterKeyParams(b)
			return hexTok(pub) + " " + showOptTok(priv), err
		})
	case "put-ver":
		n, err := strconv.ParseUint(arg(1), 10, 8)
		if len(a) != 2 || err != nil {
			return "bad-op"
		}
		return x.update(func(b db.Bucket) error { return keystore.VerifPutVersion(b, uint8(n)) })
	case "fetch-ver":
		return x.view(func(b db.Bucket) (string, error) {
			v, err := keystore.VerifFetchVersion(b)
			return fmt.Sprint(v), err
		})
	case "put-ent":
		e, ok := unhexTok(arg(1))
		if len(a) != 2 || !ok {
			return "bad-op"
		}
		return x.update(func(b db.Bucket) error { return keystore.VerifPutEntropy(b, e) })
	case "fetch-ent":
		return x.view(func(b db.Bucket) (string, error) {
			v, err := keystore.VerifFetchEntropy(b)
			return showOptTok(v), err
		})
	case "put-ck":
		p, ok1 := optTok(arg(1))
		q, ok2 := optTok(arg(2))
		r, ok3 := optTok(arg(3))
		if len(a) != 4 || !ok1 || !ok2 || !ok3 {
			return "bad-op"
		}
		return x.update(func(b db.Bucket) error { return keystore.VerifPutCryptoKeys(b, p, q, r) })
	case "fetch-ck":
		return x.view(func(b db.Bucket) (string, error) {
			p, q, r, err := keystore.VerifFetchCryptoKeys(b)
			return hexTok(p) + " " + showOptTok(q) + " " + showOptTok(r), err
		})
	case "put-usage", "put-coin":
		n, ok := u32Tok(arg(1))
		if len(a) != 2 || !ok {
			return "bad-op"
		}
		return x.update(func(b db.Bucket) error {
			if a[0] == "put-usage" {
				return keystore.VerifPutAccountUsage(b, n)
			}
			return keystore.VerifPutCoinType(b, n)
		})
	case "fetch-usage", "fetch-coin":
		return x.view(func(b db.Bucket) (string, error) {
			var n uint32
			var err error
			if a[0] == "fetch-usage" {
				n, err = keystore.VerifFetchAccountUsage(b)
			} else {
				n, err = keystore.VerifFetchCoinType(b)
			}
			return fmt.Sprint(n), err
		})
	case "put-acct":
		n, ok := u32Tok(arg(1))
		pub, ok1 := unhexTok(arg(2))
		priv, ok2 := unhexTok(arg(3))
		if len(a) != 4 || !ok || !ok1 || !ok2 {
			return "bad-op"
		}
		return x.update(func(b db.Bucket) error { return keystore.VerifPutAccountInfo(b, n, pub, priv) })
	case "fetch-acct":
		n, ok := u32Tok(arg(1))
		if len(a) != 2 || !ok {
			return "bad-op"
		}
		return x.view(func(b db.Bucket) (string, error) {
			pub, priv, err := keystore.VerifFetchAccountInfo(b, n)
			return hexTok(pub) + " " + hexTok(priv), err
		})
	case "put-id", "del-id":
		id, ok := unhexTok(arg(1))
		if len(a) != 2 || !ok {
			return "bad-op"
		}
		return x.update(func(b db.Bucket) error {
			if a[0] == "put-id" {
				return keystore.VerifPutAccountID(b, id)
			}
			return keystore.VerifDeleteAccountID(b, id)
		})
	case "fetch-ids":
		return x.view(func(b db.Bucket) (string, error) {
			ids, err := keystore.VerifFetchAccountID(b)
			var l []string
			for _, id := range ids {
				l = append(l, hexTok(id))
			}
			return joinComma(l), err
		})
	case "put-remark":
		r, ok := unhexTok(arg(1))
		if len(a) != 2 || !ok {
			return "bad-op"
		}
		return x.update(func(b db.Bucket) error { return keystore.VerifPutRemark(b, r) })
	case "del-remark":
		return x.update(func(b db.Bucket) error { return keystore.VerifDeleteRemark(b) })
	case "fetch-remark":
		return x.view(func(b db.Bucket) (string, error) {
			v, err := keystore.VerifFetchRemark(b)
			return showOptTok(v), err
		})
	case "put-branch":
		i, ok1 := unhexTok(arg(1))
		e, ok2 := unhexTok(arg(2))
		if len(a) != 3 || !ok1 || !ok2 {
			return "bad-op"
		}
		return x.update(func(b db.Bucket) error { return keystore.VerifPutBranchPubKeys(b, i, e) })
	case "fetch-branch":
		return x.view(func(b db.Bucket) (string, error) {
			i, e, err := keystore.VerifFetchBranchPubKeys(b)
			return hexTok(i) + " " + hexTok(e), err
		})
	case "init-child":
		return x.update(func(b db.Bucket) error { return keystore.VerifInitBranchChildNum(b) })
	case "update-child":
		n, ok := u32Tok(arg(2))
		if len(a) != 3 || !ok || (a[1] != "0" && a[1] != "1") {
			return "bad-op"
		}
		return x.update(func(b db.Bucket) error { return keystore.VerifUpdateChildNum(b, a[1] == "1", n) })
	case "fetch-child":
		return x.view(func(b db.Bucket) (string, error) {
			i, e, err := keystore.VerifFetchChildNum(b)
			return fmt.Sprintf("%d %d", i, e), err
		})
	case "get-child":
		if len(a) != 2 || (a[1] != "0" && a[1] != "1") {
			return "bad-op"
		}
		return x.view(func(b db.Bucket) (string, error) {
			n, err := keystore.VerifGetChildNum(b, a[1] == "1")
			return fmt.Sprint(n), err
		})
	case "put-pk":
		br, ok1 := u32Tok(arg(1))
		ix, ok2 := u32Tok(arg(2))
		pk, ok3 := unhexTok(arg(3))
		if len(a) != 4 || !ok1 || !ok2 || !ok3 {
			return "bad-op"
		}
		return x.update(func(b db.Bucket) error { return keystore.VerifPutEncryptedPubKey(b, br, ix, pk) })
	case "fetch-pks":
		return x.view(func(b db.Bucket) (string, error) {
			br, ix, pks, err := keystore.VerifFetchEncryptedPubKey(b)
			var l []string
			for i := range br {
				l = append(l, fmt.Sprintf("%d:%d:%s", br[i], ix[i], hexTok(pks[i])))
			}
			return joinComma(l), err
		})
	case "export":
		pur, ok1 := u32Tok(arg(1))
		coin, ok2 := u32Tok(arg(2))
		if len(a) != 3 || !ok1 || !ok2 {
			return "bad-op"
		}
		return x.view(func(b db.Bucket) (string, error) {
			k, err := keystore.VerifExport(b, pur, coin)
			if err != nil {
				return "", err
			}
			return hexTok(k.Bytes()), nil
		})
	case "raw-put":
		k, ok1 := unhexTok(arg(1))
		v, ok2 := unhexTok(arg(2))
		if len(a) != 3 || !ok1 || !ok2 {
			return "bad-op"
		}
		return x.update(func(b db.Bucket) error { return b.Put(k, v) })
	case "raw-del":
		k, ok := unhexTok(arg(1))
		if len(a) != 2 || !ok {
			return "bad-op"
		}
		return x.update(func(b db.Bucket) error { return b.Delete(k) })
	case "reopen":
		if x.d == nil {
			return "ok"
		}
		x.d.Close()
		d, err := db.OpenDB("leveldb", x.dir)
		if err != nil {
			panic("ksc harness: cannot reopen database: " + err.Error())
		}
		x.d = d
		return "ok"
	case "dump":
		return x.view(func(b db.Bucket) (string, error) {
			es, err := b.GetByPrefix([]byte{})
			var l []string
			for _, e := range es {
				l = append(l, hexTok(e.Key)+"="+hexTok(e.Value))
			}
			return joinComma(l), err
		})
	}
	return "bad-op"
}

// importProbe runs the REAL KeystoreManager.ImportKeystore on the rendered keystore file in a fresh manager
// bucket and classifies how far the byte-level decoding got (the transaction is always rolled back).
func (x *kscExec) importProbe(k *keystore.Keystore, coin uint32) (out string) {
	x.open()
	x.n++
	root := fmt.Sprintf("p%d", x.n)
	tx, err := x.d.BeginTx()
	if err != nil {
		panic(err)
	}
	defer tx.Rollback()
	defer func() {
		if r := recover(); r != nil {
			kscDebug("panic:", r)
			out = "panic"
		}
	}()
	rb, err := tx.CreateTopLevelBucket(root)
	if err != nil {
		panic(err)
	}
	params := *config.ChainParams
	params.HDCoinType = coin
	km, err := keystore.NewKeystoreManager(rb, []byte("Pubpass123456"), &params)
	if err != nil {
		panic(err)
	}
	_, err = km.ImportKeystore(tx, func([]byte) (bool, error) { return false, nil }, k.Bytes(), []byte(kscProbePass), 3)
	var ibe hex.InvalidByteError
	switch {
	case err == keystore.ErrCoinType:
		return "err-cointype"
	case err == keystore.ErrAccountType:
		return "err-accttype"
	case err == hex.ErrLength || errors.As(err, &ibe):
		return "err-hex"
	case err == snacl.ErrMalformed && !kscUnmarshalOK(k.Crypto.PrivParams):
		return "err-malformed"
	case err == keystore.ErrInvalidPassphrase:
		return "err-pass"
	}
	kscDebug("import-probe:", err)
	return "past-decoding"
}

// kscUnmarshalOK tells the two sources of snacl.ErrMalformed apart (Unmarshal of the parameters / Decrypt of a
// ciphertext shorter than its nonce) by length alone.
func kscUnmarshalOK(hexParams string) bool {
	b, err := hex.DecodeString(hexParams)
	return err == nil && len(b) == 88
}
