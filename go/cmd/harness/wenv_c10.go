package main

// C10 observation: raw dump of the MINED deposit-history bucket (`lg`): one item per record,
// "W:s|b:u|w:T:vout:height" (wallet, staking/binding, un-withdrawn/withdrawn partition, outpoint, height).
// MW.Props.C10.deposit_once says this set is exactly the spec's deposit list of the chain.

import (
	"encoding/binary"
	"fmt"
)

func (e *WEnv) GameLog() string {
	es, err := e.dumpBucket("gamehistory")
	if err != nil {
		return "err"
	}
	var items []string
	for _, x := range es {
		k := x.Key
		if len(k) != 88 {
			items = append(items, "?key"+fmt.Sprint(len(k)))
			continue
		}
		w, ok := e.walletRev[string(k[0:42])]
		if !ok {
			w = "?" + string(k[0:8])
		}
		kind := "s"
		if k[42]&1 != 0 {
			kind = "b"
		}
		part := "u"
		if k[43]&1 != 0 {
			part = "w"
		}
		items = append(items, fmt.Sprintf("%s:%s:%s:%s:%d", w, kind, part, e.outPointName(append(append([]byte{}, k[44:76]...), k[84:88]...)),
			binary.BigEndian.Uint64(k[76:84])))
	}
	return joinSorted(items)
}
