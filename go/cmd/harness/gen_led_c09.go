package main

import (
	"fmt"
	"strings"
)

// C09 additions to the ledger generator (the pending set): the domain rules that keep generated
// deliveries inside what a node relays, and the counted classes of pending-set situations.

// markDead: after every change of the node's chain, the pool transactions that are no longer valid on
// its tip (double-spent or orphaned on this branch) are remembered: a node validates what it relays,
// so they are not delivered again — not even when a later reorganisation makes them valid once more
// (the wallet's answer to a re-broadcast of a transaction that vanished is outside C09's comparison:
// the implementation ignores it while its volatile seen-set holds the id, see notes/C09.md).
func (l *ledGen) markDead() {
	u := map[string]gCoin{}
	for k, v := range l.tip().utxo {
		u[k] = v
	}
	for _, p := range l.pool {
		if !applyTx(u, p, l.tip().height+1) {
			l.dead[p.name] = true
		}
	}
}

// reorgReachable: a coinbase output that is not a wallet's and that a reorganisation can still remove.
// A transaction spending it would be orphaned by such a reorganisation without the wallet having any
// record of that coinbase (known finding C09 foreign-coinbase-orphan; its witness is in the corpus).
// Reorganisations go back at most maxReorg blocks from the tip and the tip never gets lower.
func (l *ledGen) reorgReachable(c gCoin, h int) bool {
	return c.cb && l.owner[c.addr] == "" && h-c.height <= l.maxReorg+1
}

func (l *ledGen) foreign(c gCoin) bool { return l.owner[c.addr] == "" }

// foreignSpend: a pool transaction and one of its inputs that is not a wallet's coin and is still unspent in b
func (l *ledGen) foreignSpend(b *gBlock) (*gTx, gCoin, bool) {
	type pair struct {
		t *gTx
		c gCoin
	}
	var ps []pair
	for _, t := range l.pool {
		for _, c := range t.ins {
			if _, ok := b.utxo[c.key()]; ok && l.foreign(c) && l.spendableIn(c, b.height) {
				ps = append(ps, pair{t, c})
			}
		}
	}
	if len(ps) == 0 {
		return nil, gCoin{}, false
	}
	p := ps[l.r.Intn(len(ps))]
	return p.t, p.c, true
}

func (l *ledGen) paysWallet(t *gTx) bool {
	for _, c := range outCoins(t, 0) {
		if c.cls != "raw" && l.owner[c.addr] != "" {
			return true
		}
	}
	return false
}

// countDoubleSpend: classes of a block transaction ds that double-spends input c of pool transaction t
func (l *ledGen) countDoubleSpend(t *gTx, c gCoin, ds *gTx) {
	if l.foreign(c) {
		l.g.Stats["blk-doublespends-pending-foreign"]++ // the conflict is not a wallet coin
		if !l.paysWallet(ds) {
			l.g.Stats["blk-doublespends-pending-unrelated"]++ // ... and the confirmed tx is irrelevant itself
		}
	}
	if len(t.ins) > 1 {
		l.g.Stats["blk-doublespends-pending-multi"]++ // t's other inputs are freed
	}
	for _, p := range l.pool {
		for _, pc := range p.ins {
			if pc.tx == t.name {
				l.g.Stats["blk-doublespends-pending-chain"]++ // t has pending descendants: recursive purge
				return
			}
		}
	}
}

func (l *ledGen) countRecv(t *gTx) {
	nf := 0
	for _, c := range t.ins {
		if l.foreign(c) {
			nf++
		}
		if _, ok := l.tip().utxo[c.key()]; !ok {
			l.g.Stats["recvtx-chain"]++ // spends an output of another pending transaction
		}
	}
	if nf > 0 {
		l.g.Stats["recvtx-foreign-input"]++
	}
	if nf > 0 && nf < len(t.ins) {
		l.g.Stats["recvtx-mixed-inputs"]++
	}
	if l.conflictsStaleChain(t) {
		l.g.Stats["recvtx-conflicts-stale-chain-random"]++ // the random stream reaches the situation too (lazy histories)
	}
}

// ---------------------------------------------------------------- lagging wallet, conflicting delivery (round 5)
//
// The wallet's stored chain still holds a block the node has reorganised away; a transaction that spends a coin
// which a transaction of that stale block spent is valid on the node's tip and is delivered (the real gate in
// proccessReceivedTx lets it through while the wallet is at most one block lower than the node). The follower
// records it although, on the wallet's lagging chain, its conflict still looks confirmed: TRANSIENT while lagging.
// When the wallet catches up the stale transaction is un-confirmed and both are pending, mutually conflicting;
// whichever confirms purges the other (replayed on the real code: notes/C09.md, Round 5). The comparison is made
// while lagging and again at the caught-up point. No re-announcement of a stale block in between: the
// specification's settle step against the stale chain would drop the delivered transaction (notes/C09.md,
// Round 4/5, corpus-candidates/C09-stale-notify-conflict.ops).

// staleSpent: the outpoints spent by non-coinbase transactions of blocks that are on the wallet's chain but no
// longer on the node's
func (l *ledGen) staleSpent() map[string]bool {
	m := map[string]bool{}
	for h, name := range l.synced {
		if h < len(l.chain) && l.chain[h] == name {
			continue
		}
		for _, t := range l.blocks[name].txs {
			for _, c := range t.ins {
				m[c.key()] = true
			}
		}
	}
	return m
}

func (l *ledGen) conflictsStaleChain(t *gTx) bool {
	m := l.staleSpent()
	for _, c := range t.ins {
		if m[c.key()] {
			return true
		}
	}
	return false
}

// blockWith: a block on `parent` holding a coinbase and exactly the given transactions (all valid there)
func (l *ledGen) blockWith(parent string, txs []*gTx) *gBlock {
	pb := l.blocks[parent]
	l.nBlk++
	b := &gBlock{name: fmt.Sprintf("B%d", l.nBlk), parent: parent, height: pb.height + 1, utxo: map[string]gCoin{}}
	for k, v := range pb.utxo {
		b.utxo[k] = v
	}
	l.nTx++
	cb := &gTx{name: fmt.Sprintf("C%d", l.nTx), cb: true}
	cb.outs = append(cb.outs, fmt.Sprintf("%s:%d", l.anyDest(), (100+l.r.Int63n(900))*1000000))
	cb.line = fmt.Sprintf("tx %s %d cb %s", cb.name, l.nTx, strings.Join(cb.outs, ";"))
	l.define(cb)
	applyTx(b.utxo, cb, b.height)
	b.txs = append(b.txs, cb)
	names := []string{cb.name}
	for _, t := range txs {
		if applyTx(b.utxo, t, b.height) {
			b.txs = append(b.txs, t)
			names = append(names, t.name)
			l.countBlockTx(t)
		}
	}
	var np []*gTx
	for _, p := range l.pool {
		in := false
		for _, t := range b.txs {
			if t.name == p.name {
				in = true
			}
		}
		if !in {
			np = append(np, p)
		}
	}
	l.pool = np
	l.blocks[b.name] = b
	l.op("block", "block %s %s %s", b.name, parent, strings.Join(names, ";"))
	return b
}

// staleConflict: the directed form of the situation above.
//
//	wallet caught up · block with T1 (spends a wallet coin c) connected and notified · the node reorganises that
//	block away and builds two blocks the wallet is not told about yet · T2 (spends c) delivered · compare ·
//	catch up · compare · (the ordinary stream continues: T1 is a re-mining candidate, T2 a pool transaction)
func (l *ledGen) staleConflict() {
	l.drain()
	if !l.walletOnBestChain() || len(l.synced) != len(l.chain) {
		return
	}
	var own []gCoin
	for _, c := range sortedCoins(l.tip().utxo) {
		// the coin must stay spendable two blocks higher as well
		if l.owner[c.addr] != "" && c.cls == "std" && c.amt > 0 && l.spendableIn(c, l.tip().height+1) {
			own = append(own, c)
		}
	}
	if len(own) == 0 {
		return
	}
	c := own[l.r.Intn(len(own))]
	t1 := l.makeTx([]gCoin{c}, "")
	l.define(t1)
	b := l.blockWith(l.tip().name, []*gTx{t1})
	l.op("submit", "submit %s", b.name)
	l.chain = append(l.chain, b.name)
	l.markDead()
	l.noteNotify(b.name)
	l.op("notify", "notify %s", b.name)
	// the node reorganises the block away
	l.countUndone(b)
	l.orphanT = append(l.orphanT, t1)
	l.g.Stats["reorg-unconfirms-tx"]++
	l.op("detach", "detach")
	l.chain = l.chain[:len(l.chain)-1]
	for i := 0; i < 2; i++ {
		nb := l.blockWith(l.tip().name, nil)
		l.op("submit", "submit %s", nb.name)
		l.chain = append(l.chain, nb.name)
		l.queue = append(l.queue, nb.name)
		l.markDead()
	}
	l.g.Stats["reorg-depth-1"]++
	l.g.Stats["reorg-connects>=2"]++
	// T2 spends the same coin: valid on the node's tip, in conflict with the wallet's stale chain
	t2 := l.makeTx([]gCoin{c}, "")
	l.define(t2)
	l.pool = append(l.pool, t2)
	l.op("recvtx-conflicts-stale-chain", "recvtx %s", t2.name)
	l.observe(true) // transient: compared while lagging
	l.drain()
	if l.walletOnBestChain() && len(l.synced) == len(l.chain) {
		l.g.Stats["caught-up-after-stale-conflict"]++
	}
	l.observe(true) // ... and at the caught-up point: T1 and T2 both pending
}
