package main

// C09 additions to the ledger generator (the pending set): the domain rules that keep generated
// deliveries inside what a node relays, and the counted classes of pending-set situations.

// markDead: after every change of the node's chain, the pool transactions that are no longer valid on
// its tip (double-spent or orphaned on this branch) are remembered: a node validates what it relays,
// so they are not delivered again — not even when a later reorganisation makes them valid once more
// (the wallet's answer to a re-broadcast of a transaction that vanished is outside C09's comparison:
// the implementation ignores it while its volatile seen-set holds the id, see notes/C09.md).
func (l *ledGen) markDead() {
	u := map[string]gCoin{}
	for k, v := range l.tip().utxo {
		u[k] = v
	}
	for _, p := range l.pool {
		if !applyTx(u, p, l.tip().height+1) {
			l.dead[p.name] = true
		}
	}
}

// reorgReachable: a coinbase output that is not a wallet's and that a reorganisation can still remove.
// A transaction spending it would be orphaned by such a reorganisation without the wallet having any
// record of that coinbase (known finding C09 foreign-coinbase-orphan; its witness is in the corpus).
// Reorganisations go back at most maxReorg blocks from the tip and the tip never gets lower.
func (l *ledGen) reorgReachable(c gCoin, h int) bool {
	return c.cb && l.owner[c.addr] == "" && h-c.height <= l.maxReorg+1
}

func (l *ledGen) foreign(c gCoin) bool { return l.owner[c.addr] == "" }

// foreignSpend: a pool transaction and one of its inputs that is not a wallet's coin and is still unspent in b
func (l *ledGen) foreignSpend(b *gBlock) (*gTx, gCoin, bool) {
	type pair struct {
		t *gTx
		c gCoin
	}
	var ps []pair
	for _, t := range l.pool {
		for _, c := range t.ins {
			if _, ok := b.utxo[c.key()]; ok && l.foreign(c) && l.spendableIn(c, b.height) {
				ps = append(ps, pair{t, c})
			}
		}
	}
	if len(ps) == 0 {
		return nil, gCoin{}, false
	}
	p := ps[l.r.Intn(len(ps))]
	return p.t, p.c, true
}

func (l *ledGen) paysWallet(t *gTx) bool {
	for _, c := range outCoins(t, 0) {
		if c.cls != "raw" && l.owner[c.addr] != "" {
			return true
		}
	}
	return false
}

// countDoubleSpend: classes of a block transaction ds that double-spends input c of pool transaction t
func (l *ledGen) countDoubleSpend(t *gTx, c gCoin, ds *gTx) {
	if l.foreign(c) {
		l.g.Stats["blk-doublespends-pending-foreign"]++ // the conflict is not a wallet coin
		if !l.paysWallet(ds) {
			l.g.Stats["blk-doublespends-pending-unrelated"]++ // ... and the confirmed tx is irrelevant itself
		}
	}
	if len(t.ins) > 1 {
		l.g.Stats["blk-doublespends-pending-multi"]++ // t's other inputs are freed
	}
	for _, p := range l.pool {
		for _, pc := range p.ins {
			if pc.tx == t.name {
				l.g.Stats["blk-doublespends-pending-chain"]++ // t has pending descendants: recursive purge
				return
			}
		}
	}
}

func (l *ledGen) countRecv(t *gTx) {
	nf := 0
	for _, c := range t.ins {
		if l.foreign(c) {
			nf++
		}
		if _, ok := l.tip().utxo[c.key()]; !ok {
			l.g.Stats["recvtx-chain"]++ // spends an output of another pending transaction
		}
	}
	if nf > 0 {
		l.g.Stats["recvtx-foreign-input"]++
	}
	if nf > 0 && nf < len(t.ins) {
		l.g.Stats["recvtx-mixed-inputs"]++
	}
}
