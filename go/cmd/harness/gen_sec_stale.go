package main

// Histories for C03 found by the thorough tier (seed 1): the wallet sits on a block the node has already replaced.
//
// signWitnessTx resolves a mined previous output through ExistsTx -> chainFetcher.FetchTxByLoc(height, TxLoc): the bytes
// at the RECORDED offset of whatever block is at that height NOW. When the replacing block carries the same transaction
// at the same offset (same encoded length of everything in front of it), the stale wallet still resolves it and signs;
// when anything in front of it changed its encoded length by a byte (amount varint, name length in the payload, one more
// output, a dropped transaction) or another transaction of the same shape sits there, it answers ErrUTXONotExists.
// The model has to know the encoded lengths (MW.Model.TxLoc); these histories vary exactly them.
//
// Second class: a WRONG passphrase together with an input that does not resolve, at every position: the loop of
// signWitnessTx resolves input i, signs input i (the passphrase is checked by the first signature), then goes on to
// input i+1 - so the error is ErrUTXONotExists when the unresolvable input comes first and the passphrase error otherwise.

import (
	"fmt"
	"strings"
)

var staleVariant int

// amount whose varint takes 4 bytes (big=false) or 5 bytes (big=true)
func staleAmt(g *Gen, big bool) int64 {
	if big {
		return 300000000 + g.Rng.Int63n(600000000)
	}
	return 100000000 + g.Rng.Int63n(160000000)
}

func genSecStale(g *Gen) {
	r := g.Rng
	g.Reset()
	g.Op("params", "params 2 3")
	g.Op("wallet", "wallet W1")
	g.Op("wallet", "wallet W2")
	for i := 1; i <= 4; i++ {
		g.Op("addr", "addr W1 A%d std", i)
	}
	g.Op("addr", "addr W2 A5 std")
	n := 10 // two-digit names: a name is part of the payload, hence of the encoded length
	uniq := func() int { n++; return n }
	// funding block (never detached): three coins of W1, one of W2, sources for the filler transactions
	g.Op("tx", "tx C10 10 cb A1:%d;A2:%d;A3:%d;X1:%d;X2:%d;X3:%d;A5:%d", staleAmt(g, true), staleAmt(g, true), staleAmt(g, false),
		staleAmt(g, true), staleAmt(g, true), staleAmt(g, true), staleAmt(g, true))
	g.Op("block", "block B1 G C10")
	g.Op("submit", "submit B1")
	g.Op("notify", "notify B1")

	// the block the wallet will stay on: coinbase, k fillers, T (pays the wallet), optionally a trailing filler
	type ftx struct {
		name string
		src  int  // output of C10 it spends
		big  bool // varint class of its amount
	}
	cbBig := r.Intn(2) == 0
	cbOuts := 1 + r.Intn(2)
	rounds := 2 + r.Intn(2)
	comp := false // a round of this history will try the compensated layout: make it possible
	for rd := 0; rd < rounds; rd++ {
		if (staleVariant+rd)%8 == 7 {
			comp = true
			cbOuts = 1
		}
	}
	cbSpec := func(big bool, outs int) string {
		var o []string
		for i := 0; i < outs; i++ {
			o = append(o, fmt.Sprintf("X%d:%d", 4+i, staleAmt(g, big)))
		}
		return strings.Join(o, ";")
	}
	defCb := func(big bool, outs int, long bool) string {
		u := uniq()
		name := fmt.Sprintf("C%d", u)
		if long {
			name = fmt.Sprintf("C%d", 1000+u)
		}
		g.Op("tx", "tx %s %d cb %s", name, u, cbSpec(big, outs))
		return name
	}
	defFiller := func(src int, big bool) ftx {
		u := uniq()
		f := ftx{name: fmt.Sprintf("F%d", u), src: src, big: big}
		g.Op("tx", "tx %s %d C10:%d X9:%d", f.name, u, src, staleAmt(g, big))
		return f
	}
	k := r.Intn(3)
	if comp && k == 0 {
		k = 1
	}
	var fill []ftx
	for i := 0; i < k; i++ {
		big := r.Intn(2) == 0
		if comp && i == 0 {
			big = !cbBig
		}
		fill = append(fill, defFiller(3+i, big))
	}
	tBig := r.Intn(2) == 0
	tOut := fmt.Sprintf("A2:%d;X8:%d", staleAmt(g, tBig), staleAmt(g, false))
	if r.Intn(3) == 0 {
		tOut = fmt.Sprintf("A2:%d;A4:%d:stk:%d", staleAmt(g, tBig), staleAmt(g, false), 3+r.Intn(4))
	}
	u := uniq()
	T := fmt.Sprintf("T%d", u)
	g.Op("tx", "tx %s %d C10:0 %s", T, u, tOut)
	c0 := defCb(cbBig, cbOuts, false)
	names := []string{c0}
	for _, f := range fill {
		names = append(names, f.name)
	}
	names = append(names, T)
	g.Op("block", "block B2 B1 %s", strings.Join(names, ";"))
	g.Op("submit", "submit B2")
	g.Op("notify", "notify B2")

	right := hexp(privPass("W1"))
	wrong := func() string {
		p, kd := wrongOf(r, privPass("W1"), []string{privPass("W2"), pubPass})
		g.Stats["wrong-"+kd]++
		return hexp(p)
	}
	nS := 0
	signTx := func(ins string, outs int) string {
		nS++
		name := fmt.Sprintf("S%d", nS)
		var o []string
		for i := 0; i < outs; i++ {
			o = append(o, fmt.Sprintf("X7:%d", 1000+r.Intn(1000)))
		}
		g.Op("tx-sign", "tx %s %d %s %s", name, 900000+nS, ins, strings.Join(o, ";"))
		return name
	}
	sT := signTx(T+":0", 1)
	attempt := func(class, t string) {
		first := r.Intn(2) == 0
		for i := 0; i < 2; i++ {
			fl := secAllFlags[r.Intn(len(secAllFlags))]
			g.Stats["flag-"+fl]++
			if first == (i == 0) {
				g.Op(class+"-right", "sign W1 %s %s %s", right, fl, t)
			} else {
				g.Op(class+"-wrong", "sign W1 %s %s %s", wrong(), fl, t)
			}
		}
	}
	attempt("sign-insync", sT)

	// replacements of B2 the wallet is not told about
	bn := 2
	for rd := 0; rd < rounds; rd++ {
		g.Op("detach", "detach")
		v := staleVariant % 8
		staleVariant++
		class := "shifted"
		var blk []string
		same := func() []string { // the fillers again (they are unconfirmed now), T at the same place
			var x []string
			for _, f := range fill {
				x = append(x, f.name)
			}
			return append(x, T)
		}
		switch {
		case v == 0: // same layout behind a coinbase of the same encoded length
			class = "same"
			blk = append([]string{defCb(cbBig, cbOuts, false)}, same()...)
		case v == 1: // the coinbase amount needs one byte less / more
			blk = append([]string{defCb(!cbBig, cbOuts, false)}, same()...)
		case v == 2: // the coinbase name (payload) is longer
			blk = append([]string{defCb(cbBig, cbOuts, true)}, same()...)
		case v == 3: // one more coinbase output
			blk = append([]string{defCb(cbBig, cbOuts+1, false)}, same()...)
		case v == 4 && k > 0: // other fillers of the same shape in front of T
			class = "same"
			blk = []string{defCb(cbBig, cbOuts, false)}
			for _, f := range fill {
				blk = append(blk, defFiller(f.src, f.big).name)
			}
			blk = append(blk, T)
		case v == 5 && k > 0: // T moved to the front
			blk = append([]string{defCb(cbBig, cbOuts, false), T}, same()[:k]...)
		case v == 6: // another transaction of the same shape where T was (T itself is not mined)
			class = "other"
			u := uniq()
			o := fmt.Sprintf("T%d", u)
			g.Op("tx", "tx %s %d C10:0 %s", o, u, strings.Replace(tOut, "A2:", "A1:", 1))
			x := same()
			x[len(x)-1] = o
			blk = append([]string{defCb(cbBig, cbOuts, false)}, x...)
		case v == 7 && k > 0 && cbOuts == 1: // the coinbase changes by one byte, the first filler by one byte the other way
			class = "compensated"
			blk = []string{defCb(!cbBig, cbOuts, false)}
			for i, f := range fill {
				b := f.big
				if i == 0 {
					b = cbBig
				}
				blk = append(blk, defFiller(f.src, b).name)
			}
			blk = append(blk, T)
			if fill[0].big == cbBig { // no compensation possible: the first filler already has the coinbase's old class
				class = "shifted"
			}
		default:
			class = "same"
			blk = append([]string{defCb(cbBig, cbOuts, false)}, same()...)
		}
		bn++
		g.Op("block", "block B%d B1 %s", bn, strings.Join(blk, ";"))
		g.Op("submit", "submit B%d", bn)
		attempt("sign-stale-"+class, sT)
		// wrong passphrase x unresolvable input at position pos (the other inputs are coins of the funding block)
		u := uniq()
		g.Op("tx", "tx U%d %d cb A3:%d", u, u, staleAmt(g, false))
		pos := (staleVariant + rd) % 3
		ins := []string{"C10:1", "C10:2"}
		if r.Intn(2) == 0 {
			ins[0], ins[1] = ins[1], ins[0]
		}
		bad := fmt.Sprintf("U%d:0", u)
		if r.Intn(3) == 0 {
			bad = "C10:6" // a coin of the OTHER wallet: not in this wallet's books either
		}
		ins = append(ins[:pos], append([]string{bad}, ins[pos:]...)...)
		attempt(fmt.Sprintf("sign-unresolvable-pos%d", pos), signTx(strings.Join(ins, ";"), 3))
		if r.Intn(2) == 0 {
			g.Op("q-klocked", "klocked")
		}
	}
	// the wallet catches up: the specification applies again
	g.Op("notify", "notify B%d", bn)
	attempt("sign-caughtup", sT)
	g.Op("q-klocked", "klocked")
	g.Op("q-kscan", "kscan")
}
