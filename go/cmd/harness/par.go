package main

// Concurrent re-execution of stateless ops (tie A, all stateless engines: amt, bip32, bip39, script).
//
// The functions behind a stateless engine are pure, so their answer may depend neither on what ran before (checked by
// stateless.Exec running every op twice: NONDET) nor on what runs AT THE SAME TIME.  A package-level scratch buffer, a
// shared hash state, a lazily built table written without a lock … are invisible to a sequential stream.  parCheck
// keeps the last parWidth ops with their sequential answers; every parWidth-th op the whole window is re-run on
// parWidth goroutines released together, each op parMinRounds … parRounds times (as many as fit into parBudget ×
// the wall time the window took sequentially — an engine with a short stream asks for more through parSetBudget), and
// every concurrent answer is compared with the sequential answer of the same op.  A difference (or a panic of a
// goroutine) is appended to the output of the op that closed the window as ` PARDIFF:<op>=><answer>` — a suffix that no model / specification output ever has, so it is an
// impl ≠ spec disagreement with a concrete op line.  On an implementation without shared state nothing is appended and
// the stream stays byte-identical.
//
// VERIF_PAR=0 switches the wrapper off; VERIF_PAR_ROUNDS overrides the number of rounds.

import (
	"fmt"
	"os"
	"reflect"
	"runtime"
	"strconv"
	"strings"
	"sync"
	"time"
)

const (
	parWidth     = 8
	parMinRounds = 2
	parBudget    = 1 // concurrent wall time per window ≤ budget × its sequential wall time (beyond parMinRounds)
)

var parRounds = func() int {
	if os.Getenv("VERIF_PAR") == "0" {
		return 0
	}
	if n, err := strconv.Atoi(os.Getenv("VERIF_PAR_ROUNDS")); err == nil && n >= 0 {
		return n
	}
	return 20
}()

type parEntry struct {
	args []string
	want string
}

type parWindow struct {
	ops   []parEntry
	since time.Time // when the previous window closed = start of this window's sequential work
}

var parBudgets = map[uintptr]int{}

// parSetBudget lets an engine (from its init) spend more concurrent time per window than the default.
func parSetBudget(f func([]string) string, budget int) {
	parBudgets[reflect.ValueOf(f).Pointer()] = budget
}

var (
	parMu      sync.Mutex
	parWindows = map[uintptr]*parWindow{}
)

// parCheck records (a, seq) for the engine function f and, when the window is full, runs it concurrently.
func parCheck(f func([]string) string, a []string, seq string) string {
	if parRounds == 0 {
		return seq
	}
	key := reflect.ValueOf(f).Pointer()
	parMu.Lock()
	w := parWindows[key]
	if w == nil {
		w = &parWindow{since: time.Now()}
		parWindows[key] = w
	}
	parMu.Unlock()
	// the sequential answer proper: without a NONDET suffix
	want := seq
	if i := strings.Index(want, " NONDET:"); i >= 0 {
		want = want[:i]
	}
	w.ops = append(w.ops, parEntry{append([]string(nil), a...), want})
	if len(w.ops) < parWidth {
		return seq
	}
	ops := w.ops
	w.ops = nil
	t0 := time.Now()
	budget := parBudget
	if b, ok := parBudgets[key]; ok {
		budget = b
	}
	diff := parRun(f, ops, t0.Add(time.Duration(budget)*t0.Sub(w.since)))
	w.since = time.Now()
	if diff != "" {
		return seq + " PARDIFF:" + diff
	}
	return seq
}

// parRun executes every op of the window on its own goroutine (parMinRounds times, then until the deadline, at most
// parRounds times), all goroutines released at once; the first differing answer is returned as `<op>=><answer>` (""
// when all agree).
func parRun(f func([]string) string, ops []parEntry, deadline time.Time) string {
	if runtime.GOMAXPROCS(0) < 4 {
		runtime.GOMAXPROCS(4)
	}
	var wg sync.WaitGroup
	start := make(chan struct{})
	diffs := make([]string, len(ops))
	for i := range ops {
		wg.Add(1)
		go func(i int) {
			defer wg.Done()
			e := ops[i]
			<-start
			for r := 0; r < parRounds && diffs[i] == "" && (r < parMinRounds || time.Now().Before(deadline)); r++ {
				got := parCall(f, e.args)
				if got != e.want {
					diffs[i] = strings.Join(e.args, " ") + "=>" + got
				}
			}
		}(i)
	}
	close(start)
	wg.Wait()
	for _, d := range diffs {
		if d != "" {
			return d
		}
	}
	return ""
}

func parCall(f func([]string) string, a []string) (res string) {
	defer func() {
		if r := recover(); r != nil {
			res = "PANIC " + strings.ReplaceAll(fmt.Sprint(r), "\n", " ")
		}
	}()
	return f(append([]string(nil), a...))
}
