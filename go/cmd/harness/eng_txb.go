package main

// Engine txb (C02): transaction building.
//
// Unit-level ops (pure helpers of masswallet reached through hooks; amounts in maxwell):
//   topk TARGET a1,a2,...            the top-K selector fed with coins of these amounts, in this order
//                                    -> "k=K base=<sorted desc> guard=<amt|->"
//   opt AMOUNT a1,a2,...             optOutputs -> "sel=<amounts in selection order> sum=S res=R" | err
//   pipe AMOUNT a1,a2,...            selector then optOutputs (what findEligibleUtxos does)
//                                    -> "sel=<sorted desc> found=F overfull=0|1"
//   subfee FEE n1:a1,n2:a2 SEL       maybeSubtractFeeFromAmounts -> "tot=T n1:a1',..." | err:subfee | err
//   relay SIZE                       blockchain.CalcMinRequiredTxRelayFee(SIZE, MinRelayTxFee)
//   dust AMT                         blockchain.IsDust of a standard P2WSH output of AMT -> 0|1
//
// End-to-end ops (on a WEnv; every base op of engine led is accepted too):
//   auto  W FEE LOCK FROM CHG PAYLEN OUTS      AutoCreateRawTransaction
//   est   W FEE LOCK FROM CHG PAYLEN OUTS      EstimateTxFee (no reservation)
//   man   W LOCK CHG SUB INS OUTS              CreateRawTransaction (explicit inputs)
//   stake W FEE LOCK FROM OUTS                 CreateStakingTransaction, OUTS = A:amt:frozen;...
//   bind  W FEE FROM OUTS                      CreateBindingTransaction, OUTS = A:amt:N;...
//   apiauto W FEE LOCK FROM CHG OUTS           api.APIServer.AutoCreateTransaction (fee ceiling)
//   apiman  W LOCK CHG SUB INS OUTS            api.APIServer.CreateRawTransaction
//   signfail N                                 api SignRawTransaction of draft N with a wrong passphrase
//   reserved W | elig W FROM | find W FROM AMOUNT | estsize W N M
//   sums                                       the results of the create ops since the last `sums`
//                                              (compared with the MODEL; the create ops themselves answer "done")
//   judge                                      verdict of the SPEC (Lean, MW.Spec.TxBuild.judge) on every
//                                              transaction / error returned since the last judge
//   (FROM, CHG, SUB, INS, OUTS use "-" for empty; names are the symbolic names of wenv.go)
//
// A successful create prints   ok fee=F in=<input amounts desc> out=<requested outputs sorted> chg=<amt@A|->
// a failed one                 err:<class>

import (
	"bytes"
	"context"
	"crypto/sha256"
	"encoding/hex"
	"fmt"
	"os"
	"os/exec"
	"path/filepath"
	"sort"
	"strconv"
	"strings"

	"github.com/massnetorg/mass-core/blockchain"
	"github.com/massnetorg/mass-core/massutil"
	"github.com/massnetorg/mass-core/txscript"
	"github.com/massnetorg/mass-core/wire"
	"google.golang.org/grpc/status"
	"massnet.org/mass-wallet/api"
	pb "massnet.org/mass-wallet/api/proto"
	"massnet.org/mass-wallet/config"
	"massnet.org/mass-wallet/masswallet"
	"massnet.org/mass-wallet/masswallet/keystore"
	"massnet.org/mass-wallet/masswallet/txmgr"
)

func init() {
	register(&Engine{Name: "txb", Gen: genTxb, NewExec: func() Exec { return &txbExec{} }})
}

type txbDraft struct {
	hex string
	msg *wire.MsgTx
}

type txbExec struct {
	e      *WEnv
	api    *api.APIServer
	apiWM  *masswallet.WalletManager
	hist   []string // op lines of the current history (for the judge batch)
	res    []string // judgetx line to insert after hist[i] ("" = none)
	judged int      // number of results already judged
	sums   []string // summaries of the create ops since the last `sums`
	drafts []*txbDraft
}

func (x *txbExec) env() *WEnv {
	if x.e == nil {
		x.e = NewWEnv()
	}
	return x.e
}
func (x *txbExec) Reset() {
	if x.e != nil {
		x.e.reset()
	}
	x.api = nil
	x.hist, x.res, x.judged, x.drafts, x.sums = nil, nil, 0, nil, nil
}
func (x *txbExec) Close() {
	if x.e != nil {
		x.e.Close()
	}
}

func amt(v int64) massutil.Amount {
	a, err := massutil.NewAmountFromInt(v)
	if err != nil {
		panic("bad amount in op line")
	}
	return a
}

func parseAmts(s string) ([]int64, bool) {
	if s == "-" || s == "" {
		return nil, true
	}
	var out []int64
	for _, p := range strings.Split(s, ",") {
		v, err := strconv.ParseInt(p, 10, 64)
		if err != nil || v < 0 {
			return nil, false
		}
		out = append(out, v)
	}
	return out, true
}

func creditsOf(as []int64) []*txmgr.Credit {
	cs := make([]*txmgr.Credit, len(as))
	for i, a := range as {
		cs[i] = &txmgr.Credit{Amount: amt(a)}
		cs[i].OutPoint.Index = uint32(i)
	}
	return cs
}

func joinAmts(cs []*txmgr.Credit, sorted bool) string {
	if len(cs) == 0 {
		return "-"
	}
	vs := make([]int64, len(cs))
	for i, c := range cs {
		vs[i] = c.Amount.IntValue()
	}
	if sorted {
		sort.Slice(vs, func(i, j int) bool { return vs[i] > vs[j] })
	}
	ss := make([]string, len(vs))
	for i, v := range vs {
		ss[i] = strconv.FormatInt(v, 10)
	}
	return strings.Join(ss, ",")
}

// txbErrClass maps an implementation error to its class token.
func txbErrClass(err error) string {
	if verifDebug {
		fmt.Fprintln(os.Stderr, "  [impl error]", err)
	}
	switch err {
	case masswallet.ErrInsufficientFunds:
		return "err:insufficient"
	case masswallet.ErrOverfullUtxo:
		return "err:overfull"
	case masswallet.ErrNotEnoughInputs:
		return "err:notenough"
	case masswallet.ErrDustAmount:
		return "err:dust"
	case masswallet.ErrDustChange:
		return "err:dustchange"
	case masswallet.ErrUnknownSubfeefrom:
		return "err:subfee"
	case masswallet.ErrNoAddressInWallet, keystore.ErrAddressNotFound:
		return "err:noaddr"
	case masswallet.ErrInvalidAmount:
		return "err:amount"
	case masswallet.ErrInvalidParameter:
		return "err:param"
	case masswallet.ErrInvalidAddress, masswallet.ErrInvalidStakingAddress, masswallet.ErrFailedDecodeAddress:
		return "err:addr"
	case txscript.ErrFrozenPeriod:
		return "err:frozen"
	}
	// API errors (gRPC status): only the classes the property talks about are kept apart
	if st, ok := status.FromError(err); ok {
		switch int(st.Code()) {
		case api.ErrAPIBigTransactionFee:
			return "err:bigfee"
		case api.ErrAPIInsufficientWalletBalance:
			return "err:insufficient"
		case api.ErrAPIOverfullInputs:
			return "err:overfull"
		case api.ErrAPINotEnoughInputs:
			return "err:notenough"
		}
	}
	return "err:other"
}

func (x *txbExec) Exec(a []string) string {
	if len(a) == 0 {
		return "bad-op"
	}
	switch a[0] {
	case "topk", "opt", "pipe", "subfee", "relay", "dust":
		return txbUnit(a)
	}
	e := x.env()
	line := "txb " + strings.Join(a, " ")
	if a[0] != "judge" {
		x.hist = append(x.hist, line)
		x.res = append(x.res, "")
	}
	out, jt := x.op(e, a)
	if jt != "" {
		// a create op: its result is judged by the spec at the next `judge` and compared with the
		// model at the next `sums`; the op itself only acknowledges
		x.res[len(x.res)-1] = jt
		x.sums = append(x.sums, out)
		return "done"
	}
	return out
}

// ---------------------------------------------------------------- unit level

func txbUnit(a []string) string {
	switch {
	case a[0] == "topk" && len(a) == 3:
		t, err := strconv.ParseInt(a[1], 10, 64)
		as, ok := parseAmts(a[2])
		if err != nil || !ok {
			return "bad-op"
		}
		items, k := masswallet.VerifTopK(amt(t), creditsOf(as))
		// the guard (if any) is the last item and the only one above the target
		guard := "-"
		if n := len(items); n > 0 && items[n-1].Amount.IntValue() > t {
			guard = strconv.FormatInt(items[n-1].Amount.IntValue(), 10)
			items = items[:n-1]
		}
		return fmt.Sprintf("k=%d base=%s guard=%s", k, joinAmts(items, true), guard)
	case a[0] == "opt" && len(a) == 3:
		t, err := strconv.ParseInt(a[1], 10, 64)
		as, ok := parseAmts(a[2])
		if err != nil || !ok {
			return "bad-op"
		}
		sel, sum, res, err := masswallet.VerifOptOutputs(amt(t), creditsOf(as))
		if err != nil {
			return "err"
		}
		return fmt.Sprintf("sel=%s sum=%d res=%d", joinAmts(sel, false), sum.IntValue(), res.IntValue())
	case a[0] == "pipe" && len(a) == 3:
		t, err := strconv.ParseInt(a[1], 10, 64)
		as, ok := parseAmts(a[2])
		if err != nil || !ok {
			return "bad-op"
		}
		items, k := masswallet.VerifTopK(amt(t), creditsOf(as))
		overfull := len(items) == k
		sel, sum, _, err := masswallet.VerifOptOutputs(amt(t), items)
		if err != nil {
			return "err"
		}
		of := 0
		if overfull && len(items) == len(sel) {
			of = 1
		}
		return fmt.Sprintf("sel=%s found=%d overfull=%d", joinAmts(sel, true), sum.IntValue(), of)
	case a[0] == "subfee" && len(a) == 4:
		fee, err := strconv.ParseInt(a[1], 10, 64)
		if err != nil {
			return "bad-op"
		}
		amounts := map[string]massutil.Amount{}
		if a[2] != "-" {
			for _, p := range strings.Split(a[2], ",") {
				kv := strings.Split(p, ":")
				if len(kv) != 2 {
					return "bad-op"
				}
				v, err := strconv.ParseInt(kv[1], 10, 64)
				if err != nil {
					return "bad-op"
				}
				amounts[kv[0]] = amt(v)
			}
		}
		sel := map[string]struct{}{}
		if a[3] != "-" {
			for _, p := range strings.Split(a[3], ",") {
				sel[p] = struct{}{}
			}
		}
		na, tot, err := masswallet.VerifMaybeSubtractFee(amounts, sel, amt(fee))
		if err == masswallet.ErrUnknownSubfeefrom {
			return "err:subfee"
		}
		if err != nil {
			return "err"
		}
		var items []string
		for k, v := range na {
			items = append(items, fmt.Sprintf("%s:%d", k, v.IntValue()))
		}
		return fmt.Sprintf("tot=%d %s", tot.IntValue(), joinSorted(items))
	case a[0] == "relay" && len(a) == 2:
		sz, err := strconv.ParseInt(a[1], 10, 64)
		if err != nil {
			return "bad-op"
		}
		f, err := blockchain.CalcMinRequiredTxRelayFee(sz, massutil.MinRelayTxFee())
		if err != nil {
			return "err"
		}
		return strconv.FormatInt(f.IntValue(), 10)
	case a[0] == "dust" && len(a) == 2:
		v, err := strconv.ParseInt(a[1], 10, 64)
		if err != nil {
			return "bad-op"
		}
		var sh [32]byte
		pk, _ := txscript.PayToWitnessScriptHashScript(sh[:])
		d, err := blockchain.IsDust(wire.NewTxOut(v, pk), massutil.MinRelayTxFee())
		if err != nil {
			return "err"
		}
		if d {
			return "1"
		}
		return "0"
	}
	return "bad-op"
}

// ---------------------------------------------------------------- end to end

func nameOrEmpty(s string) string {
	if s == "-" {
		return ""
	}
	return s
}

// encAddr: the standard encoding of address name n ("" for "-"); unknown owned names are an error.
func (x *txbExec) encAddr(e *WEnv, n string) (string, bool) {
	if n == "-" || n == "" {
		return "", true
	}
	ai, err := e.addr(n)
	if err != nil {
		return "", false
	}
	return ai.stdEnc, true
}

type txbOut struct {
	name string
	amt  int64
	ext  string // "" | frozen | target name
}

func parseOuts(s string) ([]txbOut, bool) {
	var outs []txbOut
	for _, p := range splitList(s) {
		f := strings.Split(p, ":")
		if len(f) < 2 || len(f) > 3 {
			return nil, false
		}
		v, err := strconv.ParseInt(f[1], 10, 64)
		if err != nil || v < 0 {
			return nil, false
		}
		o := txbOut{name: f[0], amt: v}
		if len(f) == 3 {
			o.ext = f[2]
		}
		outs = append(outs, o)
	}
	return outs, true
}

func bindTarget22(n string) []byte {
	t := sha256.Sum256([]byte("target22:" + n))
	t[20] = t[20] & 1
	t[21] = 32
	return t[:22]
}

// describeOut: the wenv out-spec of a real transaction output ("A:amt", "A:amt:stk:F", "A:amt:bind22:N", "?:amt").
func (x *txbExec) describeOut(e *WEnv, o *wire.TxOut) string {
	class, pops := txscript.GetScriptInfo(o.PkScript)
	name := func(sh []byte) string {
		if ai, ok := e.addrBySH[string(sh)]; ok {
			return ai.name
		}
		return "?"
	}
	switch class {
	case txscript.WitnessV0ScriptHashTy:
		_, rsh, err := txscript.GetParsedOpcode(pops, class)
		if err == nil {
			return fmt.Sprintf("%s:%d", name(rsh[:]), o.Value)
		}
	case txscript.StakingScriptHashTy:
		fr, rsh, err := txscript.GetParsedOpcode(pops, class)
		if err == nil {
			return fmt.Sprintf("%s:%d:stk:%d", name(rsh[:]), o.Value, fr)
		}
	case txscript.BindingScriptHashTy:
		h, t, err := txscript.GetParsedBindingOpcode(pops)
		if err == nil {
			tn, ok := e.targets[fmt.Sprintf("%x", t)]
			if !ok {
				tn = "?"
			}
			k := "bind"
			if len(t) == 22 {
				k = "bind22"
			}
			return fmt.Sprintf("%s:%d:%s:%s", name(h), o.Value, k, tn)
		}
	}
	return fmt.Sprintf("?:%d", o.Value)
}

// result builds the canonical summary of a returned transaction and the judgetx line for the spec.
func (x *txbExec) result(e *WEnv, kind string, nReq int, hexTx string, fee massutil.Amount, draft bool) (string, string) {
	raw, err := hex.DecodeString(hexTx)
	if err != nil {
		return "undecodable", "txb judgetx undecodable"
	}
	var tx wire.MsgTx
	if err := tx.SetBytes(raw, wire.Packet); err != nil {
		return "undecodable", "txb judgetx undecodable"
	}
	return x.resultMsg(e, kind, nReq, &tx, hexTx, fee, draft)
}

func (x *txbExec) resultMsg(e *WEnv, kind string, nReq int, tx *wire.MsgTx, hexTx string, fee massutil.Amount, draft bool) (string, string) {
	var inAmts []int64
	var inNames []string
	for _, in := range tx.TxIn {
		op := in.PreviousOutPoint
		n, v := "?", int64(0)
		if ti, ok := e.txByHash[op.Hash]; ok {
			n = ti.name
			if int(op.Index) < len(ti.msg.TxOut) {
				v = ti.msg.TxOut[op.Index].Value
			}
		}
		inAmts = append(inAmts, v)
		inNames = append(inNames, fmt.Sprintf("%s:%d:%d", n, op.Index, in.Sequence))
	}
	sorted := append([]int64{}, inAmts...)
	sort.Slice(sorted, func(i, j int) bool { return sorted[i] > sorted[j] })
	var ins []string
	for _, v := range sorted {
		ins = append(ins, strconv.FormatInt(v, 10))
	}
	var outs []string
	chg := "-"
	for i, o := range tx.TxOut {
		d := x.describeOut(e, o)
		if i >= nReq && i == len(tx.TxOut)-1 {
			p := strings.SplitN(d, ":", 2)
			chg = p[1] + "@" + p[0]
			continue
		}
		outs = append(outs, d)
	}
	var all []string
	for _, o := range tx.TxOut {
		all = append(all, x.describeOut(e, o))
	}
	if draft {
		x.drafts = append(x.drafts, &txbDraft{hex: hexTx, msg: tx})
	}
	sum := fmt.Sprintf("ok fee=%d in=%s out=%s chg=%s", fee.IntValue(), strings.Join(ins, ","), joinSorted(outs), chg)
	d := 0
	if draft {
		d = 1
	}
	jt := fmt.Sprintf("txb judgetx ok %d %d %d %d %s %s", d, fee.IntValue(), tx.LockTime, len(tx.Payload), strings.Join(inNames, ";"), strings.Join(all, ";"))
	return sum, jt
}

func (x *txbExec) failed(err error) (string, string) {
	c := txbErrClass(err)
	return c, "txb judgetx " + c
}

func (x *txbExec) apiSrv(e *WEnv) *api.APIServer {
	if x.api == nil || x.apiWM != e.wm { // a restart replaces the WalletManager
		x.apiWM = e.wm
		s, err := api.NewAPIServer(e.srv, e.wm, func() {}, e.cfg)
		if err != nil {
			panic(err)
		}
		x.api = s
	}
	return x.api
}

func amtStr(v int64) string {
	s, err := api.AmountToString(v)
	if err != nil {
		return "0"
	}
	return s
}

// op executes one end-to-end op; returns (output, judgetx line or "").
func (x *txbExec) op(e *WEnv, a []string) (string, string) {
	i64 := func(s string) (int64, bool) { v, err := strconv.ParseInt(s, 10, 64); return v, err == nil && v >= 0 }
	amountsOf := func(outs []txbOut) (map[string]massutil.Amount, bool) {
		m := map[string]massutil.Amount{}
		for _, o := range outs {
			enc, ok := x.encAddr(e, o.name)
			if !ok {
				return nil, false
			}
			if ai := e.addrs[o.name]; ai != nil && o.ext == "enc" {
				enc = ai.enc // the address as issued (staking form for stk-class addresses)
			}
			m[enc] = amt(o.amt)
		}
		return m, true
	}
	switch {
	case (a[0] == "auto" || a[0] == "est") && len(a) == 8:
		fee, ok1 := i64(a[2])
		lock, ok2 := i64(a[3])
		plen, ok3 := i64(a[6])
		outs, ok4 := parseOuts(a[7])
		from, ok5 := x.encAddr(e, a[4])
		chg, ok6 := x.encAddr(e, a[5])
		if !(ok1 && ok2 && ok3 && ok4 && ok5 && ok6) || e.Use(a[1]) != nil {
			return "bad-op", ""
		}
		amounts, ok := amountsOf(outs)
		if !ok {
			return "bad-op", ""
		}
		payload := bytes.Repeat([]byte{0x5a}, int(plen))
		if plen == 0 {
			payload = nil
		}
		if a[0] == "est" {
			tx, f, err := e.wm.EstimateTxFee(amounts, uint64(lock), amt(fee), from, chg, payload)
			if err != nil {
				return x.failed(err)
			}
			tx.LockTime = uint64(lock)
			return x.resultMsg(e, "auto", len(amounts), tx, "", f, false)
		}
		h, f, err := e.wm.AutoCreateRawTransaction(amounts, uint64(lock), amt(fee), from, chg, payload)
		if err != nil {
			return x.failed(err)
		}
		return x.result(e, "auto", len(amounts), h, f, true)
	case a[0] == "apiauto" && len(a) == 7:
		fee, ok1 := i64(a[2])
		lock, ok2 := i64(a[3])
		outs, ok4 := parseOuts(a[6])
		from, ok5 := x.encAddr(e, a[4])
		chg, ok6 := x.encAddr(e, a[5])
		if !(ok1 && ok2 && ok4 && ok5 && ok6) || e.Use(a[1]) != nil {
			return "bad-op", ""
		}
		req := &pb.AutoCreateTransactionRequest{Amounts: map[string]string{}, LockTime: uint64(lock), Fee: amtStr(fee), FromAddress: from, ChangeAddress: chg}
		for _, o := range outs {
			enc, ok := x.encAddr(e, o.name)
			if !ok {
				return "bad-op", ""
			}
			req.Amounts[enc] = amtStr(o.amt)
		}
		resp, err := x.apiSrv(e).AutoCreateTransaction(context.Background(), req)
		if err != nil {
			return x.failed(err)
		}
		return x.apiResult(e, len(req.Amounts), resp.Hex)
	case (a[0] == "man" || a[0] == "apiman") && len(a) == 7:
		lock, ok1 := i64(a[2])
		chg, ok2 := x.encAddr(e, a[3])
		outs, ok3 := parseOuts(a[6])
		if !(ok1 && ok2 && ok3) || e.Use(a[1]) != nil {
			return "bad-op", ""
		}
		sub := map[string]struct{}{}
		var subList []string
		for _, n := range splitList(a[4]) {
			enc, ok := x.encAddr(e, n)
			if !ok {
				return "bad-op", ""
			}
			sub[enc] = struct{}{}
			subList = append(subList, enc)
		}
		var ins []*masswallet.TxIn
		var pbIns []*pb.TransactionInput
		for _, s := range splitList(a[5]) {
			p := strings.Split(s, ":")
			if len(p) != 2 && !(len(p) == 3 && p[2] == "U") {
				return "bad-op", ""
			}
			ti, ok := e.txs[p[0]]
			idx, err := strconv.ParseUint(p[1], 10, 32)
			if !ok || err != nil {
				return "bad-op", ""
			}
			id := ti.hash.String()
			if len(p) == 3 {
				id = strings.ToUpper(id) // the same outpoint, other spelling of the id (decoded case-insensitively)
			}
			ins = append(ins, &masswallet.TxIn{TxId: id, Vout: uint32(idx)})
			pbIns = append(pbIns, &pb.TransactionInput{TxId: id, Vout: uint32(idx)})
		}
		amounts, ok := amountsOf(outs)
		if !ok {
			return "bad-op", ""
		}
		if a[0] == "apiman" {
			req := &pb.CreateRawTransactionRequest{Inputs: pbIns, Amounts: map[string]string{}, LockTime: uint64(lock), ChangeAddress: chg, Subtractfeefrom: subList}
			for k, v := range amounts {
				req.Amounts[k] = amtStr(v.IntValue())
			}
			resp, err := x.apiSrv(e).CreateRawTransaction(context.Background(), req)
			if err != nil {
				return x.failed(err)
			}
			return x.apiResult(e, len(req.Amounts), resp.Hex)
		}
		h, f, err := e.wm.CreateRawTransaction(ins, amounts, uint64(lock), chg, sub)
		if err != nil {
			return x.failed(err)
		}
		return x.result(e, "man", len(amounts), h, f, true)
	case a[0] == "stake" && len(a) == 6:
		fee, ok1 := i64(a[2])
		lock, ok2 := i64(a[3])
		from, ok3 := x.encAddr(e, a[4])
		outs, ok4 := parseOuts(a[5])
		if !(ok1 && ok2 && ok3 && ok4) || e.Use(a[1]) != nil {
			return "bad-op", ""
		}
		var so []*masswallet.StakingTxOut
		for _, o := range outs {
			ai, err := e.addr(o.name)
			fr, err2 := strconv.ParseUint(o.ext, 10, 32)
			if err != nil || err2 != nil {
				return "bad-op", ""
			}
			sa, err := massutil.NewAddressStakingScriptHash(ai.sh, config.ChainParams)
			if err != nil {
				return "bad-op", ""
			}
			so = append(so, &masswallet.StakingTxOut{Address: sa.EncodeAddress(), FrozenPeriod: uint32(fr), Amount: amt(o.amt)})
		}
		h, f, err := e.wm.CreateStakingTransaction(from, so, uint64(lock), amt(fee))
		if err != nil {
			return x.failed(err)
		}
		return x.result(e, "stake", len(so), h, f, true)
	case a[0] == "bind" && len(a) == 5:
		fee, ok1 := i64(a[2])
		from, ok3 := x.encAddr(e, a[3])
		outs, ok4 := parseOuts(a[4])
		if !(ok1 && ok3 && ok4) || e.Use(a[1]) != nil {
			return "bad-op", ""
		}
		var bo []*masswallet.BindingOutput
		for _, o := range outs {
			ai, err := e.addr(o.name)
			if err != nil {
				return "bad-op", ""
			}
			holder, err := massutil.NewAddressWitnessScriptHash(ai.sh, config.ChainParams)
			if err != nil {
				return "bad-op", ""
			}
			tb := bindTarget22(o.ext)
			e.targets[fmt.Sprintf("%x", tb)] = o.ext
			target, err := massutil.NewAddressBindingTarget(tb, config.ChainParams)
			if err != nil {
				return "bad-op", ""
			}
			bo = append(bo, &masswallet.BindingOutput{Holder: holder, BindingTarget: target, Amount: amt(o.amt)})
		}
		h, f, err := e.wm.CreateBindingTransaction(from, amt(fee), bo)
		if err != nil {
			return x.failed(err)
		}
		return x.result(e, "bind", len(bo), h, f, true)
	case a[0] == "signfail" && len(a) == 2:
		n, err := strconv.Atoi(a[1])
		if err != nil || n < 1 || n > len(x.drafts) {
			return "no-draft", ""
		}
		d := x.drafts[n-1]
		_, err = x.apiSrv(e).SignRawTransaction(context.Background(), &pb.SignRawTransactionRequest{RawTx: d.hex, Flags: "ALL", Passphrase: "WrongPass" + "x123456"})
		if err == nil {
			return "signed", ""
		}
		return "released", ""
	case a[0] == "reserved" && len(a) == 2:
		if e.Use(a[1]) != nil {
			return "err", ""
		}
		m, err := e.wm.GetUtxo(nil)
		if err != nil {
			return "err", ""
		}
		var items []string
		for _, us := range m {
			for _, u := range us {
				h, err := wire.NewHashFromStr(u.TxId)
				if err != nil {
					continue
				}
				if e.wm.UTXOUsed(wire.NewOutPoint(h, u.Vout)) {
					items = append(items, fmt.Sprintf("%s:%d", e.txName(u.TxId), u.Vout))
				}
			}
		}
		return joinSorted(items), ""
	case a[0] == "elig" && len(a) == 3:
		from, ok := x.encAddr(e, a[2])
		if !ok || e.Use(a[1]) != nil {
			return "bad-op", ""
		}
		addrs, err := e.wm.VerifPrepareFromAddresses(from)
		if err != nil {
			return txbErrClass(err), ""
		}
		cs, full, err := e.wm.VerifEligibleUtxos(addrs, massutil.MaxAmount())
		if err != nil {
			return txbErrClass(err), ""
		}
		if full {
			return "many", "" // the selector kept k coins: the listing would be truncated to the k largest
		}
		var items []string
		for _, c := range cs {
			items = append(items, fmt.Sprintf("%s:%d:%d", e.txName(c.OutPoint.Hash.String()), c.OutPoint.Index, c.Amount.IntValue()))
		}
		return joinSorted(items), ""
	case a[0] == "find" && len(a) == 4:
		from, ok := x.encAddr(e, a[2])
		want, ok2 := i64(a[3])
		if !ok || !ok2 || e.Use(a[1]) != nil {
			return "bad-op", ""
		}
		addrs, err := e.wm.VerifPrepareFromAddresses(from)
		if err != nil {
			return txbErrClass(err), ""
		}
		sel, first, found, overfull, err := e.wm.VerifFindEligibleUtxos(amt(want), addrs)
		if err != nil {
			return txbErrClass(err), ""
		}
		of := 0
		if overfull {
			of = 1
		}
		fa := "-"
		if first != "" {
			fa = e.addrName(first)
		}
		return fmt.Sprintf("sel=%s found=%d overfull=%d first=%s", joinAmts(sel, true), found.IntValue(), of, fa), ""
	case a[0] == "estsize" && len(a) == 4:
		n, ok1 := i64(a[2])
		m, ok2 := i64(a[3])
		if !ok1 || !ok2 || e.Use(a[1]) != nil {
			return "bad-op", ""
		}
		addrs, err := e.wm.VerifPrepareFromAddresses("")
		if err != nil {
			return txbErrClass(err), ""
		}
		cs, _, err := e.wm.VerifEligibleUtxos(addrs, massutil.MaxAmount())
		if err != nil {
			return txbErrClass(err), ""
		}
		if int(n) > len(cs) {
			return "few", ""
		}
		sz, err := e.wm.VerifEstimateSignedSize(cs[:n], int(m))
		if err != nil {
			return "err", ""
		}
		return strconv.FormatInt(sz, 10), ""
	case a[0] == "judge" && len(a) == 1:
		return x.judge(), ""
	case a[0] == "sums" && len(a) == 1:
		out := "-"
		if len(x.sums) > 0 {
			out = strings.Join(x.sums, " ; ")
		}
		x.sums = nil
		return out, ""
	}
	// base ops of the ledger engine
	return ledOp(e, a), ""
}

// apiResult: the API returns only the hex; the fee is recomputed from the decoded transaction.
func (x *txbExec) apiResult(e *WEnv, nReq int, hexTx string) (string, string) {
	raw, err := hex.DecodeString(hexTx)
	if err != nil {
		return "undecodable", "txb judgetx undecodable"
	}
	var tx wire.MsgTx
	if err := tx.SetBytes(raw, wire.Packet); err != nil {
		return "undecodable", "txb judgetx undecodable"
	}
	var in, out int64
	for _, i := range tx.TxIn {
		if ti, ok := e.txByHash[i.PreviousOutPoint.Hash]; ok && int(i.PreviousOutPoint.Index) < len(ti.msg.TxOut) {
			in += ti.msg.TxOut[i.PreviousOutPoint.Index].Value
		}
	}
	for _, o := range tx.TxOut {
		out += o.Value
	}
	fee := in - out
	if fee < 0 {
		fee = 0
	}
	return x.resultMsg(e, "api", nReq, &tx, hexTx, amt(fee), true)
}

// ---------------------------------------------------------------- the judge (spec evaluated by the Lean driver)

func txbDriverPath() string {
	if p := os.Getenv("VERIF_MWDRV"); p != "" {
		return p
	}
	if exe, err := os.Executable(); err == nil {
		p := filepath.Join(filepath.Dir(exe), "mwdrv")
		if _, err := os.Stat(p); err == nil {
			return p
		}
	}
	return ""
}

// judge replays the history so far on the Lean driver with a `judgetx` line (the ACTUAL result of the
// implementation) after every create op, and reports the spec's verdict on the results not yet judged.
func (x *txbExec) judge() string {
	drv := txbDriverPath()
	if drv == "" {
		return "no-driver"
	}
	var sb strings.Builder
	var idx []int // line numbers (in the batch) of the judgetx answers
	n := 0
	sb.WriteString("reset\n")
	n++
	for i, l := range x.hist {
		sb.WriteString(l + "\n")
		n++
		if x.res[i] != "" {
			sb.WriteString(x.res[i] + "\n")
			idx = append(idx, n)
			n++
		}
	}
	cmd := exec.Command(drv)
	cmd.Stdin = strings.NewReader(sb.String())
	outb, err := cmd.Output()
	if err != nil {
		return "driver-failed"
	}
	lines := strings.Split(strings.TrimRight(string(outb), "\n"), "\n")
	seen := map[string]bool{}
	var bad []string
	for j := x.judged; j < len(idx); j++ {
		v := "missing"
		if idx[j] < len(lines) {
			v = lines[idx[j]]
		}
		if t := strings.IndexByte(v, '\t'); t >= 0 {
			v = v[:t]
		}
		v = strings.TrimPrefix(v, "bad:")
		if v != "ok" && !seen[v] {
			seen[v] = true
			bad = append(bad, v)
		}
	}
	x.judged = len(idx)
	if len(bad) == 0 {
		return "ok"
	}
	sort.Strings(bad)
	return "bad " + strings.Join(bad, " ")
}
