package main

// Crash points INSIDE a removal step (engine rem, C08).
//
// The specification makes every step of asyncRemove ONE database transaction: a process that dies during a step
// restarts either before it or after it.  The harness steps the worker transaction by transaction through the
// suspend/resume hand-shake (eng_rem.go), so a `restart` op between two steps is a crash at a step boundary.  A step
// that commits MORE than one transaction has further crash points between its commits, which no op sequence reaches:
// the worker runs them back to back.  stepForkDB (installed through WEnv.wrapDB, like faultDB) therefore copies the
// wallet directory right after every commit of a `remstep`; a `restart` that directly follows the step then restarts
// the wallet on the copy taken after one of the commits BEFORE the last (rotating over them from history to
// history) - the state a process killed at that point leaves behind.  Model and specification know one commit per
// step, so for them `remstep; restart` is "the step is complete, then a restart"; with one commit per step (the
// unchanged code) the copy is never used and nothing changes.

import (
	"fmt"
	"os"
	"path/filepath"
	"sync"

	mwdb "massnet.org/mass-wallet/masswallet/db"
)

type stepForkDB struct {
	inner mwdb.DB
	path  string // the wallet database directory
	base  string // where the copies go

	mu    sync.Mutex
	armed bool
	snaps []string // copies taken after the 1st, 2nd, … commit since arm()
	err   error
}

type stepForkTx struct {
	mwdb.DBTransaction
	d *stepForkDB
}

func (d *stepForkDB) Close() error                               { return d.inner.Close() }
func (d *stepForkDB) BeginReadTx() (mwdb.ReadTransaction, error) { return d.inner.BeginReadTx() }
func (d *stepForkDB) BeginTx() (mwdb.DBTransaction, error) {
	tx, err := d.inner.BeginTx()
	if err != nil {
		return nil, err
	}
	return &stepForkTx{DBTransaction: tx, d: d}, nil
}

func (t *stepForkTx) Commit() error {
	if err := t.DBTransaction.Commit(); err != nil {
		return err
	}
	t.d.committed()
	return nil
}

func (d *stepForkDB) committed() {
	d.mu.Lock()
	defer d.mu.Unlock()
	if !d.armed {
		return
	}
	dst := filepath.Join(d.base, fmt.Sprintf("c%d", len(d.snaps)))
	os.RemoveAll(dst)
	if err := forkDir(d.path, dst); err != nil && d.err == nil {
		d.err = err
	}
	d.snaps = append(d.snaps, dst)
}

func (d *stepForkDB) arm() {
	d.mu.Lock()
	defer d.mu.Unlock()
	d.dropLocked()
	d.armed = true
}

func (d *stepForkDB) disarm() {
	d.mu.Lock()
	d.armed = false
	d.mu.Unlock()
}

func (d *stepForkDB) drop() {
	d.mu.Lock()
	defer d.mu.Unlock()
	d.dropLocked()
}

func (d *stepForkDB) dropLocked() {
	d.armed = false
	for _, s := range d.snaps {
		os.RemoveAll(s)
	}
	d.snaps, d.err = nil, nil
}

// installStepForks makes every wallet database of in.e a stepForkDB (in.fdb = the current one).
func (in *irInst) installStepForks() {
	e := in.e
	e.wrapDB = func(db mwdb.DB) mwdb.DB {
		f := &stepForkDB{inner: db, path: e.wdbPath, base: filepath.Join(e.dir, "stepforks")}
		in.fdb = f
		return f
	}
}

// restartAtCommitBoundary: the previous op was a removal step with n >= 2 commits - restart on the copy taken after
// commit 1 + (pick mod (n-1)), i.e. between two commits of the step.  Returns false when there is no such point.
func (in *irInst) restartAtCommitBoundary(pick int) (bool, error) {
	f := in.fdb
	if f == nil {
		return false, nil
	}
	f.mu.Lock()
	snaps, ferr := append([]string(nil), f.snaps...), f.err
	f.mu.Unlock()
	if len(snaps) < 2 {
		return false, nil
	}
	if ferr != nil {
		return true, ferr
	}
	e := in.e
	src := snaps[pick%(len(snaps)-1)]
	if e.wdb != nil {
		e.wdb.Close()
		e.wdb = nil
	}
	e.wm = nil
	if err := os.RemoveAll(e.wdbPath); err != nil {
		return true, err
	}
	if err := os.Rename(src, e.wdbPath); err != nil {
		return true, err
	}
	f.drop()
	return true, e.openWallet(false)
}
