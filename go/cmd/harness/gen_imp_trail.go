package main

// Generator classes of the import engine (C07) aimed at ISSUED-BUT-UNUSED TRAILING ADDRESSES of the wallet being
// restored (seeded change C07-3: createManagerKeyScope floored the external branch with the wrong counter, so a
// keystore / mnemonic restore kept only the addresses up to the highest one already used on the chain).
//
// The original wallet (instance 1) has handed out receive addresses beyond its highest used index; its exported
// keystore (or its mnemonic with ExternalIndex = number of issued addresses) is restored into instance 2; a block
// that reaches the node DURING the rescan (before the only batch, the follower of instance 2 told before or after
// that batch), BETWEEN two batches of a rescan over more than 1000 blocks, or AFTER the rescan has finished pays
// one of those trailing addresses for the first time. The restored wallet is then compared against
//   - the chain specification over the ORIGINAL wallet's issued address set (the driver registers every address
//     the original has issued as the restored keystore's own: MW.Drv.Imp `import` -> addKeystore) and
//   - the twin (the original wallet in instance 1).
// Everything between the import and these comparisons is emitted through the SILENT forms (`importq`, `impsteps`):
// a restore that manages a wrong address set, or is handed over at once because it manages none, must show where
// the specification speaks (use / twin / bal / utxos), not as a difference between implementation and model at
// the `import` line, which would end the history before the payment arrives.
//
// These histories come FIRST in the stream (./check stops a stream at its first disagreement) and draw from
// their own random source derived from the seed, so the histories of genImpHistory are the same as without them.

import (
	"fmt"
	"math/rand"
	"strings"
)

// craftPay extends the node's chain by a block whose coinbase pays a stranger and each of the given addresses
// (ordinary outputs: the coins join the chain simulator's unspent set and may be spent later).
func (t *irGen) craftPay(class string, addrs ...string) string {
	l := t.l
	pb := l.tip()
	l.nBlk++
	b := &gBlock{name: fmt.Sprintf("B%d", l.nBlk), parent: pb.name, height: pb.height + 1, utxo: map[string]gCoin{}}
	for k, v := range pb.utxo {
		b.utxo[k] = v
	}
	l.nTx++
	cb := &gTx{name: fmt.Sprintf("C%d", l.nTx), cb: true}
	cb.outs = []string{fmt.Sprintf("%s:%d", l.stranger(), (100+l.r.Int63n(900))*1000000)}
	for _, a := range addrs {
		cb.outs = append(cb.outs, fmt.Sprintf("%s:%d", a, (1+l.r.Int63n(9))*1000000))
	}
	cb.line = fmt.Sprintf("tx %s %d cb %s", cb.name, l.nTx, strings.Join(cb.outs, ";"))
	l.define(cb)
	applyTx(b.utxo, cb, b.height)
	b.txs = append(b.txs, cb)
	l.blocks[b.name] = b
	t.op("block", "block %s %s %s", b.name, pb.name, cb.name)
	t.op(class, "submit %s", b.name)
	l.chain = append(l.chain, b.name)
	l.queue = append(l.queue, b.name)
	l.markDead()
	return b.name
}

// genImpTrailing emits the trailing-address histories with their own random source.
func genImpTrailing(g *Gen) {
	saved := g.Rng
	g.Rng = rand.New(rand.NewSource(g.Seed*1000003 + 7307))
	n := g.Scale(1, 10)
	for i := 0; i < n; i++ {
		genImpTrailHistory(g, "during")
		genImpTrailHistory(g, "after")
	}
	for i := 0; i < g.Scale(1, 3); i++ {
		genImpTrailHistory(g, "between-batches")
	}
	// (after the others, own source again: their histories stay what they were)
	g.Rng = rand.New(rand.NewSource(g.Seed*1000003 + 9973))
	for i := 0; i < g.Scale(2, 12); i++ {
		genImpTrailHistory(g, "in-suspend")
	}
	g.Rng = saved
}

func genImpTrailHistory(g *Gen, kind string) {
	r := g.Rng
	l := newLedGen(g, "imp")
	t := &irGen{g: g, l: l}
	l.start(1 + r.Intn(2))
	t.live = append([]string{}, l.wallets...)
	own1 := append([]string{}, l.wallets...)
	w := own1[r.Intn(len(own1))]
	class := "pay-unused-trailing-address-" + kind
	if kind == "in-suspend" {
		// the block reaches the follower while the import worker waits in suspend() for it (seeded/C07-4: a tip
		// height read before the hand-shake ends the rescan below this block and hands the wallet over without it)
		class = "block-while-import-worker-waits-in-suspend"
	} else if kind != "between-batches" {
		class += "-rescan" // …-during-rescan, …-after-rescan
	}
	// ---- history before the import: random events, every notification delivered to both followers
	pre := 2 + r.Intn(g.Scale(6, 14))
	for s := 0; s < pre; s++ {
		t.chainStep(g.Scale(3, 6))
		if r.Intn(3) > 0 {
			t.drain1()
			t.drain2()
		}
	}
	if kind == "between-batches" {
		// more than one batch (1000 blocks) of chain below the import moment
		t.drain1()
		t.drain2()
		t.fillBlocks(1001+r.Intn(30), 3)
		g.Stats["long-chain"]++
	}
	// address 0 of the wallet has history at the import moment (nothing reorganises this block away before it)
	t.nodeEvent(func() { t.craftPay("submit", l.addrs[w][0]) })
	t.drain1()
	t.drain2()
	// ---- the trailing addresses: handed out by the original wallet, never paid before the import moment
	var trail []string
	for i, k := 0, 1+r.Intn(2); i < k; i++ {
		l.nAddr++
		a := fmt.Sprintf("A%d", l.nAddr)
		l.addrs[w] = append(l.addrs[w], a)
		l.owner[a] = w
		t.op("addr-trailing", "addr %s %s std", w, a)
		trail = append(trail, a)
	}
	l.maxAddr = 0 // no address is issued after the import moment
	mode := "ks"
	if r.Intn(2) == 0 {
		mode = "mn"
	}
	t.op("import-quiet-"+mode, "i2 importq %s %s %d", w, mode, len(l.addrs[w]))
	t.op("i2-use-importing", "i2 use %s", w)
	pay := trail[r.Intn(len(trail))]
	if kind == "in-suspend" && r.Intn(2) == 0 {
		pay = l.addrs[w][0] // an address that already has history
	}
	payBlock := func() { t.nodeEvent(func() { t.craftPay(class, pay) }) }
	switch kind {
	case "during":
		// the block reaches the node while the wallet is importing; the follower of instance 2 hears of it before
		// the batch (the rescan covers the block) or after it (the live follower applies it to the ready wallet)
		payBlock()
		if r.Intn(2) == 0 {
			t.drain2()
			g.Stats["trailing-paid-block-inside-rescan-range"]++
		} else {
			g.Stats["trailing-paid-block-after-hand-over"]++
		}
		t.op("impstep-silent", "i2 impsteps %s 1", w)
	case "in-suspend":
		// the follower of instance 2 has heard of everything but the paying block; that notification is handled while
		// the worker of the (only, final) batch waits for the follower to pause
		t.drain2()
		payBlock()
		b := t.q2[len(t.q2)-1]
		t.q2 = t.q2[:len(t.q2)-1]
		t.drain2()
		t.op("impstepn", "i2 impstepn %s %s", w, b)
		t.op("i2-use-done", "i2 use %s", w)
	case "between-batches":
		t.op("impstep-silent", "i2 impsteps %s 1", w) // cursor at 1000, not finished
		t.op("i2-use-importing", "i2 use %s", w)
		payBlock()
		if r.Intn(2) == 0 {
			t.drain2()
		}
		t.op("impstep-silent", "i2 impsteps %s 1", w)
	case "after":
		t.op("impstep-silent", "i2 impsteps %s 2", w)
		t.op("i2-use-done", "i2 use %s", w)
		payBlock()
	}
	// ---- both followers catch up, the rescan finishes; what the specification and the twin say
	t.drain1()
	t.drain2()
	t.op("impstep-flush-silent", "i2 impsteps %s %d", w, len(l.chain)/1000+3)
	t.op("i2-use-done", "i2 use %s", w)
	t.op("twin", "twin %s", w)
	t.op("i2-q-bal", "i2 bal %s 1", w)
	t.op("i2-q-utxos", "i2 utxos %s", w)
	t.op("i2-wallets", "i2 wallets")
	t.observe2([]string{w}, true)
	t.observe1(own1, true)
	// ---- life goes on (the new coin may be spent, the paying block reorganised away and re-mined)
	post := 2 + r.Intn(g.Scale(5, 10))
	for s := 0; s < post; s++ {
		if r.Intn(4) == 0 {
			t.nodeEvent(func() { t.craftPay("submit", trail[r.Intn(len(trail))]) })
		} else {
			t.chainStep(g.Scale(4, 8))
		}
		if r.Intn(3) > 0 {
			t.drain1()
			t.drain2()
		}
		if r.Intn(3) == 0 {
			t.drain1()
			t.drain2()
			t.op("twin", "twin %s", w)
		}
	}
	t.drain1()
	t.drain2()
	t.op("twin", "twin %s", w)
	t.observe2([]string{w}, true)
	t.observe1(own1, true)
}
