package main

// lineRewriter lets an engine generator reuse ledGen (which writes its op lines straight into a Gen)
// and still transform those lines: ledGen writes into a buffer-backed sub-generator; flush hands every
// buffered line to a callback that emits the (possibly wrapped) line into the real stream.

import (
	"bufio"
	"bytes"
	"fmt"
	"strings"
)

type lineRewriter struct {
	g   *Gen
	sub *Gen
	buf *bytes.Buffer
	l   *ledGen
}

func newLineRewriter(g *Gen, eng string) *lineRewriter {
	r := &lineRewriter{g: g, buf: &bytes.Buffer{}}
	r.sub = &Gen{Engine: eng, Prop: g.Prop, Tier: g.Tier, Seed: g.Seed, Rng: g.Rng, Stats: g.Stats}
	r.sub.w = bufio.NewWriter(r.buf)
	r.l = newLedGen(r.sub, eng)
	return r
}

// emit writes one line (without engine prefix) into the real stream, counting it under class.
func (r *lineRewriter) emit(class, body string) {
	r.g.N++
	line := r.g.Engine + " " + body
	fmt.Fprintln(r.g.w, line)
	if class != "" {
		r.g.Stats[class]++
		if len(r.g.sample) < 12 && r.g.Stats[class] <= 1 {
			r.g.sample = append(r.g.sample, line)
		}
	}
}

// flush: f gets the op name and the body of every buffered line and returns (class, new body).
func (r *lineRewriter) flush(f func(op, body string) (string, string)) {
	r.sub.w.Flush()
	lines := strings.Split(strings.TrimRight(r.buf.String(), "\n"), "\n")
	r.buf.Reset()
	for _, ln := range lines {
		if ln == "" {
			continue
		}
		if ln == "reset" {
			r.g.Reset()
			r.g.Stats["reset"]-- // counted by the sub generator already
			continue
		}
		body := strings.TrimPrefix(ln, r.g.Engine+" ")
		class, nb := f(strings.Fields(body)[0], body)
		r.emit(class, nb)
	}
}

// prunePool drops, for good, the unconfirmed transactions that conflict with the node's current
// chain (an input is spent by a confirmed transaction and not produced by another pending one).
// Assumption of the crash / fault engines (see notes/C06.md, A3): the node hands the wallet only
// transactions its own mempool accepted, so a transaction purged as a conflict is never delivered
// again - the wallet's volatile pending-id set still holds its id, a restarted wallet's does not.
func prunePool(l *ledGen) {
	for changed := true; changed; {
		changed = false
		u := map[string]gCoin{}
		for k, v := range l.tip().utxo {
			u[k] = v
		}
		var keep []*gTx
		for _, p := range l.pool {
			if applyTx(u, p, l.tip().height+1) {
				keep = append(keep, p)
			} else {
				changed = true
			}
		}
		l.pool = keep
	}
}
