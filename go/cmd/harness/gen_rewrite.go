package main

// lineRewriter lets an engine generator reuse ledGen (which writes its op lines straight into a Gen)
// and still transform those lines: ledGen writes into a buffer-backed sub-generator; flush hands every
// buffered line to a callback that emits the (possibly wrapped) line into the real stream.

import (
	"bufio"
	"bytes"
	"fmt"
	"strings"
)

type lineRewriter struct {
	g   *Gen
	sub *Gen
	buf *bytes.Buffer
	l   *ledGen
}

func newLineRewriter(g *Gen, eng string) *lineRewriter {
	r := &lineRewriter{g: g, buf: &bytes.Buffer{}}
	r.sub = &Gen{Engine: eng, Prop: g.Prop, Tier: g.Tier, Seed: g.Seed, Rng: g.Rng, Stats: g.Stats}
	r.sub.w = bufio.NewWriter(r.buf)
	r.l = newLedGen(r.sub, eng)
	return r
}

// emit writes one line (without engine prefix) into the real stream, counting it under class.
func (r *lineRewriter) emit(class, body string) {
	r.g.N++
	line := r.g.Engine + " " + body
	fmt.Fprintln(r.g.w, line)
	if class != "" {
		r.g.Stats[class]++
		if len(r.g.sample) < 12 && r.g.Stats[class] <= 1 {
			r.g.sample = append(r.g.sample, line)
		}
	}
}

// flush: f gets the op name and the body of every buffered line and returns (class, new body).
func (r *lineRewriter) flush(f func(op, body string) (string, string)) {
	r.sub.w.Flush()
	lines := strings.Split(strings.TrimRight(r.buf.String(), "\n"), "\n")
	r.buf.Reset()
	for _, ln := range lines {
		if ln == "" {
			continue
		}
		if ln == "reset" {
			r.g.Reset()
			r.g.Stats["reset"]-- // counted by the sub generator already
			continue
		}
		body := strings.TrimPrefix(ln, r.g.Engine+" ")
		class, nb := f(strings.Fields(body)[0], body)
		if nb == "" {
			continue // dropped by the engine's generator
		}
		r.emit(class, nb)
	}
}

// prunePool drops, for good, the unconfirmed transactions that conflict with the node's current
// chain (an input is spent by a confirmed transaction and not produced by another pending one).
// Assumption of the crash / fault engines (see notes/C06.md, A3): the node hands the wallet only
// transactions its own mempool accepted, so a transaction purged as a conflict is never delivered
// again - the wallet's volatile pending-id set still holds its id, a restarted wallet's does not.
func prunePool(l *ledGen) {
	defer func() {
		// remember the coins the dropped transactions spend (see singleSpender)
		live := map[string]bool{}
		for _, p := range l.pool {
			live[p.name] = true
		}
		for name, ins := range delivered {
			if !live[name] {
				for _, c := range ins {
					burned[c] = true
				}
			}
		}
	}()
	for changed := true; changed; {
		changed = false
		u := map[string]gCoin{}
		for k, v := range l.tip().utxo {
			u[k] = v
		}
		var keep []*gTx
		for _, p := range l.pool {
			if applyTx(u, p, l.tip().height+1) {
				keep = append(keep, p)
			} else {
				changed = true
			}
		}
		l.pool = keep
	}
}

// Coins spent by an unconfirmed transaction that was delivered to the wallet and later conflicted
// out. The wallet may still hold that transaction as pending (it lags behind the node); a second
// pending spender of the same coin would run into the store's per-outpoint marker being deleted as a
// whole when one of the spenders is purged (deleteUnminedInputs) - a known finding (notes/C06.md, F1)
// whose witness lives in the corpus; the generated histories keep one delivered spender per coin.
//
// oneSpenderPerCoin: set to false once the repair of F1 (deleteUnminedInputs removes only the purged
// transaction's hash from the marker list) is on the main branch - the generated histories then carry
// several delivered spenders per coin again, and nothing else refers to the finding.
const oneSpenderPerCoin = false

var burned = map[string]bool{}
var delivered = map[string][]string{}

func resetSpenders() {
	burned, delivered = map[string]bool{}, map[string][]string{}
}

// singleSpender decides whether the `recvtx T` line just produced by ledGen may be emitted: T's inputs
// (taken from its `tx` line) must not be spent by another delivered transaction, live or conflicted.
func singleSpender(l *ledGen, name string) bool {
	if !oneSpenderPerCoin {
		return true
	}
	t := l.defined[name]
	if t == nil {
		return true
	}
	if _, dup := delivered[name]; dup {
		return true // a duplicate delivery of the same transaction
	}
	var keys []string
	for _, c := range t.ins {
		keys = append(keys, c.key())
	}
	for _, k := range keys {
		if burned[k] {
			return false
		}
		for other, ins := range delivered {
			if other == name {
				continue
			}
			for _, o := range ins {
				if o == k {
					return false
				}
			}
		}
	}
	delivered[name] = keys
	return true
}

// dropFromPool removes a transaction whose delivery was suppressed.
func dropFromPool(l *ledGen, name string) {
	var keep []*gTx
	for _, p := range l.pool {
		if p.name != name {
			keep = append(keep, p)
		}
	}
	l.pool = keep
}
