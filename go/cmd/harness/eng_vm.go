package main

// Ops `vm …` of engine sec (C03 round 4, tie A of the script VM model MW.Model.ScriptVM): ONE run of the REAL
// mass-core engine (txscript.NewEngine + Execute) on a (pkScript, witness) pair, answered with `ok` or
// `err:<class>`; the Lean driver (MW.Drv.Vm) answers the same line with the verdict of the VM model.
//
//   vm FLAGS SEQ LOCKTIME PKSCRIPT NWIT W… TABLE…
//
// FLAGS: bit 0 ScriptDiscourageUpgradableNops, bit 1 ScriptMASSip2.  The transaction is fixed up to SEQ,
// LOCKTIME and the witness (vmTx): one input, one output, input amount vmAmount.  TABLE tokens carry the
// cryptographic values the model takes as parameters, computed HERE with the real sha256 / btcec (vmTables):
// sha256 of every witness item and of every pushed datum, which pushed data btcec parses as public keys / DER
// signatures, and which (key, signature, sub-script, hash type) combinations verify against secSigHash (the
// harness's own implementation of the signature hash).  The executor ignores the tables.

import (
	"bytes"
	"crypto/sha256"
	"encoding/binary"
	"fmt"
	"math/rand"
	"sort"
	"strconv"
	"strings"

	"github.com/btcsuite/btcd/btcec"
	"github.com/massnetorg/mass-core/txscript"
	"github.com/massnetorg/mass-core/wire"
)

const vmAmount = int64(100000)

func vmTx(seq, lock uint64, wit [][]byte) *wire.MsgTx {
	tx := wire.NewMsgTx()
	var h wire.Hash
	for i := range h {
		h[i] = byte(i*7 + 1)
	}
	in := wire.NewTxIn(wire.NewOutPoint(&h, 1), nil)
	in.Sequence = seq
	in.Witness = wit
	tx.AddTxIn(in)
	tx.AddTxOut(&wire.TxOut{Value: 90000, PkScript: append([]byte{0x00, 0x20}, bytes.Repeat([]byte{0x11}, 32)...)})
	tx.LockTime = lock
	return tx
}

var vmErrNames = map[error]string{
	txscript.ErrStackShortScript: "shortScript", txscript.ErrStackUnderflow: "underflow",
	txscript.ErrStackInvalidArgs: "invalidArgs", txscript.ErrStackOpDisabled: "opDisabled",
	txscript.ErrStackVerifyFailed: "verifyFailed", txscript.ErrStackNumberTooBig: "numberTooBig",
	txscript.ErrStackInvalidOpcode: "invalidOpcode", txscript.ErrStackReservedOpcode: "reservedOpcode",
	txscript.ErrTooManyOperations: "tooManyOperations", txscript.ErrStackEarlyReturn: "earlyReturn",
	txscript.ErrStackNoIf: "noIf", txscript.ErrStackMissingEndif: "missingEndif",
	txscript.ErrStackTooManyPubKeys: "tooManyPubKeys", txscript.ErrStackTooManyOperations: "stackTooManyOperations",
	txscript.ErrStackElementTooBig: "elementTooBig", txscript.ErrStackScriptFailed: "scriptFailed",
	txscript.ErrStackEmptyStack: "emptyStack", txscript.ErrStackOverflow: "overflow",
	txscript.ErrStackInvalidLowSSignature: "lowS", txscript.ErrStackInvalidPubKey: "invalidPubKey",
	txscript.ErrStackCleanStack: "cleanStack", txscript.ErrWitnessProgramMismatch: "progMismatch",
	txscript.ErrWitnessPubKeyType: "witnessPubKeyType", txscript.ErrDiscourageUpgradableWitnessProgram: "upgradableWitness",
	txscript.ErrWitnessUnexpected: "witnessUnexpected", txscript.ErrWitnessLength: "witnessLength",
	txscript.ErrScriptTooBig: "scriptTooBig", txscript.ErrWitnessExtProgUnknown: "extProgUnknown",
	txscript.ErrNullFail: "nullFail", txscript.ErrStackScriptUnfinished: "unfinished",
	txscript.ErrStackInvalidIndex: "invalidIndex", txscript.ErrStackMinimalData: "minimalData",
}

func vmErrClass(err error) string {
	if n, ok := vmErrNames[err]; ok {
		return n
	}
	m := err.Error()
	switch {
	case strings.HasPrefix(m, "invalid hashtype"):
		return "fmtHashType"
	case strings.HasPrefix(m, "malformed signature"):
		return "fmtSigEnc"
	case strings.HasPrefix(m, "negative locktime"):
		return "fmtNegLock"
	case strings.HasPrefix(m, "transaction sequence has sequence locktime disabled"):
		return "fmtSeqDisabled"
	case strings.Contains(m, "mismatched locktime types"):
		return "fmtLockType"
	case strings.Contains(m, "locktime requirement not satisfied"):
		return "fmtLockTime"
	case strings.HasPrefix(m, "transaction input is finalized"):
		return "fmtFinalized"
	case strings.HasPrefix(m, "invalid frozen period"):
		return "fmtFrozen"
	case strings.HasPrefix(m, "OP_NOP"):
		return "fmtNop"
	case strings.HasPrefix(m, "past input scripts"):
		return "pastScripts"
	}
	return "other"
}

// vmOp executes one `vm` op (arguments after the op name) on the real engine.
func vmOp(a []string) (res string) {
	if len(a) < 5 {
		return "bad-op"
	}
	flags, e1 := strconv.ParseUint(a[0], 10, 32)
	seq, e2 := strconv.ParseUint(a[1], 10, 64)
	lock, e3 := strconv.ParseUint(a[2], 10, 64)
	pk, ok := unhexTok(a[3])
	n, e4 := strconv.Atoi(a[4])
	if e1 != nil || e2 != nil || e3 != nil || e4 != nil || !ok || n < 0 || len(a) < 5+n {
		return "bad-op"
	}
	wit := make([][]byte, 0, n)
	for i := 0; i < n; i++ {
		w, ok := unhexTok(a[5+i])
		if !ok {
			return "bad-op"
		}
		wit = append(wit, w)
	}
	for _, t := range a[5+n:] {
		if !strings.Contains(t, ":") {
			return "bad-op"
		}
	}
	defer func() {
		if r := recover(); r != nil {
			// an index panic inside the engine (checkSignatureEncoding reads sig[rLen+5] when rLen+5 == len(sig));
			// reported as its own class: the model marks the same inputs (VErr.internal)
			res = "err:PANIC"
		}
	}()
	tx := vmTx(seq, lock, wit)
	var sf txscript.ScriptFlags
	if flags&1 != 0 {
		sf |= txscript.ScriptDiscourageUpgradableNops
	}
	if flags&2 != 0 {
		sf |= txscript.ScriptMASSip2
	}
	vm, err := txscript.NewEngine(pk, tx, 0, sf, nil, nil, vmAmount)
	if err == nil {
		err = vm.Execute()
	}
	if err != nil {
		return "err:" + vmErrClass(err)
	}
	return "ok"
}

// ---------------------------------------------------------------- own tokenizer (for the tables only)

type vmPop struct {
	op   byte
	data []byte
	raw  []byte
	push bool
}

func vmTok(s []byte) []vmPop {
	var out []vmPop
	for i := 0; i < len(s); {
		op := s[i]
		switch {
		case op >= 1 && op <= 75:
			if i+1+int(op) > len(s) {
				return out
			}
			out = append(out, vmPop{op, s[i+1 : i+1+int(op)], s[i : i+1+int(op)], true})
			i += 1 + int(op)
		case op == 76 || op == 77 || op == 78:
			k := map[byte]int{76: 1, 77: 2, 78: 4}[op]
			if i+1+k > len(s) {
				return out
			}
			l := 0
			for j := k - 1; j >= 0; j-- {
				l = l<<8 | int(s[i+1+j])
			}
			if l < 0 || i+1+k+l > len(s) {
				return out
			}
			out = append(out, vmPop{op, s[i+1+k : i+1+k+l], s[i : i+1+k+l], true})
			i += 1 + k + l
		default:
			out = append(out, vmPop{op, nil, s[i : i+1], false})
			i++
		}
	}
	return out
}

func vmCanonicalPush(p vmPop) bool {
	n := len(p.data)
	switch {
	case p.op > 96:
		return true
	case p.op < 76 && p.op > 0 && n == 1 && p.data[0] <= 16:
		return false
	case p.op == 76 && n < 76:
		return false
	case p.op == 77 && n <= 0xff:
		return false
	case p.op == 78 && n <= 0xffff:
		return false
	}
	return true
}

func vmIsWitnessProgram(pops []vmPop) bool {
	small := func(op byte) bool { return op == 0 || (op >= 0x51 && op <= 0x60) }
	if len(pops) == 2 {
		return small(pops[0].op) && vmCanonicalPush(pops[1]) && len(pops[1].data) >= 2 && len(pops[1].data) <= 40
	}
	if len(pops) == 3 {
		l := len(pops[2].data)
		return small(pops[0].op) && vmCanonicalPush(pops[1]) && len(pops[1].data) >= 2 && len(pops[1].data) <= 40 &&
			vmCanonicalPush(pops[2]) && (l == 8 || l == 20 || l == 22)
	}
	return false
}

// vmTables computes the table tokens for one op.
func vmTables(seq, lock uint64, pk []byte, wit [][]byte) []string {
	tx := vmTx(seq, lock, wit)
	set := map[string]bool{}
	add := func(f string, a ...interface{}) { set[fmt.Sprintf(f, a...)] = true }
	sha := func(b []byte) []byte { h := sha256.Sum256(b); return h[:] }
	scripts := [][]byte{pk}
	for i, w := range wit {
		add("s:%s:%s", hexTok(w), hexTok(sha(w)))
		if i < 2 {
			scripts = append(scripts, w)
		}
	}
	// values the small-integer opcodes push (they may be hashed by OP_SHA256 / OP_HASH256)
	var data [][]byte
	hashing := false
	for _, s := range scripts {
		hashing = hashing || bytes.IndexByte(s, 0xa8) >= 0 || bytes.IndexByte(s, 0xaa) >= 0
	}
	if hashing {
		data = append(data, []byte{}, []byte{0x81})
		for i := 1; i <= 16; i++ {
			data = append(data, []byte{byte(i)})
		}
	}
	for _, s := range scripts {
		for _, p := range vmTok(s) {
			if p.push && len(p.data) <= 600 {
				data = append(data, p.data)
			}
		}
	}
	type keyC struct {
		raw []byte
		k   *btcec.PublicKey
	}
	type sigC struct {
		full []byte
		der  []byte
		s    *btcec.Signature
	}
	var keys []keyC
	var sigs []sigC
	for _, d := range data {
		h1 := sha(d)
		add("s:%s:%s", hexTok(d), hexTok(h1))
		add("s:%s:%s", hexTok(h1), hexTok(sha(h1)))
		if len(d) == 33 || len(d) == 65 {
			if k, err := btcec.ParsePubKey(d, btcec.S256()); err == nil {
				add("k:%s", hexTok(d))
				keys = append(keys, keyC{d, k})
			}
		}
		if len(d) >= 2 && len(d) <= 80 {
			der := d[:len(d)-1]
			if s, err := btcec.ParseDERSignature(der, btcec.S256()); err == nil {
				add("g:%s", hexTok(der))
				sigs = append(sigs, sigC{d, der, s})
			}
		}
	}
	// sub-scripts the engine can hash: each executed script from offset 0 and from behind every
	// OP_CODESEPARATOR; for a non-witness pkScript also with the pushes containing a signature removed
	var subs [][]byte
	wp := vmIsWitnessProgram(vmTok(pk))
	for si, s := range scripts {
		pops := vmTok(s)
		starts := []int{0}
		for i, p := range pops {
			if p.op == 0xab {
				starts = append(starts, i+1)
			}
		}
		for _, st := range starts {
			var b []byte
			for _, p := range pops[st:] {
				b = append(b, p.raw...)
			}
			subs = append(subs, b)
			if si == 0 && !wp {
				for _, sg := range sigs {
					var r []byte
					for _, p := range pops[st:] {
						if !vmCanonicalPush(p) || !bytes.Contains(p.data, sg.full) {
							r = append(r, p.raw...)
						}
					}
					subs = append(subs, r)
				}
			}
		}
	}
	for _, k := range keys {
		for _, sg := range sigs {
			ht := sg.full[len(sg.full)-1]
			for _, sub := range subs {
				h := secSigHash(tx, 0, txscript.SigHashType(ht), sub, vmAmount)
				if sg.s.Verify(h, k.k) {
					add("v:%s:%s:%s:%d", hexTok(k.raw), hexTok(sg.der), hexTok(sub), ht)
				}
			}
		}
	}
	out := make([]string, 0, len(set))
	for t := range set {
		out = append(out, t)
	}
	sort.Strings(out)
	return out
}

// ---------------------------------------------------------------- generator

type vmGen struct {
	g    *Gen
	r    *rand.Rand
	keys []*btcec.PrivateKey
}

func rawPush(d []byte) []byte {
	switch {
	case len(d) <= 75:
		return append([]byte{byte(len(d))}, d...)
	case len(d) <= 255:
		return append([]byte{0x4c, byte(len(d))}, d...)
	default:
		return append([]byte{0x4d, byte(len(d)), byte(len(d) >> 8)}, d...)
	}
}

func cat(bs ...[]byte) []byte {
	var o []byte
	for _, b := range bs {
		o = append(o, b...)
	}
	return o
}

func le8(v uint64) []byte { b := make([]byte, 8); binary.LittleEndian.PutUint64(b, v); return b }

func sha32(b []byte) []byte { h := sha256.Sum256(b); return h[:] }

func wshPk(h []byte) []byte            { return cat([]byte{0x00, 0x20}, h) }
func stkPk(h []byte, f uint64) []byte  { return cat([]byte{0x00, 0x20}, h, []byte{0x08}, le8(f)) }
func bindPk(h []byte, t []byte) []byte { return cat([]byte{0x00, 0x20}, h, []byte{byte(len(t))}, t) }

func (v *vmGen) pub(i int) []byte { return v.keys[i].PubKey().SerializeCompressed() }

// multisig redeem script m <keys…> n OP_CHECKMULTISIG (opcodes given literally)
func msRedeem(m byte, keys [][]byte, n byte) []byte {
	s := []byte{m}
	for _, k := range keys {
		s = append(s, rawPush(k)...)
	}
	return append(s, n, 0xae)
}

// signature over (sub-script, hash type) for the op's transaction
func (v *vmGen) sign(ki int, seq, lock uint64, sub []byte, ht byte) []byte {
	tx := vmTx(seq, lock, nil)
	h := secSigHash(tx, 0, txscript.SigHashType(ht), sub, vmAmount)
	s, err := v.keys[ki].Sign(h)
	if err != nil {
		panic(err)
	}
	return append(s.Serialize(), ht)
}

func (v *vmGen) emit(class string, flags int, seq, lock uint64, pk []byte, wit [][]byte) {
	toks := []string{fmt.Sprint(flags), fmt.Sprint(seq), fmt.Sprint(lock), hexTok(pk), fmt.Sprint(len(wit))}
	for _, w := range wit {
		toks = append(toks, hexTok(w))
	}
	toks = append(toks, vmTables(seq, lock, pk, wit)...)
	v.g.Op(class, "vm %s", strings.Join(toks, " "))
}

var vmHashTypes = []byte{1, 2, 3, 0x81, 0x82, 0x83}

const vmMaxSeq = ^uint64(0)

// the template cases: valid spends of the three output kinds and their neighbours
func (v *vmGen) template() {
	r := v.r
	ki := r.Intn(len(v.keys))
	pkb := v.pub(ki)
	red := msRedeem(0x51, [][]byte{pkb}, 0x51)
	h := sha32(red)
	ht := vmHashTypes[r.Intn(len(vmHashTypes))]
	flags := 1
	seq := vmMaxSeq
	lock := uint64(0)
	if r.Intn(3) == 0 {
		lock = uint64(r.Intn(1000))
		seq = vmMaxSeq - 1
	}
	kind := r.Intn(3)
	var pk []byte
	class := "vm-valid-std"
	switch kind {
	case 0:
		pk = wshPk(h)
	case 1:
		f := uint64(1 + r.Intn(5000))
		if r.Intn(6) == 0 {
			f = uint64(61440 + r.Intn(100000))
		}
		pk = stkPk(h, f)
		seq = f + 1 + uint64(r.Intn(3))
		class = "vm-valid-stk"
		switch r.Intn(8) {
		case 0:
			seq = f // one short
			class = "vm-seq-short"
		case 1:
			seq = vmMaxSeq
			class = "vm-seq-disabled"
		case 2:
			seq = (f + 1) | 1<<38
			class = "vm-seq-type"
		case 3:
			seq = (f + 1) | 1<<40 | uint64(r.Intn(4))<<33 // non-consensus bits
			class = "vm-seq-extra-bits"
		}
	case 2:
		t := make([]byte, 20+2*r.Intn(2))
		r.Read(t)
		pk = bindPk(h, t)
		class = "vm-valid-bind"
		if r.Intn(2) == 0 {
			flags |= 2
			class = "vm-bind-ip2"
			switch r.Intn(3) {
			case 0:
				seq = 0xfffffffe
			case 1:
				seq = 0xffffffff
			case 2:
				seq = uint64(r.Intn(1 << 20))
			}
		}
	}
	full := v.sign(ki, seq, lock, red, ht)
	wit := [][]byte{rawPush(full), red}
	switch m := r.Intn(30); {
	case m < 10:
	case m == 10: // signature by another key
		full = v.sign((ki+1)%len(v.keys), seq, lock, red, ht)
		wit[0] = rawPush(full)
		class = "vm-wrong-sig"
	case m == 11: // signature over another hash type
		o := v.sign(ki, seq, lock, red, vmHashTypes[(r.Intn(5)+1+bytes.IndexByte(vmHashTypes, ht))%6])
		o[len(o)-1] = ht
		wit[0] = rawPush(o)
		class = "vm-wrong-sig"
	case m == 12: // another redeem script (same shape, other key): program mismatch
		wit[1] = msRedeem(0x51, [][]byte{v.pub((ki + 1) % len(v.keys))}, 0x51)
		class = "vm-wrong-redeem"
	case m == 13: // invalid hash types
		bad := []byte{0, 4, 0x80, 0x84, 0x41, 0xff}[r.Intn(6)]
		o := v.sign(ki, seq, lock, red, bad)
		wit[0] = rawPush(o)
		class = "vm-hashtype-bad"
	case m == 14: // extra stack item
		wit[0] = cat(rawPush([]byte{byte(1 + r.Intn(100))}), rawPush(full))
		class = "vm-extra-item"
	case m == 15: // a dummy element as in Bitcoin (OP_0 <sig>)
		wit[0] = cat([]byte{0x00}, rawPush(full))
		class = "vm-extra-item"
	case m == 16: // three / one / no witness items
		switch r.Intn(4) {
		case 0:
			wit = [][]byte{rawPush(full), red, red}
		case 1:
			wit = [][]byte{red}
		case 2:
			wit = nil
		case 3:
			wit = [][]byte{{}, red}
		}
		class = "vm-witness-count"
	case m == 17: // non-minimal push of the signature
		wit[0] = cat([]byte{0x4c, byte(len(full))}, full)
		class = "vm-nonminimal-push"
	case m == 18: // empty signature
		wit[0] = []byte{0x00}
		class = "vm-empty-sig"
	case m == 19: // DER damage
		o := append([]byte{}, full...)
		switch r.Intn(5) {
		case 0: // high S: negate s
			sig, _ := btcec.ParseDERSignature(o[:len(o)-1], btcec.S256())
			sig.S.Sub(btcec.S256().N, sig.S)
			o = append(derEncode(sig), ht)
		case 1:
			o[1]++ // total length
		case 2:
			o[2] = 3 // integer marker
		case 3:
			o = append([]byte{0x30, 6, 2, 3, 1, 1, 1, 1}, ht) // rLen+5 == len(sig): the engine reads sig[rLen+5] (index panic)
		case 4:
			o = o[len(o)-5:] // too short
		}
		wit[0] = rawPush(o)
		class = "vm-der"
	case m == 20: // uncompressed / hybrid / off-curve key in the redeem script
		var k []byte
		switch r.Intn(3) {
		case 0:
			k = v.keys[ki].PubKey().SerializeUncompressed()
		case 1:
			k = append([]byte{}, pkb...)
			k[0] = 5
		case 2:
			k = append([]byte{2}, bytes.Repeat([]byte{0xff}, 32)...)
		}
		red2 := msRedeem(0x51, [][]byte{k}, 0x51)
		h2 := sha32(red2)
		pk = wshPk(h2)
		wit = [][]byte{rawPush(v.sign(ki, seq, lock, red2, ht)), red2}
		class = "vm-pubkey-enc"
	case m == 21: // truncated redeem script (with its own matching hash)
		cut := 1 + r.Intn(len(red)-1)
		red2 := red[:cut]
		pk = wshPk(sha32(red2))
		wit = [][]byte{rawPush(full), red2}
		class = "vm-truncated"
	case m == 22: // truncated pkScript
		pk = pk[:1+r.Intn(len(pk)-1)]
		class = "vm-truncated"
	case m == 23: // non-minimal small integers in the redeem script: 01 01 instead of OP_1
		red2 := cat([]byte{0x01, 0x01}, rawPush(pkb), []byte{0x01, 0x01, 0xae})
		pk = wshPk(sha32(red2))
		wit = [][]byte{rawPush(v.sign(ki, seq, lock, red2, ht)), red2}
		class = "vm-nonminimal-push"
	case m == 24: // frozen periods at the int64 boundary
		f := []uint64{1<<63 - 1, 1 << 63, 1<<63 - 2, vmMaxSeq, 0}[r.Intn(5)]
		pk = stkPk(h, f)
		class = "vm-frozen-edge"
	case m == 25: // witness version != 0, odd program sizes
		switch r.Intn(3) {
		case 0:
			pk = cat([]byte{0x51, 0x20}, h)
		case 1:
			pk = cat([]byte{0x00, 0x14}, h[:20])
		case 2:
			pk = cat([]byte{0x00, 0x20}, h, rawPush(h[:9]))
		}
		class = "vm-program-shape"
	default: // wrong m / n
		var m2, n2 byte
		switch r.Intn(4) {
		case 0:
			m2, n2 = 0x52, 0x51
		case 1:
			m2, n2 = 0x51, 0x52
		case 2:
			m2, n2 = 0x00, 0x51
		case 3:
			m2, n2 = 0x51, 0x00
		}
		red2 := msRedeem(m2, [][]byte{pkb}, n2)
		pk = wshPk(sha32(red2))
		wit = [][]byte{rawPush(v.sign(ki, seq, lock, red2, ht)), red2}
		class = "vm-wrong-mn"
	}
	v.emit(class, flags, seq, lock, pk, wit)
}

func derEncode(sig *btcec.Signature) []byte {
	enc := func(x []byte) []byte {
		for len(x) > 1 && x[0] == 0 {
			x = x[1:]
		}
		if len(x) == 0 || x[0]&0x80 != 0 {
			x = append([]byte{0}, x...)
		}
		return x
	}
	rb, sb := enc(sig.R.Bytes()), enc(sig.S.Bytes())
	b := []byte{0x30, byte(4 + len(rb) + len(sb)), 0x02, byte(len(rb))}
	b = append(b, rb...)
	b = append(b, 0x02, byte(len(sb)))
	return append(b, sb...)
}

// general m-of-n multisig through a witness script hash
func (v *vmGen) multisig() {
	r := v.r
	n := 1 + r.Intn(3)
	m := 1 + r.Intn(n)
	var ks [][]byte
	idx := r.Perm(len(v.keys))[:n]
	for _, i := range idx {
		ks = append(ks, v.pub(i))
	}
	red := msRedeem(0x50+byte(m), ks, 0x50+byte(n))
	if r.Intn(8) == 0 { // a code separator in front: the signed sub-script starts behind it
		red = cat([]byte{0xab}, red)
	}
	sub := red
	if red[0] == 0xab {
		sub = red[1:]
	}
	pk := wshPk(sha32(red))
	// signatures are popped top first and matched against the keys popped top first: the sig script pushes
	// them in reverse key order … or not (class vm-ms-order)
	sel := r.Perm(n)[:m]
	sort.Ints(sel)
	var sigs [][]byte
	for _, j := range sel {
		sigs = append(sigs, v.sign(idx[j], vmMaxSeq, 0, sub, vmHashTypes[r.Intn(6)]))
	}
	class := "vm-ms-valid"
	var w0 []byte
	mode := r.Intn(6)
	switch {
	case mode == 0 && m > 1:
		class = "vm-ms-order"
		for _, s := range sigs {
			w0 = append(w0, rawPush(s)...)
		}
	case mode == 1:
		class = "vm-ms-missing"
		for i := len(sigs) - 1; i >= 1; i-- {
			w0 = append(w0, rawPush(sigs[i])...)
		}
		if len(w0) == 0 {
			w0 = []byte{0x61}
		}
	case mode == 2:
		class = "vm-ms-empty-sig"
		for i := len(sigs) - 1; i >= 0; i-- {
			if i == 0 {
				w0 = append(w0, 0x00)
			} else {
				w0 = append(w0, rawPush(sigs[i])...)
			}
		}
	default:
		for i := len(sigs) - 1; i >= 0; i-- {
			w0 = append(w0, rawPush(sigs[i])...)
		}
	}
	v.emit(class, 1, vmMaxSeq, 0, pk, [][]byte{w0, red})
}

// non-witness pkScripts: the engine executes the pkScript alone
func (v *vmGen) bare() {
	r := v.r
	ki := r.Intn(len(v.keys))
	var pk []byte
	class := "vm-bare"
	switch r.Intn(5) {
	case 0:
		pk = []byte{0x51}
	case 1:
		pk = []byte{0x00}
	case 2: // bare multisig carrying its own signature: the push holding it is removed from the signed script
		tail := msRedeem(0x51, [][]byte{v.pub(ki)}, 0x51)
		sig := v.sign(ki, vmMaxSeq, 0, tail, 1)
		pk = cat(rawPush(sig), tail)
		class = "vm-bare-multisig"
	case 3: // OP_CHECKSIG cannot verify in a bare script (the signature would have to sign itself)
		tail := cat(rawPush(v.pub(ki)), []byte{0xac})
		sig := v.sign(ki, vmMaxSeq, 0, tail, 1)
		pk = cat(rawPush(sig), tail)
		class = "vm-bare-checksig"
	case 4:
		pk = v.randScript(3 + r.Intn(8))
		if r.Intn(3) == 0 { // a bare multisig whose key has no valid encoding / too many keys for the op budget
			tail := msRedeem(0x51, [][]byte{sha32(pk)}, 0x51)
			pk = cat(rawPush(v.sign(ki, vmMaxSeq, 0, tail, 1)), tail)
			class = "vm-bare-badkey"
		}
	}
	var wit [][]byte
	if r.Intn(2) == 0 {
		wit = [][]byte{{0x51}, {0x51}}
	}
	v.emit(class, 1, vmMaxSeq, uint64(r.Intn(3)), pk, wit)
}

type vmOpInfo struct {
	op        byte
	pops, psh int
}

var vmOps = []vmOpInfo{
	{0x61, 0, 0}, {0x69, 1, 0}, {0x6b, 1, 0}, {0x6c, 0, 1}, {0x6d, 2, 0}, {0x6e, 2, 4}, {0x6f, 3, 6}, {0x70, 4, 6},
	{0x71, 6, 6}, {0x72, 4, 4}, {0x73, 1, 2}, {0x74, 0, 1}, {0x75, 1, 0}, {0x76, 1, 2}, {0x77, 2, 1}, {0x78, 2, 3},
	{0x79, 2, 2}, {0x7a, 2, 1}, {0x7b, 3, 3}, {0x7c, 2, 2}, {0x7d, 2, 3}, {0x82, 1, 2}, {0x87, 2, 1}, {0x88, 2, 0},
	{0x8b, 1, 1}, {0x8c, 1, 1}, {0x8f, 1, 1}, {0x90, 1, 1}, {0x91, 1, 1}, {0x92, 1, 1}, {0x93, 2, 1}, {0x94, 2, 1},
	{0x9a, 2, 1}, {0x9b, 2, 1}, {0x9c, 2, 1}, {0x9d, 2, 0}, {0x9e, 2, 1}, {0x9f, 2, 1}, {0xa0, 2, 1}, {0xa1, 2, 1},
	{0xa2, 2, 1}, {0xa3, 2, 1}, {0xa4, 2, 1}, {0xa5, 3, 1}, {0xa8, 1, 1}, {0xaa, 1, 1}, {0xab, 0, 0},
	{0xb1, 1, 1}, {0xb2, 1, 1},
}

// rare opcodes: disabled, reserved, invalid, NOPs, OP_RETURN, conditionals out of place
var vmRare = []byte{0x50, 0x62, 0x65, 0x66, 0x67, 0x68, 0x6a, 0x7e, 0x7f, 0x83, 0x85, 0x89, 0x8a, 0x8d, 0x95, 0x99,
	0xb0, 0xb3, 0xb9, 0xba, 0xf0, 0xff, 0x4f, 0xac, 0xad, 0xae, 0xaf}

func (v *vmGen) randPush() []byte {
	r := v.r
	switch r.Intn(10) {
	case 0:
		return []byte{0x00}
	case 1, 2, 3:
		return []byte{0x51 + byte(r.Intn(16))}
	case 4:
		return []byte{0x4f}
	case 5: // a number with sign / padding quirks
		return rawPush([][]byte{{0x80}, {0x00}, {0x00, 0x80}, {0xff, 0xff, 0xff, 0x7f}, {0xff, 0xff, 0xff, 0xff},
			{1, 0, 0, 0, 0}, {0x81}, {2, 0}}[r.Intn(8)])
	case 6:
		d := make([]byte, 1+r.Intn(4))
		r.Read(d)
		return rawPush(d)
	case 7:
		d := make([]byte, 1+r.Intn(40))
		r.Read(d)
		if r.Intn(3) == 0 {
			return cat([]byte{0x4c, byte(len(d))}, d)
		}
		return rawPush(d)
	default:
		return rawPush([]byte{byte(r.Intn(6))})
	}
}

// randScript: a random script over the modelled opcode set, mostly respecting the stack depth
func (v *vmGen) randScript(n int) []byte {
	r := v.r
	var s []byte
	depth := 0
	open := 0
	for i := 0; i < n; i++ {
		switch k := r.Intn(20); {
		case k < 6 || depth == 0:
			s = append(s, v.randPush()...)
			depth++
		case k == 6:
			s = append(s, vmRare[r.Intn(len(vmRare))])
		case k == 7 && depth > 0: // conditional block
			s = append(s, 0x63+byte(r.Intn(2)))
			s = append(s, v.randPush()...)
			if r.Intn(2) == 0 {
				s = append(s, 0x67)
				s = append(s, v.randPush()...)
			}
			if r.Intn(8) > 0 {
				s = append(s, 0x68)
			} else {
				open++
			}
		default:
			var o vmOpInfo
			for t := 0; t < 6; t++ {
				o = vmOps[r.Intn(len(vmOps))]
				if o.pops <= depth {
					break
				}
			}
			s = append(s, o.op)
			depth += o.psh - o.pops
			if depth < 0 {
				depth = 0
			}
		}
	}
	return s
}

// random scripts in both witness positions
func (v *vmGen) opcodes() {
	r := v.r
	w0 := v.randScript(1 + r.Intn(6))
	w1 := v.randScript(1 + r.Intn(10))
	switch r.Intn(4) {
	case 0: // steer towards a clean true stack
		w1 = cat(w1, []byte{0x74, 0x00, 0x9c, 0x63, 0x51, 0x67}, []byte{0x74, 0x51, 0x9f, 0x64}, []byte{0x68, 0x68})
	case 1:
		w1 = cat(w1, []byte{0x74, 0x51, 0x87})
	}
	flags := 1
	if r.Intn(5) == 0 {
		flags = 0
	}
	seq := vmMaxSeq
	if r.Intn(2) == 0 {
		seq = uint64(r.Intn(20))
		if r.Intn(4) == 0 {
			seq |= 1 << 38
		}
	}
	v.emit("vm-opcodes", flags, seq, uint64(r.Intn(12)), wshPk(sha32(w1)), [][]byte{w0, w1})
}

// limits: element size, operation count, stack size, script size
func (v *vmGen) limits(kind int) {
	r := v.r
	var w0, w1 []byte
	switch kind {
	case 0:
		w0 = rawPush(make([]byte, 519+r.Intn(3)))
		w1 = []byte{0x75, 0x51}
	case 1:
		w0 = []byte{0x51}
		w1 = bytes.Repeat([]byte{0x61}, 200+r.Intn(3))
	case 2:
		w0 = bytes.Repeat([]byte{0x51}, 999+r.Intn(3))
		w1 = cat(bytes.Repeat([]byte{0x6d}, 499), []byte{0x74, 0x51, 0x9c, 0x69, 0x74})
	case 3:
		w0 = bytes.Repeat([]byte{0x61}, 9999+r.Intn(3))
		w1 = []byte{0x51}
	case 4: // 20 / 21 keys
		n := 19 + r.Intn(3)
		w1 = []byte{0x00}
		for i := 0; i < n; i++ {
			w1 = append(w1, rawPush(v.pub(i%len(v.keys)))...)
		}
		w1 = append(w1, rawPush([]byte{byte(n)})...)
		w1 = append(w1, 0xae)
		w0 = []byte{0x61}
	}
	v.emit("vm-limits", 1, vmMaxSeq, 0, wshPk(sha32(w1)), [][]byte{w0, w1})
}

func genVm(g *Gen) {
	v := &vmGen{g: g, r: g.Rng}
	for i := 0; i < 4; i++ {
		seed := sha256.Sum256([]byte(fmt.Sprintf("vm-key-%d-%d", g.Seed, i)))
		k, _ := btcec.PrivKeyFromBytes(btcec.S256(), seed[:])
		v.keys = append(v.keys, k)
	}
	n := g.Scale(1000, 20000)
	for i := 0; i < n || !g.Covered(); i++ {
		if i%40 == 0 {
			g.Reset()
		}
		switch k := g.Rng.Intn(20); {
		case k < 9:
			v.template()
		case k < 12:
			v.multisig()
		case k < 14:
			v.bare()
		case k < 19:
			v.opcodes()
		default:
			// the 1000-element stack and the 10000-byte script are slow in the real engine (it formats both
			// stacks for its trace log at every step): a few of each per run
			if i < 2*20 {
				v.limits(2 + g.Rng.Intn(2))
			} else {
				v.limits([]int{0, 1, 4}[g.Rng.Intn(3)])
			}
		}
		if i > 40*n {
			break
		}
	}
}
