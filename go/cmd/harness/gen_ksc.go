package main

// Generator of engine ksc (byte-level keystore codecs).  genKsc is the engine's own generator and is also
// appended to the seeded streams of C05 (engine sec) and C04 / C12 (engine ks): its lines carry the engine
// prefix `ksc` whatever stream they are written to (the executors dispatch per line).

import (
	"crypto/sha256"
	"encoding/binary"
	"encoding/hex"
	"fmt"
	"math"
	"math/rand"
	"strings"

	"golang.org/x/crypto/scrypt"
	"massnet.org/mass-wallet/masswallet/keystore"
	"massnet.org/mass-wallet/masswallet/keystore/snacl"
)

type kscGen struct {
	g *Gen
	r *rand.Rand
}

func (k *kscGen) op(class, f string, a ...interface{}) {
	line := "ksc " + fmt.Sprintf(f, a...)
	fmt.Fprintln(k.g.w, line)
	k.g.N++
	k.g.Stats[class]++
	if len(k.g.sample) < 12 && k.g.Stats[class] <= 1 {
		k.g.sample = append(k.g.sample, line)
	}
}

func (k *kscGen) rb(n int) []byte {
	b := make([]byte, n)
	for i := range b {
		b[i] = byte(k.r.Intn(256))
	}
	return b
}

func (k *kscGen) pickInt(xs ...int) int { return xs[k.r.Intn(len(xs))] }

func le32(n uint32) []byte {
	b := make([]byte, 4)
	binary.LittleEndian.PutUint32(b, n)
	return b
}

// cat (byte-slice concatenation) is defined in eng_vm.go

// (0 comes last: it is the one value whose encoding does not depend on the byte order)
var kscU32Edges = []uint32{1, 2, 255, 256, 257, 65535, 65536, 1<<24 - 1, 1 << 24, math.MaxInt32, 1 << 31, math.MaxUint32 - 1, math.MaxUint32, 0}

var kscIntEdges = []int64{0, 1, -1, 8, 16, 16384, 262144, math.MaxInt32, math.MaxInt32 + 1, math.MaxUint32, math.MaxUint32 + 1,
	math.MaxInt64, math.MaxInt64 - 1, math.MinInt64, math.MinInt64 + 1, -256, 255, 256, 1 << 40, -(1 << 40)}

func (k *kscGen) u32() uint32 {
	if k.r.Intn(3) == 0 {
		return kscU32Edges[k.r.Intn(len(kscU32Edges))]
	}
	if k.r.Intn(2) == 0 {
		return uint32(k.r.Intn(20))
	}
	return k.r.Uint32()
}

func (k *kscGen) i64() int64 {
	if k.r.Intn(2) == 0 {
		return kscIntEdges[k.r.Intn(len(kscIntEdges))]
	}
	return int64(k.r.Uint64())
}

// blob: a non-empty value of a typical size (ciphertexts are 24 + 16 + n bytes)
func (k *kscGen) blob() []byte { return k.rb(k.pickInt(1, 2, 40, 72, 73, 88, 151, 200)) }

// optBlob: nil / empty / value
func (k *kscGen) optBlob() string {
	switch k.r.Intn(6) {
	case 0:
		return "nil"
	case 1:
		return "-"
	}
	return hexTok(k.blob())
}

func genKsc(g *Gen) {
	k := &kscGen{g: g, r: g.Rng}
	rounds := g.Scale(1, 6)
	for round := 0; round < rounds; round++ {
		k.snaclPart()
		k.valuePart()
		k.recordPart()
		k.hexPart()
		k.renderPart()
		k.importPart()
		k.scriptedHistories()
		k.scriptedPk()
		n := g.Scale(40, 300)
		for i := 0; i < n; i++ {
			switch i % 4 {
			case 0, 1:
				k.acctHistory()
			case 2:
				k.pkHistory()
			case 3:
				k.idHistory()
			}
		}
	}
}

// ---------------------------------------------------------------------------------------------- snacl

func (k *kscGen) snaclPart() {
	g := k.g
	g.Reset()
	for i := 0; i < g.Scale(60, 400); i++ {
		if i%16 == 0 {
			g.Reset()
		}
		n, r, p := k.i64(), k.i64(), k.i64()
		class := "ksc-snacl-marshal"
		if n > math.MaxInt32 || n < math.MinInt32 || r > math.MaxInt32 || p < 0 {
			class = "ksc-snacl-int-boundary"
		}
		salt, dig := k.rb(32), k.rb(32)
		k.op(class, "marshal %s %s %d %d %d", hexTok(salt), hexTok(dig), n, r, p)
		var sk snacl.SecretKey
		copy(sk.Parameters.Salt[:], salt)
		copy(sk.Parameters.Digest[:], dig)
		sk.Parameters.N, sk.Parameters.R, sk.Parameters.P = int(n), int(r), int(p)
		k.op("ksc-snacl-roundtrip", "unmarshal %s", hexTok(sk.Marshal()))
	}
	g.Reset()
	for i := 0; i < g.Scale(30, 200); i++ {
		k.op("ksc-snacl-unmarshal-any88", "unmarshal %s", hexTok(k.rb(88)))
	}
	g.Reset()
	for _, l := range []int{0, 1, 8, 24, 32, 64, 80, 86, 87, 89, 90, 96, 120, 176, 1000} {
		k.op("ksc-snacl-wrong-length", "unmarshal %s", hexTok(k.rb(l)))
	}
	for i := 0; i < g.Scale(40, 300); i++ {
		l := k.r.Intn(200)
		if l == 88 {
			l = 87
		}
		k.op("ksc-snacl-wrong-length", "unmarshal %s", hexTok(k.rb(l)))
	}
}

// ---------------------------------------------------------------------------------------------- u32 values

func (k *kscGen) valuePart() {
	g := k.g
	g.Reset()
	for _, n := range kscU32Edges {
		k.op("ksc-u32-boundary", "u32 %d", n)
		k.op("ksc-u32-boundary", "u32of %s", hexTok(le32(n)))
	}
	for i := 0; i < g.Scale(30, 300); i++ {
		k.op("ksc-u32-random", "u32 %d", k.r.Uint32())
	}
	g.Reset()
	for l := 0; l <= 3; l++ {
		k.op("ksc-u32of-short", "u32of %s", hexTok(k.rb(l)))
	}
	for l := 5; l <= 9; l++ {
		k.op("ksc-u32of-long", "u32of %s", hexTok(k.rb(l)))
	}
}

// ---------------------------------------------------------------------------------------------- records

func (k *kscGen) rowLen() int {
	return k.pickInt(0, 1, 2, 3, 4, 7, 8, 9, 100, 151, 254, 255, 256, 257, 300, 65535, 65536, 65537)
}

func (k *kscGen) recordPart() {
	g := k.g
	g.Reset()
	for i := 0; i < g.Scale(60, 600); i++ {
		if i%12 == 0 {
			g.Reset()
		}
		t := k.pickInt(0, 0, 0, 1, 2, 127, 128, 255)
		raw := k.rb(k.rowLen())
		class := "ksc-row-roundtrip"
		if len(raw) >= 255 {
			class = "ksc-row-boundary"
		}
		k.op(class, "ser-row %d %s", t, hexTok(raw))
		enc := cat([]byte{byte(t)}, le32(uint32(len(raw))), raw)
		k.op(class, "de-row %s", hexTok(enc))
		switch k.r.Intn(5) {
		case 0:
			k.op("ksc-row-trailing", "de-row %s", hexTok(cat(enc, k.rb(1+k.r.Intn(5)))))
		case 1:
			if len(raw) > 0 {
				cut := k.r.Intn(len(raw))
				k.op("ksc-row-panic", "de-row %s", hexTok(enc[:5+cut]))
			}
		case 2: // declared length one more / far more than present
			d := uint32(len(raw)) + 1 + uint32(k.r.Intn(3))*uint32(k.r.Intn(1<<20))
			k.op("ksc-row-panic", "de-row %s", hexTok(cat([]byte{byte(t)}, le32(d), raw)))
		case 3: // declared length smaller: a prefix is returned
			if len(raw) > 0 {
				d := uint32(k.r.Intn(len(raw)))
				k.op("ksc-row-declared-shorter", "de-row %s", hexTok(cat([]byte{byte(t)}, le32(d), raw)))
			}
		}
	}
	g.Reset()
	for l := 0; l <= 4; l++ {
		k.op("ksc-row-short", "de-row %s", hexTok(k.rb(l)))
	}
	k.op("ksc-row-roundtrip", "de-row %s", hexTok([]byte{0, 0, 0, 0, 0}))
	g.Reset()
	for i := 0; i < g.Scale(60, 600); i++ {
		if i%12 == 0 {
			g.Reset()
		}
		pub, priv := k.rb(k.pickInt(0, 1, 2, 72, 151, 255, 256, 300, 65536)), k.rb(k.pickInt(0, 1, 2, 72, 151, 255, 256, 300, 65536))
		class := "ksc-hd-roundtrip"
		if len(pub) == 0 || len(priv) == 0 {
			class = "ksc-hd-empty-field"
		}
		k.op(class, "ser-hd %s %s", hexTok(pub), hexTok(priv))
		enc := cat(le32(uint32(len(pub))), pub, le32(uint32(len(priv))), priv)
		k.op(class, "de-hd %s", hexTok(enc))
		switch k.r.Intn(5) {
		case 0:
			k.op("ksc-hd-trailing", "de-hd %s", hexTok(cat(enc, k.rb(1+k.r.Intn(5)))))
		case 1:
			if len(enc) > 8 {
				k.op("ksc-hd-panic", "de-hd %s", hexTok(enc[:8+k.r.Intn(len(enc)-8)]))
			}
		case 2:
			bad := cat(le32(uint32(len(pub))+1+uint32(k.r.Intn(1<<16))), pub, le32(uint32(len(priv))), priv)
			k.op("ksc-hd-panic", "de-hd %s", hexTok(bad))
		case 3:
			bad := cat(le32(uint32(len(pub))), pub, le32(uint32(len(priv))+1+uint32(k.r.Intn(1<<16))), priv)
			k.op("ksc-hd-panic", "de-hd %s", hexTok(bad))
		}
	}
	g.Reset()
	for l := 0; l <= 7; l++ {
		k.op("ksc-hd-short", "de-hd %s", hexTok(k.rb(l)))
	}
	k.op("ksc-hd-empty-field", "de-hd %s", hexTok(make([]byte, 8)))
	k.op("ksc-hd-panic", "de-hd %s", hexTok([]byte{9, 0, 0, 0, 1, 2, 3, 4}))
	k.op("ksc-hd-panic", "de-hd %s", hexTok([]byte{2, 0, 0, 0, 1, 2, 3, 4})) // second length field cut
}

// ---------------------------------------------------------------------------------------------- hex

func (k *kscGen) hexPart() {
	g := k.g
	g.Reset()
	for i := 0; i < g.Scale(40, 400); i++ {
		b := k.rb(k.r.Intn(40))
		k.op("ksc-hexenc", "hexenc %s", hexTok(b))
		h := hex.EncodeToString(b)
		switch k.r.Intn(6) {
		case 0:
			k.op("ksc-hexdec-ok", "hexdec %s", hexTok([]byte(h)))
		case 1:
			k.op("ksc-hexdec-ok", "hexdec %s", hexTok([]byte(strings.ToUpper(h))))
		case 2:
			m := []byte(h)
			for j := range m {
				if k.r.Intn(2) == 0 {
					m[j] = strings.ToUpper(string(m[j]))[0]
				}
			}
			k.op("ksc-hexdec-ok", "hexdec %s", hexTok(m))
		case 3:
			k.op("ksc-hexdec-reject", "hexdec %s", hexTok([]byte(h+"a")))
		case 4:
			m := []byte(h + "00")
			bad := []byte("gG/:@`{ \x00\xff-_xX")
			m[k.r.Intn(len(m))] = bad[k.r.Intn(len(bad))]
			k.op("ksc-hexdec-reject", "hexdec %s", hexTok(m))
		case 5:
			k.op("ksc-hexdec-any", "hexdec %s", hexTok(k.rb(k.r.Intn(6))))
		}
	}
	// every byte value as the first / second digit
	g.Reset()
	for c := 0; c < 256; c++ {
		k.op("ksc-hexdec-every-byte", "hexdec %s", hexTok([]byte{byte(c), '7'}))
		k.op("ksc-hexdec-every-byte", "hexdec %s", hexTok([]byte{'c', byte(c)}))
	}
}

// ---------------------------------------------------------------------------------------------- JSON

type kscKs struct {
	remarks                                          []byte
	version                                          int
	cipher, ent, kdf, pubp, privp, cpub, cpriv, cent []byte
	purpose, coin, account, ex, in                   uint32
}

// doc: the canonical text of f, made by the real json.Marshal (the generator may call the code under test to build inputs)
func (f kscKs) doc() []byte {
	k := &keystore.Keystore{}
	k.Remarks = string(f.remarks)
	k.Crypto.Version = uint8(f.version)
	k.Crypto.Cipher, k.Crypto.EntropyEnc, k.Crypto.KDF = string(f.cipher), string(f.ent), string(f.kdf)
	k.Crypto.PubParams, k.Crypto.PrivParams = string(f.pubp), string(f.privp)
	k.Crypto.CryptoKeyPubEnc, k.Crypto.CryptoKeyPrivEnc, k.Crypto.CryptoKeyEntropyEnc = string(f.cpub), string(f.cpriv), string(f.cent)
	k.HDpath.Purpose, k.HDpath.Coin, k.HDpath.Account, k.HDpath.ExternalChildNum, k.HDpath.InternalChildNum = f.purpose, f.coin, f.account, f.ex, f.in
	return k.Bytes()
}

func (f kscKs) fields() string {
	return fmt.Sprintf("%s %d %s %s %s %s %s %s %s %s %d %d %d %d %d", hexTok(f.remarks), f.version, hexTok(f.cipher), hexTok(f.ent),
		hexTok(f.kdf), hexTok(f.pubp), hexTok(f.privp), hexTok(f.cpub), hexTok(f.cpriv), hexTok(f.cent), f.purpose, f.coin, f.account, f.ex, f.in)
}

func (k *kscGen) hexField() []byte {
	return []byte(hex.EncodeToString(k.rb(k.pickInt(0, 1, 40, 72, 88))))
}

func (k *kscGen) baseKs() kscKs {
	return kscKs{remarks: []byte("my wallet"), cipher: []byte("Stream cipher"), ent: k.hexField(), kdf: []byte("scrypt"),
		privp: k.hexField(), cent: k.hexField(), purpose: 44, coin: 297, account: 1, ex: uint32(k.r.Intn(50)), in: uint32(k.r.Intn(5))}
}

var kscUtf8Valid = []string{"\u00e9", "\u00df", "\u4e2d\u6587\u94b1\u5305", "\u043a\u043e\u0448", "\U0001f600", "\u07ff", "\u0800", "\uffff",
	"\U00010000", "\U0010ffff", "a\u2027b", "\u202a", "\ud7ff", "\ue000", "\u0080", "\ufffd"}
var kscUtf8Special = []string{"\u2028", "\u2029", "x\u2028y\u2029z"}
var kscUtf8Invalid = []string{"\x80", "\xbf", "\xc0\x80", "\xc1\xbf", "\xc2", "\xc2\x41", "\xe0\x80\x80", "\xe0\x9f\xbf", "\xe2\x80", "\xe2\x28\xa1",
	"\xed\xa0\x80", "\xed\xbf\xbf", "\xf0\x80\x80\x80", "\xf0\x8f\xbf\xbf", "\xf0\x9f\x98", "\xf4\x90\x80\x80", "\xf5\x80\x80\x80", "\xff", "\xfe",
	"ok\xffok", "\xe2\x80\xa8\x80", "\xc3\xa9\xc3"}

func (k *kscGen) renderPart() {
	g := k.g
	g.Reset()
	for i := 0; i < g.Scale(20, 200); i++ {
		f := k.baseKs()
		f.remarks = []byte([]string{"", "my wallet", "Wallet #2 (cold)", "a b  c", "0123456789"}[k.r.Intn(5)])
		k.op("ksc-render-plain", "render %s", f.fields())
		k.op("ksc-parse-canonical", "parse %s", hexTok(f.doc()))
	}
	g.Reset()
	for c := 0; c < 128; c++ { // every ASCII code as a remark of its own and inside text
		f := k.baseKs()
		f.remarks = []byte{byte(c)}
		k.op("ksc-render-escape", "render %s", f.fields())
		k.op("ksc-parse-canonical", "parse %s", hexTok(f.doc()))
		if c%8 == 0 {
			g.Reset()
		}
	}
	for _, s := range []string{"<script>alert(\"x\")&amp;</script>", "back\\slash \"quoted\" \b\f\n\r\t", "\x00\x01\x1f\x7f", "tab\there", "a\x0bb\x0c"} {
		f := k.baseKs()
		f.remarks = []byte(s)
		k.op("ksc-render-escape", "render %s", f.fields())
		k.op("ksc-parse-canonical", "parse %s", hexTok(f.doc()))
	}
	g.Reset()
	for _, s := range kscUtf8Valid {
		f := k.baseKs()
		f.remarks = []byte("r:" + s + ".")
		k.op("ksc-render-utf8", "render %s", f.fields())
		k.op("ksc-parse-canonical", "parse %s", hexTok(f.doc()))
	}
	for _, s := range kscUtf8Special {
		f := k.baseKs()
		f.remarks = []byte(s)
		k.op("ksc-render-line-separators", "render %s", f.fields())
		k.op("ksc-parse-canonical", "parse %s", hexTok(f.doc()))
	}
	g.Reset()
	for _, s := range kscUtf8Invalid {
		f := k.baseKs()
		f.remarks = []byte(s)
		k.op("ksc-render-invalid-utf8", "render %s", f.fields())
		k.op("ksc-parse-canonical", "parse %s", hexTok(f.doc()))
		f.remarks = []byte("a" + s + "z")
		k.op("ksc-render-invalid-utf8", "render %s", f.fields())
		k.op("ksc-parse-canonical", "parse %s", hexTok(f.doc()))
	}
	for i := 0; i < g.Scale(60, 1000); i++ {
		if i%8 == 0 {
			g.Reset()
		}
		f := k.baseKs()
		f.remarks = k.rb(k.r.Intn(12))
		k.op("ksc-render-random-bytes", "render %s", f.fields())
		k.op("ksc-parse-canonical", "parse %s", hexTok(f.doc()))
	}
	g.Reset()
	for i := 0; i < g.Scale(40, 300); i++ {
		f := k.baseKs()
		f.version = k.pickInt(0, 0, 1, 2, 255)
		opt := func() []byte {
			if k.r.Intn(2) == 0 {
				return nil
			}
			return []byte([]string{"x", "Stream cipher", "scrypt", "00ff", "\"", "é"}[k.r.Intn(6)])
		}
		f.cipher, f.kdf, f.pubp, f.cpub, f.cpriv = opt(), opt(), opt(), opt(), opt()
		if k.r.Intn(3) == 0 {
			f.ent, f.privp, f.cent = nil, nil, nil
		}
		k.op("ksc-render-omitempty", "render %s", f.fields())
		k.op("ksc-parse-canonical", "parse %s", hexTok(f.doc()))
	}
	g.Reset()
	for _, n := range kscU32Edges {
		f := k.baseKs()
		f.purpose, f.coin, f.account, f.ex, f.in = n, kscU32Edges[k.r.Intn(len(kscU32Edges))], n, n, kscU32Edges[k.r.Intn(len(kscU32Edges))]
		k.op("ksc-render-counter-boundary", "render %s", f.fields())
		k.op("ksc-parse-canonical", "parse %s", hexTok(f.doc()))
	}
}

// probeParams: marshalled snacl parameters whose digest matches (or not) the probe passphrase; N=16, r=8, p=1
func (k *kscGen) probeParams(right bool) []byte {
	salt := k.rb(32)
	var sk snacl.SecretKey
	copy(sk.Parameters.Salt[:], salt)
	sk.Parameters.N, sk.Parameters.R, sk.Parameters.P = 16, 8, 1
	key, err := scrypt.Key([]byte(kscProbePass), salt, 16, 8, 1, 32)
	if err != nil {
		panic(err)
	}
	sk.Parameters.Digest = sha256.Sum256(key)
	if !right {
		sk.Parameters.Digest[k.r.Intn(32)] ^= byte(1 + k.r.Intn(255))
	}
	return sk.Marshal()
}

func (k *kscGen) importPart() {
	g := k.g
	g.Reset()
	hx := func(b []byte) []byte { return []byte(hex.EncodeToString(b)) }
	for i := 0; i < g.Scale(70, 500); i++ {
		if i%8 == 0 {
			g.Reset()
		}
		f := k.baseKs()
		f.privp = hx(k.probeParams(true))
		f.cent, f.ent = hx(k.rb(72)), hx(k.rb(56))
		net := f.coin
		pass := 1
		class := "ksc-import-past-decoding"
		switch i % 10 {
		case 0:
			net = []uint32{1, 0, 298, math.MaxUint32}[k.r.Intn(4)]
			class = "ksc-import-cointype"
		case 1:
			f.account = []uint32{0, 2, 256, math.MaxUint32}[k.r.Intn(4)]
			class = "ksc-import-accttype"
		case 2:
			bad := string(f.privp)
			f.privp = []byte([]string{bad[:len(bad)-1], "zz" + bad[2:], bad + "0", "0x" + bad, " " + bad[1:]}[k.r.Intn(5)])
			class = "ksc-import-hex-params"
		case 3:
			p := k.probeParams(true)
			f.privp = hx([][]byte{p[:87], append(p, 0), nil, p[:64], append(p, p...)}[k.r.Intn(5)])
			class = "ksc-import-malformed-params"
		case 4:
			f.privp = hx(k.probeParams(false))
			pass = 0
			class = "ksc-import-wrong-pass"
		case 5:
			f.cent = append(f.cent, 'f')
			class = "ksc-import-hex-cent"
		case 6:
			f.ent[k.r.Intn(len(f.ent))] = 'h'
			class = "ksc-import-hex-ent"
		case 7: // upper-case hex is accepted by the import
			f.privp = []byte(strings.ToUpper(string(f.privp)))
			f.cent = []byte(strings.ToUpper(string(f.cent)))
			class = "ksc-import-uppercase-hex"
		case 8: // a ciphertext shorter than its nonce: snacl.ErrMalformed from Decrypt, not from Unmarshal
			f.cent = hx(k.rb(k.r.Intn(24)))
			class = "ksc-import-short-ciphertext"
		}
		k.op(class, "import-probe %d %s %d", pass, f.fields(), net)
	}
}

// ---------------------------------------------------------------------------------------------- bucket histories

func (k *kscGen) scriptedHistories() {
	g := k.g
	// (1) a complete account bucket, written in the order of createManagerKeyScope / initAcctBucket, read back, exported
	for i := 0; i < g.Scale(6, 40); i++ {
		g.Reset()
		coin := []uint32{297, 1}[k.r.Intn(2)]
		pub, priv := k.rb(151), k.rb(151)
		k.op("ksc-acct-put", "put-coin %d", coin)
		k.op("ksc-acct-put", "put-acct 1 %s %s", hexTok(pub), hexTok(priv))
		k.op("ksc-acct-put", "put-branch %s %s", hexTok(k.rb(151)), hexTok(k.rb(151)))
		k.op("ksc-child-counter", "init-child")
		ex, in := k.u32(), k.u32()
		if i%2 == 0 {
			ex, in = uint32(1+k.r.Intn(30)), uint32(k.r.Intn(4))
		}
		k.op("ksc-child-counter", "update-child 1 %d", in)
		k.op("ksc-child-counter", "update-child 0 %d", ex)
		ver := k.pickInt(0, 0, 0, 1, 255)
		k.op("ksc-acct-put", "put-ver %d", ver)
		if i%3 != 0 {
			k.op("ksc-acct-put", "put-remark %s", hexTok([]byte([]string{"savings", "<b>&", "é中", "\xff\xfe", "line\nbreak"}[k.r.Intn(5)])))
		}
		k.op("ksc-acct-put", "put-mk %s %s", hexTok(k.rb(88)), hexTok(k.rb(88)))
		k.op("ksc-acct-put", "put-ent %s", hexTok(k.rb(k.pickInt(56, 60, 64, 68, 72))))
		k.op("ksc-acct-put", "put-ck %s %s %s", hexTok(k.rb(72)), hexTok(k.rb(72)), hexTok(k.rb(72)))
		k.op("ksc-acct-fetch", "fetch-coin")
		k.op("ksc-acct-fetch", "fetch-usage")
		k.op("ksc-acct-fetch", "fetch-acct 1")
		k.op("ksc-acct-fetch", "fetch-acct 2")
		k.op("ksc-acct-fetch", "fetch-branch")
		k.op("ksc-child-counter", "fetch-child")
		k.op("ksc-acct-fetch", "fetch-ver")
		k.op("ksc-acct-fetch", "fetch-remark")
		k.op("ksc-acct-fetch", "fetch-mk")
		k.op("ksc-acct-fetch", "fetch-ent")
		k.op("ksc-acct-fetch", "fetch-ck")
		k.op("ksc-export-full", "export 44 %d", coin)
		k.op("ksc-dump", "dump")
		if i%2 == 0 {
			k.op("ksc-reopen", "reopen")
			k.op("ksc-export-full", "export 44 %d", coin)
			k.op("ksc-dump", "dump")
		}
	}
	// (2) the child counters: every stored value is what the next start reads
	for i := 0; i < g.Scale(4, 30); i++ {
		g.Reset()
		k.op("ksc-child-missing-panic", "get-child %d", k.r.Intn(2))
		k.op("ksc-child-counter", "fetch-child")
		k.op("ksc-child-counter", "init-child")
		k.op("ksc-child-counter", "fetch-child")
		n := [2]uint32{}
		for j := 0; j < 12; j++ {
			b := k.r.Intn(2)
			switch k.r.Intn(4) {
			case 0:
				n[b] = kscU32Edges[k.r.Intn(len(kscU32Edges))]
				k.op("ksc-child-counter-boundary", "update-child %d %d", b, n[b])
			default:
				n[b] += uint32(1 + k.r.Intn(3))
				k.op("ksc-child-counter", "update-child %d %d", b, n[b])
			}
			k.op("ksc-child-counter", "get-child %d", b)
			if k.r.Intn(3) == 0 {
				k.op("ksc-reopen", "reopen")
				k.op("ksc-child-counter-restart", "get-child %d", b)
				k.op("ksc-child-counter-restart", "fetch-child")
			}
		}
		k.op("ksc-dump", "dump")
	}
	// (3) damaged values under the named keys (only a corrupted database holds them)
	names := []string{"account", "coinType", "exChildNum", "inChildNum"}
	for i := 0; i < g.Scale(6, 40); i++ {
		g.Reset()
		k.op("ksc-child-counter", "init-child")
		k.op("ksc-acct-put", "put-usage 1")
		k.op("ksc-acct-put", "put-coin 297")
		nm := names[k.r.Intn(len(names))]
		l := k.pickInt(1, 2, 3, 5, 8)
		k.op("ksc-raw-damage", "raw-put %s %s", hexTok([]byte(nm)), hexTok(k.rb(l)))
		k.op("ksc-raw-damage", "fetch-usage")
		k.op("ksc-raw-damage", "fetch-coin")
		k.op("ksc-raw-damage", "fetch-child")
		k.op("ksc-raw-damage", "get-child 0")
		k.op("ksc-raw-damage", "get-child 1")
		k.op("ksc-raw-damage", "export 44 297")
		// account rows
		acct := le32(1)
		row := [][]byte{
			cat([]byte{1}, le32(3), []byte{1, 2, 3}),                        // unsupported account type
			cat([]byte{0}, le32(3), []byte{1, 2, 3}),                        // BIP0044 record shorter than 8
			cat([]byte{0}, le32(9), le32(2), []byte{1, 2}, []byte{5, 0, 0}), // second length cut
			cat([]byte{0}, le32(12), le32(2), []byte{1, 2}, le32(9), []byte{7, 7}),
			{0, 0, 0},
			cat([]byte{0}, le32(200), k.rb(20)),
			cat([]byte{0}, le32(10), le32(1), []byte{9}, le32(1), []byte{8}, []byte{0xee}), // trailing byte inside the record: ignored
		}[k.r.Intn(7)]
		k.op("ksc-acct-damaged-row", "raw-put %s %s", hexTok(acct), hexTok(row))
		k.op("ksc-acct-damaged-row", "fetch-acct 1")
		k.op("ksc-raw-damage", "raw-del %s", hexTok([]byte(nm)))
		k.op("ksc-raw-damage", "fetch-usage")
		k.op("ksc-raw-damage", "fetch-child")
		k.op("ksc-dump", "dump")
	}
}

// (4) a public-key bucket: issued keys listed with their coordinates; a key shorter than 8 bytes panics the listing
func (k *kscGen) scriptedPk() {
	g := k.g
	for i := 0; i < g.Scale(4, 30); i++ {
		g.Reset()
		for j := 0; j < 6; j++ {
			k.op("ksc-pk-roundtrip", "put-pk %d %d %s", j%2, j/2, hexTok(k.rb(73)))
		}
		k.op("ksc-pk-boundary", "put-pk %d %d %s", kscU32Edges[k.r.Intn(len(kscU32Edges))], kscU32Edges[k.r.Intn(len(kscU32Edges))], hexTok(k.rb(73)))
		k.op("ksc-pk-roundtrip", "fetch-pks")
		k.op("ksc-reopen", "reopen")
		k.op("ksc-pk-roundtrip", "fetch-pks")
		k.op("ksc-pk-long-key", "raw-put %s %s", hexTok(k.rb(9+k.r.Intn(4))), hexTok(k.rb(5)))
		k.op("ksc-pk-long-key", "fetch-pks")
		k.op("ksc-pk-short-key-panic", "raw-put %s %s", hexTok(k.rb(1+k.r.Intn(7))), hexTok(k.rb(5)))
		k.op("ksc-pk-short-key-panic", "fetch-pks")
		k.op("ksc-dump", "dump")
	}
}

func (k *kscGen) acctHistory() {
	g := k.g
	g.Reset()
	n := 10 + k.r.Intn(25)
	for i := 0; i < n; i++ {
		switch k.r.Intn(30) {
		case 0:
			a, b := k.optBlob(), k.optBlob()
			class := "ksc-acct-put"
			if a == "-" || b == "-" || a == "nil" || b == "nil" {
				class = "ksc-nil-vs-empty"
			}
			k.op(class, "put-mk %s %s", a, b)
		case 1:
			k.op("ksc-acct-fetch", "fetch-mk")
		case 2:
			k.op("ksc-acct-put", "put-ver %d", k.pickInt(0, 1, 2, 127, 255))
		case 3:
			k.op("ksc-acct-fetch", "fetch-ver")
		case 4:
			if k.r.Intn(5) == 0 {
				k.op("ksc-nil-vs-empty", "put-ent -")
			} else {
				k.op("ksc-acct-put", "put-ent %s", hexTok(k.blob()))
			}
		case 5:
			k.op("ksc-acct-fetch", "fetch-ent")
		case 6:
			a, b, c := k.optBlob(), k.optBlob(), k.optBlob()
			class := "ksc-acct-put"
			if strings.Contains(a+b+c, "-") || strings.Contains(a+b+c, "nil") {
				class = "ksc-nil-vs-empty"
			}
			k.op(class, "put-ck %s %s %s", a, b, c)
		case 7:
			k.op("ksc-acct-fetch", "fetch-ck")
		case 8:
			k.op("ksc-acct-put", "put-usage %d", k.u32())
		case 9:
			k.op("ksc-acct-fetch", "fetch-usage")
		case 10:
			k.op("ksc-acct-put", "put-coin %d", k.u32())
		case 11:
			k.op("ksc-acct-fetch", "fetch-coin")
		case 12, 13:
			k.op("ksc-acct-put", "put-acct %d %s %s", []uint32{0, 1, 1, 1, 2, math.MaxUint32}[k.r.Intn(6)], hexTok(k.rb(k.pickInt(0, 1, 151))), hexTok(k.rb(k.pickInt(0, 1, 151))))
		case 14, 15:
			k.op("ksc-acct-fetch", "fetch-acct %d", []uint32{0, 1, 1, 1, 2, math.MaxUint32}[k.r.Intn(6)])
		case 16:
			if k.r.Intn(5) == 0 {
				k.op("ksc-nil-vs-empty", "put-remark -")
			} else {
				k.op("ksc-acct-put", "put-remark %s", hexTok(k.rb(1+k.r.Intn(20))))
			}
		case 17:
			k.op("ksc-acct-put", "del-remark")
		case 18:
			k.op("ksc-acct-fetch", "fetch-remark")
		case 19:
			a, b := hexTok(k.rb(k.pickInt(0, 1, 151))), hexTok(k.rb(k.pickInt(1, 151)))
			class := "ksc-acct-put"
			if a == "-" {
				class = "ksc-nil-vs-empty" // external key stored, then the internal one refused: the transaction is rolled back
			}
			k.op(class, "put-branch %s %s", a, b)
		case 20:
			k.op("ksc-acct-fetch", "fetch-branch")
		case 21:
			k.op("ksc-child-counter", "init-child")
		case 22, 23:
			k.op("ksc-child-counter", "update-child %d %d", k.r.Intn(2), k.u32())
		case 24:
			k.op("ksc-child-counter", "fetch-child")
		case 25:
			k.op("ksc-child-counter", "get-child %d", k.r.Intn(2))
		case 26:
			k.op("ksc-export-any", "export %d %d", k.pickInt(44, 0), k.pickInt(297, 1))
		case 27:
			k.op("ksc-dump", "dump")
		case 28:
			k.op("ksc-reopen", "reopen")
		case 29:
			k.op("ksc-raw-damage", "raw-del %s", hexTok([]byte([]string{"mpub", "cpub", "exChildNum", "inbPubKey", "account", "kver", "nope"}[k.r.Intn(7)])))
		}
	}
	k.op("ksc-export-any", "export 44 297")
	k.op("ksc-dump", "dump")
}

func (k *kscGen) pkHistory() {
	g := k.g
	g.Reset()
	n := 6 + k.r.Intn(16)
	for i := 0; i < n; i++ {
		switch k.r.Intn(8) {
		case 0, 1, 2, 3:
			br, ix := uint32(k.r.Intn(2)), uint32(k.r.Intn(12))
			class := "ksc-pk-roundtrip"
			if k.r.Intn(4) == 0 {
				br, ix = k.u32(), k.u32()
				class = "ksc-pk-boundary"
			}
			k.op(class, "put-pk %d %d %s", br, ix, hexTok(k.rb(73)))
		case 4, 5:
			k.op("ksc-pk-roundtrip", "fetch-pks")
		case 6:
			k.op("ksc-dump", "dump")
		case 7:
			switch k.r.Intn(4) {
			case 0:
				k.op("ksc-pk-short-key-panic", "raw-put %s %s", hexTok(k.rb(1+k.r.Intn(7))), hexTok(k.rb(5)))
				k.op("ksc-pk-short-key-panic", "fetch-pks")
				g.Reset()
			case 1:
				k.op("ksc-pk-long-key", "raw-put %s %s", hexTok(k.rb(9+k.r.Intn(4))), hexTok(k.rb(5)))
			case 2:
				k.op("ksc-nil-vs-empty", "put-pk %d %d -", k.r.Intn(2), k.r.Intn(5))
			case 3:
				k.op("ksc-reopen", "reopen")
			}
		}
	}
	k.op("ksc-pk-roundtrip", "fetch-pks")
}

func (k *kscGen) idHistory() {
	g := k.g
	g.Reset()
	var ids [][]byte
	n := 5 + k.r.Intn(12)
	for i := 0; i < n; i++ {
		switch k.r.Intn(6) {
		case 0, 1, 2:
			id := []byte("ac1q" + hex.EncodeToString(k.rb(19)))
			if k.r.Intn(6) == 0 {
				id = k.rb(1 + k.r.Intn(4))
			}
			if k.r.Intn(10) == 0 {
				id = nil
				k.op("ksc-nil-vs-empty", "put-id -")
				continue
			}
			ids = append(ids, id)
			k.op("ksc-id-set", "put-id %s", hexTok(id))
		case 3:
			k.op("ksc-id-set", "fetch-ids")
		case 4:
			if len(ids) > 0 {
				k.op("ksc-id-set", "del-id %s", hexTok(ids[k.r.Intn(len(ids))]))
			} else {
				k.op("ksc-id-set", "del-id %s", hexTok(k.rb(3)))
			}
		case 5:
			k.op("ksc-dump", "dump")
		}
	}
	k.op("ksc-id-set", "fetch-ids")
}
