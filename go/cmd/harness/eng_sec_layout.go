package main

// klayout: the LAYOUT of every value below the keystore bucket tree – the (bucket, key) set of `kkeys` with, per entry,
// what the byte-level writers of MW.Model.KsBytes predict for it: the length of the stored byte string, the value of the
// 4-byte little-endian counters / coin type / account number, and for the account row the record type and the lengths of
// its two sealed boxes as the REAL deserializeAccountRow / deserializeHDAccountKey return them.  Canonical:
//   aid/W:1  W/<name>:<len>  W/<counter name>=<uint32>  W/acct<n>:row(<type>,<pubLen>,<privLen>)  W/pub/<b>.<i>:<len>
// The Lean driver answers from the byte tree it builds with the byte-level writers (sealed box = plaintext + 40 bytes,
// extended keys as 111-character strings, 33-byte public keys, 32-byte crypto keys, 88-byte parameter blocks).

import (
	"encoding/binary"
	"encoding/hex"
	"fmt"
	"strings"

	"massnet.org/mass-wallet/masswallet/keystore"
)

var layoutU32 = map[string]bool{"exChildNum": true, "inChildNum": true, "account": true, "coinType": true}

func (x *secExec) layout() string {
	kvs, err := x.dumpDB()
	if err != nil {
		return "err"
	}
	var items []string
	for _, kv := range kvs {
		p := strings.Split(kv.path, "/")
		if p[0] != "k" {
			continue
		}
		if len(p) < 3 || p[1] != "km" {
			items = append(items, "?"+kv.path+"/"+hex.EncodeToString(kv.key))
			continue
		}
		switch {
		case p[2] == "aid" && len(p) == 3:
			n, ok := x.e.walletRev[string(kv.key)]
			if !ok {
				n = "?" + string(kv.key)
			}
			items = append(items, fmt.Sprintf("aid/%s:%d", n, len(kv.val)))
		case len(p) == 3:
			n, ok := x.e.walletRev[p[2]]
			if !ok {
				n = "?" + p[2]
			}
			switch {
			case printable(kv.key) && layoutU32[string(kv.key)] && len(kv.val) == 4:
				items = append(items, fmt.Sprintf("%s/%s=%d", n, string(kv.key), binary.LittleEndian.Uint32(kv.val)))
			case printable(kv.key):
				items = append(items, fmt.Sprintf("%s/%s:%d", n, string(kv.key), len(kv.val)))
			case len(kv.key) == 4:
				desc := "row(?)"
				if t, raw, err := keystore.VerifDeserializeAccountRow(kv.key, kv.val); err == nil {
					if pub, priv, err := keystore.VerifDeserializeHDAccountKey(kv.key, raw); err == nil {
						desc = fmt.Sprintf("row(%d,%d,%d)", t, len(pub), len(priv))
					}
				}
				items = append(items, fmt.Sprintf("%s/acct%d:%s", n, binary.LittleEndian.Uint32(kv.key), desc))
			default:
				items = append(items, n+"/?"+hex.EncodeToString(kv.key))
			}
		case len(p) == 4 && p[3] == "pub" && len(kv.key) == 8:
			n, ok := x.e.walletRev[p[2]]
			if !ok {
				n = "?" + p[2]
			}
			items = append(items, fmt.Sprintf("%s/pub/%d.%d:%d", n, binary.LittleEndian.Uint32(kv.key[:4]),
				binary.LittleEndian.Uint32(kv.key[4:]), len(kv.val)))
		default:
			items = append(items, "?"+kv.path+"/"+hex.EncodeToString(kv.key))
		}
	}
	return joinSorted(items)
}
