package main

// placeholder; replaced below
func genSec(g *Gen) {}
