package main

// Generators of engine sec.
//
//   C05 (genSecKeys): keystore life cycles – create (all entropy sizes, legal and illegal passphrases),
//   address issue, the secret-needing operations (export, reveal mnemonic, sign a hash, remove) with the
//   right passphrase and with wrong candidates derived from it (case flip, prefix, suffix, truncation,
//   empty, NUL-extended, the public passphrase, another wallet's passphrase, arbitrary bytes, over-long),
//   wrong attempts placed directly after successful ones, restarts (right / wrong public passphrase),
//   public passphrase changes, removal followed by re-import from a keystore file or from the mnemonic
//   (same or different passphrase), and after every few steps the observations: volatile lock state,
//   (bucket, key) set, harness-side decryption, raw scan for secrets.
//
//   C03 (genSecSign): chain histories of ledGen (forks, pending transactions, staking / binding
//   deposits) with signing attempts in between: hand-built transactions over 1..4 coins of one wallet
//   across its addresses (confirmed and pending previous outputs; standard, staking- and
//   binding-withdrawals), all six sighash flags and invalid ones, lock times / payloads, right and wrong
//   passphrases interleaved on the same transaction, and the refusal cases (foreign coin, spent coin,
//   unknown transaction, bad index, non-template output, staking sequence not met, SIGHASH_SINGLE without
//   matching output); plus wallet-built transactions (AutoCreateRawTransaction / CreateStakingTransaction /
//   CreateBindingTransaction) signed and checked by the self-checking op `autosign`.

import (
	"encoding/hex"
	"fmt"
	"math/rand"
	"sort"
	"strings"
)

func hexp(s string) string {
	if s == "" {
		return "-"
	}
	return hex.EncodeToString([]byte(s))
}

func genSec(g *Gen) {
	if g.Prop == "C03" {
		genSecSign(g)
		genVm(g) // script VM ops (eng_vm.go)
		return
	}
	genSecKeys(g)
	genKsc(g) // C05: the byte-level codecs of what the symbolic model stores (engine ksc lines in the same stream)
}

const passAlphabet = "abcdefghijklmnopqrstuvwxyzABCDEFGHIJKLMNOPQRSTUVWXYZ0123456789@#$%^&"

// freshPass: a legal passphrase; always contains a non-hex character (so that it can never occur by
// accident inside hex-encoded data scanned for secrets).
func freshPass(r *rand.Rand) string {
	// the legal lengths are 6..40: the minimum and the MAXIMUM are boundary cases of every length-bound
	// buffer on the way of a candidate passphrase, so both are generated often
	switch r.Intn(5) {
	case 0:
		return freshPassLen(r, 6)
	case 1:
		return freshPassLen(r, 40)
	}
	return freshPassLen(r, 7+r.Intn(33))
}

func freshPassLen(r *rand.Rand, n int) string {
	b := make([]byte, n)
	for i := range b {
		b[i] = passAlphabet[r.Intn(len(passAlphabet))]
	}
	b[r.Intn(3)] = "Zq@#"[r.Intn(4)]
	b[3+r.Intn(3)] = "GhK$"[r.Intn(4)]
	return string(b)
}

// wrongOf: a candidate different from `right`, derived from it or unrelated; returns (candidate, kind).
func wrongOf(r *rand.Rand, right string, others []string) (string, string) {
	for {
		var c, k string
		switch r.Intn(12) {
		case 0:
			b := []byte(right)
			i := r.Intn(len(b))
			switch {
			case b[i] >= 'a' && b[i] <= 'z':
				b[i] -= 32
			case b[i] >= 'A' && b[i] <= 'Z':
				b[i] += 32
			default:
				b[i] ^= 1
			}
			c, k = string(b), "flip"
		case 1:
			c, k = right+string(passAlphabet[r.Intn(len(passAlphabet))]), "suffix"
		case 2:
			c, k = right[:len(right)-1], "truncated"
		case 3:
			c, k = string(passAlphabet[r.Intn(len(passAlphabet))])+right, "prefix"
		case 4:
			c, k = "", "empty"
		case 5:
			c, k = right+"\x00", "nul"
		case 6:
			c, k = " "+right, "space"
		case 7:
			if len(others) > 0 {
				c, k = others[r.Intn(len(others))], "other-pass"
			} else {
				c, k = strings.ToUpper(right), "upper"
			}
		case 8:
			b := make([]byte, 1+r.Intn(24))
			r.Read(b)
			c, k = string(b), "bytes"
		case 9:
			c, k = strings.Repeat(right, 4), "long"
		case 10:
			c, k = freshPass(r), "fresh"
		default:
			c, k = right[1:], "tail"
		}
		if c != right {
			return c, k
		}
	}
}

type passCand struct{ kind, cand string }

// lengthCandidates: wrong candidates derived from the right passphrase that probe every length boundary:
// right‖suffix (1, 16, 40 bytes), right without its last byte, right‖NUL, one character case-flipped, empty,
// and candidates of total length 41, 56 and 80 bytes that START with the right passphrase (a comparison or a
// buffer that silently truncates a long candidate would accept them).
func lengthCandidates(r *rand.Rand, right string) []passCand {
	fill := func(n int) string {
		b := make([]byte, n)
		for i := range b {
			b[i] = passAlphabet[r.Intn(len(passAlphabet))]
		}
		return string(b)
	}
	fb := []byte(right)
	i := r.Intn(len(fb))
	switch {
	case fb[i] >= 'a' && fb[i] <= 'z':
		fb[i] -= 32
	case fb[i] >= 'A' && fb[i] <= 'Z':
		fb[i] += 32
	default:
		fb[i] ^= 1
	}
	cs := []passCand{
		{"suffix1", right + fill(1)}, {"suffix16", right + fill(16)}, {"suffix40", right + fill(40)},
		{"droplast", right[:len(right)-1]}, {"nul", right + "\x00"}, {"flip", string(fb)}, {"empty", ""},
	}
	for _, n := range []int{41, 56, 80} {
		cs = append(cs, passCand{fmt.Sprintf("len%d", n), right + fill(n-len(right))})
	}
	// right‖NUL…NUL up to the hash-size / block-size boundaries of the KDF's HMAC (a key shorter than the block is
	// zero-padded to it, so these candidates are the SAME HMAC key as the right passphrase; only an explicit
	// guard refuses them) and one byte beyond (seed C05-3: the guard skipped candidates of exactly 64 bytes)
	cs = append(cs, passCand{"nul2", right + "\x00\x00"})
	for _, n := range []int{32, 63, 64, 65, 128} {
		if n > len(right) {
			cs = append(cs, passCand{fmt.Sprintf("nulto%d", n), right + strings.Repeat("\x00", n-len(right))})
		}
	}
	return cs
}

type ksExport struct{ k, w, pass string }

type secKsGen struct {
	g       *Gen
	r       *rand.Rand
	pub     string
	names   []string // wallet names ever bound
	present map[string]bool
	pass    map[string]string
	ent     map[string]string // name -> entropy source (the name that created it)
	nExt    map[string]int
	addrs   map[string][]string
	addrIdx map[string]int
	exports []ksExport
	nW, nA  int
	nK      int
	forceLen int              // length of the next created private passphrase (0 = free choice)
	ctx     map[string]string // wallet -> context tag of the last life-cycle event (restart / chpub / reimport)
	lastOK  string            // wallet on which the previous op was a successful secret-needing op
}

func (k *secKsGen) op(class, f string, a ...interface{}) { k.g.Op(class, f, a...) }

func (k *secKsGen) presentWallets() []string {
	var ws []string
	for _, w := range k.names {
		if k.present[w] {
			ws = append(ws, w)
		}
	}
	return ws
}

func (k *secKsGen) otherPasses(w string) []string {
	var o []string
	for _, n := range k.names {
		if n != w {
			o = append(o, k.pass[n])
		}
	}
	o = append(o, k.pub)
	return o
}

func (k *secKsGen) create() {
	k.nW++
	w := fmt.Sprintf("W%d", k.nW)
	bits := []int{128, 160, 192, 224, 256, 0}[k.r.Intn(6)]
	switch k.r.Intn(12) {
	case 0: // illegal passphrase
		bad := []string{"short", "", "has space 123", "toolong" + strings.Repeat("x", 40), "ünïcode-pass1", "semi;colon123"}[k.r.Intn(6)]
		k.op("create-illegal", "kcreate %s %s %d", w, hexp(bad), bits)
		return
	case 1: // same as public passphrase
		k.op("create-pubpriv", "kcreate %s %s %d", w, hexp(k.pub), bits)
		return
	case 2: // bad entropy size
		k.op("create-badbits", "kcreate %s %s %d", w, hexp(freshPass(k.r)), []int{64, 100, 129, 288, 512}[k.r.Intn(5)])
		return
	}
	p := freshPass(k.r)
	if k.forceLen != 0 {
		p = freshPassLen(k.r, k.forceLen)
		k.forceLen = 0
	}
	switch len(p) {
	case 6:
		k.g.Stats["passlen-6"]++
	case 40:
		k.g.Stats["passlen-40"]++
	default:
		k.g.Stats["passlen-mid"]++
	}
	k.op(fmt.Sprintf("create-%d", bits), "kcreate %s %s %d", w, hexp(p), bits)
	if !validPassGo(k.pub) {
		return // creation fails: the public passphrase in force is illegal
	}
	k.names = append(k.names, w)
	k.present[w] = true
	k.pass[w] = p
	k.ent[w] = w
	k.nExt[w] = 0
	k.ctx[w] = "fresh"
}

func validPassGo(p string) bool {
	if len(p) < 6 || len(p) > 40 {
		return false
	}
	for _, c := range []byte(p) {
		if !strings.ContainsRune(passAlphabet, rune(c)) {
			return false
		}
	}
	return true
}

func (k *secKsGen) newAddr(w string) {
	if k.nExt[w] >= 8 {
		return
	}
	k.nA++
	a := fmt.Sprintf("A%d", k.nA)
	k.op("addr", "addr %s %s %s", w, a, pick(k.r, "std", "std", "stk"))
	k.addrs[w] = append(k.addrs[w], a)
	k.addrIdx[a] = k.nExt[w]
	k.nExt[w]++
}

// gate emits one secret-needing operation on w with the right or a wrong passphrase.
func (k *secKsGen) gate(w string, right bool) {
	p, kind := k.pass[w], "right"
	if !right {
		var wk string
		p, wk = wrongOf(k.r, k.pass[w], k.otherPasses(w))
		kind = "wrong"
		k.g.Stats["wrong-"+wk]++
	}
	tag := ""
	if !right && k.lastOK == w {
		k.g.Stats["wrong-right-after-success"]++
	}
	if c := k.ctx[w]; c != "fresh" && c != "" {
		tag = "-after-" + c
		k.g.Stats[kind+tag]++
	}
	ok := false
	switch k.r.Intn(5) {
	case 0, 1:
		k.nK++
		kn := fmt.Sprintf("K%d", k.nK)
		k.op("export-"+kind, "kexport %s %s %s", w, hexp(p), kn)
		if right {
			k.exports = append(k.exports, ksExport{kn, w, k.pass[w]})
		}
		ok = right
	case 2:
		k.op("mnemonic-"+kind, "kmnemonic %s %s", w, hexp(p))
		ok = right
	case 3:
		var usable []string
		for _, a := range k.addrs[w] {
			if k.addrIdx[a] < k.nExt[w] {
				usable = append(usable, a)
			}
		}
		if len(usable) == 0 {
			k.op("mnemonic-"+kind, "kmnemonic %s %s", w, hexp(p))
		} else {
			k.op("signhash-"+kind, "ksignhash %s %s %s", w, usable[k.r.Intn(len(usable))], hexp(p))
		}
		ok = right
	default:
		k.op("decrypt-"+kind, "kdecrypt %s %s", w, hexp(p))
		if !right {
			k.op("remove-wrong", "kremove %s %s", w, hexp(p))
		}
	}
	if ok {
		k.lastOK = w
	} else {
		k.lastOK = ""
	}
}

// ksLevel: the keystore-level entry point KeystoreManager.SignHash leaves the address manager UNLOCKED;
// while it is, every passphrase check compares the salted hash instead of deriving: wrong candidates must
// still be refused, the right one accepted, by every secret-needing operation; then lock again.
func (k *secKsGen) ksLevel(w string) {
	var usable []string
	for _, a := range k.addrs[w] {
		if k.addrIdx[a] < k.nExt[w] {
			usable = append(usable, a)
		}
	}
	if len(usable) == 0 {
		return
	}
	pickA := func() string { return usable[k.r.Intn(len(usable))] }
	if k.r.Intn(4) == 0 {
		p, _ := wrongOf(k.r, k.pass[w], k.otherPasses(w))
		k.op("kssign-wrong-locked", "kssign %s %s %s", w, pickA(), hexp(p))
	}
	k.op("kssign-right", "kssign %s %s %s", w, pickA(), hexp(k.pass[w]))
	k.op("q-kstate", "kstate")
	n := 1 + k.r.Intn(5)
	for i := 0; i < n; i++ {
		right := k.r.Intn(2) == 0
		p := k.pass[w]
		kind := "right"
		if !right {
			p, _ = wrongOf(k.r, k.pass[w], k.otherPasses(w))
			kind = "wrong"
		}
		switch k.r.Intn(6) {
		case 0:
			k.op("unlocked-kssign-"+kind, "kssign %s %s %s", w, pickA(), hexp(p))
		case 1:
			k.nK++
			kn := fmt.Sprintf("K%d", k.nK)
			k.op("unlocked-export-"+kind, "kexport %s %s %s", w, hexp(p), kn)
			if right {
				k.exports = append(k.exports, ksExport{kn, w, k.pass[w]})
			}
		case 2:
			k.op("unlocked-mnemonic-"+kind, "kmnemonic %s %s", w, hexp(p))
		case 3:
			k.op("unlocked-decrypt-"+kind, "kdecrypt %s %s", w, hexp(p))
			if !right {
				k.op("unlocked-remove-wrong", "kremove %s %s", w, hexp(p))
			}
		case 4:
			k.op("unlocked-chpriv", "kchpriv %s %s %s", w, hexp(p), hexp(freshPass(k.r)))
		default:
			k.op("unlocked-chpub", "kchpub %s %s", hexp(k.pub), hexp(k.pub+"x")) // same-prefix new public passphrase
			if validPassGo(k.pub+"x") && k.pub+"x" != k.pass[w] {
				ok := true
				for _, o := range k.presentWallets() {
					if k.pass[o] == k.pub+"x" {
						ok = false
					}
				}
				if ok {
					k.pub = k.pub + "x"
				}
			}
		}
		if k.r.Intn(3) == 0 {
			k.op("q-kstate", "kstate")
		}
	}
	switch k.r.Intn(3) {
	case 0:
		k.op("ksclear", "ksclear")
	case 1:
		// a wallet-level signing call locks every keystore again, even when it is refused
		p, _ := wrongOf(k.r, k.pass[w], k.otherPasses(w))
		k.op("signhash-wrong", "ksignhash %s %s %s", w, pickA(), hexp(p))
	default:
		k.op("signhash-right", "ksignhash %s %s %s", w, pickA(), hexp(k.pass[w]))
	}
	k.op("q-klocked", "klocked")
	k.lastOK = ""
}

// sweep: every length-boundary candidate against the gated operations, first with the keystore LOCKED
// (the candidate goes through scrypt), then inside the UNLOCKED window opened by a keystore-level signature
// (the candidate goes through the salted hash), then the right passphrase must still work.
func (k *secKsGen) sweep(w string, round int) {
	var usable []string
	for _, a := range k.addrs[w] {
		if k.addrIdx[a] < k.nExt[w] {
			usable = append(usable, a)
		}
	}
	if len(usable) == 0 || !k.present[w] {
		return
	}
	a := usable[k.r.Intn(len(usable))]
	right := k.pass[w]
	lenTag := "mid"
	if len(right) == 6 {
		lenTag = "6"
	} else if len(right) == 40 {
		lenTag = "40"
	}
	emit := func(state, op string, c passCand) {
		k.g.Stats["sweep-"+state+"-"+op]++
		k.g.Stats["sweep-len"+lenTag+"-"+state+"-"+c.kind]++
		cls := "sweep-" + state + "-" + c.kind
		switch op {
		case "export":
			k.op(cls, "kexport %s %s KX", w, hexp(c.cand))
		case "mnemonic":
			k.op(cls, "kmnemonic %s %s", w, hexp(c.cand))
		case "signhash":
			k.op(cls, "ksignhash %s %s %s", w, a, hexp(c.cand))
		case "kssign":
			k.op(cls, "kssign %s %s %s", w, a, hexp(c.cand))
		default: // the check-private-passphrase gate of RemoveWallet
			k.op(cls, "kremove %s %s", w, hexp(c.cand))
		}
	}
	cands := lengthCandidates(k.r, right)
	lockedOps := []string{"export", "mnemonic", "signhash", "kssign", "remove"}
	for i, c := range cands {
		emit("locked", lockedOps[(i+round)%len(lockedOps)], c)
	}
	k.op("q-klocked", "klocked")
	k.op("kssign-right", "kssign %s %s %s", w, a, hexp(right))
	k.op("q-kstate", "kstate")
	unlockedOps := []string{"export", "mnemonic", "kssign", "remove"}
	for i, c := range cands {
		if lenTag == "40" && strings.HasPrefix(c.cand, right) && len(c.cand) > len(right) {
			// maximum-length passphrase, longer candidate, unlocked window: every gated operation
			for _, op := range unlockedOps {
				emit("unlocked", op, c)
			}
			k.g.Stats["sweep-len40-unlocked-extension"]++
			continue
		}
		emit("unlocked", unlockedOps[(i+round)%len(unlockedOps)], c)
	}
	k.op("q-kstate", "kstate")
	k.op("unlocked-mnemonic-right", "kmnemonic %s %s", w, hexp(right))
	if k.r.Intn(2) == 0 {
		// a wallet-level signing call with a candidate ends the window (locks again even when refused)
		c := cands[k.r.Intn(len(cands))]
		emit("unlocked", "signhash", c)
	} else {
		k.op("ksclear", "ksclear")
	}
	k.op("q-klocked", "klocked")
	k.op("mnemonic-right", "kmnemonic %s %s", w, hexp(right))
	// a restore from the wallet's own sentence with one mis-typed word: refused, and the refusal must not echo the sentence
	kinds := []string{"cap", "comma", "num", "upper"}
	kind := kinds[(round+k.r.Intn(2))%len(kinds)]
	k.op("importmn-bad-"+kind, "kimportmnbad WX %s %s %s %d", hexp(right), w, kind, k.r.Intn(12))
	k.op("q-klocked", "klocked")
	k.lastOK = ""
}

func (k *secKsGen) observe(full bool) {
	k.op("q-klocked", "klocked")
	if full {
		k.op("q-kstate", "kstate")
		k.op("q-kkeys", "kkeys")
		k.op("q-klayout", "klayout")
		k.op("q-kscan", "kscan")
	}
}

func (k *secKsGen) restart() {
	ws := k.presentWallets()
	switch {
	case k.r.Intn(3) == 0 && len(ws) > 0:
		p, _ := wrongOf(k.r, k.pub, nil)
		if p == "" {
			p = "x"
		}
		k.op("restart-wrong-pub", "krestart %s", hexp(p))
	case k.r.Intn(8) == 0 && len(ws) == 0:
		// no keystore to check the passphrase against: any non-empty passphrase is accepted and becomes current
		p := freshPass(k.r)
		k.op("restart-new-pub-empty-db", "krestart %s", hexp(p))
		k.pub = p
	default:
		k.op("restart", "restart")
	}
	for _, w := range ws {
		k.ctx[w] = "restart"
	}
	k.lastOK = ""
}

func (k *secKsGen) chpub() {
	ws := k.presentWallets()
	switch c := k.r.Intn(6); {
	case c == 0:
		k.op("chpub-illegal", "kchpub %s %s", hexp(k.pub), hexp("bad pass"))
	case c == 1:
		k.op("chpub-same", "kchpub %s %s", hexp(k.pub), hexp(k.pub))
	case c == 2 && len(ws) > 0:
		k.op("chpub-equals-priv", "kchpub %s %s", hexp(k.pub), hexp(k.pass[ws[k.r.Intn(len(ws))]]))
	case c == 3 && len(ws) > 0:
		o, _ := wrongOf(k.r, k.pub, nil)
		k.op("chpub-wrong-old", "kchpub %s %s", hexp(o), hexp(freshPass(k.r)))
	default:
		n := freshPass(k.r)
		k.op("chpub-ok", "kchpub %s %s", hexp(k.pub), hexp(n))
		k.pub = n
		for _, w := range ws {
			k.ctx[w] = "chpub"
		}
	}
	k.lastOK = ""
}

func (k *secKsGen) removeAndMaybeReimport() {
	ws := k.presentWallets()
	if len(ws) == 0 {
		return
	}
	w := ws[k.r.Intn(len(ws))]
	// make sure a keystore file exists sometimes
	var ex *ksExport
	for i := range k.exports {
		if k.exports[i].w == w {
			ex = &k.exports[i]
		}
	}
	if ex == nil && k.r.Intn(2) == 0 {
		k.nK++
		kn := fmt.Sprintf("K%d", k.nK)
		k.op("export-right", "kexport %s %s %s", w, hexp(k.pass[w]), kn)
		k.exports = append(k.exports, ksExport{kn, w, k.pass[w]})
		ex = &k.exports[len(k.exports)-1]
	}
	if k.r.Intn(3) == 0 {
		p, _ := wrongOf(k.r, k.pass[w], k.otherPasses(w))
		k.op("remove-wrong", "kremove %s %s", w, hexp(p))
		k.observe(false)
	}
	k.op("remove-right", "kremove %s %s", w, hexp(k.pass[w]))
	k.present[w] = false
	k.lastOK = ""
	k.observe(true)
	switch c := k.r.Intn(6); {
	case c < 3 && ex != nil:
		if k.r.Intn(2) == 0 {
			p, _ := wrongOf(k.r, ex.pass, k.otherPasses(w))
			k.op("import-wrong", "kimport %s %s", ex.k, hexp(p))
			k.observe(false)
		}
		k.op("import-right", "kimport %s %s", ex.k, hexp(ex.pass))
		k.present[w] = true
		if k.nExt[w] == 0 {
			k.nExt[w] = 1
		}
		k.ctx[w] = "reimport"
		if k.r.Intn(3) == 0 {
			k.op("import-dup", "kimport %s %s", ex.k, hexp(ex.pass))
		}
	case c < 5:
		ext, in := k.r.Intn(5), k.r.Intn(3)
		if k.r.Intn(3) == 0 {
			// the same mnemonic under another passphrase is another wallet
			k.nW++
			nw := fmt.Sprintf("W%d", k.nW)
			p := freshPass(k.r)
			if k.r.Intn(4) == 0 {
				p = fmt.Sprintf("x%d", k.nW) // ImportWalletWithMnemonic does not validate the passphrase (distinct per wallet: the same passphrase would be the same identity)
			}
			k.op("importmn-newpass", "kimportmn %s %s %s %d %d", nw, hexp(p), w, ext, in)
			k.names = append(k.names, nw)
			k.present[nw] = true
			k.pass[nw] = p
			k.ent[nw] = k.ent[w]
			if ext == 0 {
				ext = 1
			}
			k.nExt[nw] = ext
			k.ctx[nw] = "reimport"
		} else {
			k.op("importmn-same", "kimportmn %s %s %s %d %d", w, hexp(k.pass[w]), w, ext, in)
			k.present[w] = true
			if ext == 0 {
				ext = 1
			}
			k.nExt[w] = ext
			k.ctx[w] = "reimport"
			if k.r.Intn(3) == 0 {
				k.op("importmn-dup", "kimportmn %s %s %s %d %d", w, hexp(k.pass[w]), w, ext, in)
			}
		}
	default: // stays removed: operations on it must answer "no such account"
		k.op("gate-on-removed", "kexport %s %s KX", w, hexp(k.pass[w]))
		k.op("gate-on-removed", "kmnemonic %s %s", w, hexp(k.pass[w]))
	}
	k.observe(true)
}

func genSecKeys(g *Gen) {
	nHist := g.Scale(70, 1000)
	for h := 0; h < nHist; h++ {
		k := &secKsGen{g: g, r: g.Rng, pub: pubPass, present: map[string]bool{}, pass: map[string]string{}, ent: map[string]string{},
			nExt: map[string]int{}, addrs: map[string][]string{}, addrIdx: map[string]int{}, ctx: map[string]string{}}
		g.Reset()
		if g.Rng.Intn(10) == 0 {
			k.restart() // restart (possibly with a new public passphrase) on an empty database
		}
		// the first wallet of the histories cycles through the minimum, a middle and the maximum legal length
		k.forceLen = []int{6, 7 + g.Rng.Intn(33), 40}[h%3]
		k.create()
		steps := 10 + g.Rng.Intn(g.Scale(25, 45))
		sweepAt := 2 + g.Rng.Intn(6)
		for s := 0; s < steps; s++ {
			if s == sweepAt {
				if ws := k.presentWallets(); len(ws) > 0 {
					w := ws[0]
					if k.nExt[w] == 0 {
						k.newAddr(w)
					}
					k.sweep(w, h/3)
				}
			}
			ws := k.presentWallets()
			c := g.Rng.Intn(40)
			switch {
			case len(ws) == 0 || (c < 3 && len(k.names) < 4):
				k.create()
			case c < 9:
				k.newAddr(ws[g.Rng.Intn(len(ws))])
			case c < 24:
				w := ws[g.Rng.Intn(len(ws))]
				k.gate(w, g.Rng.Intn(5) < 3)
				if k.lastOK == w && g.Rng.Intn(2) == 0 {
					k.gate(w, false) // a wrong attempt right after a successful one
				}
			case c < 26:
				k.ksLevel(ws[g.Rng.Intn(len(ws))])
			case c < 28:
				k.restart()
			case c < 31:
				k.chpub()
			case c < 34:
				k.removeAndMaybeReimport()
			case c < 36:
				w := ws[g.Rng.Intn(len(ws))]
				o, n := k.pass[w], freshPass(g.Rng)
				if g.Rng.Intn(3) == 0 {
					o, _ = wrongOf(g.Rng, k.pass[w], nil)
				}
				k.op("chpriv", "kchpriv %s %s %s", w, hexp(o), hexp(n))
			default:
				k.observe(g.Rng.Intn(2) == 0)
			}
			if g.Rng.Intn(3) == 0 {
				k.observe(g.Rng.Intn(3) == 0)
			}
		}
		// every present wallet: the right passphrase still works, a wrong one still does not
		for _, w := range k.presentWallets() {
			k.gate(w, false)
			k.gate(w, true)
		}
		k.observe(true)
	}
}

// ---------------------------------------------------------------- C03

var secAllFlags = []string{"ALL", "NONE", "SINGLE", "ALL|ANYONECANPAY", "NONE|ANYONECANPAY", "SINGLE|ANYONECANPAY"}

type signGen struct {
	l  *ledGen
	g  *Gen
	r  *rand.Rand
	nS int
}

func (s *signGen) rightPass(w string) string { return privPass(w) }

func (s *signGen) passFor(w string, right bool) string {
	if right {
		return hexp(s.rightPass(w))
	}
	var others []string
	for _, o := range s.l.wallets {
		if o != w {
			others = append(others, privPass(o))
		}
	}
	others = append(others, pubPass)
	p, k := wrongOf(s.r, s.rightPass(w), others)
	s.g.Stats["wrong-"+k]++
	return hexp(p)
}

// coinsOf: coins of wallet w in the node's tip view plus outputs of pool transactions (pending).
func (s *signGen) coinsOf(w string) (conf []gCoin, pend []gCoin) {
	l := s.l
	for _, c := range sortedCoins(l.tip().utxo) {
		if l.owner[c.addr] == w && c.amt > 0 {
			conf = append(conf, c)
		}
	}
	for _, p := range l.pool {
		for _, c := range outCoins(p, l.tip().height+1) {
			if l.owner[c.addr] == w && c.amt > 0 && c.cls != "raw" {
				pend = append(pend, c)
			}
		}
	}
	return
}

// ip2: a binding coin whose previous height has reached the history's MASSIP-2 warm-up height
func (s *signGen) ip2(c gCoin) bool {
	return s.l.warm > 0 && c.height >= s.l.warm && (c.cls == "bind" || c.cls == "bind22")
}

func (s *signGen) inSpec(c gCoin, seqMode int) string {
	spec := c.key()
	if c.cls == "stk" {
		switch seqMode {
		case 0:
			spec += fmt.Sprintf(":%d", c.frozen+1)
		case 1:
			spec += fmt.Sprintf(":%d", c.frozen+1+int64(s.r.Intn(5)))
		case 2:
			spec += fmt.Sprintf(":%d", c.frozen) // one short
		case 3:
			// default sequence (all ones): disable bit set, the engine refuses
		default:
			spec += fmt.Sprintf(":%d", (int64(1)<<38)|(c.frozen+1)) // time-based type bit
		}
	} else if s.ip2(c) {
		// binding output at or above the (lowered) MASSIP-2 warm-up height: the engine runs `<0xfffffffe> CSV DROP` first
		switch seqMode {
		case 0:
			spec += ":4294967294" // MASSIP0002BindingLockedPeriod, what the wallet itself sets
		case 1:
			spec += ":4294967295"
		case 2:
			spec += ":4294967293" // one short
		case 3:
			// default sequence: disable bit set
		default:
			spec += fmt.Sprintf(":%d", (int64(1)<<38)|4294967294) // time-based type bit
		}
	} else if seqMode == 1 {
		spec += fmt.Sprintf(":%d", s.r.Intn(1000))
	}
	return spec
}

// defineSignTx emits a `tx` op for a sign-only transaction (never mined) and returns its name.
func (s *signGen) defineSignTx(ins []string, nOut int, total int64) string {
	s.nS++
	name := fmt.Sprintf("S%d", s.nS)
	var outs []string
	for i := 0; i < nOut; i++ {
		amt := int64(1)
		if total > int64(nOut) {
			amt = total / int64(nOut+1)
		}
		dst := s.l.stranger()
		if s.r.Intn(3) == 0 {
			dst = s.l.someAddr(s.l.wallets[s.r.Intn(len(s.l.wallets))])
		}
		outs = append(outs, fmt.Sprintf("%s:%d", dst, amt))
	}
	o := strings.Join(outs, ";")
	if len(outs) == 0 {
		o = "-"
	}
	s.l.op("tx-sign", "tx %s %d %s %s", name, 900000+s.nS, strings.Join(ins, ";"), o)
	if s.r.Intn(3) == 0 { // lock time and payload enter the signature hash
		pl := make([]byte, s.r.Intn(30))
		s.r.Read(pl)
		s.l.op("tx-lock-payload", "txlock %s %d %s", name, []uint64{0, 1, 499999999, 500000000, 1 << 40, 1<<64 - 1}[s.r.Intn(6)], hexTok(pl))
	}
	return name
}

// attempts emits a short interleaving of right / wrong passphrase attempts on the same transaction.
func (s *signGen) attempts(w, t, class string, flags []string) {
	n := 1 + s.r.Intn(3)
	prevRight := false
	for i := 0; i < n; i++ {
		right := s.r.Intn(3) > 0
		fl := flags[s.r.Intn(len(flags))]
		kind := "right"
		if !right {
			kind = "wrong"
			if prevRight {
				s.g.Stats["wrong-right-after-success"]++
			}
		}
		s.l.op("sign-"+class+"-"+kind, "sign %s %s %s %s", w, s.passFor(w, right), fl, t)
		s.g.Stats["flag-"+fl]++
		prevRight = right
	}
	if s.r.Intn(2) == 0 {
		s.l.op("q-klocked", "klocked")
	}
}

// bindSeq: a MASSIP-2 binding withdrawal whose sequence does not meet the engine's rule (one short / default / type bit)
func (s *signGen) bindSeq(w string, all []gCoin) bool {
	for _, c := range all {
		if s.ip2(c) {
			t := s.defineSignTx([]string{s.inSpec(c, 2+s.r.Intn(3))}, 1, c.amt)
			s.attempts(w, t, "bind-seq", secAllFlags)
			return true
		}
	}
	return false
}

func (s *signGen) scenario() {
	l := s.l
	w := l.wallets[s.r.Intn(len(l.wallets))]
	conf, pend := s.coinsOf(w)
	all := append(append([]gCoin{}, conf...), pend...)
	if s.l.warm > 0 && len(s.l.queue) == 0 && s.r.Intn(2) == 0 {
		// C10 withdraw_sequence, MASSIP-2 branch: the sequence constructTxIn gives a binding coin at / above the warm-up height
		for _, c := range conf {
			if s.ip2(c) && c.amt >= 1000000 {
				s.l.op("q-wseq-"+c.cls+"-ip2", "wseq %s %s %d", w, c.key(), []int{0, 0, 7, 500000001}[s.r.Intn(4)])
				break
			}
		}
	}
	pickN := func(cs []gCoin, n int) []gCoin {
		cs = append([]gCoin{}, cs...)
		s.r.Shuffle(len(cs), func(i, j int) { cs[i], cs[j] = cs[j], cs[i] })
		if n > len(cs) {
			n = len(cs)
		}
		return cs[:n]
	}
	total := func(cs []gCoin) (t int64) {
		for _, c := range cs {
			t += c.amt
		}
		return
	}
	switch k := s.r.Intn(20); {
	case k < 9 && len(all) > 0: // signable: 1..4 coins of the wallet, enough outputs for SINGLE
		cs := pickN(all, 1+s.r.Intn(4))
		// withdrawals are rarer than standard coins: take one on board when there is one
		if s.r.Intn(3) == 0 {
		wanted:
			for _, want := range []string{"bind", "stk", "bind22"} {
				for _, c := range all {
					if c.cls == want {
						dup := false
						for _, x := range cs {
							if x.key() == c.key() {
								dup = true
							}
						}
						if !dup {
							cs[len(cs)-1] = c
						}
						break wanted
					}
				}
			}
		}
		var ins []string
		cls := map[string]bool{}
		addrs := map[string]bool{}
		hasPend := false
		for _, c := range cs {
			ins = append(ins, s.inSpec(c, s.r.Intn(2)))
			cls[c.cls] = true
			addrs[c.addr] = true
			for _, p := range pend {
				if p.key() == c.key() {
					hasPend = true
				}
			}
		}
		if cls["raw"] || cls["bind22"] && false {
			return
		}
		t := s.defineSignTx(ins, len(cs)+s.r.Intn(2), total(cs))
		class := "ok"
		s.g.Stats[fmt.Sprintf("sign-inputs-%d", len(cs))]++
		if len(addrs) > 1 {
			s.g.Stats["sign-multi-address"]++
		}
		for c := range cls {
			s.g.Stats["sign-class-"+c]++
		}
		for _, c := range cs {
			if s.ip2(c) {
				s.g.Stats["sign-class-bind-ip2"]++
			}
		}
		if hasPend {
			s.g.Stats["sign-pending-prev"]++
		}
		s.attempts(w, t, class, secAllFlags)
	case k < 11 && len(all) > 1: // SINGLE without a matching output for the last input(s)
		cs := pickN(all, 2+s.r.Intn(2))
		var ins []string
		for _, c := range cs {
			if c.cls == "raw" {
				return
			}
			ins = append(ins, s.inSpec(c, 0))
		}
		t := s.defineSignTx(ins, 1+s.r.Intn(len(cs)-1), total(cs))
		s.attempts(w, t, "fewer-outputs", secAllFlags)
	case k < 12 && len(all) > 0: // invalid flag
		cs := pickN(all, 1)
		t := s.defineSignTx([]string{s.inSpec(cs[0], 0)}, 1, total(cs))
		s.attempts(w, t, "badflag", []string{"BOGUS", "all", "ALL|", "SINGLE|ANYONE", "ALL|ANYONECANPAY|X", "0x81"})
	case k < 14: // staking (or MASSIP-2 binding) withdrawal with a sequence that does not meet the lock
		if s.l.warm > 0 && s.bindSeq(w, all) {
			return
		}
		for _, c := range all {
			if c.cls == "stk" {
				t := s.defineSignTx([]string{s.inSpec(c, 2+s.r.Intn(3))}, 1, c.amt)
				s.attempts(w, t, "stk-seq", secAllFlags)
				return
			}
		}
	case k < 15 && len(l.wallets) > 1 && len(all) > 0: // one input belongs to another wallet
		var o string
		for _, x := range l.wallets {
			if x != w {
				o = x
			}
		}
		oc, op := s.coinsOf(o)
		oall := append(oc, op...)
		if len(oall) == 0 {
			return
		}
		cs := pickN(all, 1)
		ins := []string{s.inSpec(cs[0], 0), s.inSpec(oall[s.r.Intn(len(oall))], 0)}
		if s.r.Intn(2) == 0 {
			ins[0], ins[1] = ins[1], ins[0]
		}
		t := s.defineSignTx(ins, 2, total(cs))
		s.attempts(w, t, "foreign-input", secAllFlags)
	case k < 16: // an output already spent on the chain
		for i := len(l.chain) - 1; i > 0 && i > len(l.chain)-6; i-- {
			for _, tx := range l.blocks[l.chain[i]].txs {
				for _, c := range tx.ins {
					if l.owner[c.addr] == w {
						t := s.defineSignTx([]string{s.inSpec(c, 0)}, 1, c.amt)
						s.attempts(w, t, "spent", secAllFlags)
						return
					}
				}
			}
		}
	case k < 17: // output of a transaction the wallet has never seen / a stranger's coin
		for _, c := range sortedCoins(l.tip().utxo) {
			if l.owner[c.addr] == "" && c.cls == "std" {
				t := s.defineSignTx([]string{c.key()}, 1, c.amt)
				s.attempts(w, t, "unknown-utxo", secAllFlags)
				return
			}
		}
	case k < 18 && len(all) > 0: // index beyond the outputs of a known (mined or pending) transaction
		c := all[s.r.Intn(len(all))]
		if len(pend) > 0 && s.r.Intn(2) == 0 {
			c = pend[s.r.Intn(len(pend))]
			s.g.Stats["sign-bad-index-pending"]++
		}
		idx := 7 + s.r.Intn(90)
		if d, ok := l.defined[c.tx]; ok && s.r.Intn(2) == 0 {
			idx = len(d.outs) // the first index that does not exist
			s.g.Stats["sign-bad-index-first-missing"]++
		}
		t := s.defineSignTx([]string{fmt.Sprintf("%s:%d", c.tx, idx)}, 1, c.amt)
		s.attempts(w, t, "bad-index", secAllFlags)
	default: // gate operations of the keystore interleaved with signing
		p := s.passFor(w, s.r.Intn(2) == 0)
		switch s.r.Intn(3) {
		case 0:
			s.nS++
			l.op("gate-export", "kexport %s %s KS%d", w, p, s.nS)
		case 1:
			l.op("gate-mnemonic", "kmnemonic %s %s", w, p)
		default:
			as := l.addrs[w]
			l.op("gate-signhash", "ksignhash %s %s %s", w, as[s.r.Intn(len(as))], p)
		}
		l.op("q-klocked", "klocked")
	}
}

// autoHistory: wallet-built transactions over large mature coins (deterministic: creation must succeed).
func genSecAuto(g *Gen) {
	r := g.Rng
	g.Reset()
	g.Op("params", "params 2 3")
	g.Op("wallet", "wallet W1")
	g.Op("wallet", "wallet W2")
	for i, a := range []string{"std", "std", "std", "stk"} {
		g.Op("addr", "addr W1 A%d %s", i+1, a)
	}
	g.Op("addr", "addr W2 A5 std")
	n := 0
	tx := func(f string, a ...interface{}) string {
		n++
		name := fmt.Sprintf("C%d", n)
		g.Op("tx", "tx %s %d cb %s", name, n, fmt.Sprintf(f, a...))
		return name
	}
	prev := "G"
	var w1Total int64 // everything W1 owns: three standard coins
	for b := 1; b <= 4; b++ {
		var c string
		if b == 1 {
			v1, v2, v3 := 50000000000+r.Int63n(1000000), 30000000000+r.Int63n(1000000), 20000000000+r.Int63n(1000000)
			w1Total = v1 + v2 + v3
			c = tx("A1:%d;A2:%d;A3:%d;A5:%d", v1, v2, v3, 40000000000)
		} else {
			c = tx("X1:%d", 100+r.Int63n(100))
		}
		g.Op("block", "block B%d %s %s", b, prev, c)
		g.Op("submit", "submit B%d", b)
		g.Op("notify", "notify B%d", b)
		prev = fmt.Sprintf("B%d", b)
	}
	right, wrong := hexp(privPass("W1")), func() string { p, _ := wrongOf(r, privPass("W1"), []string{privPass("W2"), pubPass}); return hexp(p) }
	payload := func() string {
		if r.Intn(2) == 0 {
			return "-"
		}
		b := make([]byte, 1+r.Intn(40))
		r.Read(b)
		return hex.EncodeToString(b)
	}
	// the keystore-level SignHash leaves the address manager unlocked (by design; its callers in package masswallet
	// clear afterwards): a wallet-level signing call that follows must still check ITS passphrase
	r1 := rand.New(rand.NewSource(g.Seed*15485863 + int64(g.N)))
	wp1, _ := wrongOf(r1, privPass("W1"), []string{privPass("W2"), pubPass})
	g.Op("tx-sign", "tx S0 900000 C1:0 X1:%d", 1000+r1.Int63n(1000000))
	g.Op("kssign-right", "kssign W1 A1 %s", right)
	g.Op("sign-wrong-while-unlocked", "sign W1 %s %s S0", hexp(wp1), secAllFlags[r1.Intn(len(secAllFlags))])
	g.Op("q-klocked", "klocked")
	for i := 0; i < g.Scale(14, 40); i++ {
		fl := secAllFlags[r.Intn(6)]
		if r.Intn(10) == 0 {
			fl = "BOGUS"
		}
		p := right
		kind := "right"
		if r.Intn(3) == 0 {
			p = wrong()
			kind = "wrong"
		}
		from := pick(r, "-", "-", "A1", "A2")
		lock := []int64{0, 0, 1, 5, 500000000, 1 << 40}[r.Intn(6)]
		switch r.Intn(6) {
		case 0, 1, 2:
			dst := fmt.Sprintf("X1:%d", 100000000+r.Int63n(5000000000))
			if r.Intn(2) == 0 {
				dst += fmt.Sprintf(";X2:%d", 100000000+r.Int63n(1000000000))
			}
			if r.Intn(3) == 0 {
				dst += fmt.Sprintf(";A5:%d", 100000000+r.Int63n(1000000000))
			}
			amt := int64(0)
			if r.Intn(3) == 0 {
				amt = 70000000000 // needs several coins
				dst = fmt.Sprintf("X1:%d", amt)
				from = "-"
			}
			g.Op("auto-pay-"+kind, "autosign W1 %s %s pay %s %s %d %d %s %s must", p, fl, from, dst, lock, []int64{0, 0, 100000, 2000000}[r.Intn(4)], pick(r, "-", "-", "A3"), payload())
		case 3, 4:
			g.Op("auto-stake-"+kind, "autosign W1 %s %s stake %s A4:%d:%d %d %d must", p, fl, from, 10000000000+r.Int63n(100000000), 3+r.Intn(20), lock, []int64{0, 100000}[r.Intn(2)])
		default:
			g.Op("auto-bind-"+kind, "autosign W1 %s %s bind %s A1:%d:%d %d must", p, fl, from, r.Intn(5), 100000000+r.Int63n(1000000000), []int64{0, 100000}[r.Intn(2)])
		}
		g.Stats["flag-"+fl]++
		if r.Intn(3) == 0 {
			g.Op("q-klocked", "klocked")
		}
	}
	// A signing call with the RIGHT passphrase that is refused at an input >= 1 after input 0 has been signed (SINGLE,
	// three inputs, one output: all of W1's coins, no change), then a WRONG passphrase on a signable transaction: the
	// first call must leave every keystore locked, the second must fail (own random source: the rest of the stream
	// does not move).
	r2 := rand.New(rand.NewSource(g.Seed*7919 + int64(g.N)))
	fee := int64(100000)
	g.Op("auto-abort-right", "autosign W1 %s %s pay - X1:%d 0 %d - - must", right, pick(r2, "SINGLE", "SINGLE|ANYONECANPAY"), w1Total-fee, fee)
	g.Op("q-klocked", "klocked")
	wp, _ := wrongOf(r2, privPass("W1"), []string{privPass("W2"), pubPass})
	g.Op("auto-wrong-after-abort", "autosign W1 %s %s pay - X1:%d 0 %d - - must", hexp(wp), pick(r2, "ALL", "NONE", "ALL|ANYONECANPAY"), 100000000+r2.Int63n(5000000000), fee)
	g.Op("q-klocked", "klocked")
	g.Op("q-kstate", "kstate")
	g.Op("q-kscan", "kscan")
}

// abortThenWrong (seeded/C03-5): (a) `sign` with the right passphrase on a transaction whose input 0 is a coin of the
// wallet and whose input 1 makes signWitnessTx return early (SINGLE without a matching output / an output the wallet
// has never seen), a lock query, then a wrong passphrase on a fully signable transaction — which must fail and return no
// signature; (b) the keystore-level SignHash (`kssign`, leaves the address manager unlocked by design) followed by a
// wallet-level signing call with a wrong passphrase: the passphrase is checked on EVERY signing call, unlocked or not.
// Uses its own random source so that the histories generated before and after it stay as they were.
func (s *signGen) abortThenWrong(r2 *rand.Rand) {
	l := s.l
	oldL, oldS := l.r, s.r
	l.r, s.r = r2, r2
	defer func() { l.r, s.r = oldL, oldS }()
	for _, w := range l.wallets {
		conf, pend := s.coinsOf(w)
		var all []gCoin
		for _, c := range append(append([]gCoin{}, conf...), pend...) {
			if c.cls == "std" {
				all = append(all, c)
			}
		}
		if len(all) == 0 {
			continue
		}
		r2.Shuffle(len(all), func(i, j int) { all[i], all[j] = all[j], all[i] })
		good := s.defineSignTx([]string{s.inSpec(all[0], 0)}, 1, all[0].amt)
		if len(all) >= 2 {
			ins := []string{s.inSpec(all[0], 0), s.inSpec(all[1], 0)}
			flag := pick(r2, "SINGLE", "SINGLE|ANYONECANPAY")
			if r2.Intn(2) == 0 {
				for _, c := range sortedCoins(l.tip().utxo) {
					if l.owner[c.addr] == "" && c.cls == "std" {
						ins[1] = c.key() // input 1: a stranger's coin (ErrUTXONotExists after input 0 was signed)
						flag = secAllFlags[r2.Intn(len(secAllFlags))]
						break
					}
				}
			}
			bad := s.defineSignTx(ins, 1, all[0].amt)
			l.op("sign-abort-right", "sign %s %s %s %s", w, s.passFor(w, true), flag, bad)
			l.op("q-klocked", "klocked")
			l.op("sign-wrong-after-abort", "sign %s %s %s %s", w, s.passFor(w, false), pick(r2, "ALL", "NONE", "ALL|ANYONECANPAY"), pick(r2, good, good, bad))
			l.op("q-klocked", "klocked")
		}
		l.op("kssign-right", "kssign %s %s %s", w, all[0].addr, s.passFor(w, true))
		l.op("sign-wrong-while-unlocked", "sign %s %s %s %s", w, s.passFor(w, false), secAllFlags[r2.Intn(len(secAllFlags))], good)
		l.op("q-klocked", "klocked")
		l.op("kssign-right", "kssign %s %s %s", w, all[0].addr, s.passFor(w, true))
		l.op("sign-right-while-unlocked", "sign %s %s %s %s", w, s.passFor(w, true), secAllFlags[r2.Intn(len(secAllFlags))], good)
		l.op("q-klocked", "klocked")
		return
	}
}

func genSecSign(g *Gen) {
	// op lines go to memory; at the end they are replayed on a real wallet and every `sign` line gets its oracle tokens
	defer secOracleCapture(g)()
	nHist := g.Scale(140, 1500)
	for h := 0; h < nHist; h++ {
		if h%9 == 0 {
			genSecAuto(g)
			continue
		}
		if h%9 == 4 { // stale wallet x block-file offsets, wrong passphrase x unresolvable input (gen_sec_stale.go)
			genSecStale(g)
			continue
		}
		l := newLedGen(g, "sec")
		if h%4 == 2 {
			l.warm = 2 + h/4%5 // every fourth history runs with a MASSIP-2 warm-up height of 2..6
		}
		l.start(1 + g.Rng.Intn(2))
		s := &signGen{l: l, g: g, r: g.Rng}
		steps := 10 + g.Rng.Intn(g.Scale(22, 50))
		for st := 0; st < steps; st++ {
			switch k := g.Rng.Intn(20); {
			case k < 8:
				l.extend()
			case k < 10:
				l.reorgTo(1+g.Rng.Intn(3), 1+g.Rng.Intn(2))
			case k < 14:
				l.recv()
			case k < 15:
				l.newAddr(l.wallets[g.Rng.Intn(len(l.wallets))])
			default:
				l.processOne()
			}
			if g.Rng.Intn(6) > 0 {
				l.drain()
			}
			if g.Rng.Intn(2) == 0 {
				s.scenario()
			}
		}
		l.drain()
		for i := 0; i < 3; i++ {
			s.scenario()
		}
		if l.warm > 0 {
			for _, w := range l.wallets {
				conf, pend := s.coinsOf(w)
				if s.bindSeq(w, append(conf, pend...)) {
					break
				}
			}
		}
		s.abortThenWrong(rand.New(rand.NewSource(g.Seed*104729 + int64(h))))
		l.op("q-klocked", "klocked")
		l.op("q-kscan", "kscan")
	}
}

var _ = sort.Strings
