package main

import (
	"encoding/hex"
	"math/rand"
)

// hexTok encodes bytes for the wire; the empty string is "-".
func hexTok(b []byte) string {
	if len(b) == 0 {
		return "-"
	}
	return hex.EncodeToString(b)
}

func unhexTok(s string) ([]byte, bool) {
	if s == "-" {
		return []byte{}, true
	}
	b, err := hex.DecodeString(s)
	return b, err == nil
}

func pick(r *rand.Rand, xs ...string) string { return xs[r.Intn(len(xs))] }

type stateless struct{ f func(args []string) string }

func (s stateless) Exec(a []string) string { return s.f(a) }
func (s stateless) Reset()                 {}
func (s stateless) Close()                 {}
