package main

import (
	"encoding/hex"
	"math/rand"
)

// hexTok encodes bytes for the wire; the empty string is "-".
func hexTok(b []byte) string {
	if len(b) == 0 {
		return "-"
	}
	return hex.EncodeToString(b)
}

func unhexTok(s string) ([]byte, bool) {
	if s == "-" {
		return []byte{}, true
	}
	b, err := hex.DecodeString(s)
	return b, err == nil
}

func pick(r *rand.Rand, xs ...string) string { return xs[r.Intn(len(xs))] }

type stateless struct{ f func(args []string) string }

// Exec runs a stateless op TWICE: the functions behind stateless engines are pure, so the second answer must equal the
// first (a hidden cache, a shared buffer or a mutated argument shows up as a difference and is reported in the output,
// where it disagrees with model and specification).
func (s stateless) Exec(a []string) string {
	first := s.f(append([]string(nil), a...))
	if second := s.f(append([]string(nil), a...)); second != first {
		return parCheck(s.f, a, first+" NONDET:"+second)
	}
	// … and must not depend on what runs at the same time (par.go: every 8th op re-runs the last 8 concurrently)
	return parCheck(s.f, a, first)
}
func (s stateless) Reset()                 {}
func (s stateless) Close()                 {}
