package main

// Engine race (C17b): API calls concurrently with the REAL follower and worker goroutines under the Go
// race detector.
//
// The harness binary the check builds has no race instrumentation, so the op `run` builds a second copy
// of this very program with `go build -race` (same module file, same repository under check) into the
// scratch directory and runs it as a child process (`harness racechild <scenario> <seed>`); the child sets
// up a WEnv, starts the wallet for real (WalletManager.Start over a real Blockchain) and runs the
// scenario's goroutines. Race reports (stderr of the child) whose two stacks both touch code of
// massnet.org/mass-wallet are canonicalised to the pair of innermost mass-wallet functions.
//
// Ops:
//	run <scenario> <seed>      -> clean | RACE f|g[;f|g…] | err-<what>
// Scenarios:
//	api      several API goroutines (NewAddress, balances, coin list, fee estimation, histories, wallet
//	         list, UseWallet) while the follower processes block notifications
//	tasks    the same plus an import and a removal running in the worker
//	rmfail   a removal whose final database commit fails (storage fault) while API calls read the
//	         keystore tables
//	addrs    address issuance beside fee estimation and beside the script-hash lookups that run outside any
//	         wallet-db write transaction (API IsAddressInCurrent / GetTxHistory(addr))
//	stop     API calls and queued blocks while Stop runs

import (
	"bytes"
	"fmt"
	"os"
	"os/exec"
	"path/filepath"
	"regexp"
	"runtime"
	"sort"
	"strconv"
	"strings"
	"sync"
	"sync/atomic"
	"time"

	"github.com/massnetorg/mass-core/consensus"
	"github.com/massnetorg/mass-core/logging"
	"github.com/massnetorg/mass-core/massutil"
	"massnet.org/mass-wallet/masswallet"
	mwdb "massnet.org/mass-wallet/masswallet/db"
	"massnet.org/mass-wallet/masswallet/keystore"
)

func init() {
	if len(os.Args) >= 4 && os.Args[1] == "racechild" {
		seed, _ := strconv.ParseInt(os.Args[3], 10, 64)
		// this init runs before wenv.go's: set the same process-wide parameters first
		keystore.DefaultScryptOptions.N = 16
		logging.Init(os.TempDir(), "verif-harness", "fatal", 1, false)
		raceChild(os.Args[2], seed)
		os.Exit(0)
	}
	register(&Engine{Name: "race", Gen: genRace, NewExec: func() Exec { x := &raceExec{}; x.build(); return x }})
}

type raceExec struct {
	bin string
	err string
}

func (x *raceExec) Reset() {}
func (x *raceExec) Close() {}

// build compiles the race-instrumented twin once per exec process.
func (x *raceExec) build() {
	if x.bin != "" || x.err != "" {
		return
	}
	_, self, _, ok := runtime.Caller(0)
	if !ok {
		x.err = "err-nosource"
		return
	}
	modRoot := filepath.Dir(filepath.Dir(filepath.Dir(self))) // …/go
	cwd, _ := os.Getwd()
	out := filepath.Join(cwd, "harness-race")
	args := []string{"build", "-race", "-tags", "verif"}
	repo := os.Getenv("VERIF_REPO")
	if repo != "" && repo != "/repo" {
		mod, err := os.ReadFile(filepath.Join(modRoot, "go.mod"))
		if err != nil {
			x.err = "err-gomod"
			return
		}
		mf := filepath.Join(cwd, "race.go.mod")
		os.WriteFile(mf, bytes.ReplaceAll(mod, []byte("=> /repo"), []byte("=> "+repo)), 0644)
		sum, _ := os.ReadFile(filepath.Join(modRoot, "go.sum"))
		os.WriteFile(filepath.Join(cwd, "race.go.sum"), sum, 0644)
		args = append(args, "-modfile="+mf)
	}
	args = append(args, "-o", out, "./cmd/harness")
	cmd := exec.Command("go", args...)
	cmd.Dir = modRoot
	cmd.Env = append(os.Environ(), "GOFLAGS=-mod=mod", "GOPROXY=off", "GOSUMDB=off", "GOTOOLCHAIN=local", "CGO_ENABLED=1")
	if b, err := cmd.CombinedOutput(); err != nil {
		if verifDebug {
			fmt.Fprintln(os.Stderr, "  [race build]", string(b))
		}
		x.err = "err-racebuild"
		return
	}
	x.bin = out
}

var raceFrameRe = regexp.MustCompile(`^\s+(massnet\.org/mass-wallet/[^\s(]+(?:\(\*?[A-Za-z]+\))?[^\s(]*)\(`)

// raceCanon turns the race detector's report into sorted "f|g" pairs of innermost mass-wallet frames.
func raceCanon(out string) []string {
	set := map[string]bool{}
	for _, rep := range strings.Split(out, "WARNING: DATA RACE")[1:] {
		if i := strings.Index(rep, "=================="); i >= 0 {
			rep = rep[:i]
		}
		// the report has stanzas: the two conflicting accesses first ("Read at"/"Write at"/"Previous …")
		var tops []string
		for _, st := range strings.Split(rep, "\n\n") {
			head := strings.TrimSpace(st)
			if !(strings.HasPrefix(head, "Read at") || strings.HasPrefix(head, "Write at") ||
				strings.HasPrefix(head, "Previous read at") || strings.HasPrefix(head, "Previous write at") ||
				strings.HasPrefix(head, "Atomic") || strings.HasPrefix(head, "Previous atomic")) {
				continue
			}
			top := ""
			for _, ln := range strings.Split(st, "\n") {
				t := strings.TrimSpace(ln)
				if t == "" || strings.HasPrefix(t, "/") || strings.HasPrefix(t, "runtime.") || strings.Contains(t, " at 0x") {
					continue // file:line lines; the runtime's map / slice helpers
				}
				// the innermost non-runtime frame is the access itself: ours only if it is mass-wallet code
				if strings.HasPrefix(t, "massnet.org/mass-wallet/") {
					if j := strings.LastIndex(t, "("); j > 0 {
						t = t[:j]
					}
					top = strings.TrimPrefix(t, "massnet.org/mass-wallet/")
				}
				break
			}
			tops = append(tops, top)
		}
		if len(tops) < 2 || tops[0] == "" || tops[1] == "" {
			continue // a race inside a library (or the harness) only: not ours to judge
		}
		pr := []string{tops[0], tops[1]}
		sort.Strings(pr)
		set[pr[0]+"|"+pr[1]] = true
	}
	var outp []string
	for k := range set {
		outp = append(outp, k)
	}
	sort.Strings(outp)
	return outp
}

func (x *raceExec) Exec(a []string) string {
	if len(a) != 3 || a[0] != "run" {
		return "bad-op"
	}
	x.build()
	if x.err != "" {
		return x.err
	}
	cwd, _ := os.Getwd()
	cmd := exec.Command(x.bin, "racechild", a[1], a[2])
	cmd.Dir = cwd
	cmd.Env = append(os.Environ(), "GORACE=halt_on_error=0 history_size=3")
	var buf bytes.Buffer
	cmd.Stdout = &buf
	cmd.Stderr = &buf
	done := make(chan error, 1)
	if err := cmd.Start(); err != nil {
		return "err-childstart"
	}
	go func() { done <- cmd.Wait() }()
	select {
	case <-done:
	case <-time.After(240 * time.Second): // the scenarios bound themselves at ~30 s; this is slack for a loaded machine
		cmd.Process.Kill()
		return "err-childtimeout"
	}
	out := buf.String()
	races := raceCanon(out)
	if verifDebug || os.Getenv("VERIF_RACE_LOG") != "" {
		os.WriteFile(filepath.Join(cwd, "race-"+a[1]+"-"+a[2]+".log"), []byte(out), 0644)
	}
	if len(races) > 0 {
		os.WriteFile(filepath.Join(cwd, "race-"+a[1]+"-"+a[2]+".log"), []byte(out), 0644)
		return "RACE " + strings.Join(races, ";")
	}
	if !strings.Contains(out, "racechild-done") {
		if strings.Contains(out, "fatal error: concurrent map") {
			return "RACE fatal-concurrent-map-access"
		}
		if verifDebug {
			fmt.Fprintln(os.Stderr, "  [racechild]", out)
		}
		return "err-childfailed"
	}
	return "clean"
}

func genRace(g *Gen) { genRaceOps(g, "run") }

func genRaceOps(g *Gen, verb string) {
	// a race report is a matter of timing: the scenario with the injected fault is repeated (measured
	// detection rate of the unlocked keystore-table repair before its fix: about one run in two)
	// (first in the stream: a history-based check stops at the first disagreement of a stream)
	for i := 0; i < g.Scale(3, 8); i++ {
		g.Reset()
		g.Op("race-rmfail", "%s rmfail %d", verb, g.Seed*100+int64(i))
	}
	n := g.Scale(1, 3)
	for i := 0; i < n; i++ {
		for _, s := range []string{"addrs", "api", "tasks", "stop"} {
			g.Reset()
			g.Op("race-"+s, "%s %s %d", verb, s, g.Seed*100+int64(i))
		}
	}
}

// ---------------------------------------------------------------- the child (race-instrumented)

// raceFailDB fails the k-th Commit made from the worker goroutine (storage fault), once armed.
type raceFailDB struct {
	inner mwdb.DB
	armed *int32
}

func (d *raceFailDB) Close() error                               { return d.inner.Close() }
func (d *raceFailDB) BeginReadTx() (mwdb.ReadTransaction, error) { return d.inner.BeginReadTx() }
func (d *raceFailDB) BeginTx() (mwdb.DBTransaction, error) {
	tx, err := d.inner.BeginTx()
	if err != nil {
		return nil, err
	}
	return &raceFailTx{DBTransaction: tx, d: d}, nil
}

type raceFailTx struct {
	mwdb.DBTransaction
	d         *raceFailDB
	sawDelete bool
}

// the transaction that deletes a keystore bucket is the FINAL round of a removal
type raceFailBucket struct {
	isoBktI
	t *raceFailTx
}

func (b *raceFailBucket) DeleteBucket(name string) error {
	b.t.sawDelete = true
	return b.isoBktI.DeleteBucket(name)
}

func (t *raceFailTx) FetchBucket(meta mwdb.BucketMeta) mwdb.Bucket {
	b := t.DBTransaction.FetchBucket(meta)
	if b == nil {
		return nil
	}
	return &raceFailBucket{isoBktI: b, t: t}
}

func (t *raceFailTx) Commit() error {
	// armed = n > 0: fail the next n final-round commits of a removal
	if t.sawDelete && atomic.LoadInt32(t.d.armed) > 0 && raceCallerRole() == "worker" {
		atomic.AddInt32(t.d.armed, -1)
		t.DBTransaction.Rollback()
		return fmt.Errorf("injected storage fault")
	}
	return t.DBTransaction.Commit()
}

func raceCallerRole() string {
	pcs := make([]uintptr, 64)
	n := runtime.Callers(2, pcs)
	frames := runtime.CallersFrames(pcs[:n])
	for {
		f, more := frames.Next()
		if strings.HasSuffix(f.Function, "/masswallet.worker") {
			return "worker"
		}
		if strings.HasSuffix(f.Function, "/masswallet.handle") {
			return "handler"
		}
		if !more {
			return "other"
		}
	}
}

func raceChild(scn string, seed int64) {
	must := func(what string, r string) {
		if r != "ok" {
			fmt.Println("racechild-setup-failed", what, r)
			os.Exit(3)
		}
	}
	var armed int32
	px := &protoExec{}
	g := &protoGate{}
	px.g = g
	px.e = newWEnvWrapped(func(e *WEnv) {
		e.wrapDB = func(d mwdb.DB) mwdb.DB { return &raceFailDB{inner: d, armed: &armed} }
	})
	px.ext = map[string]string{}
	e := px.e
	defer e.Close()
	consensus.CoinbaseMaturity = 2
	consensus.MinFrozenPeriod = 3
	must("wallet", ledOp(e, []string{"wallet", "W1"}))
	must("addr", ledOp(e, []string{"addr", "W1", "A1", "std"}))
	must("wallet", ledOp(e, []string{"wallet", "W2"}))
	must("addr", ledOp(e, []string{"addr", "W2", "A2", "std"}))
	must("ext", px.extWallet("I1"))
	nPre, nLive := 4, 6
	prev := "G"
	for i := 1; i <= nPre+nLive; i++ {
		must("tx", ledOp(e, []string{"tx", fmt.Sprintf("C%d", i), strconv.Itoa(i), "cb", fmt.Sprintf("A1:%d;A2:%d;I1:%d", 1000+i, 500+i, 200+i)}))
		must("block", ledOp(e, []string{"block", fmt.Sprintf("B%d", i), prev, fmt.Sprintf("C%d", i)}))
		must("submit", ledOp(e, []string{"submit", fmt.Sprintf("B%d", i)}))
		prev = fmt.Sprintf("B%d", i)
	}
	for i := 1; i <= nPre; i++ {
		must("notify", ledOp(e, []string{"notify", fmt.Sprintf("B%d", i)}))
	}
	// the node is ahead of the wallet; Start catches up to the node tip, so announce the rest as "live"
	// notifications by rewinding nothing: the follower simply sees them again as already-synced tips.
	must("use", errTok(e.Use("W1")))
	must("start", px.start())
	wm := e.wm
	w1, w2 := e.wallets["W1"], e.wallets["W2"]
	_ = w2
	var live []*blockInfo
	for i := nPre + 1; i <= nPre+nLive; i++ {
		live = append(live, e.blocks[fmt.Sprintf("B%d", i)])
	}
	stakeAddr := e.addrs["A1"].enc
	var wg sync.WaitGroup
	iters := 25
	if scn == "stop" {
		iters = 10
	}
	run := func(f func(i int)) {
		wg.Add(1)
		go func() {
			defer wg.Done()
			defer func() { recover() }()
			for i := 0; i < iters; i++ {
				f(i)
			}
		}()
	}
	// follower input
	run(func(i int) {
		wm.VerifOnBlockConnected(live[i%len(live)].msg)
		time.Sleep(time.Millisecond)
	})
	// API goroutines
	run(func(i int) { wm.NewAddress(massutil.AddressClassWitnessV0) })
	run(func(i int) {
		wm.WalletBalance(1, true)
		wm.GetUtxo(nil)
		wm.AddressBalance(1, nil)
	})
	run(func(i int) {
		amt, _ := massutil.NewAmountFromInt(100)
		wm.EstimateStakingTxFee([]*masswallet.StakingTxOut{{Address: stakeAddr, Amount: amt, FrozenPeriod: 10}}, 0, massutil.ZeroAmount(), "", "")
		wm.GetStakingHistory(false)
		wm.GetBindingHistory(false)
	})
	run(func(i int) {
		wm.Wallets()
		wm.SyncedTo()
		wm.UseWallet(w1)
		wm.GetAddresses(massutil.AddressClassWitnessV0)
	})
	// cheap readers of the keystore tables (no database access in between, so nothing orders them with the
	// worker by accident)
	stopSpin := make(chan struct{})
	nSpin, every := 2, 4
	if v := os.Getenv("VERIF_RACE_SPIN"); v != "" {
		fmt.Sscanf(v, "%d,%d", &nSpin, &every)
	}
	var wgSpin sync.WaitGroup
	for k := 0; k < nSpin; k++ {
		wgSpin.Add(1)
		go func() {
			defer wgSpin.Done()
			for n := 0; ; n++ {
				select {
				case <-stopSpin:
					return
				default:
					wm.CurrentWallet()
					if n%every == 0 {
						runtime.Gosched()
					}
				}
			}
		}()
	}
	// every scenario loop also stops at this deadline: under a heavily loaded machine the race-instrumented child is slow,
	// and a scenario that outlives the op watchdog would look like a HANG of the unchanged code (seen once in a background
	// sweep with four other checks running)
	raceDeadline := time.Now().Add(30 * time.Second)
	switch scn {
	case "addrs":
		// address issuance beside fee estimation (which lists the wallet's addresses without WalletManager.mu)
		for k := 0; k < 6; k++ {
			wg.Add(1)
			go func() {
				defer wg.Done()
				defer func() { recover() }()
				amt, _ := massutil.NewAmountFromInt(100)
				for i := 0; i < 400 && time.Now().Before(raceDeadline); i++ {
					// frozen period below the minimum: returns right after listing the addresses
					wm.EstimateStakingTxFee([]*masswallet.StakingTxOut{{Address: stakeAddr, Amount: amt, FrozenPeriod: 1}}, 0, massutil.ZeroAmount(), "", "")
				}
			}()
		}
		// script-hash lookups in the keystore's address table by API calls that take neither WalletManager.mu nor a
		// write transaction, while addresses are issued up to the gap limit (seeded/C17-5: both sides under a READ lock)
		a1 := e.addrs["A1"].stdEnc
		for k := 0; k < 2; k++ {
			wg.Add(1)
			go func() {
				defer wg.Done()
				defer func() { recover() }()
				for i := 0; i < 300 && time.Now().Before(raceDeadline); i++ {
					wm.IsAddressInCurrent(a1)
					if i%8 == 0 {
						wm.GetTxHistory(1, a1)
					}
				}
			}()
		}
		wg.Add(1)
		go func() {
			defer wg.Done()
			defer func() { recover() }()
			for i := 0; i < 24; i++ {
				wm.NewAddress(massutil.AddressClassWitnessV0)
				time.Sleep(200 * time.Microsecond)
			}
		}()
	case "tasks":
		wg.Add(1)
		go func() {
			defer wg.Done()
			defer func() { recover() }()
			time.Sleep(5 * time.Millisecond)
			wm.RemoveWallet(w2, privPass("W2"))
			wm.ImportWalletWithMnemonic(&keystore.WalletParams{Mnemonic: px.ext["I1"], PrivatePassphrase: []byte(privPass("I1")),
				ExternalIndex: 1, InternalIndex: 0, AddressGapLimit: 3})
		}()
	case "rmfail":
		// the final round of the removal (the one that deletes the keystore) fails twice, then succeeds. The
		// removal is queued once the API goroutines are done, so that only the cheap readers (which nothing
		// orders with the worker by accident) run beside the worker's repair of the keystore table.
		wg.Wait()
		atomic.StoreInt32(&armed, 2)
		wm.RemoveWallet(w2, privPass("W2"))
	}
	spinUntil := func(cond func() bool, d time.Duration) {
		deadline := time.Now().Add(d)
		for time.Now().Before(deadline) && !cond() {
			time.Sleep(10 * time.Millisecond)
		}
	}
	if scn != "stop" {
		// let the worker finish what it has (the spinners keep reading meanwhile)
		spinUntil(func() bool {
			s := e.Wallets()
			return !strings.Contains(s, "importing") && (!strings.Contains(s, "removing") || scn == "rmfail")
		}, 10*time.Second)
		if scn == "rmfail" {
			// wait for the injected fault (and the worker's repair of the keystore table that follows it)
			spinUntil(func() bool { return atomic.LoadInt32(&armed) < 2 }, 10*time.Second)
			time.Sleep(300 * time.Millisecond)
			fmt.Println("racechild-faults-left", atomic.LoadInt32(&armed), e.Wallets())
		}
	}
	close(stopSpin)
	wgSpin.Wait()
	wg.Wait()
	if scn == "stop" {
		for _, b := range live {
			wm.VerifOnBlockConnected(b.msg)
		}
	}
	r := px.stopWithWatchdog(nil)
	fmt.Println("racechild-done", r)
}
