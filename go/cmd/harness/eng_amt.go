package main

// Engine amt (C15): api.StringToAmount, cmd/masswalletcli/cmd.stringToAmount, api.AmountToString, masswallet.AmountToString.

import (
	"fmt"
	"math"
	"math/big"
	"strconv"
	"strings"

	"github.com/massnetorg/mass-core/massutil"
	"massnet.org/mass-wallet/api"
	clicmd "massnet.org/mass-wallet/cmd/masswalletcli/cmd"
	"massnet.org/mass-wallet/masswallet"
)

func init() {
	register(&Engine{Name: "amt", Gen: genAmt, NewExec: func() Exec { return stateless{execAmt} }})
}

func execAmt(a []string) string {
	switch {
	case len(a) == 2 && a[0] == "parse":
		b, ok := unhexTok(a[1])
		if !ok {
			return "bad-op"
		}
		amt, err := api.StringToAmount(string(b))
		if err != nil {
			return "err"
		}
		return "ok " + strconv.FormatUint(amt.UintValue(), 10)
	case len(a) == 2 && a[0] == "cli":
		// cmd/masswalletcli/cmd.stringToAmount (cmd_binding.go) through the build-tag hook
		b, ok := unhexTok(a[1])
		if !ok {
			return "bad-op"
		}
		amt, err := clicmd.VerifStringToAmount(string(b))
		if err != nil {
			return "err"
		}
		return "ok " + strconv.FormatUint(amt.UintValue(), 10)
	case len(a) == 2 && (a[0] == "format" || a[0] == "format2"):
		m, err := strconv.ParseInt(a[1], 10, 64)
		if err != nil {
			return "bad-op"
		}
		var s string
		if a[0] == "format" {
			s, err = api.AmountToString(m)
		} else {
			s, err = masswallet.AmountToString(m)
		}
		if err != nil {
			return "err"
		}
		return "ok " + hexTok([]byte(s))
	}
	return "bad-op"
}

const amtAlphabet = "0123456789.+-e_ "

func genAmt(g *Gen) {
	r := g.Rng
	maxAmt := massutil.MaxAmount().IntValue()
	// The engine is stateless, so every op is its own history.  `reset` lines keep the history that
	// ./check attaches to a disagreement short: one op in the hand-written / boundary / short
	// exhaustive part (where a defect shows up first => single-line replay), at most `every` ops later.
	every, sinceReset := 1, 0
	tick := func() {
		if sinceReset%every == 0 {
			g.Reset()
		}
		sinceReset++
	}
	emitParse := func(class, s string) { tick(); g.Op(class, "parse %s", hexTok([]byte(s))) }
	emitCli := func(class, s string) { tick(); g.Op(class, "cli %s", hexTok([]byte(s))) }
	emitFormat := func(class string, m int64) {
		tick()
		g.Op(class, "format %d", m)
		tick()
		g.Op(class+"2", "format2 %d", m)
	}
	// hand-written regression strings (D7 witnesses first)
	for _, s := range []string{"1.+5", "+1", "-0", "", ".", "1.", ".5", "1.+", "1.-5", "1e3", "1_0", " 1", "1 ", "0x10",
		"1..2", "1.2.3", "00012.3400", "206438400", "206438400.00000000", "206438400.00000001", "206438401",
		"9223372036854775807", "9223372036854775808", "99999999999999999999999", "0.123456789", "0.1234567800",
		"0.00000001", "0.000000001", "000.000", "-1", "1.5", "١", "1\x00", "1,5", "1.5e1", "+.5", "-.5", ".+5"} {
		emitParse("corpus", s)
	}
	// numerals in which ONE digit is a non-ASCII Unicode decimal digit (Arabic-Indic, extended Arabic-Indic, Devanagari,
	// full-width), in the integral or the fractional part, with 1..8 fractional digits: not numerals of the property -
	// every one must be refused (seed C15-5: a rune-based digit test let them through and the fraction was folded from
	// their UTF-8 bytes)
	for _, d := range []string{"\u0665", "\u06f5", "\u096b", "\uff15", "\u0660", "\uff10"} {
		for _, tmpl := range []string{"1.%s", "0.%s", "%s.5", "%s", "12.3%s", "0.0000000%s", "0.%s0", "7.%s%s", "1%s.25"} {
			emitParse("unicode-digit", strings.ReplaceAll(tmpl, "%s", d))
		}
	}
	genAmtCli(g, emitCli, func(n int) { every, sinceReset = n, 0 })
	for _, m := range []int64{0, 1, 9, 10, 99999999, 100000000, 100000001, 150000000, 1000000000, maxAmt - 1, maxAmt, maxAmt + 1,
		-1, math.MinInt64, math.MaxInt64, 123456789012345, 10000000000000000} {
		emitFormat("format-boundary", m)
	}
	// exhaustive short strings over the property's alphabet
	maxLen := g.Scale(3, 5)
	var rec func(class, prefix string, n int)
	rec = func(class, prefix string, n int) {
		if n == 0 {
			emitParse(class, prefix)
			return
		}
		for i := 0; i < len(amtAlphabet); i++ {
			rec(class, prefix+string(amtAlphabet[i]), n-1)
		}
	}
	for l := 0; l <= maxLen; l++ {
		if l >= 4 {
			every, sinceReset = 32, 0
		}
		rec(fmt.Sprintf("exh-len%d", l), "", l)
	}
	every, sinceReset = 1, 0
	// the 8/9-significant-fraction-digit edge and the supply edge, exhaustively over {0,1} fractions of
	// 7..9 digits behind three integer parts (includes trailing-zero runs that bring 9 digits back to <= 8)
	for _, ip := range []string{"0", "", "206438399", "206438400"} {
		for l := 7; l <= 9; l++ {
			for v := 0; v < 1<<uint(l); v++ {
				fp := make([]byte, l)
				for j := 0; j < l; j++ {
					fp[j] = byte('0' + (v>>uint(j))&1)
				}
				emitParse("frac-edge", ip+"."+string(fp))
			}
		}
	}
	every, sinceReset = 32, 0
	if !g.Quick() {
		// deeper exhaustive layers over reduced alphabets (the full 16-symbol alphabet stops at length 5)
		var rec2 func(class, alpha, prefix string, n int)
		rec2 = func(class, alpha, prefix string, n int) {
			if n == 0 {
				emitParse(class, prefix)
				return
			}
			for i := 0; i < len(alpha); i++ {
				rec2(class, alpha, prefix+string(alpha[i]), n-1)
			}
		}
		rec2("exh6-reduced", "019.+-e ", "", 6)
		rec2("exh7-reduced", "09.+-", "", 7)
		for l := 8; l <= 11; l++ {
			rec2("exh8to11-ternary", "01.", "", l)
		}
	}
	// numerals whose value x 10^8 wraps modulo 2^64 into the legal range (a uint64 "optimisation" of the
	// 128-bit arithmetic would accept them): i = ceil(k*2^64/10^8) + d
	{
		two64 := new(big.Int).Lsh(big.NewInt(1), 64)
		e8 := big.NewInt(100000000)
		nw := g.Scale(300, 5000)
		for j := 0; j < nw; j++ {
			k := big.NewInt(1 + r.Int63n(40000000000))
			v := new(big.Int).Mul(k, two64)
			v.Add(v, new(big.Int).Sub(e8, big.NewInt(1)))
			v.Div(v, e8)
			v.Add(v, big.NewInt(int64(r.Intn(3))))
			sfx := ""
			if r.Intn(2) == 0 {
				sfx = "." + strconv.Itoa(r.Intn(100000000))
			}
			emitParse("wrap64", v.String()+sfx)
		}
	}
	// random structured numerals
	n := g.Scale(160000, 2000000)
	for i := 0; i < n; i++ {
		switch r.Intn(8) {
		case 0, 1, 2: // valid numeral
			ip := strconv.FormatInt(r.Int63n(300000000), 10)
			if r.Intn(4) == 0 {
				ip = strings.Repeat("0", r.Intn(4)) + ip
			}
			s := ip
			if r.Intn(3) > 0 {
				nd := r.Intn(11)
				fp := ""
				for j := 0; j < nd; j++ {
					fp += string(rune('0' + r.Intn(10)))
				}
				if r.Intn(3) == 0 {
					fp += strings.Repeat("0", r.Intn(5))
				}
				s += "." + fp
			}
			emitParse("numeral", s)
		case 3: // near the supply limit
			ip := strconv.FormatInt(206438400-2+int64(r.Intn(5)), 10)
			fp := strconv.FormatInt(int64(r.Intn(3)), 10)
			emitParse("near-max", ip+"."+strings.Repeat("0", r.Intn(8))+fp)
		case 4: // mutated numeral
			s := strconv.FormatInt(r.Int63n(1000000), 10) + "." + strconv.FormatInt(r.Int63n(1000000), 10)
			b := []byte(s)
			k := 1 + r.Intn(2)
			for j := 0; j < k; j++ {
				p := r.Intn(len(b) + 1)
				c := amtAlphabet[r.Intn(len(amtAlphabet))]
				if r.Intn(2) == 0 && p < len(b) {
					b[p] = c
				} else {
					b = append(b[:p], append([]byte{c}, b[p:]...)...)
				}
			}
			emitParse("mutated", string(b))
		case 5: // arbitrary bytes
			l := r.Intn(12)
			b := make([]byte, l)
			for j := range b {
				if r.Intn(2) == 0 {
					b[j] = amtAlphabet[r.Intn(len(amtAlphabet))]
				} else {
					b[j] = byte(r.Intn(256))
				}
			}
			emitParse("bytes", string(b))
		case 6: // huge integers / long digit runs
			l := 15 + r.Intn(30)
			b := make([]byte, l)
			for j := range b {
				b[j] = byte('0' + r.Intn(10))
			}
			if r.Intn(2) == 0 {
				b[r.Intn(l)] = '.'
			}
			emitParse("long-digits", string(b))
		case 7: // integers to format
			var m int64
			switch r.Intn(4) {
			case 0:
				m = r.Int63n(maxAmt + 1)
			case 1:
				m = r.Int63n(1000) * 100000000
			case 2:
				m = r.Int63n(100000) * int64(math.Pow10(r.Intn(9)))
			default:
				m = r.Int63() - r.Int63()
			}
			emitFormat("format-random", m)
		}
	}
}

// unicode.IsSpace runes (Unicode White_Space) and near misses that are NOT white space for Go
var amtSpaces = []string{"\t", "\n", "\v", "\f", "\r", " ", "\u0085", "\u00a0", "\u1680", "\u2000", "\u2001", "\u2002", "\u2003",
	"\u2004", "\u2005", "\u2006", "\u2007", "\u2008", "\u2009", "\u200a", "\u2028", "\u2029", "\u202f", "\u205f", "\u3000"}
var amtNonSpaces = []string{"\x00", "\x08", "\x0e", "\x1c", "\x1f", "\x7f", "\u0084", "\u0086", "\u009f", "\u00a1", "\u180e", "\u200b", "\u200c",
	"\u2027", "\u202a", "\u2060", "\u3001", "\ufeff", "\x85", "\xa0", "\xc2", "\xc2\x20", "\xe2\x80", "\x80\x80", "\xe3\x80", "\xe1\x9a",
	"\xc0\xa0", "\xe0\x80\xa0", "\xc1\x85", "\xe0\x82\x85", "\xf0\x80\x80\xa0", "\xed\xa0\x80", "\xe2\x80\x8b"}

// genAmtCli: the CLI amount reader cmd/masswalletcli/cmd.stringToAmount (op `cli`): TrimSuffix "MASS", then
// TrimSpace, then StringToAmount.  Directed texts first (seed C15-6: keeping only the first space-separated
// token let "1 000 MASS", "12 34", "1.5 e3" through with a guessed value), then every white-space rune and
// near-miss byte sequence on either side of a numeral, then short exhaustive and random compositions.
func genAmtCli(g *Gen, emit func(class, s string), setEvery func(int)) {
	r := g.Rng
	for _, s := range []string{"1 000 MASS", "12 34", "1.5 e3", "2 .5 MASS", "3 -1", "1 MASS MASS", "1 000", "1,000 MASS", "1 2 3",
		"1. 5", "1 .5", "0 0", "1 e3 MASS", "1 +1", "7 MASS 7", "1\t000", "1\n000 MASS", "1\u00a0000 MASS", "1 MASS1", "1 1MASS"} {
		emit("cli-inner", s)
	}
	for _, s := range []string{"1", "1.5", "0.00000001", "206438400", ".5", "1.", "000.500", "1 MASS", "1.5 MASS", "1.5MASS", "1  MASS",
		"1\tMASS", " 1.5 MASS", "\t1.5\n", " 20.5 ", "\r\n1\r\n", "1000 MASS", "206438400.0000000 MASS", "0 MASS", "0MASS"} {
		emit("cli-numeral", s)
	}
	for _, s := range []string{"MASS", " MASS", "MASS ", "", " ", "  ", "1 MASS ", "1MASS ", "1 MASS\n", "1 MASSMASS", "1MASSMASS", "MASSMASS",
		"1 mass", "1 Mass", "1 MAS", "1 ASS", "1 MASSS", "1 MMASS", "1MASS MASS", "1 M", "1 SS", "1 MASS.", "MASS 1", "MASS1", "1 MA SS",
		"1.5 MASS MASS", "206438401 MASS", "0.000000001 MASS", "-1 MASS", "+1 MASS", "1e3 MASS", ". MASS", ".MASS", "1..2 MASS", "1 mASS",
		"1\x00MASS", "1 MASS\x00", "1 \u041cASS", "１ MASS", "1 ＭＡＳＳ"} {
		emit("cli-suffix", s)
	}
	nums := []string{"1", "1.5", "0.25", "12", ".5", "7."}
	for _, sp := range amtSpaces {
		for _, n := range nums[:3] {
			for _, tmpl := range []string{"%s@", "@%s", "%s@%s", "%s%s@", "@%s%s", "@%sMASS", "%s@MASS", "%s@%sMASS", "@MASS%s", "1%s000", "1%s000 MASS", "%sMASS"} {
				emit("cli-space", strings.ReplaceAll(strings.ReplaceAll(tmpl, "%s", sp), "@", n))
			}
		}
	}
	for _, sp := range amtNonSpaces {
		for _, n := range nums[:2] {
			for _, tmpl := range []string{"%s@", "@%s", "%s@%s", " %s@", "@%s ", "@%sMASS", "%s@MASS", "@ %s MASS", "@MASS%s", "1%s000"} {
				emit("cli-nonspace", strings.ReplaceAll(strings.ReplaceAll(tmpl, "%s", sp), "@", n))
			}
		}
	}
	// exhaustive short texts over numeral bytes, white space, the unit's letters and a foreign byte
	alpha := []string{"1", "0", ".", " ", "\t", "\u00a0", "M", "A", "S", "MASS", "e", "-"}
	maxLen := g.Scale(4, 5)
	var rec func(prefix string, n int)
	rec = func(prefix string, n int) {
		emit("cli-exh", prefix)
		if n == 0 {
			return
		}
		for _, a := range alpha {
			rec(prefix+a, n-1)
		}
	}
	setEvery(32)
	rec("", maxLen)
	// random compositions: ws* token (ws+ token)* ws* unit? ws*
	pieces := []string{"MASS", "MASS", "mass", "MAS", "M", "S", "e3", "-", "+", ",", "_", "x"}
	n := g.Scale(40000, 400000)
	for i := 0; i < n; i++ {
		var b strings.Builder
		ws := func(max int) {
			for k := r.Intn(max + 1); k > 0; k-- {
				if r.Intn(12) == 0 {
					b.WriteString(amtNonSpaces[r.Intn(len(amtNonSpaces))])
				} else if r.Intn(3) == 0 {
					b.WriteString(amtSpaces[r.Intn(len(amtSpaces))])
				} else {
					b.WriteString(amtSpaces[r.Intn(6)])
				}
			}
		}
		num := func() {
			switch r.Intn(4) {
			case 0:
				b.WriteString(strconv.FormatInt(r.Int63n(1000), 10))
			case 1:
				b.WriteString(strconv.FormatInt(r.Int63n(300000000), 10) + "." + strconv.FormatInt(r.Int63n(100000000), 10))
			case 2:
				b.WriteString(nums[r.Intn(len(nums))])
			default:
				b.WriteString(strconv.FormatInt(r.Int63n(1000), 10) + "." + strconv.FormatInt(r.Int63n(1000), 10))
			}
		}
		ws(2)
		num()
		switch r.Intn(6) {
		case 0: // second token after white space
			ws(2)
			if r.Intn(2) == 0 {
				num()
			} else {
				b.WriteString(pieces[r.Intn(len(pieces))])
			}
		case 1: // glued foreign piece
			b.WriteString(pieces[r.Intn(len(pieces))])
		}
		ws(2)
		if r.Intn(3) > 0 {
			b.WriteString("MASS")
			if r.Intn(6) == 0 {
				ws(1)
			}
			if r.Intn(12) == 0 {
				b.WriteString("MASS")
			}
		}
		emit("cli-random", b.String())
	}
	setEvery(1)
}
