package main

// Engine led (C01, C09, C10, C12-used-flag): the wallet ledger driven through the real follower
// code (processConnectedBlock / filterTx) against a real chain database.
//
// Op lines (symbolic names; see wenv.go):
//   wallet W                      create wallet
//   addr W A std|stk              issue next address of W, call it A
//   tx T U cb|T1:0;T2:1[:seq] OUT;OUT...     define transaction (U = uniquifier)
//   block B P T1;T2;...           define block B on parent P (first tx must be a coinbase)
//   submit B / detach             node attaches B on its tip / removes its tip block
//   notify B                      deliver tip notification for B to the wallet follower
//   recvtx T                      deliver unconfirmed transaction T
//   synced | bal W C | utxos W | abal W C | addrs W | shist W 0|1 | bhist W 0|1 | wallets
//   pend | sbu W | hsbu W | shistp W | bhistp W | pins | pcred | pgame     pending-set observations (C09)
//   glog                          raw dump of the mined deposit-history bucket (C10)
//   restart                       reopen the wallet database with a fresh WalletManager

import (
	"github.com/massnetorg/mass-core/consensus"
	"strconv"
	"strings"
)

func init() {
	register(&Engine{Name: "led", Gen: genLed, NewExec: func() Exec { return &ledExec{} }})
}

type ledExec struct{ e *WEnv }

func (x *ledExec) env() *WEnv {
	if x.e == nil {
		x.e = NewWEnv()
	}
	return x.e
}
func (x *ledExec) Reset() {
	if x.e != nil {
		x.e.reset()
	}
}
func (x *ledExec) Close() {
	if x.e != nil {
		x.e.Close()
	}
}

func splitList(s string) []string {
	if s == "-" || s == "" {
		return nil
	}
	return strings.Split(s, ";")
}

func (x *ledExec) Exec(a []string) string {
	e := x.env()
	if len(a) == 0 {
		return "bad-op"
	}
	return ledOp(e, a)
}

func ledOp(e *WEnv, a []string) string {
	u32 := func(s string) uint32 { v, _ := strconv.ParseUint(s, 10, 32); return uint32(v) }
	switch {
	case a[0] == "wallet" && len(a) == 2:
		return errTok(e.CreateWallet(a[1]))
	case a[0] == "addr" && len(a) == 4:
		return errTok(e.NewAddr(a[1], a[2], a[3]))
	case a[0] == "tx" && len(a) == 5:
		u, err := strconv.ParseUint(a[2], 10, 64)
		if err != nil {
			return "bad-op"
		}
		return errTok(e.DefineTx(a[1], splitList(a[3]), splitList(a[4]), u))
	case a[0] == "block" && len(a) == 4:
		return errTok(e.DefineBlock(a[1], a[2], splitList(a[3])))
	case a[0] == "submit" && len(a) == 2:
		return errTok(e.Submit(a[1]))
	case a[0] == "detach" && len(a) == 1:
		return errTok(e.Detach())
	case a[0] == "notify" && len(a) == 2:
		bi, ok := e.blocks[a[1]]
		if !ok {
			return "bad-op"
		}
		return errTok(e.wm.VerifProcessBlock(bi.msg))
	case a[0] == "recvtx" && len(a) == 2:
		ti, ok := e.txs[a[1]]
		if !ok {
			return "bad-op"
		}
		return errTok(e.wm.VerifProcessTx(ti.msg))
	case a[0] == "synced" && len(a) == 1:
		return e.Synced()
	case a[0] == "bal" && len(a) == 3:
		return e.Balance(a[1], u32(a[2]))
	case a[0] == "abal" && len(a) == 3:
		return e.AddrBalances(a[1], u32(a[2]))
	case a[0] == "utxos" && len(a) == 2:
		return e.Utxos(a[1])
	case a[0] == "sbu" && len(a) == 2:
		return e.Sbu(a[1])
	case a[0] == "pend" && len(a) == 1:
		return e.Pend()
	case a[0] == "pins" && len(a) == 1: // raw dump of the unmined-inputs bucket (wenv_c09.go)
		return e.PendIns()
	case a[0] == "pcred" && len(a) == 1: // raw dump of the unmined-credits bucket
		return e.PendCred()
	case a[0] == "pgame" && len(a) == 1: // raw dump of the unmined game-history bucket
		return e.PendGame()
	case a[0] == "glog" && len(a) == 1: // raw dump of the mined deposit-history bucket (C10)
		return e.GameLog()
	case a[0] == "params" && len(a) == 3:
		cb, err1 := strconv.ParseUint(a[1], 10, 64)
		mf, err2 := strconv.ParseUint(a[2], 10, 64)
		if err1 != nil || err2 != nil {
			return "bad-op"
		}
		// consensus PARAMETERS (values, not logic): small values make maturity boundaries reachable
		consensus.CoinbaseMaturity = cb
		consensus.MinFrozenPeriod = mf
		return "ok"
	case a[0] == "warmup" && len(a) == 2:
		// consensus.MASSIP0002WarmUpHeight is a PARAMETER too (restored by every reset: WEnv.reset)
		h, err := strconv.ParseUint(a[1], 10, 64)
		if err != nil {
			return "bad-op"
		}
		consensus.MASSIP0002WarmUpHeight = h
		return "ok"
	case a[0] == "addrs" && len(a) == 2:
		return e.Addrs(a[1])
	case a[0] == "shist" && len(a) == 3:
		return e.StakingHistory(a[1], a[2] == "1", false)
	case a[0] == "bhist" && len(a) == 3:
		return e.BindingHistory(a[1], a[2] == "1", false)
	case a[0] == "hsbu" && len(a) == 2:
		return e.HistSbu(a[1])
	case a[0] == "shistp" && len(a) == 2:
		return e.StakingHistory(a[1], false, true)
	case a[0] == "bhistp" && len(a) == 2:
		return e.BindingHistory(a[1], false, true)
	case a[0] == "wseq" && len(a) == 4:
		lt, err := strconv.ParseUint(a[3], 10, 64)
		if err != nil {
			return "bad-op"
		}
		return e.WithdrawSeq(a[1], a[2], lt)
	case a[0] == "wallets" && len(a) == 1:
		return e.Wallets()
	case a[0] == "restart" && len(a) == 1:
		return errTok(e.Restart())
	}
	return "bad-op"
}
