package main

// Generator of engine txb (C02).
//
// (a) unit level: amount multisets for the selector / greedy / pipeline / fee split – many small coins,
//     coins above the target, ties, sizes around k (k = GetMaxStandardTxSize()/154 ≈ 649), exhaustive small
//     multisets in the thorough tier;
// (b) end to end: chain histories from the ledger generator (ledGen: forks, late notifications,
//     unconfirmed transactions, staking / binding deposits, immature coinbases) with realistic amounts,
//     interleaved with create requests of every kind whose sizes are aimed at the wallet's funds
//     (far below, around, exactly at, above), drafts that stay outstanding, rejected drafts, released
//     drafts, and a `judge` (the Lean spec's verdict on every returned transaction) after each burst.

import (
	"fmt"
	"sort"
	"strconv"
	"strings"
)

const txbK = 649 // only steers the generator; the real k is read by the implementation / regenerated for the model

func joinI64(xs []int64) string {
	if len(xs) == 0 {
		return "-"
	}
	ss := make([]string, len(xs))
	for i, x := range xs {
		ss[i] = fmt.Sprint(x)
	}
	return strings.Join(ss, ",")
}

func sumI64(xs []int64) int64 {
	var s int64
	for _, x := range xs {
		s += x
	}
	return s
}

// ---------------------------------------------------------------- (a) unit level

func genTxbUnit(g *Gen) {
	r := g.Rng
	// unit ops are independent: start a new history every few ops so that a failing one has a short replay
	// the selector ops (which have a spec column: the k largest) are emitted first
	type bufOp struct{ class, line string }
	var first, rest []bufOp
	uop := func(class string, format string, a ...interface{}) {
		o := bufOp{class, fmt.Sprintf(format, a...)}
		if strings.HasPrefix(format, "topk ") {
			first = append(first, o)
		} else {
			rest = append(rest, o)
		}
	}
	defer func() {
		for i, o := range append(first, rest...) {
			if i%8 == 0 {
				g.Reset()
			}
			g.Op(o.class, "%s", o.line)
		}
	}()
	amounts := func(n int, shape string, lo, hi int64) []int64 {
		xs := make([]int64, n)
		for i := range xs {
			switch shape {
			case "equal":
				xs[i] = lo
			case "asc":
				xs[i] = lo + int64(i)
			case "desc":
				xs[i] = lo + int64(n-i)
			case "few": // few distinct values: many ties
				xs[i] = lo + int64(r.Intn(4))*((hi-lo)/4+1)
			case "small+large":
				if r.Intn(20) == 0 {
					xs[i] = hi + r.Int63n(hi+1)
				} else {
					xs[i] = lo + r.Int63n(lo+1)
				}
			default:
				xs[i] = lo + r.Int63n(hi-lo+1)
			}
		}
		return xs
	}
	shapes := []string{"rand", "equal", "asc", "desc", "few", "small+large"}
	// selector sizes around k
	sizes := []int{0, 1, 2, 7, 100, txbK - 1, txbK, txbK + 1, txbK + 2, 2 * txbK, 3*txbK + 5}
	nBig := g.Scale(2, 12)
	for rep := 0; rep < nBig; rep++ {
		for _, n := range sizes {
			for _, sh := range shapes {
				if n > 1000 && rep > 0 && r.Intn(3) > 0 {
					continue
				}
				xs := amounts(n, sh, 1000, 100000)
				// target: below all, among, above all
				var t int64
				switch r.Intn(4) {
				case 0:
					t = 500
				case 1:
					t = 50000
				case 2:
					t = 1 << 40
				default:
					t = 1000 + r.Int63n(100000)
				}
				cls := "topk-under-k"
				if n == txbK {
					cls = "topk-at-k"
				} else if n > txbK {
					cls = "topk-over-k"
				}
				uop(cls, "topk %d %s", t, joinI64(xs))
				if sh == "equal" || sh == "few" {
					g.Stats["topk-ties"]++
				}
				// pipeline: amount as a fraction of the total, so that the greedy crosses the middle of the
				// kept coins; with > k small coins and an amount above the k largest -> overfull
				tot := sumI64(xs)
				var am int64
				switch r.Intn(5) {
				case 0:
					am = tot/3 + 1
				case 1:
					am = tot + 1
				case 2:
					am = tot
				case 3:
					am = tot - tot/10 + 1
				default:
					am = 1 + r.Int63n(tot+2)
				}
				if am > 0 {
					pc := "pipe"
					if n >= txbK && am > tot-tot/5 {
						pc = "pipe-overfull-zone"
					}
					uop(pc, "pipe %d %s", am, joinI64(xs))
				}
			}
		}
	}
	// heap stress: k coins then a stream of replacements, ascending (every one replaces the root)
	{
		xs := amounts(txbK, "rand", 1000, 50000)
		for i := 0; i < 400; i++ {
			xs = append(xs, 50000+int64(i)*3)
		}
		uop("topk-replace-stream", "topk %d %s", int64(1)<<40, joinI64(xs))
		ys := amounts(txbK, "rand", 1000, 50000)
		for i := 0; i < 400; i++ {
			ys = append(ys, 1000+r.Int63n(100000))
		}
		uop("topk-replace-stream", "topk %d %s", int64(1)<<40, joinI64(ys))
	}
	// guard: several coins above the target, the smallest must be kept
	for i := 0; i < g.Scale(40, 400); i++ {
		n := 1 + r.Intn(12)
		xs := amounts(n, "rand", 1, 60)
		t := int64(r.Intn(70))
		uop("topk-guard", "topk %d %s", t, joinI64(xs))
		uop("pipe-small", "pipe %d %s", 1+int64(r.Intn(200)), joinI64(xs))
	}
	// greedy subset on short lists: random, ties, coins larger than the target, exact sums
	for i := 0; i < g.Scale(1200, 40000); i++ {
		n := r.Intn(10)
		var xs []int64
		cls := "opt-random"
		switch r.Intn(5) {
		case 0:
			xs = amounts(n, "few", 1, 9)
			cls = "opt-ties"
		case 1:
			xs = amounts(n, "rand", 1, 12)
		case 2:
			xs = amounts(n, "small+large", 1, 20)
			cls = "opt-bigcoin"
		default:
			xs = amounts(n, "rand", 1, 100)
		}
		tot := sumI64(xs)
		var am int64
		switch r.Intn(6) {
		case 0:
			am = tot
		case 1:
			am = tot + 1
		case 2:
			am = 0
		case 3: // exact sum of a random sub-multiset
			for _, x := range xs {
				if r.Intn(2) == 0 {
					am += x
				}
			}
			cls = "opt-exact-subset"
		default:
			am = r.Int63n(tot + 2)
		}
		uop(cls, "opt %d %s", am, joinI64(xs))
	}
	// near the amount ceiling: the checked additions fail
	uop("opt-overflow", "opt 5 20643840000000000,1")
	uop("opt-overflow", "opt 5 20643840000000000")
	uop("opt-overflow", "opt 20643840000000000 10321920000000000,10321920000000000")
	uop("opt-overflow", "opt 7 10321920000000000,10321920000000001")
	if !g.Quick() {
		// exhaustive: all multisets of <= 6 coins over 5 denominations, every amount up to the total + 1
		den := []int64{1, 2, 3, 5, 8}
		var rec func(start int, cur []int64)
		rec = func(start int, cur []int64) {
			tot := sumI64(cur)
			for am := int64(0); am <= tot+1; am++ {
				uop("opt-exhaustive", "opt %d %s", am, joinI64(cur))
			}
			if len(cur) == 6 {
				return
			}
			for i := start; i < len(den); i++ {
				rec(i, append(append([]int64{}, cur...), den[i]))
			}
		}
		rec(0, nil)
		// and in every order for <= 4 coins (the sort must make the order irrelevant)
		for i := 0; i < 3000; i++ {
			n := 1 + r.Intn(4)
			xs := make([]int64, n)
			for j := range xs {
				xs[j] = den[r.Intn(len(den))]
			}
			uop("opt-orders", "opt %d %s", r.Int63n(sumI64(xs)+2), joinI64(xs))
		}
	}
	// fee split
	for i := 0; i < g.Scale(300, 5000); i++ {
		n := 1 + r.Intn(5)
		var items, names []string
		for j := 0; j < n; j++ {
			nm := fmt.Sprintf("N%d", j)
			names = append(names, nm)
			items = append(items, fmt.Sprintf("%s:%d", nm, r.Int63n(50000)))
		}
		var sel []string
		for _, nm := range names {
			if r.Intn(3) == 0 {
				sel = append(sel, nm)
			}
		}
		if r.Intn(15) == 0 {
			sel = append(sel, "ZZ") // unknown recipient
		}
		if r.Intn(15) == 0 && len(sel) > 0 {
			sel = append(sel, sel[0]) // a set: repetition is harmless
		}
		s := "-"
		if len(sel) > 0 {
			s = strings.Join(sel, ",")
		}
		fee := r.Int63n(30000)
		if r.Intn(10) == 0 {
			fee = int64(len(sel)) * r.Int63n(1000)
		}
		uop("subfee", "subfee %d %s %s", fee, strings.Join(items, ","), s)
	}
	uop("subfee", "subfee 10 N0:20643840000000000,N1:5 -")
	uop("subfee", "subfee 20643840000000000 N0:7 N0")
	for _, sz := range []int64{0, 1, 99, 100, 101, 229, 292, 999, 1000, 1001, 99946, 100000, 100021, 100175, 1 << 33, 1 << 52} {
		uop("relay", "relay %d", sz)
	}
	for i := 0; i < g.Scale(100, 3000); i++ {
		uop("relay", "relay %d", r.Int63n(200000))
	}
	for _, v := range []int64{0, 1, 5879, 5880, 5881, 9999, 10000, 100000} {
		uop("dust", "dust %d", v)
	}
	for i := 0; i < g.Scale(50, 1000); i++ {
		uop("dust", "dust %d", r.Int63n(12000))
	}
}

// ---------------------------------------------------------------- (b) end to end

type txbGen struct {
	*ledGen
	nReq    int
	drafts  int
	scale   int64
	reorged bool           // the node reorganised and the wallet has not been told everything yet
	remined bool           // … and a transaction of a replaced block was mined again on the new branch
	amts    map[int64]bool // amounts of all outputs paid to wallet addresses so far (see uniqAmounts)
}

func newTxbGen(l *ledGen, scale int64) *txbGen {
	t := &txbGen{ledGen: l, scale: scale, amts: map[int64]bool{}}
	l.fixTx = t.uniqAmounts
	return t
}

// uniqAmounts (hook of ledGen.define: every transaction of a txb history passes here before it is emitted)
// keeps the amounts of all outputs paid to wallet addresses pairwise distinct within a history.  Which of
// two coins of EQUAL amount the wallet selects depends on the order of their transaction hashes (bucket
// iteration order, unstable sort), which symbolic names cannot predict: the model and the implementation
// then reserve different – equally admissible – coins and every later `reserved` / `elig` observation
// differs (thorough tier, seed 1: a binding deposit of half the inputs next to a payment of the other half,
// later withdrawn without fee to another address of the same wallet).  Deposits count too: their
// withdrawal without fee pays the same amount again.  A colliding amount is lowered to the next free one
// (the transaction stays valid: the fee grows by the difference; 0 = an output that is no coin at all); no
// randomness is consumed.
func (t *txbGen) uniqAmounts(x *gTx) {
	changed := false
	for i, spec := range x.outs {
		p := strings.Split(spec, ":")
		if len(p) < 2 || t.owner[p[0]] == "" {
			continue
		}
		a, err := strconv.ParseInt(p[1], 10, 64)
		if err != nil || a <= 0 {
			continue
		}
		b := a
		for b > 0 && t.amts[b] {
			b--
		}
		// b == 0 (amounts of a few maxwell, all taken): a zero-value output, which no wallet tracks as a coin
		if b > 0 {
			t.amts[b] = true
		}
		if b != a {
			p[1] = strconv.FormatInt(b, 10)
			x.outs[i] = strings.Join(p, ":")
			changed = true
			t.g.Stats["txb-amount-tie-avoided"]++
		}
	}
	if changed {
		f := strings.SplitN(x.line, " ", 5) // tx NAME NONCE INS OUTS
		if len(f) == 5 {
			f[4] = strings.Join(x.outs, ";")
			x.line = strings.Join(f, " ")
		}
	}
}

// block builds a valid block on `parent` like ledGen.buildBlock, with realistic coinbase amounts.
func (t *txbGen) block(parent string) *gBlock {
	l := t.ledGen
	pb := l.blocks[parent]
	l.nBlk++
	b := &gBlock{name: fmt.Sprintf("B%d", l.nBlk), parent: parent, height: pb.height + 1, utxo: map[string]gCoin{}}
	for k, v := range pb.utxo {
		b.utxo[k] = v
	}
	l.nTx++
	cb := &gTx{name: fmt.Sprintf("C%d", l.nTx), cb: true}
	ncb := 1 + l.r.Intn(2)
	for i := 0; i < ncb; i++ {
		cb.outs = append(cb.outs, fmt.Sprintf("%s:%d", l.anyDest(), t.scale+l.r.Int63n(9*t.scale)))
	}
	cb.line = fmt.Sprintf("tx %s %d cb %s", cb.name, l.nTx, strings.Join(cb.outs, ";"))
	l.define(cb)
	applyTx(b.utxo, cb, b.height)
	b.txs = append(b.txs, cb)
	ntx := l.r.Intn(4)
	for i := 0; i < ntx; i++ {
		switch k := l.r.Intn(10); {
		case k < 2 && len(l.pool) > 0:
			p := l.pool[l.r.Intn(len(l.pool))]
			if applyTx(b.utxo, p, b.height) {
				b.txs = append(b.txs, p)
			}
		case k < 4 && len(l.orphanT) > 0:
			o := l.orphanT[l.r.Intn(len(l.orphanT))]
			ok := true
			for _, c := range o.ins {
				if cc, in := b.utxo[c.key()]; !in || !l.spendableIn(cc, b.height) {
					ok = false
				}
			}
			for _, x := range b.txs {
				if x.name == o.name {
					ok = false
				}
			}
			if ok && applyTx(b.utxo, o, b.height) {
				b.txs = append(b.txs, o)
				t.remined = true
			}
		default:
			kind, want := "", ""
			switch l.r.Intn(12) {
			case 0, 1:
				kind = "stake"
			case 2:
				kind = "bind"
			case 3, 4:
				want = "stk"
			case 5:
				want = "bind"
			}
			ins := l.pickCoins(b.utxo, b.height, want)
			if ins == nil {
				continue
			}
			if kind == "bind" {
				for _, c := range ins {
					if c.cls == "bind" {
						kind = ""
					}
				}
			}
			x := l.makeTx(ins, kind)
			l.define(x)
			if applyTx(b.utxo, x, b.height) {
				b.txs = append(b.txs, x)
			}
		}
	}
	var names []string
	for _, x := range b.txs {
		names = append(names, x.name)
	}
	var np []*gTx
	for _, p := range l.pool {
		in := false
		for _, x := range b.txs {
			if x.name == p.name {
				in = true
			}
		}
		if !in {
			np = append(np, p)
		}
	}
	l.pool = np
	l.blocks[b.name] = b
	l.op("block", "block %s %s %s", b.name, parent, strings.Join(names, ";"))
	return b
}

// fanout adds a block whose extra transaction splits one mature wallet coin into n coins of wallet w.
func (t *txbGen) fanout(w string, n int, lo, hi int64) bool {
	l := t.ledGen
	tip := l.tip()
	var src *gCoin
	for _, c := range sortedCoins(tip.utxo) {
		c := c
		if l.owner[c.addr] == w && c.cls == "std" && l.spendableIn(c, tip.height+1) && c.amt > int64(n)*hi && !t.spentByPool(c) {
			src = &c
			break
		}
	}
	if src == nil {
		return false
	}
	b := t.block(tip.name) // defines a block; we rebuild it with the fan-out appended
	l.nTx++
	x := &gTx{name: fmt.Sprintf("T%d", l.nTx), ins: []gCoin{*src}}
	rest := src.amt
	// distinct amounts: which of two equal coins the wallet takes depends on transaction-hash order
	delta := (hi - lo) / int64(n)
	if delta < 1 {
		delta = 1
	}
	slots := l.r.Perm(n)
	for i := 0; i < n; i++ {
		a := lo + int64(slots[i])*delta + l.r.Int63n(delta)
		x.outs = append(x.outs, fmt.Sprintf("%s:%d", l.someAddr(w), a))
		rest -= a
	}
	if rest > 20000 {
		x.outs = append(x.outs, fmt.Sprintf("%s:%d", l.stranger(), rest-10000))
	}
	x.line = fmt.Sprintf("tx %s %d %s %s", x.name, l.nTx, src.key(), strings.Join(x.outs, ";"))
	if _, ok := b.utxo[src.key()]; !ok {
		// the random part of the block already spent the source: keep the block as it is
		l.op("submit", "submit %s", b.name)
		l.chain = append(l.chain, b.name)
		l.queue = append(l.queue, b.name)
		return false
	}
	l.define(x)
	// a second block carries the fan-out (block B is already defined with its own tx list)
	l.op("submit", "submit %s", b.name)
	l.chain = append(l.chain, b.name)
	l.queue = append(l.queue, b.name)
	l.nBlk++
	b2 := &gBlock{name: fmt.Sprintf("B%d", l.nBlk), parent: b.name, height: b.height + 1, utxo: map[string]gCoin{}}
	for k, v := range b.utxo {
		b2.utxo[k] = v
	}
	l.nTx++
	cb := &gTx{name: fmt.Sprintf("C%d", l.nTx), cb: true, outs: []string{fmt.Sprintf("%s:%d", l.stranger(), t.scale)}}
	cb.line = fmt.Sprintf("tx %s %d cb %s", cb.name, l.nTx, cb.outs[0])
	l.define(cb)
	applyTx(b2.utxo, cb, b2.height)
	applyTx(b2.utxo, x, b2.height)
	b2.txs = []*gTx{cb, x}
	l.blocks[b2.name] = b2
	l.op("block", "block %s %s %s;%s", b2.name, b.name, cb.name, x.name)
	l.op("submit", "submit %s", b2.name)
	l.chain = append(l.chain, b2.name)
	l.queue = append(l.queue, b2.name)
	return true
}

func (t *txbGen) spentByPool(c gCoin) bool {
	for _, p := range t.pool {
		for _, i := range p.ins {
			if i.key() == c.key() {
				return true
			}
		}
	}
	return false
}

func (t *txbGen) extend() {
	l := t.ledGen
	b := t.block(l.tip().name)
	l.op("submit", "submit %s", b.name)
	l.chain = append(l.chain, b.name)
	l.queue = append(l.queue, b.name)
}

func (t *txbGen) reorgTo(depth, extra int) {
	l := t.ledGen
	if depth >= len(l.chain) {
		depth = len(l.chain) - 1
	}
	if depth < 1 {
		t.extend()
		return
	}
	for i := 0; i < depth; i++ {
		ob := l.tip()
		for _, x := range ob.txs {
			if !x.cb {
				l.orphanT = append(l.orphanT, x)
			}
		}
		l.op("detach", "detach")
		l.chain = l.chain[:len(l.chain)-1]
	}
	for i := 0; i < depth+extra; i++ {
		t.extend()
	}
	t.reorged = true
	l.g.Stats["reorg"]++
}

// walletCoins: coins of w in the node's tip view (the generator's estimate of what the wallet holds).
func (t *txbGen) walletCoins(w string) (all []gCoin, elig []gCoin) {
	l := t.ledGen
	tip := l.tip()
	for _, c := range sortedCoins(tip.utxo) {
		if l.owner[c.addr] != w || c.amt == 0 {
			continue
		}
		all = append(all, c)
		if c.cls == "std" && (!c.cb || tip.height+1-c.height >= l.cbm) && !t.spentByPool(c) {
			elig = append(elig, c)
		}
	}
	sort.Slice(elig, func(i, j int) bool { return elig[i].amt > elig[j].amt })
	return
}

func (t *txbGen) dests(n int, total int64) string {
	l := t.ledGen
	var outs []string
	seen := map[string]bool{}
	rest := total
	for i := 0; i < n; i++ {
		d := l.stranger()
		if l.r.Intn(3) == 0 {
			d = l.anyDest()
		}
		if seen[d] {
			continue
		}
		seen[d] = true
		a := rest
		if i < n-1 && rest > 2 {
			a = 1 + l.r.Int63n(rest-1)
		}
		outs = append(outs, fmt.Sprintf("%s:%d", d, a))
		rest -= a
		if rest <= 0 {
			break
		}
	}
	if len(outs) == 0 {
		return "-"
	}
	return strings.Join(outs, ";")
}

func (t *txbGen) pickFee() (int64, string) {
	r := t.r
	switch r.Intn(6) {
	case 0, 1:
		return 0, "fee0"
	case 2:
		return 1 + r.Int63n(3000), "feelow"
	case 3:
		return 10000 + r.Int63n(40000), "feemid"
	case 4:
		return 1000000 + r.Int63n(5000000), "feebig"
	}
	return 20000, "feemid"
}

// auto emits one automatic create (auto / est / apiauto) aimed at the funds of wallet w.
func (t *txbGen) auto(w string) {
	l := t.ledGen
	r := l.r
	_, elig := t.walletCoins(w)
	var tot int64
	for _, c := range elig {
		tot += c.amt
	}
	fee, fcls := t.pickFee()
	from, chg := "-", "-"
	if r.Intn(4) == 0 {
		switch r.Intn(6) {
		case 0:
			from = l.stranger()
		case 1:
			ow := l.wallets[r.Intn(len(l.wallets))]
			from = l.addrs[ow][r.Intn(len(l.addrs[ow]))]
		default:
			from = l.addrs[w][r.Intn(len(l.addrs[w]))]
		}
		if l.owner[from] == w {
			tot = 0
			var e2 []gCoin
			for _, c := range elig {
				if c.addr == from {
					tot += c.amt
					e2 = append(e2, c)
				}
			}
			elig = e2
		}
	}
	if r.Intn(4) == 0 {
		if r.Intn(2) == 0 {
			chg = l.stranger()
		} else {
			chg = l.addrs[w][r.Intn(len(l.addrs[w]))]
		}
	}
	plen := 0
	if r.Intn(6) == 0 {
		plen = 1 + r.Intn(60)
	}
	effFee := fee
	if effFee < 10000 {
		effFee = 10000
	}
	var total int64
	cls := "auto-small"
	switch k := r.Intn(10); {
	case tot <= 2*effFee || k == 0:
		total = 1 + r.Int63n(tot+effFee+1)
		cls = "auto-poor"
	case k < 4:
		total = 1 + r.Int63n(tot/(4+int64(t.nReq))+1)
	case k < 5: // around everything the wallet has: insufficient / dust gap / just enough
		total = tot - effFee - 15000 + r.Int63n(30000)
		cls = "auto-near-total"
	case k == 5:
		total = 1 + r.Int63n(tot/(8+int64(t.nReq))+1)
		cls = "auto-tiny"
	case k == 6:
		total = tot + 1 + r.Int63n(tot/2+1)
		cls = "auto-over"
	case k == 7 && len(elig) > 0: // exactly the j largest coins (no change output)
		j := 1 + r.Intn(len(elig))
		var s int64
		for _, c := range elig[:j] {
			s += c.amt
		}
		if fee < 20000 {
			fee = 20000 + int64(j)*1600
		}
		total = s - fee
		cls = "auto-exact"
	case k == 8 && len(elig) > 0: // the largest coin plus a little: dust-sized change with the next coin
		total = elig[0].amt - effFee - r.Int63n(9000)
		cls = "auto-dust-change"
	default:
		total = tot/3 + r.Int63n(tot/3+1)
		cls = "auto-large"
	}
	if total < 1 {
		total = 1
	}
	outs := t.dests(1+r.Intn(3), total)
	if r.Intn(40) == 0 {
		outs = outs + ";" + l.stranger() + "z:0"
		outs = strings.Replace(outs, "z:0", ":0", 1)
		cls = "auto-zero-output"
	}
	switch k := r.Intn(12); {
	case k == 0:
		l.op("est", "est %s %d %d %s %s %d %s", w, fee, r.Intn(2)*7, from, chg, plen, outs)
	case k == 1:
		if fee > 100000000 {
			fee = 100000000
		}
		l.op("apiauto", "apiauto %s %d %d %s %s %s", w, fee, 0, from, chg, outs)
		t.drafts++ // may or may not have produced a draft; indices are only used modulo
	default:
		l.op(cls, "auto %s %d %d %s %s %d %s", w, fee, r.Intn(2)*7, from, chg, plen, outs)
		t.drafts++
	}
	t.nReq++
	l.g.Stats["auto-"+fcls]++
	if from != "-" {
		l.g.Stats["auto-from"]++
	}
	if chg != "-" {
		l.g.Stats["auto-chg"]++
	}
	if plen > 0 {
		l.g.Stats["auto-payload"]++
	}
}

func (t *txbGen) stakeBind(w string) {
	l := t.ledGen
	r := l.r
	_, elig := t.walletCoins(w)
	var tot int64
	for _, c := range elig {
		tot += c.amt
	}
	amt := 1 + r.Int63n(tot/2+2)
	if r.Intn(5) == 0 {
		amt = tot + r.Int63n(50000)
	}
	from := "-"
	if r.Intn(5) == 0 {
		from = l.addrs[w][r.Intn(len(l.addrs[w]))]
	}
	fee, _ := t.pickFee()
	if r.Intn(2) == 0 {
		fr := l.minFr + r.Intn(4)
		cls := "stake"
		if r.Intn(8) == 0 {
			fr = l.minFr - 1
			cls = "stake-badfrozen"
		}
		dest := l.addrs[w][r.Intn(len(l.addrs[w]))]
		if r.Intn(4) == 0 {
			dest = l.stranger()
		}
		l.op(cls, "stake %s %d %d %s %s:%d:%d", w, fee, 0, from, dest, amt, fr)
	} else {
		n := 1 + r.Intn(2)
		var outs []string
		rest := amt
		for i := 0; i < n && rest > 0; i++ {
			a := rest
			if i < n-1 && rest > 2 {
				a = 1 + r.Int63n(rest-1)
			}
			outs = append(outs, fmt.Sprintf("%s:%d:%d", l.addrs[w][r.Intn(len(l.addrs[w]))], a, r.Intn(6)))
			rest -= a
		}
		l.op("bind", "bind %s %d %s %s", w, fee, from, strings.Join(outs, ";"))
	}
	t.drafts++
}

// manual emits a create with explicit inputs.
func (t *txbGen) manual(w string) {
	l := t.ledGen
	r := l.r
	all, elig := t.walletCoins(w)
	if len(all) == 0 {
		return
	}
	cls := "man"
	var ins []gCoin
	pool := elig
	if r.Intn(4) == 0 || len(elig) == 0 {
		pool = all // immature / staking / binding / pending-spent coins may be named explicitly
		cls = "man-anycoin"
	}
	n := 1 + r.Intn(3)
	perm := r.Perm(len(pool))
	for i := 0; i < n && i < len(pool); i++ {
		ins = append(ins, pool[perm[i]])
	}
	var specs []string
	var totalIn int64
	for _, c := range ins {
		specs = append(specs, c.key())
		totalIn += c.amt
	}
	switch r.Intn(14) {
	case 0: // a coin of somebody else
		for _, c := range sortedCoins(l.tip().utxo) {
			if l.owner[c.addr] != w && c.cls == "std" && c.amt > 0 {
				specs = append(specs, c.key())
				cls = "man-foreign"
				break
			}
		}
	case 1:
		specs = append(specs, specs[0])
		cls = "man-dup"
	case 4, 5: // the same output twice, the second time with its id in upper-case hex (still the same outpoint)
		specs = append(specs, specs[0]+":U")
		cls = "man-dup-upper"
		if len(elig) > 0 {
			// an otherwise valid request: one eligible coin, named twice in two spellings (so that nothing but the
			// duplicate check stands between the request and a draft that spends the coin twice)
			c := elig[r.Intn(len(elig))]
			specs = []string{c.key(), c.key() + ":U"}
			totalIn = c.amt
			cls = "man-dup-upper-eligible"
		}
	case 6: // a single input spelled in upper case: a valid request
		specs[0] = specs[0] + ":U"
		cls = "man-upper"
	case 2: // an output that was already spent on the chain (defined tx no longer unspent)
		if len(l.chain) > 2 {
			b := l.blocks[l.chain[1+r.Intn(len(l.chain)-1)]]
			for _, x := range b.txs {
				for _, c := range x.ins {
					if l.owner[c.addr] == w {
						specs = append(specs, c.key())
						totalIn += c.amt
						cls = "man-spent"
					}
				}
			}
		}
	case 3: // output of an unconfirmed transaction
		if len(l.pool) > 0 {
			p := l.pool[r.Intn(len(l.pool))]
			for _, c := range outCoins(p, 0) {
				if l.owner[c.addr] == w && c.cls == "std" {
					specs = append(specs, c.key())
					cls = "man-pending"
					break
				}
			}
		}
	}
	nOut := 1 + r.Intn(3)
	nIn := int64(len(specs))
	feeNC := (nIn*154 + 63*int64(nOut) + 12) * 10
	feeWC := feeNC + 630
	var total int64
	switch r.Intn(7) {
	case 0:
		total = totalIn - feeNC // exactly: no change
		l.g.Stats["man+exact"]++
	case 1:
		total = totalIn - feeWC + int64(r.Intn(3)) - 1 // around the with-change boundary
		l.g.Stats["man+boundary"]++
	case 2:
		total = totalIn + int64(r.Intn(100000)) // not enough
		l.g.Stats["man+short"]++
	case 3:
		total = totalIn - feeWC - 1 - r.Int63n(7000) // dust change
		l.g.Stats["man+dustchange"]++
	default:
		total = 1 + r.Int63n(totalIn+1)
	}
	if total < 1 {
		total = 1
	}
	outs := t.dests(nOut, total)
	if outs == "-" {
		return
	}
	sub := "-"
	if r.Intn(3) == 0 {
		var ss []string
		for _, o := range strings.Split(outs, ";") {
			if r.Intn(2) == 0 {
				ss = append(ss, strings.Split(o, ":")[0])
			}
		}
		if r.Intn(12) == 0 {
			ss = append(ss, "X99")
		}
		if len(ss) > 0 {
			sub = strings.Join(ss, ";")
			l.g.Stats["man+subfee"]++
		}
	}
	chg := "-"
	if r.Intn(3) == 0 {
		chg = l.anyDest()
		l.g.Stats["man+chg"]++
	}
	opn := "man"
	if r.Intn(8) == 0 {
		opn = "apiman"
		l.g.Stats["man+api"]++
	}
	l.op(cls, "%s %s %d %s %s %s %s", opn, w, r.Intn(2)*9, chg, sub, strings.Join(specs, ";"), outs)
	t.drafts++
}

func (t *txbGen) observe(w string) {
	l := t.ledGen
	l.op("q-reserved", "reserved %s", w)
	from := "-"
	if l.r.Intn(3) == 0 {
		from = l.addrs[w][l.r.Intn(len(l.addrs[w]))]
	}
	l.op("q-elig", "elig %s %s", w, from)
	if l.r.Intn(3) == 0 {
		_, elig := t.walletCoins(w)
		var tot int64
		for _, c := range elig {
			tot += c.amt
		}
		l.op("q-find", "find %s %s %d", w, from, 1+l.r.Int63n(tot+2))
	}
	if l.r.Intn(4) == 0 && !t.reorged {
		// (behind an undelivered reorganisation the first coins in hash order may be unresolvable)
		l.op("q-estsize", "estsize %s %d %d", w, l.r.Intn(4), l.r.Intn(4))
	}
	if l.r.Intn(4) == 0 {
		l.op("q-utxos", "utxos %s", w)
		l.op("q-bal", "bal %s 1", w)
	}
}

func (t *txbGen) burst() {
	l := t.ledGen
	r := l.r
	n := 1 + r.Intn(5)
	for i := 0; i < n; i++ {
		w := l.wallets[r.Intn(len(l.wallets))]
		switch k := r.Intn(20); {
		case k < 10:
			t.auto(w)
		case k < 13:
			t.stakeBind(w)
		case k < 17:
			t.manual(w)
		case k == 17 && t.drafts > 0:
			l.op("signfail", "signfail %d", 1+r.Intn(1+t.drafts/2))
		case k == 18:
			// a draft over the API fee ceiling, then an ordinary request for (almost) all funds
			_, elig := t.walletCoins(w)
			var tot int64
			for _, c := range elig {
				tot += c.amt
			}
			if tot > 300000000 {
				// the ceiling itself is allowed, one maxwell more is not
				l.op("apiauto-feelimit-edge", "apiauto %s %d 0 - - %s:%d", w, 100000000+int64(r.Intn(2)), l.stranger(), 1+r.Int63n(tot/8))
				l.op("judge", "judge")
				l.op("sums", "sums")
				l.op("signfail", "signfail %d", 1+t.drafts)
				l.op("apiauto-bigfee", "apiauto %s %d 0 - - %s:%d", w, 100000001+r.Int63n(100000000), l.stranger(), 1+r.Int63n(tot/4))
				l.op("apiauto-after-bigfee", "apiauto %s %d 0 - - %s:%d", w, 20000, l.stranger(), tot-tot/8)
				t.drafts++
			}
		default:
			t.observe(w)
		}
	}
	l.op("judge", "judge")
	l.op("sums", "sums")
	// release some of the outstanding drafts again (signing fails), so that later requests find funds
	if t.drafts > 0 && r.Intn(2) == 0 {
		for i := 0; i < 1+r.Intn(4); i++ {
			l.op("signfail", "signfail %d", 1+r.Intn(1+t.drafts/2))
		}
	}
}

func genTxbHistory(g *Gen, kind string) {
	l := newLedGen(g, "txb")
	t := newTxbGen(l, 100000000)
	if kind == "" && g.Rng.Intn(3) == 0 {
		t.scale = 1000000 // poor wallets: fees matter
	}
	l.maxAddr = 4
	l.start(1 + g.Rng.Intn(2))
	// a few blocks so that something matures
	for i := 0; i < 3+g.Rng.Intn(4); i++ {
		t.extend()
	}
	l.drain()
	switch kind {
	case "feeloop":
		// many small coins: the relay fee of the selection exceeds the flat minimum and the loop iterates
		w := l.wallets[0]
		for i := 0; i < 6 && !t.fanout(w, 20+g.Rng.Intn(60), 20000, 400000); i++ {
			t.extend()
		}
		l.drain()
		g.Stats["history-feeloop"]++
	case "overfull":
		// more than k coins in one wallet: the selector's cap is reached
		w := l.wallets[0]
		for i := 0; i < 14 && !t.fanout(w, txbK+1+g.Rng.Intn(120), 20000, 60000); i++ {
			t.extend()
		}
		l.drain()
		_, elig := t.walletCoins(w)
		var topk, tot int64
		for i, c := range elig {
			if i < txbK {
				topk += c.amt
			}
			tot += c.amt
		}
		if len(elig) > txbK {
			g.Stats["history-overfull"]++
			l.op("auto-overfull", "auto %s 0 0 - - 0 %s:%d", w, l.stranger(), topk+(tot-topk)/2)
			l.op("auto-k-inputs", "auto %s 0 0 - - 0 %s:%d", w, l.stranger(), topk-topk/50)
			l.op("judge", "judge")
			l.op("sums", "sums")
			l.op("signfail", "signfail 1")
			l.op("signfail", "signfail 2")
			l.op("auto-k-inputs", "est %s 2000000 0 - - 0 %s:%d", w, l.stranger(), topk-topk/40)
			l.op("judge", "judge")
			l.op("sums", "sums")
		}
	}
	steps := 6 + g.Rng.Intn(g.Scale(14, 30))
	lazy := g.Rng.Intn(4) == 0
	for s := 0; s < steps; s++ {
		switch k := g.Rng.Intn(20); {
		case k < 5:
			t.extend()
		case k < 7:
			t.reorgTo(1+g.Rng.Intn(3), 1+g.Rng.Intn(2))
		case k < 10:
			l.recv()
		case k < 11:
			l.newAddr(l.wallets[g.Rng.Intn(len(l.wallets))])
		case k < 12:
			l.processOne()
		case k == 12 && g.Rng.Intn(3) == 0:
			// process restart: the reservation cache is volatile
			l.drain()
			t.reorged, t.remined = false, false
			l.op("restart", "restart")
			t.nReq = 0
		default:
			// no requests while the wallet has not been told about a reorganisation that mined one of its
			// transactions AGAIN: the wallet re-reads a coin's transaction by (height, byte offset) from
			// whatever block is at that height now and may find it there by coincidence of sizes, which
			// symbolic names cannot predict (otherwise such a stale coin is simply unresolvable: err:param)
			if !lazy || g.Rng.Intn(3) > 0 || (t.reorged && t.remined) {
				l.drain()
				t.reorged, t.remined = false, false
			} else {
				g.Stats["burst-while-lagging"]++
			}
			t.burst()
		}
	}
	l.drain()
	t.reorged, t.remined = false, false
	t.burst()
}

// ---------------------------------------------------------------- sweep with fee bump

// plainBlock extends the node's tip with a block holding a coinbase to cbDest and the given transactions.
func (t *txbGen) plainBlock(cbDest string, cbAmt int64, txs ...*gTx) *gBlock {
	l := t.ledGen
	pb := l.tip()
	l.nBlk++
	b := &gBlock{name: fmt.Sprintf("B%d", l.nBlk), parent: pb.name, height: pb.height + 1, utxo: map[string]gCoin{}}
	for k, v := range pb.utxo {
		b.utxo[k] = v
	}
	l.nTx++
	cb := &gTx{name: fmt.Sprintf("C%d", l.nTx), cb: true, outs: []string{fmt.Sprintf("%s:%d", cbDest, cbAmt)}}
	cb.line = fmt.Sprintf("tx %s %d cb %s", cb.name, l.nTx, cb.outs[0])
	l.define(cb)
	applyTx(b.utxo, cb, b.height)
	b.txs = []*gTx{cb}
	names := []string{cb.name}
	for _, x := range txs {
		l.define(x)
		applyTx(b.utxo, x, b.height)
		b.txs = append(b.txs, x)
		names = append(names, x.name)
	}
	l.blocks[b.name] = b
	l.op("block", "block %s %s %s", b.name, pb.name, strings.Join(names, ";"))
	l.op("submit", "submit %s", b.name)
	l.chain = append(l.chain, b.name)
	l.queue = append(l.queue, b.name)
	return b
}

// genTxbSweep: "send everything minus the quoted fee".  A fresh address of the wallet holds exactly n
// coins (all larger than any fee); the requests ask, from that address, for total − fee where fee is the
// relay minimum of the n-input transaction WITH a change output – the fee the wallet quotes after its
// first selection pass (flat minimum or a tiny user fee, non-dust change) has been rejected by the
// size-based relay fee.  On the retry the coins cover outputs + fee EXACTLY: the transaction must consist
// of the requested output only and inputs − outputs must be the reported fee.  Variants one maxwell
// around the exact cover and around the dust boundary of the change, first as estimates (no
// reservation), then as a real draft.
func genTxbSweep(g *Gen, n, payload int, userFee int64) {
	l := newLedGen(g, "txb")
	t := newTxbGen(l, 100000000)
	l.maxAddr = 8
	l.start(1)
	w := l.wallets[0]
	a0 := l.addrs[w][0]
	as := l.newAddr(w)
	src := t.plainBlock(a0, 900000000)
	for i := 0; i < l.cbm-1; i++ {
		t.plainBlock(l.stranger(), 100000000)
	}
	srcCoin := outCoins(src.txs[0], src.height)[0]
	l.nTx++
	x := &gTx{name: fmt.Sprintf("T%d", l.nTx), ins: []gCoin{srcCoin}}
	const lo, hi = int64(100000), int64(400000)
	delta := (hi - lo) / int64(n)
	slots := l.r.Perm(n)
	var total int64
	for i := 0; i < n; i++ {
		a := lo + int64(slots[i])*delta + l.r.Int63n(delta)
		x.outs = append(x.outs, fmt.Sprintf("%s:%d", as, a))
		total += a
	}
	x.outs = append(x.outs, fmt.Sprintf("%s:%d", l.stranger(), srcCoin.amt-total-20000))
	x.line = fmt.Sprintf("tx %s %d %s %s", x.name, l.nTx, srcCoin.key(), strings.Join(x.outs, ";"))
	t.plainBlock(l.stranger(), 100000000, x)
	t.plainBlock(l.stranger(), 100000000)
	l.drain()

	const mr = int64(10000)
	start := userFee
	if start == 0 {
		start = mr
	}
	feeWC := 10 * (154*int64(n) + 63*2 + 12 + int64(payload)) // relay minimum with the change output
	cls := "sweep-nobump"
	switch {
	case feeWC > start && feeWC-start >= mr:
		cls = "sweep-feebump" // first pass: non-dust change, fee rejected; retry: exact cover
	case feeWC > start:
		cls = "sweep-bump-dustchange"
	}
	dest := l.stranger()
	req := func(op string, out int64) {
		if out < 1 {
			return
		}
		l.op(cls, "%s %s %d 0 %s - %d %s:%d", op, w, userFee, as, payload, dest, out)
	}
	exact := total - feeWC
	if cls == "sweep-nobump" {
		exact = total - start
	}
	for _, d := range []int64{0, 1, -1, -(mr - 1), -mr, -(mr + 1)} {
		req("est", exact+d)
	}
	// the same amounts against the no-change size (what a one-pass quote would be)
	req("est", total-(feeWC-630))
	l.op("judge", "judge")
	l.op("sums", "sums")
	req("auto", exact)
	t.drafts++
	l.op("judge", "judge")
	l.op("sums", "sums")
	l.op("q-reserved", "reserved %s", w)
	// released again, the same sweep as a second draft must be possible
	l.op("signfail", "signfail 1")
	req("auto", exact)
	l.op("judge", "judge")
	l.op("sums", "sums")
}

func genTxbSweeps(g *Gen) {
	ns := []int{2, 7, 13}
	fees := []int64{0, 1 + g.Rng.Int63n(50)}
	if !g.Quick() {
		ns = []int{1, 2, 3, 6, 7, 8, 12, 13, 14, 20}
		fees = []int64{0, 1, 1 + g.Rng.Int63n(50), 5000, 12000}
	}
	for _, n := range ns {
		for _, pl := range []int{0, 600, 2048} {
			for _, f := range fees {
				genTxbSweep(g, n, pl, f)
			}
		}
	}
}

func genTxb(g *Gen) {
	genTxbUnit(g)
	genTxbSweeps(g)
	n := g.Scale(70, 1400)
	for h := 0; h < n; h++ {
		if h%14 == 9 { // stale wallet, same block-file offsets (gen_stale_same.go)
			genStaleSame(g)
			continue
		}
		kind := ""
		switch {
		case h%10 == 3:
			kind = "feeloop"
		case h%25 == 5:
			kind = "overfull"
		}
		genTxbHistory(g, kind)
	}
}
