package main

func genTxb(g *Gen) {
}
