package main

func genImp(g *Gen) {}
func genRem(g *Gen) {}
