package main

// Generators of the import (C07) and removal (C08) engines. Chain histories come from the chain
// simulator of gen_led.go (ledGen); this file adds the second wallet instance, the import moment,
// batch stepping interleaved with node events and notifications, flip-flop reorganisations, long
// (> 1000 blocks) chains for multi-batch rescans, removal at random moments with follower activity
// and restarts between the steps, residue scans, survivors' observations and re-import.

import (
	"fmt"
	"strings"
)

type irGen struct {
	g    *Gen
	l    *ledGen
	q2   []string // notifications not yet delivered to instance 2
	has2 bool     // instance 2 exists (has been touched)
	v    []string // wallets native to instance 2
	live []string // wallets of instance 1 that exist (not removed)
	fill int
	// blocks whose coinbase carries an indexed-but-unsupported output to address 0 of a wallet (D41)
	unsup map[string][]string
}

func (t *irGen) op(class, f string, a ...interface{}) { t.g.Op(class, f, a...) }

// nodeEvent runs a ledGen node event and mirrors the new notifications into instance 2's queue.
func (t *irGen) nodeEvent(f func()) {
	n0 := len(t.l.queue)
	f()
	t.q2 = append(t.q2, t.l.queue[n0:]...)
}

func (t *irGen) p1() { t.l.processOne() }
func (t *irGen) p2() {
	if len(t.q2) == 0 {
		return
	}
	b := t.q2[0]
	t.q2 = t.q2[1:]
	t.op("i2-notify", "i2 notify %s", b)
}
func (t *irGen) drain1() { t.l.drain() }
func (t *irGen) drain2() {
	for len(t.q2) > 0 {
		t.p2()
	}
}

// fillBlocks mines k empty blocks (macro op `fill`) and mirrors them in the chain simulator.
func (t *irGen) fillBlocks(k, mask int) {
	t.fill++
	tag := fmt.Sprintf("F%d", t.fill)
	l := t.l
	t.op("fill", "fill %d %s %d", k, tag, mask)
	for i := 1; i <= k; i++ {
		pb := l.tip()
		b := &gBlock{name: fmt.Sprintf("%s.%d", tag, i), parent: pb.name, height: pb.height + 1, utxo: pb.utxo}
		l.blocks[b.name] = b
		l.chain = append(l.chain, b.name)
		if mask&1 == 0 {
			l.queue = append(l.queue, b.name)
		}
		if mask&2 == 0 {
			t.q2 = append(t.q2, b.name)
		}
	}
}

// craftUnsupported extends the node's chain by a block whose coinbase pays, besides a stranger, a binding
// template to address 0 of wallet w whose target has no address form: the node indexes the transaction
// under w's script hash, the wallet reads the script as unsupported. The rescan meets an indexed transaction
// that filterTxForImporting finds irrelevant and skips it (fix D41). The odd coin stays out of the chain
// simulator's unspent set (nothing spends it).
func (t *irGen) craftUnsupported(w string) {
	l := t.l
	pb := l.tip()
	l.nBlk++
	b := &gBlock{name: fmt.Sprintf("B%d", l.nBlk), parent: pb.name, height: pb.height + 1, utxo: map[string]gCoin{}}
	for k, v := range pb.utxo {
		b.utxo[k] = v
	}
	l.nTx++
	cb := &gTx{name: fmt.Sprintf("C%d", l.nTx), cb: true}
	cb.outs = []string{fmt.Sprintf("%s:%d", l.stranger(), (100+l.r.Int63n(900))*1000000)}
	applyTx(b.utxo, cb, b.height)
	cb.outs = append(cb.outs, fmt.Sprintf("%s:%d:bindbad:%d", l.addrs[w][0], (1+l.r.Int63n(9))*1000000, l.r.Intn(3)))
	cb.line = fmt.Sprintf("tx %s %d cb %s", cb.name, l.nTx, strings.Join(cb.outs, ";"))
	l.define(cb)
	b.txs = append(b.txs, cb)
	l.blocks[b.name] = b
	t.op("block", "block %s %s %s", b.name, pb.name, cb.name)
	t.op("submit", "submit %s", b.name)
	l.chain = append(l.chain, b.name)
	l.queue = append(l.queue, b.name)
	l.markDead()
	if t.unsup == nil {
		t.unsup = map[string][]string{}
	}
	t.unsup[w] = append(t.unsup[w], b.name)
	t.g.Stats["craft-unsupported-indexed"]++
}

// unsupOnChain: does the node's chain hold a crafted block for wallet w?
func (t *irGen) unsupOnChain(w string) bool {
	for _, bn := range t.unsup[w] {
		for _, c := range t.l.chain {
			if c == bn {
				return true
			}
		}
	}
	return false
}

// usedOnChain: is the address paid by a template output on the node's current chain?
func (t *irGen) usedOnChain(addr string) bool {
	for _, bn := range t.l.chain {
		for _, tx := range t.l.blocks[bn].txs {
			for _, o := range tx.outs {
				p := strings.Split(o, ":")
				if p[0] == addr {
					return true
				}
			}
		}
	}
	return false
}

// flipFlop: the node reorganises to a fresh branch and back to the old one (re-attaching the very
// same blocks), then extends it. `mid` runs while the node is on the temporary branch.
func (t *irGen) flipFlop(depth int, mid func()) {
	l := t.l
	if depth >= len(l.chain) {
		depth = len(l.chain) - 1
	}
	if depth < 1 {
		return
	}
	old := append([]string{}, l.chain[len(l.chain)-depth:]...)
	pool := append([]*gTx{}, l.pool...)
	for i := 0; i < depth; i++ {
		t.op("detach", "detach")
		l.chain = l.chain[:len(l.chain)-1]
	}
	var alt []string
	for i := 0; i < depth+1; i++ {
		b := l.buildBlock(l.tip().name)
		t.op("submit", "submit %s", b.name)
		l.chain = append(l.chain, b.name)
		alt = append(alt, b.name)
	}
	l.queue = append(l.queue, alt...)
	t.q2 = append(t.q2, alt...)
	if mid != nil {
		mid()
	}
	for range alt {
		t.op("detach", "detach")
		l.chain = l.chain[:len(l.chain)-1]
	}
	l.pool = pool // what the temporary branch confirmed is pending again
	for _, n := range old {
		t.op("submit", "submit %s", n)
		l.chain = append(l.chain, n)
	}
	l.queue = append(l.queue, old...)
	t.q2 = append(t.q2, old...)
	t.nodeEvent(func() { l.extend(); l.extend() })
	t.g.Stats["flip-flop"]++
}

func (t *irGen) observe1(ws []string, full bool) {
	l := t.l
	if full {
		// the history queries read transactions back from the node at the wallet's height: they are only
		// meaningful (and only specified) once the follower has been told about the node's chain
		t.drain1()
	}
	t.op("q-synced", "synced")
	for _, w := range ws {
		t.op("q-bal", "bal %s 1", w)
		t.op("q-utxos", "utxos %s", w)
		if full {
			t.op("q-addrs", "addrs %s", w)
			t.op("q-shist", "shist %s %d", w, l.r.Intn(2))
			t.op("q-bhist", "bhist %s %d", w, l.r.Intn(2))
			t.op("q-sbu", "sbu %s", w)
			t.op("q-shistp", "shistp %s", w)
		}
	}
	if full {
		t.op("q-pend", "pend")
	}
}

func (t *irGen) observe2(ws []string, full bool) {
	l := t.l
	if full {
		t.drain2()
	}
	t.op("i2-q-synced", "i2 synced")
	for _, w := range ws {
		t.op("i2-q-bal", "i2 bal %s 1", w)
		t.op("i2-q-utxos", "i2 utxos %s", w)
		if full {
			t.op("i2-q-shist", "i2 shist %s %d", w, l.r.Intn(2))
			t.op("i2-q-bhist", "i2 bhist %s %d", w, l.r.Intn(2))
			t.op("i2-q-sbu", "i2 sbu %s", w)
			t.op("i2-q-shistp", "i2 shistp %s", w)
			t.op("i2-q-bhistp", "i2 bhistp %s", w)
		}
	}
	if full {
		t.op("i2-q-pend", "i2 pend")
		t.op("i2-q-wallets", "i2 wallets")
	}
}

// chainStep: one random node / mempool event (no notifications delivered).
func (t *irGen) chainStep(reorgDepth int) {
	l := t.l
	switch k := l.r.Intn(20); {
	case k < 9:
		t.nodeEvent(l.extend)
	case k < 13:
		t.nodeEvent(func() { l.reorgTo(1+l.r.Intn(reorgDepth), 1+l.r.Intn(2)) })
	case k < 17:
		l.recv()
	default:
		l.newAddr(l.wallets[l.r.Intn(len(l.wallets))])
	}
}

// ---------------------------------------------------------------- C07

func genImp(g *Gen) {
	nHist := g.Scale(70, 1000)
	nLong := g.Scale(5, 50)
	genImpTrailing(g) // gen_imp_trail.go: first in the stream, own random source
	for h := 0; h < nHist || (!g.Covered() && h < 4*nHist); h++ {
		// (beyond the budget: long histories in turn, they carry most of the required classes)
		genImpHistory(g, h < nLong || (h >= nHist && h%2 == 0), h)
	}
}

// heights (relative to the batch size 1000) the follower of instance 2 is brought to before a multi-batch
// import: the first batch then stops one below / exactly at / above the tip
var impTargets = []int{1001, 1000, 1002, 999, 2001, 2000, 1500}

func genImpHistory(g *Gen, long bool, idx int) {
	r := g.Rng
	l := newLedGen(g, "imp")
	t := &irGen{g: g, l: l}
	nW := 1 + r.Intn(2)
	l.start(nW)
	t.live = append([]string{}, l.wallets...)
	own1 := append([]string{}, l.wallets...)
	// a wallet native to instance 2 that shares transactions with the imported one
	if r.Intn(2) == 0 {
		t.op("i2-wallet", "i2 wallet V1")
		l.wallets = append(l.wallets, "V1")
		for i := 0; i < l.maxAddr; i++ {
			l.nAddr++
			a := fmt.Sprintf("A%d", l.nAddr)
			l.addrs["V1"] = append(l.addrs["V1"], a)
			l.owner[a] = "V1"
			t.op("i2-addr", "i2 addr V1 %s std", a)
		}
		t.v = []string{"V1"}
		g.Stats["twin-native-wallet"]++
	}
	lag2 := r.Intn(3) == 0 // instance 2 processes notifications late
	deliver := func() {
		if r.Intn(4) > 0 {
			t.drain1()
		} else if r.Intn(2) == 0 {
			t.p1()
		}
		if !lag2 || r.Intn(4) == 0 {
			t.drain2()
		} else if r.Intn(3) == 0 {
			t.p2()
		}
	}
	// ---- history before the import
	pre := 4 + r.Intn(g.Scale(14, 30))
	exact := false
	fillAt := -1
	if long && idx%2 == 1 {
		fillAt = r.Intn(pre)
	}
	for s := 0; s < pre; s++ {
		if s == fillAt {
			t.drain1()
			t.drain2()
			// 1000 = the batch size: lengths around it put the cursor below / at / above later forks
			t.fillBlocks(990+r.Intn(40), 3)
			g.Stats["long-chain"]++
		}
		if long && s == pre-1 && idx%2 == 0 {
			// boundary: the tip the first batch sees is exactly target (both followers synced to it)
			t.drain1()
			t.drain2()
			target := impTargets[(idx/2)%len(impTargets)]
			if d := target - (len(l.chain) - 1); d > 0 {
				t.fillBlocks(d, 3)
				exact = true
				g.Stats[fmt.Sprintf("tip-at-%d", target)]++
			}
			break
		}
		if r.Intn(8) == 0 {
			t.nodeEvent(func() { t.craftUnsupported(own1[r.Intn(len(own1))]) })
		} else {
			t.chainStep(g.Scale(4, 8))
		}
		deliver()
		if r.Intn(5) == 0 {
			t.observe1(own1, false)
			if len(t.v) > 0 {
				t.observe2(t.v, false)
			}
		}
	}
	// ---- the import moment
	w := own1[r.Intn(len(own1))]
	mode, n := "mn", len(l.addrs[w])
	switch r.Intn(5) {
	case 0:
		mode = "ks"
	case 1: // address discovery by the gap-limit scan: the keystore ends at the last used address
		n = 0
		last := 0
		for i, a := range l.addrs[w] {
			if t.usedOnChain(a) {
				last = i + 1
			}
		}
		if last == 0 {
			last = 1
		}
		// from now on only discovered addresses are paid (payments to addresses the restored
		// keystore does not have are C12's subject)
		for _, a := range l.addrs[w][last:] {
			delete(l.owner, a)
		}
		l.addrs[w] = l.addrs[w][:last]
		g.Stats["import-discovery"]++
	}
	l.maxAddr = 0 // no address is issued after the import moment
	if exact || r.Intn(3) > 0 {
		t.drain2()
	} else {
		g.Stats["import-while-lagging"]++
	}
	t.op("import", "i2 import %s %s %d", w, mode, n)
	if exact {
		// the first batch runs against exactly that tip, and its outcome is observed at once
		// (stepped silently, so that a wrong hand-over shows as a wrong answer of UseWallet - which has a
		// specification - and not merely as a different step result)
		t.op("impstep-at-boundary", "i2 impsteps %s 1", w)
		t.op("i2-use-importing", "i2 use %s", w)
		t.op("i2-wallets", "i2 wallets")
		if tip := len(l.chain) - 1; tip > 1000 && tip-999 <= 60 && r.Intn(3) > 0 {
			// a reorganisation whose lowest replaced block is exactly the block at the cursor (1000):
			// the cursor has to go back to 999 (notify checks it against the fork point)
			t.nodeEvent(func() { l.reorgTo(tip-999, 1+r.Intn(2)) })
			t.drain2()
			t.op("i2-wallets", "i2 wallets")
			g.Stats["reorg-at-cursor"]++
		}
	}
	t.op("i2-tasks", "i2 tasks")
	t.op("i2-wallets", "i2 wallets")
	t.op("i2-use-importing", "i2 use %s", w)
	if r.Intn(3) == 0 {
		t.op("i2-q-bal-importing", "i2 bal %s 1", w)
	}
	if r.Intn(6) == 0 {
		t.op("import-dup", "i2 import %s mn %d", w, n)
	}
	// ---- rescan batches interleaved with everything else
	steps := 3 + r.Intn(g.Scale(10, 24))
	for s := 0; s < steps; s++ {
		switch k := r.Intn(20); {
		case k < 7:
			t.op("impstep", "i2 impstep %s", w)
		case k < 10:
			if r.Intn(4) == 0 {
				t.nodeEvent(func() { t.craftUnsupported(w) })
			} else {
				t.nodeEvent(l.extend)
			}
		case k < 12:
			d := 1 + r.Intn(g.Scale(4, 8))
			if long && r.Intn(2) == 0 {
				d = 1 + r.Intn(45) // forks below the cursor of a 1000-block batch
			}
			t.nodeEvent(func() { l.reorgTo(d, 1+r.Intn(2)) })
			g.Stats["reorg-during-import"]++
		case k < 13:
			t.flipFlop(1+r.Intn(3), func() {
				if r.Intn(3) > 0 {
					t.op("impstep-on-temp-branch", "i2 impstep %s", w)
				}
				if r.Intn(3) == 0 {
					t.p2()
				}
			})
		case k < 15:
			t.p2()
		case k < 16:
			t.drain2()
		case k < 17:
			t.p1()
		case k < 18:
			l.recv()
			if len(l.pool) > 0 && r.Intn(2) == 0 {
				t.op("i2-recvtx", "i2 recvtx %s", l.pool[r.Intn(len(l.pool))].name)
			}
		case k < 19:
			t.op("i2-restart", "i2 restart")
			t.op("i2-inittasks", "i2 inittasks")
			t.op("i2-tasks", "i2 tasks")
			g.Stats["restart-during-import"]++
		default:
			t.op("i2-wallets", "i2 wallets")
			t.op("i2-use-importing", "i2 use %s", w)
		}
	}
	// ---- let it finish: follower 2 catches up, then enough batches for the whole chain
	t.drain1()
	t.drain2()
	if t.unsupOnChain(w) {
		g.Stats["import-unsupported-indexed"]++
	}
	for i := 0; i < len(l.chain)/1000+3; i++ {
		t.op("impstep-flush", "i2 impstep %s", w)
	}
	t.op("i2-wallets", "i2 wallets")
	t.op("i2-use-done", "i2 use %s", w)
	t.op("twin", "twin %s", w)
	t.observe2(append([]string{w}, t.v...), true)
	t.observe1(own1, true)
	t.op("i2-expired", "i2 expired")
	// ---- life goes on with the wallet ready in both instances
	post := 2 + r.Intn(g.Scale(8, 16))
	for s := 0; s < post; s++ {
		t.chainStep(g.Scale(5, 9))
		if r.Intn(4) == 0 && len(l.pool) > 0 {
			t.op("i2-recvtx", "i2 recvtx %s", l.pool[r.Intn(len(l.pool))].name)
		}
		deliver()
		if r.Intn(4) == 0 {
			t.drain1()
			t.drain2()
			t.op("twin", "twin %s", w)
		}
	}
	t.drain1()
	t.drain2()
	t.op("twin", "twin %s", w)
	t.observe2(append([]string{w}, t.v...), true)
	t.observe1(own1, true)
}
