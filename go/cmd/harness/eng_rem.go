package main

// Engine rem (C08), removal half of the executor shared with engine imp (see eng_imp.go for the op
// language): RemoveWallet gating, asyncRemove stepped transaction by transaction through the
// suspend/resume hand-shake, the raw residue scan of every bucket, dangling debit / credit records.

import (
	"bytes"
	"fmt"
	"os"
	"runtime"
	"strings"
	"time"

	"github.com/massnetorg/mass-core/massutil"
	"massnet.org/mass-wallet/config"
	"massnet.org/mass-wallet/masswallet"
	mwdb "massnet.org/mass-wallet/masswallet/db"
	"massnet.org/mass-wallet/masswallet/keystore"
)

// ---------------------------------------------------------------- removal

func removeWallet(e *WEnv, w, pass string) string {
	id, ok := e.wallets[w]
	if !ok {
		return "bad-op"
	}
	p := privPass(w)
	if pass != "good" {
		p = "wrong-" + p
	}
	err := e.wm.RemoveWallet(id, p)
	switch err {
	case nil:
		return "ok"
	case masswallet.ErrTooManyTask:
		return "err-busy"
	case masswallet.ErrWalletUnready:
		return "err-unready"
	case keystore.ErrInvalidPassphrase:
		return "err-pass"
	case keystore.ErrAccountNotFound:
		return "err-nowallet"
	}
	if verifDebug {
		fmt.Fprintln(os.Stderr, "  [impl error] remove:", err)
	}
	return "err"
}

// parkedInSuspend: is some goroutine blocked inside NtfnsHandler.suspend?
func parkedInSuspend() bool {
	buf := make([]byte, 1<<18)
	n := runtime.Stack(buf, true)
	return bytes.Contains(buf[:n], []byte("(*NtfnsHandler).suspend("))
}

func (in *irInst) finished(err error) string {
	switch err {
	case nil:
		in.rm.res = "done-ok"
	case masswallet.ErrTaskAbort:
		in.rm.res = "done-abort"
	default:
		if verifDebug {
			fmt.Fprintln(os.Stderr, "  [impl error] asyncRemove:", err)
		}
		in.rm.res = "done-err"
		if strings.HasPrefix(err.Error(), "PANIC") {
			in.rm.res = err.Error()
		}
	}
	return in.rm.res
}

func (in *irInst) waitParked() string {
	for i := 0; ; i++ {
		select {
		case err := <-in.rm.done:
			return in.finished(err)
		default:
		}
		if parkedInSuspend() {
			return "parked"
		}
		if i > 200 {
			time.Sleep(50 * time.Microsecond)
		} else {
			runtime.Gosched()
		}
	}
}

func (in *irInst) remBegin(w string) string {
	id, ok := in.e.wallets[w]
	if !ok {
		return "bad-op"
	}
	if in.rm != nil && in.rm.res == "" {
		return "bad-op" // one removal at a time (the worker is a single goroutine)
	}
	if st := walletStatusTok(in.e, w); st != "removing" && st != "absent" {
		return "bad-op" // the worker runs asyncRemove only for a queued task, i.e. a flagged wallet
	}
	rm := &remRun{id: id, done: make(chan error, 1)}
	in.rm = rm
	wm := in.e.wm
	go func() {
		defer func() {
			if r := recover(); r != nil {
				rm.done <- fmt.Errorf("PANIC %v", r)
			}
		}()
		rm.done <- wm.VerifAsyncRemove(id)
	}()
	return in.waitParked()
}

func (in *irInst) remStep() string {
	if in.rm == nil || in.rm.res != "" {
		return "bad-op"
	}
	if in.fdb != nil {
		in.fdb.arm() // copy the wallet directory after every commit of this step (eng_rem_fork.go)
		defer in.fdb.disarm()
	}
	sus, res := in.e.wm.VerifHandshake()
	<-sus // the follower yields: the phase runs now
	<-res // the phase has committed (or failed) and hands control back
	return in.waitParked()
}

func (in *irInst) remQuit() string {
	if in.rm == nil || in.rm.res != "" {
		return "bad-op"
	}
	in.e.wm.VerifCloseQuit()
	return in.finished(<-in.rm.done) // a worker waiting in suspend gives up once quit is closed
}

// residue scans EVERY bucket of the wallet database (recursively from the top-level buckets, bucket
// names included) for the wallet id, the script hashes and the encoded addresses of wallet w.
// Output: sorted `bucketpath:entries-with-a-hit`; the keystore tree is collapsed to `k:1`.
// With pendOnly only the pending-transaction bucket (t/m) is reported, otherwise it is excluded
// (a pending transaction that also concerns another wallet legitimately keeps its full bytes).
func residue(e *WEnv, w string, pendOnly bool) string {
	id, ok := e.wallets[w]
	if !ok {
		return "bad-op"
	}
	var needles [][]byte
	needles = append(needles, []byte(id))
	for _, ai := range e.addrs {
		if ai.wallet != w {
			continue
		}
		needles = append(needles, ai.sh, []byte(ai.enc), []byte(ai.stdEnc))
		if stk, err := massutil.NewAddressStakingScriptHash(ai.sh, config.ChainParams); err == nil {
			needles = append(needles, []byte(stk.EncodeAddress()))
		}
	}
	hit := func(b []byte) bool {
		for _, n := range needles {
			if len(n) > 0 && bytes.Contains(b, n) {
				return true
			}
		}
		return false
	}
	counts := map[string]int{}
	var walk func(b mwdb.Bucket, path string) error
	walk = func(b mwdb.Bucket, path string) error {
		if hit([]byte(path)) {
			counts[path]++
		}
		ents, err := b.GetByPrefix(nil)
		if err != nil {
			return err
		}
		for _, en := range ents {
			if hit(en.Key) || hit(en.Value) {
				counts[path]++
			}
		}
		subs, err := b.BucketNames()
		if err != nil {
			return err
		}
		for _, s := range subs {
			sb := b.Bucket(s)
			if sb == nil {
				continue
			}
			if err := walk(sb, path+"/"+s); err != nil {
				return err
			}
		}
		return nil
	}
	err := mwdb.View(e.wdb, func(tx mwdb.ReadTransaction) error {
		tops, err := tx.BucketNames()
		if err != nil {
			return err
		}
		for _, t := range tops {
			b := tx.TopLevelBucket(t)
			if b == nil {
				continue
			}
			if err := walk(b, t); err != nil {
				return err
			}
		}
		return nil
	})
	if err != nil {
		return "err"
	}
	var items []string
	ks := 0
	for p, c := range counts {
		switch {
		case p == "k" || strings.HasPrefix(p, "k/"):
			ks += c
		case p == "t/m":
			if pendOnly {
				items = append(items, fmt.Sprintf("%s:%d", p, c))
			}
		default:
			if !pendOnly {
				items = append(items, fmt.Sprintf("%s:%d", p, c))
			}
		}
	}
	if ks > 0 && !pendOnly {
		items = append(items, "k:1")
	}
	return joinSorted(items)
}

// dangling: debit records whose credit record is missing (`d:T:i`) and credits flagged spent whose
// debit record is missing (`c:T:i`). Rollback fails on the former ("unspend non-existence credit").
func dangling(e *WEnv) string {
	bm := e.wm.VerifBucketMeta().VerifBuckets()
	var items []string
	err := mwdb.View(e.wdb, func(tx mwdb.ReadTransaction) error {
		nsC := tx.FetchBucket(bm["credits"])
		nsD := tx.FetchBucket(bm["debits"])
		ds, err := nsD.GetByPrefix(nil)
		if err != nil {
			return err
		}
		for _, d := range ds {
			if len(d.Key) < 76 || len(d.Value) < 84 {
				items = append(items, "d:malformed")
				continue
			}
			cv, _ := nsC.Get(d.Value[8:84])
			if cv == nil {
				var h [32]byte
				copy(h[:], d.Key[:32])
				items = append(items, fmt.Sprintf("d:%s:%d", e.txNameOfHash(h), uint32(d.Key[72])<<24|uint32(d.Key[73])<<16|uint32(d.Key[74])<<8|uint32(d.Key[75])))
			}
		}
		cs, err := nsC.GetByPrefix(nil)
		if err != nil {
			return err
		}
		for _, c := range cs {
			if len(c.Key) < 76 || len(c.Value) < 45 || c.Value[8]&1 == 0 {
				continue
			}
			missing := len(c.Value) < 121
			if !missing {
				dv, _ := nsD.Get(c.Value[45:121])
				missing = dv == nil
			}
			if missing {
				var h [32]byte
				copy(h[:], c.Key[:32])
				items = append(items, fmt.Sprintf("c:%s:%d", e.txNameOfHash(h), uint32(c.Key[72])<<24|uint32(c.Key[73])<<16|uint32(c.Key[74])<<8|uint32(c.Key[75])))
			}
		}
		return nil
	})
	if err != nil {
		return "err"
	}
	return joinSorted(items)
}

func (e *WEnv) txNameOfHash(h [32]byte) string {
	if ti, ok := e.txByHash[h]; ok {
		return ti.name
	}
	return "?"
}
