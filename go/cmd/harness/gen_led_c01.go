package main

import "fmt"

// C01 / C10 additions to the ledger generator: the structure the proofs found load-bearing.
//
//   * the follower's reorg() connects SEVERAL blocks in one database transaction only when a notification
//     arrives for a block whose parent is not the wallet's tip: after a restart (Start() replays the node's
//     chain by height from syncedTo+1: catchUp) or when tips were announced and superseded before being
//     handled. The proofs (connectAll_sound, alignNew_spec, walkBack_spec) cover any number of rolled-back
//     and connected blocks; the classes below make sure the stream exercises ≥2 of each in ONE call
//     (D2 lived exactly there).
//   * stale notifications (the block is no longer on the node's chain): they fail, or – when the block is
//     still on the wallet's stored chain – succeed as a pure rollback (processBlock_total).
//   * reorganisations across deposit and withdrawal blocks (C10: withdrawn flips back, deposit leaves).
//
// The generator mirrors what the wallet has synced (l.synced) with the same case analysis as
// processBlock_total, only to COUNT classes; it never influences expected outputs.

// noteNotify classifies the notification of block b against the simulated wallet chain and updates it.
func (l *ledGen) noteNotify(b string) {
	if len(l.synced) == 0 {
		l.synced = []string{"G"}
	}
	blk := l.blocks[b]
	h := blk.height
	onChain := h < len(l.chain) && l.chain[h] == b
	onSynced := h < len(l.synced) && l.synced[h] == b
	tipS := l.synced[len(l.synced)-1]
	st := l.g.Stats
	switch {
	case onChain && blk.parent == tipS:
		st["notify-extend"]++
		l.synced = append([]string{}, l.chain[:h+1]...)
	case onChain:
		f := 0 // fork height: the longest common prefix of the wallet's chain and the node's chain up to b
		for f+1 < len(l.synced) && f+1 <= h && l.synced[f+1] == l.chain[f+1] {
			f++
		}
		rolls := len(l.synced) - 1 - f
		connects := h - f
		st["notify-reorg"]++
		if rolls == 0 {
			st["notify-gap"]++ // nothing to roll back: notifications were skipped
		}
		if connects == 0 {
			st["notify-old-block"]++ // b is an ancestor of the wallet's tip: pure rollback
		}
		if rolls >= 2 {
			st["notify-rolls>=2"]++
		}
		if connects >= 2 {
			st["notify-connects>=2"]++
		}
		if rolls >= 1 && connects >= 2 {
			st["notify-reorg-batch"]++ // the D2 shape: roll back, then connect several blocks in one transaction
		}
		l.synced = append([]string{}, l.chain[:h+1]...)
	case onSynced:
		st["notify-stale-on-wallet-chain"]++
		l.synced = l.synced[:h+1]
	default:
		st["notify-stale-fails"]++
	}
}

// catchUp: the wallet restarts; Start() replays the node's best chain by height from syncedTo+1.
// Pending notifications are lost with the process.
func (l *ledGen) catchUp() {
	if len(l.synced) == 0 {
		l.synced = []string{"G"}
	}
	l.queue = nil
	l.banPool()
	l.op("restart", "restart")
	isPrefix := len(l.synced) <= len(l.chain)
	for i := 0; isPrefix && i < len(l.synced); i++ {
		if l.synced[i] != l.chain[i] {
			isPrefix = false
		}
	}
	if !isPrefix {
		l.g.Stats["catchup-after-reorg"]++
	}
	for h := len(l.synced); h < len(l.chain); h++ {
		b := l.chain[h]
		l.noteNotify(b)
		l.op("notify", "notify %s", b)
	}
	l.g.Stats["catchup"]++
}

// countUndone: a reorganisation detaches block ob
func (l *ledGen) countUndone(ob *gBlock) {
	for _, t := range ob.txs {
		for _, spec := range t.outs {
			if (containsTok(spec, ":stk:") || containsTok(spec, ":bind:") || containsTok(spec, ":bind22:")) && l.paysWallet(t) {
				l.g.Stats["reorg-undoes-deposit"]++
			}
		}
		for _, c := range t.ins {
			if (c.cls == "stk" || c.cls == "bind") && l.owner[c.addr] != "" {
				l.g.Stats["reorg-undoes-withdrawal"]++
			}
		}
		ws := map[string]bool{}
		for _, c := range outCoins(t, 0) {
			if c.cls != "raw" && l.owner[c.addr] != "" {
				ws[l.owner[c.addr]] = true
			}
		}
		for _, c := range t.ins {
			if l.owner[c.addr] != "" {
				ws[l.owner[c.addr]] = true
			}
		}
		if len(ws) >= 2 {
			l.g.Stats["reorg-undoes-shared-tx"]++
		}
	}
}

// countBlockTx: classes of a transaction mined in a block
func (l *ledGen) countBlockTx(t *gTx) {
	ws := map[string]bool{}
	for _, c := range outCoins(t, 0) {
		if c.cls != "raw" && l.owner[c.addr] != "" {
			ws[l.owner[c.addr]] = true
			if c.amt == 0 {
				l.g.Stats["blk-owned-zero-output"]++
			}
		}
	}
	for _, c := range t.ins {
		if l.owner[c.addr] != "" {
			ws[l.owner[c.addr]] = true
		}
	}
	if len(ws) >= 2 {
		l.g.Stats["blk-tx-shared"]++ // relevant to two wallets
	}
}

func containsTok(s, sub string) bool {
	for i := 0; i+len(sub) <= len(s); i++ {
		if s[i:i+len(sub)] == sub {
			return true
		}
	}
	return false
}

// skipAhead: tips were announced faster than handled and the handler only sees a later one
// (the follower's reorg() step 1 walks the new branch back to the wallet's height).
func (l *ledGen) skipAhead() {
	if len(l.queue) < 2 {
		l.processOne()
		return
	}
	k := 1 + l.r.Intn(len(l.queue)-1)
	l.queue = l.queue[k:]
	l.g.Stats["notify-skipped"] += k
	l.processOne()
}

// reannounce: a notification for a block the wallet already has (duplicate delivery). When the block is
// still on the node's chain the follower rolls the wallet back to it; the next notifications reconnect.
func (l *ledGen) reannounce() {
	if len(l.synced) < 2 {
		return
	}
	b := l.synced[l.r.Intn(len(l.synced)-1)+0]
	if b == "G" || !l.rollbackSafe(l.blocks[b].height) {
		return
	}
	l.g.Stats["notify-reannounce"]++
	l.banPool()
	l.noteNotify(b)
	l.op("notify", "notify %s", b)
}

// disturb: one of the irregular notification patterns
func (l *ledGen) disturb() {
	switch l.r.Intn(4) {
	case 0:
		l.catchUp()
	case 1, 2:
		l.skipAhead()
	default:
		l.reannounce()
	}
}

// cbDeposit: now and then a coinbase pays a staking or (old-style) binding output to a wallet. Consensus does
// not constrain the miner's own outputs; such an output needs BOTH the coinbase maturity and the lock of its
// script (two defects lived here: the credit took the coinbase maturity only, and Rollback kept its deposit
// record). Frozen periods satisfy frozen+1 >= CoinbaseMaturity as on the main network (61440 vs 1000).
func (l *ledGen) cbDeposit() string {
	if l.g.Prop == "C09" || l.r.Intn(10) != 0 {
		return ""
	}
	w := l.wallets[l.r.Intn(len(l.wallets))]
	l.g.Stats["blk-cb-deposit"]++
	if l.r.Intn(3) == 0 {
		return fmt.Sprintf("%s:%d:bind:%d", l.someAddr(w), 50+l.r.Int63n(100), l.r.Intn(5))
	}
	fr := l.minFr + l.r.Intn(3)
	if fr+1 < l.cbm {
		fr = l.cbm - 1
	}
	return fmt.Sprintf("%s:%d:stk:%d", l.someAddr(w), 50+l.r.Int63n(100), fr)
}

// banPool: a step that rolls the WALLET back while the node's chain stays (duplicate notification of an old
// block, restart) can make a pending transaction vanish in the wallet although it is still valid on the node
// (Rollback purges the pending spenders of a rolled-back wallet coinbase output); its re-broadcast is then
// ignored while the follower's volatile seen-set holds the id. Re-delivery of a vanished transaction is
// outside C09's compared domain (notes/C09.md), so such transactions are not delivered again.
func (l *ledGen) banPool() {
	for _, p := range l.pool {
		l.dead[p.name] = true
	}
}

// rollbackSafe: a wallet-only rollback to height h stays inside C09's compared domain when no defined
// transaction spends a STRANGER's coinbase output created above h (known finding C09 foreign-coinbase-orphan:
// Rollback purges the pending spenders of the wallet's coinbase credits only; the random stream avoids other
// instances – reorganisations stay within maxReorg, a duplicate notification of an old block may go deeper).
func (l *ledGen) rollbackSafe(h int) bool {
	for _, t := range l.defined {
		for _, c := range t.ins {
			if c.cb && l.owner[c.addr] == "" && c.height > h {
				return false
			}
		}
	}
	return true
}

// walletOnBestChain: the wallet's tip block is on the node's best chain (pure lag is fine). The real entry
// point only accepts unconfirmed transactions when the wallet is within one block of the node's best height
// (the gate in proccessReceivedTx that the verification hook bypasses); a delivery that already conflicts with
// the wallet's OWN stale chain is outside the compared domain of C09 (notes/C09.md).
func (l *ledGen) walletOnBestChain() bool {
	if len(l.synced) == 0 {
		return true
	}
	h := len(l.synced) - 1
	return h < len(l.chain) && l.chain[h] == l.synced[h]
}
