package main

// Engine `codec`: the REAL key / value builders and readers of masswallet/txmgr (through the thin wrappers of
// masswallet/txmgr/hooks_codec_verif.go) against the table-driven Lean codecs of MW.Model.TxmgrCodec
// (driver MW.Drv.Codec).  Stateless: every op line is independent.  Bucket-level functions (spendCredit,
// putDebit, updateBlockRecord, the prefix scans …) run on a bucket of a REAL on-disk LevelDB (masswallet/db/ldb)
// inside a write transaction that is rolled back after the op.
//
// Arguments: H / BH 32-byte hashes (hex), W wallet id (hex of the string's bytes, any length), K / V byte strings
// (hex, "-" = empty), integers in decimal, flags 0/1.  Outputs: hex strings and decimal fields separated by blanks;
// "err" for an error return; lists joined by ",".
//
//   cop H I | usk W H I | rusk K | ck H I HT BH | dk H I HT BH | rck K | ruck K | cuk K V
//   vuc AMT CH CLS MAT SH | vumc AMT CH MAT SH STK BND | rcv V | spend V H HT BH I | unspend V | rcs V
//   fas V | fms V | ufm V | tkc K | uvc K | deb H I AMT HT BH CK | vus HT BH | rbu V | bal W AMT
//   kar W CLS ADDR | var HT | rah V | kgh W B WD H HT VOUT | kugh W B WD H HT VOUT | rgh U K | vgh
//   pend TS SER | ktr H HT BH | rtk K | vtr H HT BH F O L S N | rtl V
//   kbr HT | vbr HT BH TS H1,H2,… | rbr K V | rbh V | sync HT BH TS | rsync HT V | sto HT BH TS | pws W HT FL | rws K V
//   scan ctx H KS | scan ctxh H HT KS | scan clast H I HT KS | scan trh H HT KS | scan tlatest H KS
//   scan addr W KS | scan game W GT EXCL KS | scan del P KS          (KS = K1,K2,… ; values are 8 zero bytes ‖ 01)

import (
	"bytes"
	"fmt"
	"os"
	"path/filepath"
	"sort"
	"strconv"
	"strings"
	"time"

	"github.com/massnetorg/mass-core/database"
	"github.com/massnetorg/mass-core/massutil"
	"github.com/massnetorg/mass-core/txscript"
	"github.com/massnetorg/mass-core/wire"
	mwdb "massnet.org/mass-wallet/masswallet/db"
	_ "massnet.org/mass-wallet/masswallet/db/ldb"
	"massnet.org/mass-wallet/masswallet/txmgr"
)

func init() {
	register(&Engine{Name: "codec", Gen: genCodec, NewExec: func() Exec { return &codecExec{} }})
}

type codecExec struct {
	db  mwdb.DB
	dir string
}

func (x *codecExec) Reset() {}
func (x *codecExec) Close() {
	if x.db != nil {
		x.db.Close()
		os.RemoveAll(x.dir)
	}
}

// withBucket runs f on a fresh bucket of the real LevelDB driver; the transaction is rolled back afterwards.
func (x *codecExec) withBucket(f func(tx mwdb.DBTransaction, ns mwdb.Bucket) string) string {
	if x.db == nil {
		wd, _ := os.Getwd()
		x.dir = filepath.Join(wd, fmt.Sprintf("codecdb.%d", os.Getpid()))
		os.RemoveAll(x.dir)
		d, err := mwdb.CreateDB("leveldb", x.dir)
		if err != nil {
			return "harness-error " + err.Error()
		}
		x.db = d
	}
	tx, err := x.db.BeginTx()
	if err != nil {
		return "harness-error " + err.Error()
	}
	defer tx.Rollback()
	ns := tx.TopLevelBucket("c")
	if ns == nil {
		if ns, err = tx.CreateTopLevelBucket("c"); err != nil {
			return "harness-error " + err.Error()
		}
	}
	return f(tx, ns)
}

// withCommitted fills a bucket with the keys, COMMITS, runs f on the committed bucket in a second transaction (so that
// GetByPrefix walks the LevelDB iterator in key order, as it does for everything an earlier block wrote) and drops the
// bucket again.
func (x *codecExec) withCommitted(ks [][]byte, f func(ns mwdb.Bucket) string) string {
	for _, k := range ks {
		if len(k) == 0 {
			return "bad-op"
		}
	}
	if x.db == nil {
		x.withBucket(func(mwdb.DBTransaction, mwdb.Bucket) string { return "" }) // opens the database
	}
	tx0, err := x.db.BeginTx()
	if err != nil {
		return "harness-error " + err.Error()
	}
	ns0 := tx0.TopLevelBucket("c")
	if ns0 == nil {
		if ns0, err = tx0.CreateTopLevelBucket("c"); err != nil {
			tx0.Rollback()
			return "harness-error " + err.Error()
		}
	}
	for _, k := range ks {
		if err := ns0.Put(k, codecScanValue); err != nil {
			tx0.Rollback()
			return "harness-error " + err.Error()
		}
	}
	if err := tx0.Commit(); err != nil { // (a Rollback after Commit would unlock the driver's mutex twice)
		return "harness-error " + err.Error()
	}
	tx, err := x.db.BeginTx()
	if err != nil {
		return "harness-error " + err.Error()
	}
	out := f(tx.TopLevelBucket("c"))
	if err := tx.TopLevelBucket("c").Clear(); err != nil { // (the driver cannot delete a top-level bucket)
		out = "harness-error " + err.Error()
	}
	if err := tx.Commit(); err != nil {
		out = "harness-error " + err.Error()
	}
	return out
}

// fake PkScript for valueUnminedCredit (only IsStaking / IsBinding are consulted there)
type codecPk struct{ stk, bnd bool }

func (p codecPk) Maturity() uint64                    { return 0 }
func (p codecPk) AddressClass() uint16                { return 0 }
func (p codecPk) StdScriptAddress() []byte            { return nil }
func (p codecPk) StdEncodeAddress() string            { return "" }
func (p codecPk) SecondScriptAddress() []byte         { return nil }
func (p codecPk) SecondEncodeAddress() string         { return "" }
func (p codecPk) IsStaking() bool                     { return p.stk }
func (p codecPk) IsBinding() bool                     { return p.bnd }
func (p codecPk) ScriptClass() txscript.ScriptClass   { return 0 }
func (p codecPk) StdAddress() massutil.Address        { return nil }
func (p codecPk) SecondAddress() massutil.Address     { return nil }

type cArgs struct {
	a   []string
	bad bool
}

func (c *cArgs) next() string {
	if len(c.a) == 0 {
		c.bad = true
		return ""
	}
	s := c.a[0]
	c.a = c.a[1:]
	return s
}
func (c *cArgs) bytes() []byte {
	b, ok := unhexTok(c.next())
	if !ok {
		c.bad = true
	}
	return b
}
func (c *cArgs) hash() wire.Hash {
	b := c.bytes()
	var h wire.Hash
	if len(b) != 32 {
		c.bad = true
		return h
	}
	copy(h[:], b)
	return h
}
func (c *cArgs) u64() uint64 {
	v, err := strconv.ParseUint(c.next(), 10, 64)
	if err != nil {
		c.bad = true
	}
	return v
}
func (c *cArgs) u32() uint32 {
	v, err := strconv.ParseUint(c.next(), 10, 32)
	if err != nil {
		c.bad = true
	}
	return uint32(v)
}
func (c *cArgs) i64() int64 {
	v, err := strconv.ParseInt(c.next(), 10, 64)
	if err != nil {
		c.bad = true
	}
	return v
}
func (c *cArgs) flag() bool {
	s := c.next()
	if s != "0" && s != "1" {
		c.bad = true
	}
	return s == "1"
}
func (c *cArgs) list() [][]byte {
	s := c.next()
	if s == "-" || s == "" {
		return nil
	}
	var out [][]byte
	for _, p := range strings.Split(s, ",") {
		b, ok := unhexTok(p)
		if !ok {
			c.bad = true
		}
		out = append(out, b)
	}
	return out
}
func (c *cArgs) amount() massutil.Amount {
	a, err := massutil.NewAmountFromUint(c.u64())
	if err != nil {
		c.bad = true
		return massutil.ZeroAmount()
	}
	return a
}

func hexOrErr(b []byte, err error) string {
	if err != nil {
		return "err"
	}
	return hexTok(b)
}

func joinKeys(ks [][]byte) string {
	if len(ks) == 0 {
		return "-"
	}
	var p []string
	for _, k := range ks {
		p = append(p, hexTok(k))
	}
	return strings.Join(p, ",")
}

func entriesKeys(es []*mwdb.Entry) [][]byte {
	var ks [][]byte
	for _, e := range es {
		ks = append(ks, e.Key)
	}
	sort.Slice(ks, func(i, j int) bool { return bytes.Compare(ks[i], ks[j]) < 0 })
	return ks
}

var codecScanValue = []byte{0, 0, 0, 0, 0, 0, 0, 0, 1}

func (x *codecExec) Exec(args []string) string {
	if len(args) == 0 {
		return "bad-op"
	}
	c := &cArgs{a: args[1:]}
	done := func() bool { return !c.bad && len(c.a) == 0 }
	switch args[0] {
	case "cop":
		h, i := c.hash(), c.u32()
		if !done() {
			return "bad-op"
		}
		return hexTok(txmgr.VerifCanonicalOutPoint(&h, i))
	case "usk":
		w, h, i := c.bytes(), c.hash(), c.u32()
		if !done() {
			return "bad-op"
		}
		return hexTok(txmgr.VerifCanonicalUnspentKey(string(w), &h, i))
	case "rusk":
		k := c.bytes()
		if !done() {
			return "bad-op"
		}
		op, err := txmgr.VerifReadCanonicalUnspentKey(k)
		if err != nil {
			return "err"
		}
		return fmt.Sprintf("%s %d", hexTok(op.Hash[:]), op.Index)
	case "ck", "dk":
		h, i, ht, bh := c.hash(), c.u32(), c.u64(), c.hash()
		if !done() {
			return "bad-op"
		}
		if args[0] == "ck" {
			return hexTok(txmgr.VerifKeyCredit(&h, i, ht, bh))
		}
		return hexTok(txmgr.VerifKeyDebit(&h, i, ht, bh))
	case "rck":
		k := c.bytes()
		if !done() {
			return "bad-op"
		}
		op, ht, bh, err := txmgr.VerifReadRawCreditKey(k)
		if err != nil {
			return "err"
		}
		return fmt.Sprintf("%s %d %s %d", hexTok(op.Hash[:]), ht, hexTok(bh[:]), op.Index)
	case "ruck":
		k := c.bytes()
		if !done() {
			return "bad-op"
		}
		op, err := txmgr.VerifReadUnminedCreditKey(k)
		if err != nil {
			return "err"
		}
		return fmt.Sprintf("%s %d", hexTok(op.Hash[:]), op.Index)
	case "cuk":
		k, v := c.bytes(), c.bytes()
		if !done() || len(k) == 0 || len(v) == 0 {
			return "bad-op"
		}
		return x.withBucket(func(_ mwdb.DBTransaction, ns mwdb.Bucket) string {
			if err := ns.Put(k, v); err != nil {
				return "harness-error " + err.Error()
			}
			return hexOrErr(txmgr.VerifExistsRawUnspent(ns, k))
		})
	case "vuc":
		amt, ch, cls, mat, sh := c.amount(), c.flag(), c.u32(), c.u32(), c.bytes()
		if !done() || cls > 2 {
			return "bad-op"
		}
		return hexOrErr(txmgr.VerifValueUnspentCredit(amt, ch, txmgr.UtxoClass(cls), mat, sh))
	case "vumc":
		amt, ch, mat, sh, stk, bnd := c.amount(), c.flag(), c.u32(), c.bytes(), c.flag(), c.flag()
		if !done() {
			return "bad-op"
		}
		return hexOrErr(txmgr.VerifValueUnminedCredit(amt, ch, mat, sh, codecPk{stk, bnd}))
	case "rcv":
		v := c.bytes()
		if !done() {
			return "bad-op"
		}
		amt, fl, mat, sh, err := txmgr.VerifReadCreditValue(v)
		if err != nil {
			return "err"
		}
		return fmt.Sprintf("%d %s %s %d %d %s", amt.UintValue(), b01(fl.Spent), b01(fl.Change), int(fl.Class), mat, hexTok(sh))
	case "spend":
		v, h, ht, bh, i := c.bytes(), c.hash(), c.u64(), c.hash(), c.u32()
		if !done() || len(v) == 0 {
			return "bad-op"
		}
		return x.withBucket(func(_ mwdb.DBTransaction, ns mwdb.Bucket) string {
			key := []byte("k")
			if err := ns.Put(key, v); err != nil {
				return "harness-error " + err.Error()
			}
			if _, err := txmgr.VerifSpendCredit(ns, key, h, ht, bh, i); err != nil {
				return "err"
			}
			return hexOrErr(ns.Get(key))
		})
	case "unspend":
		v := c.bytes()
		if !done() || len(v) == 0 {
			return "bad-op"
		}
		return x.withBucket(func(_ mwdb.DBTransaction, ns mwdb.Bucket) string {
			key := []byte("k")
			if err := ns.Put(key, v); err != nil {
				return "harness-error " + err.Error()
			}
			txmgr.VerifUnspendRawCredit(ns, key) // an unknown class is reported after the value was rewritten
			return hexOrErr(ns.Get(key))
		})
	case "rcs":
		v := c.bytes()
		if !done() {
			return "bad-op"
		}
		return hexTok(txmgr.VerifReadCreditSpender(v))
	case "fas":
		v := c.bytes()
		if !done() {
			return "bad-op"
		}
		amt, sp, err := txmgr.VerifFetchRawCreditAmountSpent(v)
		if err != nil {
			return "err"
		}
		return fmt.Sprintf("%d %s", amt.UintValue(), b01(sp))
	case "fms":
		v := c.bytes()
		if !done() {
			return "bad-op"
		}
		m, sh, err := txmgr.VerifFetchRawCreditMaturityScriptHash(v)
		if err != nil {
			return "err"
		}
		return fmt.Sprintf("%d %s", m, hexTok(sh))
	case "ufm", "tkc", "uvc":
		v := c.bytes()
		if !done() {
			return "bad-op"
		}
		switch args[0] {
		case "ufm":
			return hexOrErr(txmgr.VerifValueUnminedCreditFromMined(v))
		case "tkc":
			return hexOrErr(txmgr.VerifFetchTxRecordKeyFromRawCreditKey(v))
		}
		return hexOrErr(txmgr.VerifFetchNsUnspentValueFromRawCredit(v))
	case "deb":
		h, i, amt, ht, bh, ck := c.hash(), c.u32(), c.amount(), c.u64(), c.hash(), c.bytes()
		if !done() {
			return "bad-op"
		}
		return x.withBucket(func(_ mwdb.DBTransaction, ns mwdb.Bucket) string {
			if err := txmgr.VerifPutDebit(ns, &h, i, amt, ht, bh, ck); err != nil {
				return "err"
			}
			es, _ := ns.GetByPrefix(nil)
			if len(es) != 1 {
				return "harness-error entries"
			}
			_, rck, err := txmgr.VerifExistsDebit(ns, &h, i, ht, bh)
			return fmt.Sprintf("%s %s %s", hexTok(es[0].Key), hexTok(es[0].Value), hexOrErr(rck, err))
		})
	case "vus":
		ht, bh := c.u64(), c.hash()
		if !done() {
			return "bad-op"
		}
		return hexTok(txmgr.VerifValueUnspent(ht, bh))
	case "rbu":
		v := c.bytes()
		if !done() {
			return "bad-op"
		}
		ht, bh, err := txmgr.VerifReadBlockOfUnspent(v)
		if err != nil {
			return "err"
		}
		return fmt.Sprintf("%d %s", ht, hexTok(bh[:]))
	case "bal":
		w, amt := c.bytes(), c.amount()
		if !done() {
			return "bad-op"
		}
		return x.withBucket(func(_ mwdb.DBTransaction, ns mwdb.Bucket) string {
			if err := txmgr.VerifPutMinedBalance(ns, string(w), amt); err != nil {
				return "err"
			}
			es, _ := ns.GetByPrefix(nil)
			if len(es) != 1 {
				return "harness-error entries"
			}
			return fmt.Sprintf("%s %s", hexTok(es[0].Key), hexTok(es[0].Value))
		})
	case "kar":
		w, cls, addr := c.bytes(), c.u32(), c.bytes()
		if !done() || cls > 0xffff {
			return "bad-op"
		}
		return hexOrErr(txmgr.VerifKeyAddressRecord(string(w), uint16(cls), string(addr)))
	case "var":
		ht := c.u64()
		if !done() {
			return "bad-op"
		}
		return hexTok(txmgr.VerifValueAddressRecord(ht))
	case "rah":
		v := c.bytes()
		if !done() || len(v) < 8 {
			return "bad-op" // readAddressHeight has no length guard: shorter values are never stored
		}
		return fmt.Sprint(txmgr.VerifReadAddressHeight(v))
	case "kgh", "kugh":
		w, b, wd, h, ht, vout := c.bytes(), c.flag(), c.flag(), c.hash(), c.u64(), c.u32()
		if !done() {
			return "bad-op"
		}
		if args[0] == "kgh" {
			return hexTok(txmgr.VerifKeyGameHistory(string(w), b, wd, h, ht, vout))
		}
		return hexTok(txmgr.VerifKeyUnminedGameHistory(string(w), b, wd, h, ht, vout))
	case "rgh":
		u, k := c.flag(), c.bytes()
		if !done() {
			return "bad-op"
		}
		w, b, wd, h, ht, vout, err := txmgr.VerifReadGameHistory(u, k)
		if err != nil {
			return "err"
		}
		return fmt.Sprintf("%s %s %s %s %d %d", hexTok([]byte(w)), b01(b), b01(wd), hexTok(h[:]), ht, vout)
	case "vgh":
		if !done() {
			return "bad-op"
		}
		return hexTok(txmgr.VerifValueGameHistory())
	case "pend":
		ts, ser := c.i64(), c.bytes()
		if !done() {
			return "bad-op"
		}
		var tx wire.MsgTx
		if err := tx.SetBytes(ser, wire.DB); err != nil {
			return "bad-op"
		}
		v, err := txmgr.VerifValueUnmined(&tx, time.Unix(ts, 0))
		if err != nil {
			return "err"
		}
		tx2, rcv, err := txmgr.VerifReadRawUnmined(v)
		if err != nil {
			return hexTok(v) + " err"
		}
		ser2, err := tx2.Bytes(wire.DB)
		if err != nil {
			return hexTok(v) + " err"
		}
		return fmt.Sprintf("%s %d %s %s", hexTok(v), rcv.Unix(), hexTok(ser2), b01(tx2.TxHash() == tx.TxHash()))
	case "rpend":
		// readRawUnmined on arbitrary bytes: received time and whether the tail is a transaction
		v := c.bytes()
		if !done() {
			return "bad-op"
		}
		_, rcv, err := txmgr.VerifReadRawUnmined(v)
		if len(v) < 8 {
			if err == nil {
				return "harness-error short value accepted"
			}
			return "err"
		}
		return fmt.Sprint(rcv.Unix())
	case "ktr":
		h, ht, bh := c.hash(), c.u64(), c.hash()
		if !done() {
			return "bad-op"
		}
		return hexTok(txmgr.VerifKeyTxRecord(&h, ht, bh))
	case "rtk":
		k := c.bytes()
		if !done() {
			return "bad-op"
		}
		ht, bh, err := txmgr.VerifReadTxRecordKey(k)
		if err != nil {
			return "err"
		}
		return fmt.Sprintf("%d %s", ht, hexTok(bh))
	case "vtr":
		h, ht, bh, f, o, l, s, n := c.hash(), c.u64(), c.hash(), c.u32(), c.u64(), c.u64(), c.u32(), c.u32()
		if !done() {
			return "bad-op"
		}
		return x.withBucket(func(_ mwdb.DBTransaction, ns mwdb.Bucket) string {
			err := txmgr.VerifPutTxRecord(ns, h, ht, bh, &database.BlockLoc{File: f, Offset: o, Length: l}, &wire.TxLoc{TxStart: int(s), TxLen: int(n)})
			if err != nil {
				return "err"
			}
			es, _ := ns.GetByPrefix(nil)
			if len(es) != 1 {
				return "harness-error entries"
			}
			return fmt.Sprintf("%s %s", hexTok(es[0].Key), hexTok(es[0].Value))
		})
	case "rtl":
		v := c.bytes()
		if !done() {
			return "bad-op"
		}
		bl, tl, err := txmgr.VerifReadTxRecordLoc(v)
		if err != nil {
			return "err"
		}
		return fmt.Sprintf("%d %d %d %d %d", bl.File, bl.Offset, bl.Length, tl.TxStart, tl.TxLen)
	case "kbr":
		ht := c.u64()
		if !done() {
			return "bad-op"
		}
		return hexTok(txmgr.VerifKeyBlockRecord(ht))
	case "vbr":
		ht, bh, ts, hs := c.u64(), c.hash(), c.i64(), c.list()
		if !done() || len(hs) == 0 {
			return "bad-op"
		}
		var txs []wire.Hash
		for _, b := range hs {
			if len(b) != 32 {
				return "bad-op"
			}
			var h wire.Hash
			copy(h[:], b)
			txs = append(txs, h)
		}
		return x.withBucket(func(_ mwdb.DBTransaction, ns mwdb.Bucket) string {
			if err := txmgr.VerifUpdateBlockRecord(ns, ht, bh, time.Unix(ts, 0), txs); err != nil {
				return "err"
			}
			es, _ := ns.GetByPrefix(nil)
			if len(es) != 1 {
				return "harness-error entries"
			}
			return fmt.Sprintf("%s %s", hexTok(es[0].Key), hexTok(es[0].Value))
		})
	case "rbr":
		k, v := c.bytes(), c.bytes()
		if !done() {
			return "bad-op"
		}
		ht, bh, ts, txs, err := txmgr.VerifReadRawBlockRecord(k, v)
		if err != nil {
			return "err"
		}
		var hs [][]byte
		for i := range txs {
			hs = append(hs, txs[i][:])
		}
		return fmt.Sprintf("%d %s %d %s", ht, hexTok(bh[:]), ts.Unix(), joinKeys(hs))
	case "rbh":
		v := c.bytes()
		if !done() {
			return "bad-op"
		}
		h, err := txmgr.VerifReadBlockHashFromValue(v)
		if err != nil {
			return "err"
		}
		return hexTok(h[:])
	case "sync":
		ht, bh, ts := c.u64(), c.hash(), c.i64()
		if !done() {
			return "bad-op"
		}
		return x.withBucket(func(_ mwdb.DBTransaction, ns mwdb.Bucket) string {
			if err := txmgr.VerifPutSyncedBucket(ns, ht, bh, time.Unix(ts, 0)); err != nil {
				return "err"
			}
			es, _ := ns.GetByPrefix(nil)
			if len(es) != 1 {
				return "harness-error entries"
			}
			b, err := txmgr.VerifFetchSyncedBlock(ns, ht)
			if err != nil || b == nil {
				return fmt.Sprintf("%s %s err", hexTok(es[0].Key), hexTok(es[0].Value))
			}
			return fmt.Sprintf("%s %s %d %s %d", hexTok(es[0].Key), hexTok(es[0].Value), b.Height, hexTok(b.Hash[:]), b.Timestamp.Unix())
		})
	case "rsync":
		ht, v := c.u64(), c.bytes()
		if !done() || len(v) == 0 {
			return "bad-op"
		}
		return x.withBucket(func(_ mwdb.DBTransaction, ns mwdb.Bucket) string {
			if err := ns.Put(txmgr.VerifKeyBlockRecord(ht), v); err != nil { // same 8-byte big-endian key
				return "harness-error " + err.Error()
			}
			b, err := txmgr.VerifFetchSyncedBlock(ns, ht)
			if err != nil || b == nil {
				return "err"
			}
			return fmt.Sprintf("%d %s %d", b.Height, hexTok(b.Hash[:]), b.Timestamp.Unix())
		})
	case "sto":
		ht, bh, ts := c.u64(), c.hash(), c.i64()
		if !done() || ht != 0 {
			return "bad-op" // putSyncedTo at height 0 needs no predecessor
		}
		return x.withBucket(func(_ mwdb.DBTransaction, ns mwdb.Bucket) string {
			if err := txmgr.VerifPutSyncedTo(ns, ht, bh, time.Unix(ts, 0)); err != nil {
				return "err"
			}
			v, err := ns.Get([]byte(txmgr.VerifSyncedToName()))
			return hexTok([]byte(txmgr.VerifSyncedToName())) + " " + hexOrErr(v, err)
		})
	case "pws":
		w, ht, fl := c.bytes(), c.u64(), c.u32()
		if !done() || fl > 255 {
			return "bad-op"
		}
		return x.withBucket(func(tx mwdb.DBTransaction, ns mwdb.Bucket) string {
			err := txmgr.VerifPutWalletStatusIn(tx, ns.GetBucketMeta(), &txmgr.WalletStatus{WalletID: string(w), SyncedHeight: ht, Flags: byte(fl)})
			if err != nil {
				return "err"
			}
			es, _ := ns.GetByPrefix(nil)
			if len(es) != 1 {
				return "harness-error entries"
			}
			return fmt.Sprintf("%s %s", hexTok(es[0].Key), hexTok(es[0].Value))
		})
	case "rws":
		k, v := c.bytes(), c.bytes()
		if !done() {
			return "bad-op"
		}
		ws, err := txmgr.VerifReadWalletStatus(k, v)
		if err != nil {
			return "err"
		}
		return fmt.Sprintf("%s %d %d", hexTok([]byte(ws.WalletID)), ws.SyncedHeight, ws.Flags)
	case "scan":
		return x.scan(c)
	}
	return "bad-op"
}

func (x *codecExec) scan(c *cArgs) string {
	kind := c.next()
	done := func() bool { return !c.bad && len(c.a) == 0 }
	switch kind {
	case "ctx", "tlatest":
		h, ks := c.hash(), c.list()
		if !done() {
			return "bad-op"
		}
		return x.withCommitted(ks, func(ns mwdb.Bucket) string {
			if kind == "ctx" {
				es, err := txmgr.VerifGetCreditsByTxHash(ns, &h)
				if err != nil {
					return "err"
				}
				return joinKeys(entriesKeys(es))
			}
			e, err := txmgr.VerifFetchLatestRawTxRecordOfHash(ns, &h)
			if err != nil {
				return "err"
			}
			if e == nil {
				return "-"
			}
			return hexTok(e.Key)
		})
	case "ctxh", "trh":
		h, ht, ks := c.hash(), c.u64(), c.list()
		if !done() {
			return "bad-op"
		}
		return x.withCommitted(ks, func(ns mwdb.Bucket) string {
			if kind == "ctxh" {
				m, err := txmgr.VerifGetCreditsByTxHashHeight(ns, &h, ht)
				if err != nil {
					return "err"
				}
				var es []*mwdb.Entry
				for _, e := range m {
					es = append(es, e)
				}
				return joinKeys(entriesKeys(es))
			}
			e, err := txmgr.VerifFetchRawTxRecordByHashHeight(ns, &h, ht)
			if err != nil {
				return "err"
			}
			if e == nil {
				return "-"
			}
			return hexTok(e.Key)
		})
	case "clast":
		h, i, ht, ks := c.hash(), c.u32(), c.u64(), c.list()
		if !done() {
			return "bad-op"
		}
		return x.withCommitted(ks, func(ns mwdb.Bucket) string {
			e, err := txmgr.VerifGetLastCreditByTxHashIndexTillHeight(ns, &h, i, ht)
			if err != nil {
				return "err"
			}
			if e == nil {
				return "-"
			}
			return hexTok(e.Key)
		})
	case "addr":
		w, ks := c.bytes(), c.list()
		if !done() {
			return "bad-op"
		}
		return x.withCommitted(ks, func(ns mwdb.Bucket) string {
			ads, err := txmgr.VerifFetchAddressesByWalletId(ns, string(w))
			if err != nil {
				return "err"
			}
			var p []string // GetByPrefix inside a write transaction promises no order: compared as a sorted list
			for _, a := range ads {
				p = append(p, fmt.Sprintf("%d:%s:%s", a.AddressClass, hexTok([]byte(a.Address)), b01(a.Used)))
			}
			sort.Strings(p)
			if len(p) == 0 {
				return "-"
			}
			return strings.Join(p, ",")
		})
	case "game":
		w, gt, ex, ks := c.bytes(), c.u32(), c.flag(), c.list()
		if !done() || gt > 255 {
			return "bad-op"
		}
		return x.withCommitted(ks, func(ns mwdb.Bucket) string {
			es, err := txmgr.VerifGetRawGameHistoryByWalletId(ns, string(w), byte(gt), ex)
			if err != nil {
				return "err"
			}
			return joinKeys(entriesKeys(es))
		})
	case "del":
		p, ks := c.bytes(), c.list()
		if !done() {
			return "bad-op"
		}
		return x.withCommitted(ks, func(ns mwdb.Bucket) string {
			if err := txmgr.VerifDeleteByPrefix(ns, p); err != nil {
				return "err"
			}
			es, _ := ns.GetByPrefix(nil)
			return joinKeys(entriesKeys(es))
		})
	}
	return "bad-op"
}
