package main

// Generator of engine rem (C08): multi-wallet histories, removal at random moments with follower activity,
// shutdown and restart between the steps, residue scans, survivors' observations, re-import
// (helpers: gen_imp.go, chain simulator: gen_led.go).

import (
	"strings"
)

// ---------------------------------------------------------------- C08

func genRem(g *Gen) {
	nHist := g.Scale(90, 1500)
	for h := 0; h < nHist || (!g.Covered() && h < 6*nHist); h++ {
		genRemHistory(g, h)
	}
	if !g.Quick() {
		genRemBig(g)
	}
}

func (t *irGen) survivors(except string) []string {
	var ws []string
	for _, w := range t.live {
		if w != except {
			ws = append(ws, w)
		}
	}
	return ws
}

func genRemHistory(g *Gen, idx int) {
	r := g.Rng
	l := newLedGen(g, "rem")
	t := &irGen{g: g, l: l}
	l.start(2 + r.Intn(2))
	t.live = append([]string{}, l.wallets...)
	deliver := func() {
		if r.Intn(5) > 0 {
			t.drain1()
		} else if r.Intn(2) == 0 {
			t.p1()
		}
	}
	pre := 6 + r.Intn(g.Scale(18, 40))
	for s := 0; s < pre; s++ {
		t.chainStep(g.Scale(4, 8))
		deliver()
		if r.Intn(6) == 0 {
			t.observe1(t.live, false)
		}
	}
	if r.Intn(3) > 0 {
		t.drain1()
	}
	rounds := 1 + r.Intn(2)
	for round := 0; round < rounds && len(t.live) > 1; round++ {
		w := t.live[r.Intn(len(t.live))]
		// no address can be issued to a wallet that is gone: give it its full set now, so that the
		// chain simulator keeps paying these (then foreign) addresses without asking for new ones
		for len(l.addrs[w]) < l.maxAddr {
			l.newAddr(w)
		}
		t.observe1(t.live, true)
		t.op("residue-before", "residue %s", w)
		// ---- gating
		if r.Intn(2) == 0 {
			t.op("remove-badpass", "remove %s bad", w)
			t.op("wallets", "wallets")
		}
		if idx%9 == 0 && round == 0 && len(t.live) >= 3 {
			// fill the worker queue: the fourth request is refused
			for _, x := range t.live {
				for len(l.addrs[x]) < l.maxAddr {
					l.newAddr(x)
				}
			}
			for _, x := range t.live {
				t.op("remove-queueing", "remove %s good", x)
			}
			t.op("remove-busy", "remove %s good", w)
			t.op("import-busy", "import %s mn 1", w)
			t.op("tasks", "tasks")
			t.op("wallets", "wallets")
			g.Stats["gate-busy"]++
			// all of them are flagged now; remove them one after the other
			for _, x := range t.live {
				t.op("rembegin", "rembegin %s", x)
				t.op("remstep", "remstep")
				t.op("remstep-extra", "remstep")
				t.op("residue-after", "residue %s", x)
			}
			t.live = nil
			t.op("wallets", "wallets")
			break
		}
		t.op("remove", "remove %s good", w)
		if r.Intn(3) == 0 {
			t.op("remove-twice", "remove %s good", w)
		}
		t.op("wallets", "wallets")
		t.op("use-removing", "use %s", w)
		if r.Intn(3) == 0 {
			t.op("q-bal-removing", "bal %s 1", w)
		}
		// the follower keeps running before the worker picks the task up
		for k := r.Intn(3); k > 0; k-- {
			t.chainStep(g.Scale(4, 8))
			deliver()
		}
		if r.Intn(3) == 0 {
			t.op("restart", "restart")
			t.op("inittasks", "inittasks")
			g.Stats["restart-before-removal-step"]++
		}
		t.op("tasks", "tasks")
		t.op("rembegin", "rembegin %s", w)
		if r.Intn(3) == 0 {
			// follower activity / shutdown while the worker waits for the hand-shake
			for k := 1 + r.Intn(2); k > 0; k-- {
				t.chainStep(g.Scale(4, 8))
				deliver()
			}
			if r.Intn(2) == 0 {
				t.op("remquit", "remquit")
				t.op("restart", "restart")
				t.op("inittasks", "inittasks")
				t.op("tasks", "tasks")
				t.op("rembegin", "rembegin %s", w)
				g.Stats["restart-between-removal-steps"]++
			}
		}
		t.op("remstep", "remstep")
		t.op("remstep-extra", "remstep")
		t.live = t.survivors(w)
		// ---- after the removal
		t.op("residue-after", "residue %s", w)
		t.op("pendmention", "pendmention %s", w)
		t.op("wallets", "wallets")
		t.op("use-removed", "use %s", w)
		t.observe1(t.live, true)
		// ---- later reorganisations across the shared transactions
		post := 2 + r.Intn(g.Scale(6, 12))
		for s := 0; s < post; s++ {
			if s == 0 || r.Intn(3) == 0 {
				t.nodeEvent(func() { l.reorgTo(1+r.Intn(g.Scale(6, 12)), 1+r.Intn(2)) })
				g.Stats["reorg-after-removal"]++
			} else {
				t.chainStep(g.Scale(4, 8))
			}
			deliver()
			if r.Intn(3) == 0 {
				t.drain1()
				t.observe1(t.live, false)
			}
		}
		t.drain1()
		t.observe1(t.live, true)
		t.op("residue-later", "residue %s", w)
		// ---- the same mnemonic can be imported again
		if r.Intn(2) == 0 {
			t.op("reimport", "import %s mn %d", w, len(l.addrs[w]))
			t.op("tasks", "tasks")
			t.op("remove-importing", "remove %s good", w)
			for k := r.Intn(3); k > 0; k-- {
				t.chainStep(g.Scale(4, 8))
				deliver()
			}
			t.drain1()
			t.op("impstep-flush", "impstep %s", w)
			t.op("impstep-flush", "impstep %s", w)
			t.live = append(t.live, w)
			t.observe1(t.live, true)
			t.op("residue-reimported", "residue %s", w)
			g.Stats["reimport"]++
		}
	}
	for s := r.Intn(4); s > 0; s-- {
		t.chainStep(g.Scale(4, 8))
		deliver()
	}
	t.drain1()
	t.observe1(t.live, true)
}

// genRemBig: more credits than one removal step handles (20000), in one transaction whose outputs all
// pay the removed wallet, so that the order of the credit scan is the output order.
func genRemBig(g *Gen) {
	r := g.Rng
	l := newLedGen(g, "rem")
	t := &irGen{g: g, l: l}
	l.start(2)
	t.live = append([]string{}, l.wallets...)
	for s := 0; s < 6; s++ {
		t.nodeEvent(l.extend)
		t.drain1()
	}
	w := "W1"
	a := l.addrs[w][0]
	var outs []string
	for i := 0; i < 20003; i++ {
		outs = append(outs, a+":1")
	}
	t.op("tx-big", "tx CBIG 999999 cb %s", strings.Join(outs, ";"))
	t.op("block", "block BBIG %s CBIG", l.tip().name)
	t.op("submit", "submit BBIG")
	big := &gBlock{name: "BBIG", parent: l.tip().name, height: l.tip().height + 1, utxo: l.tip().utxo}
	l.blocks["BBIG"] = big
	l.chain = append(l.chain, "BBIG")
	t.op("notify", "notify BBIG")
	t.op("q-bal", "bal %s 1", w)
	t.op("residue-before", "residue %s", w)
	t.op("remove", "remove %s good", w)
	t.op("tasks", "tasks")
	t.op("rembegin", "rembegin %s", w)
	t.op("remstep-big", "remstep")
	t.op("residue-between", "residue %s", w)
	t.op("wallets", "wallets")
	// follower activity and a restart between the two steps
	t.nodeEvent(l.extend)
	t.nodeEvent(func() { l.reorgTo(2, 1) })
	t.drain1()
	t.observe1([]string{"W2"}, true)
	if r.Intn(2) == 0 {
		t.op("remquit", "remquit")
		t.op("restart", "restart")
		t.op("inittasks", "inittasks")
		t.op("tasks", "tasks")
		t.op("rembegin", "rembegin %s", w)
	}
	t.op("remstep-big", "remstep")
	t.op("remstep-extra", "remstep")
	t.op("residue-after", "residue %s", w)
	t.op("wallets", "wallets")
	t.observe1([]string{"W2"}, true)
	g.Stats["more-credits-than-one-step"]++
}
