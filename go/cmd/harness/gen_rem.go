package main

// Generator of engine rem (C08): multi-wallet histories, removal at random moments with follower activity,
// shutdown and restart between the steps, residue scans, survivors' observations, re-import
// (helpers: gen_imp.go, chain simulator: gen_led.go).

import (
	"fmt"
	"math/rand"
	"strings"
)

// crashInLastStep: a `restart` DIRECTLY after the removal step that finished the removal.  For model and
// specification the step is one transaction, so this is a restart after a completed removal; the executor restarts
// the wallet on the copy of its directory taken between two commits of that step if the step committed more than
// once (eng_rem_fork.go) - the crash point that leaves a wallet without status but with its keystore when the last
// step is not atomic (seeded/C08-5).  What follows in every history (residue scan with its specification column,
// Wallets(), UseWallet, the survivors' observations, follower activity, re-import of the mnemonic) then speaks.
func crashInLastStep(g *Gen, op func(class, f string, a ...interface{})) {
	op("restart-in-last-removal-step", "restart")
	op("inittasks", "inittasks")
	op("tasks", "tasks")
}

// ---------------------------------------------------------------- C08

func genRem(g *Gen) {
	genCodecInto(g) // byte-level tie of the bucket codecs (engine codec), part of C08
	nHist := g.Scale(90, 1500)
	for h := 0; h < nHist || (!g.Covered() && h < 6*nHist); h++ {
		genRemHistory(g, h)
		if h%6 == 5 {
			genRemMixed(g)
		}
		if h%6 == 2 {
			genRemTwoStep(g, h)
		}
	}
	if !g.Quick() {
		genRemBig(g)
		genRemBigReorg(g, false)
		genRemBigReorg(g, true)
	}
}

func (t *irGen) survivors(except string) []string {
	var ws []string
	for _, w := range t.live {
		if w != except {
			ws = append(ws, w)
		}
	}
	return ws
}

func genRemHistory(g *Gen, idx int) {
	r := g.Rng
	r2 := rand.New(rand.NewSource(g.Seed*611953 + int64(idx))) // crashInLastStep: the rest of the stream does not move
	l := newLedGen(g, "rem")
	t := &irGen{g: g, l: l}
	l.start(2 + r.Intn(2))
	t.live = append([]string{}, l.wallets...)
	deliver := func() {
		if r.Intn(5) > 0 {
			t.drain1()
		} else if r.Intn(2) == 0 {
			t.p1()
		}
	}
	pre := 6 + r.Intn(g.Scale(18, 40))
	for s := 0; s < pre; s++ {
		t.chainStep(g.Scale(4, 8))
		deliver()
		if r.Intn(6) == 0 {
			t.observe1(t.live, false)
		}
	}
	if r.Intn(3) > 0 {
		t.drain1()
	}
	rounds := 1 + r.Intn(2)
	for round := 0; round < rounds && len(t.live) > 1; round++ {
		w := t.live[r.Intn(len(t.live))]
		// no address can be issued to a wallet that is gone: give it its full set now, so that the
		// chain simulator keeps paying these (then foreign) addresses without asking for new ones
		for len(l.addrs[w]) < l.maxAddr {
			l.newAddr(w)
		}
		t.observe1(t.live, true)
		t.op("residue-before", "residue %s", w)
		// ---- gating
		if r.Intn(2) == 0 {
			t.op("remove-badpass", "remove %s bad", w)
			t.op("wallets", "wallets")
		}
		if idx%9 == 0 && round == 0 && len(t.live) >= 3 {
			// fill the worker queue: the fourth request is refused
			for _, x := range t.live {
				for len(l.addrs[x]) < l.maxAddr {
					l.newAddr(x)
				}
			}
			for _, x := range t.live {
				t.op("remove-queueing", "remove %s good", x)
			}
			t.op("remove-busy", "remove %s good", w)
			t.op("import-busy", "import %s mn 1", w)
			t.op("tasks", "tasks")
			t.op("wallets", "wallets")
			g.Stats["gate-busy"]++
			// all of them are flagged now; remove them one after the other
			for _, x := range t.live {
				t.op("rembegin", "rembegin %s", x)
				t.op("remstep", "remstep")
				t.op("remstep-extra", "remstep")
				t.op("residue-after", "residue %s", x)
			}
			t.live = nil
			t.op("wallets", "wallets")
			break
		}
		t.op("remove", "remove %s good", w)
		if r.Intn(3) == 0 {
			t.op("remove-twice", "remove %s good", w)
		}
		t.op("wallets", "wallets")
		t.op("use-removing", "use %s", w)
		if r.Intn(3) == 0 {
			t.op("q-bal-removing", "bal %s 1", w)
		}
		// the follower keeps running before the worker picks the task up
		for k := r.Intn(3); k > 0; k-- {
			t.chainStep(g.Scale(4, 8))
			deliver()
		}
		if r.Intn(3) == 0 {
			t.op("restart", "restart")
			t.op("inittasks", "inittasks")
			g.Stats["restart-before-removal-step"]++
		}
		t.op("tasks", "tasks")
		t.op("rembegin", "rembegin %s", w)
		if r.Intn(3) == 0 {
			// follower activity / shutdown while the worker waits for the hand-shake
			for k := 1 + r.Intn(2); k > 0; k-- {
				t.chainStep(g.Scale(4, 8))
				deliver()
			}
			if r.Intn(2) == 0 {
				t.op("remquit", "remquit")
				t.op("restart", "restart")
				t.op("inittasks", "inittasks")
				t.op("tasks", "tasks")
				t.op("rembegin", "rembegin %s", w)
				g.Stats["restart-between-removal-steps"]++
			}
		}
		t.op("remstep", "remstep")
		if r2.Intn(2) == 0 {
			crashInLastStep(g, t.op)
		}
		t.op("remstep-extra", "remstep")
		t.live = t.survivors(w)
		// ---- after the removal
		t.op("residue-after", "residue %s", w)
		t.op("dangling-after", "dangling")
		t.op("pendmention", "pendmention %s", w)
		t.op("wallets", "wallets")
		t.op("use-removed", "use %s", w)
		t.observe1(t.live, true)
		// ---- later reorganisations across the shared transactions
		post := 2 + r.Intn(g.Scale(6, 12))
		for s := 0; s < post; s++ {
			if s == 0 || r.Intn(3) == 0 {
				t.nodeEvent(func() { l.reorgTo(1+r.Intn(g.Scale(6, 12)), 1+r.Intn(2)) })
				g.Stats["reorg-after-removal"]++
			} else {
				t.chainStep(g.Scale(4, 8))
			}
			deliver()
			if r.Intn(3) == 0 {
				t.drain1()
				t.observe1(t.live, false)
			}
		}
		t.drain1()
		t.observe1(t.live, true)
		t.op("residue-later", "residue %s", w)
		t.op("dangling-later", "dangling")
		// ---- the same mnemonic can be imported again
		if r.Intn(2) == 0 {
			t.op("reimport", "import %s mn %d", w, len(l.addrs[w]))
			t.op("tasks", "tasks")
			t.op("remove-importing", "remove %s good", w)
			for k := r.Intn(3); k > 0; k-- {
				t.chainStep(g.Scale(4, 8))
				deliver()
			}
			t.drain1()
			t.op("impstep-flush", "impstep %s", w)
			t.op("impstep-flush", "impstep %s", w)
			t.live = append(t.live, w)
			t.observe1(t.live, true)
			t.op("residue-reimported", "residue %s", w)
			g.Stats["reimport"]++
		}
	}
	for s := r.Intn(4); s > 0; s-- {
		t.chainStep(g.Scale(4, 8))
		deliver()
	}
	t.drain1()
	t.observe1(t.live, true)
}

// genRemBig: more credits than one removal step handles (20000), in one transaction whose outputs all
// pay the removed wallet, so that the order of the credit scan is the output order.
func genRemBig(g *Gen) {
	r := g.Rng
	l := newLedGen(g, "rem")
	t := &irGen{g: g, l: l}
	l.start(2)
	t.live = append([]string{}, l.wallets...)
	for s := 0; s < 6; s++ {
		t.nodeEvent(l.extend)
		t.drain1()
	}
	w := "W1"
	a := l.addrs[w][0]
	var outs []string
	for i := 0; i < 20003; i++ {
		outs = append(outs, a+":1")
	}
	t.op("tx-big", "tx CBIG 999999 cb %s", strings.Join(outs, ";"))
	t.op("block", "block BBIG %s CBIG", l.tip().name)
	t.op("submit", "submit BBIG")
	big := &gBlock{name: "BBIG", parent: l.tip().name, height: l.tip().height + 1, utxo: l.tip().utxo}
	l.blocks["BBIG"] = big
	l.chain = append(l.chain, "BBIG")
	t.op("notify", "notify BBIG")
	t.op("q-bal", "bal %s 1", w)
	t.op("residue-before", "residue %s", w)
	t.op("remove", "remove %s good", w)
	t.op("tasks", "tasks")
	t.op("rembegin", "rembegin %s", w)
	t.op("remstep-big", "remstep")
	t.op("residue-between", "residue %s", w)
	t.op("wallets", "wallets")
	// follower activity and a restart between the two steps
	t.nodeEvent(l.extend)
	t.nodeEvent(func() { l.reorgTo(2, 1) })
	t.drain1()
	t.observe1([]string{"W2"}, true)
	if r.Intn(2) == 0 {
		t.op("remquit", "remquit")
		t.op("restart", "restart")
		t.op("inittasks", "inittasks")
		t.op("tasks", "tasks")
		t.op("rembegin", "rembegin %s", w)
	}
	t.op("remstep-big", "remstep")
	crashInLastStep(g, t.op)
	t.op("remstep-extra", "remstep")
	t.op("residue-after", "residue %s", w)
	t.op("wallets", "wallets")
	t.observe1([]string{"W2"}, true)
	g.Stats["more-credits-than-one-step"]++
}

// genRemBigReorg (defect D45): a removal that needs two steps (20 003 credits of W2 in one coinbase, which also
// pays the survivor W1) with a REORGANISATION BETWEEN THE STEPS that rolls back the block of that coinbase, i.e. a
// block connected before the first step.  X3 spends the first and the last coin of W2: the first step deletes the
// credits 0..19999 in key order, with the debit (X3, 0); the debit (X3, 1) of the last coin stays for the second
// step.  Before the repair the first step also erased X3's tx record (nobody else needs it), the reorganisation
// could not roll X3 back, rolled the coinbase back (W1 needs its record) and the debit (X3, 1) stayed for ever:
// `dangling` = d:X3:1 (specification: -).
func genRemBigReorg(g *Gen, onlyW2 bool) {
	g.Reset()
	op := g.Op
	op("params", "params 4 3")
	op("wallet", "wallet W1")
	op("addr", "addr W1 A1 std")
	op("wallet", "wallet W2")
	op("addr", "addr W2 A2 std")
	outs := make([]string, 0, 20004)
	for i := 0; i < 20003; i++ {
		outs = append(outs, "A2:1")
	}
	if !onlyW2 {
		outs = append(outs, "A1:7")
	} else {
		// the coinbase pays W2 alone: its own record is removable, and the first step leaves three of its credits
		// (the credits half of the repair keeps the record for them: `residue` between the steps, after the
		// reorganisation, then shows no stale credit)
		g.Stats["big-coinbase-of-removed-wallet-only"]++
	}
	op("tx-big", "tx CBIG 1 cb %s", strings.Join(outs, ";"))
	op("block", "block B1 G CBIG")
	op("submit", "submit B1")
	op("notify", "notify B1")
	op("fill", "fill 4 F 1")
	op("tx", "tx C2 2 cb X1:500")
	if onlyW2 {
		// no spender: which credits the first step leaves then does not matter for the counts observed below
		// (the model scans the credit list in its own order)
		op("block", "block B6 F.4 C2")
	} else {
		op("tx", "tx X3 3 CBIG:0;CBIG:20002 X1:1")
		op("block", "block B6 F.4 C2;X3")
	}
	op("submit", "submit B6")
	op("notify", "notify B6")
	op("q-bal", "bal W2 1")
	op("q-bal", "bal W1 1")
	op("dangling-before", "dangling")
	op("remove", "remove W2 good")
	op("tasks", "tasks")
	op("rembegin", "rembegin W2")
	op("remstep-big", "remstep")
	op("dangling-between", "dangling")
	op("residue-between", "residue W2")
	for i := 0; i < 6; i++ {
		op("detach", "detach")
	}
	op("tx", "tx C1b 11 cb X1:5")
	op("block", "block B1b G C1b")
	op("submit", "submit B1b")
	op("fill", "fill 6 H 1")
	op("synced", "synced")
	op("dangling-reorg-between-steps", "dangling")
	if onlyW2 {
		op("residue-between", "residue W2") // no credit of the rolled-back coinbase is left (u/u:20000, no u/c)
	}
	op("q-bal", "bal W1 1")
	op("remstep-big", "remstep")
	op("remstep-extra", "remstep")
	op("dangling-after", "dangling")
	op("residue-after", "residue W2")
	op("wallets", "wallets")
	op("q-bal", "bal W1 1")
	g.Stats["reorg-below-first-step-between-steps"]++
}

// genRemTwoStep: SMALL histories in which the removal needs more than one database transaction, with the wallet
// ROLLED BACK to a random earlier block BETWEEN the steps (below or above the first step's tip) - the domain of
// defect D45, which the interleaving theorems do not cover in general.  20000 credits are out of reach of the quick
// tier; the other way out of removeRelevantCredit's loop is its two-heights break: a coinbase of the removed wallet
// (paying only that wallet) is mined at TWO heights, the scan deletes its credits at the first height and stops at the
// second.  (Such a chain is not consensus-valid; nothing else in the history depends on it: the survivor is paid by
// ordinary coinbases only, so its specification columns apply.)  The wallet is rolled back by the notification of an
// old block of the same chain (the node never detaches: its database cannot delete a block that spends a transaction
// whose second occurrence was deleted before) and catches up with the next notification.
// Own random source: the rest of the stream is the same with and without these histories.
func genRemTwoStep(g *Gen, idx int) {
	r := rand.New(rand.NewSource(g.Seed*7919 + int64(idx)*31 + 5))
	g.Reset()
	op := g.Op
	op("params", "params 4 3")
	op("wallet", "wallet W1")
	op("addr", "addr W1 A1 std")
	op("wallet", "wallet W2")
	op("addr", "addr W2 A2 std")
	seq := 0
	next := func() int { seq++; return seq }
	tip := "G"
	var chain []string
	mine := func(cb string, txs ...string) string {
		b := fmt.Sprintf("B%d", len(chain))
		op("block", "block %s %s %s", b, tip, strings.Join(append([]string{cb}, txs...), ";"))
		op("submit", "submit %s", b)
		op("notify", "notify %s", b)
		tip = b
		chain = append(chain, b)
		return b
	}
	filler := func() string {
		c := fmt.Sprintf("C%d", next())
		op("tx", "tx %s %d cb X1:500", c, seq)
		return c
	}
	mine(filler())
	// K: ordinary coinbase paying both wallets; D, E: coinbases paying only W2 (each may be mined a second time)
	// (some of W2's coins are staking deposits: Rollback then also moves the deposit records keyed by the wallet id)
	stk := map[string]bool{}
	w2out := func(coin string) string {
		if r.Intn(3) == 0 {
			stk[coin] = true
			g.Stats["two-step-staking-coin"]++
			return "A2:1000:stk:3"
		}
		return "A2:1000"
	}
	op("tx", "tx K %d cb %s;A1:1000;%s", next(), w2out("K:0"), w2out("K:2"))
	op("tx", "tx D %d cb %s;%s", next(), w2out("D:0"), w2out("D:1"))
	op("tx", "tx E %d cb %s;%s", next(), w2out("E:0"), w2out("E:1"))
	order := [][]string{{"K", "D", "E"}, {"D", "K", "E"}, {"D", "E", "K"}, {"E", "D", "K"}}[r.Intn(4)]
	for _, c := range order {
		mine(c)
	}
	for i := 0; i < 4; i++ {
		mine(filler())
	}
	// spenders: each takes one or two of the six matured coins; outputs to strangers / the survivor / the removed wallet
	coins := []string{"K:0", "K:1", "K:2", "D:0", "D:1", "E:0", "E:1"}
	r.Shuffle(len(coins), func(i, j int) { coins[i], coins[j] = coins[j], coins[i] })
	var spenders []string
	for len(coins) > 0 && len(spenders) < 4 {
		n := 1 + r.Intn(2)
		if n > len(coins) {
			n = len(coins)
		}
		ins := append([]string{}, coins[:n]...)
		coins = coins[n:]
		for i, c := range ins {
			if stk[c] {
				ins[i] = c + ":4" // sequence = frozen period + 1
			}
		}
		if r.Intn(5) == 0 {
			continue // this coin stays unspent
		}
		name := fmt.Sprintf("X%d", next())
		out := []string{"X1", "X1", "A1", "A2"}[r.Intn(4)]
		op("tx", "tx %s %d %s %s:%d", name, seq, strings.Join(ins, ";"), out, 1000*n-1)
		spenders = append(spenders, name)
		if n == 2 {
			g.Stats["two-step-spender-of-two-coins"]++
		}
	}
	mine(filler(), spenders...)
	// the second occurrences
	dup := []string{"D"}
	switch r.Intn(3) {
	case 1:
		dup = []string{"E"}
	case 2:
		dup = []string{"D", "E"}
	}
	for _, c := range dup {
		mine(c)
	}
	if r.Intn(2) == 0 {
		mine(filler())
	}
	op("q-bal", "bal W1 1")
	op("dangling-before", "dangling")
	op("remove", "remove W2 good")
	op("tasks", "tasks")
	op("rembegin", "rembegin W2")
	op("remstep-two", "remstep") // parked: the scan stopped at the second height
	op("dangling-between", "dangling")
	if r.Intn(4) == 0 {
		op("remquit", "remquit")
		op("restart", "restart")
		op("inittasks", "inittasks")
		op("tasks", "tasks")
		op("rembegin", "rembegin W2")
		g.Stats["restart-between-removal-steps"]++
	}
	// the wallet goes back to a random block of its chain, below or above the blocks of K / D / E and of the spenders
	back := r.Intn(len(chain) - 1)
	op("notify-old", "notify %s", chain[back])
	op("synced", "synced")
	op("dangling-rolled-back-between-steps", "dangling")
	if back <= 4 {
		g.Stats["rollback-below-first-step-between-steps"]++
	}
	if r.Intn(3) == 0 {
		op("remsteps", "remsteps 1") // a step while the wallet is behind
		op("dangling-between", "dangling")
	}
	if r.Intn(2) == 0 {
		mine(filler()) // catch up through a new block
	} else {
		op("notify", "notify %s", tip)
	}
	op("synced", "synced")
	op("dangling-between", "dangling")
	op("q-bal", "bal W1 1")
	op("remsteps", "remsteps 6")
	op("remstep-extra", "remstep")
	op("dangling-after", "dangling")
	op("residue-after", "residue W2")
	op("wallets", "wallets")
	op("q-bal", "bal W1 1")
	op("q-utxos", "utxos W1")
	// later: back again and forward
	back = r.Intn(len(chain) - 1)
	op("notify-old", "notify %s", chain[back])
	op("notify", "notify %s", tip)
	op("synced", "synced")
	op("dangling-later", "dangling")
	op("residue-later", "residue W2")
	op("q-bal", "bal W1 1")
	op("q-utxos", "utxos W1")
	g.Stats["two-step-small"]++
}

// genRemMixed: transactions with inputs from BOTH the wallet being removed (A) and a survivor (B), in both
// input orders, paying A only / B only / both / strangers only, pending and mined, all delivered before the
// removal request.  Whether such a record goes with A is `removable` (every input is looked at, not only the
// first one with a mined credit - seeded mutation C08-2); the survivor's spent-by-unmined coins, the pending
// set, coins and balance are observed with their specification columns after the removal, after some of the
// pending ones were confirmed, after a confirmed double spend of B's coin and after a reorganisation that
// returns the mined ones to the pending set.
//
// The history is written out op by op (no random chain simulator) so that MW.Spec.Pending applies throughout
// (Drv.Imp.pendSpecOn): both wallets are funded by ONE transaction spending a coinbase of the survivor (no
// spend of a coinbase that belongs to nobody after the removal) and no follower event happens between the
// removal request and its last step.
func genRemMixed(g *Gen) {
	r := g.Rng
	g.Reset()
	op := g.Op
	op("params", "params 4 3")
	nW := 2 + r.Intn(2)
	ai := 1 + r.Intn(nW) // the wallet that goes
	bi := 1 + r.Intn(nW)
	for bi == ai {
		bi = 1 + r.Intn(nW)
	}
	A, B := fmt.Sprintf("W%d", ai), fmt.Sprintf("W%d", bi)
	addrOf := map[string][]string{}
	nA := 0
	for i := 1; i <= nW; i++ {
		w := fmt.Sprintf("W%d", i)
		op("wallet", "wallet %s", w)
		for k := 1 + r.Intn(2); k > 0; k-- {
			nA++
			a := fmt.Sprintf("A%d", nA)
			addrOf[w] = append(addrOf[w], a)
			op("addr", "addr %s %s std", w, a)
		}
	}
	pick := func(w string) string { return addrOf[w][r.Intn(len(addrOf[w]))] }
	var live []string
	for i := 1; i <= nW; i++ {
		if i != ai {
			live = append(live, fmt.Sprintf("W%d", i))
		}
	}
	seq := 0
	next := func() int { seq++; return seq }
	tip := "G"
	nB := 0
	mine := func(txs ...string) {
		c := fmt.Sprintf("C%d", next())
		op("tx", "tx %s %d cb X1:500", c, seq)
		nB++
		b := fmt.Sprintf("B%d", nB)
		op("block", "block %s %s %s", b, tip, strings.Join(append([]string{c}, txs...), ";"))
		op("submit", "submit %s", b)
		op("notify", "notify %s", b)
		tip = b
	}
	// the survivor's coinbase, matured, funds both wallets
	op("tx", "tx K0 %d cb %s:1000000", next(), pick(B))
	op("block", "block B0 G K0")
	op("submit", "submit B0")
	op("notify", "notify B0")
	op("fill", "fill 4 F 1")
	tip = "F.4"
	const perWallet = 26
	var outs []string
	for i := 0; i < perWallet; i++ {
		outs = append(outs, pick(A)+":1000")
	}
	for i := 0; i < perWallet; i++ {
		outs = append(outs, pick(B)+":1000")
	}
	op("tx", "tx FUND %d K0:0 %s", next(), strings.Join(outs, ";"))
	mine("FUND")
	na, nb := 0, 0
	coinA := func() string { na++; return fmt.Sprintf("FUND:%d", na-1) }
	coinB := func() string { nb++; return fmt.Sprintf("FUND:%d", perWallet+nb-1) }
	type mixed struct {
		name  string
		bCoin string
	}
	build := func(state string, order, dest int) mixed {
		a, b := coinA(), coinB()
		ins := []string{a, b}
		if order == 1 {
			ins = []string{b, a}
		}
		if r.Intn(4) == 0 && na < perWallet-1 {
			// a second coin of A in front
			ins = append([]string{coinA()}, ins...)
			g.Stats["mix-three-inputs"]++
		}
		total := 1000 * len(ins)
		var o string
		switch dest {
		case 0:
			o = fmt.Sprintf("%s:%d", pick(A), total-100)
		case 1:
			o = fmt.Sprintf("%s:%d", pick(B), total-100)
		case 2:
			o = fmt.Sprintf("%s:%d;%s:%d", pick(A), total/2-100, pick(B), total/2)
			if r.Intn(2) == 0 {
				o = fmt.Sprintf("%s:%d;%s:%d", pick(B), total/2, pick(A), total/2-100)
			}
		default:
			o = fmt.Sprintf("X%d:%d", 2+r.Intn(2), total-100)
		}
		name := fmt.Sprintf("%s%d", map[string]string{"pend": "U", "mined": "M"}[state], next())
		op("tx", "tx %s %d %s %s", name, seq, strings.Join(ins, ";"), o)
		g.Stats[fmt.Sprintf("mix-%s-%s-%s", state, []string{"afirst", "bfirst"}[order], []string{"toA", "toB", "toAB", "toX"}[dest])]++
		return mixed{name, b}
	}
	observe := func(tag string) {
		op("q-pend", "pend")
		for _, w := range live {
			op("mix-sbu-"+tag, "sbu %s", w)
			op("q-utxos", "utxos %s", w)
			op("q-bal", "bal %s 1", w)
			op("q-bal0", "bal %s 0", w)
			op("q-shistp", "shistp %s", w)
		}
	}
	// ---- mined mixed transactions
	var minedTx []mixed
	for order := 0; order < 2; order++ {
		for dest := 0; dest < 4; dest++ {
			if r.Intn(3) > 0 {
				minedTx = append(minedTx, build("mined", order, dest))
			}
		}
	}
	r.Shuffle(len(minedTx), func(i, j int) { minedTx[i], minedTx[j] = minedTx[j], minedTx[i] })
	var names []string
	for _, m := range minedTx {
		names = append(names, m.name)
	}
	forkBelowMixed, forkB := tip, nB
	mine(names...)
	// ---- pending mixed transactions
	var pend []mixed
	for order := 0; order < 2; order++ {
		for dest := 0; dest < 4; dest++ {
			if r.Intn(4) > 0 {
				m := build("pend", order, dest)
				op("recvtx", "recvtx %s", m.name)
				pend = append(pend, m)
			}
		}
	}
	if r.Intn(3) == 0 {
		mine()
	}
	observe("before")
	op("residue-before", "residue %s", A)
	// ---- the removal (nothing is delivered between the request and the last step)
	op("remove", "remove %s good", A)
	op("wallets", "wallets")
	if r.Intn(3) == 0 {
		op("restart", "restart")
		op("inittasks", "inittasks")
		g.Stats["restart-before-removal-step"]++
	}
	op("tasks", "tasks")
	op("rembegin", "rembegin %s", A)
	op("remstep", "remstep")
	if rand.New(rand.NewSource(g.Seed*350377 + int64(g.N))).Intn(3) == 0 {
		crashInLastStep(g, op)
	}
	op("remstep-extra", "remstep")
	op("residue-after", "residue %s", A)
	op("wallets", "wallets")
	observe("after")
	g.Stats["mix-history"]++
	// ---- some of the kept pending transactions are confirmed, one is double spent by a confirmed transaction
	var conf []string
	var rest []mixed
	for _, m := range pend {
		if r.Intn(3) == 0 {
			conf = append(conf, m.name)
		} else {
			rest = append(rest, m)
		}
	}
	if len(rest) > 0 && r.Intn(3) > 0 {
		m := rest[r.Intn(len(rest))]
		d := fmt.Sprintf("D%d", next())
		op("tx", "tx %s %d %s %s:900", d, seq, m.bCoin, pick(B))
		conf = append(conf, d)
		g.Stats["mix-kept-pending-double-spent"]++
	}
	mine(conf...)
	observe("confirmed")
	// ---- a reorganisation below the mined mixed transactions: they return to the pending set (some are
	// mined again on the new branch)
	if r.Intn(3) > 0 {
		depth := nB - forkB
		for i := 0; i < depth; i++ {
			op("detach", "detach")
		}
		tip = forkBelowMixed
		var again []string
		for _, m := range minedTx {
			if r.Intn(3) == 0 {
				again = append(again, m.name)
			}
		}
		// the new branch is one block longer than the old one; the follower hears of its last block only
		for i := 0; i <= depth; i++ {
			c := fmt.Sprintf("C%d", next())
			op("tx", "tx %s %d cb X1:500", c, seq)
			b := fmt.Sprintf("R%d", i)
			txs := []string{c}
			if i == 0 {
				txs = append(txs, again...)
			}
			op("block", "block %s %s %s", b, tip, strings.Join(txs, ";"))
			op("submit", "submit %s", b)
			tip = b
		}
		op("notify", "notify %s", tip)
		g.Stats["reorg-after-removal"]++
		g.Stats["mix-mined-back-to-pending"]++
		observe("reorganised")
	}
	op("residue-later", "residue %s", A)
	// ---- the same mnemonic comes back: its coins spent by the kept transactions are spent for it as well
	if r.Intn(3) == 0 {
		op("reimport", "import %s mn %d", A, len(addrOf[A]))
		op("tasks", "tasks")
		op("impstep-flush", "impstep %s", A)
		op("impstep-flush", "impstep %s", A)
		live = append(live, A)
		observe("reimported")
		op("residue-reimported", "residue %s", A)
		g.Stats["reimport"]++
	}
}
