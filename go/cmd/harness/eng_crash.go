package main

// Engine crash (C06): a crash at any instant loses nothing and applies nothing twice.
//
// The uninterrupted run ("twin") executes the history on a WEnv whose wallet database is wrapped by
// faultDB; right after EVERY wallet-database commit the LevelDB directory is forked (copied file by
// file at that instant). `crashall` then takes every fork as a crash point: a replay environment gets
// the node chain of that moment (rebuilt from the node ops of the history prefix; the node is not
// crashed), the forked wallet directory, a FRESH WalletManager (all volatile state lost:
// bestBlock copy, mempool / expiredMempool, keystore cache, reservation cache, task queue), runs the
// real NtfnsHandler.Start (catch-up, fast-forward, initTaskChan, follower + worker goroutines until
// the re-queued import / removal tasks are done), executes the rest of the history and must produce
// the twin's output at every comparable observation (twin caught up with the node, no background
// work). Crash points are enumerated exhaustively per history; with depth 2 the replays themselves
// are forked (crash during catch-up, repeated crashes).
//
// Ops (besides the led ops, see eng_led.go):
//   boot                 process death + restart of the twin itself (Restart + Start as above)
//   remove W             RemoveWallet(W) (marks the wallet, queues the task; the task is taken out again)
//   removerun W          asyncRemove(W) synchronously (phase 1 + all phase-2 steps)
//   mkimport W n         prepare an external wallet W with n addresses (created in a scratch wallet db)
//   import W             ImportWalletWithMnemonic(W)
//   importstep W         one asyncImport batch (no-op unless W is importing)
//   commits              number of wallet-database commits so far (tie for atomic_steps)
//   crashall D M         enumerate all crash points, depth D (1|2), every M-th second-level fork

import (
	"errors"
	"fmt"
	"os"
	"path/filepath"
	"reflect"
	"strconv"
	"strings"
	"time"
	"unsafe"

	"github.com/massnetorg/mass-core/blockchain"
	"github.com/massnetorg/mass-core/blockchain/state"
	cldb "github.com/massnetorg/mass-core/database/ldb"
	"github.com/massnetorg/mass-core/database/storage"
	"github.com/massnetorg/mass-core/massutil"
	"github.com/massnetorg/mass-core/trie/rawdb"
	"github.com/massnetorg/mass-core/wire"
	"massnet.org/mass-wallet/config"
	"massnet.org/mass-wallet/masswallet"
	mwdb "massnet.org/mass-wallet/masswallet/db"
	"massnet.org/mass-wallet/masswallet/keystore"
)

func init() {
	register(&Engine{Name: "crash", Gen: genCrash, NewExec: func() Exec { return &crashExec{} }})
}

// ---------------------------------------------------------------- symbol tables

type symSnap struct {
	wallets, walletRev, mnemonic, targets map[string]string
	addrs                                 map[string]*addrInfo
	imports                               map[string]*importInfo
}

func copyStrMap(m map[string]string) map[string]string {
	r := make(map[string]string, len(m))
	for k, v := range m {
		r[k] = v
	}
	return r
}

func snapSyms(e *WEnv) *symSnap {
	s := &symSnap{wallets: copyStrMap(e.wallets), walletRev: copyStrMap(e.walletRev), mnemonic: copyStrMap(e.mnemonic),
		targets: copyStrMap(e.targets), addrs: map[string]*addrInfo{}, imports: map[string]*importInfo{}}
	for k, v := range e.addrs {
		s.addrs[k] = v
	}
	for k, v := range importsOf(e) {
		s.imports[k] = v
	}
	return s
}

func (s *symSnap) install(e *WEnv) {
	e.wallets, e.walletRev, e.mnemonic, e.targets = copyStrMap(s.wallets), copyStrMap(s.walletRev), copyStrMap(s.mnemonic), copyStrMap(s.targets)
	e.addrs, e.addrByEnc, e.addrBySH = map[string]*addrInfo{}, map[string]*addrInfo{}, map[string]*addrInfo{}
	for k, ai := range s.addrs {
		e.addrs[k] = ai
		e.addrByEnc[ai.enc] = ai
		e.addrByEnc[ai.stdEnc] = ai
		if stk, err := massutil.NewAddressStakingScriptHash(ai.sh, config.ChainParams); err == nil {
			e.addrByEnc[stk.EncodeAddress()] = ai
		}
		e.addrBySH[string(ai.sh)] = ai
	}
	m := importsOf(e)
	for k := range m {
		delete(m, k)
	}
	for k, v := range s.imports {
		m[k] = v
	}
}

// external wallets prepared for import (per environment; keyed by the WEnv pointer)
type importInfo struct {
	mnemonic string
	pass     string
	nAddr    int
}

var importTab = map[*WEnv]map[string]*importInfo{}

func importsOf(e *WEnv) map[string]*importInfo {
	m := importTab[e]
	if m == nil {
		m = map[string]*importInfo{}
		importTab[e] = m
	}
	return m
}

// ---------------------------------------------------------------- boot = process restart

func closeBlockchain(bc *blockchain.Blockchain) {
	// mass-core's Blockchain has no Close: release its cache file and end its processor goroutine
	defer func() { recover() }()
	v := reflect.ValueOf(bc).Elem()
	if f := v.FieldByName("blockCache"); f.IsValid() && !f.IsNil() {
		d := f.Elem().FieldByName("data")
		file := *(**os.File)(unsafe.Pointer(d.UnsafeAddr()))
		if file != nil {
			file.Close()
		}
	}
	if ch := v.FieldByName("processBlockCh"); ch.IsValid() {
		reflect.NewAt(ch.Type(), unsafe.Pointer(ch.UnsafeAddr())).Elem().Close()
	}
}

func busyWallets(e *WEnv) bool {
	s := e.Wallets()
	return strings.Contains(s, "importing") || strings.Contains(s, "removing") || s == "err"
}

// startEnv runs the real NtfnsHandler.Start on e.wm: catch-up from synced-to to the node's tip,
// initTaskChan (re-queue of imports / removals), follower + worker goroutines.
//
//	runTasks = false (the boot of a history): the worker is held at its first database
//	  transaction (faultDB gate), the goroutines are stopped again and the re-queued tasks are
//	  checked against the stored wallet status; the work itself is then done by the history's own
//	  importstep / removerun ops - on the schedule of the uninterrupted run, which makes the two runs
//	  comparable (the worker's timing is not part of the property).
//	runTasks = true (settle): the worker really runs the re-queued tasks to the end.
func startEnv(e *WEnv, runTasks bool) error {
	bc, err := blockchain.NewBlockchain(&blockchain.Config{DB: e.chainDb, StateBindingDb: state.NewDatabase(rawdb.NewMemoryDatabase()),
		ChainParams: config.ChainParams, CachePath: filepath.Join(e.dir, fmt.Sprintf("blockcache-%d", time.Now().UnixNano()))})
	if err != nil {
		return err
	}
	e.srv.bc = bc
	defer func() { e.srv.bc = nil; closeBlockchain(bc) }()
	fdb, _ := e.wdb.(*faultDB)
	nBusy := 0
	if !runTasks && fdb != nil {
		// wallets with unfinished work, decided per wallet by the single-record lookup (CheckReady), NOT by the listing
		// Start itself re-queues from: a listing that marks more wallets than the records say (seed C06-5: the removed
		// flag leaked to the wallets listed after the marked one) must show up as a re-queue mismatch
		if ws, err := e.wm.Wallets(); err == nil {
			for _, s := range ws {
				if ready, err := e.wm.CheckReady(s.WalletID); err == nil && !ready {
					nBusy++
				}
			}
		}
		fdb.armGate()
		defer fdb.releaseGate()
	}
	if err := e.wm.VerifStartHandlerOnly(); err != nil {
		return err
	}
	if !runTasks && fdb != nil {
		var requeueErr error
		if nBusy > 0 {
			// the worker takes the first re-queued task and stops at its first transaction
			deadline := time.Now().Add(3 * time.Second)
			for fdb.waiters() == 0 && time.Now().Before(deadline) {
				time.Sleep(100 * time.Microsecond)
			}
			_, _, queued := e.wm.VerifQueueLens()
			if fdb.waiters() == 0 || queued+1 != nBusy {
				requeueErr = fmt.Errorf("%w: %d wallets with unfinished work, %d tasks queued again, worker waiting: %d", errRequeue, nBusy, queued, fdb.waiters())
			}
		}
		fdb.releaseGate()
		e.wm.VerifStopGoroutines()
		e.wm.VerifDrainTasks()
		return requeueErr
	}
	// wait for the re-queued background work; give up when nothing moves any more (an import that
	// cannot proceed until the next tip notification re-queues itself in a tight loop)
	deadline := time.Now().Add(8 * time.Second)
	last, lastChange := e.Wallets(), time.Now()
	for busyWallets(e) && time.Now().Before(deadline) {
		time.Sleep(300 * time.Microsecond)
		if cur := e.Wallets(); cur != last {
			last, lastChange = cur, time.Now()
		} else if time.Since(lastChange) > 150*time.Millisecond {
			break
		}
	}
	e.wm.VerifStopGoroutines()
	e.wm.VerifDrainTasks()
	return nil
}

// settle drives unfinished background work of a replay (what the worker goroutine does in the
// running system) until no wallet is importing / being removed, so that its state can be compared
// with a quiet state of the uninterrupted run.
func settle(e *WEnv) {
	for round := 0; round < 4 && busyWallets(e); round++ {
		if err := startEnv(e, true); err != nil {
			return
		}
	}
}

var errRequeue = errors.New("unfinished work not queued again")

// lastQueuedTasks: how many tasks the last `remove` / `import` op handed to the worker (the step-wise
// harness drains them at once); the fault sweep requires 0 after a FAILED attempt
var lastQueuedTasks int

func bootEnv(e *WEnv) error {
	if err := e.Restart(); err != nil {
		return err
	}
	return startEnv(e, false)
}

// ---------------------------------------------------------------- extra wallet-level ops

func walletStatusOf(e *WEnv, w string) string {
	for _, it := range strings.Split(unfaulted(e, e.Wallets), ",") {
		if strings.HasPrefix(it, w+":") {
			return it[len(w)+1:]
		}
	}
	return "none"
}

// persistOp executes one op of the crash / fault engines on environment e.
func persistOp(e *WEnv, a []string) string {
	switch {
	case a[0] == "rec" && len(a) > 1:
		return persistOp(e, a[1:])
	case a[0] == "boot" && len(a) == 1:
		return errTok(bootEnv(e))
	case a[0] == "remove" && len(a) == 2:
		id, ok := e.wallets[a[1]]
		if !ok {
			return "bad-op"
		}
		e.wm.VerifEnsureTaskChan()
		err := e.wm.RemoveWallet(id, privPass(a[1]))
		drained, _ := e.wm.VerifDrainTasks() // the step-wise harness runs the task itself (removerun)
		lastQueuedTasks = len(drained)
		return errTok(err)
	case a[0] == "removerun" && len(a) == 2:
		id, ok := e.wallets[a[1]]
		if !ok {
			return "bad-op"
		}
		if walletStatusOf(e, a[1]) != "removing" {
			return "ok" // nothing to do (not in that state any more)
		}
		return errTok(e.wm.VerifRemoveRun(id))
	case a[0] == "mkimport" && len(a) == 3:
		n, err := strconv.Atoi(a[2])
		if err != nil {
			return "bad-op"
		}
		return errTok(mkImport(e, a[1], n))
	case a[0] == "import" && len(a) == 2:
		return errTok(doImport(e, a[1]))
	case a[0] == "importstep" && len(a) == 2:
		id, ok := e.wallets[a[1]]
		if !ok {
			return "bad-op"
		}
		if !strings.HasPrefix(walletStatusOf(e, a[1]), "importing") {
			return "ok" // nothing to do (not in that state any more)
		}
		fin, err := e.wm.VerifImportStep(id)
		if err == masswallet.ErrImportingContinuable {
			// the follower has to process a reorganisation first; the worker queues the batch again
			return "ok"
		}
		if err != nil && fin {
			// the worker re-queues a failed batch only when asyncImport reports "not finished": a failed
			// step that claims to be finished drops the accepted import (the wallet stays un-ready)
			errTok(err)
			return "err-task-dropped"
		}
		return errTok(err)
	}
	return ledOp(e, a)
}

// mkImport creates wallet `name` in a scratch wallet database (same chain), issues n addresses
// there and binds them to the symbolic names <name>a1 … <name>an, so that the chain can pay them
// before the wallet is imported into the wallet under test.
func mkImport(e *WEnv, name string, n int) error {
	if _, dup := importsOf(e)[name]; dup {
		return fmt.Errorf("duplicate import wallet")
	}
	p := filepath.Join(e.dir, "scratch-"+name+".db")
	db, err := mwdb.CreateDB("leveldb", p)
	if err != nil {
		return err
	}
	defer func() { db.Close(); os.RemoveAll(p) }()
	wm, err := newWalletManagerOn(e, db)
	if err != nil {
		return err
	}
	id, mn, _, err := wm.CreateWallet(privPass(name), "", 128)
	if err != nil {
		return err
	}
	if _, err := wm.UseWallet(id); err != nil {
		return err
	}
	for i := 1; i <= n; i++ {
		enc, err := wm.NewAddress(massutil.AddressClassWitnessV0)
		if err != nil {
			return err
		}
		if err := e.bindAddr(fmt.Sprintf("%sa%d", name, i), name, "std", enc); err != nil {
			return err
		}
	}
	importsOf(e)[name] = &importInfo{mnemonic: mn, pass: privPass(name), nAddr: n}
	e.wallets[name] = id
	e.walletRev[id] = name
	e.mnemonic[name] = mn
	return nil
}

func doImport(e *WEnv, name string) error {
	ii, ok := importsOf(e)[name]
	if !ok {
		return fmt.Errorf("unknown import wallet")
	}
	e.wm.VerifEnsureTaskChan()
	_, err := e.wm.ImportWalletWithMnemonic(&keystore.WalletParams{Version: keystore.KeystoreVersionLatest, Mnemonic: ii.mnemonic,
		PrivatePassphrase: []byte(ii.pass), ExternalIndex: uint32(ii.nAddr), AddressGapLimit: e.cfg.Wallet.Settings.AddressGapLimit})
	drained, _ := e.wm.VerifDrainTasks()
	lastQueuedTasks = len(drained)
	return err
}

// ---------------------------------------------------------------- replay environments

// newChainEnv builds a WEnv like WEnv.reset does, but WITHOUT a wallet database.
func newChainEnv() *WEnv {
	wenvCounter++
	e := &WEnv{n: wenvCounter}
	cwd, _ := os.Getwd()
	e.dir = filepath.Join(cwd, fmt.Sprintf("wenv-%d-%d", os.Getpid(), e.n))
	os.RemoveAll(e.dir)
	os.MkdirAll(e.dir, 0700)
	e.wallets, e.walletRev, e.mnemonic, e.targets = map[string]string{}, map[string]string{}, map[string]string{}, map[string]string{}
	e.addrs, e.addrByEnc, e.addrBySH = map[string]*addrInfo{}, map[string]*addrInfo{}, map[string]*addrInfo{}
	e.txs, e.txByHash = map[string]*txInfo{}, map[wire.Hash]*txInfo{}
	e.blocks, e.blkByHash = map[string]*blockInfo{}, map[wire.Hash]*blockInfo{}
	stor, err := storage.CreateStorage("leveldb", filepath.Join(e.dir, "chain"))
	if err != nil {
		panic(err)
	}
	cdb, err := cldb.NewChainDb(filepath.Join(e.dir, "chain"), stor)
	if err != nil {
		panic(err)
	}
	e.chainDb = cdb
	gen := massutil.NewBlock(config.ChainParams.GenesisBlock)
	if err := cdb.InitByGenesisBlock(gen); err != nil {
		panic(err)
	}
	g := &blockInfo{name: "G", msg: config.ChainParams.GenesisBlock, hash: *gen.Hash(), height: 0}
	e.blocks["G"] = g
	e.blkByHash[g.hash] = g
	e.chain = []string{"G"}
	e.cfg = &config.Config{Core: config.NewDefCoreConfig(), Wallet: config.NewDefWalletConfig()}
	e.srv = &wenvServer{db: e.chainDb, pool: blockchain.NewTxPool(nil, nil, nil)}
	e.wdbPath = filepath.Join(e.dir, "wallet.db")
	return e
}

func isNodeOp(a []string) bool {
	switch a[0] {
	case "params", "tx", "block", "submit", "detach":
		return true
	}
	return false
}

// newReplayEnv: the node as it was after history op `upto`, the wallet directory as forked.
func newReplayEnv(hist [][]string, outs []string, upto int, fork string, syms *symSnap, rec *recorder) (*WEnv, error) {
	e := newChainEnv()
	syms.install(e)
	for j := 0; j <= upto && j < len(hist); j++ {
		if isNodeOp(hist[j]) {
			// the node op must go the way it went in the uninterrupted run (also when that was an error)
			if out := ledOp(e, hist[j]); out != outs[j] {
				e.Close()
				return nil, fmt.Errorf("node replay failed at op %d (%s): %s", j, strings.Join(hist[j], " "), out)
			}
		}
	}
	if err := forkDir(fork, e.wdbPath); err != nil {
		e.Close()
		return nil, err
	}
	if rec != nil {
		rec.e = e
		e.wrapDB = rec.wrap
	} else {
		// no forks are taken of this replay, but Start still needs the gate of the wrapper
		e.wrapDB = func(db mwdb.DB) mwdb.DB { return newFaultDB(db, e.wdbPath) }
	}
	if err := e.openWallet(false); err != nil {
		e.Close()
		return nil, err
	}
	return e, nil
}

func closeEnv(e *WEnv) {
	delete(importTab, e)
	e.Close()
}

// newWalletManagerOn builds a WalletManager over another wallet database, sharing e's node.
func newWalletManagerOn(e *WEnv, db mwdb.DB) (*masswallet.WalletManager, error) {
	return masswallet.NewWalletManager(e.srv, db, e.cfg, config.ChainParams, pubPass)
}

// ---------------------------------------------------------------- the executor

type forkRec struct {
	k    int    // commit index (global, twin) or local index (replay)
	op   int    // index of the history op during which the commit happened (-1: environment set-up)
	dir  string // forked wallet directory
	syms *symSnap
	boot bool // the commit happened inside a boot (catch-up) of a replay
	// quiet: the follower had processed the node's tip when the operation containing this commit was
	// over. A crash while the follower lags is still replayed, but the restarted wallet catches up
	// past blocks the uninterrupted run has not seen yet; if the node reorganises those away, their
	// transactions sit in the restarted wallet's pending set and never reached the other one. The
	// CONFIRMED state must agree all the same; pending-derived observations are compared only for
	// quiet crash points.
	quiet bool
}

// recorder collects forks of one environment.
type recorder struct {
	e       *WEnv
	root    string
	n       int
	curOp   int
	inBoot  bool
	forks   []*forkRec
	pending []*forkRec // forks of the op in progress (symbols attached when it completes)
	err     error
}

func (r *recorder) wrap(db mwdb.DB) mwdb.DB {
	f := newFaultDB(db, r.e.wdbPath)
	f.onCommit = func(int) {
		k := r.n
		r.n++
		d := filepath.Join(r.root, fmt.Sprintf("c%d", k))
		if err := forkDir(r.e.wdbPath, d); err != nil && r.err == nil {
			r.err = err
		}
		fr := &forkRec{k: k, op: r.curOp, dir: d, boot: r.inBoot}
		r.forks = append(r.forks, fr)
		r.pending = append(r.pending, fr)
	}
	return f
}

func (r *recorder) opDone() {
	if len(r.pending) > 0 {
		s := snapSyms(r.e)
		q := caughtUp(r.e)
		for _, f := range r.pending {
			f.syms = s
			f.quiet = q
		}
		r.pending = nil
	}
}

// notifyArg: the block of a (possibly rec-wrapped) notification op
func notifyArg(a []string) string {
	if a[0] == "rec" && len(a) > 1 {
		return notifyArg(a[1:])
	}
	if a[0] == "notify" && len(a) == 2 {
		return a[1]
	}
	return ""
}

// pendingObs: observations derived from the pending (unconfirmed) bookkeeping
func pendingObs(a []string) bool {
	if a[0] == "rec" && len(a) > 1 {
		return pendingObs(a[1:])
	}
	switch a[0] {
	case "sbu", "pend", "hsbu", "shistp", "bhistp", "pins", "pcred", "pgame":
		return true
	}
	return false
}

type crashExec struct {
	e     *WEnv
	rec   *recorder
	hist  [][]string
	outs  []string
	cmp   []bool // comparable observation?
	nRoot int
	stats map[string]int
}

func (x *crashExec) env() *WEnv {
	if x.e == nil {
		x.e = NewWEnv()
		x.install()
		x.e.reset()
		x.rec.opDone()
	}
	return x.e
}

func (x *crashExec) install() {
	x.nRoot++
	x.rec = &recorder{e: x.e, root: fmt.Sprintf("%s-forks-%d", x.e.dir, x.nRoot), curOp: -1}
	x.e.wrapDB = x.rec.wrap
	x.hist, x.outs, x.cmp = nil, nil, nil
}

func (x *crashExec) Reset() {
	if x.e != nil {
		os.RemoveAll(x.rec.root)
		delete(importTab, x.e)
		x.install()
		x.e.reset()
		x.rec.opDone()
	}
}

func (x *crashExec) Close() {
	if x.e != nil {
		os.RemoveAll(x.rec.root)
		closeEnv(x.e)
	}
}

func isObservation(a []string) bool {
	if a[0] == "rec" && len(a) > 1 {
		return isObservation(a[1:])
	}
	switch a[0] {
	case "synced", "bal", "abal", "utxos", "sbu", "pend", "addrs", "shist", "bhist", "hsbu", "shistp", "bhistp", "wallets",
		"pins", "pcred", "pgame", "glog", "wseq":
		return true
	}
	return false
}

// caughtUp: the follower has processed the node's tip and no background work is pending.
func caughtUp(e *WEnv) bool {
	tip := e.Tip()
	return e.Synced() == fmt.Sprintf("%d %d %s", tip.height, tip.height, tip.name) && !busyWallets(e)
}

func (x *crashExec) Exec(a []string) string {
	e := x.env()
	if len(a) == 0 {
		return "bad-op"
	}
	switch {
	case a[0] == "crashall" && len(a) == 3:
		d, err1 := strconv.Atoi(a[1])
		m, err2 := strconv.Atoi(a[2])
		if err1 != nil || err2 != nil || d < 1 || m < 1 {
			return "bad-op"
		}
		return x.crashAll(d, m)
	case a[0] == "commits" && len(a) == 1:
		return strconv.Itoa(x.rec.n)
	}
	x.rec.curOp = len(x.hist)
	x.rec.inBoot = a[0] == "boot"
	out := persistOp(e, a)
	x.rec.inBoot = false
	x.rec.opDone()
	x.hist = append(x.hist, a)
	x.outs = append(x.outs, out)
	x.cmp = append(x.cmp, isObservation(a) && caughtUp(e))
	if a[0] == "rec" {
		return "ok" // recorded for the crash comparison only (histories the ledger model does not cover)
	}
	return out
}

// crashAll: every fork of the twin is a crash point.
func (x *crashExec) crashAll(depth, mod int) string {
	if x.rec.err != nil {
		if verifDebug {
			fmt.Fprintln(os.Stderr, "  [fork error]", x.rec.err)
		}
		return "fork-error"
	}
	for _, f := range x.rec.forks {
		if d := x.replay(f, 1, depth, mod); d != "" {
			return "diff " + d
		}
	}
	return "ok"
}

func (x *crashExec) replay(f *forkRec, level, depth, mod int) string {
	var rec *recorder
	if level < depth {
		rec = &recorder{root: fmt.Sprintf("%s-l%d-%d", f.dir, level, f.k), curOp: f.op, inBoot: true}
		defer os.RemoveAll(rec.root)
	}
	r, err := newReplayEnv(x.hist, x.outs, f.op, f.dir, f.syms, rec)
	if err != nil {
		return fmt.Sprintf("k=%d op=%d replay-setup-failed", f.k, f.op)
	}
	defer closeEnv(r)
	if err := startEnv(r, false); err != nil {
		if verifDebug {
			fmt.Fprintln(os.Stderr, "  [boot error]", err)
		}
		if errors.Is(err, errRequeue) {
			return fmt.Sprintf("k=%d op=%d boot-failed:requeue", f.k, f.op)
		}
		// Start itself failed (its catch-up hit an error). If the follower of the uninterrupted run
		// is healthy, the observations below differ (the replay stays behind); if it is wedged on the
		// same block (e.g. by C08's open defect D11 after a removal) there is nothing to compare.
	}
	if rec != nil {
		rec.inBoot = false
		for _, p := range rec.pending {
			p.syms = f.syms
		}
		rec.pending = nil
	}
	// the notification queue (NtfnsHandler.queueBlock) is volatile too: what the node had announced
	// before the crash and the follower had not yet taken is LOST with the process; the restarted
	// wallet learns about those blocks from Start's catch-up only
	announced := map[string]bool{}
	for j := 0; j <= f.op && j < len(x.hist); j++ {
		if a := x.hist[j]; a[0] == "submit" && len(a) == 2 && x.outs[j] == "ok" {
			announced[a[1]] = true
		}
	}
	for j := f.op + 1; j < len(x.hist); j++ {
		a := x.hist[j]
		if a[0] == "submit" && len(a) == 2 {
			delete(announced, a[1]) // announced again after the restart
		}
		if n := notifyArg(a); n != "" && announced[n] {
			continue
		}
		if rec != nil {
			rec.curOp = j
			rec.inBoot = a[0] == "boot"
		}
		out := persistOp(r, a)
		if rec != nil {
			rec.inBoot = false
			rec.opDone()
		}
		if !f.quiet && pendingObs(a) {
			continue
		}
		if x.cmp[j] && out != x.outs[j] && busyWallets(r) {
			settle(r)
			out = persistOp(r, a)
		}
		if x.cmp[j] && out != x.outs[j] {
			return fmt.Sprintf("k=%d op=%d level=%d at=%d:%s twin=%s crash=%s", f.k, f.op, level, j, strings.Join(a, "_"), x.outs[j], out)
		}
	}
	if rec != nil {
		if rec.err != nil {
			if verifDebug {
				fmt.Fprintln(os.Stderr, "  [fork error]", rec.err)
			}
			return "fork-error"
		}
		for i, f2 := range rec.forks {
			if !f2.boot && i%mod != 0 {
				continue
			}
			if f2.syms == nil {
				f2.syms = f.syms
			}
			f2.quiet = f2.quiet && f.quiet
			if d := x.replay(f2, level+1, depth, mod); d != "" {
				return d
			}
		}
	}
	return ""
}
