// Command harness drives the real MassNet-wallet code (built from /repo's working tree with
// -tags verif) through the line protocol shared with the Lean driver (tie A of DESIGN.md).
//
//	harness gen  -engine E -prop P -tier T -seed S -out DIR   generate op lines (ops.txt) + meta.json
//	harness exec -engine E -in ops.txt -out impl.txt          execute op lines on the implementation
//
// gen and exec are separate so that a replay (a saved ops file) runs through exactly the same
// executor, and so that shrinking can re-execute sub-sequences.
package main

import (
	"bufio"
	"encoding/json"
	"flag"
	"fmt"
	"math/rand"
	"os"
	"path/filepath"
	"sort"
	"strconv"
	"strings"
	"time"
)

// Engine couples a generator of op lines with an executor of op lines against the real code.
type Engine struct {
	Name string
	// Gen writes op lines through g.Op. It must derive every random choice from g.Rng.
	Gen func(g *Gen)
	// NewExec returns a fresh executor; Exec is called once per op line (without the engine
	// prefix) and returns the canonical implementation output for that op. `reset` lines are
	// passed to Reset.
	NewExec func() Exec
}

type Exec interface {
	Exec(args []string) string
	Reset()
	Close()
}

var engines = map[string]*Engine{}

func register(e *Engine) { engines[e.Name] = e }

// Gen is the generation context.
type Gen struct {
	Engine   string
	Prop     string
	Tier     string
	Seed     int64
	Rng      *rand.Rand
	w        *bufio.Writer
	N        int
	Stats    map[string]int
	sample   []string
	required []string
}

// Op emits one op line for the current engine; class is counted in the distribution.
func (g *Gen) Op(class string, format string, a ...interface{}) {
	line := g.Engine + " " + fmt.Sprintf(format, a...)
	fmt.Fprintln(g.w, line)
	g.N++
	g.Stats[class]++
	if len(g.sample) < 12 && g.Stats[class] <= 2 {
		g.sample = append(g.sample, line)
	}
}

// Reset starts a new history (stateful engines).
func (g *Gen) Reset() {
	fmt.Fprintln(g.w, "reset")
	g.Stats["reset"]++
}

func (g *Gen) Quick() bool { return g.Tier != "thorough" }

// Covered reports whether every op class the property names as required (VERIF_REQUIRED, a comma
// separated list passed by ./check from props/Cxx.json) has been produced at least once. Generators of
// randomised histories keep going (within a bounded multiple of their budget) until it holds, so that
// the coverage guard never depends on the luck of a seed.
func (g *Gen) Covered() bool {
	for _, c := range g.required {
		if c != "" && g.Stats[c] == 0 {
			return false
		}
	}
	return true
}

// Scale returns q in the quick tier and t in the thorough tier.
func (g *Gen) Scale(q, t int) int {
	if g.Quick() {
		return q
	}
	return t
}

func main() {
	if len(os.Args) < 2 {
		fmt.Fprintln(os.Stderr, "usage: harness gen|exec|list ...")
		os.Exit(2)
	}
	switch os.Args[1] {
	case "list":
		var names []string
		for n := range engines {
			names = append(names, n)
		}
		sort.Strings(names)
		fmt.Println(strings.Join(names, " "))
	case "gen":
		fs := flag.NewFlagSet("gen", flag.ExitOnError)
		eng := fs.String("engine", "", "")
		prop := fs.String("prop", "", "")
		tier := fs.String("tier", "quick", "")
		seed := fs.Int64("seed", 1, "")
		out := fs.String("out", ".", "")
		fs.Parse(os.Args[2:])
		e := engines[*eng]
		if e == nil {
			fmt.Fprintln(os.Stderr, "unknown engine", *eng)
			os.Exit(2)
		}
		f, err := os.Create(filepath.Join(*out, "ops.txt"))
		if err != nil {
			panic(err)
		}
		g := &Gen{Engine: *eng, Prop: *prop, Tier: *tier, Seed: *seed, Rng: rand.New(rand.NewSource(*seed)),
			w: bufio.NewWriterSize(f, 1<<20), Stats: map[string]int{}, required: strings.Split(os.Getenv("VERIF_REQUIRED"), ",")}
		e.Gen(g)
		g.w.Flush()
		f.Close()
		meta := map[string]interface{}{"engine": *eng, "prop": *prop, "tier": *tier, "seed": *seed,
			"ops": g.N, "distribution": g.Stats, "samples": g.sample}
		b, _ := json.MarshalIndent(meta, "", " ")
		if err := os.WriteFile(filepath.Join(*out, "meta.json"), b, 0644); err != nil {
			panic(err)
		}
	case "exec":
		fs := flag.NewFlagSet("exec", flag.ExitOnError)
		in := fs.String("in", "", "")
		out := fs.String("out", "", "")
		fs.Parse(os.Args[2:])
		runExec(*in, *out)
	default:
		fmt.Fprintln(os.Stderr, "unknown command")
		os.Exit(2)
	}
}

func runExec(in, out string) {
	fi, err := os.Open(in)
	if err != nil {
		panic(err)
	}
	defer fi.Close()
	fo, err := os.Create(out)
	if err != nil {
		panic(err)
	}
	defer fo.Close()
	w := bufio.NewWriterSize(fo, 1<<16)
	defer w.Flush()
	execs := map[string]Exec{}
	defer func() {
		for _, x := range execs {
			x.Close()
		}
	}()
	sc := bufio.NewScanner(fi)
	sc.Buffer(make([]byte, 1<<20), 1<<26)
	for sc.Scan() {
		toks := strings.Fields(sc.Text())
		if len(toks) == 0 {
			fmt.Fprintln(w, "bad-engine")
			continue
		}
		if len(toks) == 1 && toks[0] == "reset" {
			resetConsensusParams() // every history starts from the compiled-in consensus parameters (wenv.go)
			for _, x := range execs {
				x.Reset()
			}
			fmt.Fprintln(w, "ok")
			w.Flush()
			continue
		}
		e := engines[toks[0]]
		if e == nil {
			fmt.Fprintln(w, "bad-engine")
			continue
		}
		x := execs[toks[0]]
		if x == nil {
			x = e.NewExec()
			execs[toks[0]] = x
		}
		res, hung := execWithWatchdog(x, toks[1:])
		fmt.Fprintln(w, res)
		w.Flush() // a crash must not lose the outputs before it
		if hung {
			// the implementation did not return: the goroutine cannot be killed, so this process ends
			// here; the remaining ops are reported as missing by ./check
			fo.Sync()
			os.Exit(3)
		}
	}
}

// execWithWatchdog runs one op; an implementation call that does not return within the op
// time limit (VERIF_OP_TIMEOUT seconds, default 120) becomes the output token HANG.
func execWithWatchdog(x Exec, args []string) (string, bool) {
	limit := 120 * time.Second
	if v := os.Getenv("VERIF_OP_TIMEOUT"); v != "" {
		if n, err := strconv.Atoi(v); err == nil && n > 0 {
			limit = time.Duration(n) * time.Second
		}
	}
	done := make(chan string, 1)
	go func() { done <- safeExec(x, args) }()
	select {
	case r := <-done:
		return r, false
	case <-time.After(limit):
		return "HANG (no return within " + limit.String() + ")", true
	}
}

// safeExec turns a panic of the implementation into the output token PANIC (never a crash of
// the harness): C16/C19 are about exactly that.
func safeExec(x Exec, args []string) (res string) {
	defer func() {
		if r := recover(); r != nil {
			res = "PANIC " + strings.ReplaceAll(fmt.Sprint(r), "\n", " ")
		}
	}()
	return x.Exec(args)
}
