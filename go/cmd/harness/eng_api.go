package main

// Engine api (C19): every gRPC handler of the REAL api.APIServer called directly (no network) under
// recover() over a WEnv, in every wallet state reachable from ledger histories.
//
// Op lines (beside every base op of engine led, which is delegated to ledOp):
//   call M ARGS...       invoke handler M with positional, symbolically encoded arguments
//                        -> done | PANIC <kind>@<function>         (spec: always done)
//   res                  class of the last call: ok | e<api error code> | deep      (model only)
//   startcall M ARGS...  real NtfnsHandler.Start(), the call right after it, Stop(), reopen   -> done | PANIC …
//   rmrun W              run the queued removal of W to completion (asyncRemove)      -> ok | err
//   impstep W            follower catches up with the node's tip, then one asyncImport batch of W -> fin | more | retry | err
//   cur                  symbolic name of the wallet in use, "-" if none
//   x OP...              robust mode: run OP (any op above or a base op), output only done | PANIC … | HANG
//   tx …                 as in led, amounts scaled by 10^6 (so that fees and dust limits are reachable)
//
// Argument tokens (STR): "-" empty | a:<ascii> literal | h:<hex> literal bytes | rep:<n>:<hexbyte>
//   | wid:W | pass:W | tx:T | txu:<n> (unknown, well formed) | addr:A | saddr:A (staking encoding)
//   | xaddr:X | pkh:<n> / bt:<n> (binding targets) | ks:W (exported keystore) | mn:W (mnemonic)
//   | raw:T (serialized defined tx) | rawc (last created tx) | raws (last signed tx) | cut:<n>:<STR> (prefix)
// LIST = STR,STR…   MAP = STR>STR,…   INS = STR/vout,…   OUTS = holder/target/amount,…   ("-" = empty)

import (
	"context"
	"crypto/sha256"
	"encoding/hex"
	"fmt"
	"os"
	"path/filepath"
	"reflect"
	"runtime"
	"runtime/debug"
	"strconv"
	"strings"
	"time"
	"unsafe"

	"github.com/golang/protobuf/ptypes/empty"
	"github.com/massnetorg/mass-core/blockchain"
	"github.com/massnetorg/mass-core/blockchain/state"
	"github.com/massnetorg/mass-core/logging"
	"github.com/massnetorg/mass-core/massutil"
	"github.com/massnetorg/mass-core/netsync"
	"github.com/massnetorg/mass-core/trie/rawdb"
	"github.com/massnetorg/mass-core/wire"
	"google.golang.org/grpc/status"
	"massnet.org/mass-wallet/api"
	pb "massnet.org/mass-wallet/api/proto"
	"massnet.org/mass-wallet/config"
	"massnet.org/mass-wallet/masswallet"
)

func init() {
	register(&Engine{Name: "api", Gen: genApi, NewExec: func() Exec { return &apiExec{} }})
}

const apiAmountScale = "000000" // appended to every amount of a `tx` op

// apiNode is the api.MassNode the APIServer talks to: the WEnv's real pool, a REAL
// blockchain.Blockchain over the WEnv's chain database (rebuilt when the chain moved), no SyncManager.
type apiNode struct{ x *apiExec }

func (n *apiNode) TxMemPool() *blockchain.TxPool          { return n.x.e.srv.pool }
func (n *apiNode) SyncManager() *netsync.SyncManager      { return nil }
func (n *apiNode) Blockchain() *blockchain.Blockchain     { return n.x.chain() }

type apiExec struct {
	e       *WEnv
	srv     *api.APIServer
	srvWm   *masswallet.WalletManager
	bc      *blockchain.Blockchain
	bcTip   string
	bcN     int
	last    string            // class of the last call
	ks      map[string]string // exported keystores by wallet name
	rawc    string
	raws    string
	poisoned bool // a panic or hang left the wallet database in an unknown state: abandon the environment
}

func (x *apiExec) env() *WEnv {
	if d := os.Getenv("VERIF_LOGDIR"); d != "" && x.e == nil {
		logging.Init(d, "verif-api", "debug", 1, false) // debugging aid: the wallet's own log
	}
	if x.e == nil {
		x.e = NewWEnv()
		x.fresh()
	}
	return x.e
}

func (x *apiExec) fresh() {
	releaseChain(x.bc)
	x.srv, x.srvWm, x.bc, x.bcTip = nil, nil, nil, ""
	x.last = "none"
	x.ks = map[string]string{}
	x.rawc, x.raws = "", ""
	x.e.wm.VerifEnsureTaskChan()
}

func (x *apiExec) Reset() {
	if apiHangs >= 3 {
		return
	}
	if x.poisoned {
		// the panicking goroutine may still hold a wallet database transaction: do not touch that
		// environment again (closing it could block), start a new one
		x.e, x.poisoned = nil, false
		return
	}
	if x.e != nil {
		x.e.reset()
		x.fresh()
	}
}

func (x *apiExec) Close() {
	if x.e != nil && !x.poisoned {
		x.e.Close()
	}
}

// server returns the APIServer bound to the current WalletManager (a restart makes a new one).
func (x *apiExec) server() *api.APIServer {
	if x.srv == nil || x.srvWm != x.e.wm {
		s, err := api.NewAPIServer(&apiNode{x}, x.e.wm, func() {}, x.e.cfg)
		if err != nil {
			panic(err)
		}
		x.srv, x.srvWm = s, x.e.wm
	}
	return x.srv
}

// releaseChain ends the block-processor goroutine of a Blockchain that is no longer used (mass-core has no
// Stop for it: the goroutine ranges over an unexported channel and would pin the whole object for ever;
// thousands of histories would not fit in memory). Harness-only: closes that channel through reflection.
func releaseChain(bc *blockchain.Blockchain) {
	if bc == nil {
		return
	}
	defer func() { recover() }()
	f := reflect.ValueOf(bc).Elem().FieldByName("processBlockCh")
	if f.IsValid() && f.Kind() == reflect.Chan {
		reflect.NewAt(f.Type(), unsafe.Pointer(f.UnsafeAddr())).Elem().Close()
	}
}

// chain returns a real Blockchain whose index was loaded from the chain database's current best chain.
func (x *apiExec) chain() *blockchain.Blockchain {
	tip := x.e.Tip().name + "/" + strconv.Itoa(len(x.e.chain))
	if x.bc != nil && x.bcTip == tip {
		return x.bc
	}
	releaseChain(x.bc)
	x.bcN++
	cache := filepath.Join(x.e.dir, fmt.Sprintf("bccache-%d", x.bcN))
	os.MkdirAll(cache, 0700)
	bc, err := blockchain.NewBlockchain(&blockchain.Config{DB: x.e.chainDb, StateBindingDb: state.NewDatabase(rawdb.NewMemoryDatabase()),
		ChainParams: config.ChainParams, CachePath: cache})
	if err != nil {
		panic("harness: NewBlockchain: " + err.Error())
	}
	x.bc, x.bcTip = bc, tip
	x.e.srv.bc = bc
	return bc
}

// ---------------------------------------------------------------- argument tokens

func (x *apiExec) str(tok string) string {
	e := x.e
	switch {
	case tok == "-":
		return ""
	case strings.HasPrefix(tok, "a:"):
		return tok[2:]
	case strings.HasPrefix(tok, "h:"):
		b, _ := hex.DecodeString(tok[2:])
		return string(b)
	case strings.HasPrefix(tok, "rep:"):
		p := strings.SplitN(tok, ":", 3)
		if len(p) == 3 {
			n, _ := strconv.Atoi(p[1])
			b, _ := hex.DecodeString(p[2])
			if n > 1<<20 {
				n = 1 << 20
			}
			return strings.Repeat(string(b), n)
		}
	case strings.HasPrefix(tok, "cut:"):
		p := strings.SplitN(tok, ":", 3)
		if len(p) == 3 {
			n, _ := strconv.Atoi(p[1])
			s := x.str(p[2])
			if n < len(s) {
				return s[:n]
			}
			return s
		}
	case strings.HasPrefix(tok, "wid:"):
		if id, ok := e.wallets[tok[4:]]; ok {
			return id
		}
		h := sha256.Sum256([]byte("wid:" + tok[4:]))
		return "ac10" + hex.EncodeToString(h[:19]) // 42 characters, unknown wallet
	case strings.HasPrefix(tok, "pass:"):
		return privPass(tok[5:])
	case strings.HasPrefix(tok, "tx:"):
		if ti, ok := e.txs[tok[3:]]; ok {
			return ti.hash.String()
		}
		h := sha256.Sum256([]byte("txname:" + tok[3:]))
		return hex.EncodeToString(h[:])
	case strings.HasPrefix(tok, "txu:"):
		h := sha256.Sum256([]byte("txu:" + tok[4:]))
		return hex.EncodeToString(h[:])
	case strings.HasPrefix(tok, "addr:"), strings.HasPrefix(tok, "xaddr:"):
		ai, err := e.addr(tok[strings.Index(tok, ":")+1:])
		if err != nil {
			return "unknown-address"
		}
		return ai.stdEnc
	case strings.HasPrefix(tok, "saddr:"):
		ai, err := e.addr(tok[6:])
		if err != nil {
			return "unknown-address"
		}
		sa, _ := massutil.NewAddressStakingScriptHash(ai.sh, config.ChainParams)
		return sa.EncodeAddress()
	case strings.HasPrefix(tok, "pkh:"):
		h := sha256.Sum256([]byte("target:" + tok[4:]))
		a, _ := massutil.NewAddressPubKeyHash(h[:20], config.ChainParams)
		return a.EncodeAddress()
	case strings.HasPrefix(tok, "bt:"):
		h := sha256.Sum256([]byte("target22:" + tok[3:]))
		h[20] = h[20] & 1
		h[21] = 32
		a, _ := massutil.NewAddressBindingTarget(h[:22], config.ChainParams)
		return a.EncodeAddress()
	case strings.HasPrefix(tok, "ks:"):
		return x.ks[tok[3:]]
	case strings.HasPrefix(tok, "mn:"):
		return e.mnemonic[tok[3:]]
	case strings.HasPrefix(tok, "raw:"):
		if ti, ok := e.txs[tok[4:]]; ok {
			b, _ := ti.msg.Bytes(wire.Packet)
			return hex.EncodeToString(b)
		}
		return ""
	case tok == "rawc":
		return x.rawc
	case tok == "raws":
		return x.raws
	}
	return tok
}

func (x *apiExec) list(tok string) []string {
	if tok == "-" {
		return nil
	}
	var out []string
	for _, t := range strings.Split(tok, ",") {
		out = append(out, x.str(t))
	}
	return out
}

func (x *apiExec) smap(tok string) map[string]string {
	if tok == "-" {
		return nil
	}
	m := map[string]string{}
	for _, t := range strings.Split(tok, ",") {
		kv := strings.SplitN(t, ">", 2)
		if len(kv) == 2 {
			m[x.str(kv[0])] = x.str(kv[1])
		}
	}
	return m
}

func (x *apiExec) ins(tok string) []*pb.TransactionInput {
	if tok == "-" {
		return nil
	}
	var out []*pb.TransactionInput
	for _, t := range strings.Split(tok, ",") {
		kv := strings.SplitN(t, "/", 2)
		v := uint64(0)
		if len(kv) == 2 {
			v, _ = strconv.ParseUint(kv[1], 10, 32)
		}
		out = append(out, &pb.TransactionInput{TxId: x.str(kv[0]), Vout: uint32(v)})
	}
	return out
}

func (x *apiExec) outs(tok string) []*pb.CreateBindingTransactionRequest_Output {
	if tok == "-" {
		return nil
	}
	var out []*pb.CreateBindingTransactionRequest_Output
	for _, t := range strings.Split(tok, ",") {
		p := strings.SplitN(t, "/", 3)
		for len(p) < 3 {
			p = append(p, "-")
		}
		out = append(out, &pb.CreateBindingTransactionRequest_Output{HolderAddress: x.str(p[0]), BindingAddress: x.str(p[1]), Amount: x.str(p[2])})
	}
	return out
}

func i32(s string) int32   { v, _ := strconv.ParseInt(s, 10, 64); return int32(v) }
func u32s(s string) uint32 { v, _ := strconv.ParseUint(s, 10, 64); return uint32(v) }
func u64s(s string) uint64 { v, _ := strconv.ParseUint(s, 10, 64); return v }

// ---------------------------------------------------------------- method table

// apiArity: number of positional arguments of every handler (CreateWallet / CreateAddress take the
// symbolic name to bind on success as their first argument).
var apiArity = map[string]int{
	"GetBestBlock": 0, "GetBlockByHeight": 1, "GetBlockStakingReward": 1, "GetClientStatus": 0, "QuitClient": 0,
	"Wallets": 0, "CreateWallet": 4, "UseWallet": 1, "ImportWallet": 2, "ImportMnemonic": 5, "ExportWallet": 2,
	"RemoveWallet": 2, "GetWalletMnemonic": 2, "GetWalletBalance": 2, "CreateAddress": 2, "GetAddresses": 1,
	"GetAddressBalance": 2, "ValidateAddress": 1, "GetUtxo": 1, "DecodeRawTransaction": 1, "CreateRawTransaction": 5,
	"AutoCreateTransaction": 5, "SignRawTransaction": 3, "GetTransactionFee": 3, "SendRawTransaction": 1,
	"GetRawTransaction": 1, "GetTxStatus": 1, "CreateStakingTransaction": 5, "TxHistory": 2, "GetStakingHistory": 1,
	"GetBindingHistory": 1, "CreateBindingTransaction": 3, "CreatePoolPkCoinbaseTransaction": 2, "GetNetworkBinding": 1,
	"CheckPoolPkCoinbase": 1, "CheckTargetBinding": 1,
}

// deepClasses: outcomes that depend on coin selection, fee estimation, dust limits or the script engine;
// the model does not predict which of them occurs (token `deep`).
var deepClasses = func() map[string]map[string]bool {
	t := map[string]string{
		"CreateRawTransaction":            "ok e1524 e1522 e1523 e1110 e1521 e1504 e1703",
		"AutoCreateTransaction":           "ok e1304 e1109 e1110 e1301 e1703 e1503 e1504 e1501",
		"CreateStakingTransaction":        "ok e1304 e1109 e1110 e1301 e1703 e1503 e1504 e1501",
		"CreateBindingTransaction":        "ok e1304 e1109 e1110 e1301 e1703 e1503 e1504 e1501",
		"CreatePoolPkCoinbaseTransaction": "ok e1304 e1109 e1110 e1301 e1703 e1503 e1504 e1501",
		"GetTransactionFee":               "ok e1304 e1109 e1301 e1503 e1501",
		"SignRawTransaction":              "ok e1106 e1507 e1701",
		"DecodeRawTransaction":            "ok e1102",
		"TxHistory":                       "ok e1702",
		"GetTxStatus":                     "ok e1702",
		"GetRawTransaction":               "ok e1101 e1102 e1202",
		"GetStakingHistory":               "ok e1105",
		"GetBindingHistory":               "ok e1702 e1703",
		"GetNetworkBinding":               "ok e1702",
		"CheckPoolPkCoinbase":             "ok e1702",
		"CheckTargetBinding":              "ok e1702 e1703",
		"GetClientStatus":                 "ok",
		"SendRawTransaction":              "node",
	}
	m := map[string]map[string]bool{}
	for k, v := range t {
		m[k] = map[string]bool{}
		for _, c := range strings.Fields(v) {
			m[k][c] = true
		}
	}
	return m
}()

func classOf(err error) string {
	if err == nil {
		return "ok"
	}
	if verifDebug {
		fmt.Fprintln(os.Stderr, "  [api error]", err)
	}
	if st, ok := status.FromError(err); ok {
		return fmt.Sprintf("e%d", uint32(st.Code()))
	}
	return "eraw"
}

// invoke calls one handler; the error class is returned, a panic propagates to the caller.
func (x *apiExec) invoke(m string, a []string) string {
	e := x.e
	s := x.server()
	ctx := context.Background()
	switch m {
	case "GetBestBlock":
		_, err := s.GetBestBlock(ctx, &empty.Empty{})
		return classOf(err)
	case "GetBlockByHeight":
		_, err := s.GetBlockByHeight(ctx, &pb.GetBlockByHeightRequest{Height: u64s(a[0])})
		return classOf(err)
	case "GetBlockStakingReward":
		_, err := s.GetBlockStakingReward(ctx, &pb.GetBlockStakingRewardRequest{Height: u64s(a[0])})
		return classOf(err)
	case "GetClientStatus":
		// needs a live netsync.SyncManager: only its wallet call is driven
		_, err := e.wm.SyncedTo()
		return errTok(err)
	case "QuitClient":
		_, err := s.QuitClient(ctx, &empty.Empty{})
		return classOf(err)
	case "Wallets":
		_, err := s.Wallets(ctx, &empty.Empty{})
		return classOf(err)
	case "CreateWallet":
		r, err := s.CreateWallet(ctx, &pb.CreateWalletRequest{Passphrase: x.str(a[1]), Remarks: x.str(a[2]), BitSize: i32(a[3])})
		if err == nil {
			if _, dup := e.wallets[a[0]]; !dup {
				e.wallets[a[0]] = r.WalletId
				e.walletRev[r.WalletId] = a[0]
				e.mnemonic[a[0]] = r.Mnemonic
			}
		}
		return classOf(err)
	case "UseWallet":
		_, err := s.UseWallet(ctx, &pb.UseWalletRequest{WalletId: x.str(a[0])})
		return classOf(err)
	case "ImportWallet":
		_, err := s.ImportWallet(ctx, &pb.ImportWalletRequest{Keystore: x.str(a[0]), Passphrase: x.str(a[1])})
		return classOf(err)
	case "ImportMnemonic":
		_, err := s.ImportMnemonic(ctx, &pb.ImportMnemonicRequest{Mnemonic: x.str(a[0]), Passphrase: x.str(a[1]), Remarks: x.str(a[2]),
			ExternalIndex: u32s(a[3]), InternalIndex: u32s(a[4])})
		return classOf(err)
	case "ExportWallet":
		r, err := s.ExportWallet(ctx, &pb.ExportWalletRequest{WalletId: x.str(a[0]), Passphrase: x.str(a[1])})
		if err == nil && strings.HasPrefix(a[0], "wid:") {
			x.ks[a[0][4:]] = r.Keystore
		}
		return classOf(err)
	case "RemoveWallet":
		_, err := s.RemoveWallet(ctx, &pb.RemoveWalletRequest{WalletId: x.str(a[0]), Passphrase: x.str(a[1])})
		return classOf(err)
	case "GetWalletMnemonic":
		_, err := s.GetWalletMnemonic(ctx, &pb.GetWalletMnemonicRequest{WalletId: x.str(a[0]), Passphrase: x.str(a[1])})
		return classOf(err)
	case "GetWalletBalance":
		_, err := s.GetWalletBalance(ctx, &pb.GetWalletBalanceRequest{RequiredConfirmations: i32(a[0]), Detail: a[1] == "1"})
		return classOf(err)
	case "CreateAddress":
		r, err := s.CreateAddress(ctx, &pb.CreateAddressRequest{Version: i32(a[1])})
		if err == nil {
			cl := "std"
			if i32(a[1]) == 1 {
				cl = "stk"
			}
			if w := e.walletRev[e.wm.CurrentWallet()]; w != "" {
				if _, dup := e.addrs[a[0]]; !dup {
					e.bindAddr(a[0], w, cl, r.Address)
				}
			}
		}
		return classOf(err)
	case "GetAddresses":
		_, err := s.GetAddresses(ctx, &pb.GetAddressesRequest{Version: i32(a[0])})
		return classOf(err)
	case "GetAddressBalance":
		_, err := s.GetAddressBalance(ctx, &pb.GetAddressBalanceRequest{RequiredConfirmations: i32(a[0]), Addresses: x.list(a[1])})
		return classOf(err)
	case "ValidateAddress":
		_, err := s.ValidateAddress(ctx, &pb.ValidateAddressRequest{Address: x.str(a[0])})
		return classOf(err)
	case "GetUtxo":
		_, err := s.GetUtxo(ctx, &pb.GetUtxoRequest{Addresses: x.list(a[0])})
		return classOf(err)
	case "DecodeRawTransaction":
		_, err := s.DecodeRawTransaction(ctx, &pb.DecodeRawTransactionRequest{Hex: x.str(a[0])})
		return classOf(err)
	case "CreateRawTransaction":
		r, err := s.CreateRawTransaction(ctx, &pb.CreateRawTransactionRequest{Inputs: x.ins(a[0]), Amounts: x.smap(a[1]), LockTime: u64s(a[2]),
			ChangeAddress: x.str(a[3]), Subtractfeefrom: x.list(a[4])})
		if err == nil {
			x.rawc = r.Hex
		}
		return classOf(err)
	case "AutoCreateTransaction":
		r, err := s.AutoCreateTransaction(ctx, &pb.AutoCreateTransactionRequest{Amounts: x.smap(a[0]), LockTime: u64s(a[1]), Fee: x.str(a[2]),
			FromAddress: x.str(a[3]), ChangeAddress: x.str(a[4])})
		if err == nil {
			x.rawc = r.Hex
		}
		return classOf(err)
	case "SignRawTransaction":
		r, err := s.SignRawTransaction(ctx, &pb.SignRawTransactionRequest{RawTx: x.str(a[0]), Flags: x.str(a[1]), Passphrase: x.str(a[2])})
		if err == nil {
			x.raws = r.Hex
		}
		return classOf(err)
	case "GetTransactionFee":
		_, err := s.GetTransactionFee(ctx, &pb.GetTransactionFeeRequest{Amounts: x.smap(a[0]), Inputs: x.ins(a[1]), HasBinding: a[2] == "1"})
		return classOf(err)
	case "SendRawTransaction":
		// behind the argument validation this handler hands the transaction to the node's
		// ProcessTx (mempool acceptance, relay), which needs live node services: only requests that
		// fail validation are driven through the handler
		h := x.str(a[0])
		if len(h)%2 != 0 {
			h = "0" + h
		}
		if raw, err := hex.DecodeString(h); err == nil && len(raw) > 0 {
			var mtx wire.MsgTx
			if mtx.SetBytes(raw, wire.Packet) == nil {
				return "node"
			}
		}
		_, err := s.SendRawTransaction(ctx, &pb.SendRawTransactionRequest{Hex: x.str(a[0])})
		return classOf(err)
	case "GetRawTransaction":
		_, err := s.GetRawTransaction(ctx, &pb.GetRawTransactionRequest{TxId: x.str(a[0])})
		return classOf(err)
	case "GetTxStatus":
		_, err := s.GetTxStatus(ctx, &pb.GetTxStatusRequest{TxId: x.str(a[0])})
		return classOf(err)
	case "CreateStakingTransaction":
		r, err := s.CreateStakingTransaction(ctx, &pb.CreateStakingTransactionRequest{FromAddress: x.str(a[0]), StakingAddress: x.str(a[1]),
			Amount: x.str(a[2]), FrozenPeriod: u32s(a[3]), Fee: x.str(a[4])})
		if err == nil {
			x.rawc = r.Hex
		}
		return classOf(err)
	case "TxHistory":
		_, err := s.TxHistory(ctx, &pb.TxHistoryRequest{Count: u32s(a[0]), Address: x.str(a[1])})
		return classOf(err)
	case "GetStakingHistory":
		_, err := s.GetStakingHistory(ctx, &pb.GetStakingHistoryRequest{Type: x.str(a[0])})
		return classOf(err)
	case "GetBindingHistory":
		_, err := s.GetBindingHistory(ctx, &pb.GetBindingHistoryRequest{Type: x.str(a[0])})
		return classOf(err)
	case "CreateBindingTransaction":
		r, err := s.CreateBindingTransaction(ctx, &pb.CreateBindingTransactionRequest{Outputs: x.outs(a[0]), FromAddress: x.str(a[1]), Fee: x.str(a[2])})
		if err == nil {
			x.rawc = r.Hex
		}
		return classOf(err)
	case "CreatePoolPkCoinbaseTransaction":
		_, err := s.CreatePoolPkCoinbaseTransaction(ctx, &pb.CreatePoolPkCoinbaseTransactionRequest{FromAddress: x.str(a[0]), Payload: x.str(a[1])})
		return classOf(err)
	case "GetNetworkBinding":
		_, err := s.GetNetworkBinding(ctx, &pb.GetNetworkBindingRequest{Height: u64s(a[0])})
		return classOf(err)
	case "CheckPoolPkCoinbase":
		_, err := s.CheckPoolPkCoinbase(ctx, &pb.CheckPoolPkCoinbaseRequest{PoolPubkeys: x.list(a[0])})
		return classOf(err)
	case "CheckTargetBinding":
		_, err := s.CheckTargetBinding(ctx, &pb.CheckTargetBindingRequest{Targets: x.list(a[0])})
		return classOf(err)
	}
	return "bad-method"
}

// apiGuarded runs f under recover(); a panic becomes the canonical token PANIC <kind>@<first repo/mass-core frame>.
func apiGuarded(f func()) (pan string) {
	defer func() {
		if r := recover(); r != nil {
			msg := fmt.Sprint(r)
			kind := "other"
			switch {
			case strings.Contains(msg, "index out of range"), strings.Contains(msg, "slice bounds out of range"):
				kind = "index"
			case strings.Contains(msg, "nil pointer dereference"), strings.Contains(msg, "nil map"):
				kind = "nil"
			case strings.Contains(msg, "interface conversion"):
				kind = "assert"
			case strings.HasPrefix(msg, "harness:"):
				kind = "HARNESS"
			}
			where := "?"
			for _, l := range strings.Split(string(debug.Stack()), "\n") {
				l = strings.TrimSpace(l)
				if (strings.HasPrefix(l, "massnet.org/mass-wallet/") || strings.HasPrefix(l, "github.com/massnetorg/mass-core/")) && strings.Contains(l, "(") {
					fn := l[:strings.LastIndex(l, "(")]
					fn = strings.TrimPrefix(fn, "massnet.org/mass-wallet/")
					fn = strings.TrimPrefix(fn, "github.com/massnetorg/")
					fn = strings.NewReplacer("(*", "", ")", "", " ", "").Replace(fn)
					where = fn
					break
				}
			}
			if verifDebug {
				fmt.Fprintln(os.Stderr, "  [panic]", msg, "\n", string(debug.Stack()))
			}
			pan = "PANIC " + kind + "@" + where
		}
	}()
	f()
	return ""
}

func (x *apiExec) call(m string, a []string) string {
	n, ok := apiArity[m]
	if !ok || len(a) != n {
		return "bad-op"
	}
	cls := "none"
	stale := apiStaleLoc[m] && x.diverged()
	if p := apiGuarded(func() { cls = x.invoke(m, a) }); p != "" {
		x.last = "panic"
		return p
	}
	if cls == "bad-method" {
		return "bad-op"
	}
	x.e.wm.VerifDrainTasks() // the step-wise harness runs imports/removals itself (impstep / rmrun)
	if d := deepClasses[m]; d != nil && d[cls] && os.Getenv("VERIF_NODEEP") == "" {
		cls = "deep"
	}
	if stale && os.Getenv("VERIF_NODEEP") == "" {
		cls = "deep"
	}
	x.last = cls
	return "done"
}

// Methods that re-read a previous transaction from the node at the (height, byte range) the wallet recorded.
// While the follower's tip is not on the node's chain the block at that height may be another one: the bytes
// at the recorded range then decode to the same transaction, to another one or to nothing, depending on the
// byte layout of the other block - not modelled; the error class is reported as `deep` on both sides.
var apiStaleLoc = map[string]bool{"CreateRawTransaction": true, "SignRawTransaction": true, "GetTransactionFee": true}

// diverged: the follower's tip is not a block of the node's best chain.
func (x *apiExec) diverged() bool {
	e := x.e
	bh, bhash := e.wm.VerifBestBlock()
	if int(bh) >= len(e.chain) {
		return true
	}
	return e.blocks[e.chain[bh]].hash != bhash
}

// Exec runs one op under a watchdog: an op that does not return within apiOpTimeout is reported as
// HANG (the follower or a handler blocked for good) and the environment is abandoned.
var apiHangs int // ops that did not return; after three the run is pointless (every history would block)

func (x *apiExec) Exec(a []string) string {
	if x.poisoned || apiHangs >= 3 {
		return "poisoned"
	}
	x.env()
	ch := make(chan string, 1)
	go func() {
		out := ""
		if p := apiGuarded(func() { out = x.exec1(a) }); p != "" {
			out = p
		}
		ch <- out
	}()
	var out string
	select {
	case out = <-ch:
	case <-time.After(apiOpTimeout):
		out = "HANG"
		apiHangs++
	}
	if out == "HANG" || strings.HasPrefix(out, "PANIC") {
		x.poisoned = true
	}
	return out
}

const apiOpTimeout = 60 * time.Second

func (x *apiExec) exec1(a []string) string {
	e := x.env()
	if len(a) == 0 {
		return "bad-op"
	}
	if a[0] == "x" && len(a) >= 2 {
		// robust mode: the op is executed, only "did not panic / did not hang" is observed
		x.exec1(a[1:])
		return "done"
	}
	switch {
	case a[0] == "call" && len(a) >= 2:
		return x.call(a[1], a[2:])
	case a[0] == "res" && len(a) == 1:
		return x.last
	case a[0] == "startcall" && len(a) >= 2:
		// the real follower start-up: catch-up, task queue, goroutines; the request arrives before the
		// worker goroutine had a chance to run (single P, no yield in between)
		if _, ok := apiArity[a[1]]; !ok || len(a)-2 != apiArity[a[1]] {
			return "bad-op"
		}
		// a fresh WalletManager as after process start (no task queue yet, no wallet selected)
		if err := e.Restart(); err != nil {
			return "harness-restart-failed"
		}
		x.chain()
		x.server()
		old := runtime.GOMAXPROCS(1)
		out := "done"
		started := false
		if p := apiGuarded(func() {
			if err := e.wm.VerifStartHandlerOnly(); err != nil {
				panic("harness: Start failed: " + err.Error())
			}
			started = true
			x.last = x.invoke(a[1], a[2:])
		}); p != "" {
			x.last = "panic"
			out = p
		}
		runtime.GOMAXPROCS(old)
		if started {
			// NtfnsHandler.Stop: close(quit), wait for both goroutines, close the wallet database
			apiGuarded(func() { e.wm.Stop() })
			e.wdb = nil
		}
		if err := e.Restart(); err != nil {
			return "harness-restart-failed"
		}
		e.wm.VerifEnsureTaskChan()
		return out
	case a[0] == "rmrun" && len(a) == 2:
		id, ok := e.wallets[a[1]]
		if !ok {
			return "bad-op"
		}
		e.wm.VerifDrainTasks()
		out := ""
		if p := apiGuarded(func() { out = errTok(e.wm.VerifRemoveRun(id)) }); p != "" {
			return p
		}
		return out
	case a[0] == "impstep" && len(a) == 2:
		id, ok := e.wallets[a[1]]
		if !ok {
			return "bad-op"
		}
		e.wm.VerifDrainTasks()
		out := ""
		if p := apiGuarded(func() {
			// asyncImport scans only while the follower is on the node's branch (otherwise "retry later"):
			// tell the follower about the node's tip first, as the running node would have done by now
			if _, bhash := e.wm.VerifBestBlock(); bhash != e.Tip().hash {
				e.wm.VerifProcessBlock(e.Tip().msg)
			}
			fin, err := e.wm.VerifImportStep(id)
			switch {
			case err == masswallet.ErrImportingContinuable:
				out = "retry"
			case err != nil:
				out = errTok(err)
			case fin:
				out = "fin"
			default:
				out = "more"
			}
		}); p != "" {
			return p
		}
		return out
	case a[0] == "mem" && len(a) == 1:
		// debugging aid (not generated): heap in MB and goroutines
		var ms runtime.MemStats
		runtime.GC()
		runtime.ReadMemStats(&ms)
		return fmt.Sprintf("heap=%dMB goroutines=%d bc=%d", ms.HeapAlloc>>20, runtime.NumGoroutine(), x.bcN)
	case a[0] == "cur" && len(a) == 1:
		id := e.wm.CurrentWallet()
		if id == "" {
			return "-"
		}
		if n := e.walletRev[id]; n != "" {
			return n
		}
		return "?"
	case a[0] == "tx" && len(a) == 5:
		// scale amounts
		outs := splitList(a[4])
		for i, o := range outs {
			p := strings.Split(o, ":")
			if len(p) >= 2 && p[1] != "0" {
				p[1] = p[1] + apiAmountScale
			}
			if len(p) == 4 && p[2] == "bindbad" {
				// binding template paid to holder p[0] whose 22-byte target has no address form
				// (type byte 2): consensus accepts it, the node indexes it under the holder
				ai, err := e.addr(p[0])
				if err != nil {
					return "err"
				}
				t := sha256.Sum256([]byte("badtarget:" + p[3]))
				t[20], t[21] = 2, 32
				p = []string{"raw", p[1], "0020" + hex.EncodeToString(ai.sh) + "16" + hex.EncodeToString(t[:22])}
			}
			outs[i] = strings.Join(p, ":")
		}
		b := append([]string{}, a...)
		b[4] = strings.Join(outs, ";")
		if len(outs) == 0 {
			b[4] = "-"
		}
		return ledOp(e, b)
	case a[0] == "restart" && len(a) == 1:
		r := ledOp(e, a)
		if e.wm != nil {
			e.wm.VerifEnsureTaskChan()
		}
		return r
	}
	if p := ""; true {
		out := ""
		p = apiGuarded(func() { out = ledOp(e, a) })
		if p != "" {
			return p
		}
		return out
	}
	return "bad-op"
}
