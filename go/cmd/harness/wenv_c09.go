package main

// C09 observations: raw dumps of the unmined-inputs bucket (`mi`) and the unmined-credits bucket
// (`mc`) of the wallet database, read through the existing accessors VerifDB / VerifBucketMeta.

import (
	"encoding/binary"
	"fmt"
	"sort"
	"strings"

	"github.com/massnetorg/mass-core/wire"
	mwdb "massnet.org/mass-wallet/masswallet/db"
)

func (e *WEnv) dumpBucket(name string) ([]*mwdb.Entry, error) {
	meta, ok := e.wm.VerifBucketMeta().VerifBuckets()[name]
	if !ok {
		return nil, fmt.Errorf("no bucket %s", name)
	}
	var out []*mwdb.Entry
	err := mwdb.View(e.wm.VerifDB(), func(rtx mwdb.ReadTransaction) error {
		es, err := rtx.FetchBucket(meta).GetByPrefix(nil)
		for _, x := range es { // copy: the slices may alias the transaction's buffers
			out = append(out, &mwdb.Entry{Key: append([]byte(nil), x.Key...), Value: append([]byte(nil), x.Value...)})
		}
		return err
	})
	return out, err
}

func (e *WEnv) outPointName(k []byte) string {
	if len(k) != 36 {
		return "?key" + fmt.Sprint(len(k))
	}
	var h wire.Hash
	copy(h[:], k[:32])
	return fmt.Sprintf("%s:%d", e.txName(h.String()), binary.BigEndian.Uint32(k[32:36]))
}

// PendIns: every entry of the unmined-inputs bucket, "T:i>S1+S2" (spenders sorted).
func (e *WEnv) PendIns() string {
	es, err := e.dumpBucket("unminedinputs")
	if err != nil {
		return "err"
	}
	var items []string
	for _, x := range es {
		var sp []string
		v := x.Value
		if len(v)%32 != 0 {
			sp = append(sp, "?len")
		}
		for ; len(v) >= 32; v = v[32:] {
			var h wire.Hash
			copy(h[:], v[:32])
			sp = append(sp, e.txName(h.String()))
		}
		sort.Strings(sp)
		items = append(items, e.outPointName(x.Key)+">"+strings.Join(sp, "+"))
	}
	return joinSorted(items)
}

// PendCred: every entry of the unmined-credits bucket, "T:i:amount".
func (e *WEnv) PendCred() string {
	es, err := e.dumpBucket("unminedcredits")
	if err != nil {
		return "err"
	}
	var items []string
	for _, x := range es {
		amt := "?"
		if len(x.Value) >= 8 {
			amt = fmt.Sprint(binary.BigEndian.Uint64(x.Value[:8]))
		}
		items = append(items, e.outPointName(x.Key)+":"+amt)
	}
	return joinSorted(items)
}

// PendGame: every entry of the unmined game-history bucket, "W:s|b:T:vout".
func (e *WEnv) PendGame() string {
	es, err := e.dumpBucket("unminedgamehistory")
	if err != nil {
		return "err"
	}
	var items []string
	for _, x := range es {
		k := x.Key
		if len(k) != 80 {
			items = append(items, "?key"+fmt.Sprint(len(k)))
			continue
		}
		w, ok := e.walletRev[string(k[0:42])]
		if !ok {
			w = "?" + string(k[0:8])
		}
		kind := "s"
		if k[42]&1 != 0 {
			kind = "b"
		}
		items = append(items, w+":"+kind+":"+e.outPointName(k[44:80]))
	}
	return joinSorted(items)
}
