package main

// Facts for C19 (tie B): the partial-operation SITES of every function of the anchored files
//   api/{wallet_service,tx_service,util,api_server}.go   masswallet/{wallet,tx,common,ntfnshandler}.go
// as an ordered list (kind, canonical source text) per function, written to MW/Gen/Sites.lean. The Lean
// skeleton model (MW/Model/Api.lean) must contain exactly these sites, in this order (`sites_match`).
//
// Types come from go/types; imports are resolved from the compiler's export data (`go list -export`),
// so the anchored packages have to compile – which the harness build requires anyway.
//
// Site kinds (a site is reported AFTER the sites of its operand sub-expressions = evaluation order;
// the right-hand side of an assignment before its left-hand side):
//   index      a[i] on a slice, array, pointer to array or string (map reads never panic)
//   slice      a[i:j]
//   mapassign  m[k] = v / m[k]++ on a map (panics on a nil map)
//   assert     x.(T) single-result form (panics on mismatch);   assertok  v, ok := x.(T)
//   deref      p.f / p.M() / *p where p has pointer or interface type and is possibly nil because it is
//              (a) a call result used directly, (b) a local variable that is somewhere assigned from a call,
//              a map or slice element, a type assertion or a channel receive, (c) a field chain rooted at
//              such a variable or at a range variable over such a variable. Parameters, receivers and
//              package variables are not roots; results of the allocating constructors in `neverNil` are
//              not sources. The same operand text is reported once per dominating block: a later
//              occurrence is dropped iff an enclosing-or-same block already reported it and the root
//              variable was not assigned in between (the right operand of && / || and every block body
//              open a new scope).
//   conv       integer conversion T(e) of a request field (e rooted at the handler parameter `in`)

import (
	"bytes"
	"fmt"
	"go/ast"
	"go/importer"
	"go/parser"
	"go/printer"
	"go/token"
	"go/types"
	"io"
	"os"
	"os/exec"
	"path/filepath"
	"sort"
	"strings"
)

type xsite struct {
	kind string
	text string
}

var sitesAnchors = map[string][]string{
	"api":        {"wallet_service.go", "tx_service.go", "util.go", "api_server.go"},
	"masswallet": {"wallet.go", "tx.go", "common.go", "ntfnshandler.go"},
}

// constructors that allocate and never return nil
var sitesNeverNil = map[string]bool{
	"status.New": true, "wire.NewTxIn": true, "wire.NewMsgTx": true, "wire.NewOutPoint": true, "wire.NewTxOut": true,
	"massutil.NewBlock": true, "massutil.NewTx": true, "list.New": true, "cache.New": true, "txscript.NewTxSigHashes": true,
	"ifc.NewChainFetcher": true, "new": true, "NewWalletTaskChan": true, "newTopKSelector": true, "reflect.ValueOf": true,
	"reflect.Zero": true, "grpc.NewServer": true, "wire.NewMsgBlock": true,
}

func init() {
	register(func(c *Ctx) {
		tbl, err := extractSites(c.Repo)
		if err != nil {
			c.fail("sites.table", err.Error())
			return
		}
		l := NewLean("MW.Gen.Sites")
		var keys []string
		for k := range tbl {
			keys = append(keys, k)
		}
		sort.Strings(keys)
		total := map[string]int{}
		var rows []string
		for _, k := range keys {
			var items []string
			for _, s := range tbl[k] {
				items = append(items, fmt.Sprintf("(%s, %s)", leanStr(s.kind), leanStr(s.text)))
				total[s.kind]++
			}
			rows = append(rows, fmt.Sprintf("  (%s, [%s])", leanStr(k), strings.Join(items, ", ")))
		}
		l.Raw("/-- (kind, text) of every partial-operation site per anchored function, in evaluation order -/")
		l.Raw("def table : List (String × List (String × String)) := [\n" + strings.Join(rows, ",\n") + "]")
		var kinds []string
		for k := range total {
			kinds = append(kinds, k)
		}
		sort.Strings(kinds)
		var tot []string
		for _, k := range kinds {
			tot = append(tot, fmt.Sprintf("(%s, %d)", leanStr(k), total[k]))
		}
		l.Def("totals", "List (String × Nat)", "["+strings.Join(tot, ", ")+"]")
		l.Def("functions", "Nat", fmt.Sprint(len(keys)))
		l.Write(c, "Sites.lean")
		c.check("sites.table", len(keys) > 100 && total["index"] > 0 && total["deref"] > 0, "site table implausibly small")
		// positions of the functions in the table, as named constants for the model's `invoke`
		// (namespace MW.Model.Api.Fn): the model never mentions a number, so adding, removing or
		// renaming a function it does not mention needs no edit of the model
		lf := NewLean("MW.Model.Api.Fn")
		names := sitesFnNames(keys)
		var ks []string
		for i, k := range keys {
			lf.Raw(fmt.Sprintf("/-- %s -/\ndef %s : Nat := %d", k, names[i], i))
			ks = append(ks, "  "+leanStr(k))
		}
		lf.Raw("/-- the keys of the anchored functions in table order (position = the constant above) -/")
		lf.Raw("def keys : List String := [\n" + strings.Join(ks, ",\n") + "]")
		lf.Def("count", "Nat", fmt.Sprint(len(keys)))
		lf.Write(c, "ApiFn.lean")
		uniq := map[string]bool{}
		for _, n := range names {
			uniq[n] = true
		}
		c.check("sites.fnIndex", len(uniq) == len(keys), "function constant names are not unique")
		// API error codes (api/errors.go) for the class tokens
		le := NewLean("MW.Gen.ApiErr")
		f := c.File("api/errors.go")
		n := 0
		if f != nil {
			for _, d := range f.Decls {
				gd, ok := d.(*ast.GenDecl)
				if !ok || gd.Tok != token.CONST {
					continue
				}
				for _, s := range gd.Specs {
					vs := s.(*ast.ValueSpec)
					for i, nm := range vs.Names {
						if i < len(vs.Values) && strings.HasPrefix(nm.Name, "ErrAPI") {
							if v, ok := c.ConstInt("api/errors.go", nm.Name); ok {
								le.Def(lowerFirst(strings.TrimPrefix(nm.Name, "ErrAPI")), "Nat", fmt.Sprint(v))
								n++
							}
						}
					}
				}
			}
		}
		le.Write(c, "ApiErr.lean")
		c.check("sites.apiErrCodes", n >= 50, "api/errors.go: fewer than 50 ErrAPI* constants found")
	})
}

// sitesFnNames gives every function key "pkg/file.go:[Recv.]name" a Lean identifier: the bare function name
// when no other anchored function has it, otherwise name_<file>, otherwise Recv_name_<file>.
func sitesFnNames(keys []string) []string {
	bare := func(k string) (recv, name, file string) {
		i := strings.Index(k, ":")
		file = strings.TrimSuffix(filepath.Base(k[:i]), ".go")
		name = k[i+1:]
		if j := strings.Index(name, "."); j >= 0 {
			recv, name = name[:j], name[j+1:]
		}
		return
	}
	cnt1, cnt2 := map[string]int{}, map[string]int{}
	for _, k := range keys {
		_, n, f := bare(k)
		cnt1[n]++
		cnt2[n+"_"+f]++
	}
	reserved := map[string]bool{"open": true, "end": true, "from": true, "at": true, "do": true, "in": true, "fun": true, "let": true,
		"have": true, "show": true, "then": true, "else": true, "if": true, "match": true, "with": true, "where": true, "by": true,
		"import": true, "namespace": true, "section": true, "variable": true, "def": true, "theorem": true, "instance": true,
		"keys": true, "count": true}
	out := make([]string, len(keys))
	for i, k := range keys {
		r, n, f := bare(k)
		switch {
		case cnt1[n] == 1:
			out[i] = n
		case cnt2[n+"_"+f] == 1:
			out[i] = n + "_" + f
		default:
			out[i] = r + "_" + n + "_" + f
		}
		if reserved[out[i]] {
			out[i] += "_"
		}
	}
	return out
}

func lowerFirst(s string) string {
	if s == "" {
		return s
	}
	return strings.ToLower(s[:1]) + s[1:]
}

func extractSites(repo string) (map[string][]xsite, error) {
	cmd := exec.Command("go", "list", "-export", "-deps", "-f", "{{.ImportPath}}\t{{.Export}}", "./api", "./masswallet")
	cmd.Dir = repo
	var stderr bytes.Buffer
	cmd.Stderr = &stderr
	out, err := cmd.Output()
	if err != nil {
		return nil, fmt.Errorf("go list -export failed: %v: %s", err, strings.TrimSpace(stderr.String()))
	}
	exports := map[string]string{}
	for _, l := range strings.Split(string(out), "\n") {
		p := strings.Split(l, "\t")
		if len(p) == 2 && p[1] != "" {
			exports[p[0]] = p[1]
		}
	}
	fset := token.NewFileSet()
	imp := importer.ForCompiler(fset, "gc", func(path string) (io.ReadCloser, error) {
		f, ok := exports[path]
		if !ok {
			return nil, fmt.Errorf("no export data for %s", path)
		}
		return os.Open(f)
	})
	res := map[string][]xsite{}
	for _, pkg := range []string{"api", "masswallet"} {
		dir := filepath.Join(repo, pkg)
		ents, err := os.ReadDir(dir)
		if err != nil {
			return nil, err
		}
		var files []*ast.File
		byName := map[string]*ast.File{}
		for _, e := range ents {
			n := e.Name()
			if !strings.HasSuffix(n, ".go") || strings.HasSuffix(n, "_test.go") || strings.HasSuffix(n, "_verif.go") || strings.HasSuffix(n, "_windows.go") {
				continue
			}
			f, err := parser.ParseFile(fset, filepath.Join(dir, n), nil, 0)
			if err != nil {
				return nil, err
			}
			files = append(files, f)
			byName[n] = f
		}
		var terr error
		conf := types.Config{Importer: imp, Error: func(err error) {
			if terr == nil {
				terr = err
			}
		}}
		info := &types.Info{Types: map[ast.Expr]types.TypeAndValue{}, Uses: map[*ast.Ident]types.Object{}, Defs: map[*ast.Ident]types.Object{},
			Selections: map[*ast.SelectorExpr]*types.Selection{}}
		conf.Check("massnet.org/mass-wallet/"+pkg, fset, files, info)
		if terr != nil {
			return nil, fmt.Errorf("type check of %s: %v", pkg, terr)
		}
		for _, fn := range sitesAnchors[pkg] {
			f := byName[fn]
			if f == nil {
				return nil, fmt.Errorf("anchored file %s/%s missing", pkg, fn)
			}
			for _, d := range f.Decls {
				fd, ok := d.(*ast.FuncDecl)
				if !ok || fd.Body == nil {
					continue
				}
				name := fd.Name.Name
				if fd.Recv != nil && len(fd.Recv.List) == 1 {
					t := fd.Recv.List[0].Type
					if s, ok := t.(*ast.StarExpr); ok {
						t = s.X
					}
					if id, ok := t.(*ast.Ident); ok {
						name = id.Name + "." + name
					}
				}
				res[pkg+"/"+fn+":"+name] = sitesOfFunc(fset, info, fd)
			}
		}
	}
	return res, nil
}

func siteSrc(fset *token.FileSet, n ast.Node) string {
	var b bytes.Buffer
	printer.Fprint(&b, fset, n)
	return strings.Join(strings.Fields(b.String()), " ")
}

func siteNilable(t types.Type) bool {
	if t == nil {
		return false
	}
	switch t.Underlying().(type) {
	case *types.Pointer, *types.Interface:
		return true
	}
	return false
}

func siteCallee(c *ast.CallExpr) string {
	switch f := c.Fun.(type) {
	case *ast.Ident:
		return f.Name
	case *ast.SelectorExpr:
		if id, ok := f.X.(*ast.Ident); ok {
			return id.Name + "." + f.Sel.Name
		}
		return "." + f.Sel.Name
	}
	return ""
}

func siteRootName(e ast.Expr) string {
	for {
		switch x := e.(type) {
		case *ast.Ident:
			return x.Name
		case *ast.SelectorExpr:
			e = x.X
		case *ast.ParenExpr:
			e = x.X
		case *ast.StarExpr:
			e = x.X
		case *ast.IndexExpr:
			e = x.X
		default:
			return ""
		}
	}
}

func sitesOfFunc(fset *token.FileSet, info *types.Info, fd *ast.FuncDecl) []xsite {
	var ss []xsite
	callBound := map[types.Object]bool{}
	rangeOf := map[types.Object]ast.Expr{}
	params := map[types.Object]bool{}
	addParams := func(fl *ast.FieldList) {
		if fl == nil {
			return
		}
		for _, f := range fl.List {
			for _, n := range f.Names {
				if o := info.Defs[n]; o != nil {
					params[o] = true
				}
			}
		}
	}
	addParams(fd.Recv)
	addParams(fd.Type.Params)
	objOf := func(e ast.Expr) types.Object {
		if id, ok := e.(*ast.Ident); ok {
			if o := info.Defs[id]; o != nil {
				return o
			}
			return info.Uses[id]
		}
		return nil
	}
	isSource := func(e ast.Expr) bool {
		switch r := e.(type) {
		case *ast.CallExpr:
			if tv, ok := info.Types[r.Fun]; ok && tv.IsType() {
				return false // conversion
			}
			return !sitesNeverNil[siteCallee(r)]
		case *ast.IndexExpr, *ast.TypeAssertExpr:
			return true
		case *ast.UnaryExpr:
			return r.Op == token.ARROW
		}
		return false
	}
	mark := func(l ast.Expr) {
		if o := objOf(l); o != nil && !params[o] {
			callBound[o] = true
		}
	}
	commaOk := map[*ast.TypeAssertExpr]bool{}
	mapLHS := map[*ast.IndexExpr]bool{}
	ast.Inspect(fd.Body, func(n ast.Node) bool {
		switch s := n.(type) {
		case *ast.AssignStmt:
			if len(s.Rhs) == 1 && len(s.Lhs) > 1 {
				if isSource(s.Rhs[0]) {
					for _, l := range s.Lhs {
						mark(l)
					}
				}
				if ta, ok := s.Rhs[0].(*ast.TypeAssertExpr); ok && len(s.Lhs) == 2 {
					commaOk[ta] = true
				}
			} else {
				for i, l := range s.Lhs {
					if i < len(s.Rhs) && isSource(s.Rhs[i]) {
						mark(l)
					}
				}
			}
			for _, l := range s.Lhs {
				if ix, ok := l.(*ast.IndexExpr); ok {
					mapLHS[ix] = true
				}
			}
		case *ast.ValueSpec:
			for i, n := range s.Names {
				if len(s.Values) == 1 && len(s.Names) > 1 {
					if isSource(s.Values[0]) {
						callBound[info.Defs[n]] = true
					}
					if ta, ok := s.Values[0].(*ast.TypeAssertExpr); ok && len(s.Names) == 2 {
						commaOk[ta] = true
					}
				} else if i < len(s.Values) && isSource(s.Values[i]) {
					callBound[info.Defs[n]] = true
				}
			}
		case *ast.IncDecStmt:
			if ix, ok := s.X.(*ast.IndexExpr); ok {
				mapLHS[ix] = true
			}
		case *ast.RangeStmt:
			if s.Value != nil {
				if o := objOf(s.Value); o != nil {
					rangeOf[o] = s.X
				}
			}
		}
		return true
	})
	var rooted func(e ast.Expr, depth int) bool
	rooted = func(e ast.Expr, depth int) bool {
		if depth > 8 {
			return false
		}
		switch x := e.(type) {
		case *ast.Ident:
			o := objOf(x)
			if o == nil {
				return false
			}
			if callBound[o] {
				return true
			}
			if r, ok := rangeOf[o]; ok {
				return rooted(r, depth+1)
			}
			return false
		case *ast.SelectorExpr:
			if sel, ok := info.Selections[x]; ok && sel.Kind() == types.FieldVal {
				return rooted(x.X, depth+1)
			}
			return false
		case *ast.ParenExpr:
			return rooted(x.X, depth+1)
		case *ast.StarExpr:
			return rooted(x.X, depth+1)
		case *ast.IndexExpr:
			return rooted(x.X, depth+1)
		case *ast.CallExpr:
			if tv, ok := info.Types[x.Fun]; ok && tv.IsType() {
				return false
			}
			return !sitesNeverNil[siteCallee(x)]
		}
		return false
	}
	type scope struct{ seen map[string]string }
	var stack []*scope
	push := func() { stack = append(stack, &scope{seen: map[string]string{}}) }
	pop := func() { stack = stack[:len(stack)-1] }
	kill := func(name string) {
		for _, sc := range stack {
			for k, r := range sc.seen {
				if r == name {
					delete(sc.seen, k)
				}
			}
		}
	}
	derefSite := func(operand ast.Expr, text string) {
		key := siteSrc(fset, operand)
		if _, isCall := operand.(*ast.CallExpr); !isCall {
			for _, sc := range stack {
				if _, ok := sc.seen[key]; ok {
					return
				}
			}
			stack[len(stack)-1].seen[key] = siteRootName(operand)
		}
		ss = append(ss, xsite{"deref", text})
	}
	visit := func(n ast.Node) {
		switch x := n.(type) {
		case *ast.IndexExpr:
			tv, ok := info.Types[x.X]
			if !ok {
				ss = append(ss, xsite{"index", siteSrc(fset, x)})
				break
			}
			switch u := tv.Type.Underlying().(type) {
			case *types.Map:
				if mapLHS[x] {
					ss = append(ss, xsite{"mapassign", siteSrc(fset, x)})
				}
			case *types.Slice, *types.Array, *types.Pointer:
				ss = append(ss, xsite{"index", siteSrc(fset, x)})
			case *types.Basic:
				if u.Info()&types.IsString != 0 {
					ss = append(ss, xsite{"index", siteSrc(fset, x)})
				}
			}
		case *ast.SliceExpr:
			ss = append(ss, xsite{"slice", siteSrc(fset, x)})
		case *ast.TypeAssertExpr:
			if x.Type == nil {
				break // type switch
			}
			if commaOk[x] {
				ss = append(ss, xsite{"assertok", siteSrc(fset, x)})
			} else {
				ss = append(ss, xsite{"assert", siteSrc(fset, x)})
			}
		case *ast.StarExpr:
			if tv, ok := info.Types[x]; ok && tv.IsType() {
				break
			}
			if tv, ok := info.Types[x.X]; ok && siteNilable(tv.Type) && rooted(x.X, 0) {
				derefSite(x.X, siteSrc(fset, x))
			}
		case *ast.SelectorExpr:
			if _, ok := info.Selections[x]; !ok {
				break // qualified identifier
			}
			tv, ok := info.Types[x.X]
			if !ok || !siteNilable(tv.Type) {
				break
			}
			if rooted(x.X, 0) {
				derefSite(x.X, siteSrc(fset, x.X)+" ."+x.Sel.Name)
			}
		case *ast.CallExpr:
			if tv, ok := info.Types[x.Fun]; ok && tv.IsType() && len(x.Args) == 1 {
				if b, ok := tv.Type.Underlying().(*types.Basic); ok && b.Info()&types.IsInteger != 0 && siteRootName(x.Args[0]) == "in" {
					ss = append(ss, xsite{"conv", siteSrc(fset, x)})
				}
			}
		}
	}
	var walk func(n ast.Node)
	walk = func(n ast.Node) {
		if n == nil {
			return
		}
		switch x := n.(type) {
		case *ast.BlockStmt:
			push()
			for _, s := range x.List {
				walk(s)
			}
			pop()
			return
		case *ast.CaseClause:
			for _, e := range x.List {
				walk(e)
			}
			push()
			for _, s := range x.Body {
				walk(s)
			}
			pop()
			return
		case *ast.CommClause:
			walk(x.Comm)
			push()
			for _, s := range x.Body {
				walk(s)
			}
			pop()
			return
		case *ast.AssignStmt:
			for _, r := range x.Rhs {
				walk(r)
			}
			for _, l := range x.Lhs {
				if _, isId := l.(*ast.Ident); !isId {
					walk(l)
				}
			}
			for _, l := range x.Lhs {
				if id, ok := l.(*ast.Ident); ok {
					kill(id.Name)
				}
			}
			return
		case *ast.RangeStmt:
			walk(x.X)
			if id, ok := x.Key.(*ast.Ident); ok {
				kill(id.Name)
			}
			if id, ok := x.Value.(*ast.Ident); ok {
				kill(id.Name)
			}
			walk(x.Body)
			return
		case *ast.BinaryExpr:
			if x.Op == token.LAND || x.Op == token.LOR {
				walk(x.X)
				push()
				walk(x.Y)
				pop()
				return
			}
		case *ast.IndexExpr:
			walk(x.X)
			walk(x.Index)
			visit(x)
			return
		case *ast.SliceExpr:
			walk(x.X)
			walk(x.Low)
			walk(x.High)
			walk(x.Max)
			visit(x)
			return
		case *ast.SelectorExpr:
			walk(x.X)
			visit(x)
			return
		case *ast.StarExpr:
			walk(x.X)
			visit(x)
			return
		case *ast.TypeAssertExpr:
			walk(x.X)
			visit(x)
			return
		case *ast.CallExpr:
			walk(x.Fun)
			for _, a := range x.Args {
				walk(a)
			}
			visit(x)
			return
		}
		var kids []ast.Node
		first := true
		ast.Inspect(n, func(c ast.Node) bool {
			if first {
				first = false
				return true
			}
			if c != nil {
				kids = append(kids, c)
			}
			return false
		})
		for _, k := range kids {
			walk(k)
		}
	}
	walk(fd.Body)
	return ss
}
