package main

import (
	"fmt"

	"github.com/massnetorg/mass-core/consensus"
	"github.com/massnetorg/mass-core/massutil"
)

// Facts for C15: supply constants as compiled in; the two AmountToString copies are the same
// function (so one model serves both).
func init() {
	register(func(c *Ctx) {
		l := NewLean("MW.Gen.Amount")
		l.Def("maxMass", "Nat", fmt.Sprint(consensus.MaxMass))
		l.Def("maxwellPerMass", "Nat", fmt.Sprint(consensus.MaxwellPerMass))
		l.Def("maxAmountCompiled", "Nat", fmt.Sprint(massutil.MaxAmount().UintValue()))
		a := c.Func("api/util.go", "", "AmountToString")
		b := c.Func("masswallet/common.go", "", "AmountToString")
		same := a != nil && b != nil && c.Src(a.Body) == c.Src(b.Body)
		l.Def("formatCopiesEqual", "Bool", fmt.Sprint(same))
		l.Write(c, "Amount.lean")
		c.check("amount.constants", consensus.MaxwellPerMass == 100000000, "MaxwellPerMass is not 10^8: the decimal model assumes 8 fractional digits")
		c.check("amount.formatCopiesEqual", same, "api.AmountToString and masswallet.AmountToString differ (or one is missing)")
		c.check("amount.parseExists", c.Func("api/util.go", "", "StringToAmount") != nil, "api.StringToAmount not found")
	})
}
