package main

import (
	"fmt"
	"go/ast"
	"go/token"
	"os"
	"path/filepath"
	"sort"
	"strconv"
	"strings"
)

// Facts for C11 (engine kv): the constants of masswallet/db/ldb/leveldb.go that the key encoding is
// built from.  The Lean model imports them, so the encoding theorems (injectivity, bucket
// isolation, index/data disjointness) are re-proved against today's values: e.g. a digit as
// bucketNameBucket or a separator that a decimal depth can contain breaks the proofs.
func init() {
	register(func(c *Ctx) {
		const rel = "masswallet/db/ldb/leveldb.go"
		strConst := func(name string) (string, bool) {
			f := c.File(rel)
			if f == nil {
				return "", false
			}
			for _, d := range f.Decls {
				gd, ok := d.(*ast.GenDecl)
				if !ok || gd.Tok != token.CONST {
					continue
				}
				for _, s := range gd.Specs {
					vs := s.(*ast.ValueSpec)
					for i, n := range vs.Names {
						if n.Name == name && i < len(vs.Values) {
							if bl, ok := vs.Values[i].(*ast.BasicLit); ok && bl.Kind == token.STRING {
								v, err := strconv.Unquote(bl.Value)
								return v, err == nil
							}
						}
					}
				}
			}
			return "", false
		}
		bytesOf := func(s string) []int {
			var xs []int
			for i := 0; i < len(s); i++ {
				xs = append(xs, int(s[i]))
			}
			return xs
		}
		tag, ok1 := strConst("bucketNameBucket")
		sep, ok2 := strConst("bucketPathSep")
		top, ok3 := strConst("topLevelBucketDepth")
		maxLen, ok4 := c.ConstInt(rel, "maxBucketNameLen")
		l := NewLean("MW.Gen.Kv")
		l.Def("bucketNameBucket", "List Nat", leanNatList(bytesOf(tag)))
		l.Def("bucketPathSep", "List Nat", leanNatList(bytesOf(sep)))
		l.Def("topLevelBucketDepth", "List Nat", leanNatList(bytesOf(top)))
		l.Def("maxBucketNameLen", "Nat", strconv.FormatInt(maxLen, 10))
		// --- read-only transactions read through a snapshot (D9 repair) -------------------------------
		// (a) BeginReadTx: x, err := l.ldb.GetSnapshot(); the returned transaction has readOnly: true and
		//     r: x (its reader IS that snapshot); BeginTx has r: l.ldb; Rollback releases tx.snap.
		fieldOf := func(fd *ast.FuncDecl, field string) string {
			out := ""
			if fd == nil {
				return out
			}
			ast.Inspect(fd.Body, func(x ast.Node) bool {
				if cl, ok := x.(*ast.CompositeLit); ok && c.Src(cl.Type) == "transaction" {
					for _, e := range cl.Elts {
						if kv, ok := e.(*ast.KeyValueExpr); ok && c.Src(kv.Key) == field {
							out = c.Src(kv.Value)
						}
					}
				}
				return true
			})
			return out
		}
		beginR := c.Func(rel, "LevelDB", "BeginReadTx")
		beginW := c.Func(rel, "LevelDB", "BeginTx")
		rollback := c.Func(rel, "transaction", "Rollback")
		snapVar := ""
		if beginR != nil {
			ast.Inspect(beginR.Body, func(x ast.Node) bool {
				if as, ok := x.(*ast.AssignStmt); ok && len(as.Rhs) == 1 && len(as.Lhs) >= 1 {
					if ce, ok := as.Rhs[0].(*ast.CallExpr); ok && strings.HasSuffix(c.Src(ce.Fun), ".ldb.GetSnapshot") {
						snapVar = c.Src(as.Lhs[0])
					}
				}
				return true
			})
		}
		snapshotTaken := snapVar != "" && fieldOf(beginR, "r") == snapVar && fieldOf(beginR, "readOnly") == "true"
		writerLive := strings.HasSuffix(fieldOf(beginW, "r"), ".ldb") && fieldOf(beginW, "readOnly") == "false"
		released := false
		if rollback != nil {
			for _, call := range isoCallsIn(c, rollback.Body) {
				if strings.HasSuffix(call, ".snap.Release") {
					released = true
				}
			}
		}
		// (b) every read path of the model goes to tx.r; nothing but BeginTx / BeginReadTx / Commit /
		//     Close / newLevelDB touches the live handle or the snapshot field directly
		readFns := [][2]string{{"transaction", "bucketExists"}, {"transaction", "BucketNames"}, {"levelBucket", "BucketNames"},
			{"", "deleteBucket"}, {"levelBucket", "Get"}, {"levelBucket", "Clear"}, {"levelBucket", "GetByPrefix"},
			{"levelBucket", "NewIterator"}}
		var rows []string
		allThrough := true
		for _, fn := range readFns {
			n := 0
			if fd := c.Func(rel, fn[0], fn[1]); fd != nil {
				for _, call := range isoCallsIn(c, fd.Body) {
					if strings.HasSuffix(call, "tx.r.Get") || strings.HasSuffix(call, "tx.r.NewIterator") {
						n++
					}
				}
			}
			if n == 0 {
				allThrough = false
			}
			rows = append(rows, fmt.Sprintf("(%s, %d)", leanStr(fn[0]+"."+fn[1]), n))
		}
		bypass := 0
		if f := c.File(rel); f != nil {
			for _, d := range f.Decls {
				fd, ok := d.(*ast.FuncDecl)
				if !ok || fd.Body == nil {
					continue
				}
				for _, call := range isoCallsIn(c, fd.Body) {
					for _, suf := range []string{".ldb.Get", ".ldb.NewIterator", ".snap.Get", ".snap.NewIterator", ".ldb.Has"} {
						if strings.HasSuffix(call, suf) {
							bypass++
						}
					}
				}
			}
		} else {
			bypass = 1
		}
		l.Raw("/-- BeginReadTx takes a goleveldb snapshot and makes it the transaction's reader; BeginTx reads the live handle; Rollback releases the snapshot -/")
		l.Def("readTxSnapshot", "Bool", fmt.Sprint(snapshotTaken && writerLive && released))
		l.Raw("/-- (read function of leveldb.go, number of reads it makes through tx.r) -/")
		l.Def("readsThroughReader", "List (String × Nat)", "["+strings.Join(rows, ", ")+"]")
		l.Raw("/-- reads of the committed state that bypass tx.r (directly on l.ldb or tx.snap) -/")
		l.Def("readsBypassingReader", "Nat", fmt.Sprint(bypass))
		// --- round 4: BucketMeta / FetchBucket cache, iterator call sites ---------------------------
		// (c) FetchBucket revalidates a cache hit of a write transaction against the batch (repair D44),
		//     and a BucketMeta is the split path: Paths = Split(path, sep), Depth = Atoi(paths[0]), Name = paths[Depth()]
		srcOf := func(recv, name string) string {
			if fd := c.Func(rel, recv, name); fd != nil && fd.Body != nil {
				return strings.Join(strings.Fields(c.Src(fd.Body)), " ")
			}
			return ""
		}
		fb := srcOf("transaction", "FetchBucket")
		revalidates := strings.Contains(fb, "tx.cache[meta]") && strings.Contains(fb, "!tx.readOnly") &&
			strings.Contains(fb, "tx.b.Get(") && strings.Contains(fb, "delete(tx.cache, meta)") &&
			strings.Index(fb, "tx.b.Get(") < strings.Index(fb, "joinBucketPath(meta.Paths()...)")
		metaShape := strings.Contains(srcOf("levelBucket", "GetBucketMeta"), "strings.Split(b.path, bucketPathSep)") &&
			strings.Contains(srcOf("levelBucketMeta", "Depth"), "strconv.Atoi(m.paths[0])") &&
			strings.Contains(srcOf("levelBucketMeta", "Name"), "m.paths[m.Depth()]") &&
			strings.Contains(srcOf("levelBucketMeta", "Paths"), "return m.paths")
		// (d) every NewIterator call of the wallet (outside the db package and tests): file:function
		var sites []string
		filepath.Walk(filepath.Join(c.Repo, "masswallet"), func(p string, info os.FileInfo, err error) error {
			if err != nil || info.IsDir() || !strings.HasSuffix(p, ".go") || strings.HasSuffix(p, "_test.go") {
				return nil
			}
			r, _ := filepath.Rel(c.Repo, p)
			if strings.HasPrefix(r, "masswallet/db/") {
				return nil
			}
			f := c.File(r)
			if f == nil {
				return nil
			}
			for _, d := range f.Decls {
				fd, ok := d.(*ast.FuncDecl)
				if !ok || fd.Body == nil {
					continue
				}
				ast.Inspect(fd.Body, func(x ast.Node) bool {
					if ce, ok := x.(*ast.CallExpr); ok {
						if se, ok := ce.Fun.(*ast.SelectorExpr); ok && se.Sel.Name == "NewIterator" {
							sites = append(sites, r+":"+fd.Name.Name)
						}
					}
					return true
				})
			}
			return nil
		})
		sort.Strings(sites)
		// the three of them that run inside WRITE transactions, and the order that makes the first one
		// start on an empty batch: RemoveRelevantTx calls removeRelevantUnminedCredit before any write,
		// asyncRemove's Update closure calls RemoveRelevantTx first
		rrt := ""
		if fd := c.Func("masswallet/txmgr/txstore.go", "TxStore", "RemoveRelevantTx"); fd != nil {
			rrt = strings.Join(strings.Fields(c.Src(fd.Body)), " ")
		}
		iUnm := strings.Index(rrt, "removeRelevantUnminedCredit(")
		iCred := strings.Index(rrt, "removeRelevantCredit(")
		firstWrite := len(rrt)
		for _, w := range []string{".Put(", ".Delete(", ".Clear(", "deleteRaw", "putRaw", "removeUnminedInputsOf(", "DeleteBucket("} {
			if i := strings.Index(rrt, w); i >= 0 && i < firstWrite {
				firstWrite = i
			}
		}
		removalOrder := iUnm >= 0 && iCred > iUnm && iUnm < firstWrite
		wantSites := []string{"masswallet/txmgr/syncstore.go:", "masswallet/txmgr/utxostore.go:ExistCreditFromTx",
			"masswallet/txmgr/utxostore.go:removeRelevantCredit", "masswallet/txmgr/utxostore.go:removeRelevantUnminedCredit"}
		sitesOK := len(sites) == 6
		for _, w := range wantSites {
			found := false
			for _, st := range sites {
				if strings.HasPrefix(st, w) {
					found = true
				}
			}
			sitesOK = sitesOK && found
		}
		var siteRows []string
		for _, st := range sites {
			siteRows = append(siteRows, leanStr(st))
		}
		l.Raw("/-- FetchBucket looks a cached bucket up again when the write transaction's batch holds a pending delete of its index key (repair D44) -/")
		l.Def("fetchRevalidatesCache", "Bool", fmt.Sprint(revalidates))
		l.Raw("/-- GetBucketMeta = Split(path), Depth = Atoi(paths[0]), Name = paths[Depth()] -/")
		l.Def("metaIsSplitPath", "Bool", fmt.Sprint(metaShape))
		l.Raw("/-- every NewIterator call site of the wallet outside masswallet/db and tests (file:function) -/")
		l.Def("iteratorCallSites", "List String", "["+strings.Join(siteRows, ", ")+"]")
		l.Raw("/-- RemoveRelevantTx iterates the unmined credits before it writes anything, the credits afterwards -/")
		l.Def("removalIteratesBeforeWriting", "Bool", fmt.Sprint(removalOrder))
		l.Write(c, "Kv.lean")
		c.check("kv.fetchRevalidatesCache", revalidates && metaShape,
			fmt.Sprintf("FetchBucket no longer has the shape the model follows (cache hit of a write transaction revalidated against the batch before the lookup: %v; BucketMeta = split path: %v)", revalidates, metaShape))
		c.check("kv.iteratorCallSites", sitesOK && removalOrder,
			fmt.Sprintf("the NewIterator call sites of the wallet changed (%v) or RemoveRelevantTx no longer iterates the unmined credits before its first write (%v): re-check the RangeUntouched argument of notes/C11.md round 4", sites, removalOrder))
		c.check("kv.readTxSnapshot", snapshotTaken && writerLive && released,
			fmt.Sprintf("the model's read transaction reads a snapshot taken at BeginReadTx, the code no longer does (GetSnapshot result is the reader of BeginReadTx: %v, BeginTx reads l.ldb: %v, Rollback releases tx.snap: %v)", snapshotTaken, writerLive, released))
		c.check("kv.readsThroughReader", allThrough && bypass == 0,
			fmt.Sprintf("a read path of leveldb.go does not go through tx.r (per function: %s; reads directly on l.ldb / tx.snap: %d)", strings.Join(rows, " "), bypass))
		c.check("kv.constants", ok1 && ok2 && ok3 && ok4, "bucketNameBucket / bucketPathSep / topLevelBucketDepth / maxBucketNameLen not found as constants in "+rel)
		c.check("kv.separatorOneByte", ok2 && len(sep) == 1, "bucketPathSep is not a single byte: the model's split/join work on one separator byte")
		c.check("kv.topDepthIsItoa1", ok3 && top == strconv.Itoa(1), "topLevelBucketDepth is not strconv.Itoa(1): top-level paths would not follow the <depth>_<names> scheme of sub buckets")
		fns := true
		for _, fn := range [][2]string{{"levelBucket", "innerKey"}, {"levelBucket", "innerKeyForIterator"}, {"levelBucket", "subBucket"},
			{"levelBucket", "Get"}, {"levelBucket", "Put"}, {"levelBucket", "Delete"}, {"levelBucket", "Clear"}, {"levelBucket", "GetByPrefix"},
			{"levelBucket", "BucketNames"}, {"levelBucket", "NewBucket"}, {"levelBucket", "Bucket"}, {"levelBucket", "DeleteBucket"},
			{"levelBucket", "NewIterator"}, {"", "deleteBucket"}, {"", "isValidBucketName"}, {"", "joinBucketPath"},
			{"batch", "Get"}, {"batch", "Put"}, {"batch", "Delete"}, {"batch", "GetNetPutsByPrefix"},
			{"transaction", "Commit"}, {"transaction", "Rollback"}, {"transaction", "TopLevelBucket"}, {"transaction", "CreateTopLevelBucket"},
			{"transaction", "BucketNames"}, {"levelIterator", "Seek"}, {"levelIterator", "Next"}, {"levelIterator", "Key"}, {"levelIterator", "Value"},
			{"batchIterator", "Seek"}, {"batchIterator", "Next"}} {
			if c.Func(rel, fn[0], fn[1]) == nil {
				fns = false
			}
		}
		c.check("kv.anchoredFunctionsExist", fns && c.Func("masswallet/db/db.go", "", "BytesPrefix") != nil &&
			c.Func("masswallet/db/db.go", "", "Update") != nil && c.Func("masswallet/db/db.go", "", "View") != nil,
			"a function the KV model follows no longer exists in leveldb.go / db.go")
	})
}
