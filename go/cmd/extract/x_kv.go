package main

import (
	"go/ast"
	"go/token"
	"strconv"
)

// Facts for C11 (engine kv): the constants of masswallet/db/ldb/leveldb.go that the key encoding is
// built from.  The Lean model imports them, so the encoding theorems (injectivity, bucket
// isolation, index/data disjointness) are re-proved against today's values: e.g. a digit as
// bucketNameBucket or a separator that a decimal depth can contain breaks the proofs.
func init() {
	register(func(c *Ctx) {
		const rel = "masswallet/db/ldb/leveldb.go"
		strConst := func(name string) (string, bool) {
			f := c.File(rel)
			if f == nil {
				return "", false
			}
			for _, d := range f.Decls {
				gd, ok := d.(*ast.GenDecl)
				if !ok || gd.Tok != token.CONST {
					continue
				}
				for _, s := range gd.Specs {
					vs := s.(*ast.ValueSpec)
					for i, n := range vs.Names {
						if n.Name == name && i < len(vs.Values) {
							if bl, ok := vs.Values[i].(*ast.BasicLit); ok && bl.Kind == token.STRING {
								v, err := strconv.Unquote(bl.Value)
								return v, err == nil
							}
						}
					}
				}
			}
			return "", false
		}
		bytesOf := func(s string) []int {
			var xs []int
			for i := 0; i < len(s); i++ {
				xs = append(xs, int(s[i]))
			}
			return xs
		}
		tag, ok1 := strConst("bucketNameBucket")
		sep, ok2 := strConst("bucketPathSep")
		top, ok3 := strConst("topLevelBucketDepth")
		maxLen, ok4 := c.ConstInt(rel, "maxBucketNameLen")
		l := NewLean("MW.Gen.Kv")
		l.Def("bucketNameBucket", "List Nat", leanNatList(bytesOf(tag)))
		l.Def("bucketPathSep", "List Nat", leanNatList(bytesOf(sep)))
		l.Def("topLevelBucketDepth", "List Nat", leanNatList(bytesOf(top)))
		l.Def("maxBucketNameLen", "Nat", strconv.FormatInt(maxLen, 10))
		l.Write(c, "Kv.lean")
		c.check("kv.constants", ok1 && ok2 && ok3 && ok4, "bucketNameBucket / bucketPathSep / topLevelBucketDepth / maxBucketNameLen not found as constants in "+rel)
		c.check("kv.separatorOneByte", ok2 && len(sep) == 1, "bucketPathSep is not a single byte: the model's split/join work on one separator byte")
		c.check("kv.topDepthIsItoa1", ok3 && top == strconv.Itoa(1), "topLevelBucketDepth is not strconv.Itoa(1): top-level paths would not follow the <depth>_<names> scheme of sub buckets")
		fns := true
		for _, fn := range [][2]string{{"levelBucket", "innerKey"}, {"levelBucket", "innerKeyForIterator"}, {"levelBucket", "subBucket"},
			{"levelBucket", "Get"}, {"levelBucket", "Put"}, {"levelBucket", "Delete"}, {"levelBucket", "Clear"}, {"levelBucket", "GetByPrefix"},
			{"levelBucket", "BucketNames"}, {"levelBucket", "NewBucket"}, {"levelBucket", "Bucket"}, {"levelBucket", "DeleteBucket"},
			{"levelBucket", "NewIterator"}, {"", "deleteBucket"}, {"", "isValidBucketName"}, {"", "joinBucketPath"},
			{"batch", "Get"}, {"batch", "Put"}, {"batch", "Delete"}, {"batch", "GetNetPutsByPrefix"},
			{"transaction", "Commit"}, {"transaction", "Rollback"}, {"transaction", "TopLevelBucket"}, {"transaction", "CreateTopLevelBucket"},
			{"transaction", "BucketNames"}, {"levelIterator", "Seek"}, {"levelIterator", "Next"}, {"levelIterator", "Key"}, {"levelIterator", "Value"},
			{"batchIterator", "Seek"}, {"batchIterator", "Next"}} {
			if c.Func(rel, fn[0], fn[1]) == nil {
				fns = false
			}
		}
		c.check("kv.anchoredFunctionsExist", fns && c.Func("masswallet/db/db.go", "", "BytesPrefix") != nil &&
			c.Func("masswallet/db/db.go", "", "Update") != nil && c.Func("masswallet/db/db.go", "", "View") != nil,
			"a function the KV model follows no longer exists in leveldb.go / db.go")
	})
}
