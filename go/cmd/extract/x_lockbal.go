package main

// Lock balance (C17 b / C19 / C20): every mutex locked in a function of the wallet packages is released on EVERY path
// out of that function – by a deferred unlock, or by an explicit unlock before each return and before the end of the
// body. A path-sensitive walk over the statement tree (if / switch / select branches are followed separately; a loop
// body must leave the lock state as it found it). Written after seed C19-3 (an early return of filterTx left memMtx
// held; the follower then blocked for ever without a panic): the lock table of x_locks.go records which locks are held
// lexically at an access and cannot see a missing unlock.
//
// Generated: MW.Gen.LockBal  { leaks : List String, lockSites : Nat, funcsWithLocks : Nat }.

import (
	"fmt"
	"go/ast"
	"go/token"
	"os"
	"path/filepath"
	"sort"
	"strings"
)

type lbState struct {
	held     map[string]int
	deferred map[string]bool
}

func (s lbState) clone() lbState {
	n := lbState{held: map[string]int{}, deferred: map[string]bool{}}
	for k, v := range s.held {
		n.held[k] = v
	}
	for k, v := range s.deferred {
		n.deferred[k] = v
	}
	return n
}

func (s lbState) sameHeld(o lbState) bool {
	for k, v := range s.held {
		if o.held[k] != v {
			return false
		}
	}
	for k, v := range o.held {
		if s.held[k] != v {
			return false
		}
	}
	return true
}

type lbWalker struct {
	c     *Ctx
	fn    string
	leaks *[]string
	sites *int
	lits  []*ast.FuncLit
}

// lbMutexCall recognises X.Lock() / X.RLock() / X.Unlock() / X.RUnlock() and returns (mutex text, +1 / -1).
func (w *lbWalker) lbMutexCall(e ast.Expr) (string, int) {
	ce, ok := e.(*ast.CallExpr)
	if !ok || len(ce.Args) != 0 {
		return "", 0
	}
	se, ok := ce.Fun.(*ast.SelectorExpr)
	if !ok {
		return "", 0
	}
	switch se.Sel.Name {
	case "Lock", "RLock":
		return w.c.Src(se.X), 1
	case "Unlock", "RUnlock":
		return w.c.Src(se.X), -1
	}
	return "", 0
}

func (w *lbWalker) leak(kind string, st lbState, pos token.Pos) {
	var ms []string
	for m, n := range st.held {
		if n > 0 && !st.deferred[m] {
			ms = append(ms, m)
		}
	}
	sort.Strings(ms)
	for _, m := range ms {
		*w.leaks = append(*w.leaks, fmt.Sprintf("%s:%s:%s", w.fn, m, kind))
	}
}

// collectLits remembers function literals (they are analysed as bodies of their own) without descending into them.
func (w *lbWalker) collectLits(n ast.Node) {
	if n == nil {
		return
	}
	ast.Inspect(n, func(x ast.Node) bool {
		if fl, ok := x.(*ast.FuncLit); ok {
			w.lits = append(w.lits, fl)
			return false
		}
		return true
	})
}

// block walks a statement list; returns the state at its end and whether the end is reachable.
func (w *lbWalker) block(stmts []ast.Stmt, st lbState) (lbState, bool) {
	for _, s := range stmts {
		var live bool
		st, live = w.stmt(s, st)
		if !live {
			return st, false
		}
	}
	return st, true
}

func (w *lbWalker) stmt(s ast.Stmt, st lbState) (lbState, bool) {
	switch x := s.(type) {
	case *ast.ExprStmt:
		if m, d := w.lbMutexCall(x.X); d != 0 {
			if d > 0 {
				*w.sites++
			}
			st.held[m] += d
			if st.held[m] < 0 {
				st.held[m] = 0 // unlock of a lock taken by the caller (documented "caller holds" helpers)
			}
			return st, true
		}
		w.collectLits(x.X)
		if ce, ok := x.X.(*ast.CallExpr); ok {
			if id, ok := ce.Fun.(*ast.Ident); ok && id.Name == "panic" {
				return st, false
			}
		}
		return st, true
	case *ast.DeferStmt:
		if m, d := w.lbMutexCall(x.Call); d < 0 {
			st.deferred[m] = true
			return st, true
		}
		if fl, ok := x.Call.Fun.(*ast.FuncLit); ok {
			// a deferred closure that unlocks
			ast.Inspect(fl.Body, func(n ast.Node) bool {
				if es, ok := n.(*ast.ExprStmt); ok {
					if m, d := w.lbMutexCall(es.X); d < 0 {
						st.deferred[m] = true
					}
				}
				return true
			})
			return st, true
		}
		w.collectLits(x.Call)
		return st, true
	case *ast.ReturnStmt:
		for _, r := range x.Results {
			w.collectLits(r)
		}
		w.leak("return", st, x.Pos())
		return st, false
	case *ast.BlockStmt:
		return w.block(x.List, st)
	case *ast.IfStmt:
		if x.Init != nil {
			st, _ = w.stmt(x.Init, st)
		}
		w.collectLits(x.Cond)
		a, aLive := w.block(x.Body.List, st.clone())
		b, bLive := st.clone(), true
		if x.Else != nil {
			b, bLive = w.stmt(x.Else, st.clone())
		}
		switch {
		case aLive && bLive:
			if !a.sameHeld(b) {
				*w.leaks = append(*w.leaks, fmt.Sprintf("%s:if-branches-disagree", w.fn))
			}
			for k := range b.deferred {
				a.deferred[k] = a.deferred[k] && b.deferred[k]
			}
			return a, true
		case aLive:
			return a, true
		case bLive:
			return b, true
		}
		return st, false
	case *ast.ForStmt:
		if x.Init != nil {
			st, _ = w.stmt(x.Init, st)
		}
		w.collectLits(x.Cond)
		e, live := w.block(x.Body.List, st.clone())
		if live && !e.sameHeld(st) {
			*w.leaks = append(*w.leaks, fmt.Sprintf("%s:loop-body-changes-locks", w.fn))
		}
		// `for { … }` without a condition ends only through return / break
		return st, true
	case *ast.RangeStmt:
		w.collectLits(x.X)
		e, live := w.block(x.Body.List, st.clone())
		if live && !e.sameHeld(st) {
			*w.leaks = append(*w.leaks, fmt.Sprintf("%s:loop-body-changes-locks", w.fn))
		}
		return st, true
	case *ast.SwitchStmt:
		if x.Init != nil {
			st, _ = w.stmt(x.Init, st)
		}
		return w.clauses(x.Body.List, st, hasDefault(x.Body.List))
	case *ast.TypeSwitchStmt:
		return w.clauses(x.Body.List, st, hasDefault(x.Body.List))
	case *ast.SelectStmt:
		return w.clauses(x.Body.List, st, true)
	case *ast.LabeledStmt:
		return w.stmt(x.Stmt, st)
	case *ast.GoStmt:
		w.collectLits(x.Call)
		return st, true
	case *ast.BranchStmt:
		// break / continue / goto: the loop-body rule above covers the state; treat as leaving the list
		return st, false
	default:
		w.collectLits(s)
		return st, true
	}
}

func hasDefault(cl []ast.Stmt) bool {
	for _, c := range cl {
		if cc, ok := c.(*ast.CaseClause); ok && cc.List == nil {
			return true
		}
	}
	return false
}

func (w *lbWalker) clauses(cl []ast.Stmt, st lbState, exhaustive bool) (lbState, bool) {
	var outs []lbState
	for _, c := range cl {
		var body []ast.Stmt
		switch cc := c.(type) {
		case *ast.CaseClause:
			body = cc.Body
		case *ast.CommClause:
			body = cc.Body
		}
		e, live := w.block(body, st.clone())
		if live {
			outs = append(outs, e)
		}
	}
	if !exhaustive {
		outs = append(outs, st.clone())
	}
	if len(outs) == 0 {
		return st, false
	}
	for _, o := range outs[1:] {
		if !o.sameHeld(outs[0]) {
			*w.leaks = append(*w.leaks, fmt.Sprintf("%s:case-branches-disagree", w.fn))
			break
		}
	}
	return outs[0], true
}

func (w *lbWalker) body(b *ast.BlockStmt) {
	st := lbState{held: map[string]int{}, deferred: map[string]bool{}}
	e, live := w.block(b.List, st)
	if live {
		w.leak("end", e, b.End())
	}
}

func init() {
	register(func(c *Ctx) {
		dirs := []string{"masswallet", "masswallet/keystore", "masswallet/txmgr", "masswallet/db/ldb", "api"}
		var leaks []string
		sites, fnsWithLocks := 0, 0
		for _, d := range dirs {
			ents, err := os.ReadDir(filepath.Join(c.Repo, d))
			if err != nil {
				c.fail("lockbal.noLeak", "cannot read "+d)
				return
			}
			for _, en := range ents {
				n := en.Name()
				if en.IsDir() || !strings.HasSuffix(n, ".go") || strings.HasSuffix(n, "_test.go") || strings.HasSuffix(n, "_verif.go") {
					continue
				}
				rel := filepath.Join(d, n)
				f := c.File(rel)
				if f == nil {
					c.fail("lockbal.noLeak", "cannot parse "+rel)
					return
				}
				for _, dd := range f.Decls {
					fd, ok := dd.(*ast.FuncDecl)
					if !ok || fd.Body == nil {
						continue
					}
					name := filepath.Base(d) + "." + locksRecvTypeName(fd) + "." + fd.Name.Name
					before := sites
					w := &lbWalker{c: c, fn: name, leaks: &leaks, sites: &sites}
					w.body(fd.Body)
					// function literals (goroutine bodies, callbacks) are bodies of their own, recursively
					for i := 0; i < len(w.lits); i++ {
						lw := &lbWalker{c: c, fn: fmt.Sprintf("%s#lit%d", name, i), leaks: &leaks, sites: &sites}
						lw.body(w.lits[i].Body)
						w.lits = append(w.lits, lw.lits...)
					}
					if sites > before {
						fnsWithLocks++
					}
				}
			}
		}
		sort.Strings(leaks)
		var q []string
		for _, s := range leaks {
			q = append(q, leanStr(s))
		}
		l := NewLean("MW.Gen.LockBal")
		l.Raw("/-- functions (or function literals) that can return, or reach their end, with a mutex locked and no deferred unlock;\n    `pkg.Recv.func:mutex:return|end`, or a branch / loop body that changes the lock state inconsistently -/")
		l.Def("leaks", "List String", "["+strings.Join(q, ", ")+"]")
		l.Def("lockSites", "Nat", fmt.Sprint(sites))
		l.Def("funcsWithLocks", "Nat", fmt.Sprint(fnsWithLocks))
		l.Write(c, "LockBal.lean")
		// the one deliberate hand-over: BeginTx returns holding the writer mutex, which Commit / Rollback release
		// (C11's single-writer rule)
		var bad []string
		for _, s := range leaks {
			if s != "ldb.LevelDB.BeginTx:l.muTr:return" {
				bad = append(bad, s)
			}
		}
		c.check("lockbal.noLeak", len(bad) == 0, "a mutex can stay locked on a path out of: "+strings.Join(bad, ", "))
		c.check("lockbal.nonVacuous", sites >= 10, fmt.Sprintf("only %d Lock() sites found", sites))
	})
}
