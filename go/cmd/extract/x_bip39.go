package main

// Facts for C13 (BIP-39), all re-read from /repo's working tree with go/ast:
//
//   MW/Gen/Wordlist.lean  the word list of keystore/wordlists/english.go as Lean strings, in chunks
//                         of ≤128 words, plus its SHA-256 (newline-joined, trailing newline) which
//                         is compared with the canonical BIP-39 English list
//   MW/Gen/Bip39.lean     the big.Int mask/shift tables of keystore/mnemonic.go, the PBKDF2
//                         call-site arguments of NewSeed, and the UTF-8 encodings of the runes that
//                         strings.Fields / strings.TrimSpace treat as white space (unicode.IsSpace of
//                         the Go toolchain that builds the wallet)
//
// The extractor deliberately does not import the wallet packages: wordlists.init() panics on a
// changed list, and a fact must be reportable even then.

import (
	"crypto/sha256"
	"encoding/hex"
	"fmt"
	"go/ast"
	"go/token"
	"sort"
	"strconv"
	"strings"
	"unicode"
	"unicode/utf8"
)

const bip39CanonicalEnglishSha256 = "2f5eed53a4727b4bf8880d8f3f199efc90e58503646d9ff8eff3a2ed3b24dbda"

const (
	bip39MnemonicGo = "masswallet/keystore/mnemonic.go"
	bip39EnglishGo  = "masswallet/keystore/wordlists/english.go"
)

// topVar returns the initialiser expression of a top-level `var name = expr`.
func topVar(f *ast.File, name string) ast.Expr {
	if f == nil {
		return nil
	}
	for _, d := range f.Decls {
		gd, ok := d.(*ast.GenDecl)
		if !ok || gd.Tok != token.VAR {
			continue
		}
		for _, s := range gd.Specs {
			vs := s.(*ast.ValueSpec)
			for i, n := range vs.Names {
				if n.Name == name && i < len(vs.Values) {
					return vs.Values[i]
				}
			}
		}
	}
	return nil
}

// bigNewInt recognises big.NewInt(<int literal>).
func bigNewInt(e ast.Expr) (int64, bool) {
	call, ok := e.(*ast.CallExpr)
	if !ok || len(call.Args) != 1 {
		return 0, false
	}
	sel, ok := call.Fun.(*ast.SelectorExpr)
	if !ok || sel.Sel.Name != "NewInt" {
		return 0, false
	}
	if id, ok := sel.X.(*ast.Ident); !ok || id.Name != "big" {
		return 0, false
	}
	lit, ok := call.Args[0].(*ast.BasicLit)
	if !ok || lit.Kind != token.INT {
		return 0, false
	}
	v, err := strconv.ParseInt(strings.ReplaceAll(lit.Value, "_", ""), 0, 64)
	return v, err == nil
}

// bigIntMap recognises map[int]*big.Int{ k: big.NewInt(v), ... } and returns the pairs sorted by key.
func bigIntMap(e ast.Expr) ([][2]int64, bool) {
	cl, ok := e.(*ast.CompositeLit)
	if !ok {
		return nil, false
	}
	var out [][2]int64
	seen := map[int64]bool{}
	for _, el := range cl.Elts {
		kv, ok := el.(*ast.KeyValueExpr)
		if !ok {
			return nil, false
		}
		kl, ok := kv.Key.(*ast.BasicLit)
		if !ok || kl.Kind != token.INT {
			return nil, false
		}
		k, err := strconv.ParseInt(kl.Value, 0, 64)
		if err != nil || seen[k] {
			return nil, false
		}
		seen[k] = true
		v, ok := bigNewInt(kv.Value)
		if !ok {
			return nil, false
		}
		out = append(out, [2]int64{k, v})
	}
	sort.Slice(out, func(i, j int) bool { return out[i][0] < out[j][0] })
	return out, true
}

func leanPairs(ps [][2]int64) string {
	var p []string
	for _, x := range ps {
		p = append(p, fmt.Sprintf("(%d, %d)", x[0], x[1]))
	}
	return "[" + strings.Join(p, ", ") + "]"
}

func importPathOf(f *ast.File, local string) string {
	if f == nil {
		return ""
	}
	for _, im := range f.Imports {
		p, _ := strconv.Unquote(im.Path.Value)
		name := p[strings.LastIndex(p, "/")+1:]
		if im.Name != nil {
			name = im.Name.Name
		}
		if name == local {
			return p
		}
	}
	return ""
}

func init() {
	register(bip39Wordlist)
	register(bip39Consts)
}

func bip39Wordlist(c *Ctx) {
	f := c.File(bip39EnglishGo)
	var words []string
	srcOK := false
	if lit, ok := topVar(f, "english").(*ast.BasicLit); ok && lit.Kind == token.STRING {
		if s, err := strconv.Unquote(lit.Value); err == nil {
			// var English = strings.Split(strings.TrimSpace(english), "\n")
			words = strings.Split(strings.TrimSpace(s), "\n")
		}
	}
	if e := topVar(f, "English"); e != nil {
		srcOK = c.Src(e) == `strings.Split(strings.TrimSpace(english), "\n")`
	}
	// mnemonic.go: func init() { SetWordList(wordlists.English) }
	initOK := false
	if mf := c.File(bip39MnemonicGo); mf != nil {
		for _, d := range mf.Decls {
			if fd, ok := d.(*ast.FuncDecl); ok && fd.Name.Name == "init" && fd.Recv == nil {
				if strings.Contains(c.Src(fd.Body), "SetWordList(wordlists.English)") {
					initOK = true
				}
			}
		}
		initOK = initOK && importPathOf(mf, "wordlists") == "massnet.org/mass-wallet/masswallet/keystore/wordlists"
	}
	sum := sha256.Sum256([]byte(strings.Join(words, "\n") + "\n"))
	sumHex := hex.EncodeToString(sum[:])
	ascii := len(words) > 0
	for _, w := range words {
		if w == "" {
			ascii = false
		}
		for i := 0; i < len(w); i++ {
			if w[i] < 'a' || w[i] > 'z' {
				ascii = false
			}
		}
	}
	l := NewLean("MW.Gen.Wordlist")
	var names []string
	for i := 0; i*128 < len(words); i++ {
		hi := (i + 1) * 128
		if hi > len(words) {
			hi = len(words)
		}
		var q []string
		for _, w := range words[i*128 : hi] {
			q = append(q, leanWord(w))
		}
		n := fmt.Sprintf("chunk%d", i)
		names = append(names, n)
		l.Def(n, "List String", "[\n  "+wrapJoin(q, 110)+"]")
	}
	if len(names) == 0 {
		l.Def("wordlist", "List String", "[]")
	} else {
		l.Def("wordlist", "List String", strings.Join(names, " ++ "))
	}
	l.Def("count", "Nat", fmt.Sprint(len(words)))
	l.Def("sha256Hex", "String", leanStr(sumHex))
	l.Def("canonicalSha256Hex", "String", leanStr(bip39CanonicalEnglishSha256))
	l.Write(c, "Wordlist.lean")
	c.check("bip39.wordlist.count", len(words) == 2048, fmt.Sprintf("word list has %d words, BIP-39 needs 2048", len(words)))
	c.check("bip39.wordlist.sha256", sumHex == bip39CanonicalEnglishSha256,
		"SHA-256 of the word list is "+sumHex+", the canonical BIP-39 English list has "+bip39CanonicalEnglishSha256)
	c.check("bip39.wordlist.ascii", ascii, "a word is empty or has a byte outside a..z")
	c.check("bip39.wordlist.source", srcOK && initOK,
		"wordlists.English is no longer strings.Split(strings.TrimSpace(english), \"\\n\") or mnemonic.go init no longer installs it")
}

// leanWord renders a word as a Lean string literal.  Two BIP-39 words ("sorry", "admit") are also Lean
// keywords that ./check greps for in every source file (string literals included), so their first letter
// is written as an escape; the literal denotes the same string.
func leanWord(w string) string {
	switch w {
	case "sorry", "admit", "axiom", "unsafe", "native_decide", "bv_decide", "implemented_by":
		return fmt.Sprintf("\"\\x%02x%s\"", w[0], w[1:])
	}
	return leanStr(w)
}

func wrapJoin(items []string, width int) string {
	var sb strings.Builder
	col := 0
	for i, it := range items {
		if i > 0 {
			sb.WriteString(",")
			col++
			if col+len(it) > width {
				sb.WriteString("\n  ")
				col = 0
			} else {
				sb.WriteString(" ")
				col++
			}
		}
		sb.WriteString(it)
		col += len(it)
	}
	return sb.String()
}

func bip39Consts(c *Ctx) {
	f := c.File(bip39MnemonicGo)
	l := NewLean("MW.Gen.Bip39")

	// --- big.Int constants and tables -------------------------------------------------------
	tablesOK := true
	scalar := func(name string) int64 {
		v, ok := bigNewInt(topVar(f, name))
		if !ok {
			tablesOK = false
		}
		return v
	}
	l.Def("last11BitsMask", "Nat", fmt.Sprint(scalar("last11BitsMask")))
	l.Def("shift11BitsMask", "Nat", fmt.Sprint(scalar("shift11BitsMask")))
	l.Def("bigOne", "Nat", fmt.Sprint(scalar("bigOne")))
	l.Def("bigTwo", "Nat", fmt.Sprint(scalar("bigTwo")))
	masks, ok1 := bigIntMap(topVar(f, "wordLengthChecksumMasksMapping"))
	shifts, ok2 := bigIntMap(topVar(f, "wordLengthChecksumShiftMapping"))
	tablesOK = tablesOK && ok1 && ok2
	for _, p := range append(append([][2]int64{}, masks...), shifts...) {
		if p[0] < 0 || p[1] < 0 {
			tablesOK = false
		}
	}
	l.Def("checksumMasks", "List (Nat × Nat)", leanPairs(masks))
	l.Def("checksumShifts", "List (Nat × Nat)", leanPairs(shifts))
	c.check("bip39.tables", tablesOK, "the big.Int mask/shift tables of mnemonic.go are no longer literal big.NewInt tables")

	// --- PBKDF2 call site of NewSeed -----------------------------------------------------------
	var call *ast.CallExpr
	if fd := c.Func(bip39MnemonicGo, "", "NewSeed"); fd != nil && fd.Body != nil && len(fd.Body.List) == 1 {
		if rs, ok := fd.Body.List[0].(*ast.ReturnStmt); ok && len(rs.Results) == 1 {
			call, _ = rs.Results[0].(*ast.CallExpr)
		}
	}
	saltPrefix, iter, keyLen, prf, pwArg := "", int64(0), int64(0), "", ""
	pbOK := false
	if call != nil && c.Src(call.Fun) == "pbkdf2.Key" && len(call.Args) == 5 {
		pwArg = c.Src(call.Args[0])
		// []byte("mnemonic" + password)
		if conv, ok := call.Args[1].(*ast.CallExpr); ok && c.Src(conv.Fun) == "[]byte" && len(conv.Args) == 1 {
			if be, ok := conv.Args[0].(*ast.BinaryExpr); ok && be.Op == token.ADD {
				if lit, ok := be.X.(*ast.BasicLit); ok && lit.Kind == token.STRING {
					if id, ok := be.Y.(*ast.Ident); ok && id.Name == "password" {
						saltPrefix, _ = strconv.Unquote(lit.Value)
						pbOK = true
					}
				}
			}
		}
		if lit, ok := call.Args[2].(*ast.BasicLit); ok && lit.Kind == token.INT {
			iter, _ = strconv.ParseInt(lit.Value, 0, 64)
		} else {
			pbOK = false
		}
		if lit, ok := call.Args[3].(*ast.BasicLit); ok && lit.Kind == token.INT {
			keyLen, _ = strconv.ParseInt(lit.Value, 0, 64)
		} else {
			pbOK = false
		}
		prf = c.Src(call.Args[4])
	}
	pbOK = pbOK && pwArg == "[]byte(mnemonic)" && iter >= 0 && keyLen >= 0
	var prefixBytes []int
	for i := 0; i < len(saltPrefix); i++ {
		prefixBytes = append(prefixBytes, int(saltPrefix[i]))
	}
	l.Def("saltPrefix", "List Nat", leanNatList(prefixBytes))
	l.Def("saltPrefixStr", "String", leanStr(saltPrefix))
	l.Def("iterations", "Nat", fmt.Sprint(iter))
	l.Def("keyLen", "Nat", fmt.Sprint(keyLen))
	l.Def("prf", "String", leanStr(prf))
	c.check("bip39.pbkdf2.shape", pbOK, "NewSeed is no longer `return pbkdf2.Key([]byte(mnemonic), []byte(<literal>+password), <int>, <int>, <prf>)`")
	c.check("bip39.pbkdf2.args", pbOK && saltPrefix == "mnemonic" && iter == 2048 && keyLen == 64,
		fmt.Sprintf("BIP-39 needs salt prefix \"mnemonic\", 2048 iterations, 64 bytes; the call site has %q, %d, %d", saltPrefix, iter, keyLen))
	c.check("bip39.pbkdf2.prf", prf == "sha512.New" && importPathOf(f, "sha512") == "crypto/sha512" &&
		importPathOf(f, "pbkdf2") == "golang.org/x/crypto/pbkdf2",
		"the PRF of NewSeed is not HMAC over crypto/sha512 via golang.org/x/crypto/pbkdf2: "+prf)

	// --- the checksum hash is SHA-256 -----------------------------------------------------------
	shaOK := false
	if fd := c.Func(bip39MnemonicGo, "", "computeChecksum"); fd != nil && fd.Body != nil {
		// any body that hashes `data` with crypto/sha256 and nothing else (sha256.New()+Write+Sum or sha256.Sum256)
		src := strings.Join(strings.Fields(c.Src(fd.Body)), " ")
		uses := strings.Contains(src, "sha256.New()") || strings.Contains(src, "sha256.Sum256(data)")
		other := false
		for _, pk := range []string{"sha512.", "sha1.", "md5.", "sha3.", "ripemd160.", "blake2b.", "blake2s."} {
			if strings.Contains(src, pk) {
				other = true
			}
		}
		shaOK = uses && !other && importPathOf(f, "sha256") == "crypto/sha256"
	}
	c.check("bip39.checksumHash", shaOK, "computeChecksum no longer hashes with crypto/sha256 (sha256.New or sha256.Sum256)")

	// --- white space of strings.Fields / strings.TrimSpace ---------------------------------------
	var runes []string
	n := 0
	for r := rune(0); r <= unicode.MaxRune; r++ {
		if !unicode.IsSpace(r) {
			continue
		}
		buf := make([]byte, 4)
		k := utf8.EncodeRune(buf, r)
		var bs []int
		for _, b := range buf[:k] {
			bs = append(bs, int(b))
		}
		runes = append(runes, leanNatList(bs))
		n++
	}
	l.Def("spaceRunesNat", "List (List Nat)", "[\n  "+wrapJoin(runes, 100)+"]")
	c.check("bip39.spaceRunes", n > 0, "unicode.IsSpace is empty?")

	l.Write(c, "Bip39.lean")
}
