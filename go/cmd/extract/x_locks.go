package main

// Facts for C17(b): the access table of the shared in-memory fields.
//
// For every syntactic access to one of the fields below (outside *_test.go and *_verif.go): file:line,
// read/write, the mutexes lexically held at that point of the enclosing function (Lock / RLock seen
// earlier in source order and not released by a non-deferred Unlock / RUnlock), the goroutine roles that
// can reach the enclosing function (name-based call graph over masswallet, keystore, txmgr from the roots:
// exported WalletManager methods and NtfnsHandler notification entry points = api; handle = follower;
// worker = worker; constructors and Start before the go statements = init), and whether the access lies
// lexically inside a suspend()…resume() window of the worker.

import (
	"fmt"
	"go/ast"
	"go/token"
	"os"
	"path/filepath"
	"sort"
	"strings"
)

type locksSharedField struct {
	owner string // receiver type
	field string
}

var locksSharedFields = []locksSharedField{
	{"NtfnsHandler", "mempool"}, {"NtfnsHandler", "bestBlock"}, {"NtfnsHandler", "expiredMempool"}, {"NtfnsHandler", "taskChan"},
	{"KeystoreManager", "managedKeystores"}, {"KeystoreManager", "currentKeystore"},
	{"AddrManager", "addrs"}, {"AddrManager", "index"}, {"AddrManager", "branchInfo"}, {"AddrManager", "unlocked"},
	{"WalletManager", "usedCache"},
}

type locksFn struct {
	pkg, file, recv, name string
	decl                   *ast.FuncDecl
	calls                  map[string]bool // callee simple names
	roles                  map[string]bool
	callSites              []locksCallSite
	evs                    []locksEvent
	entry                  map[string]string // mutex -> mode, held at entry by every caller (must)
	entryTop               bool              // not yet constrained (fixpoint start)
	isRoot                 bool
}

type locksCallSite struct {
	callee string
	pos    token.Pos
}

func locksHeldBefore(evs []locksEvent, p token.Pos) map[string]string {
	state := map[string]string{}
	for _, e := range evs {
		if e.pos >= p {
			break
		}
		switch e.kind {
		case "Lock":
			state[e.mutex] = "W"
		case "RLock":
			state[e.mutex] = "R"
		default:
			delete(state, e.mutex)
		}
	}
	return state
}

func locksMeet(a, b map[string]string) map[string]string {
	out := map[string]string{}
	for m, ka := range a {
		if kb, ok := b[m]; ok {
			if ka == "W" && kb == "W" {
				out[m] = "W"
			} else {
				out[m] = "R"
			}
		}
	}
	return out
}

func locksSame(a, b map[string]string) bool {
	if len(a) != len(b) {
		return false
	}
	for k, v := range a {
		if b[k] != v {
			return false
		}
	}
	return true
}

func (f *locksFn) key() string { return f.pkg + "." + f.recv + "." + f.name }

type locksEvent struct {
	pos   token.Pos
	mutex string
	kind  string // Lock RLock Unlock RUnlock
}

type locksAccessRow struct {
	field, site, fn string
	write            bool
	locks            []string // "km.mu:W" / "w.mu:R"
	roles            []string
	window           bool
}

func locksRecvTypeName(fd *ast.FuncDecl) string {
	if fd.Recv == nil || len(fd.Recv.List) != 1 {
		return ""
	}
	t := fd.Recv.List[0].Type
	if s, ok := t.(*ast.StarExpr); ok {
		t = s.X
	}
	if id, ok := t.(*ast.Ident); ok {
		return id.Name
	}
	return ""
}

func locksRecvVarName(fd *ast.FuncDecl) string {
	if fd.Recv == nil || len(fd.Recv.List) != 1 || len(fd.Recv.List[0].Names) != 1 {
		return ""
	}
	return fd.Recv.List[0].Names[0].Name
}

// locksMutexCanon names a mutex by the type owning it, so that km.mu in one method and k.mu in another agree.
func locksMutexCanon(c *Ctx, e ast.Expr, fn *locksFn, typeOfVar map[string]string) string {
	s := c.Src(e)
	if i := strings.LastIndex(s, "."); i >= 0 {
		base, f := s[:i], s[i+1:]
		if t, ok := typeOfVar[base]; ok {
			return t + "." + f
		}
		if j := strings.LastIndex(base, "."); j >= 0 {
			// h.walletMgr.mu, w.ntfnsHandler.memMtx …
			switch base[j+1:] {
			case "walletMgr":
				return "WalletManager." + f
			case "ntfnsHandler":
				return "NtfnsHandler." + f
			case "ksmgr":
				return "KeystoreManager." + f
			case "utxoStore":
				return "UtxoStore." + f
			}
		}
		return base + "." + f
	}
	return s
}

func init() {
	register(func(c *Ctx) {
		pkgs := map[string]string{"masswallet": "masswallet", "keystore": "masswallet/keystore", "txmgr": "masswallet/txmgr"}
		var fns []*locksFn
		byName := map[string][]*locksFn{}
		var pkgNames []string
		for p := range pkgs {
			pkgNames = append(pkgNames, p)
		}
		sort.Strings(pkgNames)
		for _, p := range pkgNames {
			dir := filepath.Join(c.Repo, pkgs[p])
			ents, err := os.ReadDir(dir)
			if err != nil {
				c.fail("locks.table", "cannot read "+dir)
				return
			}
			for _, en := range ents {
				n := en.Name()
				if en.IsDir() || !strings.HasSuffix(n, ".go") || strings.HasSuffix(n, "_test.go") || strings.HasSuffix(n, "_verif.go") {
					continue
				}
				rel := filepath.Join(pkgs[p], n)
				f := c.File(rel)
				if f == nil {
					c.fail("locks.table", "cannot parse "+rel)
					return
				}
				for _, d := range f.Decls {
					fd, ok := d.(*ast.FuncDecl)
					if !ok || fd.Body == nil {
						continue
					}
					lf := &locksFn{pkg: p, file: rel, recv: locksRecvTypeName(fd), name: fd.Name.Name, decl: fd, calls: map[string]bool{}, roles: map[string]bool{}}
					ast.Inspect(fd.Body, func(x ast.Node) bool {
						if ce, ok := x.(*ast.CallExpr); ok {
							if nm := protoCalleeName(c, ce.Fun); nm != "" {
								lf.calls[nm] = true
							}
						}
						// goroutines started here do not inherit the role
						if _, ok := x.(*ast.GoStmt); ok {
							return false
						}
						return true
					})
					fns = append(fns, lf)
					byName[lf.name] = append(byName[lf.name], lf)
				}
			}
		}
		// roots
		mark := func(root *locksFn, role string) {
			var walk func(f *locksFn)
			walk = func(f *locksFn) {
				if f.roles[role] {
					return
				}
				f.roles[role] = true
				for cal := range f.calls {
					for _, g := range byName[cal] {
						// the goroutine bodies are entered only through `go`
						if g.recv == "" && (g.name == "handle" || g.name == "worker") && g.pkg == "masswallet" {
							continue
						}
						walk(g)
					}
				}
			}
			walk(root)
		}
		for _, f := range fns {
			switch {
			case f.pkg == "masswallet" && f.recv == "" && f.name == "handle":
				f.isRoot = true
				mark(f, "follower")
			case f.pkg == "masswallet" && f.recv == "" && f.name == "worker":
				f.isRoot = true
				mark(f, "worker")
			case f.pkg == "masswallet" && (f.name == "NewWalletManager" || f.name == "NewNtfnsHandler"):
				f.isRoot = true
				mark(f, "init")
			case f.pkg == "masswallet" && f.recv == "NtfnsHandler" && f.name == "Start":
				f.isRoot = true
				mark(f, "init")
			case f.pkg == "masswallet" && f.recv == "WalletManager" && ast.IsExported(f.name) && f.name != "Start" && f.name != "Stop" && f.name != "CloseDB":
				f.isRoot = true
				mark(f, "api")
			}
		}
		// phase 1: per function, lock events / call sites / suspend-resume positions in source order
		typeVars := func(f *locksFn) map[string]string {
			fd := f.decl
			typeOfVar := map[string]string{}
			if rv := locksRecvVarName(fd); rv != "" {
				typeOfVar[rv] = f.recv
			}
			if fd.Type.Params != nil {
				for _, p := range fd.Type.Params.List {
					t := p.Type
					if s, ok := t.(*ast.StarExpr); ok {
						t = s.X
					}
					tn := c.Src(t)
					if i := strings.LastIndex(tn, "."); i >= 0 {
						tn = tn[i+1:]
					}
					for _, n := range p.Names {
						typeOfVar[n.Name] = tn
					}
				}
			}
			return typeOfVar
		}
		susOf := map[*locksFn][]token.Pos{}
		resOf := map[*locksFn][]token.Pos{}
		for _, f := range fns {
			f := f
			typeOfVar := typeVars(f)
			var inspect func(n ast.Node, deferred bool)
			inspect = func(n ast.Node, deferred bool) {
				ast.Inspect(n, func(x ast.Node) bool {
					switch y := x.(type) {
					case *ast.GoStmt:
						return false
					case *ast.DeferStmt:
						inspect(y.Call, true)
						return false
					case *ast.CallExpr:
						if nm := protoCalleeName(c, y.Fun); nm != "" {
							f.callSites = append(f.callSites, locksCallSite{nm, y.Pos()})
						}
						if se, ok := y.Fun.(*ast.SelectorExpr); ok {
							switch se.Sel.Name {
							case "Lock", "RLock":
								f.evs = append(f.evs, locksEvent{y.Pos(), locksMutexCanon(c, se.X, f, typeOfVar), se.Sel.Name})
							case "Unlock", "RUnlock":
								if !deferred {
									f.evs = append(f.evs, locksEvent{y.Pos(), locksMutexCanon(c, se.X, f, typeOfVar), se.Sel.Name})
								}
							case "suspend":
								susOf[f] = append(susOf[f], y.Pos())
							case "resume":
								if !deferred {
									resOf[f] = append(resOf[f], y.Pos())
								}
							}
						}
					}
					return true
				})
			}
			inspect(f.decl.Body, false)
			sort.Slice(f.evs, func(i, j int) bool { return f.evs[i].pos < f.evs[j].pos })
			f.entry = map[string]string{}
			f.entryTop = !f.isRoot
		}
		// phase 2: locks held at entry by EVERY caller (name-based call sites; greatest fixpoint)
		callers := map[string][]struct {
			f   *locksFn
			pos token.Pos
		}{}
		for _, f := range fns {
			for _, cs := range f.callSites {
				callers[cs.callee] = append(callers[cs.callee], struct {
					f   *locksFn
					pos token.Pos
				}{f, cs.pos})
			}
		}
		for _, f := range fns {
			if len(callers[f.name]) == 0 {
				f.entryTop = false // never called by name: an entry point of its own
			}
		}
		for changed, iter := true, 0; changed && iter < 50; iter++ {
			changed = false
			for _, f := range fns {
				if f.isRoot || len(callers[f.name]) == 0 {
					continue
				}
				var acc map[string]string
				top := true
				for _, cs := range callers[f.name] {
					if cs.f.entryTop {
						continue // unconstrained caller: contributes nothing yet
					}
					held := locksHeldBefore(cs.f.evs, cs.pos)
					for m, k := range cs.f.entry {
						if _, ok := held[m]; !ok {
							held[m] = k
						}
					}
					if top {
						acc, top = held, false
					} else {
						acc = locksMeet(acc, held)
					}
				}
				if top {
					continue
				}
				if f.entryTop || !locksSame(acc, f.entry) {
					f.entry, f.entryTop, changed = acc, false, true
				}
			}
		}
		// phase 3: rows
		var rows []locksAccessRow
		for _, f := range fns {
			fd := f.decl
			typeOfVar := typeVars(f)
			susPos, resPos := susOf[f], resOf[f]
			heldAt := func(p token.Pos) []string {
				state := locksHeldBefore(f.evs, p)
				if !f.entryTop {
					for m, k := range f.entry {
						if _, ok := state[m]; !ok {
							state[m] = k
						}
					}
				}
				var out []string
				for m, k := range state {
					out = append(out, m+":"+k)
				}
				sort.Strings(out)
				return out
			}
			inWindow := func(p token.Pos) bool {
				last := token.NoPos
				for _, s := range susPos {
					if s < p && s > last {
						last = s
					}
				}
				if last == token.NoPos {
					return false
				}
				for _, r := range resPos {
					if r > last && r < p {
						return false
					}
				}
				return true
			}
			// writes: positions of selector expressions that are assigned / deleted from / inc-dec'ed
			writes := map[token.Pos]bool{}
			var markWrite func(e ast.Expr)
			markWrite = func(e ast.Expr) {
				switch y := e.(type) {
				case *ast.SelectorExpr:
					writes[y.Pos()] = true
				case *ast.IndexExpr:
					markWrite(y.X)
				case *ast.ParenExpr:
					markWrite(y.X)
				}
			}
			ast.Inspect(fd.Body, func(x ast.Node) bool {
				switch y := x.(type) {
				case *ast.AssignStmt:
					for _, l := range y.Lhs {
						// x.f = …, x.f[k] = … are writes of x.f; x.f.g = … writes g of the value in f (a field write of the struct held in f)
						switch z := l.(type) {
						case *ast.SelectorExpr:
							writes[z.Pos()] = true
							if inner, ok := z.X.(*ast.SelectorExpr); ok {
								writes[inner.Pos()] = true
							}
						default:
							markWrite(l)
						}
					}
				case *ast.IncDecStmt:
					markWrite(y.X)
				case *ast.CallExpr:
					if id, ok := y.Fun.(*ast.Ident); ok && id.Name == "delete" && len(y.Args) == 2 {
						markWrite(y.Args[0])
					}
				case *ast.UnaryExpr:
					if y.Op == token.AND {
						markWrite(y.X)
					}
				}
				return true
			})
			ast.Inspect(fd.Body, func(x ast.Node) bool {
				se, ok := x.(*ast.SelectorExpr)
				if !ok {
					return true
				}
				for _, sf := range locksSharedFields {
					if se.Sel.Name != sf.field {
						continue
					}
					// the owner: a variable of the owner type, or a chain ending in a known field name
					base := c.Src(se.X)
					owner := typeOfVar[base]
					if owner == "" {
						switch {
						case strings.HasSuffix(base, ".ntfnsHandler"):
							owner = "NtfnsHandler"
						case strings.HasSuffix(base, ".walletMgr"):
							owner = "WalletManager"
						case strings.HasSuffix(base, ".ksmgr"):
							owner = "KeystoreManager"
						case base == "addrManager" || base == "am" || base == "addrMgr" || base == "addrmgr" || base == "importingAddrMgr":
							owner = "AddrManager" // local variables holding an address manager
						case strings.HasSuffix(base, "]") && strings.Contains(base, ".managedKeystores["):
							owner = "AddrManager" // km.managedKeystores[x].addrs
						}
					}
					if owner != sf.owner {
						continue
					}
					pos := c.fset.Position(se.Pos())
					var roles []string
					for r := range f.roles {
						roles = append(roles, r)
					}
					sort.Strings(roles)
					rows = append(rows, locksAccessRow{
						field: sf.owner + "." + sf.field,
						site:  fmt.Sprintf("%s:%d", f.file, pos.Line),
						fn:    f.recv + "." + f.name,
						write: writes[se.Pos()],
						locks: heldAt(se.Pos()),
						roles: roles,
						window: inWindow(se.Pos()),
					})
				}
				return true
			})
		}
		sort.Slice(rows, func(i, j int) bool {
			if rows[i].field != rows[j].field {
				return rows[i].field < rows[j].field
			}
			return rows[i].site < rows[j].site
		})
		l := NewLean("MW.Gen.Locks")
		l.Raw("open MW.Model.Locks")
		var sb []string
		for _, r := range rows {
			var lk, rl []string
			for _, x := range r.locks {
				p := strings.Split(x, ":")
				lk = append(lk, fmt.Sprintf("(%s, %v)", leanStr(p[0]), p[1] == "W"))
			}
			for _, x := range r.roles {
				rl = append(rl, "."+x)
			}
			sb = append(sb, fmt.Sprintf("  ⟨%s, %s, %s, %v, [%s], [%s], %v⟩", leanStr(r.field), leanStr(r.site), leanStr(r.fn), r.write,
				strings.Join(lk, ", "), strings.Join(rl, ", "), r.window))
		}
		l.Raw("def table : List Access := [\n" + strings.Join(sb, ",\n") + "]")
		protoWriteLeanWithImport(c, l, "Locks.lean", "MW.Model.Locks")
		c.check("locks.table", len(rows) > 40, fmt.Sprintf("access table suspiciously small (%d rows)", len(rows)))
	})
}
