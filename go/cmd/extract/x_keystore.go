package main

import (
	"fmt"
	"go/ast"
	"strings"

	"massnet.org/mass-wallet/config"
	"massnet.org/mass-wallet/masswallet/keystore"
	"massnet.org/mass-wallet/masswallet/keystore/hdkeychain"
)

// Facts for C12 / C04 (engine ks): derivation-path and id-encoding constants as compiled in, and the
// SHAPE of the statements the keystore model follows (gap-limit window, restore scan bound, hint
// defaults, index key, the NewAddress call). A statement that no longer prints to the expected text is
// a broken obligation: the model must then be re-read against the code.

func normSrc(s string) string { return strings.Join(strings.Fields(s), " ") }

// hasSrc reports whether some expression or statement inside n prints (white space normalised) as want.
func (c *Ctx) hasSrc(n ast.Node, want string) bool {
	if n == nil {
		return false
	}
	want = normSrc(want)
	found := false
	ast.Inspect(n, func(x ast.Node) bool {
		if found || x == nil {
			return false
		}
		switch x.(type) {
		case ast.Expr, ast.Stmt:
			if normSrc(c.Src(x)) == want {
				found = true
				return false
			}
		}
		return true
	})
	return found
}

func (c *Ctx) countSrc(n ast.Node, want string) int {
	if n == nil {
		return 0
	}
	want = normSrc(want)
	k := 0
	ast.Inspect(n, func(x ast.Node) bool {
		if x == nil {
			return false
		}
		switch x.(type) {
		case ast.Expr, ast.Stmt:
			if normSrc(c.Src(x)) == want {
				k++
			}
		}
		return true
	})
	return k
}

func init() {
	register(func(c *Ctx) {
		l := NewLean("MW.Gen.Keystore")
		l.Def("maxAddressesPerAccount", "Nat", fmt.Sprint(uint64(keystore.MaxAddressesPerAccount)))
		l.Def("hardenedKeyStart", "Nat", fmt.Sprint(uint64(hdkeychain.HardenedKeyStart)))
		l.Def("externalBranch", "Nat", fmt.Sprint(keystore.ExternalBranch))
		l.Def("internalBranch", "Nat", fmt.Sprint(keystore.InternalBranch))
		l.Def("walletUsage", "Nat", fmt.Sprint(uint8(keystore.WalletUsage)))
		l.Def("purpose", "Nat", fmt.Sprint(keystore.MainnetKeyScope.Purpose))
		l.Def("coinMainnet", "Nat", fmt.Sprint(keystore.MainnetKeyScope.Coin))
		l.Def("coinTestnet", "Nat", fmt.Sprint(keystore.TestnetKeyScope.Coin))
		l.Def("defaultGapLimit", "Nat", fmt.Sprint(config.DefaultAddressGapLimit))
		c.check("keystore.constants",
			keystore.ExternalBranch == 0 && keystore.InternalBranch == 1 && keystore.WalletUsage == 1 &&
				keystore.MainnetKeyScope.Purpose == 44 && keystore.TestnetKeyScope.Purpose == 44 &&
				uint64(keystore.MaxAddressesPerAccount) == uint64(hdkeychain.HardenedKeyStart)-1,
			"derivation path constants changed (m/44'/coin'/1'/branch/index, MaxAddressesPerAccount = 2^31-1)")

		// wallet id = bech32 "ac", witness version 15, of hash160(account public key)
		idf := c.Func("masswallet/keystore/util.go", "", "pubKeyToAccountID")
		idOK := c.hasSrc(idf, `encodeSegWitAddress("ac", 15, hashBytes)`) &&
			c.hasSrc(idf, `hashBytes := massutil.Hash160(pubKeyBytes)`) &&
			c.hasSrc(idf, `pubKeyBytes := pubKey.SerializeCompressed()`)
		l.Def("idPrefix", "String", leanStr("ac"))
		l.Def("idWitnessVersion", "Nat", "15")
		l.Def("idEncodingShape", "Bool", fmt.Sprint(idOK))
		c.check("keystore.idEncoding", idOK, "pubKeyToAccountID is no longer encodeSegWitAddress(\"ac\", 15, Hash160(compressed pubkey))")

		// the gap-limit window of nextAddresses
		na := c.Func("masswallet/keystore/addrmgr.go", "AddrManager", "nextAddresses")
		winOK := c.hasSrc(na, `nextIndex != 0 && nextIndex+numAddresses > addressGapLimit`) &&
			c.hasSrc(na, `startIndex := nextIndex + numAddresses - addressGapLimit - 1`) &&
			c.hasSrc(na, `i < nextIndex`) &&
			c.hasSrc(na, `numAddresses > addressGapLimit`) &&
			c.hasSrc(na, `numAddresses > MaxAddressesPerAccount || numAddresses+nextIndex > MaxAddressesPerAccount`) &&
			c.hasSrc(na, `used, err := checkfunc(managedAddr.scriptHash)`)
		keyOK := c.hasSrc(na, `addr, ok := a.index[addrIndexKey{branch, i}]`)
		l.Def("gapWindowShape", "Bool", fmt.Sprint(winOK))
		l.Def("indexKeyedByBranch", "Bool", fmt.Sprint(keyOK))
		c.check("keystore.gapWindow", winOK, "nextAddresses: the gap-limit guard / window bounds changed shape")
		c.check("keystore.indexKey", keyOK, "nextAddresses no longer looks the window up by (branch, index)")

		// the restore scan of createManagerKeyScope (both branches) and what it stores
		cs := c.Func("masswallet/keystore/manager.go", "", "createManagerKeyScope")
		scanOK := c.countSrc(cs, `i < safeUint32Add(nextIndex, addressGapLimit) || i < safeUint32Add(hdpath.InternalChildNum, addressGapLimit)`) == 1 &&
			c.countSrc(cs, `i < safeUint32Add(nextIndex, addressGapLimit) || i < safeUint32Add(hdpath.ExternalChildNum, addressGapLimit)`) == 1 &&
			c.countSrc(cs, `nextIndex = i + 1`) == 2 &&
			c.countSrc(cs, `addressInfo[:nextIndex]`) == 2 &&
			c.hasSrc(cs, `nextIndex < hdpath.ExternalChildNum`) && c.hasSrc(cs, `nextIndex < hdpath.InternalChildNum`) &&
			c.hasSrc(cs, `hdpath.ExternalChildNum != 0`) && c.hasSrc(cs, `hdpath.InternalChildNum != 0`)
		l.Def("restoreScanShape", "Bool", fmt.Sprint(scanOK))
		c.check("keystore.restoreScan", scanOK, "createManagerKeyScope: the restore loops (bound, nextIndex update, stored prefix) changed shape")

		// hint 0 becomes 1; the mnemonic is normalised; NewAddress asks for one external address
		im := c.Func("masswallet/keystore/manager.go", "KeystoreManager", "ImportKeystoreWithMnemonic")
		ik := c.Func("masswallet/keystore/manager.go", "KeystoreManager", "ImportKeystore")
		hintOK := c.hasSrc(im, `hdpath.ExternalChildNum == 0`) && c.hasSrc(im, `hdpath.ExternalChildNum = 1`) &&
			c.hasSrc(ik, `kStore.HDpath.ExternalChildNum == 0`) && c.hasSrc(ik, `kStore.HDpath.ExternalChildNum = 1`)
		normOK := c.hasSrc(im, `mnemonic := strings.Join(strings.Fields(walletParams.Mnemonic), " ")`) &&
			c.hasSrc(im, `EntropyFromMnemonic(mnemonic)`) && c.hasSrc(im, `NewSeedWithErrorChecking(mnemonic, genPass)`)
		nw := c.Func("masswallet/wallet.go", "WalletManager", "NewAddress")
		callOK := c.hasSrc(nw, `w.ksmgr.NextAddresses(tx, w.chainFetcher.CheckScriptHashUsed, false, 1, w.config.Wallet.Settings.AddressGapLimit, addrClass)`) &&
			c.hasSrc(nw, `w.utxoStore.PutNewAddress(tx, mas[0].Account(), address, addrClass)`)
		l.Def("hintDefaultShape", "Bool", fmt.Sprint(hintOK))
		l.Def("mnemonicNormalised", "Bool", fmt.Sprint(normOK))
		l.Def("newAddressCallShape", "Bool", fmt.Sprint(callOK))
		c.check("keystore.hintDefault", hintOK, "Import*: an external hint of 0 is no longer replaced by 1")
		c.check("keystore.mnemonicNormalised", normOK, "ImportKeystoreWithMnemonic no longer derives entropy and seed from the whitespace-normalised sentence")
		c.check("keystore.newAddressCall", callOK, "wallet.NewAddress no longer is NextAddresses(external, 1, gap) + PutNewAddress")

		// legal passphrases; the configured gap limit is at least 2
		vf := c.File("masswallet/keystore/validate.go")
		reOK := vf != nil && c.hasSrc(vf, "regexp.MustCompile(`^[0-9a-zA-Z@#$%^&]{6,40}$`)")
		cf := c.File("config/config.go")
		gapOK := cf != nil && c.hasSrc(cf, `cfg.Wallet.Settings.AddressGapLimit <= 1`)
		l.Def("passRegexpShape", "Bool", fmt.Sprint(reOK))
		l.Def("configGapAtLeast2", "Bool", fmt.Sprint(gapOK))
		c.check("keystore.passRegexp", reOK, "ValidatePassphrase pattern changed")
		c.check("keystore.configGap", gapOK, "config no longer rejects AddressGapLimit <= 1")
		l.Write(c, "Keystore.lean")
	})
}
