package main

// Facts for the byte-level keystore codecs (engine ksc; registered under C05 / C04 / C12), re-read from
// /repo's working tree on every run  →  lean/MW/Gen/KsCodec.lean:
//
//   kscodec.keyNames   the key-name variables of keystore/db.go and, per put*/fetch*/init*/update*/get*/delete*
//                      function, the ORDERED list of bucket accesses (Put/Get/Delete/GetByPrefix, key name)
//   kscodec.snacl      snacl.SecretKey.Marshal / Unmarshal read as cursor programs (copy(b[:W], …); b = b[W:];
//                      binary.LittleEndian.PutUint64(b[:8], …)) → field order, widths, offsets, total, the length guard
//   kscodec.records    serializeAccountRow / deserializeAccountRow / serializeHDAccountKey / deserializeHDAccountKey /
//                      putEncryptedPubKey / fetchEncryptedPubKey / uint32ToBytes / putVersion: every buffer write /
//                      read with its SYMBOLIC offset (constant + length variables), and the item list recognised
//                      from it (u8 / little-endian uint / fixed bytes / length-prefixed bytes), the length guards
//   kscodec.json       the struct tags of Keystore / cryptoJSON / hdPath (field order, json names, omitempty, Go
//                      type), and what `export` puts into each field
//
// A function that can no longer be read in this shape is a broken fact, never skipped.  The Lean codecs
// (MW.Model.KsCodec) are interpreters of the item tables written here.

import (
	"crypto/sha256"
	"fmt"
	"go/ast"
	"go/token"
	"reflect"
	"sort"
	"strconv"
	"strings"

	"massnet.org/mass-wallet/masswallet/keystore/snacl"
)

// lin is a symbolic offset: c + the sum of the named length variables.
type lin struct {
	c    int
	vars []string
}

func (a lin) add(b lin) lin {
	v := append(append([]string{}, a.vars...), b.vars...)
	sort.Strings(v)
	return lin{a.c + b.c, v}
}

func (a lin) sub(b lin) (lin, bool) {
	v := append([]string{}, a.vars...)
	for _, x := range b.vars {
		found := false
		for i, y := range v {
			if x == y {
				v = append(v[:i], v[i+1:]...)
				found = true
				break
			}
		}
		if !found {
			return lin{}, false
		}
	}
	if a.c < b.c {
		return lin{}, false
	}
	return lin{a.c - b.c, v}, true
}

func (a lin) lean() string {
	var q []string
	for _, v := range a.vars {
		q = append(q, leanStr(v))
	}
	return fmt.Sprintf("⟨%d, [%s]⟩", a.c, strings.Join(q, ", "))
}

type symField struct {
	name string
	kind string // u8 | le | raw
	off  lin
	ln   lin
}

type symLayout struct {
	fn     string
	size   *lin // make([]byte, size) (encoders)
	guard  string
	minLen int
	fields []symField
	err    string
}

// stripConv removes conversions and slicing noise: uint32(x) → x, byte(row.acctType) → acctType, x[:] → x
func lastName(src string) string {
	s := src
	for {
		t := s
		for _, p := range []string{"uint32(", "uint64(", "byte(", "int(", "accountType(", "uint8(", "len("} {
			if strings.HasPrefix(t, p) && strings.HasSuffix(t, ")") {
				t = t[len(p) : len(t)-1]
			}
		}
		t = strings.TrimSuffix(t, "[:]")
		if t == s {
			break
		}
		s = t
	}
	if i := strings.LastIndex(s, "."); i >= 0 {
		s = s[i+1:]
	}
	return s
}

// symbolic reading of a function that builds / reads the byte slice `buf`
func (c *Ctx) symLayoutOf(rel, fn, buf string, consts map[string]int) *symLayout {
	L := &symLayout{fn: fn}
	fd := c.Func(rel, "", fn)
	if fd == nil || fd.Body == nil {
		L.err = "function not found"
		return L
	}
	env := map[string]lin{}
	var eval func(e ast.Expr) (lin, bool)
	eval = func(e ast.Expr) (lin, bool) {
		switch x := e.(type) {
		case *ast.BasicLit:
			k, err := strconv.Atoi(x.Value)
			return lin{c: k}, err == nil
		case *ast.Ident:
			if v, ok := env[x.Name]; ok {
				return v, true
			}
			if k, ok := consts[x.Name]; ok {
				return lin{c: k}, true
			}
			return lin{}, false
		case *ast.SelectorExpr:
			if k, ok := consts[c.Src(x)]; ok {
				return lin{c: k}, true
			}
			return lin{}, false
		case *ast.ParenExpr:
			return eval(x.X)
		case *ast.BinaryExpr:
			a, ok1 := eval(x.X)
			b, ok2 := eval(x.Y)
			if ok1 && ok2 {
				switch x.Op {
				case token.ADD:
					return a.add(b), true
				case token.SUB:
					return a.sub(b)
				}
			}
		}
		return lin{}, false
	}
	// bounds of buf[a:b] / buf[:b] / buf[a:] / buf ; ok=false if e is not a slice of buf
	bounds := func(e ast.Expr) (lo lin, hi *lin, ok bool) {
		switch x := e.(type) {
		case *ast.Ident:
			if x.Name == buf {
				return lin{}, nil, true
			}
		case *ast.SliceExpr:
			if c.Src(x.X) != buf {
				return lin{}, nil, false
			}
			if x.Low != nil {
				v, ok := eval(x.Low)
				if !ok {
					L.err = "offset not linear: " + c.Src(x.Low)
					return lin{}, nil, false
				}
				lo = v
			}
			if x.High != nil {
				v, ok := eval(x.High)
				if !ok {
					L.err = "offset not linear: " + c.Src(x.High)
					return lin{}, nil, false
				}
				hi = &v
			}
			return lo, hi, true
		}
		return lin{}, nil, false
	}
	isLenVar := func(rhs ast.Expr) bool {
		s := c.Src(rhs)
		return strings.HasPrefix(s, "len(") || strings.HasPrefix(s, "uint32(len(") ||
			strings.HasPrefix(s, "binary.LittleEndian.Uint32(") || strings.HasPrefix(s, "binary.LittleEndian.Uint64(")
	}
	addField := func(name, kind string, lo lin, hi *lin, width int) {
		ln := lin{c: width}
		if hi != nil {
			d, ok := hi.sub(lo)
			if !ok {
				L.err = "slice bounds of " + name + " are not an extent"
				return
			}
			ln = d
			if width > 0 && (len(d.vars) != 0 || d.c != width) {
				L.err = fmt.Sprintf("%s: %d-byte integer in a slice of another width", name, width)
			}
		}
		L.fields = append(L.fields, symField{name, kind, lo, ln})
	}
	leBits := func(fun, prefix string) int {
		if strings.HasPrefix(fun, prefix) {
			n, _ := strconv.Atoi(strings.TrimPrefix(fun, prefix))
			return n / 8
		}
		return 0
	}
	var walk func(list []ast.Stmt)
	readExpr := func(lhsName string, rhs ast.Expr) {
		// X := binary.LittleEndian.Uint32(buf[a:b])   /   X = T(buf[i])   (possibly wrapped in conversions)
		e := rhs
		for {
			if ce, ok := e.(*ast.CallExpr); ok && len(ce.Args) == 1 {
				fun := c.Src(ce.Fun)
				if w := leBits(fun, "binary.LittleEndian.Uint"); w > 0 {
					if lo, hi, ok := bounds(ce.Args[0]); ok {
						addField(lhsName, "le", lo, hi, w)
					}
					return
				}
				e = ce.Args[0]
				continue
			}
			break
		}
		if ix, ok := e.(*ast.IndexExpr); ok && c.Src(ix.X) == buf {
			if v, ok := eval(ix.Index); ok {
				L.fields = append(L.fields, symField{lhsName, "u8", v, lin{c: 1}})
			}
		}
	}
	walk = func(list []ast.Stmt) {
		for _, st := range list {
			switch s := st.(type) {
			case *ast.IfStmt:
				// guards: len(buf) < K  /  len(buf) != K
				if be, ok := s.Cond.(*ast.BinaryExpr); ok && (be.Op == token.LSS || be.Op == token.NEQ) {
					if strings.HasPrefix(c.Src(be.X), "len(") && lastName(c.Src(be.X)) == lastName(buf) {
						if v, ok := eval(be.Y); ok && len(v.vars) == 0 {
							L.minLen = v.c
							L.guard = be.Op.String()
						}
					}
				}
			case *ast.AssignStmt:
				if len(s.Lhs) != 1 || len(s.Rhs) != 1 {
					continue
				}
				lhs, rhs := s.Lhs[0], s.Rhs[0]
				lsrc := c.Src(lhs)
				// buf := make([]byte, E)  /  make([]byte, E, E)
				if call, ok := rhs.(*ast.CallExpr); ok && c.Src(call.Fun) == "make" && len(call.Args) >= 2 && lsrc == buf {
					if v, ok := eval(call.Args[1]); ok {
						L.size = &v
					} else {
						L.err = "size not linear: " + c.Src(call.Args[1])
					}
					continue
				}
				// buf[i] = X
				if ix, ok := lhs.(*ast.IndexExpr); ok && c.Src(ix.X) == buf {
					if v, ok := eval(ix.Index); ok {
						L.fields = append(L.fields, symField{lastName(c.Src(rhs)), "u8", v, lin{c: 1}})
					}
					continue
				}
				// offset += K
				if s.Tok == token.ADD_ASSIGN {
					if id, ok := lhs.(*ast.Ident); ok {
						if a, ok1 := env[id.Name]; ok1 {
							if b, ok2 := eval(rhs); ok2 {
								env[id.Name] = a.add(b)
							}
						}
					}
					continue
				}
				if id, ok := lhs.(*ast.Ident); ok && isLenVar(rhs) {
					env[id.Name] = lin{vars: []string{id.Name}}
				} else if id, ok := lhs.(*ast.Ident); ok {
					if v, ok := eval(rhs); ok {
						env[id.Name] = v
					}
				}
				readExpr(lastName(lsrc), rhs)
			case *ast.ExprStmt:
				call, ok := s.X.(*ast.CallExpr)
				if !ok {
					continue
				}
				fun := c.Src(call.Fun)
				switch {
				case fun == "copy" && len(call.Args) == 2:
					if lo, hi, ok := bounds(call.Args[0]); ok { // write into buf
						src := c.Src(call.Args[1])
						if strings.HasPrefix(src, "uint32ToBytes(") {
							addField(lastName(strings.TrimSuffix(strings.TrimPrefix(src, "uint32ToBytes("), ")")), "le", lo, hi, 4)
						} else {
							addField(lastName(src), "raw", lo, hi, 0)
						}
					} else if lo, hi, ok := bounds(call.Args[1]); ok { // read from buf
						addField(lastName(c.Src(call.Args[0])), "raw", lo, hi, 0)
					}
				case leBits(fun, "binary.LittleEndian.PutUint") > 0 && len(call.Args) == 2:
					if lo, hi, ok := bounds(call.Args[0]); ok {
						addField(lastName(c.Src(call.Args[1])), "le", lo, hi, leBits(fun, "binary.LittleEndian.PutUint"))
					}
				}
			case *ast.DeclStmt, *ast.ReturnStmt:
				// composite literal fields: branch: binary.LittleEndian.Uint32(key[:4])
				ast.Inspect(s, func(n ast.Node) bool {
					if kv, ok := n.(*ast.KeyValueExpr); ok {
						readExpr(c.Src(kv.Key), kv.Value)
					}
					return true
				})
			case *ast.RangeStmt:
				walk(s.Body.List)
			}
			// composite literals inside assignments (pkp := &pubkeyAndPath{…})
			if as, ok := st.(*ast.AssignStmt); ok {
				ast.Inspect(as, func(n ast.Node) bool {
					if kv, ok := n.(*ast.KeyValueExpr); ok {
						readExpr(c.Src(kv.Key), kv.Value)
					}
					return true
				})
			}
		}
	}
	walk(fd.Body.List)
	return L
}

// items recognises u8 / le / raw / length-prefixed fields in a symbolic layout whose fields tile the buffer.
func (L *symLayout) items() ([]string, string) {
	var out []string
	pos := lin{}
	fs := L.fields
	for i := 0; i < len(fs); i++ {
		f := fs[i]
		if !reflect.DeepEqual(f.off.add(lin{}), pos.add(lin{})) {
			return nil, fmt.Sprintf("field %s does not start where its predecessor ends", f.name)
		}
		switch {
		case f.kind == "u8":
			out = append(out, fmt.Sprintf(".u8 %s", leanStr(f.name)))
		case f.kind == "le" && i+1 < len(fs) && fs[i+1].kind == "raw" && len(fs[i+1].ln.vars) == 1 && fs[i+1].ln.c == 0 && fs[i+1].ln.vars[0] == f.name:
			out = append(out, fmt.Sprintf(".lp %s %d", leanStr(fs[i+1].name), f.ln.c))
			pos = pos.add(f.ln).add(fs[i+1].ln)
			i++
			continue
		case f.kind == "le" && len(f.ln.vars) == 0:
			out = append(out, fmt.Sprintf(".le %s %d", leanStr(f.name), f.ln.c))
		case f.kind == "raw" && len(f.ln.vars) == 0:
			out = append(out, fmt.Sprintf(".raw %s %d", leanStr(f.name), f.ln.c))
		default:
			return nil, fmt.Sprintf("field %s: variable length without a length prefix", f.name)
		}
		pos = pos.add(f.ln)
	}
	if L.size != nil && !reflect.DeepEqual(L.size.add(lin{}), pos.add(lin{})) {
		return nil, "the fields do not fill the allocated buffer"
	}
	return out, ""
}

func (L *symLayout) lean() string {
	var fs []string
	for _, f := range L.fields {
		fs = append(fs, fmt.Sprintf("⟨%s, .%s, %s, %s⟩", leanStr(f.name), f.kind, f.off.lean(), f.ln.lean()))
	}
	size := "none"
	if L.size != nil {
		size = "some " + L.size.lean()
	}
	return fmt.Sprintf("⟨%s, %s, %s, %d, [%s]⟩", leanStr(L.fn), size, leanStr(L.guard), L.minLen, strings.Join(fs, ", "))
}

// cursorLayout reads snacl Marshal / Unmarshal: the buffer variable is advanced with `b = b[W:]`.
func (c *Ctx) cursorLayout(fd *ast.FuncDecl, bufs map[string]bool, consts map[string]int) (fields []symField, total int, guard string, guardLen int, err string) {
	if fd == nil || fd.Body == nil {
		return nil, 0, "", 0, "function not found"
	}
	evalC := func(e ast.Expr) (int, bool) {
		var ev func(e ast.Expr) (int, bool)
		ev = func(e ast.Expr) (int, bool) {
			switch x := e.(type) {
			case *ast.BasicLit:
				k, err := strconv.Atoi(x.Value)
				return k, err == nil
			case *ast.Ident:
				k, ok := consts[x.Name]
				return k, ok
			case *ast.SelectorExpr:
				k, ok := consts[c.Src(x)]
				return k, ok
			case *ast.CallExpr:
				if c.Src(x.Fun) == "len" && len(x.Args) == 1 {
					k, ok := consts["len("+c.Src(x.Args[0])+")"]
					return k, ok
				}
			case *ast.BinaryExpr:
				a, ok1 := ev(x.X)
				b, ok2 := ev(x.Y)
				if ok1 && ok2 && x.Op == token.ADD {
					return a + b, true
				}
			}
			return 0, false
		}
		return ev(e)
	}
	total = -1
	cur := 0
	prefixOf := func(e ast.Expr) (int, bool) { // b[:W]
		se, ok := e.(*ast.SliceExpr)
		if !ok || se.Low != nil || se.High == nil || !bufs[c.Src(se.X)] {
			return 0, false
		}
		return evalC(se.High)
	}
	for _, st := range fd.Body.List {
		switch s := st.(type) {
		case *ast.IfStmt:
			if be, ok := s.Cond.(*ast.BinaryExpr); ok && strings.HasPrefix(c.Src(be.X), "len(") {
				if id := strings.TrimSuffix(strings.TrimPrefix(c.Src(be.X), "len("), ")"); bufs[id] {
					if k, ok := evalC(be.Y); ok {
						guard, guardLen = be.Op.String(), k
					}
				}
			}
		case *ast.AssignStmt:
			if len(s.Lhs) != 1 || len(s.Rhs) != 1 {
				continue
			}
			lsrc := c.Src(s.Lhs[0])
			if call, ok := s.Rhs[0].(*ast.CallExpr); ok && c.Src(call.Fun) == "make" && len(call.Args) == 2 {
				if k, ok := evalC(call.Args[1]); ok {
					total = k
					bufs[lsrc] = true
				}
				continue
			}
			if id, ok := s.Rhs[0].(*ast.Ident); ok && bufs[id.Name] && s.Tok == token.DEFINE { // b := marshalled
				bufs[lsrc] = true
				continue
			}
			if se, ok := s.Rhs[0].(*ast.SliceExpr); ok && bufs[lsrc] && c.Src(se.X) == lsrc && se.High == nil && se.Low != nil { // b = b[W:]
				k, ok := evalC(se.Low)
				if !ok {
					return nil, 0, "", 0, "advance not constant: " + c.Src(se.Low)
				}
				cur += k
				continue
			}
			// params.N = int(binary.LittleEndian.Uint64(b[:8]))
			e := s.Rhs[0]
			for {
				ce, ok := e.(*ast.CallExpr)
				if !ok || len(ce.Args) != 1 {
					break
				}
				fun := c.Src(ce.Fun)
				if strings.HasPrefix(fun, "binary.LittleEndian.Uint") {
					bits, _ := strconv.Atoi(strings.TrimPrefix(fun, "binary.LittleEndian.Uint"))
					if w, ok := prefixOf(ce.Args[0]); ok {
						if w != bits/8 {
							return nil, 0, "", 0, "integer width differs from its slice"
						}
						fields = append(fields, symField{lastName(lsrc), "le", lin{c: cur}, lin{c: w}})
					}
					break
				}
				e = ce.Args[0]
			}
		case *ast.ExprStmt:
			call, ok := s.X.(*ast.CallExpr)
			if !ok {
				continue
			}
			fun := c.Src(call.Fun)
			switch {
			case fun == "copy" && len(call.Args) == 2:
				if w, ok := prefixOf(call.Args[0]); ok { // write
					fields = append(fields, symField{lastName(c.Src(call.Args[1])), "raw", lin{c: cur}, lin{c: w}})
				} else if w, ok := prefixOf(call.Args[1]); ok { // read
					fields = append(fields, symField{lastName(c.Src(call.Args[0])), "raw", lin{c: cur}, lin{c: w}})
				}
			case strings.HasPrefix(fun, "binary.LittleEndian.PutUint") && len(call.Args) == 2:
				bits, _ := strconv.Atoi(strings.TrimPrefix(fun, "binary.LittleEndian.PutUint"))
				if w, ok := prefixOf(call.Args[0]); ok {
					if w != bits/8 {
						return nil, 0, "", 0, "integer width differs from its slice"
					}
					fields = append(fields, symField{lastName(c.Src(call.Args[1])), "le", lin{c: cur}, lin{c: w}})
				}
			}
		}
	}
	return fields, total, guard, guardLen, ""
}

func itemsOfFixed(fs []symField) []string {
	var out []string
	for _, f := range fs {
		out = append(out, fmt.Sprintf(".%s %s %d", f.kind, leanStr(f.name), f.ln.c))
	}
	return out
}

func init() {
	register(func(c *Ctx) {
		l := NewLean("MW.Gen.KsCodec")
		l.Raw("/-- one item of a record layout -/\ninductive Item where\n  | u8 (name : String)               -- one byte\n  | le (name : String) (w : Nat)     -- little-endian unsigned integer in w bytes\n  | raw (name : String) (w : Nat)    -- byte string of exactly w bytes\n  | lp (name : String) (w : Nat)     -- w-byte little-endian length, then that many bytes\n  deriving DecidableEq, Repr")
		l.Raw("/-- a record codec as read off the Go source: up-front length guard of the decoder (`len != minLen` when exact,\n    `len < minLen` otherwise) and the items in buffer order -/\nstructure Codec where\n  name : String\n  minLen : Nat\n  exact : Bool\n  items : List Item\n  deriving DecidableEq, Repr")
		l.Raw("structure Lin where\n  c : Nat\n  vars : List String\n  deriving DecidableEq, Repr")
		l.Raw("inductive FKind where\n  | u8 | le | raw\n  deriving DecidableEq, Repr")
		l.Raw("structure SymField where\n  name : String\n  kind : FKind\n  off : Lin\n  len : Lin\n  deriving DecidableEq, Repr")
		l.Raw("/-- the buffer accesses of one function with symbolic offsets (constant + length variables) -/\nstructure SymLayout where\n  fn : String\n  size : Option Lin\n  guard : String\n  guardLen : Nat\n  fields : List SymField\n  deriving DecidableEq, Repr")

		// ---------------------------------------------------------------- key names + bucket accesses
		const dbgo = "masswallet/keystore/db.go"
		names := map[string]string{}
		var nameOrder []string
		if f := c.File(dbgo); f != nil {
			for _, d := range f.Decls {
				gd, ok := d.(*ast.GenDecl)
				if !ok || gd.Tok != token.VAR {
					continue
				}
				for _, sp := range gd.Specs {
					vs := sp.(*ast.ValueSpec)
					for i, n := range vs.Names {
						if i >= len(vs.Values) {
							continue
						}
						call, ok := vs.Values[i].(*ast.CallExpr)
						if !ok || len(call.Args) != 1 {
							continue
						}
						if at, ok := call.Fun.(*ast.ArrayType); !ok || at.Len != nil {
							continue
						}
						if bl, ok := call.Args[0].(*ast.BasicLit); ok && bl.Kind == token.STRING {
							if s, err := strconv.Unquote(bl.Value); err == nil {
								names[n.Name] = s
								nameOrder = append(nameOrder, n.Name)
							}
						}
					}
				}
			}
		}
		for _, n := range nameOrder {
			l.Def(n, "String", leanStr(names[n]))
		}
		var accItems []string
		nAcc := 0
		if f := c.File(dbgo); f != nil {
			for _, d := range f.Decls {
				fd, ok := d.(*ast.FuncDecl)
				if !ok || fd.Body == nil || fd.Recv != nil {
					continue
				}
				local := map[string][]string{} // key = internalChildNumName / externalChildNumName under if/else
				var acc []string
				ast.Inspect(fd.Body, func(n ast.Node) bool {
					switch x := n.(type) {
					case *ast.AssignStmt:
						if len(x.Lhs) == 1 && len(x.Rhs) == 1 {
							if lid, ok := x.Lhs[0].(*ast.Ident); ok {
								if rid, ok := x.Rhs[0].(*ast.Ident); ok {
									if _, ok := names[rid.Name]; ok {
										local[lid.Name] = append(local[lid.Name], rid.Name)
									}
								}
							}
						}
					case *ast.CallExpr:
						se, ok := x.Fun.(*ast.SelectorExpr)
						if !ok || len(x.Args) < 1 {
							return true
						}
						if id, ok := se.X.(*ast.Ident); !ok || id.Name != "b" {
							return true
						}
						op := se.Sel.Name
						if op != "Put" && op != "Get" && op != "Delete" && op != "GetByPrefix" {
							return true
						}
						key := "<" + c.Src(x.Args[0]) + ">"
						if id, ok := x.Args[0].(*ast.Ident); ok {
							if _, ok := names[id.Name]; ok {
								key = id.Name
							} else if ls, ok := local[id.Name]; ok {
								key = strings.Join(ls, "|")
							}
						}
						acc = append(acc, fmt.Sprintf("(%s, %s)", leanStr(op), leanStr(key)))
					}
					return true
				})
				if len(acc) > 0 {
					accItems = append(accItems, fmt.Sprintf("(%s, [%s])", leanStr(fd.Name.Name), strings.Join(acc, ", ")))
					nAcc++
				}
			}
		}
		l.Def("access", "List (String × List (String × String))", "[\n  "+strings.Join(accItems, ",\n  ")+"]")
		c.check("kscodec.keyNames", len(nameOrder) >= 17 && nAcc >= 25 && names["masterPrivKeyName"] != "" && names["externalChildNumName"] != "",
			"keystore/db.go: key-name variables / bucket accesses of the put*/fetch* functions could not be read")

		// ---------------------------------------------------------------- snacl parameters
		consts := map[string]int{"KeySize": snacl.KeySize, "sha256.Size": sha256.Size}
		if k, ok := c.ConstInt("masswallet/keystore/snacl/snacl.go", "KeySize"); ok {
			consts["KeySize"] = int(k)
		}
		const sn = "masswallet/keystore/snacl/snacl.go"
		mf, mt, _, _, merr := c.cursorLayout(c.Func(sn, "SecretKey", "Marshal"), map[string]bool{}, consts)
		uf, _, ug, ugl, uerr := c.cursorLayout(c.Func(sn, "SecretKey", "Unmarshal"), map[string]bool{"marshalled": true}, consts)
		l.Def("snaclKeySize", "Nat", fmt.Sprint(consts["KeySize"]))
		l.Def("snaclMarshal", "Codec", fmt.Sprintf("⟨\"snacl.Marshal\", %d, true, [%s]⟩", mt, strings.Join(itemsOfFixed(mf), ", ")))
		l.Def("snaclUnmarshal", "Codec", fmt.Sprintf("⟨\"snacl.Unmarshal\", %d, %v, [%s]⟩", ugl, ug == "!=", strings.Join(itemsOfFixed(uf), ", ")))
		offs := func(fs []symField) string {
			var xs []int
			for _, f := range fs {
				xs = append(xs, f.off.c)
			}
			return leanNatList(xs)
		}
		l.Def("snaclMarshalOffsets", "List Nat", offs(mf))
		l.Def("snaclUnmarshalOffsets", "List Nat", offs(uf))
		// the integer fields are Go `int` (64 bit): Marshal converts with uint64(·), Unmarshal with int(·)
		pt := reflect.TypeOf(snacl.Parameters{})
		intOK := true
		for _, n := range []string{"N", "R", "P"} {
			f, ok := pt.FieldByName(n)
			intOK = intOK && ok && f.Type.Kind() == reflect.Int && f.Type.Size() == 8
		}
		l.Def("snaclIntFieldsAreInt64", "Bool", fmt.Sprint(intOK))
		msg := merr + uerr
		if msg == "" {
			msg = "snacl Marshal / Unmarshal: layout could not be read (fields / total / guard)"
		}
		c.check("kscodec.snacl", merr == "" && uerr == "" && len(mf) == 5 && len(uf) == 5 && mt > 0 && ug == "!=" && intOK, msg)

		// ---------------------------------------------------------------- db.go records
		type tgt struct{ fn, buf string }
		tgts := []tgt{
			{"uint32ToBytes", "buf"}, {"putVersion", "buf"},
			{"serializeAccountRow", "buf"}, {"deserializeAccountRow", "serializedAccount"},
			{"serializeHDAccountKey", "rawData"}, {"deserializeHDAccountKey", "row.rawData"},
			{"putEncryptedPubKey", "key"}, {"fetchEncryptedPubKey", "key"},
		}
		recOK := true
		recMsg := ""
		var allSym []string
		for _, t := range tgts {
			L := c.symLayoutOf(dbgo, t.fn, t.buf, nil)
			if t.fn == "uint32ToBytes" && L.err == "" { // PutUint32(buf, number) writes the whole 4-byte buffer
				for i := range L.fields {
					if L.fields[i].kind == "le" {
						L.fields[i].ln = lin{c: 4}
					}
				}
			}
			items, ierr := L.items()
			if L.err != "" || ierr != "" || len(items) == 0 {
				recOK = false
				recMsg += t.fn + ": " + L.err + ierr + "; "
			}
			l.Def(t.fn+"Sym", "SymLayout", L.lean())
			allSym = append(allSym, t.fn+"Sym")
			l.Def(t.fn, "Codec", fmt.Sprintf("⟨%s, %d, %v, [%s]⟩", leanStr(t.fn), L.minLen, L.guard == "!=", strings.Join(items, ", ")))
		}
		l.Def("allSym", "List SymLayout", "["+strings.Join(allSym, ", ")+"]")
		// readers without a length guard: binary.LittleEndian.Uint32(val) on the stored value
		rd := func(fn, want string) bool { return c.hasSrc(c.Func(dbgo, "", fn), want) }
		u32Readers := rd("fetchAccountUsage", "binary.LittleEndian.Uint32(val)") && rd("fetchCoinType", "binary.LittleEndian.Uint32(val)") &&
			rd("fetchChildNum", "binary.LittleEndian.Uint32(inChildNum)") && rd("fetchChildNum", "binary.LittleEndian.Uint32(exChildNum)") &&
			rd("getChildNum", "binary.LittleEndian.Uint32(childNum)")
		u32Writers := rd("putAccountUsage", "b.Put(accountUsageName, uint32ToBytes(account))") && rd("putCoinType", "b.Put(coinTypeName, uint32ToBytes(coin))") &&
			rd("updateChildNum", "b.Put(key, uint32ToBytes(nextIndex))") && rd("initBranchChildNum", "b.Put(externalChildNumName, uint32ToBytes(0))") &&
			rd("initBranchChildNum", "b.Put(internalChildNumName, uint32ToBytes(0))") && rd("putAccountRow", "b.Put(uint32ToBytes(accountUsage), data)")
		verShape := rd("fetchVersion", "err != nil || len(val) == 0") && rd("fetchVersion", "return val[0], nil") && rd("putVersion", "buf[0] = version")
		idShape := rd("putAccountID", "b.Put(acctAddr0, []byte{0})") && rd("fetchAccountID", "b.GetByPrefix([]byte{})") && rd("fetchEncryptedPubKey", "b.GetByPrefix([]byte{})")
		acctShape := rd("fetchAccountInfo", "case accountMASS: return deserializeHDAccountKey(accountID, row)") &&
			rd("putAccountInfo", "acctRow := dbAccountRow{ acctType: accountMASS, rawData: rawData, }") &&
			rd("putAccountInfo", "rawData := serializeHDAccountKey(encryptedPubKey, encryptedPrivKey)")
		chOrder := rd("fetchChildNum", "return binary.LittleEndian.Uint32(inChildNum), binary.LittleEndian.Uint32(exChildNum), nil") &&
			rd("fetchBranchPubKeys", "return inBrPub, exBrPub, nil")
		acctMASS, okA := c.ConstInt(dbgo, "accountMASS")
		l.Def("accountMASS", "Nat", fmt.Sprint(acctMASS))
		l.Def("u32ReadersShape", "Bool", fmt.Sprint(u32Readers))
		l.Def("u32WritersShape", "Bool", fmt.Sprint(u32Writers))
		l.Def("versionShape", "Bool", fmt.Sprint(verShape))
		l.Def("prefixScanShape", "Bool", fmt.Sprint(idShape))
		l.Def("accountInfoShape", "Bool", fmt.Sprint(acctShape))
		l.Def("internalFirstShape", "Bool", fmt.Sprint(chOrder))
		if !(u32Readers && u32Writers && verShape && idShape && acctShape && chOrder && okA) {
			recOK = false
			recMsg += fmt.Sprintf("statement shapes: u32 readers %v writers %v version %v prefix scans %v account info %v result order %v accountMASS %v",
				u32Readers, u32Writers, verShape, idShape, acctShape, chOrder, okA)
		}
		c.check("kscodec.records", recOK, "keystore/db.go record layouts: "+recMsg)

		// ---------------------------------------------------------------- exported JSON
		const am = "masswallet/keystore/addrmgr.go"
		structFields := func(name string) ([]string, bool) {
			f := c.File(am)
			if f == nil {
				return nil, false
			}
			var out []string
			found := false
			ast.Inspect(f, func(n ast.Node) bool {
				ts, ok := n.(*ast.TypeSpec)
				if !ok || ts.Name.Name != name {
					return true
				}
				st, ok := ts.Type.(*ast.StructType)
				if !ok {
					return false
				}
				found = true
				for _, fl := range st.Fields.List {
					for _, fn := range fl.Names {
						jn, omit := fn.Name, false
						if fl.Tag != nil {
							tag, _ := strconv.Unquote(fl.Tag.Value)
							if v, ok := reflect.StructTag(tag).Lookup("json"); ok {
								parts := strings.Split(v, ",")
								if parts[0] != "" {
									jn = parts[0]
								}
								for _, p := range parts[1:] {
									if p == "omitempty" {
										omit = true
									}
								}
							}
						}
						out = append(out, fmt.Sprintf("(%s, %s, %v, %s)", leanStr(fn.Name), leanStr(jn), omit, leanStr(c.Src(fl.Type))))
					}
				}
				return false
			})
			return out, found
		}
		kf, ok1 := structFields("Keystore")
		cf, ok2 := structFields("cryptoJSON")
		hf, ok3 := structFields("hdPath")
		l.Def("jsonKeystore", "List (String × String × Bool × String)", "["+strings.Join(kf, ", ")+"]")
		l.Def("jsonCrypto", "List (String × String × Bool × String)", "["+strings.Join(cf, ", ")+"]")
		l.Def("jsonHdPath", "List (String × String × Bool × String)", "["+strings.Join(hf, ", ")+"]")
		ex := c.Func(am, "", "export")
		setOK := c.hasSrc(ex, `Version: version`) && c.hasSrc(ex, `Cipher: "Stream cipher"`) && c.hasSrc(ex, `KDF: "scrypt"`) &&
			c.hasSrc(ex, `EntropyEnc: hex.EncodeToString(entropyEncBytes)`) && c.hasSrc(ex, `PrivParams: hex.EncodeToString(privParams)`) &&
			c.hasSrc(ex, `CryptoKeyEntropyEnc: hex.EncodeToString(cEntropyEnc)`) && c.hasSrc(ex, `Purpose: keyscope.Purpose`) &&
			c.hasSrc(ex, `Coin: keyscope.Coin`) && c.hasSrc(ex, `Account: usage`) && c.hasSrc(ex, `ExternalChildNum: externalNum`) &&
			c.hasSrc(ex, `InternalChildNum: internalNum`) && c.hasSrc(ex, `Remarks: string(remarkBytes)`) &&
			c.hasSrc(ex, `internalNum, externalNum, err := fetchChildNum(b)`) && c.hasSrc(ex, `_, privParams, err := fetchMasterKeyParams(b)`) &&
			c.hasSrc(ex, `_, _, cEntropyEnc, err := fetchCryptoKeys(b)`) && c.hasSrc(ex, `entropyEncBytes, err := fetchEntropy(b)`)
		// the order in which export reads the bucket decides which error a damaged bucket reports first
		var order []string
		if ex != nil {
			ast.Inspect(ex.Body, func(n ast.Node) bool {
				if ce, ok := n.(*ast.CallExpr); ok {
					if id, ok := ce.Fun.(*ast.Ident); ok && strings.HasPrefix(id.Name, "fetch") {
						order = append(order, leanStr(id.Name))
					}
				}
				return true
			})
		}
		l.Def("exportReads", "List String", "["+strings.Join(order, ", ")+"]")
		l.Def("exportCipher", "String", leanStr("Stream cipher"))
		l.Def("exportKDF", "String", leanStr("scrypt"))
		l.Def("exportShape", "Bool", fmt.Sprint(setOK))
		al := c.Func("masswallet/keystore/manager.go", "KeystoreManager", "allocAddrMgrNamespace")
		ik := c.Func("masswallet/keystore/manager.go", "KeystoreManager", "ImportKeystore")
		impOK := c.hasSrc(al, `hex.DecodeString(kStore.Crypto.PrivParams)`) && c.hasSrc(al, `hex.DecodeString(kStore.Crypto.CryptoKeyEntropyEnc)`) &&
			c.hasSrc(al, `hex.DecodeString(kStore.Crypto.EntropyEnc)`) && c.hasSrc(al, `version := KeystoreVersion(kStore.Crypto.Version)`) &&
			c.hasSrc(al, `unmarshalMasterPrivKey(&masterKeyPriv, privPassphrase, masterKeyPrivParams)`) &&
			c.hasSrc(al, `putRemark(acctBucket, []byte(kStore.Remarks))`) && c.hasSrc(al, `len(kStore.Remarks) > 0`) &&
			c.hasSrc(ik, `kStore.HDpath.Coin != km.params.HDCoinType`) && c.hasSrc(ik, `kStore.HDpath.Account != uint32(WalletUsage)`) &&
			c.hasSrc(ik, `kStore, err := getKeystoreFromJson(keystoreJson)`)
		l.Def("importShape", "Bool", fmt.Sprint(impOK))
		c.check("kscodec.json", ok1 && ok2 && ok3 && len(kf) == 3 && len(cf) == 9 && len(hf) == 5 && setOK && impOK && len(order) == 7,
			"addrmgr.go / manager.go: Keystore JSON structs, export field assignments or the import decoding steps changed shape")
		l.Write(c, "KsCodec.lean")
	})
}
