package main

// Facts for C17(a): the read-transaction semantics of the ldb driver and the View structure of the
// queries (re-read from the working tree on every run).

import (
	"fmt"
	"go/ast"
	"strings"
)

// isoCallsIn collects the source text of every call's function expression inside n.
func isoCallsIn(c *Ctx, n ast.Node) []string {
	var out []string
	if n == nil {
		return out
	}
	ast.Inspect(n, func(x ast.Node) bool {
		if ce, ok := x.(*ast.CallExpr); ok {
			out = append(out, c.Src(ce.Fun))
		}
		return true
	})
	return out
}

func isoCountSuffix(xs []string, suf string) int {
	n := 0
	for _, x := range xs {
		if strings.HasSuffix(x, suf) {
			n++
		}
	}
	return n
}

// isoViewClosures returns the function literals passed to mwdb.View inside fd.
func isoViewClosures(c *Ctx, fd *ast.FuncDecl) []*ast.FuncLit {
	var out []*ast.FuncLit
	if fd == nil {
		return out
	}
	ast.Inspect(fd.Body, func(x ast.Node) bool {
		ce, ok := x.(*ast.CallExpr)
		if !ok || c.Src(ce.Fun) != "mwdb.View" || len(ce.Args) != 2 {
			return true
		}
		if fl, ok := ce.Args[1].(*ast.FuncLit); ok {
			out = append(out, fl)
		}
		return true
	})
	return out
}

func init() {
	register(func(c *Ctx) {
		l := NewLean("MW.Gen.Iso")
		const drv = "masswallet/db/ldb/leveldb.go"
		f := c.File(drv)
		// 1. read transactions are served from a snapshot taken at BeginReadTx
		begin := c.Func(drv, "LevelDB", "BeginReadTx")
		rollback := c.Func(drv, "transaction", "Rollback")
		takes := begin != nil && isoCountSuffix(isoCallsIn(c, begin.Body), ".GetSnapshot") == 1
		releases := rollback != nil && isoCountSuffix(isoCallsIn(c, rollback.Body), ".Release") >= 1
		// no read of the committed state bypasses the transaction's reader: outside BeginTx/BeginReadTx/
		// Commit/Close/newLevelDB nothing may touch `.ldb.` directly
		direct := 0
		if f != nil {
			for _, d := range f.Decls {
				fd, ok := d.(*ast.FuncDecl)
				if !ok || fd.Body == nil {
					continue
				}
				for _, call := range isoCallsIn(c, fd.Body) {
					if strings.HasSuffix(call, ".ldb.Get") || strings.HasSuffix(call, ".ldb.NewIterator") {
						direct++
					}
				}
			}
		}
		snapshot := takes && releases && direct == 0 && f != nil
		l.Def("readTxSnapshot", "Bool", fmt.Sprint(snapshot))
		l.Def("directLiveReads", "Nat", fmt.Sprint(direct))
		// 2. every query reads the tip height and scans the coins inside ONE View
		type qf struct{ file, name, scan string }
		qs := []qf{
			{"masswallet/wallet.go", "WalletBalance", "utxoStore.WalletBalance"},
			{"masswallet/wallet.go", "AddressBalance", "utxoStore.ScriptAddressBalance"},
			{"masswallet/tx.go", "getUtxos", "utxoStore.ScriptAddressUnspents"},
			{"masswallet/tx.go", "getUtxosExcludeBindingAndStaking", "utxoStore.ScriptAddressUnspents"},
		}
		var rows []string
		allOne := true
		for _, q := range qs {
			fd := c.Func(q.file, "WalletManager", q.name)
			cl := isoViewClosures(c, fd)
			same := false
			if len(cl) == 1 {
				calls := isoCallsIn(c, cl[0].Body)
				same = isoCountSuffix(calls, "syncStore.SyncedTo") == 1 && isoCountSuffix(calls, q.scan) == 1
			}
			if len(cl) != 1 || !same {
				allOne = false
			}
			rows = append(rows, fmt.Sprintf("(%s, %d, %v)", leanStr(q.name), len(cl), same))
		}
		for _, name := range []string{"GetStakingHistory", "GetBindingHistory"} {
			cl := isoViewClosures(c, c.Func("masswallet/wallet.go", "WalletManager", name))
			if len(cl) != 1 {
				allOne = false
			}
			rows = append(rows, fmt.Sprintf("(%s, %d, true)", leanStr(name), len(cl)))
		}
		l.Raw("/-- (query, number of mwdb.View calls, tip height and coin scan are in the same View) -/")
		l.Def("queryViews", "List (String × Nat × Bool)", "["+strings.Join(rows, ", ")+"]")
		// 3. the confirmation arithmetic is the unsigned expression the model uses
		bal := c.Func("masswallet/txmgr/utxostore.go", "UtxoStore", "ScriptAddressBalance")
		uns := c.Func("masswallet/txmgr/utxostore.go", "UtxoStore", "ScriptAddressUnspents")
		confsBal := bal != nil && strings.Contains(c.Src(bal.Body), "confs := syncHeight - cred.block.Height + 1")
		confsUns := uns != nil && strings.Contains(c.Src(uns.Body), "uint32(syncHeight - block.Height + 1)")
		l.Def("confsUnsigned", "Bool", fmt.Sprint(confsBal && confsUns))
		l.Write(c, "Iso.lean")
		c.check("iso.readTxSnapshot", snapshot, fmt.Sprintf("ldb read transactions are not snapshot-backed (GetSnapshot in BeginReadTx: %v, Release in Rollback: %v, direct live reads: %d)", takes, releases, direct))
		c.check("iso.queriesSingleView", allOne, "a balance / coin-list / selection query no longer reads the tip height and the coins inside one View: "+strings.Join(rows, " "))
		c.check("iso.confsUnsigned", confsBal && confsUns, "confirmation arithmetic in utxostore.go changed shape; the model's `confs` must be re-checked")
	})
}
