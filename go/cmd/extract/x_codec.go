package main

// Facts for the byte-level codecs of the wallet buckets (C01 / C08 / C09 / C10): every key / value builder AND
// every reader of masswallet/txmgr/{utxostore_db,txstore_db,syncstore_db,syncstore,type}.go  →
// lean/MW/Gen/Codec.lean.  For one byte-slice variable of one function the walker collects, from the statements
// that exist today,
//   * the allocated size (make([]byte, N)) or the length guard of a reader (len(v) < N / len(v) != N),
//   * every span written (copy(v[a:b], …), binary.BigEndian.PutUintNN(v[a:b], …), v[i] = …) or read
//     (binary.BigEndian.UintNN(v[a:b]), copy(…, v[a:b]), v[a:b] as a value, v[i]),
//   * every flag bit set / cleared / tested (v[i] |= 1<<k, v[i] = 1, v[i] &^= 1<<k, v[i]&(1<<k) != 0,
//     (v[i] & (m<<s)) >> s).
// The Lean codecs (MW.Model.TxmgrCodec) are DEFINED from these tables; the theorems of MW.Lemmas.TxmgrCodec* are
// re-checked against whatever the source says now.  A function that no longer yields a table is a broken fact.

import (
	"fmt"
	"go/ast"
	"go/token"
	"regexp"
	"sort"
	"strconv"
	"strings"
)

type cSpan struct {
	name     string
	off, len int    // len 0 = open tail
	kind     string // bytes | uint | byte
	order    int    // statement order
}

type cBit struct {
	name        string
	off         int
	bit         int // bit number (shift for a bit field)
	mask        int // 1 for a single bit; the mask after the shift for a bit field
	set         bool
	order       int
}

type cRec struct {
	fn    string
	v     string
	write bool
	size  int  // writer: allocated size, 0 = variable; reader: length the guard asks for, 0 = none
	exact bool // reader: the guard is `!=`
	spans []cSpan
	bits  []cBit
}

type cTarget struct {
	file, recv, fn, v string
	write             bool
	alias             []string // further names of the same slice (newv := make…; v = newv)
	rw                bool     // a writer whose reads of the slice are recorded too
}

func cleanName(s string) string {
	s = strings.TrimSpace(s)
	for _, p := range []string{"[]byte(", "uint64(", "uint32(", "int64(", "int(", "byte("} {
		if strings.HasPrefix(s, p) && strings.HasSuffix(s, ")") {
			s = s[len(p) : len(s)-1]
		}
	}
	s = strings.NewReplacer("[:]", "", "&", "", "*", "", ".Unix()", "", ".UintValue()", "", "\n", " ", "\t", "").Replace(s)
	return strings.TrimSpace(s)
}

// extractCodec walks function t.fn and returns the table of accesses to the slice t.v.
func extractCodec(c *Ctx, t cTarget) (*cRec, string) {
	fd := c.Func(t.file, t.recv, t.fn)
	if fd == nil || fd.Body == nil {
		return nil, "function not found"
	}
	isV := func(e ast.Expr) bool {
		s := c.Src(e)
		if s == t.v {
			return true
		}
		for _, a := range t.alias {
			if s == a {
				return true
			}
		}
		return false
	}
	env := map[string]int{"wire.HashSize": 32}
	lenOf := map[string]bool{} // identifiers bound to len(v)
	// xLen := len(v) / len(x.walletId)   and   xLen != N guards
	ast.Inspect(fd.Body, func(n ast.Node) bool {
		if as, ok := n.(*ast.AssignStmt); ok && len(as.Lhs) == 1 && len(as.Rhs) == 1 {
			if id, ok := as.Lhs[0].(*ast.Ident); ok {
				if call, ok := as.Rhs[0].(*ast.CallExpr); ok && c.Src(call.Fun) == "len" && len(call.Args) == 1 {
					if isV(call.Args[0]) {
						lenOf[id.Name] = true
					}
				}
			}
		}
		return true
	})
	ast.Inspect(fd.Body, func(n ast.Node) bool {
		if as, ok := n.(*ast.AssignStmt); ok && as.Tok == token.DEFINE && len(as.Lhs) == 1 && len(as.Rhs) == 1 {
			if id, ok := as.Lhs[0].(*ast.Ident); ok {
				if bl, ok := as.Rhs[0].(*ast.BasicLit); ok && bl.Kind == token.INT {
					if k, err := strconv.Atoi(bl.Value); err == nil {
						if _, seen := env[id.Name]; !seen {
							env[id.Name] = k
						}
					}
				}
			}
		}
		if be, ok := n.(*ast.BinaryExpr); ok && be.Op == token.NEQ {
			if id, ok := be.X.(*ast.Ident); ok {
				if bl, ok := be.Y.(*ast.BasicLit); ok {
					if k, err := strconv.Atoi(bl.Value); err == nil {
						env[id.Name] = k
					}
				}
			}
		}
		return true
	})
	var eval func(e ast.Expr) (int, bool)
	eval = func(e ast.Expr) (int, bool) {
		switch x := e.(type) {
		case *ast.BasicLit:
			k, err := strconv.ParseInt(x.Value, 0, 64)
			return int(k), err == nil
		case *ast.Ident:
			k, ok := env[x.Name]
			return k, ok
		case *ast.SelectorExpr:
			k, ok := env[c.Src(x)]
			return k, ok
		case *ast.ParenExpr:
			return eval(x.X)
		case *ast.BinaryExpr:
			a, ok1 := eval(x.X)
			b, ok2 := eval(x.Y)
			if ok1 && ok2 {
				switch x.Op {
				case token.ADD:
					return a + b, true
				case token.SUB:
					return a - b, true
				case token.MUL:
					return a * b, true
				case token.SHL:
					return a << uint(b), true
				}
			}
		}
		return 0, false
	}
	r := &cRec{fn: t.fn, v: t.v, write: t.write, size: -1}
	bad := ""
	order := 0
	// bounds of `v`, `v[a:b]`, `v[a:]`, `v[:b]`
	bounds := func(e ast.Expr) (ok bool, lo, ln int) {
		if isV(e) {
			return true, 0, 0
		}
		if se, isS := e.(*ast.SliceExpr); isS && isV(se.X) {
			lo = 0
			if se.Low != nil {
				k, o := eval(se.Low)
				if !o {
					bad = "slice bound not constant: " + c.Src(e)
					return false, 0, 0
				}
				lo = k
			}
			if se.High != nil {
				k, o := eval(se.High)
				if !o {
					bad = "slice bound not constant: " + c.Src(e)
					return false, 0, 0
				}
				return true, lo, k - lo
			}
			return true, lo, 0
		}
		return false, 0, 0
	}
	widthOfSrc := func(e ast.Expr) int {
		// a source that is itself a constant slice x[a:b]
		if se, ok := e.(*ast.SliceExpr); ok && se.High != nil {
			hi, o1 := eval(se.High)
			lo := 0
			o2 := true
			if se.Low != nil {
				lo, o2 = eval(se.Low)
			}
			if o1 && o2 {
				return hi - lo
			}
		}
		ls := strings.ToLower(c.Src(e))
		switch {
		case strings.Contains(ls, "walletid"):
			return 42
		case strings.Contains(ls, "hash") || strings.Contains(ls, "txsha"):
			return 32
		}
		return 0
	}
	inWrite := false
	addSpan := func(name string, off, ln int, kind string) {
		if t.write && !t.rw && !inWrite {
			return // a read inside a writer
		}
		for _, s := range r.spans {
			if s.off == off && s.len == ln {
				return
			}
		}
		order++
		r.spans = append(r.spans, cSpan{cleanName(name), off, ln, kind, order})
	}
	addW := func(name string, off, ln int, kind string) {
		inWrite = true
		addSpan(name, off, ln, kind)
		inWrite = false
	}
	addBit := func(name string, off, bit, mask int, set bool) {
		order++
		r.bits = append(r.bits, cBit{cleanName(name), off, bit, mask, set, order})
	}
	// 1 << k, (1 << k), k literal
	shiftOf := func(e ast.Expr) (bit int, ok bool) {
		for {
			if p, isP := e.(*ast.ParenExpr); isP {
				e = p.X
			} else {
				break
			}
		}
		if be, isB := e.(*ast.BinaryExpr); isB && be.Op == token.SHL {
			a, o1 := eval(be.X)
			b, o2 := eval(be.Y)
			if o1 && o2 && a == 1 {
				return b, true
			}
		}
		return 0, false
	}
	// the enclosing if-condition of a statement, for naming flag bits
	var condStack []string
	// name of what a read flows into
	var walkExpr func(e ast.Expr, into string)
	walkExpr = func(e ast.Expr, into string) {
		if e == nil {
			return
		}
		switch x := e.(type) {
		case *ast.CallExpr:
			fun := c.Src(x.Fun)
			switch {
			case fun == "copy" && len(x.Args) == 2:
				if ok, lo, ln := bounds(x.Args[0]); ok {
					if !t.write {
						bad = "reader writes into its input: " + c.Src(x)
					}
					if ok2, _, _ := bounds(x.Args[1]); ok2 && isV(x.Args[1]) {
						// copy(newv, v): the old value carried over
						if k, o := eval(ast.NewIdent(firstLenIdent(lenOf))); o {
							addW("old", lo, k, "bytes")
						} else {
							addW("old", lo, 0, "bytes")
						}
						return
					}
					if ln == 0 {
						if se, isS := x.Args[0].(*ast.SliceExpr); !(isS && se.High == nil && se.Low != nil) {
							ln = widthOfSrc(x.Args[1])
							if ln == 0 && isV(x.Args[0]) && r.size > 0 {
								ln = r.size // copy(v, src) into a slice of known size: at most the whole of it
							}
							if ln == 0 {
								bad = "copy without bounds from a source of unknown width: " + c.Src(x)
							}
						}
					}
					addW(c.Src(x.Args[1]), lo, ln, "bytes")
					return
				}
				if ok, lo, ln := bounds(x.Args[1]); ok {
					if ln == 0 && !isV(x.Args[1]) {
						// copy(dst, v[a:]) : as many bytes as dst takes
						ln = widthOfSrc(x.Args[0])
					} else if ln == 0 {
						ln = widthOfSrc(x.Args[0])
					}
					addSpan(c.Src(x.Args[0]), lo, ln, "bytes")
					return
				}
			case strings.HasPrefix(fun, "binary.BigEndian.PutUint") && len(x.Args) == 2:
				if ok, lo, ln := bounds(x.Args[0]); ok {
					bits, _ := strconv.Atoi(strings.TrimPrefix(fun, "binary.BigEndian.PutUint"))
					if ln != 0 && ln != bits/8 {
						bad = fmt.Sprintf("PutUint%d into %d bytes", bits, ln)
					}
					if !t.write {
						bad = "reader writes into its input: " + c.Src(x)
					}
					addW(c.Src(x.Args[1]), lo, bits/8, "uint")
					return
				}
			case strings.HasPrefix(fun, "binary.BigEndian.Uint") && len(x.Args) == 1:
				if ok, lo, ln := bounds(x.Args[0]); ok {
					bits, _ := strconv.Atoi(strings.TrimPrefix(fun, "binary.BigEndian.Uint"))
					if ln != 0 && ln != bits/8 {
						bad = fmt.Sprintf("Uint%d from %d bytes", bits, ln)
					}
					addSpan(into, lo, bits/8, "uint")
					return
				}
			case fun == "len" || fun == "make":
				return
			}
			for _, a := range x.Args {
				walkExpr(a, into)
			}
			walkExpr(x.Fun, into)
		case *ast.SliceExpr:
			if ok, lo, ln := bounds(x); ok && !isV(x) {
				addSpan(into, lo, ln, "bytes")
				return
			}
			walkExpr(x.X, into)
		case *ast.BinaryExpr:
			// (v[i] & (m << s)) >> s
			if x.Op == token.SHR {
				if inner, isB := unparen(x.X).(*ast.BinaryExpr); isB && inner.Op == token.AND {
					if ix, isI := inner.X.(*ast.IndexExpr); isI && isV(ix.X) {
						off, o1 := eval(ix.Index)
						sh, o2 := eval(x.Y)
						m, o3 := eval(inner.Y)
						if o1 && o2 && o3 {
							addBit(into, off, sh, m>>uint(sh), false)
							addSpan(fmt.Sprintf("flag%d", off), off, 1, "byte")
							return
						}
					}
				}
			}
			// v[i] & (1<<k)   (… != 0 around it)
			if x.Op == token.AND {
				if ix, isI := x.X.(*ast.IndexExpr); isI && isV(ix.X) {
					off, o1 := eval(ix.Index)
					bit, o2 := shiftOf(x.Y)
					if o1 && o2 {
						addBit(into, off, bit, 1, false)
						addSpan(fmt.Sprintf("flag%d", off), off, 1, "byte")
						return
					}
				}
			}
			walkExpr(x.X, into)
			walkExpr(x.Y, into)
		case *ast.ParenExpr:
			walkExpr(x.X, into)
		case *ast.UnaryExpr:
			walkExpr(x.X, into)
		case *ast.IndexExpr:
			if isV(x.X) {
				if off, o := eval(x.Index); o {
					addSpan(into, off, 1, "byte")
					return
				}
				bad = "index not constant: " + c.Src(x)
			}
			walkExpr(x.X, into)
		case *ast.CompositeLit:
			for _, el := range x.Elts {
				if kv, ok := el.(*ast.KeyValueExpr); ok {
					walkExpr(kv.Value, c.Src(kv.Key))
				} else {
					walkExpr(el, into)
				}
			}
		case *ast.StarExpr:
			walkExpr(x.X, into)
		case *ast.SelectorExpr:
			walkExpr(x.X, into)
		case *ast.KeyValueExpr:
			walkExpr(x.Value, c.Src(x.Key))
		}
	}
	var walk func(list []ast.Stmt)
	walkStmt := func(st ast.Stmt) {}
	walkStmt = func(st ast.Stmt) {
		switch s := st.(type) {
		case *ast.AssignStmt:
			if len(s.Lhs) >= 1 && len(s.Rhs) == 1 {
				// v := make([]byte, N)
				if call, ok := s.Rhs[0].(*ast.CallExpr); ok && c.Src(call.Fun) == "make" && len(call.Args) >= 2 && isV(s.Lhs[0]) {
					if k, ok := eval(call.Args[1]); ok {
						if r.size >= 0 && r.size != k {
							// two allocations of different sizes (if / else): keep both as a variable-size record
							r.size = 0
						} else {
							r.size = k
						}
					} else {
						r.size = 0
					}
					return
				}
				// v[i] op= rhs
				if ix, ok := s.Lhs[0].(*ast.IndexExpr); ok && isV(ix.X) {
					off, o := eval(ix.Index)
					if !o {
						bad = "index not constant: " + c.Src(ix)
						return
					}
					if !t.write {
						bad = "reader writes into its input: " + c.Src(s)
					}
					cond := ""
					if len(condStack) > 0 {
						cond = condStack[len(condStack)-1]
					}
					bit, isShift := shiftOf(s.Rhs[0])
					lit, isLit := eval(s.Rhs[0])
					switch {
					case s.Tok == token.OR_ASSIGN && isShift:
						addBit(condOr(cond, "set"), off, bit, 1, true)
					case s.Tok == token.AND_NOT_ASSIGN && isShift:
						addBit(condOr(cond, "clear"), off, bit, 1, false)
					case s.Tok == token.ASSIGN && isShift:
						addBit(condOr(cond, "set"), off, bit, 1, true)
					case s.Tok == token.ASSIGN && isLit && lit == 1 && cond != "":
						addBit(cond, off, 0, 1, true)
					case s.Tok == token.ASSIGN && isLit && lit == 0:
						// explicit zero: the byte stays a (constant) field
					case s.Tok == token.ASSIGN:
						addW(c.Src(s.Rhs[0]), off, 1, "byte")
						return
					default:
						bad = "unrecognised byte update: " + c.Src(s)
					}
					addW(fmt.Sprintf("flag%d", off), off, 1, "byte")
					return
				}
			}
			into := ""
			if len(s.Lhs) >= 1 {
				into = c.Src(s.Lhs[0])
			}
			for _, e := range s.Rhs {
				walkExpr(e, into)
			}
		case *ast.ExprStmt:
			walkExpr(s.X, "")
		case *ast.ReturnStmt:
			for i, e := range s.Results {
				walkExpr(e, fmt.Sprintf("ret%d", i))
			}
		case *ast.IfStmt:
			if s.Init != nil {
				walkStmt(s.Init)
			}
			// length guards
			ast.Inspect(s.Cond, func(n ast.Node) bool {
				be, ok := n.(*ast.BinaryExpr)
				if !ok || (be.Op != token.LSS && be.Op != token.NEQ) {
					return true
				}
				isLen := false
				if call, ok := be.X.(*ast.CallExpr); ok && c.Src(call.Fun) == "len" && len(call.Args) == 1 && isV(call.Args[0]) {
					isLen = true
				}
				if id, ok := be.X.(*ast.Ident); ok && lenOf[id.Name] {
					isLen = true
				}
				if isLen {
					if k, ok := eval(be.Y); ok && !t.write {
						if k > r.size {
							r.size = k
							r.exact = be.Op == token.NEQ
						}
					}
				}
				return true
			})
			walkExpr(s.Cond, "cond")
			condStack = append(condStack, c.Src(s.Cond))
			walk(s.Body.List)
			condStack = condStack[:len(condStack)-1]
			if s.Else != nil {
				condStack = append(condStack, "!("+c.Src(s.Cond)+")")
				switch e := s.Else.(type) {
				case *ast.BlockStmt:
					walk(e.List)
				case *ast.IfStmt:
					walkStmt(e)
				}
				condStack = condStack[:len(condStack)-1]
			}
		case *ast.ForStmt:
			if s.Init != nil {
				walkStmt(s.Init)
			}
			walkExpr(s.Cond, "cond")
			walk(s.Body.List)
		case *ast.RangeStmt:
			walk(s.Body.List)
		case *ast.SwitchStmt:
			if s.Init != nil {
				walkStmt(s.Init)
			}
			walkExpr(s.Tag, "switch")
			for _, cc := range s.Body.List {
				walk(cc.(*ast.CaseClause).Body)
			}
		case *ast.BlockStmt:
			walk(s.List)
		case *ast.DeclStmt:
		}
	}
	walk = func(list []ast.Stmt) {
		for _, st := range list {
			walkStmt(st)
		}
	}
	walk(fd.Body.List)
	if bad != "" {
		return nil, bad
	}
	if t.write && r.size < 0 && !t.rw {
		return nil, "no make([]byte, N) for " + t.v
	}
	if r.size < 0 {
		r.size = 0
	}
	if len(r.spans) == 0 && r.size == 0 {
		return nil, "no access to " + t.v + " found"
	}
	sort.SliceStable(r.spans, func(i, j int) bool {
		if r.spans[i].off != r.spans[j].off {
			return r.spans[i].off < r.spans[j].off
		}
		return r.spans[i].order < r.spans[j].order
	})
	return r, ""
}

func unparen(e ast.Expr) ast.Expr {
	for {
		p, ok := e.(*ast.ParenExpr)
		if !ok {
			return e
		}
		e = p.X
	}
}

func condOr(cond, dflt string) string {
	if cond == "" {
		return dflt
	}
	return cond
}

func firstLenIdent(m map[string]bool) string {
	var ks []string
	for k := range m {
		ks = append(ks, k)
	}
	sort.Strings(ks)
	if len(ks) == 0 {
		return ""
	}
	return ks[0]
}

func init() {
	register(func(c *Ctx) {
		lf := NewLean("MW.Gen.Codec")
		lf.Raw("inductive Kind | bytes | uint | byte\n  deriving DecidableEq, Repr")
		lf.Raw("structure Span where\n  name : String\n  off : Nat\n  len : Nat          -- 0 = open tail\n  kind : Kind\n  deriving DecidableEq, Repr")
		lf.Raw("structure Bit where\n  name : String\n  off : Nat          -- byte offset\n  bit : Nat          -- bit number (shift of a bit field)\n  mask : Nat         -- 1 = single bit; mask of a bit field after the shift\n  set : Bool         -- writer: true = set, false = clear; reader: false\n  deriving DecidableEq, Repr")
		lf.Raw("structure Rec where\n  fn : String\n  var : String\n  write : Bool\n  size : Nat         -- writer: allocated size (0 = variable); reader: length asked for by the guard (0 = none)\n  exact : Bool       -- reader: the guard is `!=`\n  spans : List Span  -- ascending offsets\n  bits : List Bit    -- statement order\n  deriving DecidableEq, Repr")
		const U, T, S, SS, TY = "masswallet/txmgr/utxostore_db.go", "masswallet/txmgr/txstore_db.go", "masswallet/txmgr/syncstore_db.go", "masswallet/txmgr/syncstore.go", "masswallet/txmgr/type.go"
		targets := []struct {
			name string
			t    cTarget
		}{
			// ---- writers
			{"wCanonicalOutPoint", cTarget{U, "", "canonicalOutPoint", "k", true, nil, false}},
			{"wCanonicalUnspentKey", cTarget{U, "", "canonicalUnspentKey", "k", true, nil, false}},
			{"wExistsRawUnspentCredKey", cTarget{U, "", "existsRawUnspent", "credKey", true, nil, false}},
			{"wKeyCredit", cTarget{U, "", "keyCredit", "k", true, nil, false}},
			{"wValueUnspentCredit", cTarget{U, "", "valueUnspentCredit", "v", true, nil, false}},
			{"wValueUnminedCredit", cTarget{U, "", "valueUnminedCredit", "v", true, nil, false}},
			{"wCreditPrefixHeight", cTarget{U, "", "getCreditsByTxHashHeight", "prefix", true, nil, false}},
			{"wSpendCredit", cTarget{U, "", "spendCredit", "v", true, []string{"newv"}, false}},
			{"wUnspendRawCredit", cTarget{U, "", "unspendRawCredit", "newv", true, nil, false}},
			{"wPutMinedBalance", cTarget{U, "", "putMinedBalance", "v", true, nil, false}},
			{"wKeyDebit", cTarget{U, "", "keyDebit", "k", true, nil, false}},
			{"wPutDebit", cTarget{U, "", "putDebit", "v", true, nil, false}},
			{"wValueUnspent", cTarget{U, "", "valueUnspent", "v", true, nil, false}},
			{"wKeyAddressRecord", cTarget{U, "", "keyAddressRecord", "k", true, nil, false}},
			{"wValueAddressRecord", cTarget{U, "", "valueAddressRecord", "v", true, nil, false}},
			{"wKeyGameHistory", cTarget{U, "", "keyGameHistory", "k", true, nil, false}},
			{"wKeyUnminedGameHistory", cTarget{U, "", "keyUnminedGameHistory", "k", true, nil, false}},
			{"wGameHistoryPrefix", cTarget{U, "", "getRawGameHistoryByWalletId", "prefix", true, nil, false}},
			{"wValueUnmined", cTarget{T, "", "valueUnmined", "v", true, nil, false}},
			{"wKeyTxRecord", cTarget{T, "", "keyTxRecord", "k", true, nil, false}},
			{"wPutTxRecord", cTarget{T, "", "putTxRecord", "buf", true, nil, false}},
			{"wTxRecordPrefixHeight", cTarget{T, "", "fetchRawTxRecordByTxHashHeight", "prefix", true, nil, false}},
			{"wTxRecordPrefixHeight2", cTarget{T, "", "fetchRawTxRecordByHashHeight", "prefix", true, nil, false}},
			{"wKeyBlockRecord", cTarget{T, "", "keyBlockRecord", "k", true, nil, false}},
			{"wValueBlockRecord", cTarget{T, "", "valueBlockRecord", "v", true, nil, false}},
			{"wSyncedKey", cTarget{S, "", "putSyncedBucket", "k", true, nil, false}},
			{"wSyncedValue", cTarget{S, "", "putSyncedBucket", "v", true, nil, false}},
			{"wFetchSyncedKey", cTarget{S, "", "fetchSyncedBlock", "k", true, nil, false}},
			{"wSyncedToValue", cTarget{S, "", "putSyncedTo", "v", true, nil, false}},
			{"wResetSyncedKey", cTarget{S, "", "resetSyncedTo", "k", true, nil, false}},
			{"wWalletStatus", cTarget{SS, "SyncStore", "PutWalletStatus", "v", true, nil, false}},
			{"wCreditHash", cTarget{TY, "Credit", "Hash", "k", true, nil, false}},
			{"wDebitHash", cTarget{TY, "Debit", "Hash", "k", true, nil, false}},
			// ---- readers
			{"rCanonicalUnspentKey", cTarget{U, "", "readCanonicalUnspentKey", "k", false, nil, false}},
			{"rExistsRawUnspentKey", cTarget{U, "", "existsRawUnspent", "k", false, nil, false}},
			{"rCreditValue", cTarget{U, "", "readCreditValue", "v", false, nil, false}},
			{"rRawCreditKey", cTarget{U, "", "readRawCreditKey", "k", false, nil, false}},
			{"rUnminedCreditKey", cTarget{U, "", "readUnminedCreditKey", "k", false, nil, false}},
			{"rUnminedCreditFromMined", cTarget{U, "", "valueUnminedCreditFromMined", "credValue", false, nil, false}},
			{"rCreditSpender", cTarget{U, "", "readCreditSpender", "credValue", false, nil, false}},
			{"rCreditKeyIndex", cTarget{U, "", "getCreditsByTxHashHeight", "entry.Key", false, nil, false}},
			{"rCreditKeyIndexHeight", cTarget{U, "", "getLastCreditByTxHashIndexTillHeight", "entry.Key", false, nil, false}},
			{"rExistsDebit", cTarget{U, "", "existsDebit", "v", false, nil, false}},
			{"rTxRecordKeyFromCreditKey", cTarget{U, "", "fetchTxRecordKeyFromRawCreditKey", "k", false, nil, false}},
			{"rCreditAmountSpent", cTarget{U, "", "fetchRawCreditAmountSpent", "v", false, nil, false}},
			{"rCreditMaturityScriptHash", cTarget{U, "", "fetchRawCreditMaturityScriptHash", "v", false, nil, false}},
			{"rUnspentValueFromCreditKey", cTarget{U, "", "fetchNsUnspentValueFromRawCredit", "k", false, nil, false}},
			{"rBlockOfUnspent", cTarget{U, "", "readBlockOfUnspent", "v", false, nil, false}},
			{"rAddressHeight", cTarget{U, "", "readAddressHeight", "v", false, nil, false}},
			{"rAddressKey", cTarget{U, "", "fetchAddressesByWalletId", "entry.Key", false, nil, false}},
			{"rAddressValue", cTarget{U, "", "fetchAddressesByWalletId", "entry.Value", false, nil, false}},
			{"rGameHistory", cTarget{U, "", "readGameHistory", "k", false, nil, false}},
			{"rTxRecordLoc", cTarget{T, "", "readTxRecordLoc", "v", false, nil, false}},
			{"rTxRecordKey", cTarget{T, "", "readTxRecordKey", "k", false, nil, false}},
			{"rTxRecordKeyHeight", cTarget{T, "", "fetchLatestRawTxRecordOfHash", "entry.Key", false, nil, false}},
			{"rRawUnmined", cTarget{T, "", "readRawUnmined", "v", false, nil, false}},
			{"wAppendBlockRecord", cTarget{T, "", "appendRawBlockRecord", "newv", true, nil, true}},
			{"rBlockHashFromValue", cTarget{T, "", "readBlockHashFromValue", "v", false, nil, false}},
			{"rBlockRecordKey", cTarget{T, "", "readRawBlockRecord", "k", false, nil, false}},
			{"rBlockRecordValue", cTarget{T, "", "readRawBlockRecord", "v", false, nil, false}},
			{"rSyncedValue", cTarget{S, "", "fetchSyncedBlock", "v", false, nil, false}},
			{"rSyncedToValue", cTarget{S, "", "fetchSyncedTo", "v", false, nil, false}},
			{"rResetSyncedValue", cTarget{S, "", "resetSyncedTo", "v", false, nil, false}},
			{"rWalletStatusKey", cTarget{S, "", "readWalletStatus", "k", false, nil, false}},
			{"rWalletStatusValue", cTarget{S, "", "readWalletStatus", "v", false, nil, false}},
		}
		kinds := map[string]string{"bytes": ".bytes", "uint": ".uint", "byte": ".byte"}
		var names []string
		for _, tg := range targets {
			r, bad := extractCodec(c, tg.t)
			fact := "codec." + tg.name
			if r == nil {
				c.fail(fact, bad)
				continue
			}
			c.ok(fact)
			var sp, bs []string
			for _, s := range r.spans {
				sp = append(sp, fmt.Sprintf("⟨%s, %d, %d, %s⟩", leanStr(s.name), s.off, s.len, kinds[s.kind]))
			}
			for _, b := range r.bits {
				bs = append(bs, fmt.Sprintf("⟨%s, %d, %d, %d, %v⟩", leanStr(b.name), b.off, b.bit, b.mask, b.set))
			}
			lf.Def(tg.name, "Rec", fmt.Sprintf("⟨%s, %s, %v, %d, %v,\n  [%s],\n  [%s]⟩", leanStr(tg.t.fn), leanStr(tg.t.v), r.write, r.size, r.exact,
				strings.Join(sp, ", "), strings.Join(bs, ", ")))
			names = append(names, tg.name)
		}
		lf.Def("all", "List Rec", "["+strings.Join(names, ", ")+"]")

		// ---- the two allocation sizes of the game-history prefix (with / without the `withdrawn` byte)
		{
			fd := c.Func(U, "", "getRawGameHistoryByWalletId")
			var sizes []int
			if fd != nil {
				ast.Inspect(fd.Body, func(n ast.Node) bool {
					if as, ok := n.(*ast.AssignStmt); ok && len(as.Lhs) == 1 && len(as.Rhs) == 1 && c.Src(as.Lhs[0]) == "prefix" {
						if call, ok := as.Rhs[0].(*ast.CallExpr); ok && c.Src(call.Fun) == "make" && len(call.Args) == 2 {
							if bl, ok := call.Args[1].(*ast.BasicLit); ok {
								k, _ := strconv.Atoi(bl.Value)
								sizes = append(sizes, k)
							}
						}
					}
					return true
				})
			}
			src := ""
			if fd != nil {
				src = c.Src(fd.Body)
			}
			okp := len(sizes) == 2 && strings.Contains(src, "if excludeWithdrawn") && strings.Contains(src, "ns.GetByPrefix(prefix)")
			c.check("codec.gameHistoryPrefixSizes", okp, "getRawGameHistoryByWalletId no longer allocates its prefix in an if excludeWithdrawn / else pair")
			if len(sizes) == 2 {
				lf.Def("gameHistoryPrefixSizeExcl", "Nat", fmt.Sprint(sizes[0]))
				lf.Def("gameHistoryPrefixSizeAll", "Nat", fmt.Sprint(sizes[1]))
			} else {
				lf.Def("gameHistoryPrefixSizeExcl", "Nat", "0")
				lf.Def("gameHistoryPrefixSizeAll", "Nat", "0")
			}
		}

		// ---- which scans go through GetByPrefix with which prefix expression
		scans := []struct{ file, recv, fn, arg string }{
			{U, "", "getCreditsByTxHash", "txsha[:]"},
			{U, "", "getCreditsByTxHashHeight", "prefix"},
			{U, "", "getLastCreditByTxHashIndexTillHeight", "txsha[:]"},
			{U, "", "fetchAddressesByWalletId", "[]byte(walletId)"},
			{U, "", "getRawGameHistoryByWalletId", "prefix"},
			{U, "", "deleteByPrefix", "prefix"},
			{T, "", "fetchRawTxRecordByTxHashHeight", "prefix"},
			{T, "", "fetchRawTxRecordByHashHeight", "prefix"},
			{T, "", "fetchLatestRawTxRecordOfHash", "txHash[:]"},
		}
		oks := true
		var sl []string
		for _, s := range scans {
			fd := c.Func(s.file, s.recv, s.fn)
			if fd == nil || !strings.Contains(c.Src(fd.Body), "GetByPrefix("+s.arg+")") {
				oks = false
				continue
			}
			sl = append(sl, fmt.Sprintf("(%s, %s)", leanStr(s.fn), leanStr(s.arg)))
		}
		lf.Def("prefixScans", "List (String × String)", "["+strings.Join(sl, ", ")+"]")
		c.check("codec.prefixScans", oks, "a prefix scan of txmgr no longer calls GetByPrefix with the expected prefix expression")

		// ---- constants of the value layouts
		// the class switch of readCreditValue: case 0 / 1 / 2 ↦ standard / staking / binding, default error
		{
			fd := c.Func(U, "", "readCreditValue")
			var cases []string
			if fd != nil {
				ast.Inspect(fd.Body, func(n ast.Node) bool {
					if sw, ok := n.(*ast.SwitchStmt); ok && c.Src(sw.Tag) == "f" {
						for _, cc := range sw.Body.List {
							cl := cc.(*ast.CaseClause)
							if len(cl.List) == 1 && len(cl.Body) == 1 {
								if as, ok := cl.Body[0].(*ast.AssignStmt); ok {
									cases = append(cases, fmt.Sprintf("(%s, %s)", c.Src(cl.List[0]), leanStr(c.Src(as.Rhs[0]))))
								}
							} else if len(cl.List) == 0 {
								if _, ok := cl.Body[0].(*ast.ReturnStmt); ok {
									cases = append(cases, "(255, \"error\")")
								}
							}
						}
					}
					return true
				})
			}
			lf.Def("creditClassSwitch", "List (Nat × String)", "["+strings.Join(cases, ", ")+"]")
			c.check("codec.creditClassSwitch", len(cases) == 4, "readCreditValue no longer switches over three classes and an error default")
		}
		// UtxoClass constants
		{
			var cl []string
			okc := true
			for _, n := range []string{"ClassStandardUtxo", "ClassStakingUtxo", "ClassBindingUtxo"} {
				v, ok := c.ConstInt(TY, n)
				if !ok {
					okc = false
				}
				cl = append(cl, fmt.Sprintf("(%s, %d)", leanStr(n), v))
			}
			lf.Def("utxoClasses", "List (String × Nat)", "["+strings.Join(cl, ", ")+"]")
			c.check("codec.utxoClasses", okc, "UtxoClass constants not found")
			v, ok := c.ConstInt(TY, "WalletFlagsRemove")
			c.check("codec.walletFlagsRemove", ok, "WalletFlagsRemove not found")
			lf.Def("walletFlagsRemove", "Nat", fmt.Sprint(v))
			// gameStaking / gameBinding are iota constants 0, 1
			f := c.File(TY)
			src := ""
			if f != nil {
				src = c.Src(f)
			}
			c.check("codec.gameType", regexp.MustCompile(`gameStaking\s+gameType\s*=\s*iota\s*\n\s*gameBinding\s*\n`).MatchString(src), "gameType constants changed")
			lf.Def("gameStaking", "Nat", "0")
			lf.Def("gameBinding", "Nat", "1")
		}
		// appendRawBlockRecord: the old value, the 32 bytes of the hash appended, the count at [40:44] incremented;
		// readRawBlockRecord walks the hashes with a stride of wire.HashSize starting at 44
		{
			ab := c.Func(T, "", "appendRawBlockRecord")
			rb := c.Func(T, "", "readRawBlockRecord")
			oka := ab != nil && rb != nil && strings.Contains(c.Src(ab.Body), "append(v[:len(v):len(v)], txHash[:]...)") &&
				strings.Contains(c.Src(ab.Body), "binary.BigEndian.PutUint32(newv[40:44], n+1)") &&
				strings.Contains(c.Src(rb.Body), "off := 44") && strings.Contains(c.Src(rb.Body), "off += wire.HashSize") &&
				strings.Contains(c.Src(rb.Body), "44 + wire.HashSize*numTransactions")
			c.check("codec.blockRecordAppend", oka, "appendRawBlockRecord / readRawBlockRecord no longer append 32-byte hashes after offset 44 and count them at [40:44]")
			lf.Def("blockRecordStride", "Nat", "32")
		}
		// the value of a game-history record
		{
			fd := c.Func(U, "", "valueGameHistory")
			okv := fd != nil && strings.Contains(c.Src(fd.Body), "return []byte{0x00}")
			c.check("codec.valueGameHistory", okv, "valueGameHistory no longer returns the single byte 0x00")
			lf.Def("valueGameHistory", "List Nat", "[0]")
		}
		// bucket names
		{
			var bl []string
			okb := true
			f := c.File(TY)
			for _, n := range []string{"bucketUnmined", "bucketTxRecords", "bucketBlocks", "bucketAddresses", "bucketGameHistory", "bucketUnminedGameHistory",
				"bucketUnminedInputs", "bucketUnminedCredits", "bucketCredits", "bucketUnspent", "bucketDebits", "bucketMinedBalance", "syncBucketName", "syncedToName", "bucketWalletStatus"} {
				val := ""
				if f != nil {
					for _, d := range f.Decls {
						if gd, ok := d.(*ast.GenDecl); ok && gd.Tok == token.CONST {
							for _, s := range gd.Specs {
								vs := s.(*ast.ValueSpec)
								for i, nm := range vs.Names {
									if nm.Name == n && i < len(vs.Values) {
										if b, ok := vs.Values[i].(*ast.BasicLit); ok {
											val, _ = strconv.Unquote(b.Value)
										}
									}
								}
							}
						}
					}
				}
				if val == "" {
					okb = false
				}
				bl = append(bl, fmt.Sprintf("(%s, %s)", leanStr(n), leanStr(val)))
			}
			lf.Def("bucketNames", "List (String × String)", "["+strings.Join(bl, ", ")+"]")
			c.check("codec.bucketNames", okb, "a bucket name constant of txmgr/type.go was not found")
		}
		// the pending record: valueUnmined serialises with wire.DB and readRawUnmined deserialises with wire.DB;
		// Rollback and insertMemPoolTx both write it through valueUnmined / putRawUnmined under the tx hash
		{
			vu := c.Func(T, "", "valueUnmined")
			ru := c.Func(T, "", "readRawUnmined")
			okm := vu != nil && ru != nil && strings.Contains(c.Src(vu.Body), "rec.MsgTx.Bytes(wire.DB)") &&
				strings.Contains(c.Src(vu.Body), "uint64(rec.Received.Unix())") &&
				strings.Contains(c.Src(ru.Body), "rec.MsgTx.SetBytes(v[8:], wire.DB)") &&
				strings.Contains(c.Src(ru.Body), "time.Unix(int64(binary.BigEndian.Uint64(v)), 0)")
			c.check("codec.pendingRecordMode", okm, "valueUnmined / readRawUnmined no longer use wire.DB on both sides with a uint64 unix time in front")
			rb := c.Func("masswallet/txmgr/txstore.go", "TxStore", "Rollback")
			im := c.Func("masswallet/txmgr/txstore.go", "TxStore", "insertMemPoolTx")
			okw := rb != nil && im != nil
			if okw {
				rs, is := c.Src(rb.Body), c.Src(im.Body)
				okw = strings.Contains(rs, "valueUnmined(&rec)") && strings.Contains(rs, "putRawUnmined(nsUnmined, txHash[:], unminedVal)") &&
					strings.Contains(rs, "rec.Received = rbBlock.Timestamp") &&
					strings.Contains(is, "valueUnmined(rec)") && strings.Contains(is, "putRawUnmined(nsUnmined, rec.Hash[:], v)")
			}
			c.check("codec.pendingRecordWriters", okw, "Rollback / insertMemPoolTx no longer write the pending record through valueUnmined + putRawUnmined under the tx hash")
		}
		lf.Write(c, "Codec.lean")
	})
}
